import HumphreyModel.Proofs.ConfStep

/-! Facts about the rendered contents: header classification, shapes of values. -/
namespace Humphrey.Conf
open Humphrey.Glob

theorem route_chars : "route".toList = ['r', 'o', 'u', 't', 'e'] := by decide
theorem host_chars : "host".toList = ['h', 'o', 's', 't'] := by decide

theorem classify_section {n : Str} (h : okSectionName n) : classify n = .ok (.section, n) := by
  obtain ⟨_, _, hr, hh⟩ := h
  simp [classify, hr, hh]

theorem blank_cons_ne {b : Char} {s t : Str} (hb : isBlank b = true) (c : Char) (hc : isBlank c = false) :
    b :: s ≠ c :: t := by
  intro e; cases e; rw [hb] at hc; cases hc

theorem classify_route {sep n : Str} (hsep : ∀ x ∈ sep, isBlank x = true) (h : okRouteName n) :
    classify ("route".toList ++ ' ' :: sep ++ n) = .ok (.route, n) := by
  obtain ⟨_, ht, hne⟩ := h
  have hnn := tight_ne_nil ht
  have e : "route".toList ++ ' ' :: sep ++ n = 'r' :: 'o' :: 'u' :: 't' :: 'e' :: ' ' :: (sep ++ n) := by
    rw [route_chars]; simp
  have h1 : routePrefix.isPrefixOf ('r' :: 'o' :: 'u' :: 't' :: 'e' :: ' ' :: (sep ++ n)) = true := by
    have : routePrefix = ['r', 'o', 'u', 't', 'e', ' '] := by decide
    rw [this]; simp [List.isPrefixOf]
  have h2 : ('r' :: 'o' :: 'u' :: 't' :: 'e' :: ' ' :: (sep ++ n)) ≠ "route {".toList := by
    have : "route {".toList = ['r', 'o', 'u', 't', 'e', ' ', '{'] := by decide
    rw [this]
    intro h
    simp only [List.cons.injEq, true_and] at h
    cases sep with
    | nil => exact hne (by simpa using h)
    | cons b s =>
      have hb := hsep b (by simp)
      simp at h
      rw [h.1] at hb; simp [isBlank] at hb
  have h3 : afterFirstSpace ('r' :: 'o' :: 'u' :: 't' :: 'e' :: ' ' :: (sep ++ n)) = sep ++ n := by
    simp [afterFirstSpace, splitOnce]
  have h4 : trim (sep ++ n) = n := by
    have := trim_wrap (a := sep) (s := n) (b := []) (fun x hx => isBlank_ws (hsep x hx)) (by simp) (Or.inr ht)
    simpa using this
  have h2' : (('r' :: 'o' :: 'u' :: 't' :: 'e' :: ' ' :: (sep ++ n)) != "route {".toList) = true := by
    simpa [bne_iff_ne] using h2
  rw [e]
  unfold classify
  simp only [h1, h2', Bool.and_self, if_true, h3, h4]

theorem tight_quoted (v : Str) : tight (quoted v) := by
  constructor
  · exact ⟨'"', by simp [quoted], by decide⟩
  · refine ⟨'"', ?_, by decide⟩
    have e : quoted v = ('"' :: v) ++ ['"'] := by simp [quoted]
    rw [e, List.getLast?_append]; simp

theorem classify_host {sep n : Str} (hsep : ∀ x ∈ sep, isBlank x = true) :
    classify ("host".toList ++ ' ' :: sep ++ quoted n) = .ok (.host, n) := by
  have e : "host".toList ++ ' ' :: sep ++ quoted n = 'h' :: 'o' :: 's' :: 't' :: ' ' :: (sep ++ quoted n) := by
    rw [host_chars]; simp
  have h0 : routePrefix.isPrefixOf ('h' :: 'o' :: 's' :: 't' :: ' ' :: (sep ++ quoted n)) = false := by
    have : routePrefix = ['r', 'o', 'u', 't', 'e', ' '] := by decide
    rw [this]; simp [List.isPrefixOf]
  have h1 : hostPrefix.isPrefixOf ('h' :: 'o' :: 's' :: 't' :: ' ' :: (sep ++ quoted n)) = true := by
    have : hostPrefix = ['h', 'o', 's', 't', ' '] := by decide
    rw [this]; simp [List.isPrefixOf]
  have h2 : ('h' :: 'o' :: 's' :: 't' :: ' ' :: (sep ++ quoted n)) ≠ "host {".toList := by
    have : "host {".toList = ['h', 'o', 's', 't', ' ', '{'] := by decide
    rw [this]
    intro h
    have hl := congrArg List.length h
    simp [quoted] at hl
    omega
  have h3 : afterFirstSpace ('h' :: 'o' :: 's' :: 't' :: ' ' :: (sep ++ quoted n)) = sep ++ quoted n := by
    simp [afterFirstSpace, splitOnce]
  have h4 : trim (sep ++ quoted n) = quoted n := by
    have := trim_wrap (a := sep) (s := quoted n) (b := []) (fun x hx => isBlank_ws (hsep x hx)) (by simp)
      (Or.inr (tight_quoted n))
    simpa using this
  have h5 : 2 ≤ utf8Len (quoted n) := by
    have e : quoted n = ('"' :: n) ++ ['"'] := by simp [quoted]
    have hq : ('"' : Char).utf8Size = 1 := by decide
    rw [e, utf8Len_append]; simp [utf8Len, hq]
  have h6 : (quoted n).head? = some '"' := by simp [quoted]
  have h7 : (quoted n).getLast? = some '"' := by
    have e : quoted n = ('"' :: n) ++ ['"'] := by simp [quoted]
    rw [e, List.getLast?_append]; simp
  have h2' : (('h' :: 'o' :: 's' :: 't' :: ' ' :: (sep ++ quoted n)) != "host {".toList) = true := by
    simpa [bne_iff_ne] using h2
  rw [e]
  unfold classify
  simp only [h0, Bool.false_and, Bool.false_eq_true, if_false, h1, h2', Bool.and_self, if_true, h3, h4,
    h5, h6, h7, beq_self_eq_true, decide_true, innerSlice_quoted]

/-! ### shapes of values -/

theorem parseNatAux_digits {s : Str} {acc n : Nat} (h : parseNatAux s acc = some n) : ∀ c ∈ s, IsDigit c := by
  induction s generalizing acc with
  | nil => intro c hc; cases hc
  | cons d s ih =>
    simp only [parseNatAux] at h
    cases hd : digitVal d with
    | none => rw [hd] at h; cases h
    | some x =>
      rw [hd] at h
      intro c hc
      simp only [List.mem_cons] at hc
      rcases hc with rfl | hc
      · exact isDigit_of_digitVal hd
      · exact ih h c hc

theorem parseDigits_digits {s : Str} {n : Nat} (h : parseDigits s = some n) :
    s ≠ [] ∧ ∀ c ∈ s, IsDigit c := by
  unfold parseDigits at h
  split at h
  · cases h
  · rename_i he
    exact ⟨by intro e; subst e; simp at he, parseNatAux_digits h⟩

/-- The characters of a text that parses as `i64`. -/
structure NumText (v : Str) : Prop where
  chars : ∀ c ∈ v, c = '+' ∨ c = '-' ∨ IsDigit c
  last : ∃ l, v.getLast? = some l ∧ IsDigit l
  head : ∃ c r, v = c :: r ∧ (c = '+' ∨ c = '-' ∨ IsDigit c)

theorem last_of_all {s : Str} (hne : s ≠ []) {P : Char → Prop} (h : ∀ c ∈ s, P c) :
    ∃ l, s.getLast? = some l ∧ P l := by
  cases hl : s.getLast? with
  | none => simp at hl; exact absurd hl hne
  | some l => exact ⟨l, rfl, h l (List.mem_of_getLast? hl)⟩

theorem numText_of_parse {v : Str} {i : Int} (h : parseI64 v = some i) : NumText v := by
  obtain ⟨c, r, rfl, hc⟩ := parseI64_head h
  have signed : ∀ {n}, parseDigits r = some n → NumText (c :: r) := by
    intro n hp
    obtain ⟨hne, hd⟩ := parseDigits_digits hp
    refine ⟨?_, ?_, ⟨c, r, rfl, hc⟩⟩
    · intro x hx
      simp only [List.mem_cons] at hx
      rcases hx with rfl | hx
      · exact hc
      · exact Or.inr (Or.inr (hd x hx))
    · obtain ⟨l, hl, hdl⟩ := last_of_all hne hd
      refine ⟨l, ?_, hdl⟩
      have e : c :: r = [c] ++ r := rfl
      rw [e, getLast?_append_ne_nil hne]; exact hl
  simp only [parseI64] at h
  split at h
  · cases hp : parseDigits r with
    | none => rw [hp] at h; cases h
    | some n => exact signed hp
  · split at h
    · cases hp : parseDigits r with
      | none => rw [hp] at h; cases h
      | some n => exact signed hp
    · cases hp : parseDigits (c :: r) with
      | none => rw [hp] at h; cases h
      | some n =>
        obtain ⟨hne, hd⟩ := parseDigits_digits hp
        refine ⟨fun x hx => Or.inr (Or.inr (hd x hx)), last_of_all hne hd, ⟨c, r, rfl, hc⟩⟩

theorem signDigit_facts {c : Char} (h : c = '+' ∨ c = '-' ∨ IsDigit c) :
    isWhitespace c = false ∧ c ≠ '#' ∧ c ≠ '{' := by
  rcases h with rfl | rfl | hd
  · decide
  · decide
  · exact ⟨hd.not_ws, hd.ne_of_toNat (by decide), hd.ne_of_toNat (by decide)⟩

/-- What the line-level lemmas need to know about a value text. -/
structure ValueOk (value : Str) : Prop where
  tight : tight value
  last : value.getLast? ≠ some '{'
  noHash : ∀ c ∈ value, c ≠ '#'

theorem valueOk_num {v : Str} (h : NumText v) : ValueOk v := by
  obtain ⟨c, r, rfl, hc⟩ := h.head
  obtain ⟨l, hl, hdl⟩ := h.last
  refine ⟨⟨⟨c, rfl, (signDigit_facts hc).1⟩, ⟨l, hl, hdl.not_ws⟩⟩, ?_, ?_⟩
  · rw [hl]; intro e; cases e; exact absurd rfl (hdl.ne_of_toNat (by decide))
  · intro x hx; exact (signDigit_facts (h.chars x hx)).2.1

theorem valueOk_quoted {v : Str} (h : noHashNl v) : ValueOk (quoted v) := by
  refine ⟨tight_quoted v, ?_, ?_⟩
  · have := (tight_quoted v).2
    have e : quoted v = ('"' :: v) ++ ['"'] := by simp [quoted]
    rw [e, List.getLast?_append]; simp
  · intro c hc
    simp only [quoted, List.mem_cons, List.mem_append, List.mem_singleton, List.not_mem_nil, or_false] at hc
    rcases hc with (rfl | hc) | rfl
    · decide
    · exact (h c hc).1
    · decide

theorem valueOk_bool {v : Str} (h : v = "true".toList ∨ v = "false".toList) : ValueOk v := by
  rcases h with rfl | rfl
  · have e : "true".toList = ['t', 'r', 'u', 'e'] := by decide
    rw [e]
    exact ⟨⟨⟨'t', rfl, by decide⟩, ⟨'e', rfl, by decide⟩⟩, by decide, by decide⟩
  · have e : "false".toList = ['f', 'a', 'l', 's', 'e'] := by decide
    rw [e]
    exact ⟨⟨⟨'f', rfl, by decide⟩, ⟨'e', rfl, by decide⟩⟩, by decide, by decide⟩

theorem unit_char_facts {u : Char} {m : Nat} (h : unitFactor u = some m) :
    isWhitespace u = false ∧ u ≠ '{' ∧ u ≠ '#' ∧ 0 < m := by
  unfold unitFactor at h
  split at h
  · rename_i hu; cases h; rcases hu with rfl | rfl <;> decide
  · split at h
    · rename_i hu; cases h; rcases hu with rfl | rfl <;> decide
    · split at h
      · rename_i hu; cases h; rcases hu with rfl | rfl <;> decide
      · cases h

theorem valueOk_unit (q : Nat) {u : Char} {m : Nat} (h : unitFactor u = some m) :
    ValueOk (showNat q ++ [u]) := by
  obtain ⟨hw, hb, hh, _⟩ := unit_char_facts h
  obtain ⟨c, r, hcr, hd⟩ := showNat_head q
  refine ⟨⟨⟨c, by rw [hcr]; rfl, hd.not_ws⟩, ⟨u, by simp, hw⟩⟩, ?_, ?_⟩
  · simp only [List.getLast?_append, List.getLast?_singleton, Option.some_or]
    intro e; cases e; exact hb rfl
  · intro x hx
    simp only [List.mem_append, List.mem_singleton] at hx
    rcases hx with hx | rfl
    · exact (showNat_all_digits q x hx).ne_of_toNat (by decide)
    · exact hh

/-- The value text of a rendered number is typed back to the number. -/
theorem number_value {k v : Str} (unit : Option Char) (h : (parseI64 v).isSome = true) :
    ValueOk (spellNumber v unit (natOfText v)) ∧
      typeValue k (spellNumber v unit (natOfText v)) = .ok (.number k v) := by
  obtain ⟨i, hi⟩ := Option.isSome_iff_exists.mp h
  have plain : ValueOk v ∧ typeValue k v = .ok (.number k v) :=
    ⟨valueOk_num (numText_of_parse hi), typeValue_number h⟩
  unfold spellNumber
  cases unit with
  | none => exact plain
  | some u =>
    simp only
    cases hu : unitFactor u with
    | none => exact plain
    | some m =>
      simp only
      split
      · rename_i hc
        obtain ⟨hv, hmod⟩ := hc
        obtain ⟨_, _, _, hm⟩ := unit_char_facts hu
        generalize natOfText v = n at hv hmod
        subst hv
        -- `n` fits in an i64 because its decimal text parses as one
        have hn : (n : Int) ≤ i64Max := by
          obtain ⟨c, r, hcr, hd⟩ := showNat_head n
          have hp := parseDigits_showNat n
          rw [hcr] at hp hi
          have h1 : c ≠ '+' := hd.ne_of_toNat (by decide)
          have h2 : c ≠ '-' := hd.ne_of_toNat (by decide)
          simp only [parseI64, h1, h2, if_false, hp] at hi
          split at hi
          · assumption
          · cases hi
        have hq : n / m * m = n := Nat.div_mul_cancel (Nat.dvd_of_mod_eq_zero hmod)
        have hlt : n / m * m < 2 ^ 63 := by
          rw [hq]; simp only [i64Max] at hn; omega
        refine ⟨valueOk_unit _ hu, ?_⟩
        rw [typeValue_unit hu hlt, hq]
      · exact plain

end Humphrey.Conf
