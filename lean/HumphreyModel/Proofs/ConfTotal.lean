import HumphreyModel.Proofs.ConfValue

/-! The parser model never reaches a panic outcome (C15, and C03 for the configuration parser). -/
namespace Humphrey.Conf
open Humphrey.Glob

theorem goLines_ne_panic (inc : Str → Str → Nat → Nat → Res ConfError (List Node))
    (hinc : ∀ p f l d, inc p f l d ≠ .panic) (file : Str) (base : Nat) :
    ∀ lines ln stack cur, goLines inc file base lines ln stack cur ≠ .panic := by
  intro lines
  induction lines with
  | nil => intro ln stack cur; simp [goLines]
  | cons raw rest ih =>
    intro ln stack cur
    unfold goLines
    dsimp only
    split
    · split
      · split
        · simp
        · exact ih _ _ _
      · simp
      · rename_i h; exact absurd h (classify_ne_panic _)
    · split
      · split
        · simp
        · exact ih _ _ _
      · split
        · exact ih _ _ _
        · split
          · simp
          · split
            · split
              · exact ih _ _ _
              · simp
              · rename_i h; exact absurd h (typeValue_ne_panic _ _)
            · split
              · rename_i hw
                obtain ⟨v, hv⟩ := wildcard_quote_shape hw
                split
                · rename_i hn; rw [hv, innerSlice_quoted] at hn; cases hn
                · split
                  · exact ih _ _ _
                  · simp
                  · rename_i h; exact absurd h (hinc _ _ _ _)
              · simp

theorem parseFile_ne_panic (fs : FS) : ∀ fuel path cf line depth, parseFile fs fuel path cf line depth ≠ .panic := by
  intro fuel
  induction fuel with
  | zero => intro path cf line depth; simp [parseFile]
  | succ n ih =>
    intro path cf line depth
    unfold parseFile
    split
    · simp
    · split
      · simp
      · simp
      · exact goLines_ne_panic _ (fun p f l d => ih p f l d) _ _ _ _ _ _

theorem parseConf_ne_panic (fs : FS) (conf filename : Str) : parseConf fs conf filename ≠ .panic := by
  unfold parseConf parseConfLines
  split
  · simp
  · split
    · simp
    · simp
    · rename_i h
      exact absurd h (goLines_ne_panic _ (fun p f l d => parseFile_ne_panic fs _ p f l d) _ _ _ _ _ _)

end Humphrey.Conf
