import HumphreyModel.Proofs.FsWalk
import HumphreyModel.Spec.Glob
/-!
Confinement of `try_find_path` and of the four handlers (C06), and the witness of the escape of
the unrepaired `serve_as_file_path`.
-/
namespace Humphrey.Fs
open Humphrey

theorem components_join (d r : Bytes) :
    components (d ++ [47] ++ r) = components d ++ components r := by
  simp only [components, List.append_assoc, List.singleton_append]
  exact splitOn_append_sep 47 d r

/-- `metadata` of `directory/rest`: first the directory is walked, then the rest from there. -/
theorem metadata_join {world : Node} {d r : Bytes} {canon : List Name} {node : Node}
    (h : metadata world (d ++ [47] ++ r) = some (canon, node)) :
    ∃ dcanon, canonicalDir world d = some dcanon ∧ walk world dcanon (components r) = some canon ∧
      lookup world canon = some node := by
  unfold metadata at h
  rw [components_join, walk_append] at h
  unfold canonicalDir
  cases hd : walk world [] (components d) with
  | none => simp [hd] at h
  | some dcanon =>
    simp only [hd, Option.bind_some] at h
    cases hw : walk world dcanon (components r) with
    | none => simp [hw] at h
    | some c =>
      simp only [hw] at h
      cases hl : lookup world c with
      | none => simp [hl] at h
      | some n =>
        simp only [hl, Option.some.injEq, Prod.mk.injEq] at h
        obtain ⟨rfl, rfl⟩ := h
        exact ⟨dcanon, rfl, hw, hl⟩

/-- A walk without `..` from the directory to a regular file stays inside the directory. -/
theorem inside_of_walk {world : Node} {dcanon canon : List Name} {comps : List Name} {c : Bytes}
    (hno : ∀ x ∈ comps, x ≠ [46, 46]) (hw : walk world dcanon comps = some canon)
    (hl : lookup world canon = some (.file c)) : Spec.Inside world dcanon canon c := by
  obtain ⟨rel, rfl⟩ := walk_descends hno hw
  obtain ⟨dnode, hd, hr⟩ := lookup_prefix hl
  exact ⟨dnode, rel, (lookup_iff_descends _ _ _).mp hd, rfl, (lookup_iff_descends _ _ _).mp hr⟩

theorem findIndex_file {world : Node} {d rp : Bytes} {index : List Bytes} {p : List Name}
    (h : findIndex world d rp index = some (.file p)) :
    ∃ f ∈ index, ∃ c, metadata world (d ++ [47] ++ rp ++ f) = some (p, .file c) := by
  induction index with
  | nil => simp [findIndex] at h
  | cons f fs ih =>
    simp only [findIndex] at h
    split at h
    · rename_i canon c hm
      simp only [Option.some.injEq, Located.file.injEq] at h
      subst h
      exact ⟨f, List.mem_cons_self .., c, hm⟩
    · obtain ⟨g, hg, c, hc⟩ := ih h
      exact ⟨g, List.mem_cons_of_mem _ hg, c, hc⟩

theorem endsWithSlash_eq {s : Bytes} (h : endsWithSlash s = true) : s = s.dropLast ++ [47] := by
  unfold endsWithSlash at h
  have h' : s.getLast? = some 47 := by simpa using h
  obtain ⟨ys, rfl⟩ := List.getLast?_eq_some_iff.mp h'
  simp

theorem hasDotDot_trimStartSlash {s : Bytes} (h : hasDotDot s = false) :
    hasDotDot (trimStartSlash s) = false := by
  have hs : s = s.takeWhile (· == 47) ++ trimStartSlash s ++ [] := by
    simp [trimStartSlash, List.takeWhile_append_dropWhile]
  rw [hs] at h
  exact hasDotDot_piece h

/-- Components of `rp ++ f` when `rp` is empty or ends in `/`. -/
theorem components_index {rp f : Bytes} (hrp : endsWithSlash rp = true ∨ rp = []) :
    components (rp ++ f) = components f ∨
      components (rp ++ f) = components rp.dropLast ++ components f := by
  rcases hrp with h | rfl
  · right
    have := endsWithSlash_eq h
    conv => lhs; rw [this]
    simp only [components, List.append_assoc, List.singleton_append]
    exact splitOn_append_sep 47 _ f
  · left; simp

/-- **Confinement of `try_find_path`** (general index list without `..` components). -/
theorem tryFindPath_confined {world : Node} {dir req : Bytes} {index : List Bytes}
    (hidx : ∀ f ∈ index, ∀ c ∈ components f, c ≠ [46, 46]) {p : List Name}
    (h : tryFindPath world dir req index = some (.file p)) :
    ∃ dirPath c, canonicalDir world (trimEndSlash dir) = some dirPath ∧
      lookup world p = some (.file c) ∧ Spec.Inside world dirPath p c := by
  unfold tryFindPath at h
  split at h
  · simp at h
  · rename_i decoded hdec
    split at h
    · simp at h
    · split at h
      · simp at h
      · rename_i hchk
        have hdd : hasDotDot decoded = false := by
          cases hx : hasDotDot decoded with
          | false => rfl
          | true => simp [hx] at hchk
        have hrp := hasDotDot_trimStartSlash hdd
        simp only at h
        split at h
        · -- index files
          rename_i hbr
          obtain ⟨f, hf, c, hm⟩ := findIndex_file h
          have hm' : metadata world (trimEndSlash dir ++ [47] ++ (trimStartSlash decoded ++ f)) =
              some (p, .file c) := by simpa [List.append_assoc] using hm
          obtain ⟨dcanon, hd, hw, hl⟩ := metadata_join hm'
          refine ⟨dcanon, c, hd, hl, inside_of_walk ?_ hw hl⟩
          have hbr' : endsWithSlash (trimStartSlash decoded) = true ∨ trimStartSlash decoded = [] := by
            simp only [Bool.or_eq_true, List.isEmpty_iff] at hbr
            exact hbr
          rcases components_index (f := f) hbr' with he | he
          · rw [he]; exact hidx f hf
          · rw [he]
            intro x hx
            rcases List.mem_append.mp hx with hx | hx
            · have h1 : hasDotDot (trimStartSlash decoded).dropLast = false := by
                rcases hbr' with hb | hb
                · have := endsWithSlash_eq hb
                  rw [this] at hrp
                  exact hasDotDot_piece (pre := []) (by simpa using hrp)
                · simp [hb, hasDotDot]
              exact no_dotdot_component h1 x hx
            · exact hidx f hf x hx
        · split at h
          · rename_i canon c hm
            simp only [Option.some.injEq, Located.file.injEq] at h
            subst h
            obtain ⟨dcanon, hd, hw, hl⟩ := metadata_join hm
            exact ⟨dcanon, c, hd, hl, inside_of_walk (no_dotdot_component hrp) hw hl⟩
          · simp at h
          · simp at h

theorem indexFiles_plain : ∀ f ∈ indexFiles, ∀ c ∈ components f, c ≠ [46, 46] := by
  intro f hf c hc
  simp only [indexFiles, List.mem_cons, List.not_mem_nil, or_false] at hf
  rcases hf with rfl | rfl <;>
    · simp [components, Bytes.splitOn] at hc
      subst hc
      simp

/-- **Confinement of `serve_dir`.** -/
theorem serveDir_confined {world : Node} {dir : Bytes} {uri route : List Char} {ct : Option Bytes}
    {body : Bytes} {p : List Name} (h : serveDir world dir uri route = .ok ct body p) :
    ∃ dirPath, canonicalDir world (trimEndSlash dir) = some dirPath ∧ Spec.Inside world dirPath p body := by
  unfold serveDir at h
  simp only at h
  split at h
  · simp at h
  · rename_i path hfind
    obtain ⟨dirPath, c, hd, hl, hin⟩ := tryFindPath_confined indexFiles_plain hfind
    rw [hl] at h
    simp only at h
    split at h <;>
      · simp only [Resp.ok.injEq] at h
        obtain ⟨-, rfl, rfl⟩ := h
        exact ⟨dirPath, hd, hin⟩
  · simp at h

/-- **Confinement of the server's `directory_handler`.** -/
theorem directoryHandler_confined {world : Node} {dir : Bytes} {uri pattern : List Char}
    {ct : Option Bytes} {body : Bytes} {p : List Name}
    (h : directoryHandler world dir uri pattern = .ok ct body p) :
    ∃ dirPath, canonicalDir world (trimEndSlash dir) = some dirPath ∧ Spec.Inside world dirPath p body := by
  unfold directoryHandler at h
  split at h
  · simp at h
  · split at h
    · simp at h
    · rename_i path hfind
      obtain ⟨dirPath, c, hd, hl, hin⟩ := tryFindPath_confined indexFiles_plain hfind
      unfold innerFileHandler at h
      rw [hl] at h
      simp only [Resp.ok.injEq] at h
      obtain ⟨-, rfl, rfl⟩ := h
      exact ⟨dirPath, hd, hin⟩
    · simp at h

theorem utf8_cons (c : Char) (s : List Char) : utf8 (c :: s) = String.utf8EncodeChar c ++ utf8 s := by
  simp [utf8]

theorem utf8_slash_cons (s : List Char) : utf8 ('/' :: s) = 47 :: utf8 s := by
  rw [utf8_cons]; rfl

/-- **Confinement of the repaired `serve_as_file_path`.** -/
theorem serveAsFilePath_confined {world : Node} {dir : Bytes} {uri : List Char} {ct : Option Bytes}
    {body : Bytes} {p : List Name} (h : serveAsFilePath world dir uri = .ok ct body p) :
    ∃ dirPath, canonicalDir world (stripOneEndSlash dir) = some dirPath ∧
      Spec.Inside world dirPath p body := by
  unfold serveAsFilePath at h
  split at h
  · simp at h
  · rename_i hdd
    have hdd : hasDotDot (utf8 uri) = false := by simpa using hdd
    unfold serveAsFilePathUnchecked at h
    simp only at h
    split at h
    · rename_i canon c hm
      have hbody : c = body ∧ canon = p := by
        split at h <;> (simp only [Resp.ok.injEq] at h; exact ⟨h.2.1, h.2.2⟩)
      obtain ⟨rfl, rfl⟩ := hbody
      obtain ⟨dcanon, hd, hw, hl⟩ := metadata_join hm
      refine ⟨dcanon, hd, inside_of_walk (no_dotdot_component ?_) hw hl⟩
      split
      · rename_i rest
        rw [utf8_slash_cons] at hdd
        exact hasDotDot_piece (pre := [47]) (post := []) (by simpa using hdd)
      · exact hdd
    · simp at h

/-! ### The escape of the unrepaired `serve_as_file_path` (D17), kept as a proved witness -/

/-- World: `/c` (the canary) and `/s/a`; the served directory is `s`. -/
def witnessWorld : Node :=
  .dir [([99], .file [67, 65, 78, 65, 82, 89]), ([115], .dir [([97], .file [1])])]

/-- `GET /../c` against directory `s`: the old handler answered 200 with the canary's bytes. -/
theorem serveAsFilePathUnchecked_escapes :
    serveAsFilePathUnchecked witnessWorld [115] ['/', '.', '.', '/', 'c'] =
      .ok none [67, 65, 78, 65, 82, 89] [[99]] := by
  rfl

theorem witness_outside : ¬ Spec.Inside witnessWorld [[115]] [[99]] [67, 65, 78, 65, 82, 89] := by
  rintro ⟨dnode, rel, -, h, -⟩
  simp at h

/-- The repaired handler answers 404 on the same request. -/
theorem serveAsFilePath_witness_repaired :
    serveAsFilePath witnessWorld [115] ['/', '.', '.', '/', 'c'] = .notFound := by
  rfl

/-! ### `String::remove(0)` never runs on an empty string for a URI that matched the pattern -/

theorem stripMatched_some {pattern uri : List Char}
    (h : (pattern.takeWhile (· ≠ '*')).length ≤ uri.length) : ∃ r, stripMatched pattern uri = some r := by
  induction pattern generalizing uri with
  | nil => exact ⟨uri, by simp [stripMatched]⟩
  | cons ch rest ih =>
    by_cases hc : ch = '*'
    · exact ⟨uri, by simp [stripMatched, hc]⟩
    · cases uri with
      | nil => simp [List.takeWhile, hc] at h
      | cons u us =>
        simp only [List.takeWhile, hc, ne_eq, not_false_eq_true, decide_true, List.length_cons,
          Nat.add_le_add_iff_right] at h
        obtain ⟨r, hr⟩ := ih h
        exact ⟨r, by simp [stripMatched, hc, hr]⟩

/-- A text matched by a pattern has at least as many characters as the pattern's literal prefix. -/
theorem glob_prefix_le {p t : List Char} (h : Glob.Glob p t) :
    (p.takeWhile (· ≠ '*')).length ≤ t.length := by
  induction h with
  | nil => simp
  | lit hc _ ih => simpa [List.takeWhile, hc] using ih
  | starSkip _ _ => simp [List.takeWhile]
  | starEat _ _ => simp [List.takeWhile]

end Humphrey.Fs
