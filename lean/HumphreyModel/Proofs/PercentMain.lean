import HumphreyModel.Proofs.Percent

/-! Main lemmas for the percent-encoding half of C18. -/
namespace Humphrey.Percent

theorem escape_eq_spec (b : UInt8) (h : Spec.unreserved b = false) : escape b = Spec.encodeByte b := by
  have h16 : b.toNat / 16 < 16 := by have := b.toNat_lt; omega
  have h16' : b.toNat % 16 < 16 := by omega
  simp [escape, Spec.encodeByte, h, hexUpper_eq_spec h16, hexUpper_eq_spec h16']

theorem encode_eq_spec' (bs : Bytes) : encode bs = Spec.encode bs := by
  induction bs with
  | nil => rfl
  | cons b rest ih =>
    have hs : Spec.encode (b :: rest) = Spec.encodeByte b ++ Spec.encode rest := by
      simp [Spec.encode]
    rw [hs, encode, contains_eq_unreserved, ih]
    cases h : Spec.unreserved b
    · simp [escape_eq_spec b h]
    · simp [Spec.encodeByte, h]

theorem decode_cons_lit {c : UInt8} (h : c ≠ 37) (s : Bytes) :
    decode (c :: s) = (decode s).map (c :: ·) := by
  rw [decode.eq_def]; simp [h]

theorem decode_escape (b : UInt8) (s : Bytes) :
    decode (escape b ++ s) = (decode s).map (b :: ·) := by
  have h16 : b.toNat / 16 < 16 := by have := b.toNat_lt; omega
  have h16' : b.toNat % 16 < 16 := by omega
  have hb : UInt8.ofNat (b.toNat / 16 * 16 + b.toNat % 16) = b := by
    rw [Nat.div_add_mod']; exact UInt8.ofNat_toNat
  simp [escape, decode, hexVal_hexUpper h16, hexVal_hexUpper h16', hb]

theorem decode_encode' (bs : Bytes) : decode (encode bs) = some bs := by
  induction bs with
  | nil => rfl
  | cons b rest ih =>
    rw [encode]
    split
    · next h => rw [decode_cons_lit (unreserved_ne_percent h), ih]; rfl
    · rw [decode_escape, ih]; rfl

theorem decode_sound (s : Bytes) : ∀ b, decode s = some b → Spec.Denotes s b := by
  induction s using decode.induct with
  | case1 => intro b h; simp [decode] at h; subst h; exact .nil
  | case2 h1 h2 rest' hi lo hlo hhi ih =>
    intro b h
    simp only [decode, if_true, hlo, hhi, Option.map_eq_some_iff] at h
    obtain ⟨b', hb', rfl⟩ := h
    have := Spec.Denotes.esc (hexVal_eq_spec h1 ▸ hhi) (hexVal_eq_spec h2 ▸ hlo) (ih b' hb')
    rwa [Nat.mul_comm] at this
  | case3 h1 h2 rest' hbad =>
    intro b h
    exfalso
    cases e1 : hexVal h1 with
    | none => simp [decode, e1] at h
    | some v1 =>
      cases e2 : hexVal h2 with
      | none => simp [decode, e1, e2] at h
      | some v2 => exact hbad _ _ e1 e2
  | case4 rest hshort =>
    intro b h
    exfalso
    match rest, hshort with
    | [], _ => simp [decode] at h
    | [_], _ => simp [decode] at h
    | x :: y :: r, hs => exact hs x y r rfl
  | case5 c rest hc ih =>
    intro b h
    rw [decode_cons_lit hc, Option.map_eq_some_iff] at h
    obtain ⟨b', hb', rfl⟩ := h
    exact .lit hc (ih b' hb')

theorem decode_complete {s b : Bytes} (h : Spec.Denotes s b) : decode s = some b := by
  induction h with
  | nil => rfl
  | lit hc _ ih => rw [decode_cons_lit hc, ih]; rfl
  | @esc x y hi lo s b hx hy _ ih =>
    rw [← hexVal_eq_spec] at hx hy
    simp [decode, hx, hy, ih, Nat.mul_comm]

/-- Is `c` a hexadecimal digit (either case)? -/
def isHex (c : UInt8) : Prop := (hexVal c).isSome

theorem decode_bad_escape (pre : Bytes) : ∀ post : Bytes,
    (¬ ∃ x y rest, post = x :: y :: rest ∧ (hexVal x).isSome ∧ (hexVal y).isSome) →
    decode (pre ++ 37 :: post) = none := by
  induction pre using decode.induct with
  | case1 =>
    intro post h
    match post with
    | [] => simp [decode]
    | [_] => simp [decode]
    | x :: y :: r =>
      cases e1 : hexVal x <;> cases e2 : hexVal y <;> simp [decode, e1, e2]
      exact absurd ⟨x, y, r, rfl, by simp [e1], by simp [e2]⟩ h
  | case2 h1 h2 rest' hi lo hlo hhi ih =>
    intro post h
    simp [decode, hlo, hhi, ih post h]
  | case3 h1 h2 rest' hbad =>
    intro post h
    cases e1 : hexVal h1 <;> cases e2 : hexVal h2 <;> simp [decode, e1, e2]
    exact (hbad _ _ e1 e2).elim
  | case4 rest hshort =>
    intro post h
    match rest, hshort with
    | [], _ => cases post <;> simp [decode, hexVal_percent]
    | [x], _ => cases e1 : hexVal x <;> simp [decode, hexVal_percent, e1]
    | x :: y :: r, hs => exact absurd rfl (hs x y r)
  | case5 c rest hc ih =>
    intro post h
    rw [List.cons_append, decode_cons_lit hc, ih post h]; rfl

end Humphrey.Percent
