import HumphreyModel.Proofs.ConfContent

/-! The `parse_section` loop reads a rendered tree back (tree-level round trip). -/
namespace Humphrey.Conf
open Humphrey.Glob

section
variable (inc : Str → Str → Nat → Nat → Res ConfError (List Node)) (file : Str) (base : Nat)

theorem mkLines_length (d : Deco) (content : Str) : (mkLines d content).length = d.pre.length + 1 := by
  simp [mkLines]

/-- Reading the filler lines of a decorated line leaves its own line, which cleans up to the
content. -/
theorem go_mkLines {d : Deco} (hd : d.ok) {content : Str} (hno : ∀ x ∈ content, x ≠ '#')
    (ht : tight content) (rest : List Str) (ln : Nat) (stack : List Frame) (cur : List Node) :
    ∃ raw, cleanUp raw = content ∧
      goLines inc file base (mkLines d content ++ rest) ln stack cur =
        goLines inc file base (raw :: rest) (ln + d.pre.length) stack cur := by
  obtain ⟨hpre, hind, _, _, htr, _⟩ := hd
  refine ⟨d.indent ++ content ++ d.trail ++ commentText d.comment,
    cleanUp_line d.comment hind htr hno (Or.inr ht), ?_⟩
  unfold mkLines
  rw [List.append_assoc, go_fillers inc file base d.pre (fun f hf => (hpre f hf).1)]
  rfl

theorem tight_append {a b : Str} (ha : tight a) (hb : tight b) (m : Str) : tight (a ++ m ++ b) := by
  obtain ⟨⟨c, hc, hcw⟩, _⟩ := ha
  obtain ⟨_, ⟨l, hl, hlw⟩⟩ := hb
  have hbne : b ≠ [] := by intro e; subst e; simp at hl
  constructor
  · refine ⟨c, ?_, hcw⟩
    cases a with
    | nil => simp at hc
    | cons x a => simpa using hc
  · exact ⟨l, by rw [getLast?_append_ne_nil hbne]; exact hl, hlw⟩

theorem blank_ne_hash {s : Str} (h : ∀ x ∈ s, isBlank x = true) : ∀ x ∈ s, x ≠ '#' := by
  intro x hx e; subst e; have := h _ hx; simp [isBlank] at this

theorem go_kv_line {d : Deco} (hd : d.ok) {key value : Str} {node : Node} (hkey : okKey key)
    (hv : ValueOk value) (ht : typeValue key value = .ok node)
    (rest : List Str) (ln : Nat) (stack : List Frame) (cur : List Node) :
    goLines inc file base (mkLines d (kvContent d key value) ++ rest) ln stack cur =
      goLines inc file base rest (ln + (mkLines d (kvContent d key value)).length) stack (node :: cur) := by
  have hsep := hd.2.2.1
  have hkt : tight key := tight_of_no_ws hkey.1 (fun c hc => (hkey.2.1 c hc).1)
  have hno : ∀ x ∈ kvContent d key value, x ≠ '#' := by
    intro x hx
    simp only [kvContent, List.mem_append, List.mem_cons] at hx
    rcases hx with (hx | rfl | hx) | hx
    · exact (hkey.2.1 x hx).2
    · decide
    · exact blank_ne_hash hsep x hx
    · exact hv.noHash x hx
  have htc : tight (kvContent d key value) := by
    have := tight_append hkt hv.tight (' ' :: d.sep)
    simpa [kvContent] using this
  obtain ⟨raw, hc, hgo⟩ := go_mkLines inc file base hd hno htc rest ln stack cur
  rw [hgo, go_kv inc file base (by simpa [kvContent] using hc) hkey hsep hv.tight hv.last ht, mkLines_length]
  congr 1

theorem tight_brace : tight ['}'] := ⟨⟨'}', rfl, by decide⟩, ⟨'}', rfl, by decide⟩⟩

/-- A section-like node: header line, body, closing line. `ih` is the statement for the body. -/
theorem go_sectionLike {d dc : Deco} (hd : d.ok) (hdc : dc.ok) {hdr name : Str} {k : Kind}
    (hcl : classify hdr = .ok (k, name)) (hh : tight hdr) (hno : ∀ x ∈ hdr, x ≠ '#')
    (body : List Str) (cs : List Node) (depth : Nat)
    (ih : ∀ rest ln stack cur, base + stack.length + depth ≤ maxDepth →
      goLines inc file base (body ++ rest) ln stack cur =
        goLines inc file base rest (ln + body.length) stack (cs.reverse ++ cur))
    (rest : List Str) (ln : Nat) (stack : List Frame) (cur : List Node)
    (hdep : base + stack.length + (depth + 1) ≤ maxDepth) :
    goLines inc file base (mkLines d (hdr ++ d.gap ++ ['{']) ++ body ++ mkLines dc ['}'] ++ rest) ln stack cur =
      goLines inc file base rest
        (ln + (mkLines d (hdr ++ d.gap ++ ['{']) ++ body ++ mkLines dc ['}']).length) stack
        (mkNode k name cs :: cur) := by
  have hgap := hd.2.2.2.1
  have hno1 : ∀ x ∈ hdr ++ d.gap ++ ['{'], x ≠ '#' := by
    intro x hx
    simp only [List.mem_append, List.mem_singleton] at hx
    rcases hx with (hx | hx) | rfl
    · exact hno x hx
    · exact blank_ne_hash hgap x hx
    · decide
  have ht1 : tight (hdr ++ d.gap ++ ['{']) :=
    tight_append hh ⟨⟨'{', rfl, by decide⟩, ⟨'{', rfl, by decide⟩⟩ d.gap
  simp only [List.append_assoc]
  obtain ⟨raw, hc, hgo⟩ := go_mkLines inc file base hd hno1 ht1
    (body ++ (mkLines dc ['}'] ++ rest)) ln stack cur
  simp only [List.append_assoc] at hgo hc
  rw [hgo]
  rw [go_open inc file base (hdr := hdr) (gap := d.gap) (by simpa using hc) hgap hh hcl _ _ _ _ (by omega)]
  rw [ih _ _ _ _ (by simp only [List.length_cons]; omega)]
  obtain ⟨raw2, hc2, hgo2⟩ := go_mkLines inc file base hdc (content := ['}']) (by decide) tight_brace
    rest (ln + d.pre.length + 1 + body.length) ((k, name, cur) :: stack) (cs.reverse ++ [])
  rw [hgo2, go_close_pop inc file base hc2]
  simp only [List.append_nil, List.reverse_reverse, List.length_append, mkLines_length]
  congr 1
  omega

end

theorem hdr_route_facts {sep n : Str} (hsep : ∀ x ∈ sep, isBlank x = true) (h : okRouteName n) :
    tight ("route".toList ++ ' ' :: sep ++ n) ∧ ∀ x ∈ "route".toList ++ ' ' :: sep ++ n, x ≠ '#' := by
  constructor
  · have := tight_append (a := "route".toList) (b := n) ⟨⟨'r', rfl, by decide⟩, ⟨'e', rfl, by decide⟩⟩ h.2.1 (' ' :: sep)
    simpa using this
  · intro x hx
    simp only [List.mem_append, List.mem_cons] at hx
    rcases hx with (hx | rfl | hx) | hx
    · rw [route_chars] at hx; simp at hx; rcases hx with rfl | rfl | rfl | rfl | rfl <;> decide
    · decide
    · exact blank_ne_hash hsep x hx
    · exact (h.1 x hx).1

theorem hdr_host_facts {sep n : Str} (hsep : ∀ x ∈ sep, isBlank x = true) (h : noHashNl n) :
    tight ("host".toList ++ ' ' :: sep ++ quoted n) ∧ ∀ x ∈ "host".toList ++ ' ' :: sep ++ quoted n, x ≠ '#' := by
  constructor
  · have := tight_append (a := "host".toList) (b := quoted n) ⟨⟨'h', rfl, by decide⟩, ⟨'t', rfl, by decide⟩⟩
      (tight_quoted n) (' ' :: sep)
    simpa using this
  · intro x hx
    simp only [List.mem_append, List.mem_cons] at hx
    rcases hx with (hx | rfl | hx) | hx
    · rw [host_chars] at hx; simp at hx; rcases hx with rfl | rfl | rfl | rfl <;> decide
    · decide
    · exact blank_ne_hash hsep x hx
    · exact (valueOk_quoted h).noHash x hx

theorem renderNode_section (lay : Layout) (path : List Nat) (name : Str) (cs : List Node) :
    renderNode lay path (.section name cs) =
      mkLines (lay.line path) (name ++ (lay.line path).gap ++ ['{']) ++ renderNodes lay path 0 cs ++
        mkLines (lay.close path) ['}'] := rfl

theorem renderNode_host (lay : Layout) (path : List Nat) (name : Str) (cs : List Node) :
    renderNode lay path (.host name cs) =
      mkLines (lay.line path) ("host".toList ++ ' ' :: (lay.line path).sep ++ quoted name ++ (lay.line path).gap ++ ['{']) ++
        renderNodes lay path 0 cs ++ mkLines (lay.close path) ['}'] := rfl

theorem renderNode_route (lay : Layout) (path : List Nat) (name : Str) (cs : List Node) :
    renderNode lay path (.route name cs) =
      mkLines (lay.line path) ("route".toList ++ ' ' :: (lay.line path).sep ++ name ++ (lay.line path).gap ++ ['{']) ++
        renderNodes lay path 0 cs ++ mkLines (lay.close path) ['}'] := rfl

mutual
theorem go_renderNode (inc : Str → Str → Nat → Nat → Res ConfError (List Node)) (file : Str) (base : Nat)
    (lay : Layout) (hl : lay.ok) (n : Node) (hwf : WFNode n) (path : List Nat)
    (rest : List Str) (ln : Nat) (stack : List Frame) (cur : List Node)
    (hdep : base + stack.length + nodeDepth n ≤ maxDepth) :
    goLines inc file base (renderNode lay path n ++ rest) ln stack cur =
      goLines inc file base rest (ln + (renderNode lay path n).length) stack (n :: cur) := by
  cases n with
  | number k v =>
    simp only [WFNode] at hwf
    obtain ⟨hv, ht⟩ := number_value (k := k) (lay.line path).unit hwf.2
    simp only [renderNode]
    exact go_kv_line inc file base (hl path).1 hwf.1 hv ht rest ln stack cur
  | boolean k v =>
    simp only [WFNode] at hwf
    simp only [renderNode]
    exact go_kv_line inc file base (hl path).1 hwf.1 (valueOk_bool hwf.2) (typeValue_bool hwf.2) rest ln stack cur
  | string k v =>
    simp only [WFNode] at hwf
    simp only [renderNode]
    exact go_kv_line inc file base (hl path).1 hwf.1 (valueOk_quoted hwf.2) (typeValue_string k v) rest ln stack cur
  | «section» name cs =>
    simp only [WFNode] at hwf
    simp only [nodeDepth] at hdep
    rw [renderNode_section]
    have := go_sectionLike inc file base (hl path).1 (hl path).2 (hdr := name) (classify_section hwf.1) hwf.1.2.1
      (fun x hx => (hwf.1.1 x hx).1) (renderNodes lay path 0 cs) cs (nodesDepth cs)
      (fun rest ln stack cur h => go_renderNodes inc file base lay hl cs hwf.2 path 0 rest ln stack cur h)
      rest ln stack cur hdep
    simpa [mkNode] using this
  | host name cs =>
    simp only [WFNode] at hwf
    simp only [nodeDepth] at hdep
    rw [renderNode_host]
    have hsep := (hl path).1.2.2.1
    have hf := hdr_host_facts hsep hwf.1
    have := go_sectionLike inc file base (hl path).1 (hl path).2 (classify_host hsep) hf.1
      hf.2 (renderNodes lay path 0 cs) cs (nodesDepth cs)
      (fun rest ln stack cur h => go_renderNodes inc file base lay hl cs hwf.2 path 0 rest ln stack cur h)
      rest ln stack cur hdep
    simpa [mkNode] using this
  | route name cs =>
    simp only [WFNode] at hwf
    simp only [nodeDepth] at hdep
    rw [renderNode_route]
    have hsep := (hl path).1.2.2.1
    have hf := hdr_route_facts hsep hwf.1
    have := go_sectionLike inc file base (hl path).1 (hl path).2 (classify_route hsep hwf.1) hf.1
      hf.2 (renderNodes lay path 0 cs) cs (nodesDepth cs)
      (fun rest ln stack cur h => go_renderNodes inc file base lay hl cs hwf.2 path 0 rest ln stack cur h)
      rest ln stack cur hdep
    simpa [mkNode] using this
theorem go_renderNodes (inc : Str → Str → Nat → Nat → Res ConfError (List Node)) (file : Str) (base : Nat)
    (lay : Layout) (hl : lay.ok) (ns : List Node) (hwf : WFNodes ns) (path : List Nat) (i : Nat)
    (rest : List Str) (ln : Nat) (stack : List Frame) (cur : List Node)
    (hdep : base + stack.length + nodesDepth ns ≤ maxDepth) :
    goLines inc file base (renderNodes lay path i ns ++ rest) ln stack cur =
      goLines inc file base rest (ln + (renderNodes lay path i ns).length) stack (ns.reverse ++ cur) := by
  cases ns with
  | nil => simp [renderNodes]
  | cons n ns =>
    simp only [WFNodes] at hwf
    simp only [nodesDepth] at hdep
    simp only [renderNodes, List.append_assoc]
    rw [go_renderNode inc file base lay hl n hwf.1 (i :: path) _ ln stack cur (by omega)]
    rw [go_renderNodes inc file base lay hl ns hwf.2 path (i + 1) rest _ stack (n :: cur) (by omega)]
    simp only [List.length_append, List.reverse_cons, List.append_assoc, List.singleton_append]
    congr 1
    omega
end

end Humphrey.Conf
