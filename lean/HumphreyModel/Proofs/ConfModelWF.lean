import HumphreyModel.Proofs.ConfRound
import HumphreyModel.Spec.ConfModel

/-!
C15, part B: the tree of a well-formed model is a well-formed tree (`WFTree`), so the tree-level
round trip applies to it.
-/
namespace Humphrey.Conf

theorem cfgrt_WFNodes_append (a b : List Node) : WFNodes (a ++ b) ↔ WFNodes a ∧ WFNodes b := by
  induction a with
  | nil => simp [WFNodes]
  | cons n a ih => simp [WFNodes, ih, and_assoc]

theorem cfgrt_depth_append (a b : List Node) : nodesDepth (a ++ b) = max (nodesDepth a) (nodesDepth b) := by
  induction a with
  | nil => simp [nodesDepth]
  | cons n a ih => simp [nodesDepth, ih, Nat.max_assoc]

/-! ### scalar keys -/

theorem cfgrt_wf_strKey {key : Str} (hk : okKey key) {o : Option Str} (h : ∀ s, o = some s → noHashNl s) :
    WFNodes (strKey key o) ∧ nodesDepth (strKey key o) = 0 := by
  cases o with
  | none => simp [strKey, WFNodes, nodesDepth]
  | some s => simp [strKey, WFNodes, WFNode, nodesDepth, nodeDepth, hk, h s rfl]

theorem cfgrt_wf_numKey {key : Str} (hk : okKey key) {o : Option Nat} (h : ∀ n, o = some n → n < 2 ^ 63) :
    WFNodes (numKey key o) ∧ nodesDepth (numKey key o) = 0 := by
  cases o with
  | none => simp [numKey, WFNodes, nodesDepth]
  | some n =>
    have hn : (n : Int) ≤ i64Max := by have := h n rfl; simp only [i64Max]; omega
    simp [numKey, WFNodes, WFNode, nodesDepth, nodeDepth, hk, parseI64_showNat hn]

theorem cfgrt_wf_boolKey {key : Str} (hk : okKey key) (o : Option Bool) :
    WFNodes (boolKey key o) ∧ nodesDepth (boolKey key o) = 0 := by
  cases o with
  | none => simp [boolKey, WFNodes, nodesDepth]
  | some b =>
    have hb : boolText b = "true".toList ∨ boolText b = "false".toList := by cases b <;> decide
    simp only [boolKey, WFNodes, WFNode, nodesDepth, nodeDepth, hk, hb, and_self, Nat.max_self]

theorem cfgrt_wf_optSection {name : Str} (hn : okSectionName name) {cs : List Node} (h : WFNodes cs)
    (hd : nodesDepth cs = 0) :
    WFNodes (optSection name cs) ∧ nodesDepth (optSection name cs) ≤ 1 := by
  unfold optSection
  split
  · simp [WFNodes, nodesDepth]
  · simp [WFNodes, WFNode, nodesDepth, nodeDepth, hn, h, hd]

theorem cfgrt_okKey_address : okKey ['a', 'd', 'd', 'r', 'e', 's', 's'] := by unfold okKey; decide
theorem cfgrt_okKey_port : okKey ['p', 'o', 'r', 't'] := by unfold okKey; decide
theorem cfgrt_okKey_threads : okKey ['t', 'h', 'r', 'e', 'a', 'd', 's'] := by unfold okKey; decide
theorem cfgrt_okKey_ws : okKey wsKey := by unfold okKey; decide
theorem cfgrt_okKey_timeout : okKey ['t', 'i', 'm', 'e', 'o', 'u', 't'] := by unfold okKey; decide
theorem cfgrt_okKey_file : okKey ['f', 'i', 'l', 'e'] := by unfold okKey; decide
theorem cfgrt_okKey_mode : okKey ['m', 'o', 'd', 'e'] := by unfold okKey; decide
theorem cfgrt_okKey_level : okKey ['l', 'e', 'v', 'e', 'l'] := by unfold okKey; decide
theorem cfgrt_okKey_console : okKey ['c', 'o', 'n', 's', 'o', 'l', 'e'] := by unfold okKey; decide
theorem cfgrt_okKey_size : okKey ['s', 'i', 'z', 'e'] := by unfold okKey; decide
theorem cfgrt_okKey_time : okKey ['t', 'i', 'm', 'e'] := by unfold okKey; decide
theorem cfgrt_okKey_directory : okKey ['d', 'i', 'r', 'e', 'c', 't', 'o', 'r', 'y'] := by unfold okKey; decide
theorem cfgrt_okKey_proxy : okKey ['p', 'r', 'o', 'x', 'y'] := by unfold okKey; decide
theorem cfgrt_okKey_redirect : okKey ['r', 'e', 'd', 'i', 'r', 'e', 'c', 't'] := by unfold okKey; decide
theorem cfgrt_okKey_lbmode :
    okKey ['l', 'o', 'a', 'd', '_', 'b', 'a', 'l', 'a', 'n', 'c', 'e', 'r', '_', 'm', 'o', 'd', 'e'] := by
  unfold okKey; decide

theorem cfgrt_okSection_blacklist : okSectionName ['b', 'l', 'a', 'c', 'k', 'l', 'i', 's', 't'] :=
  ⟨by unfold noHashNl; decide, ⟨⟨'b', rfl, by decide⟩, ⟨'t', rfl, by decide⟩⟩, by decide, by decide⟩
theorem cfgrt_okSection_log : okSectionName ['l', 'o', 'g'] :=
  ⟨by unfold noHashNl; decide, ⟨⟨'l', rfl, by decide⟩, ⟨'g', rfl, by decide⟩⟩, by decide, by decide⟩
theorem cfgrt_okSection_cache : okSectionName ['c', 'a', 'c', 'h', 'e'] :=
  ⟨by unfold noHashNl; decide, ⟨⟨'c', rfl, by decide⟩, ⟨'e', rfl, by decide⟩⟩, by decide, by decide⟩

theorem cfgrt_noHashNl_level (l : LogLevel) : noHashNl l.text := by
  cases l <;> (unfold noHashNl; decide)
theorem cfgrt_noHashNl_blmode (l : BlacklistMode) : noHashNl l.text := by
  cases l <;> (unfold noHashNl; decide)
theorem cfgrt_noHashNl_lbmode (l : LbMode) : noHashNl l.text := by
  cases l <;> (unfold noHashNl; decide)

theorem cfgrt_opt_map {α : Type} {o : Option α} {f : α → Str} (h : ∀ a, noHashNl (f a)) :
    ∀ s, o.map f = some s → noHashNl s := by
  intro s hs
  cases o with
  | none => cases hs
  | some a => cases hs; exact h a

/-- The scalar part of the `server` section. -/
theorem cfgrt_wf_scalarNodes {fs : FS} {c : Cfg} (h : c.WF fs) :
    WFNodes c.scalarNodes ∧ nodesDepth c.scalarNodes ≤ 1 := by
  have a1 := cfgrt_wf_strKey cfgrt_okKey_address h.address
  have a2 := cfgrt_wf_numKey cfgrt_okKey_port (fun n hn => Nat.lt_trans (h.port n hn) (by decide))
  have a3 := cfgrt_wf_numKey cfgrt_okKey_threads (fun n hn => (h.threads n hn).2)
  have a4 := cfgrt_wf_strKey cfgrt_okKey_ws h.websocket
  have a5 := cfgrt_wf_numKey cfgrt_okKey_timeout h.timeout
  have b1 := cfgrt_wf_strKey cfgrt_okKey_file (o := c.blacklist.map (·.1)) (by
    intro s hs
    cases hb : c.blacklist with
    | none => rw [hb] at hs; cases hs
    | some pi => obtain ⟨p, ips⟩ := pi; rw [hb] at hs; cases hs; exact (h.blacklist p ips hb).1)
  have b2 := cfgrt_wf_strKey cfgrt_okKey_mode (o := c.blacklistMode.map BlacklistMode.text)
    (cfgrt_opt_map cfgrt_noHashNl_blmode)
  have l1 := cfgrt_wf_strKey cfgrt_okKey_level (o := c.logLevel.map LogLevel.text)
    (cfgrt_opt_map cfgrt_noHashNl_level)
  have l2 := cfgrt_wf_boolKey cfgrt_okKey_console c.logConsole
  have l3 := cfgrt_wf_strKey cfgrt_okKey_file h.logFile
  have c1 := cfgrt_wf_numKey cfgrt_okKey_size h.cacheSize
  have c2 := cfgrt_wf_numKey cfgrt_okKey_time h.cacheTime
  have sb := cfgrt_wf_optSection cfgrt_okSection_blacklist
    ((cfgrt_WFNodes_append _ _).mpr ⟨b1.1, b2.1⟩) (by rw [cfgrt_depth_append, b1.2, b2.2]; rfl)
  have sl := cfgrt_wf_optSection cfgrt_okSection_log
    ((cfgrt_WFNodes_append _ _).mpr ⟨(cfgrt_WFNodes_append _ _).mpr ⟨l1.1, l2.1⟩, l3.1⟩)
    (by rw [cfgrt_depth_append, cfgrt_depth_append, l1.2, l2.2, l3.2]; rfl)
  have sc := cfgrt_wf_optSection cfgrt_okSection_cache
    ((cfgrt_WFNodes_append _ _).mpr ⟨c1.1, c2.1⟩) (by rw [cfgrt_depth_append, c1.2, c2.2]; rfl)
  unfold Cfg.scalarNodes
  constructor
  · simp only [cfgrt_WFNodes_append]
    exact ⟨⟨⟨⟨⟨⟨⟨a1.1, a2.1⟩, a3.1⟩, a4.1⟩, a5.1⟩, sb.1⟩, sl.1⟩, sc.1⟩
  · simp only [cfgrt_depth_append, a1.2, a2.2, a3.2, a4.2, a5.2]
    have := sb.2; have := sl.2; have := sc.2
    omega

/-! ### routes and hosts -/

theorem cfgrt_joinComma_chars {ps : List Str} {P : Char → Prop} (hc : P ',') (h : ∀ p ∈ ps, ∀ x ∈ p, P x) :
    ∀ x ∈ joinComma ps, P x := by
  induction ps with
  | nil => intro x hx; cases hx
  | cons p ps ih =>
    cases ps with
    | nil => simpa [joinComma] using h p (by simp)
    | cons q qs =>
      intro x hx
      simp only [joinComma, List.mem_append, List.mem_cons] at hx
      rcases hx with hx | rfl | hx
      · exact h p (by simp) x hx
      · exact hc
      · exact ih (fun r hr => h r (by simp [hr])) x hx

theorem cfgrt_joinComma_tight {ps : List Str} (hne : ps ≠ []) (h : ∀ p ∈ ps, tight p) : tight (joinComma ps) := by
  induction ps with
  | nil => exact absurd rfl hne
  | cons p ps ih =>
    cases ps with
    | nil => simpa [joinComma] using h p (by simp)
    | cons q qs =>
      have := tight_append (h p (by simp)) (ih (by simp) (fun r hr => h r (by simp [hr]))) [',']
      simpa [joinComma] using this

theorem cfgrt_okRouteName {r : RouteCfg} (h : r.WF) : okRouteName (joinComma r.patterns) := by
  refine ⟨?_, cfgrt_joinComma_tight h.nonempty (fun p hp => (h.patterns p hp).1), ?_⟩
  · exact cfgrt_joinComma_chars (P := fun c => c ≠ '#' ∧ c ≠ '\n') (by decide)
      (fun p hp x hx => ((h.patterns p hp).2 x hx).2)
  · intro e
    cases hp : r.patterns with
    | nil => exact h.nonempty hp
    | cons p ps =>
      cases ps with
      | nil =>
        rw [hp] at e
        simp only [joinComma] at e
        exact h.notBrace (by rw [hp, e])
      | cons q qs =>
        rw [hp] at e
        have : ',' ∈ joinComma (p :: q :: qs) := by simp [joinComma]
        rw [e] at this
        simp at this

theorem cfgrt_wf_target {t : Target} (h : t.WF) : WFNodes t.nodes ∧ nodesDepth t.nodes = 0 := by
  cases t with
  | file p => simp [Target.nodes, WFNodes, WFNode, nodesDepth, nodeDepth, cfgrt_okKey_file, (show noHashNl p from h)]
  | directory p =>
    simp [Target.nodes, WFNodes, WFNode, nodesDepth, nodeDepth, cfgrt_okKey_directory, (show noHashNl p from h)]
  | redirect p =>
    simp [Target.nodes, WFNodes, WFNode, nodesDepth, nodeDepth, cfgrt_okKey_redirect, (show noHashNl p from h)]
  | websocketOnly => simp [Target.nodes, WFNodes, nodesDepth]
  | proxy ts mode =>
    have h' : ts ≠ [] ∧ ∀ t ∈ ts, okTarget t := h
    have hj : noHashNl (joinComma ts) :=
      cfgrt_joinComma_chars (P := fun c => c ≠ '#' ∧ c ≠ '\n') (by decide) (fun t ht x hx => ((h'.2 t ht) x hx).2)
    have hm := cfgrt_wf_strKey cfgrt_okKey_lbmode (o := mode.map LbMode.text) (cfgrt_opt_map cfgrt_noHashNl_lbmode)
    simp only [Target.nodes, WFNodes, WFNode, nodesDepth, nodeDepth, cfgrt_okKey_proxy, hj, hm.1, hm.2, and_self,
      Nat.max_self]

theorem cfgrt_wf_route {r : RouteCfg} (h : r.WF) : WFNode r.toNode ∧ nodeDepth r.toNode = 1 := by
  have ht := cfgrt_wf_target h.target
  have hw := cfgrt_wf_strKey cfgrt_okKey_ws h.websocket
  simp only [RouteCfg.toNode, WFNode, nodeDepth, cfgrt_okRouteName h, cfgrt_WFNodes_append, ht.1, hw.1,
    cfgrt_depth_append, ht.2, hw.2, and_self, Nat.max_self]

theorem cfgrt_wf_routeNodes {rs : List RouteCfg} (h : ∀ r ∈ rs, r.WF) :
    WFNodes (routeNodes rs) ∧ nodesDepth (routeNodes rs) ≤ 1 := by
  induction rs with
  | nil => simp [routeNodes, WFNodes, nodesDepth]
  | cons r rs ih =>
    have hr := cfgrt_wf_route (h r (by simp))
    have ih' := ih (fun q hq => h q (by simp [hq]))
    simp only [routeNodes, WFNodes, nodesDepth, hr.1, ih'.1, and_self, hr.2, true_and]
    have := ih'.2
    omega

theorem cfgrt_wf_itemNodes {is : List Item} (h : ∀ i ∈ is, i.WF) :
    WFNodes (itemNodes is) ∧ nodesDepth (itemNodes is) ≤ 2 := by
  induction is with
  | nil => simp [itemNodes, WFNodes, nodesDepth]
  | cons i is ih =>
    have ih' := ih (fun q hq => h q (by simp [hq]))
    have := ih'.2
    cases i with
    | route r =>
      have hr := cfgrt_wf_route (r := r) (h (.route r) (by simp))
      simp only [itemNodes, Item.toNode, WFNodes, nodesDepth, hr.1, ih'.1, and_self, hr.2, true_and]
      omega
    | host hc =>
      have hh : hc.WF := h (.host hc) (by simp)
      have hrs := cfgrt_wf_routeNodes hh.routes
      have := hrs.2
      simp only [itemNodes, Item.toNode, HostCfg.toNode, WFNodes, WFNode, nodesDepth, nodeDepth, hh.name, hrs.1,
        ih'.1, and_self, true_and]
      omega

/-- The tree of a well-formed model is a well-formed tree. -/
theorem cfgrt_wf_toTree {fs : FS} {c : Cfg} (h : c.WF fs) : WFTree c.toTree := by
  have hs := cfgrt_wf_scalarNodes h
  have hi := cfgrt_wf_itemNodes h.items
  refine ⟨rfl, ?_, ?_⟩
  · exact (cfgrt_WFNodes_append _ _).mpr ⟨hs.1, hi.1⟩
  · unfold Cfg.children
    rw [cfgrt_depth_append]
    have := hs.2; have := hi.2
    simp only [maxDepth]
    omega

end Humphrey.Conf
