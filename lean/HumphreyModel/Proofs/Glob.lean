import HumphreyModel.Model.Glob
import HumphreyModel.Spec.Glob

namespace Humphrey.Glob

theorem glob_nil_left {t : List Char} : Glob [] t ↔ t = [] := by
  constructor
  · intro h; cases h; rfl
  · rintro rfl; exact .nil

theorem glob_nil_right {p : List Char} : Glob p [] ↔ allStars p = true := by
  induction p with
  | nil => simp [allStars, Glob.nil]
  | cons c p ih =>
    constructor
    · intro h
      cases h with
      | starSkip h => simp [allStars, ih.mp h]
    · intro h
      simp [allStars] at h
      obtain ⟨rfl, h2⟩ := h
      exact .starSkip (ih.mpr h2)

theorem glob_lit_cons {c d : Char} {p t : List Char} (hc : c ≠ '*') :
    Glob (c :: p) (d :: t) ↔ c = d ∧ Glob p t := by
  constructor
  · intro h
    cases h with
    | lit _ h => exact ⟨rfl, h⟩
    | starSkip _ => exact absurd rfl hc
    | starEat _ => exact absurd rfl hc
  · rintro ⟨rfl, h⟩; exact .lit hc h

theorem glob_lit_nil {c : Char} {p : List Char} (hc : c ≠ '*') : ¬ Glob (c :: p) [] := by
  intro h; cases h; exact hc rfl

/-- Number of non-`*` characters of a pattern: a lower bound for the length of any match. -/
def lits : List Char → Nat
  | [] => 0
  | c :: p => (if c = '*' then 0 else 1) + lits p

theorem lits_append (a b : List Char) : lits (a ++ b) = lits a + lits b := by
  induction a with
  | nil => simp [lits]
  | cons c a ih => simp [lits, ih]; omega

theorem lits_of_noStar {l : List Char} (h : ∀ c ∈ l, c ≠ '*') : lits l = l.length := by
  induction l with
  | nil => rfl
  | cons c l ih =>
    have hc : c ≠ '*' := h c (by simp)
    simp [lits, hc, ih (fun x hx => h x (by simp [hx]))]; omega

theorem glob_length {p t : List Char} (h : Glob p t) : lits p ≤ t.length := by
  induction h with
  | nil => simp [lits]
  | lit hc _ ih => simp [lits, hc]; omega
  | starSkip _ ih => simpa [lits] using ih
  | starEat _ ih => simp [lits] at ih ⊢; omega

theorem glob_star_drop {p t : List Char} (k : Nat) (h : Glob p (t.drop k)) :
    Glob ('*' :: p) t := by
  induction t generalizing k with
  | nil => simp at h; exact .starSkip h
  | cons c t ih =>
    cases k with
    | zero => exact .starSkip (by simpa using h)
    | succ k => exact .starEat (ih k (by simpa using h))

theorem glob_star {p t : List Char} :
    Glob ('*' :: p) t ↔ ∃ k, k ≤ t.length ∧ Glob p (t.drop k) := by
  constructor
  · intro h
    generalize hq : ('*' :: p) = q at h
    induction h with
    | nil => cases hq
    | lit hc _ _ => cases hq; exact absurd rfl hc
    | starSkip h _ => cases hq; exact ⟨0, by simp, by simpa using h⟩
    | starEat _ ih =>
      obtain ⟨k, hk, hg⟩ := ih hq
      cases hq
      exact ⟨k + 1, by simp; omega, by simpa using hg⟩
  · rintro ⟨k, _, h⟩; exact glob_star_drop k h

/-- A pattern that starts with literal characters matches exactly the texts that start with
the same characters. -/
theorem glob_lits_append {l p x : List Char} (hl : ∀ c ∈ l, c ≠ '*') :
    Glob (l ++ p) x ↔ ∃ y, x = l ++ y ∧ Glob p y := by
  induction l generalizing x with
  | nil => simp
  | cons c l ih =>
    have hc : c ≠ '*' := hl c (by simp)
    have hl' : ∀ d ∈ l, d ≠ '*' := fun d hd => hl d (by simp [hd])
    cases x with
    | nil =>
      constructor
      · intro h; exact absurd h (glob_lit_nil hc)
      · rintro ⟨y, hy, _⟩; simp at hy
    | cons d x =>
      simp only [List.cons_append]
      rw [glob_lit_cons hc, ih hl']
      constructor
      · rintro ⟨rfl, y, rfl, hy⟩; exact ⟨y, rfl, hy⟩
      · rintro ⟨y, hy, hg⟩
        simp at hy
        exact ⟨hy.1.symm, y, hy.2, hg⟩

/-- Forgetting an older bookmark is sound: every later placement of the older `*` is
subsumed by the new `*`. -/
theorem old_bookmark_subsumed {l p t : List Char} (hl : ∀ c ∈ l, c ≠ '*') (k : Nat)
    (h : Glob (l ++ '*' :: p) ((l ++ t).drop k)) : Glob ('*' :: p) t := by
  obtain ⟨y, hy, hg⟩ := (glob_lits_append hl).mp h
  have hlen : y.length + l.length + k = l.length + t.length ∨ (l ++ t).length ≤ k := by
    have := congrArg List.length hy
    simp only [List.length_drop, List.length_append] at this ⊢
    omega
  rcases hlen with hlen | hlen
  · -- y is the suffix of t of length |t| - k
    have hy2 : y = t.drop k := by
      have h1 : (l ++ t).drop k = l ++ y := hy
      have h2 : ((l ++ t).drop k).drop l.length = y := by rw [h1]; simp
      rw [List.drop_drop] at h2
      have h3 : (l ++ t).drop (k + l.length) = t.drop k := by
        rw [Nat.add_comm, ← List.drop_drop]; simp
      rw [← h2, h3]
    rw [hy2] at hg
    rw [glob_star] at hg ⊢
    obtain ⟨j, hj, hg⟩ := hg
    refine ⟨k + j, ?_, ?_⟩
    · simp at hj; omega
    · simpa [List.drop_drop] using hg
  · rw [List.drop_eq_nil_of_le hlen] at hy
    have : l = [] ∧ y = [] := by simpa using hy.symm
    obtain ⟨rfl, rfl⟩ := this
    rw [glob_star] at hg ⊢
    obtain ⟨j, hj, hg⟩ := hg
    simp at hj; subst hj
    exact ⟨t.length, Nat.le_refl _, by simpa using hg⟩

end Humphrey.Glob
