import HumphreyModel.Proofs.Shutdown
import HumphreyModel.Props.C08

/-!
C20: the termination measure of `Model/Shutdown.lean` (built on C08's `Pool.measure`), the bound on the
accept loop's iterations once the flag is visible, and progress: a state in which no thread can move is the
state after a complete shutdown (uses C08's `drop_never_blocks`).
-/
namespace Humphrey.Shutdown
open Humphrey

/-! ### Measure -/

def Acc.rank : Acc → Nat
  | .exited => 0
  | .dropPool => 1
  | .dropListener => 2
  | .poolStop => 3
  | .accepting => 4
  | .execute _ => 21
  | .condition _ => 22
  | .checkFlag _ => 23

def Caller.rank : Caller → Nat
  | .returned => 0
  | .joinAccept => 1
  | .selfConnect => 22
  | .storeFlag => 23
  | .waitSignal => 24

/-- One pending connection is worth a whole iteration of the accept loop including the task it queues
(`Pool.measure` grows by 11 on `submit`). -/
def measure (c : Cfg) (s : State) : Nat :=
  Pool.measure c.pool s.pool + 20 * s.backlog.length + s.acc.rank + s.caller.rank + (if s.signalSent then 0 else 1)

theorem owner_false_not_submit {l : Pool.Label} (h : isOwnerLabel l = false) : l.isSubmit = false := by
  cases l <;> simp_all [isOwnerLabel, Pool.Label.isSubmit]

theorem drop_not_submit {l : Pool.Label} (h : isDropLabel l = true) : l.isSubmit = false := by
  cases l <;> simp_all [isDropLabel, Pool.Label.isSubmit]

theorem measure_step {c : Cfg} {s s' : State} {l : Label} (st : Step c s l s') :
    (l.isArrive = false → measure c s' < measure c s) ∧ (l.isArrive = true → measure c s' = measure c s + 20) := by
  cases st with
  | arrive h1 h2 => simp [measure, Label.isArrive]; omega
  | signal h1 => simp [measure, Label.isArrive, h1]
  | recvSignal h1 h2 => simp [measure, Label.isArrive, h1, Caller.rank]
  | storeFlag h1 => simp [measure, Label.isArrive, h1, Caller.rank]
  | selfConnectOk h1 h2 => simp [measure, Label.isArrive, h1, Caller.rank]; omega
  | selfConnectRefused h1 h2 => simp [measure, Label.isArrive, h1, Caller.rank]
  | joinAccept h1 h2 => simp [measure, Label.isArrive, h1, Caller.rank]
  | accept h1 h2 => simp [measure, Label.isArrive, h1, h2, Acc.rank]; omega
  | «break» h1 h2 => simp [measure, Label.isArrive, h1, Acc.rank]
  | skipErr h1 h2 h3 => simp [measure, Label.isArrive, h1, Acc.rank]
  | toCond h1 h2 h3 => simp [measure, Label.isArrive, h1, Acc.rank]
  | letIn h1 h2 => simp [measure, Label.isArrive, h1, Acc.rank]
  | deny h1 h2 => simp [measure, Label.isArrive, h1, Acc.rank]
  | execute h1 h2 =>
    have := (Pool.measure_step (Pool.Step.of_step h2)).2 rfl
    simp [measure, Label.isArrive, h1, Acc.rank]; omega
  | poolStop h1 h2 =>
    have := (Pool.measure_step (Pool.Step.of_step h2)).1 rfl
    simp [measure, Label.isArrive, h1, Acc.rank]; omega
  | dropListener h1 => simp [measure, Label.isArrive, h1, Acc.rank]; omega
  | poolDrop h1 h2 h3 =>
    have := (Pool.measure_step (Pool.Step.of_step h3)).1 (drop_not_submit h2)
    simp [measure, Label.isArrive]; omega
  | exit h1 h2 => simp [measure, Label.isArrive, h1, Acc.rank]
  | worker h1 h2 =>
    have := (Pool.measure_step (Pool.Step.of_step h2)).1 (owner_false_not_submit h1)
    simp [measure, Label.isArrive]; omega

def arrivals (ls : List Label) : Nat := (ls.filter Label.isArrive).length
def otherSteps (ls : List Label) : Nat := (ls.filter (fun l => !l.isArrive)).length
def accepts (ls : List Label) : Nat := (ls.filter Label.isAccept).length
def executes (ls : List Label) : Nat := (ls.filter Label.isExecute).length

theorem run_measure {c : Cfg} : ∀ (ls : List Label) (s s' : State), run c s ls = some s' →
    otherSteps ls + measure c s' ≤ measure c s + 20 * arrivals ls
  | [], s, s', h => by simp [run] at h; subst h; simp [otherSteps, arrivals]
  | l :: ls, s, s', h => by
    simp only [run] at h
    cases hl : step c s l with
    | none => simp [hl] at h
    | some s1 =>
      simp only [hl] at h
      have ih := run_measure ls s1 s' h
      have m := measure_step (Step.of_step hl)
      cases hs : l.isArrive
      · have := m.1 hs; simp [otherSteps, arrivals, hs] at *; omega
      · have := m.2 hs; simp [otherSteps, arrivals, hs] at *; omega

/-! ### How many more iterations of the accept loop -/

/-- With the flag visible: the iteration in progress may finish, the next `accept` leads to `break`. -/
def accB : Acc → Nat
  | .accepting | .condition _ | .execute _ => 1
  | _ => 0

def execB : Acc → Nat
  | .condition _ | .execute _ => 1
  | _ => 0

def bound (s : State) : Nat := if s.flag then accB s.acc else s.backlog.length + 1

/-- An arrival that gets in before the flag is stored. -/
def lateArrival (s : State) (l : Label) : Nat := if l.isArrive && !s.flag then 1 else 0

theorem bound_step {c : Cfg} {s s' : State} {l : Label} (hi : Inv c s) (st : Step c s l s') :
    (if l.isAccept then 1 else 0) + bound s' ≤ bound s + lateArrival s l := by
  cases st with
  | arrive h1 h2 => cases hf : s.flag <;> simp [bound, lateArrival, Label.isAccept, Label.isArrive, hf]
  | signal h1 => simp [bound, lateArrival, Label.isAccept, Label.isArrive]
  | recvSignal h1 h2 => simp [bound, lateArrival, Label.isAccept, Label.isArrive]
  | storeFlag h1 =>
    cases hf : s.flag <;> simp [bound, lateArrival, Label.isAccept, Label.isArrive, hf]
    cases s.acc <;> simp [accB]
  | selfConnectOk h1 h2 =>
    have := hi.flag.mpr (Or.inl h1)
    simp [bound, lateArrival, Label.isAccept, Label.isArrive, this]
  | selfConnectRefused h1 h2 => simp [bound, lateArrival, Label.isAccept, Label.isArrive]
  | joinAccept h1 h2 => simp [bound, lateArrival, Label.isAccept, Label.isArrive]
  | accept h1 h2 =>
    cases hf : s.flag <;> simp [bound, lateArrival, Label.isAccept, Label.isArrive, hf, h1, h2, accB]
    omega
  | «break» h1 h2 => simp [bound, lateArrival, Label.isAccept, Label.isArrive, h2, accB]
  | skipErr h1 h2 h3 => simp [bound, lateArrival, Label.isAccept, Label.isArrive, h2]
  | toCond h1 h2 h3 => simp [bound, lateArrival, Label.isAccept, Label.isArrive, h2]
  | letIn h1 h2 => cases hf : s.flag <;> simp [bound, lateArrival, Label.isAccept, Label.isArrive, hf, h1, accB]
  | deny h1 h2 => cases hf : s.flag <;> simp [bound, lateArrival, Label.isAccept, Label.isArrive, hf, h1, accB]
  | execute h1 h2 => cases hf : s.flag <;> simp [bound, lateArrival, Label.isAccept, Label.isArrive, hf, h1, accB]
  | poolStop h1 h2 =>
    have := (hi.pStop h1).1
    simp [bound, lateArrival, Label.isAccept, Label.isArrive, this, h1, accB]
  | dropListener h1 =>
    have := (hi.pLis h1).1
    simp [bound, lateArrival, Label.isAccept, Label.isArrive, this, h1, accB]
  | poolDrop h1 h2 h3 => simp [bound, lateArrival, Label.isAccept, Label.isArrive]
  | exit h1 h2 =>
    have := (hi.pDrop h1).1
    simp [bound, lateArrival, Label.isAccept, Label.isArrive, this, h1, accB]
  | worker h1 h2 => simp [bound, lateArrival, Label.isAccept, Label.isArrive]

/-- Arrivals of the run that happen while the flag is not yet stored. -/
def lateArrivals (c : Cfg) : State → List Label → Nat
  | _, [] => 0
  | s, l :: ls => lateArrival s l + match step c s l with
    | some s' => lateArrivals c s' ls
    | none => 0

theorem run_bound {c : Cfg} : ∀ (ls : List Label) (s s' : State), Inv c s → run c s ls = some s' →
    accepts ls + bound s' ≤ bound s + lateArrivals c s ls
  | [], s, s', _, h => by simp [run] at h; subst h; simp [accepts, lateArrivals]
  | l :: ls, s, s', hi, h => by
    simp only [run] at h
    cases hl : step c s l with
    | none => simp [hl] at h
    | some s1 =>
      simp only [hl] at h
      have st := Step.of_step hl
      have ih := run_bound ls s1 s' (inv_step hi st) h
      have b := bound_step hi st
      simp only [lateArrivals, hl]
      cases ha : l.isAccept <;> simp [accepts, ha] at * <;> omega

theorem flag_persists {c : Cfg} {s s' : State} {l : Label} (st : Step c s l s') (hf : s.flag = true) : s'.flag = true := by
  cases st <;> simp_all

theorem lateArrivals_zero {c : Cfg} : ∀ (ls : List Label) (s : State), s.flag = true → lateArrivals c s ls = 0
  | [], _, _ => rfl
  | l :: ls, s, hf => by
    simp only [lateArrivals, lateArrival, hf]
    cases hl : step c s l with
    | none => simp
    | some s1 => simp [lateArrivals_zero ls s1 (flag_persists (Step.of_step hl) hf)]

theorem exec_step {c : Cfg} {s s' : State} {l : Label} (st : Step c s l s') (hf : s.flag = true) :
    (if l.isExecute then 1 else 0) + execB s'.acc ≤ execB s.acc := by
  cases st <;> simp_all [execB, Label.isExecute]

theorem run_exec {c : Cfg} : ∀ (ls : List Label) (s s' : State), s.flag = true → run c s ls = some s' →
    executes ls + execB s'.acc ≤ execB s.acc
  | [], s, s', _, h => by simp [run] at h; subst h; simp [executes]
  | l :: ls, s, s', hf, h => by
    simp only [run] at h
    cases hl : step c s l with
    | none => simp [hl] at h
    | some s1 =>
      simp only [hl] at h
      have st := Step.of_step hl
      have ih := run_exec ls s1 s' (flag_persists st hf) h
      have b := exec_step st hf
      cases ha : l.isExecute <;> simp [executes, ha] at * <;> omega

/-! ### Progress -/

/-- No thread can move and the signal has been sent (only clients could still try to connect). -/
def Terminal (c : Cfg) (s : State) : Prop := ∀ l : Label, l.isArrive = false → step c s l = none

theorem recoveryProgress_not_owner {l : Pool.Label} (h : l.isRecoveryProgress = true) : isOwnerLabel l = false := by
  cases l <;> simp_all [Pool.Label.isRecoveryProgress, isOwnerLabel]

theorem dropStep_isDrop {l : Pool.Label} (h : l.isDropStep = true) : isDropLabel l = true := by
  cases l <;> simp_all [Pool.Label.isDropStep, isDropLabel]

/-- While the accept thread is inside `drop(thread_pool)` something can move: its own next step, or a step of
the recovery thread after which it can (C08 `drop_never_blocks`). -/
theorem dropPool_progress {c : Cfg} {s : State} (hi : Inv c s) (ha : s.acc = .dropPool) :
    ∃ l, l.isArrive = false ∧ (step c s l).isSome = true := by
  have hic := Pool.InvCaller.of_reachable hi.pool
  cases hc : s.pool.caller with
  | idle =>
    refine ⟨.poolDrop .dropBegin, rfl, ?_⟩
    have hl : s.pool.life ≠ .dropped := by
      intro hd; have := hic.dropped.mp hd; simp [hc] at this
    simp [step, ha, isDropLabel, Pool.step, hc, hl]
  | done => exact ⟨.exit, rfl, by simp [step, ha, hc]⟩
  | dropRec =>
    obtain ⟨ls, s₁, l, _, hrec, hrun, hdl, hen⟩ := Pool.drop_never_blocks hi.pool (Or.inl hc)
    exact dropAux hrec hrun hdl hen
  | dropThreads =>
    obtain ⟨ls, s₁, l, _, hrec, hrun, hdl, hen⟩ := Pool.drop_never_blocks hi.pool (Or.inr (Or.inl hc))
    exact dropAux hrec hrun hdl hen
  | dropTx =>
    obtain ⟨ls, s₁, l, _, hrec, hrun, hdl, hen⟩ := Pool.drop_never_blocks hi.pool (Or.inr (Or.inr hc))
    exact dropAux hrec hrun hdl hen
where
  dropAux {ls : List Pool.Label} {s₁ : Pool.State} {l : Pool.Label}
      (hrec : ls.all Pool.Label.isRecoveryProgress = true) (hrun : Pool.run c.pool s.pool ls = some s₁)
      (hdl : l.isDropStep = true) (hen : (Pool.step c.pool s₁ l).isSome = true) :
      ∃ l, l.isArrive = false ∧ (step c s l).isSome = true := by
    cases ls with
    | nil =>
      simp [Pool.run, Pool.runWith] at hrun; subst hrun
      refine ⟨.poolDrop l, rfl, ?_⟩
      obtain ⟨p, hp⟩ := Option.isSome_iff_exists.mp hen
      simp [step, ha, dropStep_isDrop hdl, hp]
    | cons l0 rest =>
      simp only [Pool.run, Pool.runWith] at hrun
      cases h0 : Pool.step c.pool s.pool l0 with
      | none => simp [h0] at hrun
      | some p =>
        have hr0 : l0.isRecoveryProgress = true := by simp at hrec; exact hrec.1
        refine ⟨.worker l0, rfl, ?_⟩
        simp [step, recoveryProgress_not_owner hr0, h0]

/-- A state in which nothing but an arrival can happen is the state after a complete shutdown. -/
theorem terminal_final {c : Cfg} {s : State} (hc : ∀ e, c.condHangs e = false) (hi : Inv c s) (hT : Terminal c s) :
    s.caller = .returned ∧ s.acc = .exited := by
  have contra : ∀ l : Label, l.isArrive = false → (step c s l).isSome = true → False := by
    intro l hl hs; rw [hT l hl] at hs; simp at hs
  cases hcal : s.caller with
  | returned => exact ⟨rfl, hi.ret hcal⟩
  | waitSignal =>
    exfalso
    cases hs : s.signalSent
    · exact contra .signal rfl (by simp [step, hs])
    · exact contra .recvSignal rfl (by simp [step, hs, hcal])
  | storeFlag => exact (contra .storeFlag rfl (by simp [step, hcal])).elim
  | selfConnect =>
    exfalso
    refine contra .selfConnect rfl ?_
    cases hlo : s.listenerOpen <;> simp [step, hcal, hlo]
  | joinAccept =>
    exfalso
    have hfl : s.flag = true := hi.flag.mpr (Or.inr (Or.inl hcal))
    cases ha : s.acc with
    | exited => exact contra .joinAccept rfl (by simp [step, hcal, ha])
    | accepting =>
      rcases hi.wakeLive hcal with hw | ⟨e, hw⟩ | hw
      · cases hb : s.backlog with
        | nil => simp [hb] at hw
        | cons e b => exact contra .accept rfl (by simp [step, ha, hb])
      · simp [ha] at hw
      · simp [ha, Acc.inLoop] at hw
    | checkFlag e => exact contra (.checkFlag true) rfl (by simp [step, ha, hfl])
    | condition e => exact contra (.cond true) rfl (by simp [step, ha, hc e])
    | execute e =>
      have hl := hi.loop (by simp [ha, Acc.inLoop])
      exact contra .execute rfl (by simp [step, ha, Pool.step, hl.2.1, hl.2.2.1])
    | poolStop =>
      have hl := hi.pStop ha
      exact contra .poolStop rfl (by simp [step, ha, Pool.step, hl.2.2.1, hl.2.2.2])
    | dropListener => exact contra .dropListener rfl (by simp [step, ha])
    | dropPool =>
      obtain ⟨l, hl, hs⟩ := dropPool_progress hi ha
      exact contra l hl hs

/-- … in which the pool, too, has come to rest. -/
theorem terminal_pool {c : Cfg} {s : State} (hT : Terminal c s) (hd : s.pool.caller = .done) :
    Pool.Terminal c.pool s.pool := by
  intro l hl
  cases ho : isOwnerLabel l with
  | false =>
    have := hT (.worker l) rfl
    simp only [step, ho] at this
    cases hp : Pool.step c.pool s.pool l with
    | none => rfl
    | some p => simp [hp] at this
  | true =>
    cases l <;> simp_all [isOwnerLabel, Pool.Label.isSubmit, Pool.step]

/-! ### The executable `enabled` / `terminalB` -/

theorem mem_candidates {c : Cfg} {s s' : State} {l : Label} (hi : Inv c s) (hl : l.isArrive = false)
    (h : step c s l = some s') : l ∈ candidates s := by
  have hps := Pool.InvStruct.of_reachable hi.pool
  cases Step.of_step h with
  | arrive => simp [Label.isArrive] at hl
  | poolDrop h1 h2 h3 =>
    simp only [candidates, List.mem_append, List.mem_flatMap]
    exact Or.inr ⟨_, Pool.mem_candidates hps (Pool.Step.of_step h3), by simp⟩
  | worker h1 h2 =>
    simp only [candidates, List.mem_append, List.mem_flatMap]
    exact Or.inr ⟨_, Pool.mem_candidates hps (Pool.Step.of_step h2), by simp⟩
  | _ => simp [candidates]

theorem candidates_not_arrive {s : State} {l : Label} (h : l ∈ candidates s) : l.isArrive = false := by
  simp only [candidates, List.mem_append, List.mem_flatMap] at h
  rcases h with h | ⟨pl, _, h⟩
  · simp at h; rcases h with h | h | h | h | h | h | h | h | h | h | h | h | h | h <;> subst h <;> rfl
  · simp at h; rcases h with h | h <;> subst h <;> rfl

theorem terminalB_iff {c : Cfg} {s : State} (hi : Inv c s) : terminalB c s = true ↔ Terminal c s := by
  simp only [terminalB, enabled, List.isEmpty_iff, List.filter_eq_nil_iff]
  constructor
  · intro h l hl
    cases hs : step c s l with
    | none => rfl
    | some s' => exact absurd (by simp [hs]) (h l (mem_candidates hi hl hs))
  · intro h l hl
    simp [h l (candidates_not_arrive hl)]

/-! ### Order of the flag store and the wake-up connection -/

open ShutdownSpec in
theorem precedes_of_run {c : Cfg} : ∀ (ls : List Label) (s s' : State),
    (s.caller = .waitSignal ∨ s.caller = .storeFlag) → run c s ls = some s' →
    Precedes .flagStored .wakeSent (ls.map evOf)
  | [], _, _, _, _ => trivial
  | l :: ls, s, s', hc, h => by
    simp only [run] at h
    cases hl : step c s l with
    | none => simp [hl] at h
    | some s1 =>
      simp only [hl] at h
      have st := Step.of_step hl
      simp only [List.map_cons, Precedes]
      by_cases hsf : l = .storeFlag
      · left; subst hsf; rfl
      · right
        constructor
        · cases st <;> simp_all [evOf]
          split <;> simp
        · apply precedes_of_run ls s1 s' ?_ h
          cases st <;> simp_all

end Humphrey.Shutdown
