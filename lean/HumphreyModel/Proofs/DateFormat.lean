import HumphreyModel.Model.Date
import HumphreyModel.Spec.Date

/-! Helper lemmas for C18 (dates): `to_string` against the IMF-fixdate layout. -/
namespace Humphrey.Date
open Humphrey.Date.Spec

theorem digitChar_eq_digit (n : Nat) : digitChar n = digit n := rfl

theorem digit_mod (n : Nat) : digit (n % 10) = digit n := by
  unfold digit; rw [Nat.mod_mod]

theorem decimal_lt10 (n : Nat) (h : n < 10) : decimal n = [digit n] := by
  rw [decimal, if_pos h]; rfl

theorem decimal_step (n : Nat) (h : 10 ≤ n) : decimal n = decimal (n / 10) ++ [digit n] := by
  rw [decimal, if_neg (by omega), digitChar_eq_digit, digit_mod]

/-- `{:02}` of a number below 100 is the `2DIGIT` of the grammar. -/
theorem pad02_eq_dec2 (n : Nat) (h : n < 100) : pad02 n = dec2 n := by
  unfold pad02 dec2
  by_cases h10 : n < 10
  · rw [decimal_lt10 n h10]
    have : n / 10 = 0 := by omega
    rw [this]; rfl
  · rw [decimal_step n (by omega), decimal_lt10 (n / 10) (by omega)]; rfl

/-- `{}` of a number in 1000 … 9999 is the `4DIGIT` of the grammar. -/
theorem decimal_eq_dec4 (n : Nat) (h0 : 1000 ≤ n) (h1 : n ≤ 9999) : decimal n = dec4 n := by
  unfold dec4
  rw [decimal_step n (by omega), decimal_step (n / 10) (by omega), decimal_step (n / 10 / 10) (by omega),
    decimal_lt10 (n / 10 / 10 / 10) (by omega)]
  have e1 : n / 10 / 10 = n / 100 := by omega
  have e2 : n / 10 / 10 / 10 = n / 1000 := by omega
  rw [e2, e1]; rfl

theorem days_table : ∀ w, w < 7 → DAYS[w]? = some (dayName w) := by decide

theorem months_table : ∀ m, m < 12 → MONTHS[m]? = some (monthName m) ∧ padStr2 (monthName m) = monthName m ∧
    (monthName m).length = 3 := by decide

theorem dayName_length : ∀ w, w < 7 → (dayName w).length = 3 := by decide

end Humphrey.Date
