import HumphreyModel.Proofs.WsMsgRead

/-!
Non-blocking receive against blocking receive (any inbound script, not only client scripts):
* whenever `recv_nonblocking` returns something other than "nothing yet", `recv` on the same
  connection returns the same thing and leaves the same connection;
* when it returns "nothing yet", nothing was lost: `recv` before and after give the same;
* "nothing yet" is returned only at a point where no byte is available, and only complete Ping/Pong
  frames were consumed before that point.
-/
set_option linter.unusedSimpArgs false

namespace Humphrey.WsMsg
open Humphrey.WsFrame

/-! ### The non-blocking header read against `read_exact(2)` -/

theorem nbHeader_agrees (s : List Ev) :
    match nbHeader s with
    | .nothing _ => True
    | .failed => readFrame s = .error .readError
    | .header h0 h1 s' => readExactEv 2 s = some ([h0, h1], s') := by
  match s with
  | [] => simp [nbHeader]
  | .notYet :: s => simp [nbHeader]
  | .data [] :: s => simp [nbHeader]
  | .data [a] :: s =>
    simp only [nbHeader]
    cases h : readExactEv 1 s with
    | none => simp [readFrame, decodeWith, readExactEv, h]
    | some p =>
      obtain ⟨bs, s'⟩ := p
      match bs with
      | [] => simp [readFrame, decodeWith, readExactEv, h]
      | [b] => simp [readExactEv, h]
      | b :: b2 :: r => simp [readFrame, decodeWith, readExactEv, h]
  | .data (a :: b :: rest) :: s =>
    cases rest with
    | nil => simp [nbHeader, readExactEv]
    | cons r rs => simp [nbHeader, readExactEv]

theorem readFrame_of_header {s s' : List Ev} {h0 h1 : UInt8}
    (h : readExactEv 2 s = some ([h0, h1], s')) :
    readFrame s = (innerWith readExactEv s' h0 h1).result := by
  simp [readFrame, decodeWith, h]

theorem nbHeader_nothing {s s' : List Ev} (h : nbHeader s = .nothing s') :
    (s = [] ∧ s' = []) ∨ s = .notYet :: s' ∨ s = .data [] :: s' := by
  match s with
  | [] => simp [nbHeader] at h; exact .inl ⟨rfl, by rw [h]⟩
  | .notYet :: s => simp [nbHeader] at h; exact .inr (.inl (by rw [h]))
  | .data [] :: s => simp [nbHeader] at h; exact .inr (.inr (by rw [h]))
  | .data [a] :: s =>
    simp only [nbHeader] at h
    split at h <;> cases h
  | .data (a :: b :: rest) :: s => simp [nbHeader] at h

/-! ### Non-blocking result ≠ "nothing yet" ⇒ blocking gives the same -/

theorem recvLoopNb_some (fuel : Nat) : ∀ (c : Conn) (acc : List Frame) (isFirst : Bool)
    (r : Result) (c' : Conn), recvLoopNb fuel c acc isFirst = (r, c') → r ≠ .none →
    recvLoop fuel c acc = (r, c') := by
  induction fuel with
  | zero => intro c acc isFirst r c' h _; simpa [recvLoopNb, recvLoop] using h
  | succ k ih =>
    intro c acc isFirst r c' h hr
    by_cases hwm : wantMore acc = true
    · cases isFirst with
      | true =>
        simp only [recvLoopNb, hwm, if_true] at h
        have hag := nbHeader_agrees c.inbound
        cases hnb : nbHeader c.inbound with
        | nothing s =>
          rw [hnb] at h
          simp only [Prod.mk.injEq] at h
          exact absurd h.1.symm hr
        | failed =>
          rw [hnb] at h hag
          simp only [recvLoop, hwm, if_true, hag]
          simpa [RecvErr.ofWs, afterError] using h
        | header h0 h1 s =>
          rw [hnb] at h hag
          simp only at h hag
          have hrf := readFrame_of_header hag
          simp only [recvLoop, hwm, if_true, hrf]
          cases hin : (innerWith readExactEv s h0 h1).result with
          | error e =>
            rw [hin] at h
            cases e <;> simpa [afterError, hag] using h
          | ok p =>
            obtain ⟨f, s2⟩ := p
            rw [hin] at h
            simp only at h ⊢
            cases hon : onFrame { c with inbound := s2 } acc f with
            | done r1 c1 => rw [hon] at h; simpa using h
            | next c1 acc1 =>
              rw [hon] at h
              simp only at h ⊢
              exact ih _ _ _ _ _ h hr
      | false =>
        simp only [recvLoopNb, hwm, if_true, Bool.false_eq_true, if_false] at h
        simp only [recvLoop, hwm, if_true]
        cases hrf : readFrame c.inbound with
        | error e => rw [hrf] at h; simpa using h
        | ok p =>
          obtain ⟨f, s2⟩ := p
          rw [hrf] at h
          simp only at h ⊢
          cases hon : onFrame { c with inbound := s2 } acc f with
          | done r1 c1 => rw [hon] at h; simpa using h
          | next c1 acc1 =>
            rw [hon] at h
            simp only at h ⊢
            exact ih _ _ _ _ _ h hr
    · simp only [recvLoopNb, hwm, if_false, Bool.false_eq_true] at h
      simp only [recvLoop, hwm, if_false, Bool.false_eq_true]
      exact h

/-- The blocking loop never answers "nothing yet". -/
theorem recvLoop_ne_none (fuel : Nat) : ∀ (c : Conn) (acc : List Frame),
    (recvLoop fuel c acc).1 ≠ .none := by
  induction fuel with
  | zero => intro c acc; simp [recvLoop]
  | succ k ih =>
    intro c acc
    by_cases hwm : wantMore acc = true
    · simp only [recvLoop, hwm, if_true]
      cases hrf : readFrame c.inbound with
      | error e => simp
      | ok p =>
        obtain ⟨f, s2⟩ := p
        simp only
        unfold onFrame
        by_cases h1 : f.opcode = .ping
        · simp only [h1, if_true]; exact ih _ _
        · by_cases h2 : f.opcode = .pong
          · simp only [h1, h2, if_true, if_false]; exact ih _ _
          · by_cases h3 : f.opcode = .close
            · simp [h1, h2, h3]
            · simp only [h1, h2, h3, if_false]; exact ih _ _
    · simp [recvLoop, hwm, assemble]

/-- Once a data fragment has been collected the non-blocking loop is the blocking loop. -/
theorem recvLoopNb_false (fuel : Nat) : ∀ (c : Conn) (acc : List Frame),
    recvLoopNb fuel c acc false = recvLoop fuel c acc := by
  intro c acc
  cases h : recvLoopNb fuel c acc false with
  | mk r c' =>
    by_cases hr : r = .none
    · exfalso
      subst hr
      -- the loop with `isFirst = false` never consults the non-blocking read
      have : ∀ (fuel : Nat) (c : Conn) (acc : List Frame),
          (recvLoopNb fuel c acc false).1 ≠ .none := by
        intro fuel
        induction fuel with
        | zero => intro c acc; simp [recvLoopNb]
        | succ k ih =>
          intro c acc
          by_cases hwm : wantMore acc = true
          · simp only [recvLoopNb, hwm, if_true, Bool.false_eq_true, if_false]
            cases hrf : readFrame c.inbound with
            | error e => simp
            | ok p =>
              obtain ⟨f, s2⟩ := p
              simp only
              unfold onFrame
              by_cases h1 : f.opcode = .ping
              · simp only [h1, if_true]; exact ih _ _
              · by_cases h2 : f.opcode = .pong
                · simp only [h1, h2, if_true, if_false]; exact ih _ _
                · by_cases h3 : f.opcode = .close
                  · simp [h1, h2, h3]
                  · simp only [h1, h2, h3, if_false]; exact ih _ _
          · simp [recvLoopNb, hwm, assemble]
      exact this fuel c acc (by rw [h])
    · exact (recvLoopNb_some fuel c acc false r c' h hr).symm

/-! ### Fuel is irrelevant once there is enough of it -/

theorem readExactEv_size : ∀ (n : Nat) (s : List Ev) (bs : Bytes) (s' : List Ev),
    readExactEv n s = some (bs, s') → evSize s' + n ≤ evSize s := by
  intro n s
  induction s generalizing n with
  | nil =>
    intro bs s' h
    cases n with
    | zero => simp [readExactEv] at h; obtain ⟨_, h2⟩ := h; subst h2; simp [evSize]
    | succ n => simp [readExactEv] at h
  | cons e cs ih =>
    intro bs s' h
    cases n with
    | zero => simp [readExactEv] at h; obtain ⟨_, h2⟩ := h; subst h2; simp
    | succ n =>
      cases e with
      | notYet =>
        simp only [readExactEv] at h
        have := ih (n + 1) bs s' h
        simp only [evSize]; omega
      | data c =>
        simp only [readExactEv] at h
        by_cases h0 : c.length = 0
        · simp [h0] at h
        · by_cases hle : c.length ≤ n + 1
          · simp only [h0, hle, if_true, if_false] at h
            cases hr : readExactEv (n + 1 - c.length) cs with
            | none => simp [hr] at h
            | some p =>
              obtain ⟨b2, s2⟩ := p
              simp only [hr, Option.some.injEq, Prod.mk.injEq] at h
              have := ih _ b2 s2 hr
              rw [← h.2]
              simp only [evSize]; omega
          · simp only [h0, hle, if_false, Option.some.injEq, Prod.mk.injEq] at h
            rw [← h.2]
            simp only [evSize, List.length_drop]; omega

theorem innerWith_size {s s' : List Ev} {h0 h1 : UInt8} {f : Frame}
    (h : (innerWith readExactEv s h0 h1).result = .ok (f, s')) : evSize s' ≤ evSize s := by
  unfold innerWith at h
  cases hop : Opcode.ofNat? (h0 &&& 0xF).toNat with
  | none => simp only [hop] at h; simp at h
  | some op =>
    simp only [hop] at h
    cases hl : readLength readExactEv (h1 &&& 0x7F).toNat s with
    | none => simp only [hl] at h; simp at h
    | some p1 =>
      obtain ⟨len, s1⟩ := p1
      simp only [hl] at h
      have e1 : evSize s1 ≤ evSize s := by
        unfold readLength at hl
        by_cases c1 : (h1 &&& 0x7F).toNat = 126
        · simp only [c1, if_true] at hl
          cases hr : readExactEv 2 s with
          | none => simp [hr] at hl
          | some q =>
            obtain ⟨b, t⟩ := q
            simp only [hr, Option.some.injEq, Prod.mk.injEq] at hl
            have := readExactEv_size 2 s b t hr
            rw [← hl.2]; omega
        · by_cases c2 : (h1 &&& 0x7F).toNat = 127
          · simp only [c2, if_true] at hl
            cases hr : readExactEv 8 s with
            | none => simp [hr] at hl
            | some q =>
              obtain ⟨b, t⟩ := q
              simp only [hr] at hl
              simp only [show ¬ (127 = 126) by decide, if_false, Option.some.injEq,
                Prod.mk.injEq] at hl
              have := readExactEv_size 8 s b t hr
              rw [← hl.2]; omega
          · simp only [c1, c2, if_false, Option.some.injEq, Prod.mk.injEq] at hl
            rw [← hl.2]; exact Nat.le_refl _
      cases hk : readKey readExactEv (h1 &&& 0x80 != 0) s1 with
      | none => simp only [hk] at h; simp at h
      | some p2 =>
        obtain ⟨key, s2⟩ := p2
        simp only [hk] at h
        have e2 : evSize s2 ≤ evSize s1 := by
          unfold readKey at hk
          cases hm : (h1 &&& 0x80 != 0) with
          | false =>
            simp only [hm, Bool.false_eq_true, if_false, Option.some.injEq, Prod.mk.injEq] at hk
            rw [← hk.2]; exact Nat.le_refl _
          | true =>
            simp only [hm, if_true] at hk
            cases hr : readExactEv 4 s1 with
            | none => simp [hr] at hk
            | some q =>
              obtain ⟨b, t⟩ := q
              have := readExactEv_size 4 s1 b t hr
              rw [hr] at hk
              split at hk
              · rename_i heq
                simp only [Option.some.injEq, Prod.mk.injEq] at heq hk
                rw [← hk.2, ← heq.2]; omega
              · cases hk
        cases hp : readExactEv len s2 with
        | none => simp only [hp] at h; simp at h
        | some p3 =>
          obtain ⟨pl, s3⟩ := p3
          simp only [hp, Except.ok.injEq, Prod.mk.injEq] at h
          have := readExactEv_size len s2 pl s3 hp
          rw [← h.2]; omega

theorem readFrame_size {s s' : List Ev} {f : Frame} (h : readFrame s = .ok (f, s')) :
    evSize s' + 2 ≤ evSize s := by
  unfold readFrame decodeWith at h
  cases hr : readExactEv 2 s with
  | none => simp [hr] at h
  | some q =>
    obtain ⟨b, t⟩ := q
    have h2 := readExactEv_size 2 s b t hr
    rw [hr] at h
    split at h
    · rename_i heq
      simp only [Option.some.injEq, Prod.mk.injEq] at heq
      have := innerWith_size h
      rw [← heq.2] at this; omega
    · cases h

theorem onFrame_cases (c : Conn) (acc : List Frame) (f : Frame) :
    (f.opcode = .ping ∧
      onFrame c acc f = .next (c.write (encodeFrame (Frame.new .pong f.payload))) acc) ∨
    (f.opcode = .pong ∧ onFrame c acc f = .next { c with pongs := c.pongs + 1 } acc) ∨
    (f.opcode = .close ∧ onFrame c acc f
      = .done (.err .connectionClosed) (c.write (encodeFrame (Frame.new .close f.payload)))) ∨
    (f.opcode ≠ .ping ∧ f.opcode ≠ .pong ∧ f.opcode ≠ .close ∧
      onFrame c acc f = .next c (acc ++ [f])) := by
  unfold onFrame
  cases h : f.opcode <;> simp

theorem onFrame_inbound {c c1 : Conn} {acc acc1 : List Frame} {f : Frame}
    (h : onFrame c acc f = .next c1 acc1) : c1.inbound = c.inbound := by
  rcases onFrame_cases c acc f with ⟨_, e⟩ | ⟨_, e⟩ | ⟨_, e⟩ | ⟨_, _, _, e⟩ <;>
    rw [e] at h <;> cases h <;> rfl

theorem onFrame_done {c c1 : Conn} {acc : List Frame} {f : Frame} {r : Result}
    (h : onFrame c acc f = .done r c1) : r = .err .connectionClosed := by
  rcases onFrame_cases c acc f with ⟨_, e⟩ | ⟨_, e⟩ | ⟨_, e⟩ | ⟨_, _, _, e⟩ <;>
    rw [e] at h <;> cases h <;> rfl

theorem onFrame_control {c c1 : Conn} {acc acc1 : List Frame} {f : Frame}
    (h : onFrame c acc f = .next c1 acc1) (hc : f.opcode = .ping ∨ f.opcode = .pong) :
    acc1 = acc := by
  rcases onFrame_cases c acc f with ⟨_, e⟩ | ⟨_, e⟩ | ⟨_, e⟩ | ⟨h1, h2, _, e⟩
  · rw [e] at h; cases h; rfl
  · rw [e] at h; cases h; rfl
  · rw [e] at h; cases h
  · rcases hc with hc | hc
    · exact absurd hc h1
    · exact absurd hc h2

theorem recvLoop_fuel (k1 : Nat) : ∀ (k2 : Nat) (c : Conn) (acc : List Frame),
    evSize c.inbound + 2 ≤ k1 → evSize c.inbound + 2 ≤ k2 →
    recvLoop k1 c acc = recvLoop k2 c acc := by
  induction k1 with
  | zero => intro k2 c acc h; omega
  | succ j ih =>
    intro k2 c acc h1 h2
    obtain ⟨m, rfl⟩ : ∃ m, k2 = m + 1 := ⟨k2 - 1, by omega⟩
    by_cases hwm : wantMore acc = true
    · simp only [recvLoop, hwm, if_true]
      cases hrf : readFrame c.inbound with
      | error e => rfl
      | ok p =>
        obtain ⟨f, s2⟩ := p
        simp only
        have hs := readFrame_size hrf
        cases hon : onFrame { c with inbound := s2 } acc f with
        | done r1 c1 => rfl
        | next c1 acc1 =>
          simp only
          have hi : c1.inbound = s2 := onFrame_inbound hon
          exact ih m c1 acc1 (by rw [hi]; omega) (by rw [hi]; omega)
    · simp [recvLoop, hwm]

/-! ### "Nothing yet" loses nothing -/

theorem readFrame_notYet (s : List Ev) : readFrame (.notYet :: s) = readFrame s := by
  simp [readFrame, decodeWith, readExactEv]

theorem recvLoop_notYet (k : Nat) (c : Conn) (s : List Ev) (acc : List Frame)
    (hwm : wantMore acc = true) :
    recvLoop (k + 1) { c with inbound := .notYet :: s } acc
      = recvLoop (k + 1) { c with inbound := s } acc := by
  simp only [recvLoop, hwm, if_true, readFrame_notYet]
  cases hrf : readFrame s with
  | error e => cases e <;> simp [afterError, readExactEv]
  | ok p => rfl

theorem readFrame_nonEmpty {s s' : List Ev} {f : Frame} (hne : NonEmptyData s)
    (h : readFrame s = .ok (f, s')) : NonEmptyData s' := by
  obtain ⟨_, ⟨e', h1, _⟩ | ⟨f', a, b, h1, _, hrel⟩⟩ := readFrame_flat s hne
  · unfold readFrame at h; rw [h1] at h; cases h
  · unfold readFrame at h; rw [h1] at h; cases h; exact hrel.1

theorem recvLoopNb_none (k : Nat) : ∀ (c : Conn) (acc : List Frame) (c' : Conn),
    recvLoopNb k c acc true = (.none, c') → NonEmptyData c.inbound →
    evSize c.inbound + 2 ≤ k → recvLoop k c acc = recvLoop (fuelFor c') c' acc := by
  induction k with
  | zero => intro c acc c' _ _ hk; omega
  | succ j ih =>
    intro c acc c' h hne hk
    by_cases hwm : wantMore acc = true
    · simp only [recvLoopNb, hwm, if_true] at h
      have hag := nbHeader_agrees c.inbound
      cases hnb : nbHeader c.inbound with
      | nothing s =>
        rw [hnb] at h
        simp only [Prod.mk.injEq, true_and] at h
        subst h
        rcases nbHeader_nothing hnb with ⟨h0, rfl⟩ | h0 | h0
        · have : ({ c with inbound := [] } : Conn) = c := by cases c; simp_all
          rw [this]
          exact recvLoop_fuel _ _ c acc hk (by unfold fuelFor; omega)
        · have hc : c = { c with inbound := .notYet :: s } := by cases c; simp_all
          rw [hc, recvLoop_notYet _ _ _ _ hwm]
          have hsz : evSize s + 2 ≤ j + 1 := by rw [h0] at hk; simp only [evSize] at hk; omega
          exact recvLoop_fuel _ _ _ acc hsz (by simp [fuelFor])
        · exfalso
          exact hne [] (by rw [h0]; simp) rfl
      | failed => rw [hnb] at h; simp at h
      | header h0 h1 s =>
        rw [hnb] at h hag
        simp only at h hag
        have hrf := readFrame_of_header hag
        simp only [recvLoop, hwm, if_true, hrf]
        cases hin : (innerWith readExactEv s h0 h1).result with
        | error e => rw [hin] at h; simp at h
        | ok p =>
          obtain ⟨f, s2⟩ := p
          rw [hin] at h
          rw [hin] at hrf
          simp only at h ⊢
          cases hon : onFrame { c with inbound := s2 } acc f with
          | done r1 c1 =>
            rw [hon] at h
            exfalso
            have hr1 := onFrame_done hon
            subst hr1
            simp at h
          | next c1 acc1 =>
            rw [hon] at h
            simp only at h ⊢
            have hi : c1.inbound = s2 := onFrame_inbound hon
            have hs := readFrame_size hrf
            have hne1 : NonEmptyData c1.inbound := by rw [hi]; exact readFrame_nonEmpty hne hrf
            cases hflag : (decide (f.opcode = .ping) || decide (f.opcode = .pong)) with
            | true =>
              rw [hflag] at h
              -- a Ping or Pong leaves the collected fragments as they are
              have hacc : acc1 = acc := onFrame_control hon (by simpa using hflag)
              subst hacc
              exact ih c1 acc1 c' h hne1 (by rw [hi]; omega)
            | false =>
              rw [hflag] at h
              exfalso
              have := recvLoop_ne_none j c1 acc1
              rw [← recvLoopNb_false, h] at this
              exact this rfl
    · simp [recvLoopNb, hwm, assemble] at h

/-! ### "Nothing yet" only when nothing has started to arrive -/

/-- No byte is available right now: the peer is gone, or this is a moment at which nothing has
arrived (a `read` returning 0 bytes counts as the former). -/
def NothingAvailable (s : List Ev) : Prop :=
  s = [] ∨ (∃ t, s = .notYet :: t) ∨ (∃ t, s = .data [] :: t)

/-- `NothingStarted s s'`: reading from `s`, zero or more COMPLETE Ping/Pong frames come first (a
frame that has started to arrive is always read to its end), and at the point reached after them no
byte is available; `s'` is the script after that point. -/
inductive NothingStarted : List Ev → List Ev → Prop
  | here {s s' : List Ev} : NothingAvailable s → nbHeader s = .nothing s' → NothingStarted s s'
  | control {s s1 s' : List Ev} {f : Frame} : readFrame s = .ok (f, s1) →
      (f.opcode = .ping ∨ f.opcode = .pong) → NothingStarted s1 s' → NothingStarted s s'

theorem recvLoopNb_nothingStarted (k : Nat) : ∀ (c : Conn) (acc : List Frame) (c' : Conn),
    recvLoopNb k c acc true = (.none, c') → NothingStarted c.inbound c'.inbound := by
  induction k with
  | zero => intro c acc c' h; simp [recvLoopNb] at h
  | succ j ih =>
    intro c acc c' h
    by_cases hwm : wantMore acc = true
    · simp only [recvLoopNb, hwm, if_true] at h
      have hag := nbHeader_agrees c.inbound
      cases hnb : nbHeader c.inbound with
      | nothing s =>
        rw [hnb] at h
        simp only [Prod.mk.injEq, true_and] at h
        subst h
        refine .here ?_ hnb
        rcases nbHeader_nothing hnb with ⟨h0, _⟩ | h0 | h0
        · exact .inl h0
        · exact .inr (.inl ⟨_, h0⟩)
        · exact .inr (.inr ⟨_, h0⟩)
      | failed => rw [hnb] at h; simp at h
      | header h0 h1 s =>
        rw [hnb] at h hag
        simp only at h hag
        have hrf := readFrame_of_header hag
        cases hin : (innerWith readExactEv s h0 h1).result with
        | error e => rw [hin] at h; simp at h
        | ok p =>
          obtain ⟨f, s2⟩ := p
          rw [hin] at h hrf
          simp only at h
          cases hon : onFrame { c with inbound := s2 } acc f with
          | done r1 c1 =>
            rw [hon] at h
            exfalso
            have hr1 := onFrame_done hon
            subst hr1
            simp at h
          | next c1 acc1 =>
            rw [hon] at h
            simp only at h
            have hi : c1.inbound = s2 := onFrame_inbound hon
            cases hflag : (decide (f.opcode = .ping) || decide (f.opcode = .pong)) with
            | true =>
              rw [hflag] at h
              have hctl : f.opcode = .ping ∨ f.opcode = .pong := by simpa using hflag
              have := ih c1 acc1 c' h
              rw [hi] at this
              exact .control hrf hctl this
            | false =>
              rw [hflag] at h
              exfalso
              have := recvLoop_ne_none j c1 acc1
              rw [← recvLoopNb_false, h] at this
              exact this rfl
    · simp [recvLoopNb, hwm, assemble] at h

end Humphrey.WsMsg
