import HumphreyModel.Proofs.ConnStream
/-
The refinement of `Proofs/ConnStream.lean` that leaves request BODIES unrestricted.

`serve_meets_spec` asks for `NoBareCR` of every request that parses from ANY suffix of the stream; the
loop only ever parses at the positions where the previous request ended (`ReqBoundary`). The lockstep
induction of `Proofs/HttpMsgLoop.lean` is redone here over an arbitrary invariant of the unread
bytes (`connFrames_loop_meets_spec`), instantiated with `ReqBoundary`. At a boundary only the HEAD of
the request (request line and header lines, i.e. what the request consumed minus its body) has to be
clean (`connFrames_noBareCR_of_head`).
-/
namespace Humphrey.Http
open Humphrey Humphrey.Bytes Humphrey.IO

/-! ## The lockstep induction over an arbitrary invariant -/

/-- `loop_meets_spec` with the suffix relation replaced by any invariant `Inv` of the unread bytes that
(1) gives `ReqOk` of the request parsed there and (2) is kept when the loop goes round (the request
was not an upgrade and asked for keep-alive). -/
theorem connFrames_loop_meets_spec {κ ω : Type} (cfg : ConnCfg κ ω) (hcfg : CfgOk cfg) (Inv : Bytes → Prop)
    (hstep : ∀ (t : Reader) (req : Request) (t' : Reader), Inv t.rest →
      parseRequest readerSource cfg.env t = .ok (req, t') →
      ReqOk req ∧ (req.headers.get hUpgrade ≠ some websocketValue → kaOf req = true → Inv t'.rest)) :
    ∀ (f1 f2 : Nat) (s : Reader) (w : List Bytes) (d : List Request) (pad : Bool),
      Inv s.rest → s.rest.length < f1 → s.rest.length < f2 →
      ∃ out, (serveLoop readerSource readerIdle cfg f1 s w d).written = w ++ out ∧
        (Spec.checkLoop cfg readerIdle f2 s out
            (decide ((serveLoop readerSource readerIdle cfg f1 s w d).disposition = .handlerPanicked)) pad = none ∨
         Spec.checkLoop cfg readerIdle f2 s out
            (decide ((serveLoop readerSource readerIdle cfg f1 s w d).disposition = .handlerPanicked)) pad =
              some "crlf-after-body") := by
  intro f1
  induction f1 with
  | zero => intro f2 s w d pad _ h; omega
  | succ f1 ih =>
    intro f2 s w d pad hinv hl1 hl2
    obtain ⟨f2, rfl⟩ : ∃ k, f2 = k + 1 := ⟨f2 - 1, by omega⟩
    cases hi : (if cfg.timeout then readerIdle s else none) with
    | some s' =>
      refine ⟨[serializeResponse (errorResponse 408)], by simp [serveLoop, hi], ?_⟩
      simp only [serveLoop, hi, reduceCtorEq, decide_false]
      rw [checkLoop_idle cfg readerIdle f2 s s' pad hi]
      exact padVerdict_ok pad
    | none =>
      cases hp : parseRequest readerSource cfg.env s with
      | panic =>
        refine ⟨[], by simp [serveLoop, hi, hp], ?_⟩
        simp only [serveLoop, hi, hp, reduceCtorEq, decide_false]
        rw [checkLoop_nothing cfg readerIdle f2 s pad hi (.inl hp)]
        exact padVerdict_ok pad
      | err e =>
        cases e with
        | request =>
          refine ⟨[serializeResponse (errorResponse 400)], by simp [serveLoop, hi, hp], ?_⟩
          simp only [serveLoop, hi, hp, reduceCtorEq, decide_false]
          rw [checkLoop_error cfg readerIdle f2 s pad hi 400 (.inl ⟨hp, rfl⟩)]
          exact padVerdict_ok pad
        | timeout =>
          refine ⟨[serializeResponse (errorResponse 408)], by simp [serveLoop, hi, hp], ?_⟩
          simp only [serveLoop, hi, hp, reduceCtorEq, decide_false]
          rw [checkLoop_error cfg readerIdle f2 s pad hi 408 (.inr ⟨hp, rfl⟩)]
          exact padVerdict_ok pad
        | disconnected =>
          refine ⟨[], by simp [serveLoop, hi, hp], ?_⟩
          simp only [serveLoop, hi, hp, reduceCtorEq, decide_false]
          rw [checkLoop_nothing cfg readerIdle f2 s pad hi (.inr (.inl hp))]
          exact padVerdict_ok pad
        | stream =>
          refine ⟨[], by simp [serveLoop, hi, hp], ?_⟩
          simp only [serveLoop, hi, hp, reduceCtorEq, decide_false]
          rw [checkLoop_nothing cfg readerIdle f2 s pad hi (.inr (.inr hp))]
          exact padVerdict_ok pad
      | ok p =>
        obtain ⟨req, s'⟩ := p
        by_cases hu : req.headers.get hUpgrade = some websocketValue
        · refine ⟨[], by simp [serveLoop, hi, hp, hu], ?_⟩
          rw [checkLoop_upgrade cfg readerIdle f2 s s' req pad _ hi hp hu]
          exact padVerdict_ok pad
        · rw [serveLoop_request readerSource readerIdle cfg f1 s s' req w d hi hp hu]
          cases hresp : respond cfg req (kaOf req) with
          | none =>
            refine ⟨[], by simp, ?_⟩
            simp only [decide_true]
            rw [checkLoop_handlerPanic cfg readerIdle f2 s s' req pad _ hi hp hu hresp]
            exact padVerdict_ok pad
          | some resp =>
            have hok := checkResponse_ok cfg req (kaOf req) resp
              (respond_facts cfg hcfg req (hstep s req s' hinv hp).1 _ resp hresp)
            have hnot : ¬ ((Spec.checkResponse cfg req (kaOf req) (serializeResponse resp)).isSome = true ∧
                Spec.checkResponse cfg req (kaOf req) (serializeResponse resp) ≠ some "crlf-after-body") := by
              rcases hok with h | h <;> simp [h]
            obtain ⟨_, hlt⟩ := parseRequest_reader_shrinks cfg.env s req s' hp
            cases hka : kaOf req with
            | true =>
              simp only [if_true]
              obtain ⟨out, ho1, ho2⟩ := ih f2 s' (w ++ [serializeResponse resp]) (dOf cfg req d)
                (pad || (Spec.checkResponse cfg req (kaOf req) (serializeResponse resp)).isSome)
                ((hstep s req s' hinv hp).2 hu hka) (by omega) (by omega)
              refine ⟨serializeResponse resp :: out, by simp [ho1], ?_⟩
              rw [checkLoop_response cfg readerIdle f2 s s' req pad _ _ resp _ out hi hp hu hresp]
              rw [hka] at ho2 hnot
              simp only [hka, if_true]
              rw [if_neg hnot]
              exact ho2
            | false =>
              refine ⟨[serializeResponse resp], by simp, ?_⟩
              rw [checkLoop_response cfg readerIdle f2 s s' req pad _ _ resp _ [] hi hp hu hresp]
              rw [hka] at hnot
              simp only [hka, Bool.false_eq_true, List.isEmpty_nil, reduceCtorEq,
                decide_false, Bool.not_false, and_self, if_true, if_false]
              rw [if_neg hnot]
              exact padVerdict_ok _

/-! ## Request boundaries -/

/-- The positions of the stream `s0` at which the loop may parse a request: the start, and the end of a
request parsed at a boundary that was not an upgrade and asked for keep-alive. (Whether the loop
really gets there also depends on handlers not panicking and on pauses; those only make the set
smaller.) A function of the bytes and the parser alone. -/
inductive ReqBoundary (env : Env) (s0 : Bytes) : Bytes → Prop
  | start : ReqBoundary env s0 s0
  | next {b : Bytes} {req : Request} {b' : Bytes} : ReqBoundary env s0 b →
      parseRequest flatSource env b = .ok (req, b') →
      req.headers.get hUpgrade ≠ some websocketValue → kaOf req = true → ReqBoundary env s0 b'

theorem connFrames_boundary_suffix {env : Env} {s0 b : Bytes} (h : ReqBoundary env s0 b) : b <:+ s0 := by
  induction h with
  | start => exact List.suffix_refl _
  | next _ hp _ _ ih => exact (parseRequest_flat_shrinks env _ _ _ hp).1.trans ih

/-- A reader parse is a flat parse of the reader's remaining bytes. -/
theorem connFrames_reader_to_flat (env : Env) (t : Reader) (req : Request) (t' : Reader)
    (hp : parseRequest readerSource env t = .ok (req, t')) :
    parseRequest flatSource env t.rest = .ok (req, t'.rest) := by
  rcases OutRel.elim' (parseRequest_sim reader_flat_sim env t t.rest rfl) with
    ⟨a, t₁, t₂, e₁, e₂, ht⟩ | ⟨e, e₁, _⟩ | ⟨e₁, _⟩
  · rw [hp] at e₁
    simp only [Outcome.ok.injEq, Prod.mk.injEq] at e₁
    obtain ⟨rfl, rfl⟩ := e₁
    rw [e₂, ht]
  · rw [hp] at e₁; cases e₁
  · rw [hp] at e₁; cases e₁

/-- **`serve_meets_spec` with `hcr` only at request boundaries.** -/
theorem connFrames_serve_meets_spec {κ ω : Type} (cfg : ConnCfg κ ω) (s : Reader) (hcfg : CfgOk cfg)
    (hcr : ∀ (b : Bytes) (req : Request) (b' : Bytes), ReqBoundary cfg.env s.rest b →
      parseRequest flatSource cfg.env b = .ok (req, b') → NoBareCR req) :
    Spec.checkConn cfg readerIdle s (serve readerSource readerIdle cfg s).written
      (decide ((serve readerSource readerIdle cfg s).disposition = .handlerPanicked))
      ∈ [none, some "crlf-after-body"] := by
  have hstep : ∀ (t : Reader) (req : Request) (t' : Reader), ReqBoundary cfg.env s.rest t.rest →
      parseRequest readerSource cfg.env t = .ok (req, t') →
      ReqOk req ∧ (req.headers.get hUpgrade ≠ some websocketValue → kaOf req = true →
        ReqBoundary cfg.env s.rest t'.rest) := by
    intro t req t' hb hp
    have hf := connFrames_reader_to_flat cfg.env t req t' hp
    exact ⟨parseRequest_reqOk cfg.env _ req _ hf (hcr _ req _ hb hf), fun hu hka => .next hb hf hu hka⟩
  obtain ⟨out, ho1, ho2⟩ := connFrames_loop_meets_spec cfg hcfg (ReqBoundary cfg.env s.rest) hstep
    (s.rest.length + 1) (s.rest.length + 2) s [] [] false .start (by omega) (by omega)
  have e : (serve readerSource readerIdle cfg s) =
      serveLoop readerSource readerIdle cfg (s.rest.length + 1) s [] [] := rfl
  rw [e, ho1, Spec.checkConn]
  simp only [List.nil_append, List.mem_cons, List.not_mem_nil, or_false]
  exact ho2

/-! ## The head of a request -/

/-- Every header value sits, followed by a CR, in the bytes `parseHeaders` consumed; it has no LF. -/
theorem connFrames_headers (fuel : Nat) (s : Bytes) (acc hs : Headers) (s' : Bytes)
    (h : parseHeaders flatSource fuel s acc = .ok (hs, s')) :
    ∃ consumed, s = consumed ++ s' ∧ ∀ x ∈ hs, x ∈ acc ∨
      ((∃ p q, consumed = p ++ x.value ++ 13 :: q) ∧ ∀ b ∈ x.value, b ≠ 10) := by
  induction fuel generalizing s acc with
  | zero => simp [parseHeaders] at h
  | succ fuel ih =>
    simp only [parseHeaders] at h
    have hsplit := connStream_readUntil_prefix 10 s
    split at h
    · simp only [Outcome.ok.injEq, Prod.mk.injEq] at h
      obtain ⟨rfl, rfl⟩ := h
      exact ⟨(flatReadUntil 10 s).1, hsplit, fun x hx => .inl hx⟩
    · split at h
      · rename_i hd hpl
        obtain ⟨consumed', hc', hx'⟩ := ih _ _ h
        refine ⟨(flatReadUntil 10 s).1 ++ consumed', ?_, ?_⟩
        · rw [List.append_assoc, ← hc']; exact hsplit
        · intro x hx
          rcases hx' x hx with hm | ⟨⟨p, q, e⟩, hlf⟩
          · simp only [List.mem_append, List.mem_singleton] at hm
            rcases hm with hm | rfl
            · exact .inl hm
            · obtain ⟨a, ea⟩ := connStream_headerLine_shape hpl
              obtain ⟨w1, _⟩ := parseHeaderLine_value s x hpl
              refine .inr ⟨⟨a, 10 :: consumed', ?_⟩, w1⟩
              have : (flatSource.readUntil LF s).1 = (flatReadUntil 10 s).1 := rfl
              rw [this] at ea
              rw [ea]; simp
          · exact .inr ⟨⟨(flatReadUntil 10 s).1 ++ p, q, by rw [e]; simp⟩, hlf⟩
      · cases h
      · cases h

/-- **Shape of a parsed request in the bytes.** `b = head ++ body ++ b'`, where `body` is the request's
content (empty when there is none) and `b'` what the parser left; the version and every header
value lie inside `head`, each immediately followed by a CR, and contain no LF. -/
theorem connFrames_request_shape (env : Env) (b : Bytes) (req : Request) (b' : Bytes)
    (h : parseRequest flatSource env b = .ok (req, b')) :
    ∃ head, b = head ++ req.content.getD [] ++ b' ∧
      (∃ a c, head = a ++ req.version ++ 13 :: c) ∧ (∀ y ∈ req.version, y ≠ 10) ∧
      ∀ x ∈ req.headers, (∃ p q, head = p ++ x.value ++ 13 :: q) ∧ ∀ y ∈ x.value, y ≠ 10 := by
  obtain ⟨x0, s1', m', u', q', fuel', s3', hb0, hsl0, _⟩ := connStream_parseRequest_inv env b req b' h
  unfold parseRequest at h
  cases b with
  | nil => cases hb0
  | cons x s1 =>
    simp only [List.cons.injEq] at hb0
    obtain ⟨rfl, rfl⟩ := hb0
    have hver := (startLine_version x s1 hsl0).2
    obtain ⟨a, c, eac⟩ := connStream_startLine_shape hsl0
    have hs1 := connStream_readUntil_prefix 10 s1
    have h1 : flatSource.readExact 1 (x :: s1) = some ([x], s1) := by simp [flatSource, flatReadExact]
    simp only [h1] at h
    split at h
    · cases h
    · rename_i method uri query version hsl
      split at h
      · cases h
      · cases h
      · rename_i headers s3 hph
        obtain ⟨consumed, hcons, hvals⟩ := connFrames_headers _ _ _ _ _ hph
        have hcons' : (flatReadUntil 10 s1).2 = consumed ++ s3 := hcons
        -- the head: first byte, request line, header lines through the blank line
        have hb : x :: s1 = (([x] ++ (flatReadUntil 10 s1).1) ++ consumed) ++ s3 := by
          rw [List.append_assoc, ← hcons', List.append_assoc, ← hs1]; rfl
        have hfin : ∀ (body : Option Bytes) (rest : Bytes),
            s3 = body.getD [] ++ rest →
            req = ⟨method, uri, query, version, headers, body,
              Address.fromHeaders env.parseIp trim headers env.peer env.port⟩ → b' = rest →
            ∃ head, x :: s1 = head ++ req.content.getD [] ++ b' ∧
              (∃ a c, head = a ++ req.version ++ 13 :: c) ∧ (∀ y ∈ req.version, y ≠ 10) ∧
              ∀ x ∈ req.headers, (∃ p q, head = p ++ x.value ++ 13 :: q) ∧ ∀ y ∈ x.value, y ≠ 10 := by
          intro body rest hs3 hreq hrest
          refine ⟨([x] ++ (flatReadUntil 10 s1).1) ++ consumed, ?_, ?_, fun y hy => (hver y hy).2, ?_⟩
          · rw [hb, hs3, hreq, hrest]; simp
          · exact ⟨a, 10 :: c ++ consumed, by rw [eac]; simp⟩
          · intro hd hm
            have hm' : hd ∈ headers := by rw [hreq] at hm; exact hm
            rcases hvals hd hm' with hx | ⟨⟨p, q, e⟩, hlf⟩
            · simp at hx
            · exact ⟨⟨([x] ++ (flatReadUntil 10 s1).1) ++ p, q, by rw [e]; simp⟩, hlf⟩
        split at h
        · simp only [Outcome.ok.injEq, Prod.mk.injEq] at h
          exact hfin none s3 (by simp) h.1.symm h.2.symm
        · split at h
          · cases h
          · split at h
            · cases h
            · rename_i n _ _ body s4 hx
              simp only [Outcome.ok.injEq, Prod.mk.injEq] at h
              have hx' : flatReadExact n s3 = some (body, s4) := hx
              unfold flatReadExact at hx'
              split at hx'
              · simp only [Option.some.injEq, Prod.mk.injEq] at hx'
                obtain ⟨rfl, rfl⟩ := hx'
                exact hfin (some (s3.take n)) (s3.drop n) (by simp) h.1.symm h.2.symm
              · cases hx'

/-- **A request whose head is clean echoes no bare CR**, whatever its body holds. -/
theorem connFrames_noBareCR_of_head (env : Env) (b : Bytes) (req : Request) (b' : Bytes)
    (h : parseRequest flatSource env b = .ok (req, b')) (head : Bytes)
    (hb : b = head ++ req.content.getD [] ++ b') (hclean : CRonlyBeforeLF head) : NoBareCR req := by
  obtain ⟨head', hb', ⟨a, c, ev⟩, hvlf, hhs⟩ := connFrames_request_shape env b req b' h
  have : head = head' := by
    rw [hb', List.append_assoc, List.append_assoc] at hb
    exact (List.append_cancel_right hb).symm
  subst this
  constructor
  · rw [ev] at hclean
    exact connStream_mid_no_cr hclean hvlf
  · intro cv hc
    have hmem : ∃ hd ∈ req.headers, hd.value = cv := by
      simp only [Headers.get, Option.map_eq_some_iff] at hc
      obtain ⟨hd, hf, hv⟩ := hc
      exact ⟨hd, List.mem_of_find?_eq_some hf, hv⟩
    obtain ⟨hd, hm, rfl⟩ := hmem
    obtain ⟨⟨p, q, e⟩, hlf⟩ := hhs hd hm
    rw [e] at hclean
    exact connStream_mid_no_cr hclean hlf

/-- **Clean heads**: in every request of the stream, as the server frames it from the start, the head
(everything the request consumed except its body) never has a CR followed by a non-LF byte. Bodies
are unrestricted. -/
def HeadsClean (env : Env) (s0 : Bytes) : Prop :=
  ∀ (b : Bytes) (req : Request) (b' head : Bytes), ReqBoundary env s0 b →
    parseRequest flatSource env b = .ok (req, b') → b = head ++ req.content.getD [] ++ b' →
    CRonlyBeforeLF head

/-- A stream that is clean throughout has clean heads (so `HeadsClean` is the weaker condition). -/
theorem connFrames_headsClean_of_clean (env : Env) (s0 : Bytes) (h : CRonlyBeforeLF s0) :
    HeadsClean env s0 := by
  intro b req b' head hbd _ hb
  have := connStream_suffix h (connFrames_boundary_suffix hbd)
  rw [hb, List.append_assoc] at this
  exact connStream_prefix this

end Humphrey.Http
