import HumphreyModel.Proofs.ConfStr

/-! Number lemmas for C15: digits, `showNat`, `parse::<i64>`, `parse_size`. -/
namespace Humphrey.Conf

theorem parseNatAux_append (a b : Str) (acc : Nat) :
    parseNatAux (a ++ b) acc = (parseNatAux a acc).bind (parseNatAux b) := by
  induction a generalizing acc with
  | nil => simp [parseNatAux]
  | cons c a ih =>
    simp only [List.cons_append, parseNatAux]
    cases digitVal c with
    | none => simp
    | some d => simp [ih]

theorem digitVal_digitChar {d : Nat} (h : d < 10) : digitVal (digitChar d) = some d := by
  have : d = 0 ∨ d = 1 ∨ d = 2 ∨ d = 3 ∨ d = 4 ∨ d = 5 ∨ d = 6 ∨ d = 7 ∨ d = 8 ∨ d = 9 := by omega
  rcases this with rfl | rfl | rfl | rfl | rfl | rfl | rfl | rfl | rfl | rfl <;> decide

/-- The facts about a digit character that the proofs use. -/
structure IsDigit (c : Char) : Prop where
  val : ∃ d, digitVal c = some d
  range : 48 ≤ c.toNat ∧ c.toNat ≤ 57

theorem isDigit_of_digitVal {c : Char} {d : Nat} (h : digitVal c = some d) : IsDigit c := by
  refine ⟨⟨d, h⟩, ?_⟩
  unfold digitVal at h
  split at h
  · rename_i hc
    obtain ⟨h1, h2⟩ := hc
    have h1' : '0'.toNat ≤ c.toNat := by
      have := Char.le_def.mp h1; exact this
    have h2' : c.toNat ≤ '9'.toNat := by
      have := Char.le_def.mp h2; exact this
    exact ⟨by simpa using h1', by simpa using h2'⟩
  · cases h

theorem isDigit_digitChar {d : Nat} (h : d < 10) : IsDigit (digitChar d) :=
  isDigit_of_digitVal (digitVal_digitChar h)

theorem IsDigit.ne_of_toNat {c e : Char} (h : IsDigit c) (he : e.toNat < 48 ∨ 57 < e.toNat) : c ≠ e := by
  intro hce; subst hce; have := h.range; omega

theorem IsDigit.not_ws {c : Char} (h : IsDigit c) : isWhitespace c = false := by
  have := h.range
  simp only [isWhitespace, Bool.or_eq_false_iff, Bool.and_eq_false_iff, decide_eq_false_iff_not, beq_eq_false_iff_ne]
  omega

theorem showNat_unfold (n : Nat) :
    showNat n = if n < 10 then [digitChar n] else showNat (n / 10) ++ [digitChar (n % 10)] := by
  rw [showNat]; split <;> rfl

theorem showNat_all_digits (n : Nat) : ∀ c ∈ showNat n, IsDigit c := by
  induction n using Nat.strongRecOn with
  | _ n ih =>
    rw [showNat_unfold]
    split
    · rename_i h; intro c hc; simp at hc; subst hc; exact isDigit_digitChar h
    · rename_i h
      intro c hc
      simp only [List.mem_append, List.mem_singleton] at hc
      rcases hc with hc | rfl
      · exact ih (n / 10) (by omega) c hc
      · exact isDigit_digitChar (by omega)

theorem showNat_ne_nil (n : Nat) : showNat n ≠ [] := by
  rw [showNat_unfold]; split <;> simp

theorem parseNatAux_showNat (n : Nat) : parseNatAux (showNat n) 0 = some n := by
  induction n using Nat.strongRecOn with
  | _ n ih =>
    rw [showNat_unfold]
    split
    · rename_i h; simp [parseNatAux, digitVal_digitChar h]
    · rename_i h
      rw [parseNatAux_append, ih (n / 10) (by omega)]
      simp only [Option.bind_some, parseNatAux, digitVal_digitChar (show n % 10 < 10 by omega)]
      congr 1; omega

theorem parseDigits_showNat (n : Nat) : parseDigits (showNat n) = some n := by
  unfold parseDigits
  have := showNat_ne_nil n
  cases h : showNat n with
  | nil => exact absurd h this
  | cons c r =>
    have hp := parseNatAux_showNat n
    rw [h] at hp
    simp [hp]

theorem showNat_head (n : Nat) : ∃ c r, showNat n = c :: r ∧ IsDigit c := by
  cases h : showNat n with
  | nil => exact absurd h (showNat_ne_nil n)
  | cons c r => exact ⟨c, r, rfl, showNat_all_digits n c (by simp [h])⟩

theorem showNat_last (n : Nat) : ∃ c, (showNat n).getLast? = some c ∧ IsDigit c := by
  cases h : (showNat n).getLast? with
  | none => simp at h; exact absurd h (showNat_ne_nil n)
  | some c => exact ⟨c, rfl, showNat_all_digits n c (List.mem_of_getLast? h)⟩

theorem parseI64_showNat {n : Nat} (h : (n : Int) ≤ i64Max) : parseI64 (showNat n) = some (n : Int) := by
  obtain ⟨c, r, hcr, hd⟩ := showNat_head n
  have hp := parseDigits_showNat n
  rw [hcr] at hp
  have h1 : c ≠ '+' := hd.ne_of_toNat (by decide)
  have h2 : c ≠ '-' := hd.ne_of_toNat (by decide)
  rw [hcr]
  simp [parseI64, h1, h2, hp, h]

theorem parseNatAux_snoc_none {a : Str} {u : Char} (hu : digitVal u = none) (acc : Nat) :
    parseNatAux (a ++ [u]) acc = none := by
  rw [parseNatAux_append]
  cases parseNatAux a acc with
  | none => rfl
  | some x => simp [parseNatAux, hu]

theorem parseDigits_snoc_none {a : Str} {u : Char} (hu : digitVal u = none) :
    parseDigits (a ++ [u]) = none := by
  unfold parseDigits
  split
  · rfl
  · exact parseNatAux_snoc_none hu 0

/-- Text that ends in a non-digit is not an `i64`. -/
theorem parseI64_snoc_none {a : Str} {u : Char} (hu : digitVal u = none) : parseI64 (a ++ [u]) = none := by
  cases a with
  | nil =>
    simp only [List.nil_append, parseI64]
    split
    · simp [parseDigits]
    · split
      · simp [parseDigits]
      · have := parseDigits_snoc_none (a := []) hu
        simp only [List.nil_append] at this
        simp [this]
  | cons c r =>
    simp only [List.cons_append, parseI64]
    have h1 := parseDigits_snoc_none (a := r) hu
    have h2 := parseDigits_snoc_none (a := c :: r) hu
    simp only [List.cons_append] at h2
    split
    · simp [h1]
    · split
      · simp [h1]
      · simp [h2]

theorem utf8Len_append (a b : Str) : utf8Len (a ++ b) = utf8Len a + utf8Len b := by
  induction a with
  | nil => simp [utf8Len]
  | cons c a ih => simp [utf8Len, ih]; omega

theorem utf8Len_pos {a : Str} (h : a ≠ []) : 1 ≤ utf8Len a := by
  cases a with
  | nil => exact absurd rfl h
  | cons c a => have := Char.utf8Size_pos c; simp [utf8Len]; omega

theorem utf8Len_snoc_ne_one {a : Str} (h : a ≠ []) (u : Char) : utf8Len (a ++ [u]) ≠ 1 := by
  have h1 := utf8Len_pos h
  have h2 := Char.utf8Size_pos u
  rw [utf8Len_append]; simp [utf8Len]; omega

/-- The six unit letters and their multipliers, as the parser sees them. -/
theorem unit_cases {u : Char} {m : Nat} (h : unitFactor u = some m) :
    unitMult (toAsciiUpper u) = some (m : Int) ∧ digitVal u = none ∧
      (m = 1024 ∨ m = 1024 * 1024 ∨ m = 1024 * 1024 * 1024) := by
  unfold unitFactor at h
  split at h
  · rename_i hu; cases h; rcases hu with rfl | rfl <;> exact ⟨by decide, by decide, by simp⟩
  · split at h
    · rename_i hu; cases h; rcases hu with rfl | rfl <;> exact ⟨by decide, by decide, by simp⟩
    · split at h
      · rename_i hu; cases h; rcases hu with rfl | rfl <;> exact ⟨by decide, by decide, by simp⟩
      · cases h

theorem parseSize_unit {n m : Nat} {u : Char} (hu : unitFactor u = some m)
    (h : n * m < 2 ^ 63) : parseSize (showNat n ++ [u]) = some ((n * m : Nat) : Int) := by
  obtain ⟨hm, _, hmv⟩ := unit_cases hu
  have hn : (n : Int) ≤ i64Max := by
    have : n ≤ n * m := Nat.le_mul_of_pos_right n (by rcases hmv with rfl | rfl | rfl <;> decide)
    simp only [i64Max]; omega
  unfold parseSize
  have hne : (showNat n ++ [u]).isEmpty = false := by simp
  simp only [hne, utf8Len_snoc_ne_one (showNat_ne_nil n) u, List.reverse_append, List.reverse_cons,
    List.reverse_nil, List.nil_append, List.singleton_append, List.reverse_reverse,
    parseI64_showNat hn, hm, Bool.false_eq_true, if_false]
  unfold checkedMul
  simp only [i64Min, i64Max]
  have : ((n : Int) * (m : Int)) = ((n * m : Nat) : Int) := by simp
  rw [this]
  have h' : n * m < 9223372036854775808 := by simpa using h
  simp only [show (-9223372036854775808 : Int) ≤ ((n * m : Nat) : Int) by omega,
    show ((n * m : Nat) : Int) ≤ 9223372036854775807 by omega, and_self, if_true]

/-- Anything whose last character is neither a digit nor one of `KMGkmg` is not a size. -/
theorem parseSize_bad_unit (a : Str) {u : Char} (hd : digitVal u = none)
    (hu : unitMult (toAsciiUpper u) = none) (hud : digitVal (toAsciiUpper u) = none) :
    parseSize (a ++ [u]) = none := by
  unfold parseSize
  have hne : (a ++ [u]).isEmpty = false := by simp
  simp only [hne, Bool.false_eq_true, if_false]
  split
  · exact parseI64_snoc_none hd
  · simp only [List.reverse_append, List.reverse_cons, List.reverse_nil, List.nil_append,
      List.singleton_append, List.reverse_reverse]
    cases parseI64 a with
    | none => rfl
    | some n => simp [hu, hud]

end Humphrey.Conf
