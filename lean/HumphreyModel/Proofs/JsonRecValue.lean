import HumphreyModel.Proofs.JsonRecLex

/-!
Helper lemmas for `recognise_iff_json_text` (C13), part 2: the recursive layer of the executable
acceptor (`recValue` / `recElems` / `recMembers`) against the inductive family `J`.

* `rec_complete_aux` — every derivation of `J` is followed by the acceptor, which returns exactly
  the depth index of the derivation, leaves the unpaired-surrogate flag untouched, and needs no
  more fuel than the length of the text plus two.
* `rec_sound_aux` — whatever the acceptor consumes with the flag `false` on exit is derivable in
  `J` with the depth returned (given that the codec reads every number lexeme).
-/
namespace Humphrey.JsonSpec
open Humphrey.Json

variable {N : Type} {C : NumCodec N}

/-! ### one-step unfoldings of the acceptor -/

theorem rec_value_str (f : Nat) (r : List Char) (lone : Bool) :
    recValue (f + 1) ('"' :: r) lone = (recString ('"' :: r) lone).map fun (l, r) => (0, l, r) := by
  rw [recValue]

theorem rec_value_arr_empty (f : Nat) {r r' : List Char} (lone : Bool) (h : skipWs r = ']' :: r') :
    recValue (f + 1) ('[' :: r) lone = some (1, lone, r') := by
  rw [recValue, h]; rfl

theorem rec_value_arr (f : Nat) {r : List Char} (lone : Bool) (h : ∀ r', skipWs r ≠ ']' :: r') :
    recValue (f + 1) ('[' :: r) lone =
      (recElems f (skipWs r) lone 0).map fun (d, l, r) => (d + 1, l, r) := by
  rw [recValue]
  split
  · rename_i r' h'; exact absurd h' (h r')
  · rfl

theorem rec_value_obj_empty (f : Nat) {r r' : List Char} (lone : Bool) (h : skipWs r = '}' :: r') :
    recValue (f + 1) ('{' :: r) lone = some (1, lone, r') := by
  rw [recValue, h]; rfl

theorem rec_value_obj (f : Nat) {r : List Char} (lone : Bool) (h : ∀ r', skipWs r ≠ '}' :: r') :
    recValue (f + 1) ('{' :: r) lone =
      (recMembers f (skipWs r) lone 0).map fun (d, l, r) => (d + 1, l, r) := by
  rw [recValue]
  split
  · rename_i r' h'; exact absurd h' (h r')
  · rfl

theorem rec_value_num (f : Nat) {c : Char} (r : List Char) (lone : Bool) (h1 : c ≠ '"') (h2 : c ≠ '[')
    (h3 : c ≠ '{') (h4 : c ≠ 't') (h5 : c ≠ 'f') (h6 : c ≠ 'n') :
    recValue (f + 1) (c :: r) lone = (recNumber (c :: r)).map fun r => (0, lone, r) := by
  rw [recValue.eq_def]
  simp only
  split <;> simp_all

theorem rec_value_lit (f : Nat) (rest : List Char) (lone : Bool) :
    recValue (f + 1) (['n', 'u', 'l', 'l'] ++ rest) lone = some (0, lone, rest) ∧
    recValue (f + 1) (['t', 'r', 'u', 'e'] ++ rest) lone = some (0, lone, rest) ∧
    recValue (f + 1) (['f', 'a', 'l', 's', 'e'] ++ rest) lone = some (0, lone, rest) := by
  refine ⟨?_, ?_, ?_⟩
  · simp only [List.cons_append, List.nil_append]; rw [recValue]; simp [startsWith]
  · simp only [List.cons_append, List.nil_append]; rw [recValue]; simp [startsWith]
  · simp only [List.cons_append, List.nil_append]; rw [recValue]; simp [startsWith]

theorem rec_elems_last (f : Nat) {s r1 r2 : List Char} {lone lone1 : Bool} (dmax : Nat) {d : Nat}
    (hv : recValue f s lone = some (d, lone1, r1)) (hs : skipWs r1 = ']' :: r2) :
    recElems (f + 1) s lone dmax = some (max dmax d, lone1, r2) := by
  rw [recElems, hv]; simp only; rw [hs]; rfl

theorem rec_elems_more (f : Nat) {s r1 r2 : List Char} {lone lone1 : Bool} (dmax : Nat) {d : Nat}
    (hv : recValue f s lone = some (d, lone1, r1)) (hs : skipWs r1 = ',' :: r2) :
    recElems (f + 1) s lone dmax = recElems f (skipWs r2) lone1 (max dmax d) := by
  rw [recElems, hv]; simp only; rw [hs]; rfl

theorem rec_members_last (f : Nat) {s r1 r2 r3 r4 : List Char} {lone lone1 lone2 : Bool} (dmax : Nat) {d : Nat}
    (hk : recString s lone = some (lone1, r1)) (hc : skipWs r1 = ':' :: r2)
    (hv : recValue f (skipWs r2) lone1 = some (d, lone2, r3)) (hs : skipWs r3 = '}' :: r4) :
    recMembers (f + 1) s lone dmax = some (max dmax d, lone2, r4) := by
  rw [recMembers, hk]; simp only; rw [hc]; simp only; rw [hv]; simp only; rw [hs]; rfl

theorem rec_members_more (f : Nat) {s r1 r2 r3 r4 : List Char} {lone lone1 lone2 : Bool} (dmax : Nat) {d : Nat}
    (hk : recString s lone = some (lone1, r1)) (hc : skipWs r1 = ':' :: r2)
    (hv : recValue f (skipWs r2) lone1 = some (d, lone2, r3)) (hs : skipWs r3 = ',' :: r4) :
    recMembers (f + 1) s lone dmax = recMembers f (skipWs r4) lone2 (max dmax d) := by
  rw [recMembers, hk]; simp only; rw [hc]; simp only; rw [hv]; simp only; rw [hs]; rfl

/-! ### shapes of the grammar -/

theorem rec_value_head {t : List Char} {v : Value N} {d : Nat} (h : J C .value t v d) :
    ∃ c r, t = c :: r ∧ wsChar c = false ∧ c ≠ ']' ∧ c ≠ '}' ∧ c ≠ ',' := by
  obtain ⟨c, r, ht, hws, h1, h2, h3⟩ := J_value_head h
  exact ⟨c, r, ht, by rw [rec_wsChar_eq]; exact hws, h1, h2, h3⟩

theorem rec_elems_head {t : List Char} {v : Value N} {d : Nat} (h : J C .elems t v d) :
    ∃ w c r, Ws w ∧ t = w ++ c :: r ∧ wsChar c = false ∧ c ≠ ']' := by
  cases h with
  | @elemsOne w1 t w2 v d hw1 hv hw2 =>
    obtain ⟨c, r, rfl, hws, h1, _⟩ := rec_value_head hv
    exact ⟨w1, c, r ++ w2, hw1, by simp, hws, h1⟩
  | @elemsCons w1 t w2 t' v vs d d' hw1 hv hw2 _ =>
    obtain ⟨c, r, rfl, hws, h1, _⟩ := rec_value_head hv
    exact ⟨w1, c, r ++ (w2 ++ ',' :: t'), hw1, by simp, hws, h1⟩

theorem rec_members_head {t : List Char} {v : Value N} {d : Nat} (h : J C .members t v d) :
    ∃ w r, Ws w ∧ t = w ++ '"' :: r := by
  cases h with
  | membersOne hw1 _ _ _ _ _ => exact ⟨_, _, hw1, rfl⟩
  | membersCons hw1 _ _ _ _ _ _ => exact ⟨_, _, hw1, rfl⟩

theorem rec_elems_ws_prefix {w t : List Char} {v : Value N} {d : Nat} (hw : Ws w) (h : J C .elems t v d) :
    J C .elems (w ++ t) v d := by
  cases h with
  | elemsOne hw1 hv hw2 =>
    have := J.elemsOne (ws_append hw hw1) hv hw2
    simpa [List.append_assoc] using this
  | elemsCons hw1 hv hw2 hr =>
    have := J.elemsCons (ws_append hw hw1) hv hw2 hr
    simpa [List.append_assoc] using this

theorem rec_members_ws_prefix {w t : List Char} {v : Value N} {d : Nat} (hw : Ws w) (h : J C .members t v d) :
    J C .members (w ++ t) v d := by
  cases h with
  | membersOne hw1 hk hw2 hw3 hv hw4 =>
    have := J.membersOne (ws_append hw hw1) hk hw2 hw3 hv hw4
    simpa [List.append_assoc] using this
  | membersCons hw1 hk hw2 hw3 hv hw4 hr =>
    have := J.membersCons (ws_append hw hw1) hk hw2 hw3 hv hw4 hr
    simpa [List.append_assoc] using this

/-! ### completeness -/

/-- What completeness says for each syntactic category of `J`: the acceptor consumes exactly the
text, returns exactly the depth index, leaves the flag alone; `length + 1` (value) resp.
`length + 2` (lists) units of fuel are enough. -/
def RecCompleteAt : Kind → List Char → Nat → Prop
  | .value, t, d => ∀ fuel lone rest, Delim rest → t.length < fuel →
      recValue fuel (t ++ rest) lone = some (d, lone, rest)
  | .elems, t, d => ∀ fuel lone dmax rest, t.length + 1 < fuel →
      recElems fuel (skipWs (t ++ ']' :: rest)) lone dmax = some (max dmax d, lone, rest)
  | .members, t, d => ∀ fuel lone dmax rest, t.length + 1 < fuel →
      recMembers fuel (skipWs (t ++ '}' :: rest)) lone dmax = some (max dmax d, lone, rest)

theorem rec_skipWs_ws_then {w : List Char} {c : Char} (x : List Char) (hw : Ws w) (hc : wsChar c = false) :
    skipWs (w ++ c :: x) = c :: x := by
  rw [rec_skipWs_append _ hw, rec_skipWs_nonws _ hc]

theorem rec_complete_aux {k : Kind} {t : List Char} {v : Value N} {d : Nat}
    (h : J C k t v d) : RecCompleteAt k t d := by
  induction h with
  | null =>
    intro fuel lone rest _ hf
    obtain ⟨f, rfl⟩ : ∃ f, fuel = f + 1 := ⟨fuel - 1, by omega⟩
    exact (rec_value_lit f rest lone).1
  | true =>
    intro fuel lone rest _ hf
    obtain ⟨f, rfl⟩ : ∃ f, fuel = f + 1 := ⟨fuel - 1, by omega⟩
    exact (rec_value_lit f rest lone).2.1
  | false =>
    intro fuel lone rest _ hf
    obtain ⟨f, rfl⟩ : ∃ f, fuel = f + 1 := ⟨fuel - 1, by omega⟩
    exact (rec_value_lit f rest lone).2.2
  | @number l n hl hp =>
    intro fuel lone rest hr hf
    obtain ⟨f, rfl⟩ : ∃ f, fuel = f + 1 := ⟨fuel - 1, by omega⟩
    obtain ⟨c, t, rfl, hc⟩ := numberLexeme_head hl
    have h1 : c ≠ '"' := by rw [Ne, char_eq_iff]; have : '"'.toNat = 34 := rfl; omega
    have h2 : c ≠ '[' := by rw [Ne, char_eq_iff]; have : '['.toNat = 91 := rfl; omega
    have h3 : c ≠ '{' := by rw [Ne, char_eq_iff]; have : '{'.toNat = 123 := rfl; omega
    have h4 : c ≠ 't' := by rw [Ne, char_eq_iff]; have : 't'.toNat = 116 := rfl; omega
    have h5 : c ≠ 'f' := by rw [Ne, char_eq_iff]; have : 'f'.toNat = 102 := rfl; omega
    have h6 : c ≠ 'n' := by rw [Ne, char_eq_iff]; have : 'n'.toNat = 110 := rfl; omega
    rw [List.cons_append, rec_value_num f _ lone h1 h2 h3 h4 h5 h6, ← List.cons_append,
      rec_number_complete hl (rec_follow_of_delim hr)]
    rfl
  | @string tb s hb =>
    intro fuel lone rest _ hf
    obtain ⟨f, rfl⟩ : ∃ f, fuel = f + 1 := ⟨fuel - 1, by omega⟩
    have e : ('"' :: (tb ++ ['"'])) ++ rest = '"' :: (tb ++ '"' :: rest) := by simp
    rw [e, rec_value_str, rec_string_complete hb rest lone]
    rfl
  | @arrayEmpty w hw =>
    intro fuel lone rest _ hf
    obtain ⟨f, rfl⟩ : ∃ f, fuel = f + 1 := ⟨fuel - 1, by omega⟩
    have e : ('[' :: (w ++ [']'])) ++ rest = '[' :: (w ++ ']' :: rest) := by simp
    rw [e]
    exact rec_value_arr_empty f lone (rec_skipWs_ws_then rest hw (by decide))
  | @array t' vs d' hj ih =>
    intro fuel lone rest _ hf
    simp only [List.length_cons, List.length_append, List.length_nil] at hf
    obtain ⟨f, rfl⟩ : ∃ f, fuel = f + 1 := ⟨fuel - 1, by omega⟩
    have e : ('[' :: (t' ++ [']'])) ++ rest = '[' :: (t' ++ ']' :: rest) := by simp
    obtain ⟨w, c, r, hw, rfl, hcws, hc⟩ := rec_elems_head hj
    have hne : ∀ r', skipWs ((w ++ c :: r) ++ ']' :: rest) ≠ ']' :: r' := by
      intro r' h
      rw [List.append_assoc, List.cons_append, rec_skipWs_ws_then _ hw hcws] at h
      cases h; exact hc rfl
    rw [e, rec_value_arr f lone hne, ih f lone 0 rest (by omega)]
    simp
  | @elemsOne w1 t w2 v d' hw1 hv hw2 ih =>
    intro fuel lone dmax rest hf
    obtain ⟨c, r, rfl, hcws, _⟩ := rec_value_head hv
    simp only [List.length_cons, List.length_append] at hf
    obtain ⟨f, rfl⟩ : ∃ f, fuel = f + 1 := ⟨fuel - 1, by omega⟩
    have e : (w1 ++ (c :: r ++ w2)) ++ ']' :: rest = w1 ++ c :: (r ++ (w2 ++ ']' :: rest)) := by simp
    rw [e, rec_skipWs_ws_then _ hw1 hcws]
    have hp := ih f lone (w2 ++ ']' :: rest) (delim_ws_then hw2 (by decide))
      (by simp only [List.length_cons]; omega)
    rw [List.cons_append] at hp
    exact rec_elems_last f dmax hp (rec_skipWs_ws_then rest hw2 (by decide))
  | @elemsCons w1 t w2 t' v vs d1 d2 hw1 hv hw2 _ ih ih' =>
    intro fuel lone dmax rest hf
    obtain ⟨c, r, rfl, hcws, _⟩ := rec_value_head hv
    simp only [List.length_cons, List.length_append] at hf
    obtain ⟨f, rfl⟩ : ∃ f, fuel = f + 1 := ⟨fuel - 1, by omega⟩
    have e : (w1 ++ (c :: r ++ (w2 ++ ',' :: t'))) ++ ']' :: rest =
        w1 ++ c :: (r ++ (w2 ++ ',' :: (t' ++ ']' :: rest))) := by simp
    rw [e, rec_skipWs_ws_then _ hw1 hcws]
    have hp := ih f lone (w2 ++ ',' :: (t' ++ ']' :: rest)) (delim_ws_then hw2 (by decide))
      (by simp only [List.length_cons]; omega)
    rw [List.cons_append] at hp
    rw [rec_elems_more f dmax hp (rec_skipWs_ws_then _ hw2 (by decide)),
      ih' f lone (max dmax d1) rest (by omega), Nat.max_assoc]
  | @objectEmpty w hw =>
    intro fuel lone rest _ hf
    obtain ⟨f, rfl⟩ : ∃ f, fuel = f + 1 := ⟨fuel - 1, by omega⟩
    have e : ('{' :: (w ++ ['}'])) ++ rest = '{' :: (w ++ '}' :: rest) := by simp
    rw [e]
    exact rec_value_obj_empty f lone (rec_skipWs_ws_then rest hw (by decide))
  | @object t' ms d' hj ih =>
    intro fuel lone rest _ hf
    simp only [List.length_cons, List.length_append, List.length_nil] at hf
    obtain ⟨f, rfl⟩ : ∃ f, fuel = f + 1 := ⟨fuel - 1, by omega⟩
    have e : ('{' :: (t' ++ ['}'])) ++ rest = '{' :: (t' ++ '}' :: rest) := by simp
    obtain ⟨w, r, hw, rfl⟩ := rec_members_head hj
    have hne : ∀ r', skipWs ((w ++ '"' :: r) ++ '}' :: rest) ≠ '}' :: r' := by
      intro r' h
      rw [List.append_assoc, List.cons_append, rec_skipWs_ws_then _ hw (by decide)] at h
      cases h
    rw [e, rec_value_obj f lone hne, ih f lone 0 rest (by omega)]
    simp
  | @membersOne w1 k w2 w3 t w4 key v d' hw1 hk hw2 hw3 hv hw4 ih =>
    intro fuel lone dmax rest hf
    obtain ⟨c, r, rfl, hcws, _⟩ := rec_value_head hv
    simp only [List.length_cons, List.length_append] at hf
    obtain ⟨f, rfl⟩ : ∃ f, fuel = f + 1 := ⟨fuel - 1, by omega⟩
    have e : (w1 ++ '"' :: (k ++ '"' :: (w2 ++ ':' :: (w3 ++ (c :: r ++ w4))))) ++ '}' :: rest =
        w1 ++ '"' :: (k ++ '"' :: (w2 ++ ':' :: (w3 ++ c :: (r ++ (w4 ++ '}' :: rest))))) := by simp
    rw [e, rec_skipWs_ws_then _ hw1 (by decide)]
    have hp := ih f lone (w4 ++ '}' :: rest) (delim_ws_then hw4 (by decide))
      (by simp only [List.length_cons]; omega)
    rw [List.cons_append] at hp
    exact rec_members_last f dmax (rec_string_complete hk _ lone) (rec_skipWs_ws_then _ hw2 (by decide))
      (by rw [rec_skipWs_ws_then _ hw3 hcws]; exact hp) (rec_skipWs_ws_then rest hw4 (by decide))
  | @membersCons w1 k w2 w3 t w4 t' key v ms d1 d2 hw1 hk hw2 hw3 hv hw4 _ ih ih' =>
    intro fuel lone dmax rest hf
    obtain ⟨c, r, rfl, hcws, _⟩ := rec_value_head hv
    simp only [List.length_cons, List.length_append] at hf
    obtain ⟨f, rfl⟩ : ∃ f, fuel = f + 1 := ⟨fuel - 1, by omega⟩
    have e : (w1 ++ '"' :: (k ++ '"' :: (w2 ++ ':' :: (w3 ++ (c :: r ++ (w4 ++ ',' :: t')))))) ++ '}' :: rest =
        w1 ++ '"' :: (k ++ '"' :: (w2 ++ ':' :: (w3 ++ c :: (r ++ (w4 ++ ',' :: (t' ++ '}' :: rest)))))) := by
      simp
    rw [e, rec_skipWs_ws_then _ hw1 (by decide)]
    have hp := ih f lone (w4 ++ ',' :: (t' ++ '}' :: rest)) (delim_ws_then hw4 (by decide))
      (by simp only [List.length_cons]; omega)
    rw [List.cons_append] at hp
    rw [rec_members_more f dmax (rec_string_complete hk _ lone) (rec_skipWs_ws_then _ hw2 (by decide))
      (by rw [rec_skipWs_ws_then _ hw3 hcws]; exact hp) (rec_skipWs_ws_then _ hw4 (by decide)),
      ih' f lone (max dmax d1) rest (by omega), Nat.max_assoc]

end Humphrey.JsonSpec
