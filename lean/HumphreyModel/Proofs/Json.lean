import HumphreyModel.Model.Json
import HumphreyModel.Spec.Json

/-!
Helper lemmas for C13, part 1: characters, escapes, `parseString ∘ escapeString`.
Core Lean only.
-/
namespace Humphrey.Json
open Humphrey.JsonSpec

theorem char_le_iff (a b : Char) : a ≤ b ↔ a.toNat ≤ b.toNat := by
  rw [Char.le_def, UInt32.le_iff_toNat_le]; rfl

theorem char_eq_of_toNat {c : Char} {n : Nat} (h : c.toNat = n) : c = Char.ofNat n := by
  rw [← h, Char.ofNat_toNat]

theorem toNat_lt (c : Char) : c.toNat < 0x110000 := by
  have h := c.valid
  unfold UInt32.isValidChar Nat.isValidChar at h
  show c.val.toNat < _
  omega

theorem toNat_ne_of_ne {c d : Char} (h : c ≠ d) : c.toNat ≠ d.toNat := by
  intro e
  apply h
  rw [← Char.ofNat_toNat c, ← Char.ofNat_toNat d, e]

theorem hexVal_hexDigit : ∀ k : Fin 16, hexVal (hexDigit k.val) = some k.val := by decide

theorem hexVal_hexDigit' {k : Nat} (h : k < 16) : hexVal (hexDigit k) = some k :=
  hexVal_hexDigit ⟨k, h⟩

theorem hex4_hex4Digits {n : Nat} (h : n < 0x10000) (t : List Char) :
    hex4 (hex4Digits n ++ t) = some (n, t) := by
  simp only [hex4Digits, List.cons_append, List.nil_append, hex4]
  rw [hexVal_hexDigit' (Nat.mod_lt _ (by decide)), hexVal_hexDigit' (Nat.mod_lt _ (by decide)),
    hexVal_hexDigit' (Nat.mod_lt _ (by decide)), hexVal_hexDigit' (Nat.mod_lt _ (by decide))]
  simp only [Option.some.injEq, Prod.mk.injEq, and_true]
  omega

theorem isUnescaped_iff (c : Char) : isUnescaped c = true ↔
    (0x20 ≤ c.toNat ∧ c.toNat ≤ 0x21) ∨ (0x23 ≤ c.toNat ∧ c.toNat ≤ 0x5b) ∨
    (0x5d ≤ c.toNat ∧ c.toNat ≤ 0x10ffff) := by
  simp [isUnescaped, or_assoc]

/-- `Option` plumbing used by `parseString`: put `x` in front of the parsed string. -/
def consResult (x : Char) : Option (List Char × List Char) → Option (List Char × List Char)
  | none => none
  | some (str, r) => some (x :: str, r)

@[simp] theorem consResult_none (x : Char) : consResult x none = none := rfl
@[simp] theorem consResult_some (x : Char) (p : List Char × List Char) :
    consResult x (some p) = some (x :: p.1, p.2) := rfl

/-- Unfolding of `parseString` without the termination bookkeeping. -/
theorem parseString_cons (c : Char) (rest : List Char) :
    parseString (c :: rest) =
      if c = '\\' then
        match parseEscape rest with
        | none => none
        | some (x, rest') => consResult x (parseString rest')
      else if c = '"' then some ([], rest)
      else if isUnescaped c then consResult c (parseString rest)
      else none := by
  rw [parseString]
  split
  · split
    · rename_i h; simp [h]
    · rename_i h; simp only [h]
      cases parseString _ <;> rfl
  · split
    · rfl
    · split
      · cases parseString rest <;> rfl
      · rfl

theorem parseString_nil : parseString [] = none := by rw [parseString]

/-- One step of `parseString` over the escaped form of one character. -/
theorem parseString_escapeChar (c : Char) (t : List Char) :
    parseString (escapeChar c ++ t) = consResult c (parseString t) := by
  unfold escapeChar
  simp only
  split
  · rename_i h; have := char_eq_of_toNat h; subst this
    simp only [List.cons_append, List.nil_append, parseString_cons]
    simp [parseEscape, simpleEscape]; try rfl
  split
  · rename_i h; have := char_eq_of_toNat h; subst this
    simp only [List.cons_append, List.nil_append, parseString_cons]
    simp [parseEscape, simpleEscape]; try rfl
  split
  · rename_i h; have := char_eq_of_toNat h; subst this
    simp only [List.cons_append, List.nil_append, parseString_cons]
    simp [parseEscape, simpleEscape]; try rfl
  split
  · rename_i h; have := char_eq_of_toNat h; subst this
    simp only [List.cons_append, List.nil_append, parseString_cons]
    simp [parseEscape, simpleEscape]; try rfl
  split
  · rename_i h; have := char_eq_of_toNat h; subst this
    simp only [List.cons_append, List.nil_append, parseString_cons]
    simp [parseEscape, simpleEscape]; try rfl
  split
  · rename_i h; have := char_eq_of_toNat h; subst this
    simp only [List.cons_append, List.nil_append, parseString_cons]
    simp [parseEscape, simpleEscape]; try rfl
  split
  · rename_i h; have := char_eq_of_toNat h; subst this
    simp only [List.cons_append, List.nil_append, parseString_cons]
    simp [parseEscape, simpleEscape]; try rfl
  split
  · rename_i h; have := char_eq_of_toNat h; subst this
    simp only [List.cons_append, List.nil_append, parseString_cons]
    simp [parseEscape, simpleEscape]; try rfl
  split
  · rename_i h1 h2 h3 h4 h5 h6 h7 h8 hu
    have hb : c ≠ '\\' := by intro e; subst e; exact h2 rfl
    have hq : c ≠ '"' := by intro e; subst e; exact h1 rfl
    simp only [List.cons_append, List.nil_append, parseString_cons]
    simp [hb, hq, hu]
  · rename_i h1 h2 h3 h4 h5 h6 h7 h8 hu
    have hlt : c.toNat < 0x20 := by
      have := toNat_lt c
      rw [isUnescaped_iff] at hu
      omega
    simp only [List.cons_append, parseString_cons, if_true, parseEscape, parseUnicodeEscape]
    rw [hex4_hex4Digits (by omega)]
    have : c.toNat < 0xD800 ∨ 0xDFFF < c.toNat := by omega
    simp [this, Char.ofNat_toNat]

theorem parseString_escapeString (s rest : List Char) :
    parseString (escapeString s ++ '"' :: rest) = some (s, rest) := by
  induction s with
  | nil => simp [escapeString, parseString_cons]
  | cons c s ih =>
    simp only [escapeString, List.append_assoc, parseString_escapeChar, ih, consResult_some]

/-- (a) `parse_string` inverts `string_to_string`: reading the text after the opening quote. -/
theorem parseString_stringToString (s rest : List Char) :
    ∃ t, stringToString s ++ rest = '"' :: t ∧ parseString t = some (s, rest) := by
  refine ⟨escapeString s ++ '"' :: rest, ?_, parseString_escapeString s rest⟩
  simp [stringToString]

end Humphrey.Json
