import HumphreyModel.Model.WsApp
import HumphreyModel.Spec.WsApp

/-!
Helper lemmas for C12, part 1: the normal form of an iteration. Under `InputsOk` an iteration of the model
does not panic and its effects are, in this order, the effects of the polls (`pollEffects`), the connect
dispatches and the flush; the table afterwards is `nextStreams`. A run is then `runEffects`.
-/
namespace Humphrey.WsApp
open Humphrey.WsAppSpec

/-- What one poll contributes. -/
def pollEffects (h : Handlers) (w : Bool) (p : Poll) : List Effect :=
  (msgs p.results).flatMap (onMessage h p.addr) ++
    (if closes p then onGone h p.addr else if w then [.ping p.addr] else [])

/-- The table after the polls. -/
def kept (st : List Addr) (ps : List Poll) : List Addr :=
  st.filter fun a => !(ps.any fun p => p.addr == a && closes p)

/-- The table at the flush (and after the iteration). -/
def nextStreams (st : List Addr) (i : IterInput) : List Addr := admitAll (kept st i.polls) i.incoming

/-- The effects of an iteration that does not see the shutdown signal. -/
def iterEffects (h : Handlers) (st : List Addr) (i : IterInput) : List Effect :=
  i.polls.flatMap (pollEffects h i.willPing) ++ i.incoming.flatMap (onConnect h) ++
    flush (nextStreams st i) i.outgoing

theorem drain_eq (h : Handlers) (a : Addr) (rs : List Recv) :
    drain h a rs = ((msgs rs).flatMap (onMessage h a) ++ (if endsErr rs then onGone h a else []),
                    endsErr rs) := by
  induction rs with
  | nil => simp [drain, msgs, endsErr]
  | cons r rs ih =>
    cases r with
    | msg m => simp only [drain, msgs, endsErr, ih, List.flatMap_cons, List.append_assoc]; rfl
    | err => simp [drain, msgs, endsErr]
    | none => simp [drain, msgs, endsErr]

theorem pollOne_eq (h : Handlers) (w : Bool) (st : List Addr) (p : Poll) :
    pollOne h w st p = (if closes p then remove st p.addr else st, pollEffects h w p) := by
  unfold pollOne pollEffects closes
  rw [drain_eq]
  cases h1 : endsErr p.results <;> cases h2 : p.timedOut <;> cases w <;> simp

theorem pollAll_eq (h : Handlers) (w : Bool) : ∀ (ps : List Poll) (st : List Addr),
    (∀ p ∈ ps, p.addr ∈ st) → (ps.map (·.addr)).Nodup →
    pollAll h w st ps = (some (kept st ps), ps.flatMap (pollEffects h w)) := by
  intro ps
  induction ps with
  | nil =>
    intro st _ _
    simp only [pollAll, kept, List.any_nil, Bool.not_false, List.flatMap_nil]
    rw [List.filter_eq_self.2 (by simp)]
  | cons p ps ih =>
    intro st hmem hnd
    have hp : p.addr ∈ st := hmem p (by simp)
    simp only [List.map_cons, List.nodup_cons] at hnd
    have hrest : ∀ q ∈ ps, q.addr ∈ (if closes p then remove st p.addr else st) := by
      intro q hq
      have hq' : q.addr ∈ st := hmem q (by simp [hq])
      have hne : q.addr ≠ p.addr := by
        intro h; exact hnd.1 (h ▸ List.mem_map_of_mem hq)
      split
      · simp [remove, hq', hne]
      · exact hq'
    unfold pollAll
    rw [if_pos hp, pollOne_eq]
    simp only [ih _ hrest hnd.2]
    congr 2
    unfold kept
    by_cases hc : closes p = true
    · simp only [hc, if_true, remove, List.filter_filter, List.any_cons, Bool.and_true]
      apply List.filter_congr
      intro a _
      by_cases h : p.addr = a
      · subst h; simp
      · have h' : a ≠ p.addr := fun e => h e.symm
        have e1 : (a != p.addr) = true := bne_iff_ne.2 h'
        have e2 : (p.addr == a) = false := beq_eq_false_iff_ne.2 h
        rw [e1, e2]; simp
    · simp only [hc, List.any_cons, Bool.and_false, Bool.false_or]
      simp


theorem mem_insert {st : List Addr} {a b : Addr} : b ∈ insert st a ↔ b ∈ st ∨ b = a := by
  unfold insert
  split
  · constructor
    · intro h; exact Or.inl h
    · rintro (h | h)
      · exact h
      · subst h; assumption
  · simp

theorem nodup_insert {st : List Addr} {a : Addr} (h : st.Nodup) : (insert st a).Nodup := by
  unfold insert
  split
  · exact h
  · rename_i hn
    rw [List.nodup_append]
    refine ⟨h, by simp, ?_⟩
    intro x hx y hy
    simp at hy
    subst hy
    intro e; subst e; exact hn hx

theorem mem_admitAll : ∀ (inc st : List Addr) (b : Addr), b ∈ admitAll st inc ↔ b ∈ st ∨ b ∈ inc := by
  intro inc
  induction inc with
  | nil => intro st b; simp [admitAll]
  | cons a inc ih =>
    intro st b
    have := ih (insert st a) b
    simp only [admitAll, List.foldl_cons] at this ⊢
    rw [this, mem_insert]
    simp only [List.mem_cons]
    constructor
    · rintro ((h | h) | h)
      · exact Or.inl h
      · exact Or.inr (Or.inl h)
      · exact Or.inr (Or.inr h)
    · rintro (h | h | h)
      · exact Or.inl (Or.inl h)
      · exact Or.inl (Or.inr h)
      · exact Or.inr h

theorem nodup_admitAll : ∀ (inc st : List Addr), st.Nodup → (admitAll st inc).Nodup := by
  intro inc
  induction inc with
  | nil => intro st h; simpa [admitAll] using h
  | cons a inc ih =>
    intro st h
    simp only [admitAll, List.foldl_cons]
    exact ih _ (nodup_insert h)

theorem mem_kept {st : List Addr} {ps : List Poll} {a : Addr} :
    a ∈ kept st ps ↔ a ∈ st ∧ (ps.any fun p => p.addr == a && closes p) = false := by
  simp [kept]

theorem mem_nextStreams {st : List Addr} {i : IterInput} {a : Addr} :
    a ∈ nextStreams st i ↔ (a ∈ st ∧ closedIn i a = false) ∨ a ∈ i.incoming := by
  unfold nextStreams
  rw [mem_admitAll, mem_kept]
  rfl

theorem nodup_nextStreams {st : List Addr} (i : IterInput) (h : st.Nodup) : (nextStreams st i).Nodup :=
  nodup_admitAll _ _ (List.Nodup.sublist List.filter_sublist h)

/-- The parts of `InputsOk` used below, as propositions. -/
theorem inputsOk_iff {s : AppState} {i : IterInput} (hs : i.shutdown = false) :
    InputsOk s i = true ↔
      (i.polls.map (·.addr)).Nodup ∧ (∀ p ∈ i.polls, p.addr ∈ s.streams) ∧
      (∀ a ∈ s.streams, a ∈ i.polls.map (·.addr)) ∧ (∀ p ∈ i.polls, wellFormedResults p.results = true) := by
  simp [InputsOk, hs, and_assoc]

theorem stepLoop_eq {h : Handlers} {s : AppState} {i : IterInput} (hs : i.shutdown = false)
    (hok : InputsOk s i = true) :
    stepLoop h s i = ({ streams := nextStreams s.streams i, phase := .running }, iterEffects h s.streams i) := by
  obtain ⟨hnd, hmem, _, _⟩ := (inputsOk_iff hs).1 hok
  unfold stepLoop
  simp only [hs, Bool.false_eq_true, if_false, pollAll_eq h i.willPing i.polls s.streams hmem hnd]
  rfl

/-- The effects of a run from the table `st` (no panic, see `runLoop_eq`). -/
def runEffects (h : Handlers) : List Addr → List IterInput → List Effect
  | _, [] => []
  | st, i :: is => if i.shutdown then [.exit] else iterEffects h st i ++ runEffects h (nextStreams st i) is

/-- `RunOk` in terms of the table alone. -/
def RunOk' : List Addr → List IterInput → Prop
  | _, [] => True
  | st, i :: is =>
    i.shutdown = true ∨ (InputsOk { streams := st } i = true ∧ RunOk' (nextStreams st i) is)

theorem inputsOk_phase (s : AppState) (i : IterInput) : InputsOk s i = InputsOk { streams := s.streams } i := rfl

theorem runOk_iff (h : Handlers) : ∀ (is : List IterInput) (s : AppState), s.phase = .running →
    (RunOk h s is = true ↔ RunOk' s.streams is) := by
  intro is
  induction is with
  | nil => intro s _; simp [RunOk, RunOk']
  | cons i is ih =>
    intro s hp
    simp only [RunOk, RunOk', hp, bne_self_eq_false, Bool.false_or, Bool.and_eq_true]
    cases hs : i.shutdown
    · simp only [Bool.false_eq_true, false_or]
      constructor
      · rintro ⟨h1, h2⟩
        rw [stepLoop_eq hs h1] at h2
        exact ⟨h1, (ih _ rfl).1 h2⟩
      · rintro ⟨h1, h2⟩
        have h1' : InputsOk s i = true := h1
        rw [stepLoop_eq hs h1']
        exact ⟨h1', (ih _ rfl).2 h2⟩
    · simp [InputsOk, hs, stepLoop]
      cases is <;> simp [RunOk]

theorem runLoop_stopped (h : Handlers) (s : AppState) (is : List IterInput) (hne : s.phase ≠ .running) :
    runLoop h s is = (s, []) := by
  cases is <;> simp [runLoop, hne]

theorem runLoop_eq (h : Handlers) : ∀ (is : List IterInput) (s : AppState), s.phase = .running →
    RunOk' s.streams is → (runLoop h s is).2 = runEffects h s.streams is := by
  intro is
  induction is with
  | nil => intro s _ _; simp [runLoop, runEffects]
  | cons i is ih =>
    intro s hp hok
    simp only [runLoop, hp, if_true, runEffects]
    cases hs : i.shutdown
    · simp only [RunOk', hs, Bool.false_eq_true, false_or] at hok
      have h1 : InputsOk s i = true := hok.1
      rw [stepLoop_eq hs h1]
      simp only [Bool.false_eq_true, if_false]
      rw [ih _ rfl hok.2]
    · simp only [stepLoop, hs, if_true]
      rw [runLoop_stopped _ _ _ (by simp)]
      simp

end Humphrey.WsApp
