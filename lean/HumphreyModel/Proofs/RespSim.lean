import HumphreyModel.Model.Response
import HumphreyModel.Proofs.HttpSim

namespace Humphrey.Http
open Humphrey Humphrey.IO

theorem parseRespHeaders_sim {σ₁ σ₂ : Type} {S₁ : Source σ₁} {S₂ : Source σ₂} {R : σ₁ → σ₂ → Prop}
    (sim : Sim S₁ S₂ R) (fuel : Nat) (s₁ : σ₁) (s₂ : σ₂) (acc : Headers) (h : R s₁ s₂) :
    OutRel R (parseRespHeaders S₁ fuel s₁ acc) (parseRespHeaders S₂ fuel s₂ acc) := by
  induction fuel generalizing s₁ s₂ acc with
  | zero => simp [parseRespHeaders, OutRel]
  | succ fuel ih =>
    obtain ⟨hl, hr⟩ := sim.readUntil Bytes.LF s₁ s₂ h
    simp only [parseRespHeaders]
    rw [hl]
    by_cases hc : (S₂.readUntil Bytes.LF s₂).1 = Bytes.crlf
    · simp [hc, OutRel, hr]
    · simp only [hc, if_false]
      cases parseRespHeaderLine (S₂.readUntil Bytes.LF s₂).1 with
      | ok hd => exact ih _ _ _ hr
      | err e => simp [OutRel]
      | panic => simp [OutRel]

/-- Helper: case analysis on a pair of `readExact` results related by the simulation. -/
theorem readExact_cases {σ₁ σ₂ : Type} {S₁ : Source σ₁} {S₂ : Source σ₂} {R : σ₁ → σ₂ → Prop}
    (sim : Sim S₁ S₂ R) (n : Nat) (s₁ : σ₁) (s₂ : σ₂) (h : R s₁ s₂) :
    (S₁.readExact n s₁ = none ∧ S₂.readExact n s₂ = none) ∨
    (∃ a t₁ t₂, S₁.readExact n s₁ = some (a, t₁) ∧ S₂.readExact n s₂ = some (a, t₂) ∧ R t₁ t₂) := by
  have hx := sim.readExact n s₁ s₂ h
  cases x₁ : S₁.readExact n s₁ with
  | none =>
    cases x₂ : S₂.readExact n s₂ with
    | none => exact .inl ⟨rfl, rfl⟩
    | some q => simp [x₁, x₂] at hx
  | some q₁ =>
    cases x₂ : S₂.readExact n s₂ with
    | none => simp [x₁, x₂] at hx
    | some q₂ =>
      obtain ⟨b₁, v₁⟩ := q₁
      obtain ⟨b₂, v₂⟩ := q₂
      simp only [x₁, x₂] at hx
      obtain ⟨rfl, hv⟩ := hx
      exact .inr ⟨b₁, v₁, v₂, rfl, rfl, hv⟩

theorem parseChunk_sim {σ₁ σ₂ : Type} {S₁ : Source σ₁} {S₂ : Source σ₂} {R : σ₁ → σ₂ → Prop}
    (sim : Sim S₁ S₂ R) (s₁ : σ₁) (s₂ : σ₂) (h : R s₁ s₂) :
    OutRel R (parseChunk S₁ s₁) (parseChunk S₂ s₂) := by
  obtain ⟨hl, hr⟩ := sim.readUntil Bytes.LF s₁ s₂ h
  simp only [parseChunk]
  rw [hl]
  by_cases hu : Bytes.utf8Valid (S₂.readUntil Bytes.LF s₂).1
  · simp only [hu, Bool.not_true, Bool.false_eq_true, if_false]
    cases hp : Bytes.parseHexUsize (Bytes.trimEnd (S₂.readUntil Bytes.LF s₂).1) with
    | none => simp [OutRel]
    | some n =>
      cases n with
      | zero =>
        simp only []
        rcases readExact_cases sim 2 _ _ hr with ⟨e₁, e₂⟩ | ⟨a, t₁, t₂, e₁, e₂, ht⟩
        · simp [e₁, e₂, OutRel]
        · simp [e₁, e₂, OutRel, ht]
      | succ n =>
        simp only []
        rcases readExact_cases sim (n + 1) _ _ hr with ⟨e₁, e₂⟩ | ⟨a, t₁, t₂, e₁, e₂, ht⟩
        · simp [e₁, e₂, OutRel]
        · simp only [e₁, e₂]
          rcases readExact_cases sim 2 _ _ ht with ⟨f₁, f₂⟩ | ⟨b, u₁, u₂, f₁, f₂, hu'⟩
          · simp [f₁, f₂, OutRel]
          · simp [f₁, f₂, OutRel, hu']
  · simp [hu, OutRel]

theorem parseChunks_sim {σ₁ σ₂ : Type} {S₁ : Source σ₁} {S₂ : Source σ₂} {R : σ₁ → σ₂ → Prop}
    (sim : Sim S₁ S₂ R) (fuel : Nat) (s₁ : σ₁) (s₂ : σ₂) (acc : Bytes) (h : R s₁ s₂) :
    OutRel R (parseChunks S₁ fuel s₁ acc) (parseChunks S₂ fuel s₂ acc) := by
  induction fuel generalizing s₁ s₂ acc with
  | zero => simp [parseChunks, OutRel]
  | succ fuel ih =>
    have hc := parseChunk_sim sim s₁ s₂ h
    simp only [parseChunks]
    cases a : parseChunk S₁ s₁ with
    | err e =>
      cases b : parseChunk S₂ s₂ <;> simp_all [OutRel]
    | panic =>
      cases b : parseChunk S₂ s₂ <;> simp_all [OutRel]
    | ok pa =>
      cases b : parseChunk S₂ s₂ with
      | err e => simp_all [OutRel]
      | panic => simp_all [OutRel]
      | ok pb =>
        obtain ⟨oa, ta⟩ := pa
        obtain ⟨ob, tb⟩ := pb
        simp only [a, b, OutRel] at hc
        obtain ⟨rfl, ht⟩ := hc
        cases oa with
        | none => simp [OutRel, ht]
        | some d => exact ih _ _ _ ht

/-- Relating two outcomes through `OutRel`, by cases. -/
theorem OutRel.elim {ε α σ₁ σ₂ : Type} {R : σ₁ → σ₂ → Prop}
    {o₁ : Outcome ε (α × σ₁)} {o₂ : Outcome ε (α × σ₂)} (h : OutRel R o₁ o₂) :
    (∃ a t₁ t₂, o₁ = .ok (a, t₁) ∧ o₂ = .ok (a, t₂) ∧ R t₁ t₂) ∨
    (∃ e, o₁ = .err e ∧ o₂ = .err e) ∨ (o₁ = .panic ∧ o₂ = .panic) := by
  cases o₁ with
  | ok p =>
    cases o₂ with
    | ok q =>
      obtain ⟨a, t₁⟩ := p; obtain ⟨b, t₂⟩ := q
      simp only [OutRel] at h
      obtain ⟨rfl, ht⟩ := h
      exact .inl ⟨a, t₁, t₂, rfl, rfl, ht⟩
    | err e => simp [OutRel] at h
    | panic => simp [OutRel] at h
  | err e =>
    cases o₂ with
    | ok q => simp [OutRel] at h
    | err e' => simp only [OutRel] at h; subst h; exact .inr (.inl ⟨e, rfl, rfl⟩)
    | panic => simp [OutRel] at h
  | panic =>
    cases o₂ with
    | ok q => simp [OutRel] at h
    | err e' => simp [OutRel] at h
    | panic => exact .inr (.inr ⟨rfl, rfl⟩)

theorem readRest_sim {σ₁ σ₂ : Type} {S₁ : Source σ₁} {S₂ : Source σ₂} {R : σ₁ → σ₂ → Prop}
    (sim : Sim S₁ S₂ R) (fuel : Nat) (s₁ : σ₁) (s₂ : σ₂) (acc : Bytes) (h : R s₁ s₂) :
    (readRest S₁ fuel s₁ acc).1 = (readRest S₂ fuel s₂ acc).1 ∧
    R (readRest S₁ fuel s₁ acc).2 (readRest S₂ fuel s₂ acc).2 := by
  induction fuel generalizing s₁ s₂ acc with
  | zero => simp [readRest, h]
  | succ fuel ih =>
    obtain ⟨hl, hr⟩ := sim.readUntil Bytes.LF s₁ s₂ h
    simp only [readRest]
    rw [hl]
    split
    · exact ⟨rfl, hr⟩
    · exact ih _ _ _ hr

theorem parseBody_sim {σ₁ σ₂ : Type} {S₁ : Source σ₁} {S₂ : Source σ₂} {R : σ₁ → σ₂ → Prop}
    (sim : Sim S₁ S₂ R) (code : Nat) (hs : Headers) (s₁ : σ₁) (s₂ : σ₂) (h : R s₁ s₂) :
    OutRel R (parseBody S₁ code hs s₁) (parseBody S₂ code hs s₂) := by
  simp only [parseBody]
  by_cases hte : hs.get hTransferEncoding = some chunkedValue
  · simp only [hte, if_true]
    rw [sim.remaining _ _ h]
    rcases (parseChunks_sim sim (S₂.remaining s₂ + 1) s₁ s₂ [] h).elim with
      ⟨a, t₁, t₂, e₁, e₂, ht⟩ | ⟨e, e₁, e₂⟩ | ⟨e₁, e₂⟩
    · simp [e₁, e₂, OutRel, ht]
    · simp [e₁, e₂, OutRel]
    · simp [e₁, e₂, OutRel]
  · simp only [hte, if_false]
    cases hs.get hContentLength with
    | none =>
      simp only []
      split
      · simp [OutRel, h]
      · rw [sim.remaining _ _ h]
        obtain ⟨hb, hr⟩ := readRest_sim sim (S₂.remaining s₂ + 1) s₁ s₂ [] h
        simp [OutRel, hb, hr]
    | some cl =>
      simp only []
      cases Bytes.parseUsize cl with
      | none => simp [OutRel]
      | some n =>
        simp only []
        rcases readExact_cases sim n _ _ h with ⟨e₁, e₂⟩ | ⟨a, t₁, t₂, e₁, e₂, ht⟩
        · simp [e₁, e₂, OutRel]
        · simp [e₁, e₂, OutRel, ht]

theorem parseResponse_sim {σ₁ σ₂ : Type} {S₁ : Source σ₁} {S₂ : Source σ₂} {R : σ₁ → σ₂ → Prop}
    (sim : Sim S₁ S₂ R) (s₁ : σ₁) (s₂ : σ₂) (h : R s₁ s₂) :
    OutRel R (parseResponse S₁ s₁) (parseResponse S₂ s₂) := by
  obtain ⟨hl, hr⟩ := sim.readUntil Bytes.LF s₁ s₂ h
  simp only [parseResponse]
  rw [hl]
  cases parseStatusLine (S₂.readUntil Bytes.LF s₂).1 with
  | none => simp [OutRel]
  | some vc =>
    obtain ⟨version, c⟩ := vc
    simp only []
    rw [sim.remaining _ _ hr]
    rcases (parseRespHeaders_sim sim (S₂.remaining (S₂.readUntil Bytes.LF s₂).2 + 1) _ _ [] hr).elim with
      ⟨hs, t₁, t₂, e₁, e₂, ht⟩ | ⟨e, e₁, e₂⟩ | ⟨e₁, e₂⟩
    · simp only [e₁, e₂]
      rcases (parseBody_sim sim c hs t₁ t₂ ht).elim with
        ⟨hb, u₁, u₂, f₁, f₂, hu⟩ | ⟨e, f₁, f₂⟩ | ⟨f₁, f₂⟩
      · obtain ⟨hs', body⟩ := hb
        simp [f₁, f₂, OutRel, hu]
      · simp [f₁, f₂, OutRel]
      · simp [f₁, f₂, OutRel]
    · simp [e₁, e₂, OutRel]
    · simp [e₁, e₂, OutRel]

end Humphrey.Http
