import HumphreyModel.Model.Conf
import HumphreyModel.Spec.Conf

/-! String-level lemmas for C15: `trim`, `split_once`, `strip_suffix`, `clean_up`, `lines`. -/
namespace Humphrey.Conf

theorem isBlank_ws {c : Char} (h : isBlank c = true) : isWhitespace c = true := by
  simp only [isBlank, Bool.or_eq_true, beq_iff_eq] at h
  rcases h with rfl | rfl <;> decide

theorem dropWhile_all_append {p : Char → Bool} {a s : Str} (ha : ∀ x ∈ a, p x = true)
    (hs : s = [] ∨ ∃ c, s.head? = some c ∧ p c = false) : (a ++ s).dropWhile p = s := by
  induction a with
  | nil =>
    rcases hs with rfl | ⟨c, hc, hp⟩
    · rfl
    · cases s with
      | nil => simp at hc
      | cons d s => simp at hc; subst hc; simp [hp]
  | cons d a ih =>
    have hd : p d = true := ha d (by simp)
    simp only [List.cons_append, List.dropWhile, hd]
    exact ih (fun x hx => ha x (by simp [hx]))

theorem head?_reverse (s : Str) : s.reverse.head? = s.getLast? := by
  simp [List.head?_reverse]

theorem trim_wrap {a s b : Str} (ha : ∀ x ∈ a, isWhitespace x = true)
    (hb : ∀ x ∈ b, isWhitespace x = true) (hs : s = [] ∨ tight s) : trim (a ++ s ++ b) = s := by
  unfold trim trimStart trimEnd
  have h1 : (a ++ s ++ b).dropWhile isWhitespace = (s ++ b).dropWhile isWhitespace := by
    rcases hs with rfl | ⟨⟨c, hc, hw⟩, _⟩
    · simp only [List.append_nil, List.nil_append]
      -- everything is white space on both sides
      have e1 : (a ++ b).dropWhile isWhitespace = [] := by
        have := dropWhile_all_append (p := isWhitespace) (a := a ++ b) (s := [])
          (fun x hx => by rcases List.mem_append.mp hx with h | h; exact ha x h; exact hb x h) (Or.inl rfl)
        simpa using this
      have e2 : b.dropWhile isWhitespace = [] := by
        have := dropWhile_all_append (p := isWhitespace) (a := b) (s := []) hb (Or.inl rfl)
        simpa using this
      rw [e1, e2]
    · rw [List.append_assoc]
      rw [dropWhile_all_append ha]
      · cases s with
        | nil => simp at hc
        | cons d s => simp at hc; subst hc; simp [hw]
      · right; exact ⟨c, by cases s with
          | nil => simp at hc
          | cons d s => simpa using hc, hw⟩
  rw [h1]
  rcases hs with rfl | ⟨⟨c, hc, hw⟩, ⟨e, he, hwe⟩⟩
  · have e2 : b.dropWhile isWhitespace = [] := by
      have := dropWhile_all_append (p := isWhitespace) (a := b) (s := []) hb (Or.inl rfl)
      simpa using this
    simp [e2]
  · have h2 : (s ++ b).dropWhile isWhitespace = s ++ b := by
      cases s with
      | nil => simp at hc
      | cons d s => simp at hc; subst hc; simp [hw]
    rw [h2, List.reverse_append]
    rw [dropWhile_all_append (fun x hx => hb x (by simpa using hx))]
    · simp
    · right; exact ⟨e, by rw [head?_reverse]; exact he, hwe⟩

theorem trim_tight {s : Str} (hs : s = [] ∨ tight s) : trim s = s := by
  have := trim_wrap (a := []) (b := []) (s := s) (by simp) (by simp) hs
  simpa using this

theorem trim_blanks {a : Str} (ha : ∀ x ∈ a, isWhitespace x = true) : trim a = [] := by
  have := trim_wrap (a := a) (b := []) (s := []) ha (by simp) (Or.inl rfl)
  simpa using this

theorem splitOnce_none {c : Char} {a : Str} (ha : ∀ x ∈ a, x ≠ c) : splitOnce c a = none := by
  induction a with
  | nil => rfl
  | cons d a ih =>
    have hd : d ≠ c := ha d (by simp)
    simp [splitOnce, hd, ih (fun x hx => ha x (by simp [hx]))]

theorem splitOnce_append {c : Char} {a b : Str} (ha : ∀ x ∈ a, x ≠ c) :
    splitOnce c (a ++ c :: b) = some (a, b) := by
  induction a with
  | nil => simp [splitOnce]
  | cons d a ih =>
    have hd : d ≠ c := ha d (by simp)
    simp [splitOnce, hd, ih (fun x hx => ha x (by simp [hx]))]

theorem stripSuffixChar_snoc (c : Char) (a : Str) : stripSuffixChar c (a ++ [c]) = some a := by
  simp [stripSuffixChar]

theorem stripSuffixChar_none {c : Char} {s : Str} (h : s.getLast? ≠ some c) :
    stripSuffixChar c s = none := by
  unfold stripSuffixChar
  rw [← head?_reverse] at h
  cases hr : s.reverse with
  | nil => rfl
  | cons d r =>
    rw [hr] at h
    have : d ≠ c := by intro e; apply h; simp [e]
    simp [this]

/-- `clean_up` of a decorated line gives back the content. -/
theorem cleanUp_line {ind content tr : Str} (cm : Option Str)
    (hi : ∀ x ∈ ind, isBlank x = true) (ht : ∀ x ∈ tr, isBlank x = true)
    (hc : ∀ x ∈ content, x ≠ '#') (hs : content = [] ∨ tight content) :
    cleanUp (ind ++ content ++ tr ++ commentText cm) = content := by
  have hiw : ∀ x ∈ ind, isWhitespace x = true := fun x hx => isBlank_ws (hi x hx)
  have htw : ∀ x ∈ tr, isWhitespace x = true := fun x hx => isBlank_ws (ht x hx)
  have hno : ∀ x ∈ ind ++ content ++ tr, x ≠ '#' := by
    intro x hx
    simp only [List.mem_append] at hx
    rcases hx with (h | h) | h
    · intro e; subst e; have := hi _ h; simp [isBlank] at this
    · exact hc x h
    · intro e; subst e; have := ht _ h; simp [isBlank] at this
  unfold cleanUp
  cases cm with
  | none =>
    simp only [commentText, List.append_nil]
    rw [splitOnce_none hno]
    exact trim_wrap hiw htw hs
  | some c =>
    simp only [commentText]
    rw [splitOnce_append hno]
    exact trim_wrap hiw htw hs

theorem cleanUp_filler {f : Str × Option Str} (hf : ∀ x ∈ f.1, isBlank x = true) :
    cleanUp (fillerLine f) = [] := by
  have := cleanUp_line (ind := f.1) (content := []) (tr := []) f.2 hf (by simp) (by simp) (Or.inl rfl)
  simpa [fillerLine] using this

end Humphrey.Conf
