import HumphreyModel.Spec.JsonTyped
import HumphreyModel.Proofs.JsonSer

/-!
Helper lemmas for C14, part 1: the `json!` token munchers evaluate a literal of the documented
grammar to the value its JSON text denotes.
-/
namespace Humphrey.JsonTyped
open Humphrey.Json Humphrey.JsonSpec

variable {N : Type}

/-- one array element followed by a comma is consumed by arm 3, 4, 5 (then the comma arm) or 6 -/
theorem expandArray_step_comma (t : Tok N) (v : Value N) (h : expandTok t = some v)
    (rest : List (Tok N)) (acc : List (Value N)) :
    expandArray (t :: .comma :: rest) acc true = expandArray rest (acc ++ [v]) true := by
  cases t with
  | null => simp [expandTok] at h; subst h; simp [expandArray]
  | comma => simp [expandTok] at h
  | colon => simp [expandTok] at h
  | group k ts =>
    cases k with
    | brack => simp [expandArray, h]
    | brace => simp [expandArray, h]
  | expr w => simp [expandTok] at h; subst h; simp [expandArray]
  | lit s => simp [expandTok] at h; subst h; simp [expandArray]

/-- the last array element without a trailing comma: arm 3, 4, 5 or 7, then arm 1/2 -/
theorem expandArray_step_last (t : Tok N) (v : Value N) (h : expandTok t = some v)
    (acc : List (Value N)) :
    expandArray [t] acc true = some (acc ++ [v]) := by
  cases t with
  | null => simp [expandTok] at h; subst h; simp [expandArray]
  | comma => simp [expandTok] at h
  | colon => simp [expandTok] at h
  | group k ts =>
    cases k with
    | brack => simp [expandArray, h]
    | brace => simp [expandArray, h]
  | expr w => simp [expandTok] at h; subst h; simp [expandArray]
  | lit s => simp [expandTok] at h; subst h; simp [expandArray]

theorem keyOf_keyTok (f : KeyForm) (k : Key) : keyOf (keyTok f k : Tok N) = some k := by
  cases f <;> simp [keyTok, keyOf]

/-- what follows a member separator in the documented grammar: nothing, or a key -/
def MemberStart (rest : List (Tok N)) : Prop :=
  rest = [] ∨ ∃ f k r, rest = keyTok f k :: r

/-- arm 8 (the arms before it need a key token in front of a `:`) -/
theorem expandObject_comma (rest : List (Tok N)) (hr : MemberStart rest) (acc : List (Key × Value N)) :
    expandObject (.comma :: rest) acc true = expandObject rest acc true := by
  rcases hr with rfl | ⟨f, k, r, rfl⟩
  · simp [expandObject]
  · cases f <;> simp [keyTok, expandObject]

theorem expandObject_step_comma (f : KeyForm) (k : Key) (t : Tok N) (v : Value N)
    (h : expandTok t = some v) (rest : List (Tok N)) (hr : MemberStart rest) (acc : List (Key × Value N)) :
    expandObject (keyTok f k :: .colon :: t :: .comma :: rest) acc true =
      expandObject rest (acc ++ [(k, v)]) true := by
  have hk := keyOf_keyTok (N := N) f k
  cases t with
  | null => simp [expandTok] at h; subst h; simp [expandObject, hk, expandObject_comma rest hr]
  | comma => simp [expandTok] at h
  | colon => simp [expandTok] at h
  | group d ts =>
    cases d with
    | brack => simp [expandObject, h, hk, expandObject_comma rest hr]
    | brace => simp [expandObject, h, hk, expandObject_comma rest hr]
  | expr w => simp [expandTok] at h; subst h; simp [expandObject, hk]
  | lit s => simp [expandTok] at h; subst h; simp [expandObject, hk]

theorem expandObject_step_last (f : KeyForm) (k : Key) (t : Tok N) (v : Value N)
    (h : expandTok t = some v) (acc : List (Key × Value N)) :
    expandObject [keyTok f k, .colon, t] acc true = some (acc ++ [(k, v)]) := by
  have hk := keyOf_keyTok (N := N) f k
  cases t with
  | null => simp [expandTok] at h; subst h; simp [expandObject, hk]
  | comma => simp [expandTok] at h
  | colon => simp [expandTok] at h
  | group d ts =>
    cases d with
    | brack => simp [expandObject, h, hk]
    | brace => simp [expandObject, h, hk]
  | expr w => simp [expandTok] at h; subst h; simp [expandObject, hk]
  | lit s => simp [expandTok] at h; subst h; simp [expandObject, hk]


theorem memberStart_memberToks (ms : List (KeyForm × Key × Lit N)) (tr : Bool) :
    MemberStart (Lit.memberToks ms tr) := by
  match ms with
  | [] => left; simp [Lit.memberToks]
  | [(f, k, x)] =>
    right
    cases tr
    · exact ⟨f, k, [.colon, x.tok], by simp [Lit.memberToks]⟩
    · exact ⟨f, k, [.colon, x.tok, .comma], by simp [Lit.memberToks]⟩
  | (f, k, x) :: m :: ms =>
    right; exact ⟨f, k, .colon :: x.tok :: .comma :: Lit.memberToks (m :: ms) tr, by simp [Lit.memberToks]⟩

mutual
/-- `json!(lit)` is the value the literal denotes -/
theorem expandTok_lit : (l : Lit N) → expandTok l.tok = some l.value
  | .null => by simp [Lit.tok, Lit.value, expandTok]
  | .str s => by simp [Lit.tok, Lit.value, expandTok]
  | .expr v => by simp [Lit.tok, Lit.value, expandTok]
  | .arr xs tr => by
    have h := expandArray_elems xs tr []
    simp only [List.nil_append] at h
    simp [Lit.tok, Lit.value, expandTok, h]
  | .obj [] tr => by simp [Lit.tok, Lit.value, Lit.memberToks, Lit.memberValues, expandTok]
  | .obj (m :: ms) tr => by
    have h := expandObject_members (m :: ms) tr []
    simp only [List.nil_append] at h
    obtain ⟨f, k, x⟩ := m
    cases ms with
    | nil =>
      cases tr
      · simp only [Lit.memberToks, Bool.false_eq_true, if_false] at h
        simp [Lit.tok, Lit.value, Lit.memberToks, expandTok, h]
      · simp only [Lit.memberToks, if_true] at h
        simp [Lit.tok, Lit.value, Lit.memberToks, expandTok, h]
    | cons m' ms' =>
      simp only [Lit.memberToks] at h
      simp [Lit.tok, Lit.value, Lit.memberToks, expandTok, h]
theorem expandArray_elems : (xs : List (Lit N)) → (tr : Bool) → (acc : List (Value N)) →
    expandArray (Lit.elemToks xs tr) acc true = some (acc ++ Lit.values xs)
  | [], tr, acc => by simp [Lit.elemToks, Lit.values, expandArray]
  | [x], true, acc => by
    simp only [Lit.elemToks, if_true]
    rw [expandArray_step_comma _ _ (expandTok_lit x)]
    simp [expandArray, Lit.values]
  | [x], false, acc => by
    simp only [Lit.elemToks]
    rw [if_neg (by simp), expandArray_step_last _ _ (expandTok_lit x)]
    simp [Lit.values]
  | x :: y :: xs, tr, acc => by
    simp only [Lit.elemToks]
    rw [expandArray_step_comma _ _ (expandTok_lit x), expandArray_elems (y :: xs) tr]
    simp [Lit.values]
theorem expandObject_members : (ms : List (KeyForm × Key × Lit N)) → (tr : Bool) →
    (acc : List (Key × Value N)) →
    expandObject (Lit.memberToks ms tr) acc true = some (acc ++ Lit.memberValues ms)
  | [], tr, acc => by simp [Lit.memberToks, Lit.memberValues, expandObject]
  | [(f, k, x)], true, acc => by
    simp only [Lit.memberToks, if_true]
    rw [expandObject_step_comma _ _ _ _ (expandTok_lit x) _ (Or.inl rfl)]
    simp [expandObject, Lit.memberValues]
  | [(f, k, x)], false, acc => by
    simp only [Lit.memberToks]
    rw [if_neg (by simp), expandObject_step_last _ _ _ _ (expandTok_lit x)]
    simp [Lit.memberValues]
  | (f, k, x) :: m :: ms, tr, acc => by
    simp only [Lit.memberToks]
    rw [expandObject_step_comma _ _ _ _ (expandTok_lit x) _ (memberStart_memberToks (m :: ms) tr),
      expandObject_members (m :: ms) tr]
    simp [Lit.memberValues]
end

/-! ### the text a literal spells is the serialisation of its value -/

mutual
theorem spell_eq_serialize (C : NumCodec N) : (l : Lit N) → l.spell C = serialize C l.value
  | .null => by simp [Lit.spell, Lit.value, serialize]
  | .str s => by simp [Lit.spell, Lit.value, serialize]
  | .expr v => by simp [Lit.spell, Lit.value]
  | .arr xs tr => by simp [Lit.spell, Lit.value, serialize, spellElems_eq C xs]
  | .obj ms tr => by simp [Lit.spell, Lit.value, serialize, spellMembers_eq C ms]
theorem spellElems_eq (C : NumCodec N) : (xs : List (Lit N)) →
    Lit.spellElems C xs = serializeItems C (Lit.values xs)
  | [] => by simp [Lit.spellElems, Lit.values, serializeItems]
  | [x] => by simp [Lit.spellElems, Lit.values, serializeItems, spell_eq_serialize C x]
  | x :: y :: xs => by
    simp [Lit.spellElems, Lit.values, serializeItems, spell_eq_serialize C x, spellElems_eq C (y :: xs)]
theorem spellMembers_eq (C : NumCodec N) : (ms : List (KeyForm × Key × Lit N)) →
    Lit.spellMembers C ms = serializeMembers C (Lit.memberValues ms)
  | [] => by simp [Lit.spellMembers, Lit.memberValues, serializeMembers]
  | [(f, k, x)] => by
    simp [Lit.spellMembers, Lit.memberValues, serializeMembers, spell_eq_serialize C x]
  | (f, k, x) :: m :: ms => by
    obtain ⟨f', k', x'⟩ := m
    simp [Lit.spellMembers, Lit.memberValues, serializeMembers, spell_eq_serialize C x,
      spellMembers_eq C ((f', k', x') :: ms)]
end

end Humphrey.JsonTyped
