import HumphreyModel.Proofs.AuthSim
/-
Helper lemmas for the corollaries of the refinement: how the drawn values evolve, which operations can
output a token, and "a dead token stays dead".
-/
namespace Humphrey.Auth
set_option linter.unusedSectionVars false
set_option linter.unusedSimpArgs false
set_option linter.unusedVariables false

section
variable {U T H P S Pep : Type} [DecidableEq U] [DecidableEq T] [DecidableEq P]

theorem issue_drawn (a : Spec.State U T P) (u : U) (l : Nat) (t : T) (now : Nat) :
    (Spec.issue a u l t now).1.drawnToks = t :: a.drawnToks ∧
    (Spec.issue a u l t now).1.drawnUids = a.drawnUids := by
  unfold Spec.issue
  cases a.pw u with
  | none => exact ⟨rfl, rfl⟩
  | some _ =>
    simp only
    split
    · exact ⟨rfl, rfl⟩
    · split <;> exact ⟨rfl, rfl⟩

/-- The specification records exactly the values the operations draw. -/
theorem spec_step_drawn (dl rl : Nat) (a : Spec.State U T P) (op : Op U T P S) (now : Nat) :
    (Spec.step dl rl a op now).1.drawnUids = Spec.drawU a.drawnUids op ∧
    (Spec.step dl rl a op now).1.drawnToks = Spec.drawT a.drawnToks op := by
  cases op with
  | createUser p s u =>
    simp only [Spec.step, Spec.drawU, Spec.drawT]
    split <;> exact ⟨rfl, rfl⟩
  | removeUser u =>
    simp only [Spec.step, Spec.drawU, Spec.drawT]
    split <;> exact ⟨rfl, rfl⟩
  | verify u p => exact ⟨rfl, rfl⟩
  | userExists u => exact ⟨rfl, rfl⟩
  | createSession u t =>
    have := issue_drawn a u dl t now
    exact ⟨this.2, this.1⟩
  | createSessionWithLifetime u l t =>
    have := issue_drawn a u l t now
    exact ⟨this.2, this.1⟩
  | refreshSession t =>
    simp only [Spec.step, Spec.drawU, Spec.drawT]
    split
    · exact ⟨rfl, rfl⟩
    · split <;> exact ⟨rfl, rfl⟩
  | invalidateSession t => exact ⟨rfl, rfl⟩
  | invalidateUserSession u => exact ⟨rfl, rfl⟩
  | getUidByToken t => exact ⟨rfl, rfl⟩
  | authRoute c => exact ⟨rfl, rfl⟩

/-- Only the two session-creating calls can return a token, and it is the one they drew. -/
theorem step_tok (hs : HashScheme P S Pep H) (cfg : Config Pep) (db : Db U T H) (op : Op U T P S)
    (now : Nat) (t : T) (h : (step hs cfg db op now).2 = .tok t) : ∀ dt, Spec.drawT dt op = t :: dt := by
  have hcs : ∀ u l t', (createSessionWith db u l t' now).2 = .tok t → t' = t := by
    intro u l t' h
    unfold createSessionWith at h
    split at h
    · cases h
    · split at h
      · split at h
        · split at h
          · simpa using h
          · cases h
        · cases h
      · cases h
  cases op with
  | createUser p s u =>
    simp only [step, createUser] at h
    split at h <;> cases h
  | removeUser u =>
    simp only [step, removeUserOp] at h
    split at h <;> cases h
  | verify u p => cases h
  | userExists u => cases h
  | createSession u t' =>
    intro dt; rw [← hcs u _ t' h]; rfl
  | createSessionWithLifetime u l t' =>
    intro dt; rw [← hcs u l t' h]; rfl
  | refreshSession t' =>
    simp only [step, refreshSession] at h
    repeat (first | cases h | split at h)
  | invalidateSession t' =>
    simp only [step, invalidateSession] at h
    repeat (first | cases h | split at h)
  | invalidateUserSession u =>
    simp only [step, invalidateUserSession] at h
    repeat (first | cases h | split at h)
  | getUidByToken t' =>
    simp only [step, getUidByToken] at h
    repeat (first | cases h | split at h)
  | authRoute c =>
    simp only [step, authRoute] at h
    repeat (first | cases h | split at h)

/-- A drawn token that is absent from the token map or expired at `now`. -/
def Dead (a : Spec.State U T P) (t : T) (now : Nat) : Prop :=
  t ∈ a.drawnToks ∧ ∀ u e, a.sess t = some (u, e) → e ≤ now

theorem dropSessionsOf_some {a : Spec.State U T P} {u : U} {t : T} {u' : U} {e : Nat}
    (h : Spec.dropSessionsOf a u t = some (u', e)) : a.sess t = some (u', e) := by
  unfold Spec.dropSessionsOf at h
  cases hs' : a.sess t with
  | none => simp [hs'] at h
  | some ue =>
    obtain ⟨u2, e2⟩ := ue
    simp only [hs'] at h
    by_cases hu : u2 = u
    · simp [hu] at h
    · simpa [hu] using h

theorem dead_issue {a : Spec.State U T P} {t : T} {now now' : Nat} (hd : Dead a t now) (hle : now ≤ now')
    (u : U) (l : Nat) (t' : T) (hf : t' ∉ a.drawnToks) : Dead (Spec.issue a u l t' now').1 t now' := by
  have hne : t ≠ t' := fun h => hf (h ▸ hd.1)
  refine ⟨by rw [(issue_drawn a u l t' now').1]; exact List.mem_cons_of_mem _ hd.1, ?_⟩
  intro u1 e1 h
  have hold : ∀ u e, a.sess t = some (u, e) → e ≤ now' := fun u e h => Nat.le_trans (hd.2 u e h) hle
  unfold Spec.issue at h
  cases hp : a.pw u with
  | none => simp only [hp] at h; exact hold _ _ h
  | some p =>
    simp only [hp] at h
    split at h
    · exact hold _ _ h
    · split at h
      · simp only [Spec.upd, hne, if_false] at h
        exact hold _ _ (dropSessionsOf_some h)
      · exact hold _ _ h

/-- **A dead token stays dead**: no operation at a later time brings it back (this is where the repair
of `refresh_session` is needed, and where `Fresh` excludes re-issuing the same token). -/
theorem dead_step {a : Spec.State U T P} {t : T} {now now' : Nat} (hd : Dead a t now) (hle : now ≤ now')
    (dl rl : Nat) (op : Op U T P S) (hf : Spec.FreshOp a.drawnUids a.drawnToks op) :
    Dead (Spec.step dl rl a op now').1 t now' := by
  have hold : ∀ u e, a.sess t = some (u, e) → e ≤ now' := fun u e h => Nat.le_trans (hd.2 u e h) hle
  have hsame : Dead a t now' := ⟨hd.1, hold⟩
  cases op with
  | createUser p s u =>
    simp only [Spec.step]
    split <;> exact ⟨hd.1, hold⟩
  | removeUser u =>
    simp only [Spec.step]
    split
    · exact hsame
    · exact ⟨hd.1, fun u1 e1 h => hold u1 e1 (dropSessionsOf_some h)⟩
  | verify u p => exact hsame
  | userExists u => exact hsame
  | createSession u t' => exact dead_issue hd hle u dl t' hf
  | createSessionWithLifetime u l t' => exact dead_issue hd hle u l t' hf
  | refreshSession t' =>
    simp only [Spec.step]
    split
    · exact hsame
    · rename_i u1 hlive
      split
      · refine ⟨hd.1, ?_⟩
        intro u2 e2 h
        simp only [Spec.upd] at h
        by_cases ht : t = t'
        · -- the refreshed token was live, so it is not the dead one
          subst ht
          exfalso
          unfold Spec.live at hlive
          cases hs' : a.sess t with
          | none => simp [hs'] at hlive
          | some ue =>
            obtain ⟨u3, e3⟩ := ue
            simp only [hs'] at hlive
            have := hold u3 e3 hs'
            have hnlt : ¬ now' < e3 := Nat.not_lt.mpr this
            simp [hnlt] at hlive
        · simp only [ht, if_false] at h
          exact hold _ _ h
      · exact hsame
  | invalidateSession t' =>
    refine ⟨hd.1, ?_⟩
    intro u2 e2 h
    change Spec.upd a.sess t' none t = some (u2, e2) at h
    simp only [Spec.upd] at h
    by_cases ht : t = t'
    · simp [ht] at h
    · simp only [ht, if_false] at h; exact hold _ _ h
  | invalidateUserSession u =>
    exact ⟨hd.1, fun u1 e1 h => hold u1 e1 (dropSessionsOf_some h)⟩
  | getUidByToken t' => exact hsame
  | authRoute c => exact hsame

/-- Clock values never go back, starting from `now`. -/
def Monotone (now : Nat) : List (Op U T P S × Nat) → Prop
  | [] => True
  | (_, n) :: rest => now ≤ n ∧ Monotone n rest

/-- The time of the last operation (or `now` if there is none). -/
def lastClock (now : Nat) : List (Op U T P S × Nat) → Nat
  | [] => now
  | (_, n) :: rest => lastClock n rest

theorem dead_run (dl rl : Nat) : ∀ (ops : List (Op U T P S × Nat)) (a : Spec.State U T P) (t : T) (now : Nat),
    Dead a t now → Monotone now ops → Spec.Fresh a.drawnUids a.drawnToks ops →
    Dead (Spec.run dl rl a ops).1 t (lastClock now ops)
  | [], a, t, now, hd, _, _ => hd
  | (op, n) :: rest, a, t, now, hd, hm, hf => by
    have h1 := dead_step hd hm.1 dl rl op hf.1
    have hdr := spec_step_drawn dl rl a op n
    have hf' : Spec.Fresh (Spec.step dl rl a op n).1.drawnUids (Spec.step dl rl a op n).1.drawnToks rest := by
      rw [hdr.1, hdr.2]; exact hf.2
    exact dead_run dl rl rest _ t n h1 hm.2 hf'

end
end Humphrey.Auth
