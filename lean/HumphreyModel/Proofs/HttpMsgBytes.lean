import HumphreyModel.Model.Response
import HumphreyModel.Spec.HttpMsg
/-
Byte-level lemmas shared by the C07 round-trip theorems and the C01 spec theorem: decimal rendering
(`natToBytes`) against `digitsValue` / `parseUsize`, line splitting (`Spec.splitLine`, `splitOnce`,
`IO.takeThrough`), `stripCrlf`, `asciiLower`, UTF-8 validity of concatenations.
-/
namespace Humphrey.Bytes
open Humphrey

/-! ## Decimal rendering -/

theorem digit_facts : ∀ k, k < 10 →
    isDigit (48 + k.toUInt8) = true ∧ (48 + k.toUInt8 : UInt8).toNat - 48 = k ∧
    (48 + k.toUInt8 : UInt8) ≠ 43 ∧ (48 + k.toUInt8 : UInt8) ≠ 32 ∧
    (48 + k.toUInt8 : UInt8) ≠ 13 ∧ (48 + k.toUInt8 : UInt8) ≠ 10 ∧ (48 + k.toUInt8 : UInt8) < 128 := by
  decide

theorem digitsValue_append (a b : Bytes) (acc : Nat) :
    digitsValue (a ++ b) acc = digitsValue b (digitsValue a acc) := by
  induction a generalizing acc with
  | nil => rfl
  | cons x xs ih => simp [digitsValue, ih]

/-- The digits `natToBytesAux` puts in front of the accumulator. -/
theorem natToBytesAux_spec (fuel n : Nat) (h : n < fuel) :
    ∃ ds : Bytes, (∀ acc, natToBytesAux fuel n acc = ds ++ acc) ∧ ds ≠ [] ∧
      (∀ b ∈ ds, isDigit b = true) ∧ (∀ a, digitsValue ds a = a * 10 ^ ds.length + n) ∧
      n < 10 ^ ds.length ∧ (ds.length = 1 ∨ 10 ^ (ds.length - 1) ≤ n) := by
  induction fuel generalizing n with
  | zero => omega
  | succ fuel ih =>
    have hd := digit_facts (n % 10) (Nat.mod_lt _ (by omega))
    by_cases h0 : n / 10 = 0
    · refine ⟨[48 + (n % 10).toUInt8], ?_, by simp, ?_, ?_, ?_, .inl rfl⟩
      · intro acc; simp [natToBytesAux, h0]
      · intro b hb; simp at hb; subst hb; exact hd.1
      · intro a
        simp only [digitsValue, hd.2.1, List.length_singleton, Nat.pow_one]
        omega
      · simp only [List.length_singleton, Nat.pow_one]; omega
    · obtain ⟨ds, h1, h2, h3, h4, h5, h6⟩ := ih (n / 10) (by omega)
      have hlen : 1 ≤ ds.length := by
        cases ds with
        | nil => exact absurd rfl h2
        | cons _ _ => simp
      refine ⟨ds ++ [48 + (n % 10).toUInt8], ?_, by simp, ?_, ?_, ?_, .inr ?_⟩
      · intro acc; simp [natToBytesAux, h0, h1]
      · intro b hb
        simp only [List.mem_append, List.mem_singleton] at hb
        rcases hb with hb | hb
        · exact h3 b hb
        · subst hb; exact hd.1
      · intro a
        rw [digitsValue_append, h4]
        simp only [digitsValue, hd.2.1, List.length_append, List.length_singleton, Nat.pow_succ]
        have : a * (10 ^ ds.length * 10) = a * 10 ^ ds.length * 10 := by rw [Nat.mul_assoc]
        omega
      · simp only [List.length_append, List.length_singleton, Nat.pow_succ]; omega
      · simp only [List.length_append, List.length_singleton, Nat.add_sub_cancel]
        rcases h6 with h6 | h6
        · rw [h6]; simp only [Nat.pow_one]; omega
        · have : 10 ^ ds.length = 10 ^ (ds.length - 1) * 10 := by
            rw [← Nat.pow_succ]; congr 1; omega
          omega

theorem natToBytes_spec (n : Nat) :
    natToBytes n ≠ [] ∧ (∀ b ∈ natToBytes n, isDigit b = true) ∧
    digitsValue (natToBytes n) 0 = n ∧ n < 10 ^ (natToBytes n).length ∧
    ((natToBytes n).length = 1 ∨ 10 ^ ((natToBytes n).length - 1) ≤ n) := by
  obtain ⟨ds, h1, h2, h3, h4, h5, h6⟩ := natToBytesAux_spec (n + 1) n (by omega)
  have e : natToBytes n = ds := by simp [natToBytes, h1]
  rw [e]
  exact ⟨h2, h3, by simp [h4], h5, h6⟩

theorem isDigit_facts (b : UInt8) (h : isDigit b = true) :
    b ≠ 43 ∧ b ≠ 32 ∧ b ≠ 13 ∧ b ≠ 10 ∧ b ≠ 58 ∧ b < 128 := by
  simp only [isDigit, Bool.and_eq_true, decide_eq_true_eq, UInt8.le_iff_toNat_le] at h
  have h1 : (48 : UInt8).toNat = 48 := rfl
  have h2 : (57 : UInt8).toNat = 57 := rfl
  rw [h1, h2] at h
  refine ⟨?_, ?_, ?_, ?_, ?_, ?_⟩ <;>
    first
    | (intro e; subst e; revert h; decide)
    | (rw [UInt8.lt_iff_toNat_lt]; have : (128 : UInt8).toNat = 128 := rfl; omega)

theorem natToBytes_length_three (n : Nat) (h1 : 100 ≤ n) (h2 : n ≤ 999) :
    (natToBytes n).length = 3 := by
  obtain ⟨hne, _, _, hlt, hge⟩ := natToBytes_spec n
  generalize natToBytes n = ds at *
  match ds, hne with
  | [a], _ => simp at hlt; omega
  | [a, b], _ => simp at hlt; omega
  | [a, b, c], _ => rfl
  | a :: b :: c :: d :: rest, _ =>
    rcases hge with hge | hge
    · simp at hge
    · simp only [List.length_cons, Nat.add_sub_cancel] at hge
      have : 10 ^ 3 ≤ 10 ^ (rest.length + 1 + 1 + 1) := Nat.pow_le_pow_right (by omega) (by omega)
      omega

/-- `usize::from_str(n.to_string()) = n` (below 2^64). -/
theorem parseUsize_natToBytes_m (n : Nat) (h : n < 18446744073709551616) :
    parseUsize (natToBytes n) = some n := by
  obtain ⟨hne, hd, hv, _, _⟩ := natToBytes_spec n
  generalize natToBytes n = ds at *
  cases ds with
  | nil => exact absurd rfl hne
  | cons b rest =>
    have hb : b ≠ 43 := (isDigit_facts b (hd b (by simp))).1
    have hall : (b :: rest).all isDigit = true := by
      rw [List.all_eq_true]; exact hd
    unfold parseUsize
    split
    · rename_i heq; simp at heq; exact absurd heq.1 hb
    · simp only [List.isEmpty_cons, Bool.false_eq_true, if_false, hall, if_true, hv, h]

/-! ## Lines -/

theorem splitLine_append (l t : Bytes) (h : ∀ b ∈ l, b ≠ 13) :
    Spec.splitLine (l ++ 13 :: 10 :: t) = some (l, t) := by
  induction l with
  | nil => simp [Spec.splitLine]
  | cons a as ih =>
    have ha : a ≠ 13 := h a (by simp)
    have ih' := ih (fun b hb => h b (by simp [hb]))
    cases as with
    | nil =>
      simp only [List.cons_append, List.nil_append] at ih' ⊢
      simp [Spec.splitLine, ha]
    | cons a2 as2 =>
      simp only [List.cons_append] at ih' ⊢
      simp [Spec.splitLine, ha, ih']

theorem splitOnce_append (sep : UInt8) (l t : Bytes) (h : ∀ b ∈ l, b ≠ sep) :
    splitOnce sep (l ++ sep :: t) = (l, some t) := by
  induction l with
  | nil => simp [splitOnce]
  | cons a as ih =>
    have ha : a ≠ sep := h a (by simp)
    simp [splitOnce, ha, ih (fun b hb => h b (by simp [hb]))]

theorem takeThrough_append (d : UInt8) (l t : Bytes) (h : ∀ b ∈ l, b ≠ d) :
    IO.takeThrough d (l ++ d :: t) = some (l ++ [d], t) := by
  induction l with
  | nil => simp [IO.takeThrough]
  | cons a as ih =>
    have ha : a ≠ d := h a (by simp)
    simp [IO.takeThrough, ha, ih (fun b hb => h b (by simp [hb]))]

theorem flatReadUntil_line (l t : Bytes) (h : ∀ b ∈ l, b ≠ 10) :
    IO.flatReadUntil 10 (l ++ 13 :: 10 :: t) = (l ++ [13, 10], t) := by
  have := takeThrough_append 10 (l ++ [13]) t (by
    intro b hb
    simp only [List.mem_append, List.mem_singleton] at hb
    rcases hb with hb | hb
    · exact h b hb
    · subst hb; decide)
  simp only [List.append_assoc, List.cons_append, List.nil_append] at this
  simp [IO.flatReadUntil, this]

theorem stripCrlf_append (l : Bytes) : stripCrlf (l ++ [13, 10]) = some l := by
  simp [stripCrlf, crlf]

/-! ## Lower-casing -/

/-- A property of all bytes, checked on the 256 values. -/
theorem forall_uint8 (P : UInt8 → Prop) (h : ∀ n, n < 256 → P (UInt8.ofNat n)) : ∀ b, P b := by
  intro b
  have := h b.toNat b.toNat_lt
  simpa using this

set_option maxRecDepth 8000 in
theorem lowerByte_idem_m (b : UInt8) : lowerByte (lowerByte b) = lowerByte b := by
  revert b; apply forall_uint8; decide

theorem asciiLower_idem_m (s : Bytes) : asciiLower (asciiLower s) = asciiLower s := by
  simp [asciiLower, lowerByte_idem_m]

set_option maxRecDepth 8000 in
theorem isTchar_lowerByte (b : UInt8) : Spec.isTchar b = true → Spec.isTchar (lowerByte b) = true := by
  revert b; apply forall_uint8; decide

set_option maxRecDepth 8000 in
theorem isTchar_facts (b : UInt8) : Spec.isTchar b = true → b ≠ 58 ∧ b ≠ 13 ∧ b ≠ 10 ∧ b ≠ 32 ∧ b < 128 := by
  revert b; apply forall_uint8; decide

/-! ## UTF-8 validity of concatenations -/

theorem utf8Valid_cons_ascii_m (x : UInt8) (xs : Bytes) (hx : x < 128) :
    utf8Valid (x :: xs) = utf8Valid xs := by
  cases xs with
  | nil => simp [utf8Valid, hx]
  | cons a as =>
    cases as with
    | nil => simp [utf8Valid, hx]
    | cons b bs =>
      cases bs with
      | nil => simp [utf8Valid, hx]
      | cons b bs => simp [utf8Valid, hx]

theorem utf8Valid_ascii_append (a b : Bytes) (h : ∀ x ∈ a, x < 128) :
    utf8Valid (a ++ b) = utf8Valid b := by
  induction a with
  | nil => rfl
  | cons x xs ih =>
    simp only [List.cons_append]
    rw [utf8Valid_cons_ascii_m _ _ (h x (by simp)), ih (fun y hy => h y (by simp [hy]))]

end Humphrey.Bytes
