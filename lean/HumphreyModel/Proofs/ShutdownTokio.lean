import HumphreyModel.Model.Shutdown

/-!
C20, tokio loop (`Model/Shutdown.lean`, namespace `Tokio`): invariant, measure, progress.
-/
namespace Humphrey.Shutdown.Tokio
open Humphrey Humphrey.Shutdown

structure Inv (s : State) : Prop where
  closed : s.listenerOpen = false ↔ s.pc = .returned
  left : s.pc = .dropListener ∨ s.pc = .returned → s.cancelled = true

theorem inv_init : Inv init := by constructor <;> simp [init]

theorem inv_step {h : Entry → Bool} {s s' : State} {l : Label} (hi : Inv s) (hs : step h s l = some s') : Inv s' := by
  obtain ⟨h1, h2⟩ := hi
  cases l <;> simp only [step] at hs
  case arrive e => simp at hs; obtain ⟨_, rfl⟩ := hs; exact ⟨h1, h2⟩
  case cancel => simp at hs; obtain ⟨_, rfl⟩ := hs; exact ⟨h1, fun _ => rfl⟩
  case takeCancelled =>
    simp at hs; obtain ⟨⟨hp, hc⟩, rfl⟩ := hs
    refine ⟨?_, fun _ => hc⟩
    simp [hp] at h1; simp [h1]
  case takeAccept =>
    split at hs
    · rename_i hp
      simp [hp] at h1 h2
      split at hs
      · split at hs <;> (simp at hs; subst hs; constructor <;> simp_all)
      · simp at hs
    · simp at hs
  case cond b =>
    split at hs
    · rename_i e hp
      simp [hp] at h1 h2
      split at hs
      · simp at hs
      · split at hs <;> (simp at hs; subst hs; constructor <;> simp_all)
    · simp at hs
  case spawn =>
    split at hs
    · rename_i e hp
      simp [hp] at h1 h2
      simp at hs; subst hs; constructor <;> simp_all
    · simp at hs
  case dropListener =>
    simp at hs; obtain ⟨hp, rfl⟩ := hs
    exact ⟨by simp, fun _ => h2 (Or.inl hp)⟩

theorem run_inv {h : Entry → Bool} : ∀ (ls : List Label) (s s' : State), Inv s → run h s ls = some s' → Inv s'
  | [], s, s', hi, hr => by simp [run] at hr; subst hr; exact hi
  | l :: ls, s, s', hi, hr => by
    simp only [run] at hr
    cases hl : step h s l with
    | none => simp [hl] at hr
    | some s1 => simp only [hl] at hr; exact run_inv ls s1 s' (inv_step hi hl) hr

theorem Inv.of_reachable {h : Entry → Bool} {s : State} (hr : Reachable h s) : Inv s := by
  obtain ⟨ls, hls⟩ := hr; exact run_inv ls init s inv_init hls

def Pc.rank : Pc → Nat
  | .returned => 0
  | .dropListener => 1
  | .select => 2
  | .spawn _ => 20
  | .condition _ => 21

def measure (s : State) : Nat := 20 * s.backlog.length + s.pc.rank + (if s.cancelled then 0 else 1)

theorem measure_step {h : Entry → Bool} {s s' : State} {l : Label} (hs : step h s l = some s') :
    (l.isArrive = false → measure s' < measure s) ∧ (l.isArrive = true → measure s' = measure s + 20) := by
  cases l <;> simp only [step] at hs
  case arrive e => simp at hs; obtain ⟨_, rfl⟩ := hs; simp [measure, Label.isArrive]; omega
  case cancel => simp at hs; obtain ⟨hc, rfl⟩ := hs; simp [measure, Label.isArrive, hc]
  case takeCancelled => simp at hs; obtain ⟨⟨hp, hc⟩, rfl⟩ := hs; simp [measure, Label.isArrive, hp, Pc.rank]
  case takeAccept =>
    split at hs
    · rename_i hp
      split at hs
      · rename_i e b hb
        split at hs <;> (simp at hs; subst hs; simp [measure, Label.isArrive, hp, hb, Pc.rank]; try omega)
      · simp at hs
    · simp at hs
  case cond b =>
    split at hs
    · rename_i e hp
      split at hs
      · simp at hs
      · split at hs <;> (simp at hs; subst hs; simp [measure, Label.isArrive, hp, Pc.rank])
    · simp at hs
  case spawn =>
    split at hs
    · rename_i e hp; simp at hs; subst hs; simp [measure, Label.isArrive, hp, Pc.rank]
    · simp at hs
  case dropListener =>
    simp at hs; obtain ⟨hp, rfl⟩ := hs; simp [measure, Label.isArrive, hp, Pc.rank]

/-- Nothing but an arrival can happen. -/
def Terminal (h : Entry → Bool) (s : State) : Prop := ∀ l : Label, l.isArrive = false → step h s l = none

theorem terminal_returned {h : Entry → Bool} {s : State} (hc : ∀ e, h e = false) (hT : Terminal h s) : s.pc = .returned := by
  have contra : ∀ l : Label, l.isArrive = false → (step h s l).isSome = true → False := by
    intro l hl hs; rw [hT l hl] at hs; simp at hs
  cases hp : s.pc with
  | returned => rfl
  | select =>
    exfalso
    cases hcan : s.cancelled
    · exact contra .cancel rfl (by simp [step, hcan])
    · exact contra .takeCancelled rfl (by simp [step, hp, hcan])
  | condition e => exact (contra (.cond true) rfl (by simp [step, hp, hc e])).elim
  | spawn e => exact (contra .spawn rfl (by simp [step, hp])).elim
  | dropListener => exact (contra .dropListener rfl (by simp [step, hp])).elim

end Humphrey.Shutdown.Tokio
