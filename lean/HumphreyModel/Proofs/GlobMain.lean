import HumphreyModel.Proofs.Glob

namespace Humphrey.Glob

/-- Loop invariant of the post-`*` phase. `l` is the literal run consumed since the bookmark:
`ps = l ++ p` and `bt = l ++ t`. The loop answers "does the current attempt succeed, or does
some later placement of the bookmarked `*`?". -/
theorem matchStar_spec (p t ps bt : List Char) (h : t.length ≤ bt.length)
    (l : List Char) (hl : ∀ c ∈ l, c ≠ '*') (hps : ps = l ++ p) (hbt : bt = l ++ t) :
    matchStar p t ps bt h = true ↔
      (Glob p t ∨ ∃ k, 1 ≤ k ∧ Glob ps (bt.drop k)) := by
  fun_induction matchStar p t ps bt h generalizing l with
  | case1 p ps bt h _ =>
    -- text exhausted
    rw [← glob_nil_right]
    constructor
    · intro hg; exact .inl hg
    · rintro (hg | ⟨k, hk, hg⟩)
      · exact hg
      · subst hps hbt
        obtain ⟨y, hy, hg'⟩ := (glob_lits_append hl).mp hg
        have := congrArg List.length hy
        simp only [List.append_nil, List.length_drop, List.length_append] at this
        have hy0 : y = [] := List.eq_nil_of_length_eq_zero (by omega)
        subst hy0; exact hg'
  | case2 ps bt c t' h p' _ ih =>
    -- new `*`: bookmark moves here
    rw [ih [] (by simp) rfl rfl]
    constructor
    · rintro (hg | ⟨k, hk, hg⟩)
      · exact .inl (.starSkip hg)
      · exact .inl (glob_star_drop k hg)
    · rintro (hg | ⟨k, hk, hg⟩)
      · obtain ⟨k, _, hg⟩ := glob_star.mp hg
        cases k with
        | zero => exact .inl (by simpa using hg)
        | succ k => exact .inr ⟨k + 1, by omega, hg⟩
      · subst hps hbt
        have := old_bookmark_subsumed hl k hg
        obtain ⟨j, _, hg⟩ := glob_star.mp this
        cases j with
        | zero => exact .inl (by simpa using hg)
        | succ j => exact .inr ⟨j + 1, by omega, hg⟩
  | case3 ps bt t' w p' hw h _ ih =>
    -- literal match, `w = c`
    rw [ih (l ++ [w]) (by intro d hd; simp at hd; rcases hd with hd | rfl; exact hl d hd; exact hw)
      (by simp [hps]) (by simp [hbt])]
    rw [glob_lit_cons hw]
    simp
  | case4 ps bt c t' h w p' hw hne _ ih =>
    -- mismatch: backtrack
    have hbt' : bt ≠ [] := by intro hb; subst hb; simp at h
    rw [ih [] (by simp) rfl rfl]
    have hno : ¬ Glob (w :: p') (c :: t') := by
      rw [glob_lit_cons hw]; exact fun hh => hne hh.1
    obtain ⟨b, bt', rfl⟩ := List.exists_cons_of_ne_nil hbt'
    simp only [List.tail_cons]
    constructor
    · rintro (hg | ⟨k, hk, hg⟩)
      · exact .inr ⟨1, by omega, by simpa using hg⟩
      · exact .inr ⟨k + 1, by omega, by simpa [List.drop_drop] using hg⟩
    · rintro (hg | ⟨k, hk, hg⟩)
      · exact absurd hg hno
      · cases k with
        | zero => omega
        | succ k =>
          cases k with
          | zero => exact .inl (by simpa using hg)
          | succ k => exact .inr ⟨k + 1, by omega, by simpa using hg⟩
  | case5 ps bt c t' h _ ih =>
    -- pattern exhausted, text not: backtrack
    have hbt' : bt ≠ [] := by intro hb; subst hb; simp at h
    rw [ih [] (by simp) rfl rfl]
    have hno : ¬ Glob [] (c :: t') := by rw [glob_nil_left]; simp
    obtain ⟨b, bt', rfl⟩ := List.exists_cons_of_ne_nil hbt'
    simp only [List.tail_cons]
    constructor
    · rintro (hg | ⟨k, hk, hg⟩)
      · exact .inr ⟨1, by omega, by simpa using hg⟩
      · exact .inr ⟨k + 1, by omega, by simpa [List.drop_drop] using hg⟩
    · rintro (hg | ⟨k, hk, hg⟩)
      · exact absurd hg hno
      · cases k with
        | zero => omega
        | succ k =>
          cases k with
          | zero => exact .inl (by simpa using hg)
          | succ k => exact .inr ⟨k + 1, by omega, by simpa using hg⟩

theorem matchNoStar_spec (p t : List Char) : matchNoStar p t = true ↔ Glob p t := by
  fun_induction matchNoStar p t with
  | case1 p => exact glob_nil_right.symm
  | case2 c t => simp [glob_nil_left]
  | case3 p' c t' =>
    rw [matchStar_spec p' (c :: t') p' (c :: t') _ [] (by simp) rfl rfl]
    constructor
    · rintro (hg | ⟨k, hk, hg⟩)
      · exact .starSkip hg
      · exact glob_star_drop k hg
    · intro hg
      obtain ⟨k, _, hg⟩ := glob_star.mp hg
      cases k with
      | zero => exact .inl (by simpa using hg)
      | succ k => exact .inr ⟨k + 1, by omega, hg⟩
  | case4 p' w t' hw ih =>
    rw [ih, glob_lit_cons hw]; simp
  | case5 w p' c t' hw hne =>
    simp [glob_lit_cons hw, hne]

end Humphrey.Glob
