import HumphreyModel.Spec.JsonTyped

/-!
Helper lemmas for C14, part 2: the typed mapping.
-/
namespace Humphrey.JsonTyped
open Humphrey.Json (Value)

/-! ### numbers -/

theorem roundMag_lt (fuel e a : Nat) (h : a < 2 ^ (53 + e)) : roundMag fuel e a = roundAt a e := by
  cases fuel <;> simp [roundMag, h]

theorem roundF64_of_lt (i : Int) (h : i.natAbs < 2 ^ 53) : roundF64 i = i := by
  unfold roundF64
  rw [roundMag_lt _ _ _ (by simpa using h)]
  simp only [roundAt, if_true]
  split <;> omega

/-- every integer of magnitude at most `2^53` is an `f64` -/
theorem f64Exact_of_le (i : Int) (h : i.natAbs ≤ 2 ^ 53) : F64Exact i := by
  unfold F64Exact
  rcases Nat.lt_or_eq_of_le h with h | h
  · exact roundF64_of_lt i h
  · have : i = 9007199254740992 ∨ i = -9007199254740992 := by omega
    rcases this with rfl | rfl <;> decide

theorem clamp_of_mem (k : NumKind) (i : Int) (h1 : k.lo ≤ i) (h2 : i ≤ k.hi) : clamp k i = i := by
  unfold clamp
  rw [if_neg (by omega), if_neg (by omega)]

/-! ### lists -/

theorem mapExcept_map {α β ε : Type} (f : α → Except ε β) (g : β → α) (vs : List β)
    (h : ∀ v ∈ vs, f (g v) = .ok v) : mapExcept f (vs.map g) = .ok vs := by
  induction vs with
  | nil => simp [mapExcept]
  | cons v vs ih =>
    simp only [List.map_cons, mapExcept]
    rw [h v (by simp), ih (fun w hw => h w (by simp [hw]))]

theorem findKey_append_of_notin {N : Type} (k : Key) (pre post : List (Key × Value N))
    (h : k ∉ pre.map (·.1)) : findKey k (pre ++ post) = findKey k post := by
  induction pre with
  | nil => simp
  | cons p pre ih =>
    obtain ⟨k', v⟩ := p
    simp only [List.map_cons, List.mem_cons, not_or] at h
    simp only [List.cons_append, findKey]
    rw [if_neg (fun e => h.1 e.symm), ih h.2]

theorem findVariant_getD (names : List Key) : ∀ (j i : Nat), names.Nodup → i < names.length →
    findVariant (names.getD i []) names j = some (j + i) := by
  induction names with
  | nil => intro j i _ h; simp at h
  | cons n ns ih =>
    intro j i hn hi
    cases i with
    | zero => simp [findVariant]
    | succ i =>
      have hi' : i < ns.length := by simpa using hi
      have hmem : ns.getD i [] ∈ ns := by
        rw [List.getD_eq_getElem?_getD, List.getElem?_eq_getElem hi']
        simp
      have hne : ns.getD i [] ≠ n := by
        intro e
        rw [e] at hmem
        exact (List.nodup_cons.mp hn).1 hmem
      simp only [List.getD_cons_succ, findVariant]
      rw [if_neg hne, ih (j + 1) i (List.nodup_cons.mp hn).2 hi']
      congr 1; omega

theorem toJsonTuple_length : ∀ (ts : List Ty) (vs : List TVal), hasTyTuple ts vs = true →
    (toJsonTuple ts vs).length = ts.length
  | [], [], _ => by simp [toJsonTuple]
  | [], _ :: _, h => by simp [hasTyTuple] at h
  | _ :: _, [], h => by simp [hasTyTuple] at h
  | t :: ts, v :: vs, h => by
    simp only [hasTyTuple, Bool.and_eq_true] at h
    simp [toJsonTuple, toJsonTuple_length ts vs h.2]

/-- only `Option` produces `null` -/
theorem toJson_ne_null (t : Ty) (v : TVal) (ht : hasTy t v = true) (hno : t.isOpt = false) :
    toJson t v ≠ .null := by
  cases t <;> cases v <;> simp_all [hasTy, toJson, Ty.isOpt]

end Humphrey.JsonTyped
