import HumphreyModel.Proofs.Base64

/-! The div/mod arithmetic of `Model/Base64.lean` is the shift/mask arithmetic written in
`base64.rs` (so that this reading is proved, not only exercised by the correspondence run). -/
namespace Humphrey.Base64

set_option maxRecDepth 100000 in
theorem shift_mask_byte : ∀ n : Fin 256,
    (UInt8.ofNat n.val >>> 2).toNat = n.val / 4 ∧ (UInt8.ofNat n.val >>> 4).toNat = n.val / 16 ∧
    (UInt8.ofNat n.val >>> 6).toNat = n.val / 64 ∧ (UInt8.ofNat n.val &&& 0x03).toNat = n.val % 4 ∧
    (UInt8.ofNat n.val &&& 0x0f).toNat = n.val % 16 ∧ (UInt8.ofNat n.val &&& 0x3f).toNat = n.val % 64 := by
  decide

set_option maxRecDepth 100000 in
theorem or_disjoint_4 : ∀ x : Fin 4, ∀ y : Fin 16,
    ((UInt8.ofNat x.val <<< 4) ||| UInt8.ofNat y.val).toNat = x.val * 16 + y.val := by decide

set_option maxRecDepth 100000 in
theorem or_disjoint_2 : ∀ x : Fin 16, ∀ y : Fin 4,
    ((UInt8.ofNat x.val <<< 2) ||| UInt8.ofNat y.val).toNat = x.val * 4 + y.val := by decide

theorem groupIndices_eq_shift_mask' (a b c : UInt8) :
    groupIndices a.toNat b.toNat c.toNat =
      [(a >>> 2).toNat, ((a &&& 0x03) <<< 4 ||| b >>> 4).toNat,
       ((b &&& 0x0f) <<< 2 ||| c >>> 6).toNat, (c &&& 0x3f).toNat] := by
  have ha := shift_mask_byte ⟨a.toNat, a.toNat_lt⟩
  have hb := shift_mask_byte ⟨b.toNat, b.toNat_lt⟩
  have hc := shift_mask_byte ⟨c.toNat, c.toNat_lt⟩
  simp only [UInt8.ofNat_toNat] at ha hb hc
  have h1 := or_disjoint_4 ⟨a.toNat % 4, by omega⟩ ⟨b.toNat / 16, by have := b.toNat_lt; omega⟩
  have h2 := or_disjoint_2 ⟨b.toNat % 16, by omega⟩ ⟨c.toNat / 64, by have := c.toNat_lt; omega⟩
  simp only [← ha.2.2.2.1, ← hb.2.1, ← hb.2.2.2.2.1, ← hc.2.2.1, UInt8.ofNat_toNat] at h1 h2
  simp only [groupIndices, ha.1, hc.2.2.2.2.2, h1, h2, ha.2.2.2.1, hb.2.1, hb.2.2.2.2.1, hc.2.2.1]

theorem or_step (acc v : Nat) (hv : v < 64) : (acc <<< 6) ||| v = acc * 64 + v := by
  rw [← Nat.shiftLeft_add_eq_or_of_lt (by simpa using hv), Nat.shiftLeft_eq]

theorem shl_or (x y k : Nat) : (x <<< k) ||| (y <<< k) = (x ||| y) <<< k := by
  rw [Nat.shiftLeft_or_distrib]

theorem decoded_or_eq_add' (v0 v1 v2 v3 : Nat) (h1 : v1 < 64) (h2 : v2 < 64) (h3 : v3 < 64) :
    (((0 ||| v0 <<< (6 * (3 - 0))) ||| v1 <<< (6 * (3 - 1))) ||| v2 <<< (6 * (3 - 2))) |||
        v3 <<< (6 * (3 - 3)) =
      v0 * 2 ^ (6 * (3 - 0)) + v1 * 2 ^ (6 * (3 - 1)) + v2 * 2 ^ (6 * (3 - 2)) +
        v3 * 2 ^ (6 * (3 - 3)) := by
  have e18 : v0 <<< 18 = ((v0 <<< 6) <<< 6) <<< 6 := by simp [← Nat.shiftLeft_add]
  have e12 : v1 <<< 12 = (v1 <<< 6) <<< 6 := by simp [← Nat.shiftLeft_add]
  simp only [Nat.zero_or, Nat.reduceSub, Nat.reduceMul, Nat.shiftLeft_zero, Nat.reducePow]
  rw [e18, e12, shl_or, shl_or, shl_or, or_step _ _ h1, or_step _ _ h2, or_step _ _ h3]
  omega

end Humphrey.Base64
