import HumphreyModel.Props.C01Spec
import HumphreyModel.Proofs.ConnStreamFrames
/-
The witness that the clean-stream hypothesis of `Props/C01Stream.lean` (and `hcr` of
`serve_meets_spec`) is necessary: the stream `GET / A\rB\r\n\r\n` served by `sampleCfg`
(`Props/C01Spec.lean`). `serve` and `checkConn` are evaluated by rewriting with the step lemmas of
`Proofs/HttpMsgLoop.lean` (`decide` cannot unfold the well-founded `matchStar` behind `getHandler`);
everything below the step lemmas is closed by `rfl`/`decide`.
-/
namespace Humphrey.Http
open Humphrey Humphrey.Bytes Humphrey.IO Humphrey.Glob

/-- `GET / A\rB\r\n\r\n`: a request line whose version `A\rB` contains a bare CR. -/
def bareCRStream : Bytes := [71, 69, 84, 32, 47, 32, 65, 13, 66, 13, 10, 13, 10]
def bareCRReq : Request := ⟨.get, [47], [], [65,13,66], [], none, ⟨[49], [], 80⟩⟩
def bareCRResp : Response := completeResponse sampleCfg.now bareCRReq
  { (⟨http11, 200, [⟨⟨[120, 45, 97]⟩, [118]⟩], [120]⟩ : Response) with
    headers := ({ origins := none, methods := some [.get], headers := some [] } : Cors).setHeaders [⟨⟨[120, 45, 97]⟩, [118]⟩] }

theorem bareCR_parse : parseRequest readerSource sampleCfg.env ⟨[], [bareCRStream]⟩ = .ok (bareCRReq, ⟨[], []⟩) := by
  rfl

theorem bareCR_handler : getHandler sampleCfg.app ((bareCRReq.headers.get hHost).map sampleCfg.decode) (sampleCfg.decode bareCRReq.uri)
   = some ⟨['*'], (), { origins := none, methods := some [.get], headers := some [] }⟩ := by
  simp [getHandler, sampleCfg, bareCRReq, Headers.get, wildcardMatch, matchNoStar, matchStar, allStars]

theorem bareCR_respond : respond sampleCfg bareCRReq false = some bareCRResp := by
  unfold respond
  simp only [bareCR_handler]
  rfl

theorem bareCR_notmsg : Spec.parseMsg (serializeResponse bareCRResp) = none := by decide


theorem bareCR_serve : serve readerSource readerIdle sampleCfg ⟨[], [bareCRStream]⟩ =
    ⟨[serializeResponse bareCRResp], [bareCRReq], none, .closed, ⟨[], []⟩⟩ := by
  have e : serve readerSource readerIdle sampleCfg ⟨[], [bareCRStream]⟩ =
      serveLoop readerSource readerIdle sampleCfg (13 + 1) ⟨[], [bareCRStream]⟩ [] [] := rfl
  rw [e, serveLoop_request readerSource readerIdle sampleCfg 13 ⟨[], [bareCRStream]⟩ ⟨[], []⟩ bareCRReq [] []
    rfl bareCR_parse (by decide)]
  have hk : kaOf bareCRReq = false := rfl
  rw [hk, bareCR_respond]
  simp only [Bool.false_eq_true, if_false, List.nil_append, dOf, bareCR_handler]
  rfl

theorem bareCR_verdict :
    Spec.checkConn sampleCfg readerIdle ⟨[], [bareCRStream]⟩
      (serve readerSource readerIdle sampleCfg ⟨[], [bareCRStream]⟩).written
      (decide ((serve readerSource readerIdle sampleCfg ⟨[], [bareCRStream]⟩).disposition = .handlerPanicked))
      = some "response-not-an-http-message" := by
  rw [bareCR_serve]
  have e : Spec.checkConn sampleCfg readerIdle ⟨[], [bareCRStream]⟩ [serializeResponse bareCRResp] false =
    Spec.checkLoop sampleCfg readerIdle (14 + 1) ⟨[], [bareCRStream]⟩ [serializeResponse bareCRResp] false false := rfl
  simp only [reduceCtorEq, decide_false]
  rw [e, checkLoop_response sampleCfg readerIdle 14 ⟨[], [bareCRStream]⟩ ⟨[], []⟩ bareCRReq false false false
    bareCRResp _ [] rfl bareCR_parse (by decide) bareCR_respond]
  have hc : Spec.checkResponse sampleCfg bareCRReq (kaOf bareCRReq) (serializeResponse bareCRResp) =
      some "response-not-an-http-message" := by
    unfold Spec.checkResponse
    rw [bareCR_notmsg]
  rw [hc]
  decide

/-! ## A stream with a binary body: heads clean, stream not clean -/

/-- `POST / H\r\nContent-Length: 3\r\n\r\n` followed by the 3-byte body `\rA\r` (two bare CRs). -/
def binaryBodyStream : Bytes :=
  [80, 79, 83, 84, 32, 47, 32, 72, 13, 10,
   67, 111, 110, 116, 101, 110, 116, 45, 76, 101, 110, 103, 116, 104, 58, 32, 51, 13, 10, 13, 10,
   13, 65, 13]

def binaryBodyReq : Request :=
  ⟨.post, [47], [], [72], [⟨hContentLength, [51]⟩], some [13, 65, 13], ⟨[49], [], 80⟩⟩

theorem binaryBody_parse :
    parseRequest flatSource sampleCfg.env binaryBodyStream = .ok (binaryBodyReq, []) := by rfl

theorem binaryBody_boundaries (b : Bytes) (h : ReqBoundary sampleCfg.env binaryBodyStream b) :
    b = binaryBodyStream := by
  induction h with
  | start => rfl
  | next _ hp _ hka ih =>
    subst ih
    rw [binaryBody_parse] at hp
    simp only [Outcome.ok.injEq, Prod.mk.injEq] at hp
    rw [← hp.1] at hka
    exact absurd hka (by decide)

theorem binaryBody_headsClean : HeadsClean sampleCfg.env binaryBodyStream := by
  intro b req b' head hb hp hsplit
  have := binaryBody_boundaries b hb
  subst this
  rw [binaryBody_parse] at hp
  simp only [Outcome.ok.injEq, Prod.mk.injEq] at hp
  obtain ⟨rfl, rfl⟩ := hp
  have e : binaryBodyStream = binaryBodyStream.take 31 ++ binaryBodyReq.content.getD [] ++ [] := by decide
  rw [e, List.append_assoc, List.append_assoc] at hsplit
  have := List.append_cancel_right hsplit
  rw [← this, ← connStream_bool_iff]
  decide

end Humphrey.Http
