import HumphreyModel.Model.Base64
import HumphreyModel.Spec.Base64

/-! Helper lemmas for the Base64 half of C18: facts about the 64-entry alphabet and the 256 byte
values (kernel evaluation over `Fin 64` / `Fin 256`), and the inner group loop. -/
namespace Humphrey.Base64

theorem byte_cases {P : UInt8 → Prop} (h : ∀ n : Fin 256, P (UInt8.ofNat n.val)) (b : UInt8) : P b := by
  have := h ⟨b.toNat, b.toNat_lt⟩
  simpa using this

set_option maxRecDepth 100000 in
theorem sym_table : ∀ n : Fin 64,
    sym n.val = Spec.table.getD n.val 0 ∧ sextet (sym n.val) = some n.val ∧ sym n.val ≠ 61 ∧
    sym n.val ∈ Spec.table := by
  decide

theorem sym_eq_table {n : Nat} (h : n < 64) : sym n = Spec.table.getD n 0 := (sym_table ⟨n, h⟩).1
theorem sextet_sym {n : Nat} (h : n < 64) : sextet (sym n) = some n := (sym_table ⟨n, h⟩).2.1
theorem sym_ne_pad {n : Nat} (h : n < 64) : sym n ≠ 61 := (sym_table ⟨n, h⟩).2.2.1
theorem sym_mem_table {n : Nat} (h : n < 64) : sym n ∈ Spec.table := (sym_table ⟨n, h⟩).2.2.2

set_option maxRecDepth 100000 in
theorem sextet_table : ∀ n : Fin 256,
    sextet (UInt8.ofNat n.val) =
      if Spec.table.contains (UInt8.ofNat n.val) then some (Spec.table.idxOf (UInt8.ofNat n.val)) else none := by
  decide

/-- The value arms of the decoder's `match` are RFC 4648 Table 1 read backwards. -/
theorem sextet_eq_spec (c : UInt8) :
    sextet c = if Spec.table.contains c then some (Spec.table.idxOf c) else none :=
  byte_cases (P := fun c => sextet c =
    if Spec.table.contains c then some (Spec.table.idxOf c) else none) sextet_table c

theorem sextet_some_iff {c : UInt8} {v : Nat} :
    sextet c = some v ↔ c ∈ Spec.table ∧ Spec.table.idxOf c = v := by
  rw [sextet_eq_spec]
  by_cases h : c ∈ Spec.table <;> simp [h]

theorem sextet_none_iff {c : UInt8} : sextet c = none ↔ c ∉ Spec.table := by
  rw [sextet_eq_spec]
  by_cases h : c ∈ Spec.table <;> simp [h]

theorem pad_not_mem_table : (61 : UInt8) ∉ Spec.table := by decide

theorem sextet_lt {c : UInt8} {v : Nat} (h : sextet c = some v) : v < 64 := by
  unfold sextet at h
  repeat' split at h
  all_goals simp at h
  all_goals omega

theorem mem_table_ne_pad {c : UInt8} (h : c ∈ Spec.table) : c ≠ 61 := by
  rintro rfl; exact pad_not_mem_table h

theorem groupIndices_lt {a b c : Nat} (ha : a < 256) (hb : b < 256) (hc : c < 256) :
    a / 4 < 64 ∧ a % 4 * 16 + b / 16 < 64 ∧ b % 16 * 4 + c / 64 < 64 ∧ c % 64 < 64 ∧
    a % 4 * 16 < 64 ∧ b % 16 * 4 < 64 := by
  omega

end Humphrey.Base64
