import HumphreyModel.Model.Fs
import HumphreyModel.Spec.Fs
/-!
Helper lemmas for C06: descent (`lookup`), the path walk (`step`, `walk`), splitting a path text
into components, and the `..` test. Core Lean only.
-/
namespace Humphrey.Fs
open Humphrey

/-! ### `lookup` -/

@[simp] theorem lookup_nil (n : Node) : lookup n [] = some n := by
  cases n <;> simp [lookup]

@[simp] theorem lookup_file_cons (c : Bytes) (a : Name) (as : List Name) :
    lookup (.file c) (a :: as) = none := by simp [lookup]

theorem lookup_dir_cons (es : List (Name × Node)) (a : Name) (as : List Name) :
    lookup (.dir es) (a :: as) = (findEntry a es).bind (fun ch => lookup ch as) := by
  simp only [lookup]
  cases findEntry a es <;> simp

theorem lookup_append (n : Node) (a b : List Name) :
    lookup n (a ++ b) = (lookup n a).bind (fun m => lookup m b) := by
  induction a generalizing n with
  | nil => simp
  | cons c cs ih =>
    cases n with
    | file _ => simp
    | dir es =>
      simp only [List.cons_append, lookup_dir_cons]
      cases findEntry c es with
      | none => simp
      | some ch => simp [ih]

theorem lookup_prefix {n : Node} {a b : List Name} {m : Node} (h : lookup n (a ++ b) = some m) :
    ∃ k, lookup n a = some k ∧ lookup k b = some m := by
  rw [lookup_append] at h
  cases hk : lookup n a with
  | none => simp [hk] at h
  | some k => exact ⟨k, rfl, by simpa [hk] using h⟩

theorem findEntry_eq_entryOf (n : Name) (es : List (Name × Node)) :
    findEntry n es = Spec.entryOf es n := by
  induction es with
  | nil => simp [findEntry, Spec.entryOf]
  | cons e es ih =>
    obtain ⟨k, v⟩ := e
    by_cases hk : k = n
    · simp [findEntry, Spec.entryOf, hk]
    · have : (k == n) = false := by simpa using hk
      simp [findEntry, hk, ih, Spec.entryOf, List.find?, this]

theorem lookup_iff_descends (n : Node) (cs : List Name) (m : Node) :
    lookup n cs = some m ↔ Spec.Descends n cs m := by
  constructor
  · intro h
    induction cs generalizing n with
    | nil => simp at h; subst h; exact .here _
    | cons c cs ih =>
      cases n with
      | file _ => simp at h
      | dir es =>
        rw [lookup_dir_cons] at h
        cases hf : findEntry c es with
        | none => simp [hf] at h
        | some ch =>
          simp only [hf, Option.bind_some] at h
          exact .down (by rw [← findEntry_eq_entryOf]; exact hf) (ih ch h)
  · intro h
    induction h with
    | here n => simp
    | down he _ ih =>
      rw [lookup_dir_cons, findEntry_eq_entryOf, he]
      simpa using ih

/-! ### `step` and `walk` -/

/-- What a successful step did. -/
theorem step_cases {world : Node} {cur : List Name} {c : Name} {cur' : List Name}
    (h : step world cur c = some cur') :
    (∃ es, lookup world cur = some (.dir es)) ∧
    (((c = [] ∨ c = [46]) ∧ cur' = cur) ∨ (c = [46, 46] ∧ cur' = cur.dropLast) ∨
      (c ≠ [46, 46] ∧ cur' = cur ++ [c] ∧ ∃ m, lookup world (cur ++ [c]) = some m)) := by
  unfold step at h
  split at h
  · rename_i es hes
    refine ⟨⟨es, hes⟩, ?_⟩
    split at h
    · simp at h
    · split at h
      · rename_i hc
        simp at h
        exact .inl ⟨hc, h.symm⟩
      · split at h
        · rename_i hc
          simp at h
          exact .inr (.inl ⟨hc, h.symm⟩)
        · rename_i hc
          split at h
          · rename_i m hm
            simp at h
            exact .inr (.inr ⟨hc, h.symm, m, hm⟩)
          · simp at h
  · simp at h

/-- A step from a reachable place ends in a reachable place. -/
theorem step_valid {world : Node} {cur : List Name} {c : Name} {cur' : List Name}
    (h : step world cur c = some cur') : ∃ m, lookup world cur' = some m := by
  obtain ⟨⟨es, hes⟩, hc⟩ := step_cases h
  rcases hc with ⟨-, rfl⟩ | ⟨-, rfl⟩ | ⟨-, rfl, m, hm⟩
  · exact ⟨_, hes⟩
  · have : cur = cur.dropLast ++ cur.drop (cur.length - 1) := by
      rw [List.dropLast_eq_take]; exact (List.take_append_drop _ _).symm
    rw [this] at hes
    obtain ⟨k, hk, -⟩ := lookup_prefix hes
    exact ⟨k, hk⟩
  · exact ⟨m, hm⟩

theorem walk_nil (world : Node) (cur : List Name) : walk world cur [] = some cur := by simp [walk]

theorem walk_cons (world : Node) (cur : List Name) (c : Name) (cs : List Name) :
    walk world cur (c :: cs) = (step world cur c).bind (fun cur' => walk world cur' cs) := by
  simp only [walk]
  cases step world cur c <;> simp

theorem walk_append (world : Node) (cur : List Name) (xs ys : List Name) :
    walk world cur (xs ++ ys) = (walk world cur xs).bind (fun c => walk world c ys) := by
  induction xs generalizing cur with
  | nil => simp [walk_nil]
  | cons x xs ih =>
    simp only [List.cons_append, walk_cons]
    cases step world cur x with
    | none => simp
    | some cur' => simp [ih]

/-- Without a `..` component the walk only descends: the result extends the starting point. -/
theorem walk_descends {world : Node} {comps : List Name} (hno : ∀ c ∈ comps, c ≠ [46, 46])
    {cur p : List Name} (h : walk world cur comps = some p) : ∃ rel, p = cur ++ rel := by
  induction comps generalizing cur with
  | nil => simp [walk_nil] at h; exact ⟨[], by simp [h]⟩
  | cons c cs ih =>
    rw [walk_cons] at h
    cases hs : step world cur c with
    | none => simp [hs] at h
    | some cur' =>
      simp only [hs, Option.bind_some] at h
      obtain ⟨rel, hrel⟩ := ih (fun x hx => hno x (List.mem_cons_of_mem _ hx)) h
      obtain ⟨-, hc⟩ := step_cases hs
      rcases hc with ⟨-, rfl⟩ | ⟨hdd, -⟩ | ⟨-, rfl, -⟩
      · exact ⟨rel, hrel⟩
      · exact absurd hdd (hno c (List.mem_cons_self ..))
      · exact ⟨c :: rel, by simp [hrel]⟩

/-- The walk ends in a reachable place when it starts in one. -/
theorem walk_valid {world : Node} {comps : List Name} {cur p : List Name}
    (hcur : ∃ m, lookup world cur = some m) (h : walk world cur comps = some p) :
    ∃ m, lookup world p = some m := by
  induction comps generalizing cur with
  | nil => simp [walk_nil] at h; subst h; exact hcur
  | cons c cs ih =>
    rw [walk_cons] at h
    cases hs : step world cur c with
    | none => simp [hs] at h
    | some cur' =>
      simp only [hs, Option.bind_some] at h
      exact ih (step_valid hs) h

/-! ### Components -/

theorem splitOn_ne_nil (sep : UInt8) (s : Bytes) : Bytes.splitOn sep s ≠ [] := by
  induction s with
  | nil => simp [Bytes.splitOn]
  | cons b rest ih =>
    simp only [Bytes.splitOn]
    split
    · simp
    · split <;> simp

theorem splitOn_append_sep (sep : UInt8) (a b : Bytes) :
    Bytes.splitOn sep (a ++ sep :: b) = Bytes.splitOn sep a ++ Bytes.splitOn sep b := by
  induction a with
  | nil => simp [Bytes.splitOn]
  | cons x a ih =>
    simp only [List.cons_append, Bytes.splitOn]
    by_cases hx : x = sep
    · simp [hx, ih]
    · simp only [hx, if_false, ih]
      cases hsa : Bytes.splitOn sep a with
      | nil => exact absurd hsa (splitOn_ne_nil sep a)
      | cons p ps => simp

/-- Every component is a contiguous piece of the text. -/
theorem mem_splitOn_infix {sep : UInt8} {s : Bytes} {c : Bytes} (h : c ∈ Bytes.splitOn sep s) :
    ∃ pre post, s = pre ++ c ++ post := by
  induction s generalizing c with
  | nil => simp [Bytes.splitOn] at h; exact ⟨[], [], by simp [h]⟩
  | cons b rest ih =>
    simp only [Bytes.splitOn] at h
    by_cases hb : b = sep
    · simp only [hb, if_true, List.mem_cons] at h
      rcases h with rfl | h
      · exact ⟨[], sep :: rest, by simp [hb]⟩
      · obtain ⟨pre, post, hpp⟩ := ih h
        exact ⟨b :: pre, post, by simp [hpp]⟩
    · simp only [hb, if_false] at h
      cases hsr : Bytes.splitOn sep rest with
      | nil => exact absurd hsr (splitOn_ne_nil sep rest)
      | cons p ps =>
        simp only [hsr, List.mem_cons] at h
        rcases h with rfl | h
        · obtain ⟨pre, post, hpp⟩ := ih (c := p) (by simp [hsr])
          -- the first component starts at the beginning of `rest`
          have hpre : ∃ post', rest = p ++ post' := by
            clear ih hpp
            induction rest generalizing p ps with
            | nil => simp [Bytes.splitOn] at hsr; exact ⟨[], by simp [hsr.1]⟩
            | cons r rest ih2 =>
              simp only [Bytes.splitOn] at hsr
              by_cases hr : r = sep
              · simp [hr] at hsr; exact ⟨r :: rest, by simp [hsr.1]⟩
              · simp only [hr, if_false] at hsr
                cases hs2 : Bytes.splitOn sep rest with
                | nil => exact absurd hs2 (splitOn_ne_nil sep rest)
                | cons q qs =>
                  simp only [hs2, List.cons.injEq] at hsr
                  obtain ⟨post', hp'⟩ := ih2 q qs hs2
                  exact ⟨post', by rw [← hsr.1]; simp [← hp']⟩
          obtain ⟨post', hp'⟩ := hpre
          exact ⟨[], post', by simp [hp']⟩
        · obtain ⟨pre, post, hpp⟩ := ih (c := c) (by simp [hsr, h])
          exact ⟨b :: pre, post, by simp [hpp]⟩

/-! ### The `..` test -/

theorem hasDotDot_cons_cons (a b : UInt8) (rest : Bytes) :
    hasDotDot (a :: b :: rest) = ((a == 46 && b == 46) || hasDotDot (b :: rest)) := by
  simp [hasDotDot]

theorem hasDotDot_of_infix (pre post : Bytes) : hasDotDot (pre ++ 46 :: 46 :: post) = true := by
  induction pre with
  | nil => simp [hasDotDot]
  | cons a pre ih =>
    cases pre with
    | nil => simp [hasDotDot] at ih ⊢
    | cons b pre =>
      rw [List.cons_append, List.cons_append, hasDotDot_cons_cons]
      rw [List.cons_append] at ih
      simp [ih]

theorem infix_of_hasDotDot {s : Bytes} (h : hasDotDot s = true) :
    ∃ pre post, s = pre ++ 46 :: 46 :: post := by
  induction s with
  | nil => simp [hasDotDot] at h
  | cons a rest ih =>
    cases rest with
    | nil => simp [hasDotDot] at h
    | cons b r =>
      rw [hasDotDot_cons_cons] at h
      simp only [Bool.or_eq_true, Bool.and_eq_true, beq_iff_eq] at h
      rcases h with ⟨rfl, rfl⟩ | h
      · exact ⟨[], r, rfl⟩
      · obtain ⟨pre, post, hpp⟩ := ih h
        exact ⟨a :: pre, post, by simp [hpp]⟩

/-- A text without `..` has no piece with `..`. -/
theorem hasDotDot_piece {pre s post : Bytes} (h : hasDotDot (pre ++ s ++ post) = false) :
    hasDotDot s = false := by
  cases hs : hasDotDot s with
  | false => rfl
  | true =>
    obtain ⟨p, q, rfl⟩ := infix_of_hasDotDot hs
    have := hasDotDot_of_infix (pre ++ p) (q ++ post)
    simp only [List.append_assoc, List.cons_append] at this h
    rw [this] at h
    exact absurd h (by simp)

/-- The key lemma: no `..` substring ⇒ no `..` component. -/
theorem no_dotdot_component {s : Bytes} (h : hasDotDot s = false) :
    ∀ c ∈ components s, c ≠ [46, 46] := by
  intro c hc hcc
  obtain ⟨pre, post, rfl⟩ := mem_splitOn_infix hc
  have := hasDotDot_piece h
  subst hcc
  simp [hasDotDot] at this

end Humphrey.Fs
