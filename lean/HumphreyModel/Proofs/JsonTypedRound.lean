import HumphreyModel.Proofs.JsonTyped

/-!
Helper lemmas for C14, part 3: `from_json (to_json v) = Ok v`, by induction on the type.
-/
namespace Humphrey.JsonTyped
open Humphrey.Json (Value)

theorem fromJson_opt_of_ne_null (t : Ty) (j : Value Num) (h : j ≠ .null) (x : TVal)
    (hx : fromJson t j = .ok x) : fromJson (.opt t) j = .ok (.some x) := by
  cases j <;> simp_all [fromJson]

theorem hasTy_all {t : Ty} {vs : List TVal} (h : vs.all (hasTy t) = true) : ∀ v ∈ vs, hasTy t v = true := by
  simpa using h

theorem representable_mem : ∀ {vs : List TVal}, RepresentableList vs → ∀ v ∈ vs, Representable v
  | [], _, v, hv => by simp at hv
  | w :: ws, h, v, hv => by
    simp only [RepresentableList] at h
    rcases List.mem_cons.mp hv with rfl | hv
    · exact h.1
    · exact representable_mem h.2 v hv

mutual
theorem from_to_aux : (ty : Ty) → ∀ (v : TVal), hasTy ty v = true → KeysDistinct ty → NoNestedOpt ty →
    Representable v → fromJson ty (toJson ty v) = .ok v
  | .bool, v, ht, _hk, _hn, _hr => by
    cases v <;> simp [hasTy] at ht
    simp [toJson, fromJson]
  | .num k, v, ht, _hk, _hn, hr => by
    cases v <;> simp only [hasTy, Bool.and_eq_true, decide_eq_true_eq, Bool.false_eq_true] at ht
    · -- integer
      rename_i i
      obtain ⟨⟨hk, h1⟩, h2⟩ := ht
      have hx : roundF64 i = i := hr
      simp only [toJson, fromJson, Num.ofInt, hx]
      cases k <;> simp [NumKind.isInt] at hk <;> simp [castTo, Num.trunc, clamp_of_mem _ i h1 h2]
    · obtain ⟨rfl, _⟩ := ht
      simp [toJson, fromJson, castTo, Num.narrow]
    · obtain ⟨rfl, _⟩ := ht
      simp [toJson, fromJson, castTo, Num.bits]
  | .str, v, ht, _hk, _hn, _hr => by
    cases v <;> simp [hasTy] at ht
    simp [toJson, fromJson]
  | .opt t, v, ht, hk, hn, hr => by
    cases v <;> simp only [hasTy, Bool.false_eq_true] at ht
    · simp [toJson, fromJson]
    · rename_i w
      simp only [NoNestedOpt] at hn
      simp only [KeysDistinct] at hk
      simp only [Representable] at hr
      simp only [toJson]
      exact fromJson_opt_of_ne_null t _ (toJson_ne_null t w ht hn.1) w (from_to_aux t w ht hk hn.2 hr)
  | .vec t, v, ht, hk, hn, hr => by
    cases v <;> simp only [hasTy, Bool.false_eq_true] at ht
    rename_i vs
    simp only [NoNestedOpt] at hn
    simp only [KeysDistinct] at hk
    simp only [Representable] at hr
    simp only [toJson, fromJson]
    rw [mapExcept_map (fromJson t) (toJson t) vs
      (fun w hw => from_to_aux t w (hasTy_all ht w hw) hk hn (representable_mem hr w hw))]
  | .named fs, v, ht, hk, hn, hr => by
    cases v <;> simp only [hasTy, Bool.false_eq_true] at ht
    rename_i vs
    simp only [NoNestedOpt] at hn
    simp only [KeysDistinct] at hk
    simp only [Representable] at hr
    have h := from_to_fields fs vs [] ht hk.1 (by simp) hk.2 hn hr
    simp only [List.nil_append] at h
    simp only [toJson, fromJson, h]
  | .tuple ts, v, ht, hk, hn, hr => by
    cases v <;> simp only [hasTy, Bool.false_eq_true] at ht
    rename_i vs
    simp only [NoNestedOpt] at hn
    simp only [KeysDistinct] at hk
    simp only [Representable] at hr
    have h := from_to_tuple ts vs [] ht hk hn hr
    simp only [List.nil_append, List.length_nil] at h
    simp only [toJson, fromJson, toJsonTuple_length ts vs ht, h]
    simp
  | .enum names, v, ht, hk, _hn, _hr => by
    cases v <;> simp only [hasTy, Bool.false_eq_true, decide_eq_true_eq] at ht
    rename_i i
    simp only [KeysDistinct] at hk
    simp only [toJson, fromJson]
    rw [findVariant_getD names 0 i hk ht]
    simp
theorem from_to_fields : (fs : List (Key × Ty)) → ∀ (vs : List TVal) (pre : List (Key × Value Num)),
    hasTyFields fs vs = true → (fs.map (·.1)).Nodup → (∀ k ∈ fs.map (·.1), k ∉ pre.map (·.1)) →
    KeysDistinctFields fs → NoNestedOptFields fs → RepresentableList vs →
    fromJsonFields fs (.object (pre ++ toJsonFields fs vs)) = .ok vs
  | [], [], _, _, _, _, _, _, _ => by simp [fromJsonFields]
  | [], _ :: _, _, ht, _, _, _, _, _ => by simp [hasTyFields] at ht
  | _ :: _, [], _, ht, _, _, _, _, _ => by simp [hasTyFields] at ht
  | (k, t) :: fs, v :: vs, pre, ht, hnd, hpre, hk, hn, hr => by
    simp only [hasTyFields, Bool.and_eq_true] at ht
    simp only [KeysDistinctFields] at hk
    simp only [NoNestedOptFields] at hn
    simp only [RepresentableList] at hr
    simp only [List.map_cons, List.nodup_cons] at hnd
    have hkpre : k ∉ pre.map (·.1) := hpre k (by simp)
    have hget : getKey (Value.object (pre ++ toJsonFields ((k, t) :: fs) (v :: vs))) k = some (toJson t v) := by
      simp only [getKey, toJsonFields]
      rw [findKey_append_of_notin k pre _ hkpre]
      simp [findKey]
    have hrec := from_to_fields fs vs (pre ++ [(k, toJson t v)]) ht.2 hnd.2
      (by
        intro k' hk'
        simp only [List.map_append, List.map_cons, List.map_nil, List.mem_append, List.mem_singleton, not_or]
        exact ⟨hpre k' (by simp [hk']), fun e => hnd.1 (e ▸ hk')⟩)
      hk.2 hn.2 hr.2
    have hshape : pre ++ toJsonFields ((k, t) :: fs) (v :: vs) = (pre ++ [(k, toJson t v)]) ++ toJsonFields fs vs := by
      simp [toJsonFields]
    rw [fromJsonFields, hget]
    simp only [Option.getD_some]
    rw [from_to_aux t v ht.1 hk.1 hn.1 hr.1, hshape, hrec]
theorem from_to_tuple : (ts : List Ty) → ∀ (vs : List TVal) (pre : List (Value Num)),
    hasTyTuple ts vs = true → KeysDistinctList ts → NoNestedOptList ts → RepresentableList vs →
    fromJsonTuple ts (.array (pre ++ toJsonTuple ts vs)) pre.length = .ok vs
  | [], [], _, _, _, _, _ => by simp [fromJsonTuple]
  | [], _ :: _, _, ht, _, _, _ => by simp [hasTyTuple] at ht
  | _ :: _, [], _, ht, _, _, _ => by simp [hasTyTuple] at ht
  | t :: ts, v :: vs, pre, ht, hk, hn, hr => by
    simp only [hasTyTuple, Bool.and_eq_true] at ht
    simp only [KeysDistinctList] at hk
    simp only [NoNestedOptList] at hn
    simp only [RepresentableList] at hr
    have hget : getIdx (Value.array (pre ++ toJsonTuple (t :: ts) (v :: vs))) pre.length = some (toJson t v) := by
      simp [getIdx, toJsonTuple]
    have hrec := from_to_tuple ts vs (pre ++ [toJson t v]) ht.2 hk.2 hn.2 hr.2
    have hshape : pre ++ toJsonTuple (t :: ts) (v :: vs) = (pre ++ [toJson t v]) ++ toJsonTuple ts vs := by
      simp [toJsonTuple]
    have hlen : (pre ++ [toJson t v]).length = pre.length + 1 := by simp
    rw [fromJsonTuple, hget]
    simp only [Option.getD_some]
    rw [from_to_aux t v ht.1 hk.1 hn.1 hr.1, hshape, ← hlen, hrec]
end

end Humphrey.JsonTyped
