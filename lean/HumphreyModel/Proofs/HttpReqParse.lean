import HumphreyModel.Spec.HttpReq
import HumphreyModel.Proofs.HttpReqBytes
/-
C02 faithfulness: the request parser run on the rendering of a well-formed request (`Spec/HttpReq.lean`)
followed by arbitrary bytes returns the denoted request and leaves exactly those bytes.
-/
namespace Humphrey.Http
open Humphrey Humphrey.Bytes Humphrey.IO

theorem avoids_not_mem {bad : List UInt8} {s : Bytes} (h : avoids bad s) {x : UInt8} (hx : x ∈ bad) :
    x ∉ s := fun hm => h x hm hx

theorem avoids_mono {bad bad' : List UInt8} {s : Bytes} (h : avoids bad s)
    (hsub : ∀ x ∈ bad', x ∈ bad) : avoids bad' s := fun b hb hb' => h b hb (hsub b hb')

/-! ## Methods -/

theorem Method.ofName_name (m : Method) : Method.ofName m.name = some m := by
  cases m <;> decide

theorem Method.name_ne_nil (m : Method) : m.name ≠ [] := by cases m <;> decide
theorem Method.name_no_sp (m : Method) : SP ∉ m.name := by cases m <;> decide
theorem Method.name_no_lf (m : Method) : LF ∉ m.name := by cases m <;> decide
theorem Method.name_utf8 (m : Method) : utf8Valid m.name = true := by cases m <;> decide

/-! ## The start line -/

theorem utf8Valid_crlf : utf8Valid crlf = true := by decide

theorem target_no {r : WfReq} (hc : r.Core) {x : UInt8} (hx : x = SP ∨ x = LF) : x ∉ r.target := by
  have hp : x ∉ r.path := by
    rcases hx with rfl | rfl
    · exact avoids_not_mem hc.path_chars (by simp)
    · exact avoids_not_mem hc.path_chars (by simp)
  unfold WfReq.target
  cases hq : r.query with
  | none => simpa using hp
  | some q =>
    have hq' := (hc.query_chars q hq).1
    have hxq : x ∉ q := by
      rcases hx with rfl | rfl
      · exact avoids_not_mem hq' (by simp)
      · exact avoids_not_mem hq' (by simp)
    have hne : x ≠ QMARK := by rcases hx with rfl | rfl <;> decide
    simp [hp, hxq, hne]

theorem target_utf8 {r : WfReq} (hc : r.Core) : utf8Valid r.target = true := by
  unfold WfReq.target
  cases hq : r.query with
  | none => simpa using hc.path_utf8
  | some q =>
    apply utf8Valid_append_true hc.path_utf8
    apply utf8Valid_append_true (by decide) (hc.query_chars q hq).2

theorem splitOnce_target {r : WfReq} (hc : r.Core) :
    splitOnce QMARK r.target = (r.path, r.query) := by
  have hp : QMARK ∉ r.path := avoids_not_mem hc.path_chars (by simp)
  unfold WfReq.target
  cases r.query with
  | none => simpa using splitOnce_no_sep hp
  | some q => simpa using splitOnce_append_sep q hp

theorem startLine_eq (r : WfReq) :
    r.startLine = r.method.name ++ SP :: (r.target ++ SP :: (r.version ++ crlf)) := by
  simp [WfReq.startLine]

theorem parseStartLine_startLine {r : WfReq} (hc : r.Core) :
    parseStartLine r.startLine = some (r.method, r.path, r.query.getD [], r.version) := by
  have hv_sp : SP ∉ r.version ++ crlf := by
    have h1 : SP ∉ r.version := avoids_not_mem hc.version_chars (by simp)
    have h2 : SP ∉ crlf := by decide
    simp [h1, h2]
  have hsplit : splitOn SP r.startLine = [r.method.name, r.target, r.version ++ crlf] := by
    rw [startLine_eq, splitOn_append_sep _ r.method.name_no_sp,
      splitOn_append_sep _ (target_no hc (.inl rfl)), splitOn_no_sep hv_sp]
  have hutf : utf8Valid r.startLine = true := by
    rw [startLine_eq]
    apply utf8Valid_append_true r.method.name_utf8
    rw [utf8Valid_cons_ascii _ (by decide)]
    apply utf8Valid_append_true (target_utf8 hc)
    rw [utf8Valid_cons_ascii _ (by decide)]
    exact utf8Valid_append_true hc.version_utf8 utf8Valid_crlf
  have hne : r.version.isEmpty = false := by
    cases hv : r.version with
    | nil => exact absurd hv hc.version_nonempty
    | cons x xs => rfl
  have hq : splitOnce 63 r.target = (r.path, r.query) := splitOnce_target hc
  simp only [parseStartLine, hutf, Bool.not_true, Bool.false_eq_true, if_false, hsplit,
    Method.ofName_name, stripCrlf_append_crlf, Option.getD_some, hne, hq]

/-! ## One header line -/

theorem WfHeader.render_eq (h : WfHeader) :
    h.render = (h.name ++ COLON :: (h.ows ++ h.value)) ++ crlf := by
  simp [WfHeader.render]

theorem WfHeader.render_eq' (h : WfHeader) :
    h.render = (h.name ++ COLON :: (h.ows ++ h.value) ++ [CR]) ++ [LF] := by
  simp [WfHeader.render, crlf, CR, LF]

theorem ows_no_lf {h : WfHeader} (hc : h.Core) : LF ∉ h.ows := by
  intro hm
  rcases hc.ows_chars _ hm with e | e <;> revert e <;> decide

theorem ows_utf8 {h : WfHeader} (hc : h.Core) : utf8Valid h.ows = true := by
  apply utf8Valid_ascii
  intro b hb
  rcases hc.ows_chars _ hb with rfl | rfl <;> decide

theorem headerLine_no_lf {h : WfHeader} (hc : h.Core) :
    LF ∉ h.name ++ COLON :: (h.ows ++ h.value) ++ [CR] := by
  have h1 : LF ∉ h.name := avoids_not_mem hc.name_chars (by simp)
  have h2 : LF ∉ h.value := avoids_not_mem hc.value_chars (by simp)
  have h3 := ows_no_lf hc
  have h4 : ¬ LF = COLON := by decide
  have h5 : ¬ LF = CR := by decide
  simp [h1, h2, h3, h4, h5]

theorem parseHeaderLine_render {h : WfHeader} (hc : h.Core) :
    parseHeaderLine h.render = .ok h.denote := by
  have hutf : utf8Valid h.render = true := by
    rw [h.render_eq]
    refine utf8Valid_append_true (utf8Valid_append_true hc.name_utf8 ?_) utf8Valid_crlf
    rw [utf8Valid_cons_ascii _ (by decide)]
    exact utf8Valid_append_true (ows_utf8 hc) hc.value_utf8
  have hstrip : stripCrlf h.render = some (h.name ++ COLON :: (h.ows ++ h.value)) := by
    rw [h.render_eq, stripCrlf_append_crlf]
  have hsplit : splitOnce 58 (h.name ++ COLON :: (h.ows ++ h.value)) = (h.name, some (h.ows ++ h.value)) :=
    splitOnce_append_sep _ (avoids_not_mem hc.name_chars (by decide))
  have htrim : trimStart (h.ows ++ h.value) = h.value := by
    rw [trimStart_ows _ hc.ows_chars, hc.value_trimmed]
  simp only [parseHeaderLine, hutf, Bool.not_true, Bool.false_eq_true, if_false, hstrip, hsplit, htrim,
    WfHeader.denote]

theorem render_ne_crlf (h : WfHeader) : h.render ≠ crlf := by
  intro e
  have := congrArg List.length e
  simp [WfHeader.render, crlf] at this
  omega

/-! ## The header loop -/

theorem flatSource_readUntil : flatSource.readUntil = flatReadUntil := rfl
theorem flatSource_readExact : flatSource.readExact = flatReadExact := rfl
theorem flatSource_remaining (s : Bytes) : flatSource.remaining s = s.length := rfl

theorem renderHeaders_cons (h : WfHeader) (hs : List WfHeader) :
    renderHeaders (h :: hs) = h.render ++ renderHeaders hs := by
  simp [renderHeaders]

theorem length_le_renderHeaders (hs : List WfHeader) : hs.length ≤ (renderHeaders hs).length := by
  induction hs with
  | nil => simp
  | cons h hs ih =>
    rw [renderHeaders_cons]
    simp [WfHeader.render] at ih ⊢
    omega

/-- The header loop reads the rendered fields and the blank line, and nothing more. -/
theorem parseHeaders_render (hs : List WfHeader) (hc : ∀ h ∈ hs, h.Core) (fuel : Nat)
    (hf : hs.length < fuel) (t : Bytes) (acc : Headers) :
    parseHeaders flatSource fuel (renderHeaders hs ++ crlf ++ t) acc =
      .ok (acc ++ hs.map WfHeader.denote, t) := by
  induction hs generalizing fuel acc with
  | nil =>
    cases fuel with
    | zero => simp at hf
    | succ fuel =>
      have : flatReadUntil LF (CR :: LF :: t) = ([CR] ++ [LF], t) :=
        flatReadUntil_append_delim (l := [CR]) t (by decide)
      simp [parseHeaders, flatSource_readUntil, renderHeaders, crlf, CR, LF] at this ⊢
      simp [this]
  | cons h hs ih =>
    cases fuel with
    | zero => simp at hf
    | succ fuel =>
      have hh : h.Core := hc h (by simp)
      have hread : flatReadUntil LF (renderHeaders (h :: hs) ++ crlf ++ t) =
          (h.render, renderHeaders hs ++ crlf ++ t) := by
        rw [renderHeaders_cons, h.render_eq']
        have := flatReadUntil_append_delim (renderHeaders hs ++ crlf ++ t) (headerLine_no_lf hh)
        simpa using this
      simp only [parseHeaders, flatSource_readUntil, hread, render_ne_crlf, if_false, parseHeaderLine_render hh]
      rw [ih (fun x hx => hc x (by simp [hx])) fuel (by simp at hf; omega)]
      simp

/-! ## Content-Length -/

theorem hContentLength_eq : hContentLength = ⟨contentLengthLower⟩ := rfl

theorem get_contentLength_denote (hs : List WfHeader) :
    Headers.get (hs.map WfHeader.denote) hContentLength = clValue hs := by
  have h1 : ((fun h : Header => decide (h.name = hContentLength)) ∘ WfHeader.denote) =
      (fun h : WfHeader => decide (asciiLower h.name = contentLengthLower)) := by
    funext h
    simp [WfHeader.denote, HName.ofName, hContentLength_eq]
  have h2 : ((fun h : Header => h.value) ∘ WfHeader.denote) = (fun h : WfHeader => h.value) := by
    funext h; rfl
  unfold Headers.get clValue
  rw [List.find?_map, Option.map_map, h1, h2]

/-! ## The whole request -/

theorem WfHeader.WF.core {h : WfHeader} (w : h.WF) : h.Core where
  name_chars := avoids_mono w.name_chars (by simp)
  name_utf8 := w.name_utf8
  ows_chars := w.ows_chars
  value_chars := avoids_mono w.value_chars (by simp)
  value_utf8 := w.value_utf8
  value_trimmed := w.value_trimmed

theorem WfReq.WF.core {r : WfReq} (w : r.WF) : r.Core where
  path_chars := avoids_mono w.path_chars (by simp)
  path_utf8 := w.path_utf8
  query_chars := fun q hq => ⟨avoids_mono (w.query_chars q hq).1 (by simp), (w.query_chars q hq).2⟩
  version_nonempty := w.version_nonempty
  version_chars := avoids_mono w.version_chars (by simp)
  version_utf8 := w.version_utf8
  headers := fun h hh => (w.headers h hh).core
  content_length := by
    have hcl := w.content_length
    cases hb : r.body with
    | none => simpa [hb] using hcl
    | some b =>
      simp only [hb, Option.map_some] at hcl
      exact ⟨_, hcl, parseUsize_natToBytes _ (w.body_size b hb)⟩

/-! ## `WF` from its Boolean form -/

theorem WfHeader.wf_of_wfb {h : WfHeader} (e : h.wfb = true) : h.WF := by
  simp only [WfHeader.wfb, Bool.and_eq_true, decide_eq_true_eq] at e
  obtain ⟨⟨⟨⟨⟨⟨a, b⟩, c⟩, d⟩, e⟩, f⟩, g⟩ := e
  exact ⟨a, b, c, d, e, f, g⟩

theorem WfReq.wf_of_wfb {r : WfReq} (e : r.wfb = true) : r.WF := by
  simp only [WfReq.wfb, Bool.and_eq_true, decide_eq_true_eq, List.all_eq_true] at e
  obtain ⟨⟨⟨⟨⟨⟨⟨⟨a, b⟩, c⟩, d⟩, e⟩, f⟩, g⟩, h⟩, i⟩ := e
  refine ⟨a, b, ?_, d, e, f, fun x hx => WfHeader.wf_of_wfb (g x hx), h, ?_⟩
  · intro q hq
    simp only [hq, Bool.and_eq_true, decide_eq_true_eq] at c
    exact c
  · intro b hb
    simp only [hb, decide_eq_true_eq] at i
    exact i

/-- Faithfulness on the flat stream, under the hypotheses the parser really needs. -/
theorem parse_render_core (r : WfReq) (env : Env) (hc : r.Core) (rest : Bytes) :
    parseRequest flatSource env (r.render ++ rest) = .ok (r.denote env, rest) := by
  -- the first byte and the rest of the start line
  obtain ⟨m0, mt, hm⟩ : ∃ m0 mt, r.method.name = m0 :: mt := by
    cases h : r.method.name with
    | nil => exact absurd h r.method.name_ne_nil
    | cons a b => exact ⟨a, b, rfl⟩
  let after := renderHeaders r.headers ++ crlf ++ (r.body.getD [] ++ rest)
  let l1 := mt ++ SP :: (r.target ++ SP :: (r.version ++ [CR]))
  have hstream : r.render ++ rest = m0 :: (l1 ++ LF :: after) := by
    simp [WfReq.render, startLine_eq, hm, crlf, CR, LF, after, l1]
  have hl1 : LF ∉ l1 := by
    have h1 : LF ∉ mt := by
      have := r.method.name_no_lf
      rw [hm] at this
      simp only [List.mem_cons, not_or] at this
      exact this.2
    have h2 : LF ∉ r.target := target_no hc (.inr rfl)
    have h3 : LF ∉ r.version := avoids_not_mem hc.version_chars (by simp)
    have h4 : ¬ LF = SP := by decide
    have h5 : ¬ LF = CR := by decide
    simp [l1, h1, h2, h3, h4, h5]
  have hfirst : flatReadExact 1 (m0 :: (l1 ++ LF :: after)) = some ([m0], l1 ++ LF :: after) := by
    simp [flatReadExact]
  have hline : flatReadUntil LF (l1 ++ LF :: after) = (l1 ++ [LF], after) :=
    flatReadUntil_append_delim after hl1
  have hsl : [m0] ++ (l1 ++ [LF]) = r.startLine := by
    simp [startLine_eq, hm, l1, crlf, CR, LF]
  have hhead : parseHeaders flatSource (after.length + 1) after [] =
      .ok (r.headers.map WfHeader.denote, r.body.getD [] ++ rest) := by
    have := parseHeaders_render r.headers hc.headers (after.length + 1)
      (by
        have := length_le_renderHeaders r.headers
        simp only [after, List.length_append]
        omega)
      (r.body.getD [] ++ rest) []
    simpa [after] using this
  rw [hstream]
  simp only [parseRequest, flatSource_readUntil, flatSource_readExact, flatSource_remaining, hfirst,
    hline, hsl, parseStartLine_startLine hc, hhead, get_contentLength_denote]
  have hcl := hc.content_length
  cases hb : r.body with
  | none =>
    simp only [hb] at hcl
    simp [hcl, WfReq.denote, hb]
  | some b =>
    simp only [hb] at hcl
    obtain ⟨cl, h1, h2⟩ := hcl
    simp [h1, h2, flatReadExact_append, WfReq.denote, hb]

end Humphrey.Http
