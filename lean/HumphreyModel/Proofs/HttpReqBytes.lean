import HumphreyModel.Model.Http
import HumphreyModel.Proofs.IO
/-
Byte-level lemmas for C02 faithfulness: how the text primitives of `Model/Bytes.lean` and the flat
source of `Model/IO.lean` act on concatenations.
-/
namespace Humphrey.Bytes
open Humphrey

/-! ## splitOn / splitOnce -/

theorem splitOn_ne_nil (sep : UInt8) (s : Bytes) : splitOn sep s ≠ [] := by
  induction s with
  | nil => simp [splitOn]
  | cons b rest ih =>
    simp only [splitOn]
    split
    · simp
    · split <;> simp

theorem splitOn_no_sep {sep : UInt8} {a : Bytes} (h : sep ∉ a) : splitOn sep a = [a] := by
  induction a with
  | nil => simp [splitOn]
  | cons x xs ih =>
    simp only [List.mem_cons, not_or] at h
    have hx : ¬ x = sep := fun e => h.1 e.symm
    simp [splitOn, hx, ih h.2]

theorem splitOn_append_sep {sep : UInt8} {a : Bytes} (b : Bytes) (h : sep ∉ a) :
    splitOn sep (a ++ sep :: b) = a :: splitOn sep b := by
  induction a with
  | nil => simp [splitOn]
  | cons x xs ih =>
    simp only [List.mem_cons, not_or] at h
    have hx : ¬ x = sep := fun e => h.1 e.symm
    simp [splitOn, hx, ih h.2]

theorem splitOnce_no_sep {sep : UInt8} {a : Bytes} (h : sep ∉ a) : splitOnce sep a = (a, none) := by
  induction a with
  | nil => simp [splitOnce]
  | cons x xs ih =>
    simp only [List.mem_cons, not_or] at h
    have hx : ¬ x = sep := fun e => h.1 e.symm
    simp [splitOnce, hx, ih h.2]

theorem splitOnce_append_sep {sep : UInt8} {a : Bytes} (b : Bytes) (h : sep ∉ a) :
    splitOnce sep (a ++ sep :: b) = (a, some b) := by
  induction a with
  | nil => simp [splitOnce]
  | cons x xs ih =>
    simp only [List.mem_cons, not_or] at h
    have hx : ¬ x = sep := fun e => h.1 e.symm
    simp [splitOnce, hx, ih h.2]

/-! ## stripCrlf -/

theorem stripCrlf_append_crlf (v : Bytes) : stripCrlf (v ++ crlf) = some v := by
  have hl : (v ++ crlf).length = v.length + 2 := by simp [crlf]
  unfold stripCrlf
  rw [hl]
  simp

/-! ## utf8Valid -/

theorem utf8Valid_append {a : Bytes} (b : Bytes) (h : utf8Valid a = true) :
    utf8Valid (a ++ b) = utf8Valid b := by
  fun_induction utf8Valid a
  case case1 => rfl
  case case3 b0 h1 h2 b1 r ih =>
    simp only [Bool.and_eq_true] at h
    rw [List.cons_append, List.cons_append, utf8Valid.eq_def]
    simp only [if_neg h1, if_pos h2, h.1, ih h.2, Bool.true_and]
  case case7 b0 h1 h2 h3 h4 b1 b2 r ih =>
    simp only [Bool.and_eq_true] at h
    rw [List.cons_append, List.cons_append, List.cons_append, utf8Valid.eq_def]
    simp only [if_neg h1, if_neg h2, if_neg h3, if_pos h4, h.1.1, h.1.2, ih h.2, Bool.true_and]
  case case13 b0 h1 h2 h3 h4 h5 h6 h7 b1 b2 b3 r ih =>
    simp only [Bool.and_eq_true] at h
    rw [List.cons_append, List.cons_append, List.cons_append, List.cons_append, utf8Valid.eq_def]
    simp only [if_neg h1, if_neg h2, if_neg h3, if_neg h4, if_neg h5, if_neg h6, if_pos h7,
      h.1.1.1, h.1.1.2, h.1.2, ih h.2, Bool.true_and]
  all_goals (first | (simp at h; done) | (rw [utf8Valid.eq_def]; simp_all))

theorem utf8Valid_cons_ascii {x : UInt8} (xs : Bytes) (hx : x < 128) :
    utf8Valid (x :: xs) = utf8Valid xs := by
  rw [utf8Valid.eq_def]; simp only [if_pos hx]

theorem utf8Valid_append_true {a b : Bytes} (ha : utf8Valid a = true) (hb : utf8Valid b = true) :
    utf8Valid (a ++ b) = true := by rw [utf8Valid_append b ha, hb]

theorem utf8Valid_ascii {s : Bytes} (h : ∀ b ∈ s, b < 128) : utf8Valid s = true := by
  induction s with
  | nil => simp [utf8Valid]
  | cons x xs ih =>
    have hx : x < 128 := h x (by simp)
    rw [utf8Valid_cons_ascii _ hx]
    exact ih (fun b hb => h b (by simp [hb]))

/-! ## trimStart -/

theorem wsPrefixLen_sp (s : Bytes) : wsPrefixLen (32 :: s) = 1 := by
  simp [wsPrefixLen, wsSeqs, List.isPrefixOf]

theorem wsPrefixLen_tab (s : Bytes) : wsPrefixLen (9 :: s) = 1 := by
  simp [wsPrefixLen, wsSeqs, List.isPrefixOf]

theorem trimStart_sp (s : Bytes) : trimStart (32 :: s) = trimStart s := by
  simp [trimStart, trimStartAux, wsPrefixLen_sp]

theorem trimStart_tab (s : Bytes) : trimStart (9 :: s) = trimStart s := by
  simp [trimStart, trimStartAux, wsPrefixLen_tab]

theorem trimStart_ows {ows : Bytes} (v : Bytes) (h : ∀ b ∈ ows, b = 32 ∨ b = 9) :
    trimStart (ows ++ v) = trimStart v := by
  induction ows with
  | nil => rfl
  | cons x xs ih =>
    have ih' := ih (fun b hb => h b (by simp [hb]))
    rcases h x (by simp) with rfl | rfl
    · rw [List.cons_append, trimStart_sp, ih']
    · rw [List.cons_append, trimStart_tab, ih']

/-! ## parseUsize ∘ natToBytes -/

theorem digit_toNat : ∀ k, k < 10 → (48 + k.toUInt8).toNat - 48 = k := by decide

theorem digit_isDigit : ∀ k, k < 10 → isDigit (48 + k.toUInt8) = true := by decide

theorem digitsValue_natToBytesAux (fuel n : Nat) (acc : Bytes) (h : n < fuel) :
    digitsValue (natToBytesAux fuel n acc) 0 = digitsValue acc n := by
  induction fuel generalizing n acc with
  | zero => omega
  | succ fuel ih =>
    have hk : n % 10 < 10 := Nat.mod_lt _ (by decide)
    simp only [natToBytesAux]
    split
    · rename_i h0
      simp only [digitsValue, digit_toNat _ hk]
      congr 1; omega
    · rename_i h0
      rw [ih (n / 10) _ (by omega)]
      simp only [digitsValue, digit_toNat _ hk]
      congr 1; omega

theorem all_isDigit_natToBytesAux (fuel n : Nat) (acc : Bytes) (h : acc.all isDigit = true) :
    (natToBytesAux fuel n acc).all isDigit = true := by
  induction fuel generalizing n acc with
  | zero => simpa [natToBytesAux] using h
  | succ fuel ih =>
    have hk : n % 10 < 10 := Nat.mod_lt _ (by decide)
    have h' : ((48 + (n % 10).toUInt8) :: acc).all isDigit = true := by
      simp only [List.all_cons, digit_isDigit _ hk, h, Bool.and_self]
    simp only [natToBytesAux]
    split
    · exact h'
    · exact ih _ _ h'

theorem natToBytesAux_ne_nil (fuel n : Nat) (acc : Bytes) (h : 0 < fuel) :
    natToBytesAux fuel n acc ≠ [] := by
  induction fuel generalizing n acc with
  | zero => omega
  | succ fuel ih =>
    simp only [natToBytesAux]
    split
    · simp
    · cases fuel with
      | zero => simp [natToBytesAux]
      | succ f => exact ih _ _ (by omega)

theorem parseUsize_digits {s : Bytes} (hne : s ≠ []) (hd : s.all isDigit = true)
    (hv : digitsValue s 0 < 18446744073709551616) : parseUsize s = some (digitsValue s 0) := by
  cases s with
  | nil => exact absurd rfl hne
  | cons x xs =>
    have hx : isDigit x = true := by simp only [List.all_cons, Bool.and_eq_true] at hd; exact hd.1
    have h43 : x ≠ 43 := by
      intro e; subst e; revert hx; decide
    unfold parseUsize
    split
    · rename_i rest heq
      injection heq with h1 _
      exact absurd h1 h43
    · simp [hd, hv]

/-- `usize::to_string` then `usize::from_str` is the identity (64-bit). -/
theorem parseUsize_natToBytes (n : Nat) (h : n < 18446744073709551616) :
    parseUsize (natToBytes n) = some n := by
  have hv : digitsValue (natToBytes n) 0 = n := by
    unfold natToBytes
    rw [digitsValue_natToBytesAux _ _ _ (by omega)]; rfl
  have := parseUsize_digits (natToBytesAux_ne_nil (n + 1) n [] (by omega))
    (all_isDigit_natToBytesAux (n + 1) n [] (by simp)) (by rw [← natToBytes, hv]; exact h)
  rw [← natToBytes, hv] at this
  exact this

end Humphrey.Bytes

namespace Humphrey.IO
open Humphrey Humphrey.Bytes

theorem takeThrough_append_delim {d : UInt8} {l : Bytes} (t : Bytes) (h : d ∉ l) :
    takeThrough d (l ++ d :: t) = some (l ++ [d], t) := by
  induction l with
  | nil => simp [takeThrough]
  | cons x xs ih =>
    simp only [List.mem_cons, not_or] at h
    have hx : ¬ x = d := fun e => h.1 e.symm
    simp [takeThrough, hx, ih h.2]

/-- `read_until(d)` returns the line through the first `d` and leaves what follows. -/
theorem flatReadUntil_append_delim {d : UInt8} {l : Bytes} (t : Bytes) (h : d ∉ l) :
    flatReadUntil d (l ++ d :: t) = (l ++ [d], t) := by
  simp [flatReadUntil, takeThrough_append_delim t h]

theorem flatReadExact_append (a b : Bytes) : flatReadExact a.length (a ++ b) = some (a, b) := by
  simp [flatReadExact]

end Humphrey.IO
