import HumphreyModel.Proofs.ConfValue

/-! One step of the `parse_section` loop on each kind of rendered line. -/
namespace Humphrey.Conf
open Humphrey.Glob

variable (inc : Str → Str → Nat → Nat → Res ConfError (List Node)) (file : Str) (base : Nat)

theorem go_blank {raw : Str} (hc : cleanUp raw = []) (rest : List Str) (ln : Nat)
    (stack : List Frame) (cur : List Node) :
    goLines inc file base (raw :: rest) ln stack cur = goLines inc file base rest (ln + 1) stack cur := by
  conv => lhs; unfold goLines
  simp [hc, stripSuffixChar]

theorem go_fillers (fl : List (Str × Option Str)) (hf : ∀ f ∈ fl, ∀ x ∈ f.1, isBlank x = true)
    (rest : List Str) (ln : Nat) (stack : List Frame) (cur : List Node) :
    goLines inc file base (fl.map fillerLine ++ rest) ln stack cur =
      goLines inc file base rest (ln + fl.length) stack cur := by
  induction fl generalizing ln with
  | nil => simp
  | cons f fl ih =>
    simp only [List.map_cons, List.cons_append, List.length_cons]
    rw [go_blank inc file base (cleanUp_filler (hf f (by simp)))]
    rw [ih (fun g hg => hf g (by simp [hg]))]
    congr 1; omega

theorem tight_of_no_ws {k : Str} (hne : k ≠ []) (h : ∀ c ∈ k, isWhitespace c = false) : tight k := by
  constructor
  · cases k with
    | nil => exact absurd rfl hne
    | cons c r => exact ⟨c, rfl, h c (by simp)⟩
  · cases hl : k.getLast? with
    | none => simp at hl; exact absurd hl hne
    | some c => exact ⟨c, rfl, h c (List.mem_of_getLast? hl)⟩

theorem getLast?_append_ne_nil {a b : Str} (hb : b ≠ []) : (a ++ b).getLast? = b.getLast? := by
  rw [List.getLast?_append]
  cases hl : b.getLast? with
  | none => simp at hl; exact absurd hl hb
  | some c => simp

theorem tight_ne_nil {s : Str} (h : tight s) : s ≠ [] := by
  intro e; subst e; obtain ⟨⟨c, hc, _⟩, _⟩ := h; simp at hc

theorem go_kv {raw key sep value : Str} {node : Node}
    (hc : cleanUp raw = key ++ ' ' :: sep ++ value)
    (hkey : okKey key) (hsep : ∀ x ∈ sep, isBlank x = true) (hv : tight value)
    (hlast : value.getLast? ≠ some '{') (ht : typeValue key value = .ok node)
    (rest : List Str) (ln : Nat) (stack : List Frame) (cur : List Node) :
    goLines inc file base (raw :: rest) ln stack cur =
      goLines inc file base rest (ln + 1) stack (node :: cur) := by
  obtain ⟨hkne, hkc, hki⟩ := hkey
  have hvne := tight_ne_nil hv
  have e : key ++ ' ' :: sep ++ value = (key ++ ' ' :: sep) ++ value := by simp
  have h1 : stripSuffixChar '{' (key ++ ' ' :: sep ++ value) = none := by
    apply stripSuffixChar_none
    rw [e, getLast?_append_ne_nil hvne]; exact hlast
  have h2 : (key ++ ' ' :: sep ++ value) ≠ ['}'] := by
    intro h
    have : ' ' ∈ (key ++ ' ' :: sep ++ value) := by simp
    rw [h] at this; simp at this
  have h3 : (key ++ ' ' :: sep ++ value).isEmpty = false := by
    cases key <;> simp
  have h4 : splitOnce ' ' (key ++ ' ' :: sep ++ value) = some (key, sep ++ value) := by
    have : key ++ ' ' :: sep ++ value = key ++ ' ' :: (sep ++ value) := by simp
    rw [this]
    apply splitOnce_append
    intro x hx hx'; subst hx'
    have := (hkc _ hx).1; simp [isWhitespace] at this
  have h5 : trim key = key := trim_tight (Or.inr (tight_of_no_ws hkne (fun c hc => (hkc c hc).1)))
  have h6 : trim (sep ++ value) = value := by
    have := trim_wrap (a := sep) (s := value) (b := []) (fun x hx => isBlank_ws (hsep x hx)) (by simp) (Or.inr hv)
    simpa using this
  conv => lhs; unfold goLines
  simp only [hc, h1, h2, h3, h4, h5, h6, hki, ht, if_false, ne_eq, not_false_eq_true, if_true,
    Bool.false_eq_true]

theorem go_open {raw hdr gap name : Str} {k : Kind}
    (hc : cleanUp raw = hdr ++ gap ++ ['{']) (hgap : ∀ x ∈ gap, isBlank x = true)
    (hh : tight hdr) (hcl : classify hdr = .ok (k, name))
    (rest : List Str) (ln : Nat) (stack : List Frame) (cur : List Node)
    (hd : base + stack.length + 1 ≤ maxDepth) :
    goLines inc file base (raw :: rest) ln stack cur =
      goLines inc file base rest (ln + 1) ((k, name, cur) :: stack) [] := by
  have h1 : stripSuffixChar '{' (hdr ++ gap ++ ['{']) = some (hdr ++ gap) := stripSuffixChar_snoc _ _
  have h2 : trim (hdr ++ gap) = hdr := by
    have := trim_wrap (a := []) (s := hdr) (b := gap) (by simp) (fun x hx => isBlank_ws (hgap x hx)) (Or.inr hh)
    simpa using this
  have h3 : ¬ (base + stack.length + 1 > maxDepth) := by omega
  conv => lhs; unfold goLines
  simp only [hc, h1, h2, hcl, h3, if_false]

theorem go_close_pop {raw : Str} (hc : cleanUp raw = ['}']) (k : Kind) (name : Str)
    (pcur : List Node) (rest : List Str) (ln : Nat) (stack : List Frame) (cur : List Node) :
    goLines inc file base (raw :: rest) ln ((k, name, pcur) :: stack) cur =
      goLines inc file base rest (ln + 1) stack (mkNode k name cur.reverse :: pcur) := by
  have h1 : stripSuffixChar '{' ['}'] = none := by decide
  conv => lhs; unfold goLines
  simp only [hc, h1, if_true]

theorem go_close_done {raw : Str} (hc : cleanUp raw = ['}']) (rest : List Str) (ln : Nat)
    (cur : List Node) : goLines inc file base (raw :: rest) ln [] cur = .ok cur.reverse := by
  have h1 : stripSuffixChar '{' ['}'] = none := by decide
  conv => lhs; unfold goLines
  simp only [hc, h1, if_true]

end Humphrey.Conf
