import HumphreyModel.Proofs.ConfLines

/-! Rejection with the reported line: a faulty line after any absorbed prefix of a file. -/
namespace Humphrey.Conf
open Humphrey.Glob

/-- What `parse_conf` makes of the result of the root `parse_section`. -/
def finishServer : Res ConfError (List Node) → Res ConfError Node
  | .ok cs => .ok (.section "server".toList cs)
  | .err e => .err e
  | .panic => .panic

/-- `p` is the beginning of a file up to a point inside the `server` section: whatever follows,
the parser is in its loop at line `p.length` with `depth` sections open below the root. -/
def AbsorbsAt (fs : FS) (file : Str) (p : List Str) (depth : Nat) : Prop :=
  ∃ stack cur, stack.length = depth ∧ ∀ rest,
    parseConfLines fs (p ++ rest) file =
      finishServer (goLines (parseFile fs (maxDepth + 2)) file 0 rest p.length stack cur)

theorem absorbs_server (fs : FS) (file : Str) {d : Deco} (hd : d.ok) :
    AbsorbsAt fs file (mkLines d serverLine) 0 := by
  refine ⟨[], [], rfl, fun rest => ?_⟩
  unfold parseConfLines
  rw [findServer_render hd, mkLines_length]
  simp only [finishServer]
  split <;> simp_all

theorem absorbs_nodes {fs : FS} {file : Str} {p : List Str} {depth : Nat} (h : AbsorbsAt fs file p depth)
    (lay : Layout) (hl : lay.ok) (ns : List Node) (hwf : WFNodes ns) (path : List Nat) (i : Nat)
    (hdep : depth + nodesDepth ns ≤ maxDepth) :
    AbsorbsAt fs file (p ++ renderNodes lay path i ns) depth := by
  obtain ⟨stack, cur, hs, hp⟩ := h
  refine ⟨stack, ns.reverse ++ cur, hs, fun rest => ?_⟩
  rw [List.append_assoc, hp, go_renderNodes _ file 0 lay hl ns hwf path i rest _ stack cur (by omega)]
  simp

/-- An opened section (header line of a well-formed section, host or route). -/
theorem absorbs_open {fs : FS} {file : Str} {p : List Str} {depth : Nat} (h : AbsorbsAt fs file p depth)
    {d : Deco} (hd : d.ok) {hdr name : Str} {k : Kind} (hcl : classify hdr = .ok (k, name))
    (hh : tight hdr) (hno : ∀ x ∈ hdr, x ≠ '#') (hdep : depth + 1 ≤ maxDepth) :
    AbsorbsAt fs file (p ++ mkLines d (hdr ++ d.gap ++ ['{'])) (depth + 1) := by
  obtain ⟨stack, cur, hs, hp⟩ := h
  refine ⟨(k, name, cur) :: stack, [], by simp [hs], fun rest => ?_⟩
  have hgap := hd.2.2.2.1
  have hno1 : ∀ x ∈ hdr ++ d.gap ++ ['{'], x ≠ '#' := by
    intro x hx
    simp only [List.mem_append, List.mem_singleton] at hx
    rcases hx with (hx | hx) | rfl
    · exact hno x hx
    · exact blank_ne_hash hgap x hx
    · decide
  have ht1 : tight (hdr ++ d.gap ++ ['{']) :=
    tight_append hh ⟨⟨'{', rfl, by decide⟩, ⟨'{', rfl, by decide⟩⟩ d.gap
  obtain ⟨raw, hc, hgo⟩ := go_mkLines (parseFile fs (maxDepth + 2)) file 0 hd hno1 ht1 rest p.length stack cur
  rw [List.append_assoc, hp, hgo,
    go_open _ file 0 (hdr := hdr) (gap := d.gap) hc hgap hh hcl _ _ _ _ (by omega)]
  simp only [List.length_append, mkLines_length]
  congr 2

/-- A line that fails in every parser state is reported with its own line number. -/
theorem reject_at_line {fs : FS} {file : Str} {p : List Str} {depth : Nat} (h : AbsorbsAt fs file p depth)
    {bad : Str} {kind : ErrKind} (rest : List Str)
    (hbad : ∀ ln stack cur, goLines (parseFile fs (maxDepth + 2)) file 0 (bad :: rest) ln stack cur =
      .err ⟨kind, file, ln + 1⟩) :
    parseConfLines fs (p ++ bad :: rest) file = .err ⟨kind, file, p.length + 1⟩ := by
  obtain ⟨stack, cur, _, hp⟩ := h
  rw [hp, hbad]; rfl

/-- The file ends while sections are still open. -/
theorem reject_eof {fs : FS} {file : Str} {p : List Str} {depth : Nat} (h : AbsorbsAt fs file p depth) :
    parseConfLines fs p file = .err ⟨.eof, file, p.length + 1⟩ := by
  obtain ⟨stack, cur, _, hp⟩ := h
  have := hp []
  simp only [List.append_nil] at this
  rw [this]; simp [goLines, finishServer]

section
variable (inc : Str → Str → Nat → Nat → Res ConfError (List Node)) (file : Str) (base : Nat)

/-- A key with nothing after it. -/
theorem go_missing_value {raw key : Str} (hc : cleanUp raw = key) (hne : key ≠ [])
    (hsp : ∀ c ∈ key, c ≠ ' ') (hlast : key.getLast? ≠ some '{') (hbr : key ≠ ['}'])
    (rest : List Str) (ln : Nat) (stack : List Frame) (cur : List Node) :
    goLines inc file base (raw :: rest) ln stack cur = .err ⟨.syntaxErr, file, ln + 1⟩ := by
  have h1 := stripSuffixChar_none hlast
  have h2 : key.isEmpty = false := by cases key <;> simp_all
  conv => lhs; unfold goLines
  simp only [hc, h1, hbr, h2, splitOnce_none hsp, if_false, Bool.false_eq_true]

/-- A key whose value is not of any of the four kinds. -/
theorem go_bad_value {raw key sep value : Str}
    (hc : cleanUp raw = key ++ ' ' :: sep ++ value)
    (hkey : okKey key) (hsep : ∀ x ∈ sep, isBlank x = true) (hv : tight value)
    (hlast : value.getLast? ≠ some '{') (ht : typeValue key value = .err ())
    (rest : List Str) (ln : Nat) (stack : List Frame) (cur : List Node) :
    goLines inc file base (raw :: rest) ln stack cur = .err ⟨.badValue, file, ln + 1⟩ := by
  obtain ⟨hkne, hkc, hki⟩ := hkey
  have hvne := tight_ne_nil hv
  have e : key ++ ' ' :: sep ++ value = (key ++ ' ' :: sep) ++ value := by simp
  have h1 : stripSuffixChar '{' (key ++ ' ' :: sep ++ value) = none := by
    apply stripSuffixChar_none
    rw [e, getLast?_append_ne_nil hvne]; exact hlast
  have h2 : (key ++ ' ' :: sep ++ value) ≠ ['}'] := by
    intro h
    have : ' ' ∈ (key ++ ' ' :: sep ++ value) := by simp
    rw [h] at this; simp at this
  have h3 : (key ++ ' ' :: sep ++ value).isEmpty = false := by
    cases key <;> simp
  have h4 : splitOnce ' ' (key ++ ' ' :: sep ++ value) = some (key, sep ++ value) := by
    have : key ++ ' ' :: sep ++ value = key ++ ' ' :: (sep ++ value) := by simp
    rw [this]
    apply splitOnce_append
    intro x hx hx'; subst hx'
    have := (hkc _ hx).1; simp [isWhitespace] at this
  have h5 : trim key = key := trim_tight (Or.inr (tight_of_no_ws hkne (fun c hc => (hkc c hc).1)))
  have h6 : trim (sep ++ value) = value := by
    have := trim_wrap (a := sep) (s := value) (b := []) (fun x hx => isBlank_ws (hsep x hx)) (by simp) (Or.inr hv)
    simpa using this
  conv => lhs; unfold goLines
  simp only [hc, h1, h2, h3, h4, h5, h6, hki, ht, if_false, ne_eq, not_false_eq_true, if_true,
    Bool.false_eq_true]

end

theorem parseI64_quote_head (r : Str) : parseI64 ('"' :: r) = none := by
  cases h : parseI64 ('"' :: r) with
  | none => rfl
  | some i =>
    obtain ⟨c, r', e, hc⟩ := parseI64_head h
    cases e
    rcases hc with h | h | h
    · exact absurd h (by decide)
    · exact absurd h (by decide)
    · exact absurd rfl (h.ne_of_toNat (by decide))

/-- An opening quotation mark that is never closed: not a string, number, boolean or size. -/
theorem typeValue_unterminated (key v : Str) (hq : ∀ c ∈ v, c ≠ '"') : typeValue key ('"' :: v) = .err () := by
  have h1 : wildcardMatch quotePat ('"' :: v) = false := by
    cases h : wildcardMatch quotePat ('"' :: v) with
    | false => rfl
    | true =>
      obtain ⟨w, hw⟩ := wildcard_quote_shape h
      have hw' : v = w ++ ['"'] := by simpa [quoted] using hw
      exact absurd rfl (hq '"' (by rw [hw']; simp))
  have h2 := parseI64_quote_head v
  have h3 : parseBool ('"' :: v) = none := by simp [parseBool]
  have h4 : parseSize ('"' :: v) = none := by
    unfold parseSize
    simp only [List.isEmpty_cons, Bool.false_eq_true, if_false]
    split
    · exact h2
    · rcases List.eq_nil_or_concat v with rfl | ⟨v', l, hv⟩
      · simp [parseI64]
      · rw [List.concat_eq_append] at hv
        subst hv
        have : ('"' :: (v' ++ [l])).reverse = l :: ('"' :: v').reverse := by simp
        rw [this]
        simp only [List.reverse_reverse, parseI64_quote_head]
  simp [typeValue, h1, h2, h3, h4]

/-- A number followed by a letter that is not a unit. -/
theorem typeValue_unknown_unit (key : Str) (n : Nat) {u : Char} (hd : digitVal u = none)
    (hu : unitMult (toAsciiUpper u) = none) (hud : digitVal (toAsciiUpper u) = none) :
    typeValue key (showNat n ++ [u]) = .err () := by
  obtain ⟨c, r, hcr, hdc⟩ := showNat_head n
  have hq : c ≠ '"' := hdc.ne_of_toNat (by decide)
  have h1 : wildcardMatch quotePat (showNat n ++ [u]) = false := by
    rw [hcr]; exact wildcard_false_of_head hq
  have h2 : parseI64 (showNat n ++ [u]) = none := parseI64_snoc_none hd
  have h3 : parseBool (showNat n ++ [u]) = none := by rw [hcr]; exact parseBool_digit_head hdc
  simp [typeValue, h1, h2, h3, parseSize_bad_unit (showNat n) hd hu hud]

/-- The decorated line with content `c`. -/
def decoLine (d : Deco) (c : Str) : Str := d.indent ++ c ++ d.trail ++ commentText d.comment

theorem cleanUp_decoLine {d : Deco} (hd : d.ok) {c : Str} (hno : ∀ x ∈ c, x ≠ '#') (ht : tight c) :
    cleanUp (decoLine d c) = c :=
  cleanUp_line d.comment hd.2.1 hd.2.2.2.2.1 hno (Or.inr ht)

end Humphrey.Conf
