import HumphreyModel.Proofs.HttpMsgLoop
import HumphreyModel.Proofs.HttpMsgReq
/-
A condition ON THE CLIENT BYTE STREAM that discharges the hypothesis `hcr` of `serve_meets_spec`
(`Props/C01Spec.lean`): no CR is followed by a byte other than LF. The echoed texts (the version, the
`Connection` value) are cut out of lines the parser read with `read_until(LF)`; both are followed, in
the stream, by the CR of the line's own CRLF, and neither contains an LF, so a CR inside either would
be a CR followed by a non-LF byte.
-/
namespace Humphrey.Http
open Humphrey Humphrey.Bytes Humphrey.IO

/-- **Clean stream**: a CR (13) is never immediately followed by a byte other than LF (10). (A CR
that is the very last byte of the stream is allowed: nothing follows it.) -/
def CRonlyBeforeLF (s : Bytes) : Prop :=
  ∀ pre c post, s = pre ++ 13 :: c :: post → c = 10

/-- The statement's stricter wording: every CR is immediately followed by an LF. -/
def CRalwaysBeforeLF (s : Bytes) : Prop :=
  ∀ pre post, s = pre ++ 13 :: post → ∃ post', post = 10 :: post'

theorem connStream_of_always {s : Bytes} (h : CRalwaysBeforeLF s) : CRonlyBeforeLF s := by
  intro pre c post e
  obtain ⟨post', hp⟩ := h pre (c :: post) e
  simp only [List.cons.injEq] at hp
  exact hp.1

/-- Executable form of `CRonlyBeforeLF`. -/
def crOnlyBeforeLF : Bytes → Bool
  | a :: b :: rest => (a != 13 || b == 10) && crOnlyBeforeLF (b :: rest)
  | _ => true

theorem connStream_bool_iff (s : Bytes) : crOnlyBeforeLF s = true ↔ CRonlyBeforeLF s := by
  induction s with
  | nil =>
    simp only [crOnlyBeforeLF, true_iff]
    intro pre c post e
    simp at e
  | cons a t ih =>
    cases t with
    | nil =>
      simp only [crOnlyBeforeLF, true_iff]
      intro pre c post e
      have := congrArg List.length e
      simp at this
      omega
    | cons b rest =>
      simp only [crOnlyBeforeLF, Bool.and_eq_true, Bool.or_eq_true, bne_iff_ne, ne_eq, beq_iff_eq, ih]
      constructor
      · rintro ⟨h1, h2⟩ pre c post e
        cases pre with
        | nil =>
          simp only [List.nil_append, List.cons.injEq] at e
          obtain ⟨rfl, rfl, _⟩ := e
          rcases h1 with h1 | h1
          · exact absurd rfl h1
          · exact h1
        | cons p pre' =>
          simp only [List.cons_append, List.cons.injEq] at e
          exact h2 pre' c post e.2
      · intro h
        constructor
        · by_cases ha : a = 13
          · subst ha
            exact .inr (h [] b rest rfl)
          · exact .inl ha
        · intro pre c post e
          exact h (a :: pre) c post (by simp [e])

theorem connStream_infix {a m c : Bytes} (h : CRonlyBeforeLF (a ++ m ++ c)) : CRonlyBeforeLF m := by
  intro pre x post e
  exact h (a ++ pre) x (post ++ c) (by simp [e])

theorem connStream_suffix {s b : Bytes} (h : CRonlyBeforeLF s) (hb : b <:+ s) : CRonlyBeforeLF b := by
  obtain ⟨a, rfl⟩ := hb
  exact connStream_infix (a := a) (m := b) (c := []) (by simpa using h)

theorem connStream_prefix {a c : Bytes} (h : CRonlyBeforeLF (a ++ c)) : CRonlyBeforeLF a :=
  connStream_infix (a := []) (m := a) (c := c) (by simpa using h)

/-- The core step: a text without LF that is immediately followed by a CR, inside a clean stream,
contains no CR. -/
theorem connStream_mid_no_cr {a v c : Bytes} (h : CRonlyBeforeLF (a ++ v ++ 13 :: c))
    (hlf : ∀ b ∈ v, b ≠ 10) : ∀ b ∈ v, b ≠ 13 := by
  intro b hb e
  subst e
  obtain ⟨v1, v2, rfl⟩ := List.append_of_mem hb
  cases v2 with
  | nil =>
    have := h (a ++ v1) 13 c (by simp)
    exact absurd this (by decide)
  | cons y v2' =>
    have := h (a ++ v1) y (v2' ++ 13 :: c) (by simp)
    exact hlf y (by simp) this

/-! ## What `read_until(LF)` returns is a prefix -/

theorem connStream_readUntil_prefix (d : UInt8) (s : Bytes) :
    s = (flatReadUntil d s).1 ++ (flatReadUntil d s).2 := by
  unfold flatReadUntil
  cases h : takeThrough d s with
  | none => simp
  | some p =>
    obtain ⟨pre, post⟩ := p
    exact takeThrough_split h

/-! ## Where the version sits in the start line -/

theorem connStream_startLine_shape {full : Bytes} {m : Method} {u q v : Bytes}
    (h : parseStartLine full = some (m, u, q, v)) : ∃ a c, full = a ++ v ++ 13 :: 10 :: c := by
  unfold parseStartLine at h
  split at h
  · cases h
  · split at h
    · rename_i mm target vv rest hsp
      split at h
      · cases h
      · simp only at h
        split at h
        · cases h
        · rename_i hne
          simp only [Option.some.injEq, Prod.mk.injEq] at h
          obtain ⟨_, _, _, hv⟩ := h
          cases hs : stripCrlf vv with
          | none => rw [hs] at hne; simp at hne
          | some w =>
            rw [hs] at hv
            simp only [Option.getD_some] at hv
            subst hv
            have hvv := stripCrlf_some hs
            obtain ⟨_, i2, _⟩ := splitOn_pieces SP full mm (target :: vv :: rest) hsp
            obtain ⟨a, c, e⟩ := i2 vv (by simp)
            exact ⟨a, c, by rw [e, hvv]; simp⟩
    · cases h

/-! ## Where a header value sits in its line -/

theorem connStream_headerLine_shape {line : Bytes} {h : Header} (hp : parseHeaderLine line = .ok h) :
    ∃ a, line = a ++ h.value ++ 13 :: [10] := by
  unfold parseHeaderLine at hp
  split at hp
  · cases hp
  · split at hp
    · cases hp
    · rename_i body hs
      split at hp
      · cases hp
      · rename_i name value hso
        simp only [Outcome.ok.injEq] at hp
        subst hp
        simp only
        have hline := stripCrlf_some hs
        have hbody := splitOnce_some hso
        obtain ⟨k, hk⟩ := trimStartAux_drop value.length value
        refine ⟨name ++ 58 :: value.take k, ?_⟩
        rw [hline, hbody]
        simp only [trimStart, hk]
        have := List.take_append_drop k value
        simp only [List.append_assoc, List.cons_append]
        rw [← List.append_assoc (List.take k value), this]

/-- Every header `parseHeaders` returns was parsed from a line read at some suffix of its input. -/
theorem connStream_parseHeaders_values (fuel : Nat) (s : Bytes) (acc hs : Headers) (s' : Bytes)
    (h : parseHeaders flatSource fuel s acc = .ok (hs, s')) :
    ∀ x ∈ hs, x ∈ acc ∨ ∃ t, t <:+ s ∧ parseHeaderLine (flatReadUntil 10 t).1 = .ok x := by
  induction fuel generalizing s acc with
  | zero => simp [parseHeaders] at h
  | succ fuel ih =>
    simp only [parseHeaders] at h
    split at h
    · simp only [Outcome.ok.injEq, Prod.mk.injEq] at h
      rw [← h.1]; exact fun x hx => .inl hx
    · split at h
      · rename_i hd hpl
        intro x hx
        rcases ih _ _ h x hx with hm | ⟨t, ht, hm⟩
        · simp only [List.mem_append, List.mem_singleton] at hm
          rcases hm with hm | rfl
          · exact .inl hm
          · exact .inr ⟨s, List.suffix_refl _, hpl⟩
        · exact .inr ⟨t, ht.trans (flatReadUntil_suffix _ _), hm⟩
      · cases h
      · cases h

/-- `parseRequest_flat_inv_m` keeping track of where in `b` things were read. -/
theorem connStream_parseRequest_inv (env : Env) (b : Bytes) (req : Request) (b' : Bytes)
    (h : parseRequest flatSource env b = .ok (req, b')) :
    ∃ x s1 m u q fuel s3, b = x :: s1 ∧
      parseStartLine ([x] ++ (flatReadUntil 10 s1).1) = some (m, u, q, req.version) ∧
      parseHeaders flatSource fuel (flatReadUntil 10 s1).2 [] = .ok (req.headers, s3) := by
  unfold parseRequest at h
  cases b with
  | nil => simp [flatSource, flatReadExact] at h
  | cons x s1 =>
    have h1 : flatSource.readExact 1 (x :: s1) = some ([x], s1) := by simp [flatSource, flatReadExact]
    simp only [h1] at h
    split at h
    · cases h
    · rename_i method uri query version hsl
      split at h
      · cases h
      · cases h
      · rename_i headers s3 hph
        refine ⟨x, s1, method, uri, query, flatSource.remaining (flatSource.readUntil LF s1).2 + 1, s3,
          rfl, ?_, ?_⟩
        · have : req.version = version := by
            split at h
            · simp only [Outcome.ok.injEq, Prod.mk.injEq] at h; rw [← h.1]
            · split at h
              · cases h
              · split at h
                · cases h
                · simp only [Outcome.ok.injEq, Prod.mk.injEq] at h; rw [← h.1]
          rw [this]; exact hsl
        · have : req.headers = headers := by
            split at h
            · simp only [Outcome.ok.injEq, Prod.mk.injEq] at h; rw [← h.1]
            · split at h
              · cases h
              · split at h
                · cases h
                · simp only [Outcome.ok.injEq, Prod.mk.injEq] at h; rw [← h.1]
          rw [this]; exact hph

/-- **A request parsed from a clean byte string echoes no bare CR.** -/
theorem connStream_noBareCR (env : Env) (b : Bytes) (req : Request) (b' : Bytes)
    (hclean : CRonlyBeforeLF b) (h : parseRequest flatSource env b = .ok (req, b')) : NoBareCR req := by
  obtain ⟨x, s1, m, u, q, fuel, s3, hb, hsl, hph⟩ := connStream_parseRequest_inv env b req b' h
  have hs1 := connStream_readUntil_prefix 10 s1
  constructor
  · -- the version
    obtain ⟨_, v2⟩ := startLine_version x s1 hsl
    obtain ⟨a, c, e⟩ := connStream_startLine_shape hsl
    have hb2 : b = a ++ req.version ++ 13 :: (10 :: c ++ (flatReadUntil 10 s1).2) := by
      rw [hb]
      have : x :: s1 = ([x] ++ (flatReadUntil 10 s1).1) ++ (flatReadUntil 10 s1).2 := by
        rw [List.append_assoc, ← hs1]; rfl
      rw [this, e]; simp
    rw [hb2] at hclean
    exact connStream_mid_no_cr hclean (fun y hy => (v2 y hy).2)
  · -- the `Connection` value
    intro c hc
    have hmem : ∃ hd ∈ req.headers, hd.value = c := by
      simp only [Headers.get, Option.map_eq_some_iff] at hc
      obtain ⟨hd, hf, hv⟩ := hc
      exact ⟨hd, List.mem_of_find?_eq_some hf, hv⟩
    obtain ⟨hd, hm, rfl⟩ := hmem
    rcases connStream_parseHeaders_values fuel _ [] _ _ hph hd hm with hx | ⟨t, htsuf, ht⟩
    · simp at hx
    · obtain ⟨w1, _⟩ := parseHeaderLine_value t hd ht
      obtain ⟨a, e⟩ := connStream_headerLine_shape ht
      have ht2 := connStream_readUntil_prefix 10 t
      have htb : t <:+ b := by
        rw [hb]
        exact (htsuf.trans (flatReadUntil_suffix _ _)).trans (List.suffix_cons x s1)
      have hct := connStream_suffix hclean htb
      rw [ht2, e] at hct
      have hct' : CRonlyBeforeLF (a ++ hd.value ++ 13 :: ([10] ++ (flatReadUntil 10 t).2)) := by
        simpa using hct
      exact connStream_mid_no_cr hct' w1

end Humphrey.Http
