import HumphreyModel.Model.WsFrame

/-!
`read_exact` over a scripted reader delivers the next `n` bytes of the concatenated script
(when every `read` returns at least one byte), and the decoder run over two streams that deliver
the same bytes gives the same result.
-/
namespace Humphrey.WsFrame

/-- Every scripted `read` returns at least one byte. -/
def NonEmptyReads (s : List Bytes) : Prop := ∀ c ∈ s, c ≠ []

/-- `read_exact` over a stream that is just the bytes still to come. -/
def takeExact (n : Nat) (bs : Bytes) : Option (Bytes × Bytes) :=
  if n ≤ bs.length then some (bs.take n, bs.drop n) else none

/-- The decoder over a flat byte string (proof device; `decodeFrame` is the model). -/
def decodeFlat (bs : Bytes) : DecodeResult Bytes := decodeWith takeExact bs

theorem readExact_flat (n : Nat) (s : List Bytes) (h : NonEmptyReads s) :
    (readExact n s = none ∧ s.flatten.length < n) ∨
    ∃ s', readExact n s = some (s.flatten.take n, s') ∧ n ≤ s.flatten.length ∧
      s'.flatten = s.flatten.drop n ∧ NonEmptyReads s' := by
  induction s generalizing n with
  | nil =>
    cases n with
    | zero => right; exact ⟨[], by simp [readExact], by simp, by simp, h⟩
    | succ n => left; simp [readExact]
  | cons c cs ih =>
    have hc : c ≠ [] := h c (by simp)
    have hcs : NonEmptyReads cs := fun d hd => h d (by simp [hd])
    have hlen : c.length ≠ 0 := by
      intro h0; exact hc (List.eq_nil_of_length_eq_zero h0)
    cases n with
    | zero => right; exact ⟨c :: cs, by simp [readExact], by simp, by simp, h⟩
    | succ n =>
      by_cases hle : c.length ≤ n + 1
      · rcases ih (n + 1 - c.length) hcs with ⟨hn, hlt⟩ | ⟨s', hs, hle', hfl, hne⟩
        · left
          refine ⟨by simp [readExact, hlen, hle, hn], ?_⟩
          simp only [List.flatten_cons, List.length_append]; omega
        · right
          refine ⟨s', ?_, ?_, ?_, hne⟩
          · simp only [readExact, hlen, hle, if_true, if_false, hs, List.flatten_cons]
            rw [List.take_append, List.take_of_length_le hle]
          · simp only [List.flatten_cons, List.length_append]; omega
          · rw [hfl]; simp only [List.flatten_cons]
            rw [List.drop_append, List.drop_of_length_le hle, List.nil_append]
      · right
        have hgt : n + 1 < c.length := by omega
        refine ⟨c.drop (n + 1) :: cs, ?_, ?_, ?_, ?_⟩
        · simp only [readExact, hlen, hle, if_false, List.flatten_cons]
          rw [List.take_append_of_le_length (by omega)]
        · simp only [List.flatten_cons, List.length_append]; omega
        · simp only [List.flatten_cons]
          rw [List.drop_append_of_le_length (by omega)]
        · intro d hd
          rcases List.mem_cons.mp hd with rfl | hd
          · intro h0
            have : (c.drop (n + 1)).length = 0 := by rw [h0]; rfl
            simp only [List.length_drop] at this; omega
          · exact hcs d hd

/-! ### Two streams delivering the same bytes -/

section Sim
variable {σ₁ σ₂ : Type} (R : σ₁ → σ₂ → Prop)
variable (rd₁ : Nat → σ₁ → Option (Bytes × σ₁)) (rd₂ : Nat → σ₂ → Option (Bytes × σ₂))

/-- Related streams fail together or deliver the same bytes and stay related. -/
def Sim : Prop := ∀ n a b, R a b →
  (rd₁ n a = none ∧ rd₂ n b = none) ∨
  ∃ x a' b', rd₁ n a = some (x, a') ∧ rd₂ n b = some (x, b') ∧ R a' b'

/-- Same allocation record, same error or same frame with related remainders. -/
def ResRel (r₁ : DecodeResult σ₁) (r₂ : DecodeResult σ₂) : Prop :=
  r₁.alloc = r₂.alloc ∧
  ((∃ e, r₁.result = .error e ∧ r₂.result = .error e) ∨
   ∃ f a b, r₁.result = .ok (f, a) ∧ r₂.result = .ok (f, b) ∧ R a b)

variable {R rd₁ rd₂}

theorem readLength_sim (h : Sim R rd₁ rd₂) (len7 : Nat) {a : σ₁} {b : σ₂} (hab : R a b) :
    (readLength rd₁ len7 a = none ∧ readLength rd₂ len7 b = none) ∨
    ∃ x a' b', readLength rd₁ len7 a = some (x, a') ∧ readLength rd₂ len7 b = some (x, b') ∧
      R a' b' := by
  unfold readLength
  by_cases h126 : len7 = 126
  · simp only [h126, if_true]
    rcases h 2 a b hab with ⟨h1, h2⟩ | ⟨x, a', b', h1, h2, hr⟩
    · left; simp [h1, h2]
    · right; exact ⟨fromBe x, a', b', by simp [h1], by simp [h2], hr⟩
  · by_cases h127 : len7 = 127
    · simp only [h127, if_true]
      rcases h 8 a b hab with ⟨h1, h2⟩ | ⟨x, a', b', h1, h2, hr⟩
      · left; simp [h1, h2]
      · right; exact ⟨fromBe x, a', b', by simp [h1], by simp [h2], hr⟩
    · simp only [h126, h127, if_false]
      right; exact ⟨len7, a, b, rfl, rfl, hab⟩

theorem readKey_sim (h : Sim R rd₁ rd₂) (mask : Bool) {a : σ₁} {b : σ₂} (hab : R a b) :
    (readKey rd₁ mask a = none ∧ readKey rd₂ mask b = none) ∨
    ∃ x a' b', readKey rd₁ mask a = some (x, a') ∧ readKey rd₂ mask b = some (x, b') ∧
      R a' b' := by
  unfold readKey
  cases mask with
  | false => right; exact ⟨Key.zero, a, b, by simp, by simp, hab⟩
  | true =>
    simp only [if_true]
    rcases h 4 a b hab with ⟨h1, h2⟩ | ⟨x, a', b', h1, h2, hr⟩
    · left; simp [h1, h2]
    · rw [h1, h2]
      match x with
      | [p, q, r, s] => right; exact ⟨⟨p, q, r, s⟩, a', b', rfl, rfl, hr⟩
      | [] => left; exact ⟨rfl, rfl⟩
      | [_] => left; exact ⟨rfl, rfl⟩
      | [_, _] => left; exact ⟨rfl, rfl⟩
      | [_, _, _] => left; exact ⟨rfl, rfl⟩
      | _ :: _ :: _ :: _ :: _ :: _ => left; exact ⟨rfl, rfl⟩

theorem innerWith_sim (h : Sim R rd₁ rd₂) (h0 h1 : UInt8) {a : σ₁} {b : σ₂} (hab : R a b) :
    ResRel R (innerWith rd₁ a h0 h1) (innerWith rd₂ b h0 h1) := by
  unfold innerWith
  cases Opcode.ofNat? (h0 &&& 0xF).toNat with
  | none => exact ⟨rfl, .inl ⟨_, rfl, rfl⟩⟩
  | some op =>
    simp only
    rcases readLength_sim h (h1 &&& 0x7F).toNat hab with ⟨e1, e2⟩ | ⟨len, a1, b1, e1, e2, r1⟩
    · rw [e1, e2]; exact ⟨rfl, .inl ⟨_, rfl, rfl⟩⟩
    · rw [e1, e2]; simp only
      rcases readKey_sim h (h1 &&& 0x80 != 0) r1 with ⟨e1, e2⟩ | ⟨key, a2, b2, e1, e2, r2⟩
      · rw [e1, e2]; exact ⟨rfl, .inl ⟨_, rfl, rfl⟩⟩
      · rw [e1, e2]; simp only
        rcases h len a2 b2 r2 with ⟨e1, e2⟩ | ⟨pl, a3, b3, e1, e2, r3⟩
        · rw [e1, e2]; exact ⟨rfl, .inl ⟨_, rfl, rfl⟩⟩
        · rw [e1, e2]; exact ⟨rfl, .inr ⟨_, a3, b3, rfl, rfl, r3⟩⟩

theorem decodeWith_sim (h : Sim R rd₁ rd₂) {a : σ₁} {b : σ₂} (hab : R a b) :
    ResRel R (decodeWith rd₁ a) (decodeWith rd₂ b) := by
  unfold decodeWith
  rcases h 2 a b hab with ⟨e1, e2⟩ | ⟨x, a', b', e1, e2, r⟩
  · rw [e1, e2]; exact ⟨rfl, .inl ⟨_, rfl, rfl⟩⟩
  · rw [e1, e2]
    match x with
    | [p, q] => exact innerWith_sim h p q r
    | [] => exact ⟨rfl, .inl ⟨_, rfl, rfl⟩⟩
    | [_] => exact ⟨rfl, .inl ⟨_, rfl, rfl⟩⟩
    | _ :: _ :: _ :: _ => exact ⟨rfl, .inl ⟨_, rfl, rfl⟩⟩

end Sim

/-- A script of non-empty reads and the flat string of its bytes. -/
def ChunkRel (s : List Bytes) (bs : Bytes) : Prop := NonEmptyReads s ∧ s.flatten = bs

theorem readExact_takeExact_sim : Sim ChunkRel readExact takeExact := by
  intro n s bs ⟨hne, hfl⟩
  subst hfl
  rcases readExact_flat n s hne with ⟨e, hlt⟩ | ⟨s', e, hle, hfl, hne'⟩
  · left; exact ⟨e, by unfold takeExact; rw [if_neg (by omega)]⟩
  · right; exact ⟨_, s', _, e, by unfold takeExact; rw [if_pos hle], hne', hfl⟩

/-- The decoder over a script of non-empty reads does what the decoder over the flat bytes does. -/
theorem decodeFrameFull_flat (s : List Bytes) (h : NonEmptyReads s) :
    ResRel ChunkRel (decodeFrameFull s) (decodeFlat s.flatten) :=
  decodeWith_sim readExact_takeExact_sim ⟨h, rfl⟩

end Humphrey.WsFrame
