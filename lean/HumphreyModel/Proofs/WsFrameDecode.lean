import HumphreyModel.Proofs.WsFrameBytes
import HumphreyModel.Proofs.WsFrameRead

/-!
Decoding (over flat bytes) any prefix of `encodeFrame f ++ tail`: `ReadError` while the prefix is
shorter than the frame, the frame itself (and what is left of the prefix) from then on.
The three length classes are the case split of `readLength_ext`.
-/
namespace Humphrey.WsFrame

/-- The well-formed frames of the property: the length field is the payload length, as `u64`. -/
def Frame.wf (f : Frame) : Prop := f.length = f.payload.length ∧ f.length < 18446744073709551616

/-- What decoding returns for `f`: the same frame; an unmasked frame has no key on the wire and
comes back with the all-zero key (`[0; 4]` in `from_stream_inner`). -/
def Frame.normKey (f : Frame) : Frame := { f with key := if f.mask then f.key else Key.zero }

/-- Second header byte. -/
def lenByte (f : Frame) : UInt8 :=
  if f.length < 126 then (b2u8 f.mask <<< 7) ||| f.length.toUInt8
  else if f.length < 65536 then (b2u8 f.mask <<< 7) ||| 126
  else (b2u8 f.mask <<< 7) ||| 127

/-- Extended length bytes. -/
def extLen (f : Frame) : Bytes :=
  if f.length < 126 then [] else if f.length < 65536 then be16 f.length else be64 f.length

def keyBytes (f : Frame) : Bytes := if f.mask then f.key.toList else []

def wirePayload (f : Frame) : Bytes := if f.mask then xorKey f.key 0 f.payload else f.payload

theorem encodeFrame_split (f : Frame) :
    encodeFrame f = [headerByte0 f, lenByte f] ++ (extLen f ++ (keyBytes f ++ wirePayload f)) := by
  unfold encodeFrame encodeHeader lenByte extLen keyBytes wirePayload
  by_cases h1 : f.length < 126
  · simp [h1]
  · by_cases h2 : f.length < 65536 <;> simp [h1, h2]

theorem extLen_length (f : Frame) :
    (extLen f).length = if f.length < 126 then 0 else if f.length < 65536 then 2 else 8 := by
  unfold extLen
  by_cases h1 : f.length < 126
  · simp [h1]
  · by_cases h2 : f.length < 65536 <;> simp [h1, h2, be16, be64]

theorem keyBytes_length (f : Frame) : (keyBytes f).length = if f.mask then 4 else 0 := by
  unfold keyBytes; cases f.mask <;> simp [Key.toList]

theorem wirePayload_length (f : Frame) : (wirePayload f).length = f.payload.length := by
  unfold wirePayload; cases f.mask <;> simp [xorKey_length]

theorem encodeFrame_length (f : Frame) :
    (encodeFrame f).length = 2 + (extLen f).length + (keyBytes f).length + f.payload.length := by
  rw [encodeFrame_split]; simp [wirePayload_length]; omega

theorem takeExact_take_append (a b : Bytes) (k n : Nat) (hk : a.length = k) :
    takeExact k (List.take n (a ++ b)) =
      if k ≤ n then some (a, List.take (n - k) b) else none := by
  subst hk
  unfold takeExact
  by_cases h : a.length ≤ n
  · have e : List.take n (a ++ b) = a ++ List.take (n - a.length) b := by
      rw [List.take_append, List.take_of_length_le h]
    rw [e, if_pos h, if_pos (by simp)]
    simp
  · rw [if_neg h, if_neg]
    simp only [List.length_take, List.length_append]; omega

theorem readLength_ext (f : Frame) (h64 : f.length < 18446744073709551616) (rest : Bytes) (m : Nat) :
    ((lenByte f &&& 0x80) != 0) = f.mask ∧
    readLength takeExact (lenByte f &&& 0x7F).toNat (List.take m (extLen f ++ rest)) =
      if (extLen f).length ≤ m then some (f.length, List.take (m - (extLen f).length) rest)
      else none := by
  unfold lenByte extLen readLength
  by_cases h1 : f.length < 126
  · -- 7-bit length
    obtain ⟨hm, hl⟩ := lenByte_small_decode f.length h1 f.mask
    have n126 : f.length ≠ 126 := by omega
    have n127 : f.length ≠ 127 := by omega
    simp only [h1, if_true, hm, hl, n126, n127, if_false, List.nil_append, List.length_nil,
      Nat.zero_le, Nat.sub_zero, true_and]
  · by_cases h2 : f.length < 65536
    · -- 7+16
      obtain ⟨hm, hl⟩ := lenByte_126_decode f.mask
      simp only [h1, h2, if_true, if_false, hm, hl, true_and]
      rw [takeExact_take_append _ _ 2 m (by simp [be16])]
      by_cases hm2 : 2 ≤ m
      · have l : (be16 f.length).length = 2 := rfl
        simp [hm2, fromBe_be16 f.length h2, l]
      · have l : (be16 f.length).length = 2 := rfl
        simp [hm2, l]
    · -- 7+64
      obtain ⟨hm, hl⟩ := lenByte_127_decode f.mask
      have d : (127 : Nat) ≠ 126 := by decide
      simp only [h1, h2, if_true, if_false, hm, hl, d, true_and]
      rw [takeExact_take_append _ _ 8 m (by simp [be64])]
      by_cases hm8 : 8 ≤ m
      · have l : (be64 f.length).length = 8 := rfl
        simp [hm8, fromBe_be64 f.length h64, l]
      · have l : (be64 f.length).length = 8 := rfl
        simp [hm8, l]

theorem readKey_keyBytes (f : Frame) (rest : Bytes) (m : Nat) :
    readKey takeExact f.mask (List.take m (keyBytes f ++ rest)) =
      if (keyBytes f).length ≤ m
      then some (if f.mask then f.key else Key.zero, List.take (m - (keyBytes f).length) rest)
      else none := by
  unfold readKey keyBytes
  cases f.mask with
  | false => simp
  | true =>
    simp only [if_true]
    rw [takeExact_take_append _ _ 4 m (by simp [Key.toList])]
    by_cases h4 : 4 ≤ m
    · simp [h4, Key.toList]
    · simp [h4, Key.toList]

theorem unmask_wirePayload (f : Frame) :
    xorKey (if f.mask then f.key else Key.zero) 0 (wirePayload f) = f.payload := by
  unfold wirePayload
  cases f.mask with
  | true => simp [xorKey_xorKey]
  | false =>
    simp only [Bool.false_eq_true, if_false]
    generalize (0 : Nat) = i
    induction f.payload generalizing i with
    | nil => rfl
    | cons b p ih =>
      simp only [xorKey, ih]
      have : Key.zero.get (i % 4) = 0 := by
        have h : i % 4 < 4 := Nat.mod_lt _ (by decide)
        generalize i % 4 = j at h
        match j, h with
        | 0, _ => rfl
        | 1, _ => rfl
        | 2, _ => rfl
        | 3, _ => rfl
      rw [this, UInt8.xor_zero]

/-- Decoding the first `n` bytes of an encoded frame followed by anything. -/
theorem decodeFlat_take_encode (f : Frame) (hwf : f.wf) (tail : Bytes) (n : Nat) :
    decodeFlat (List.take n (encodeFrame f ++ tail)) =
      if (encodeFrame f).length ≤ n
      then ⟨some f.length, .ok (f.normKey, List.take (n - (encodeFrame f).length) tail)⟩
      else ⟨if 2 + (extLen f).length + (keyBytes f).length ≤ n then some f.length else none,
            .error .readError⟩ := by
  obtain ⟨hlen, h64⟩ := hwf
  rw [encodeFrame_length, encodeFrame_split]
  unfold decodeFlat decodeWith
  rw [List.append_assoc, takeExact_take_append _ _ 2 n (by simp)]
  by_cases h2 : 2 ≤ n
  · simp only [h2, if_true]
    unfold innerWith
    obtain ⟨hfin, hr1, hr2, hr3, hop⟩ := header0_decode f
    obtain ⟨hmask, hrl⟩ := readLength_ext f h64 (keyBytes f ++ wirePayload f ++ tail) (n - 2)
    simp only [hfin, hr1, hr2, hr3, hop, hmask]
    rw [List.append_assoc, List.append_assoc, ← List.append_assoc (keyBytes f), hrl]
    by_cases he : (extLen f).length ≤ n - 2
    · simp only [he, if_true]
      rw [List.append_assoc, readKey_keyBytes]
      by_cases hk : (keyBytes f).length ≤ n - 2 - (extLen f).length
      · simp only [hk, if_true]
        rw [takeExact_take_append _ _ f.length _ (by rw [wirePayload_length, hlen])]
        have halloc : 2 + (extLen f).length + (keyBytes f).length ≤ n := by omega
        by_cases hp : f.length ≤ n - 2 - (extLen f).length - (keyBytes f).length
        · have htot : 2 + (extLen f).length + (keyBytes f).length + f.payload.length ≤ n := by omega
          simp only [hp, htot, if_true, unmask_wirePayload]
          have e : n - 2 - (extLen f).length - (keyBytes f).length - f.length
              = n - (2 + (extLen f).length + (keyBytes f).length + f.payload.length) := by omega
          rw [e]; rfl
        · have htot : ¬ 2 + (extLen f).length + (keyBytes f).length + f.payload.length ≤ n := by omega
          simp only [hp, htot, halloc, if_true, if_false]
      · have htot : ¬ 2 + (extLen f).length + (keyBytes f).length + f.payload.length ≤ n := by omega
        have halloc : ¬ 2 + (extLen f).length + (keyBytes f).length ≤ n := by omega
        simp only [hk, htot, halloc, if_false]
    · have htot : ¬ 2 + (extLen f).length + (keyBytes f).length + f.payload.length ≤ n := by omega
      have halloc : ¬ 2 + (extLen f).length + (keyBytes f).length ≤ n := by omega
      simp only [he, htot, halloc, if_false]
  · have htot : ¬ 2 + (extLen f).length + (keyBytes f).length + f.payload.length ≤ n := by omega
    have halloc : ¬ 2 + (extLen f).length + (keyBytes f).length ≤ n := by omega
    simp only [h2, htot, halloc, if_false]

end Humphrey.WsFrame
