import HumphreyModel.Model.Blacklist
import HumphreyModel.Spec.Blacklist

/-! Helper lemmas for C19 (`Props/C19.lean`). Core Lean only. -/
namespace Humphrey.Blacklist
open Humphrey Humphrey.Http Humphrey.BlacklistSpec

theorem listed_iff (cfg : BlCfg) (ip : Ip) : listed cfg ip = true ↔ ip ∈ cfg.list := by
  simp [listed]

theorem listed_false_iff (cfg : BlCfg) (ip : Ip) : listed cfg ip = false ↔ ip ∉ cfg.list := by
  simp [listed]

theorem any_listed_iff (cfg : BlCfg) (l : List Ip) :
    l.any (listed cfg) = true ↔ ∃ a ∈ l, a ∈ cfg.list := by
  simp [List.any_eq_true, listed_iff]

theorem any_listed_false_iff (cfg : BlCfg) (l : List Ip) :
    l.any (listed cfg) = false ↔ ∀ a ∈ l, a ∉ cfg.list := by
  simp [List.any_eq_false, listed]

theorem isBlacklisted_ips (cfg : BlCfg) (ips : List Ip) (peer : Ip) (port : Nat) :
    isBlacklisted cfg
      (match ips.getLast? with
        | none => ⟨peer, [], port⟩
        | some origin => ⟨origin, ips.dropLast ++ [peer], port⟩) =
      (listed cfg peer || ips.any (listed cfg)) := by
  rcases List.eq_nil_or_concat ips with h | ⟨l, a, h⟩
  · subst h; simp [isBlacklisted]
  · subst h
    rw [List.concat_eq_append]
    simp only [isBlacklisted, List.getLast?_append, List.getLast?_singleton, Option.some_or,
      List.dropLast_concat, List.any_append, List.any_cons, List.any_nil, Bool.or_false]
    cases listed cfg a <;> cases listed cfg peer <;> cases l.any (listed cfg) <;> rfl

/-- The addresses `Address::from_headers` hands to the blacklist test are exactly the peer and every
parsable forwarded entry: the origin is the last entry, the proxies are the earlier ones and the peer. -/
theorem isBlacklisted_fromHeaders (parseIp : Bytes → Option Ip) (cfg : BlCfg) (hs : Headers)
    (peer : Ip) (port : Nat) :
    isBlacklisted cfg (Address.fromHeaders parseIp Bytes.trim hs peer port) =
      (listed cfg peer || (forwarded parseIp hs).any (listed cfg)) := by
  unfold Address.fromHeaders forwarded
  cases hs.get hXff with
  | none => simp [isBlacklisted]
  | some fwd => exact isBlacklisted_ips cfg _ peer port

/-- The unrepaired test looks at the last parsable forwarded entry alone, or at the peer when there is none. -/
theorem isBlacklistedOld_fromHeaders (parseIp : Bytes → Option Ip) (cfg : BlCfg) (hs : Headers)
    (peer : Ip) (port : Nat) :
    isBlacklistedOld cfg (Address.fromHeaders parseIp Bytes.trim hs peer port) =
      listed cfg (((forwarded parseIp hs).getLast?).getD peer) := by
  unfold Address.fromHeaders forwarded isBlacklistedOld
  cases hs.get hXff with
  | none => simp
  | some fwd =>
    simp only
    cases ((Bytes.splitOn 44 fwd).filterMap (fun e => parseIp (Bytes.trim e))).getLast? <;> rfl

/-- Every handler starts with the same test: a blacklisted address gets 403 from every route type,
whatever the cache holds. -/
theorem dispatch_blacklisted (cfg : BlCfg) (a : Address) (route : Route)
    (h : isBlacklisted cfg a = true) : dispatch cfg a route = .forbidden403 := by
  cases route <;>
    simp [dispatch, fileHandler, directoryHandler, redirectHandler, proxyHandler, blacklistCheck, h]

/-- What a route does once the check has passed (this is also the answer under an empty blacklist). -/
def Route.unrefused : Route → Outcome
  | .file cc rest => afterCheckStatic cc rest
  | .directory cc rest => afterCheckStatic cc rest
  | .proxy rest => .served (.fresh rest)
  | .redirect rest => .served (.fresh rest)

theorem dispatch_not_blacklisted (cfg : BlCfg) (a : Address) (route : Route)
    (h : isBlacklisted cfg a = false) : dispatch cfg a route = route.unrefused := by
  cases route <;>
    simp [dispatch, fileHandler, directoryHandler, redirectHandler, proxyHandler, blacklistCheck, h,
      Route.unrefused]

/-- The route's cache lookup does not panic (always true when the cache is off or the clock is monotone). -/
def Route.lookupOk : Route → Prop
  | .file cc _ => cacheCheck cc ≠ .panic
  | .directory cc _ => cacheCheck cc ≠ .panic
  | .proxy _ => True
  | .redirect _ => True

theorem unrefused_served (route : Route) (h : route.lookupOk) : ∃ k, route.unrefused = .served k := by
  cases route with
  | file cc rest | directory cc rest =>
    simp only [Route.lookupOk] at h
    simp only [Route.unrefused, afterCheckStatic]
    cases hc : cacheCheck cc with
    | panic => exact absurd hc h
    | ok o => cases o <;> simp
  | proxy rest | redirect rest => exact ⟨_, rfl⟩

/-- What the client observes. A handler panic kills the worker before anything is written. -/
def Outcome.obs : Outcome → Obs
  | .closedNoResponse => .closed
  | .forbidden403 => .forbidden
  | .served _ => .content
  | .panic => .closed

end Humphrey.Blacklist

namespace Humphrey.BlacklistSpec
variable {α : Type} [DecidableEq α]

/-- The specification determines the observation: `Holds` is the graph of `expected`. -/
theorem holds_iff_expected (block : Bool) (list : List α) (peer : α) (fwd : List α) (o : Obs) :
    Holds block list peer fwd o ↔ o = expected block list peer fwd := by
  unfold Holds expected
  by_cases hp : peer ∈ list
  · cases block <;> simp [hp]
  · have hc : list.contains peer = false := by simpa using hp
    by_cases hf : ∃ a ∈ fwd, a ∈ list
    · have ha : fwd.any (fun a => list.contains a) = true := by
        simpa [List.any_eq_true] using hf
      simp only [hc, ha, if_true, Bool.false_eq_true, if_false]
      constructor
      · intro h; exact h.2.2.1 hp hf
      · intro h
        subst h
        refine ⟨fun h => absurd h hp, fun h => absurd h hp, fun _ _ => rfl, fun _ h' => ?_⟩
        obtain ⟨a, ha', hl⟩ := hf
        exact absurd hl (h' a ha')
    · have h' : ∀ a ∈ fwd, a ∉ list := by
        intro a ha hl; exact hf ⟨a, ha, hl⟩
      have ha : fwd.any (fun a => list.contains a) = false := by
        simpa [List.any_eq_false] using h'
      simp only [hc, ha, Bool.false_eq_true, if_false]
      constructor
      · intro h; exact h.2.2.2 hp h'
      · intro h
        subst h
        exact ⟨fun h => absurd h hp, fun h => absurd h hp, fun _ h => absurd h hf, fun _ _ => rfl⟩

end Humphrey.BlacklistSpec
