import HumphreyModel.Proofs.HttpMsgSer
import HumphreyModel.Proofs.RespSim
/-
`Response::from_stream` (model `parseResponse`) on what the serialiser wrote: the status line, the
header loop and the body come back. Run on the flat stream; `parseResponse_sim` lifts it to every
read segmentation.
-/
namespace Humphrey.Http
open Humphrey Humphrey.Bytes Humphrey.IO

/-- What parsing back needs beyond `Response.WF`. In Rust the version, the header values and the
phrase are `String`s, so the UTF-8 clauses always hold there; the model's byte lists are arbitrary.
`value_trim`: the parser applies `str::trim_start`, which strips *Unicode* white space. -/
structure Response.ParseBack (r : Response) : Prop where
  status_utf8 : utf8Valid (statusLine r ++ [13, 10]) = true
  line_utf8 : ∀ h ∈ r.headers, utf8Valid (headerLine h ++ [13, 10]) = true
  value_trim : ∀ h ∈ r.headers, wsPrefixLen h.value = 0
  /-- a `usize` -/
  body_len : r.body.length < 18446744073709551616
  not_chunked : r.headers.get hTransferEncoding ≠ some chunkedValue

/-- All-ASCII lines are valid UTF-8. -/
theorem utf8Valid_ascii_m (a : Bytes) (h : ∀ x ∈ a, x < 128) : utf8Valid a = true := by
  have := utf8Valid_ascii_append a [] h
  simpa [utf8Valid] using this

/-! ## Status line -/

theorem parseStatusLine_serialize (r : Response) (h : r.WF) (hp : r.ParseBack) :
    parseStatusLine (statusLine r ++ [13, 10]) = some (r.version, r.status) := by
  obtain ⟨_, _, s3, _⟩ := statusLine_facts r h
  obtain ⟨e, c1, c2, _, _⟩ := statusKnown_facts r.status h.status
  have shape : statusLine r ++ [13, 10] =
      r.version ++ 32 :: (natToBytes (statusCodeOut r.status) ++ 32 :: (reasonPhrase r.status ++ [13, 10])) := by
    simp [statusLine]
  have e1 : splitOnce SP (statusLine r ++ [13, 10]) =
      (r.version, some (natToBytes (statusCodeOut r.status) ++ 32 :: (reasonPhrase r.status ++ [13, 10]))) := by
    rw [shape]; exact splitOnce_append 32 _ _ (fun b hb => (h.version_clean b hb).1)
  have e2 : splitOnce SP (natToBytes (statusCodeOut r.status) ++ 32 :: (reasonPhrase r.status ++ [13, 10])) =
      (natToBytes (statusCodeOut r.status), some (reasonPhrase r.status ++ [13, 10])) :=
    splitOnce_append 32 _ _ (fun b hb => (isDigit_facts b (s3 b hb)).2.1)
  have e3 : parseU16 (natToBytes (statusCodeOut r.status)) = some r.status := by
    rw [e, parseU16, parseUsize_natToBytes_m _ (by omega)]
    simp only
    rw [if_pos (by omega)]
  simp [parseStatusLine, hp.status_utf8, splitn3, e1, e2, e3, h.status]

/-! ## Header loop -/

theorem trimStart_sp_m (v : Bytes) (hv : wsPrefixLen v = 0) : trimStart (32 :: v) = v := by
  have h1 : wsPrefixLen (32 :: v) = 1 := by
    simp [wsPrefixLen, wsSeqs, List.find?, List.isPrefixOf]
  simp only [trimStart, List.length_cons, trimStartAux, h1, List.drop_succ_cons, List.drop_zero]
  cases hl : v.length with
  | zero => simp [trimStartAux]
  | succ n => simp [trimStartAux, hv]

theorem Header.eta (h : Header) (hw : h.name.WF) : (⟨HName.ofName h.name.display, h.value⟩ : Header) = h := by
  obtain ⟨⟨l⟩, v⟩ := h
  have := hw.lower
  simp only [HName.ofName] at this ⊢
  rw [this]

theorem parseRespHeaderLine_serialize (h : Header) (hw : h.WF)
    (hu : utf8Valid (headerLine h ++ [13, 10]) = true) (ht : wsPrefixLen h.value = 0) :
    parseRespHeaderLine (headerLine h ++ [13, 10]) = .ok h := by
  obtain ⟨_, f2⟩ := headerLine_facts h hw
  have hso : splitOnce 58 (headerLine h) = (h.name.display, some (32 :: h.value)) :=
    splitOnce_append 58 _ _ f2
  simp only [parseRespHeaderLine, hu, Bool.not_true, Bool.false_eq_true, if_false, stripCrlf_append, hso,
    trimStart_sp_m _ ht, Header.eta h hw.name]

theorem headerLine_ne_crlf (h : Header) (hw : h.WF) : headerLine h ++ [13, 10] ≠ crlf := by
  intro e
  have hl := congrArg List.length e
  cases hd : h.name.display with
  | nil => exact hw.name.ne hd
  | cons a as => simp [headerLine, hd, crlf] at hl; omega

theorem parseRespHeaders_serialize (hs : Headers) (hw : ∀ h ∈ hs, h.WF)
    (hu : ∀ h ∈ hs, utf8Valid (headerLine h ++ [13, 10]) = true)
    (ht : ∀ h ∈ hs, wsPrefixLen h.value = 0) (t : Bytes) (fuel : Nat) (hf : hs.length < fuel)
    (acc : Headers) :
    parseRespHeaders flatSource fuel (hs.flatMap (fun h => headerLine h ++ [13, 10]) ++ 13 :: 10 :: t) acc =
      .ok (acc ++ hs, t) := by
  induction hs generalizing fuel acc with
  | nil =>
    cases fuel with
    | zero => simp at hf
    | succ fuel =>
      have : flatReadUntil 10 (13 :: 10 :: t) = ([13, 10], t) := flatReadUntil_line [] t (by simp)
      simp [parseRespHeaders, flatSource, LF, this, crlf]
  | cons h hs ih =>
    cases fuel with
    | zero => simp at hf
    | succ fuel =>
      have hwh := hw h (by simp)
      obtain ⟨f1, _⟩ := headerLine_facts h hwh
      have hr : flatReadUntil 10 ((h :: hs).flatMap (fun h => headerLine h ++ [13, 10]) ++ 13 :: 10 :: t) =
          (headerLine h ++ [13, 10], hs.flatMap (fun h => headerLine h ++ [13, 10]) ++ 13 :: 10 :: t) := by
        simp only [List.flatMap_cons, List.append_assoc, List.cons_append, List.nil_append]
        exact flatReadUntil_line _ _ (fun b hb => (f1 b hb).2)
      rw [parseRespHeaders]
      simp only [flatSource, LF, hr, headerLine_ne_crlf h hwh, if_false,
        parseRespHeaderLine_serialize h hwh (hu h (by simp)) (ht h (by simp))]
      have := ih (fun x hx => hw x (by simp [hx])) (fun x hx => hu x (by simp [hx]))
        (fun x hx => ht x (by simp [hx])) fuel (by simpa using hf) (acc ++ [h])
      simp only [flatSource] at this
      rw [this]
      simp

/-! ## The whole message -/

/-- The two surplus bytes left unread after a non-empty body. -/
def pad (r : Response) : Bytes := if r.body = [] then [] else [13, 10]

theorem length_le_flatMap (l : Headers) :
    l.length ≤ (l.flatMap (fun h => headerLine h ++ [13, 10])).length := by
  induction l with
  | nil => simp
  | cons x xs ih => simp only [List.flatMap_cons, List.length_append, List.length_cons]; omega

/-- `read_to_end` on the flat stream returns everything that is left. -/
theorem readRest_flat (fuel : Nat) (s acc : Bytes) (hf : s.length < fuel) :
    readRest flatSource fuel s acc = (acc ++ s, []) := by
  induction fuel generalizing s acc with
  | zero => omega
  | succ fuel ih =>
    simp only [readRest, flatSource, LF, flatReadUntil]
    cases ht : takeThrough 10 s with
    | none =>
      cases s with
      | nil => simp
      | cons x xs =>
        have := ih [] (acc ++ x :: xs) (by simp only [List.length_cons] at hf; simp; omega)
        simp only [flatSource] at this
        simp [this]
    | some p =>
      obtain ⟨pre, post⟩ := p
      have hsplit : s = pre ++ post := by
        clear ih hf
        induction s generalizing pre with
        | nil => simp [takeThrough] at ht
        | cons x xs ihx =>
          simp only [takeThrough] at ht
          by_cases hx : x = 10
          · simp only [hx, if_true, Option.some.injEq, Prod.mk.injEq] at ht
            obtain ⟨rfl, rfl⟩ := ht; simp [hx]
          · simp only [hx, if_false] at ht
            cases hr : takeThrough 10 xs with
            | none => simp [hr] at ht
            | some q =>
              obtain ⟨q1, q2⟩ := q
              simp only [hr, Option.some.injEq, Prod.mk.injEq] at ht
              obtain ⟨rfl, rfl⟩ := ht
              simp [ihx _ hr]
      have hpre : pre ≠ [] := by
        intro e; subst e
        cases s with
        | nil => simp [takeThrough] at ht
        | cons x xs =>
          simp only [takeThrough] at ht
          by_cases hx : x = 10
          · simp [hx] at ht
          · simp only [hx, if_false] at ht
            cases hr : takeThrough 10 xs with
            | none => simp [hr] at ht
            | some q => simp [hr] at ht
      have hlen : post.length < fuel := by
        have : 1 ≤ pre.length := by
          cases pre with
          | nil => exact absurd rfl hpre
          | cons _ _ => simp
        rw [hsplit] at hf; simp only [List.length_append] at hf; omega
      have := ih post (acc ++ pre) hlen
      simp only [flatSource] at this
      simp [hpre, this, hsplit]

/-- Up to the body, `from_stream` reads back the status line and the (sorted) header list. -/
theorem parseResponse_serialize_upto_body (r : Response) (h : r.WF) (hp : r.ParseBack) (rest : Bytes) :
    parseResponse flatSource (serializeResponse r ++ rest) =
      match parseBody flatSource r.status r.headers.sorted (bodyPart r ++ rest) with
      | .err e => .err e
      | .panic => .panic
      | .ok ((hs, body), s3) => .ok (⟨r.version, r.status, hs, body⟩, s3) := by
  obtain ⟨s1, _, _, _⟩ := statusLine_facts r h
  have hws : ∀ x ∈ r.headers.sorted, x.WF := fun x hx => h.headers x ((mem_sorted_m _ _).mp hx)
  have hus : ∀ x ∈ r.headers.sorted, utf8Valid (headerLine x ++ [13, 10]) = true :=
    fun x hx => hp.line_utf8 x ((mem_sorted_m _ _).mp hx)
  have hts : ∀ x ∈ r.headers.sorted, wsPrefixLen x.value = 0 :=
    fun x hx => hp.value_trim x ((mem_sorted_m _ _).mp hx)
  have hr : flatReadUntil 10 (serializeResponse r ++ rest) =
      (statusLine r ++ [13, 10],
        r.headers.sorted.flatMap (fun h => headerLine h ++ [13, 10]) ++ 13 :: 10 :: (bodyPart r ++ rest)) := by
    rw [serialize_shape]
    simp only [List.append_assoc, List.cons_append]
    exact flatReadUntil_line _ _ (fun b hb => (s1 b hb).2)
  have hh := parseRespHeaders_serialize r.headers.sorted hws hus hts (bodyPart r ++ rest)
    ((r.headers.sorted.flatMap (fun h => headerLine h ++ [13, 10]) ++ 13 :: 10 :: (bodyPart r ++ rest)).length + 1)
    (by have := length_le_flatMap r.headers.sorted
        simp only [List.length_append]; omega) []
  simp only [flatSource] at hh
  simp only [parseResponse, flatSource, LF, hr, parseStatusLine_serialize r h hp, hh, List.nil_append]
  generalize parseBody _ r.status r.headers.sorted (bodyPart r ++ rest) = o
  rcases o with ⟨⟨⟨_, _⟩, _⟩⟩ | _ | _ <;> rfl

/-- Framed by Content-Length, or bodiless (then either the status never carries a body or nothing
follows the message: otherwise the parser would take what follows for a close-delimited body). -/
theorem parseResponse_serialize (r : Response) (h : r.WF) (hp : r.ParseBack) (rest : Bytes)
    (hcl : r.headers.get hContentLength = some (natToBytes r.body.length) ∨
      (r.body = [] ∧ r.headers.get hContentLength = none ∧ (noBodyStatus r.status = true ∨ rest = []))) :
    parseResponse flatSource (serializeResponse r ++ rest) =
      .ok (⟨r.version, r.status, r.headers.sorted, r.body⟩, pad r ++ rest) := by
  have hte := hp.not_chunked
  rw [parseResponse_serialize_upto_body r h hp rest]
  simp only [parseBody, sorted_get_m, hte, if_false]
  rcases hcl with hcl | ⟨hb, hcl, hn | hn⟩
  · simp only [hcl, parseUsize_natToBytes_m _ hp.body_len, flatSource, flatReadExact]
    by_cases hb : r.body = []
    · simp [hb, bodyPart, pad]
    · simp [hb, bodyPart, pad]
  · simp [hcl, hb, hn, bodyPart, pad]
  · subst hn
    by_cases hs : noBodyStatus r.status = true
    · simp [hcl, hb, hs, bodyPart, pad]
    · have := readRest_flat (0 + 1) [] [] (by simp)
      simp only [flatSource] at this
      simp [hcl, hb, hs, bodyPart, pad, flatSource, this]

/-- Close-delimited: without Content-Length (and not chunked) and with a status that may carry a
body, `from_stream` takes everything up to end of stream as the body — the serialiser's CRLF pad
and whatever follows included. -/
theorem parseResponse_serialize_close (r : Response) (h : r.WF) (hp : r.ParseBack) (rest : Bytes)
    (hcl : r.headers.get hContentLength = none) (hs : noBodyStatus r.status = false) :
    parseResponse flatSource (serializeResponse r ++ rest) =
      .ok (⟨r.version, r.status, r.headers.sorted, bodyPart r ++ rest⟩, []) := by
  have hte := hp.not_chunked
  rw [parseResponse_serialize_upto_body r h hp rest]
  have := readRest_flat ((bodyPart r ++ rest).length + 1) (bodyPart r ++ rest) [] (by omega)
  simp only [flatSource, List.length_append, List.nil_append] at this
  simp [parseBody, sorted_get_m, hte, hcl, hs, flatSource, this]

end Humphrey.Http
