import HumphreyModel.Proofs.PoolBasic
import HumphreyModel.Spec.Pool

/-!
Inductive invariants of the pool's transition system (C08), proved for every reachable state.
-/
namespace Humphrey.Pool

def holdsC (k : Nat) (p : Phase) : Nat := p.holds.count k
def runsC (k : Nat) (p : Phase) : Nat := p.runs.count k

theorem queuedTasks_append (q : List Msg) (m : Msg) : queuedTasks (q ++ [m]) = queuedTasks q ++ taskOf m := by
  simp [queuedTasks]

theorem queuedTasks_cons (q : List Msg) (m : Msg) : queuedTasks (m :: q) = taskOf m ++ queuedTasks q := by
  simp [queuedTasks]

/-- Where every task is: the counting invariant behind exactly-once and FIFO. -/
structure InvCount (s : State) : Prop where
  fifo : s.dequeued ++ queuedTasks s.queue = s.submitted
  deq : ∀ k, s.dequeued.count k = sumBy (holdsC k) s.workers + s.finished.count k + s.panicked.count k
  sta : ∀ k, s.started.count k = sumBy (runsC k) s.workers + s.finished.count k + s.panicked.count k
  sub : s.submitted = List.range s.submitted.length
  cre : s.life = .created → s.workers = []

theorem invCount_init : InvCount init := by
  constructor <;> simp [init, queuedTasks, sumBy]

theorem sumBy_set' {g : Phase → Nat} {ws : List Phase} {w : Nat} {p : Phase} (q : Phase)
    (h : ws[w]? = some p) : sumBy g (ws.set w q) = sumBy g ws + g q - g p := by
  have := sumBy_set (g := g) q h; omega

/-- closes the `deq`/`sta` goals of a step that rewrites one worker's phase -/
macro "count_step" h:ident hw:ident : tactic => `(tactic| (
  intro k
  have h1 := ($h).deq k
  have h2 := ($h).sta k
  have p1 := sumBy_pos_of_mem (g := holdsC k) $hw
  have p2 := sumBy_pos_of_mem (g := runsC k) $hw
  simp [setW, sumBy_set' _ $hw, holdsC, runsC, Phase.holds, Phase.runs, List.count_append, List.count_singleton, taskOf] at *
  try omega))

theorem invCount_step {c : Cfg} {s s' : State} {l : Label} (h : InvCount s) (st : Step c s l s') : InvCount s' := by
  cases st with
  | start h1 h2 =>
    have hw := h.cre h1
    refine ⟨h.fifo, ?_, ?_, h.sub, by simp⟩
    · intro k; have := h.deq k; simp [hw, sumBy, sumBy_replicate, holdsC, Phase.holds] at *; omega
    · intro k; have := h.sta k; simp [hw, sumBy, sumBy_replicate, runsC, Phase.runs] at *; omega
  | submit h1 h2 =>
    refine ⟨?_, h.deq, h.sta, ?_, by simp [h1]⟩
    · simp [queuedTasks_append, taskOf, ← List.append_assoc, h.fifo]
    · have := h.sub; simp [List.range_succ]; exact this
  | stop h1 h2 =>
    refine ⟨?_, h.deq, h.sta, h.sub, by simp⟩
    simp [queuedTasks_append, taskOf, h.fifo]
  | recRecv h1 h2 => exact ⟨h.fifo, h.deq, h.sta, h.sub, h.cre⟩
  | recJoin h1 h2 => exact ⟨h.fifo, h.deq, h.sta, h.sub, h.cre⟩
  | dropBegin h1 h2 => exact ⟨h.fifo, h.deq, h.sta, h.sub, h.cre⟩
  | dropDetachRecovery h1 => exact ⟨h.fifo, h.deq, h.sta, h.sub, h.cre⟩
  | dropDetach h1 h2 => exact ⟨h.fifo, h.deq, h.sta, h.sub, h.cre⟩
  | dropSender h1 => exact ⟨h.fifo, h.deq, h.sta, h.sub, by simp⟩
  | reqLock hw =>
    refine ⟨h.fifo, ?_, ?_, h.sub, fun hl => by simp [h.cre hl] at hw⟩ <;> count_step h hw
  | lock hw h2 =>
    refine ⟨h.fifo, ?_, ?_, h.sub, fun hl => by simp [h.cre hl] at hw⟩ <;> count_step h hw
  | @recvMsg w m q hw hq =>
    refine ⟨?_, ?_, ?_, h.sub, fun hl => by simp [h.cre hl] at hw⟩
    · have := h.fifo; simp [hq, queuedTasks_cons] at this; simpa [setW] using this
    · cases m <;> count_step h hw
    · cases m <;> count_step h hw
  | recvErr hw hq h3 =>
    refine ⟨h.fifo, ?_, ?_, h.sub, fun hl => by simp [h.cre hl] at hw⟩ <;> count_step h hw
  | @unlock w r hw h2 =>
    refine ⟨h.fifo, ?_, ?_, h.sub, fun hl => by simp [h.cre hl] at hw⟩ <;>
      (rcases r with _ | _ | _ <;> count_step h hw)
  | run hw =>
    refine ⟨h.fifo, ?_, ?_, h.sub, fun hl => by simp [h.cre hl] at hw⟩ <;> count_step h hw
  | exitErr hw =>
    refine ⟨h.fifo, ?_, ?_, h.sub, fun hl => by simp [h.cre hl] at hw⟩ <;> count_step h hw
  | exitShutdown hw =>
    refine ⟨h.fifo, ?_, ?_, h.sub, fun hl => by simp [h.cre hl] at hw⟩ <;> count_step h hw
  | finish hw h2 =>
    refine ⟨h.fifo, ?_, ?_, h.sub, fun hl => by simp [h.cre hl] at hw⟩ <;> count_step h hw
  | panic hw h2 =>
    refine ⟨h.fifo, ?_, ?_, h.sub, fun hl => by simp [h.cre hl] at hw⟩ <;> count_step h hw
  | markerSend hw =>
    refine ⟨h.fifo, ?_, ?_, h.sub, fun hl => by simp [h.cre hl] at hw⟩ <;> count_step h hw
  | recRespawn h1 hw =>
    refine ⟨h.fifo, ?_, ?_, h.sub, fun hl => by simp [h.cre hl] at hw⟩ <;> count_step h hw


theorem InvCount.of_reachable {c : Cfg} {s : State} (h : Reachable c s) : InvCount s :=
  Reachable.induct invCount_init (fun _ _ _ hs st => invCount_step hs st) h

/-! ### Structure: worker table, receiver mutex, recovery bookkeeping -/

def Phase.holdsLock : Phase → Bool
  | .inRecv | .got _ => true
  | _ => false

def Rec.busyWith : Rec → Wid → Bool
  | .joining w, v => w == v
  | .respawning w, v => w == v
  | _, _ => false

/-- The pool was never started: there are no threads and nothing was ever queued. -/
def NeverStarted (s : State) : Prop :=
  s.workers = [] ∧ s.recov = .absent ∧ s.queue = [] ∧ s.submitted = [] ∧ s.recChan = [] ∧
    s.life ≠ .started ∧ s.life ≠ .stopped

structure InvStruct (c : Cfg) (s : State) : Prop where
  shape : (s.life ≠ .created ∧ s.workers.length = c.n ∧ s.recov ≠ .absent) ∨ NeverStarted s
  /-- the mutex owner is in `recv` or has just come out of it … -/
  lockOwner : ∀ w, s.rxLock = some w → ∃ p, s.workers[w]? = some p ∧ p.holdsLock = true
  /-- … and nobody else is -/
  lockHeld : ∀ w p, s.workers[w]? = some p → p.holdsLock = true → s.rxLock = some w
  /-- every dead worker is known to the recovery thread exactly once -/
  recv : ∀ w, s.recChan.count w + (if s.recov.busyWith w then 1 else 0) = (if s.workers[w]? = some .dead then 1 else 0)
  recAlive : s.recov ≠ .ended

theorem invStruct_init (c : Cfg) : InvStruct c init := by
  constructor <;> simp [init, Rec.busyWith, NeverStarted]

theorem getElem?_set_workers {ws : List Phase} {w v : Nat} {p q : Phase} (hw : ws[w]? = some p) :
    (ws.set w q)[v]? = if w = v then some q else ws[v]? := by
  have hlt : w < ws.length := by
    rcases Nat.lt_or_ge w ws.length with h | h
    · exact h
    · simp [List.getElem?_eq_none h] at hw
  simp [List.getElem?_set, hlt]


theorem shape_of_worker {c : Cfg} {s : State} {w : Nat} {p : Phase} (h : InvStruct c s) (hw : s.workers[w]? = some p) :
    s.life ≠ .created ∧ s.workers.length = c.n ∧ s.recov ≠ .absent := by
  rcases h.shape with h1 | h1
  · exact h1
  · simp [h1.1] at hw

/-- a worker step `p ↦ q` of worker `w` that leaves the lock, the recovery channel and the recovery thread alone
and does not move between lock-holding / dead and the rest -/
theorem invStruct_setW {c : Cfg} {s : State} {w : Nat} {p q : Phase} (h : InvStruct c s)
    (hw : s.workers[w]? = some p) (hl : q.holdsLock = p.holdsLock) (hp : p ≠ .dead) (hq : q ≠ .dead) :
    InvStruct c (setW s w q) := by
  have sh := shape_of_worker h hw
  refine ⟨.inl (by simpa [setW] using sh), ?_, ?_, ?_, h.recAlive⟩
  · intro v hv
    obtain ⟨p', hp', hh⟩ := h.lockOwner v hv
    simp only [setW, getElem?_set_workers hw]
    by_cases e : w = v
    · subst e; simp [hw] at hp'; subst hp'; exact ⟨q, by simp, by rw [hl]; exact hh⟩
    · exact ⟨p', by simp [e, hp'], hh⟩
  · intro v p' hv hh
    simp only [setW, getElem?_set_workers hw] at hv
    by_cases e : w = v
    · subst e; simp at hv; subst hv; rw [hl] at hh; exact h.lockHeld w p hw hh
    · simp [e] at hv; exact h.lockHeld v p' hv hh
  · intro v
    have := h.recv v
    simp only [setW, getElem?_set_workers hw]
    by_cases e : w = v
    · subst e; simp [hw, hp] at this; simp [hq, this]
    · simp [e]; exact this


theorem invStruct_step {c : Cfg} {s s' : State} {l : Label} (h : InvStruct c s) (st : Step c s l s') :
    InvStruct c s' := by
  cases st with
  | start h1 h2 =>
    have ns : NeverStarted s := by
      rcases h.shape with h' | h'
      · exact absurd h1 h'.1
      · exact h'
    obtain ⟨hw, hr, hq, hs, hc, _, _⟩ := ns
    refine ⟨.inl (by simp), ?_, ?_, ?_, by simp⟩
    · intro v hv; obtain ⟨p, hp, _⟩ := h.lockOwner v hv; simp [hw] at hp
    · intro v p hv hh
      simp [List.getElem?_replicate] at hv
      obtain ⟨_, rfl⟩ := hv
      simp [Phase.holdsLock] at hh
    · intro v; simp [hc, Rec.busyWith, List.getElem?_replicate]
  | submit h1 h2 =>
    refine ⟨?_, h.lockOwner, h.lockHeld, h.recv, h.recAlive⟩
    rcases h.shape with h' | h'
    · exact .inl h'
    · exact absurd h1 h'.2.2.2.2.2.1
  | stop h1 h2 =>
    refine ⟨?_, h.lockOwner, h.lockHeld, h.recv, h.recAlive⟩
    rcases h.shape with h' | h'
    · exact .inl ⟨by simp, h'.2⟩
    · exact absurd h1 h'.2.2.2.2.2.1
  | reqLock hw => exact invStruct_setW h hw rfl (by simp) (by simp)
  | @lock w hw h2 =>
    have sh := shape_of_worker h hw
    refine ⟨.inl (by simpa [setW] using sh), ?_, ?_, ?_, h.recAlive⟩
    · intro v hv
      simp at hv; subst hv
      exact ⟨.inRecv, by simp [setW, getElem?_set_workers hw], rfl⟩
    · intro v p hv hh
      simp only [setW, getElem?_set_workers hw] at hv
      by_cases e : w = v
      · simp [e]
      · simp [e] at hv; have := h.lockHeld v p hv hh; simp [h2] at this
    · intro v
      have := h.recv v
      simp only [setW, getElem?_set_workers hw]
      by_cases e : w = v
      · subst e; simp [hw] at this; simp [this]
      · simp [e]; exact this
  | @recvMsg w m q hw hq =>
    have := invStruct_setW (q := .got (some m)) h hw rfl (by simp) (by simp)
    exact ⟨.inl (by simpa [setW] using shape_of_worker h hw), this.lockOwner, this.lockHeld, this.recv, this.recAlive⟩
  | recvErr hw hq h3 => exact invStruct_setW h hw rfl (by simp) (by simp)
  | @unlock w r hw h2 =>
    have sh := shape_of_worker h hw
    refine ⟨.inl (by simpa [setW] using sh), ?_, ?_, ?_, h.recAlive⟩
    · intro v hv; simp at hv
    · intro v p hv hh
      simp only [setW, getElem?_set_workers hw] at hv
      by_cases e : w = v
      · subst e; simp at hv; subst hv; simp [Phase.holdsLock] at hh
      · simp [e] at hv; have := h.lockHeld v p hv hh; simp [h2] at this; exact absurd this e
    · intro v
      have := h.recv v
      simp only [setW, getElem?_set_workers hw]
      by_cases e : w = v
      · subst e; simp [hw] at this; simp [this]
      · simp [e]; exact this
  | @run w k hw =>
    have := invStruct_setW (q := .running k) h hw rfl (by simp) (by simp)
    exact ⟨.inl (by simpa [setW] using shape_of_worker h hw), this.lockOwner, this.lockHeld, this.recv, this.recAlive⟩
  | exitErr hw => exact invStruct_setW h hw rfl (by simp) (by simp)
  | exitShutdown hw => exact invStruct_setW h hw rfl (by simp) (by simp)
  | finish hw h2 =>
    have := invStruct_setW (q := .idle) h hw rfl (by simp) (by simp)
    exact ⟨.inl (by simpa [setW] using shape_of_worker h hw), this.lockOwner, this.lockHeld, this.recv, this.recAlive⟩
  | panic hw h2 =>
    have := invStruct_setW (q := .unwinding) h hw rfl (by simp) (by simp)
    exact ⟨.inl (by simpa [setW] using shape_of_worker h hw), this.lockOwner, this.lockHeld, this.recv, this.recAlive⟩
  | @markerSend w hw =>
    have sh := shape_of_worker h hw
    refine ⟨.inl (by simpa [setW] using sh), ?_, ?_, ?_, h.recAlive⟩
    · intro v hv
      obtain ⟨p', hp', hh⟩ := h.lockOwner v hv
      simp only [setW, getElem?_set_workers hw]
      by_cases e : w = v
      · subst e; simp [hw] at hp'; subst hp'; simp [Phase.holdsLock] at hh
      · exact ⟨p', by simp [e, hp'], hh⟩
    · intro v p' hv hh
      simp only [setW, getElem?_set_workers hw] at hv
      by_cases e : w = v
      · subst e; simp at hv; subst hv; simp [Phase.holdsLock] at hh
      · simp [e] at hv; exact h.lockHeld v p' hv hh
    · intro v
      have := h.recv v
      simp only [setW, getElem?_set_workers hw, List.count_append, List.count_singleton]
      by_cases e : w = v
      · subst e; simp [hw] at this; simp [this]
      · have e' : ¬ v = w := fun x => e x.symm
        simp [e]; exact this
  | @recRecv w h1 h2 =>
    refine ⟨?_, h.lockOwner, h.lockHeld, ?_, by simp⟩
    · rcases h.shape with h' | h'
      · exact .inl ⟨h'.1, h'.2.1, by simp⟩
      · simp [h'.2.1] at h1
    · intro v
      have := h.recv v
      simp only [h1, Rec.busyWith] at this
      by_cases e : w = v
      · subst e
        have hpos : 0 < s.recChan.count w := List.count_pos_iff.mpr h2
        simp [Rec.busyWith, List.count_erase_self] at this ⊢
        split at this <;> split <;> simp_all <;> omega
      · have e' : v ≠ w := fun x => e x.symm
        simp [Rec.busyWith, e, List.count_erase_of_ne e']; simpa using this
  | @recJoin w h1 hw =>
    refine ⟨?_, h.lockOwner, h.lockHeld, ?_, by simp⟩
    · rcases h.shape with h' | h'
      · exact .inl ⟨h'.1, h'.2.1, by simp⟩
      · simp [h'.2.1] at h1
    · intro v; have := h.recv v; simpa [h1, Rec.busyWith] using this
  | @recRespawn w h1 hw =>
    have sh := shape_of_worker h hw
    refine ⟨.inl (by simp [setW]; exact ⟨sh.1, sh.2.1⟩), ?_, ?_, ?_, by simp⟩
    · intro v hv
      obtain ⟨p', hp', hh⟩ := h.lockOwner v hv
      simp only [setW, getElem?_set_workers hw]
      by_cases e : w = v
      · subst e; simp [hw] at hp'; subst hp'; simp [Phase.holdsLock] at hh
      · exact ⟨p', by simp [e, hp'], hh⟩
    · intro v p' hv hh
      simp only [setW, getElem?_set_workers hw] at hv
      by_cases e : w = v
      · subst e; simp at hv; subst hv; simp [Phase.holdsLock] at hh
      · simp [e] at hv; exact h.lockHeld v p' hv hh
    · intro v
      have := h.recv v
      simp only [setW, getElem?_set_workers hw]
      by_cases e : w = v
      · subst e; simp [hw, h1, Rec.busyWith] at this; simp [Rec.busyWith, this]
      · simp [e, Rec.busyWith]; simpa [h1, Rec.busyWith, e] using this
  | dropBegin h1 h2 => exact ⟨h.shape, h.lockOwner, h.lockHeld, h.recv, h.recAlive⟩
  | dropDetachRecovery h1 => exact ⟨h.shape, h.lockOwner, h.lockHeld, h.recv, h.recAlive⟩
  | dropDetach h1 h2 => exact ⟨h.shape, h.lockOwner, h.lockHeld, h.recv, h.recAlive⟩
  | dropSender h1 =>
    refine ⟨?_, h.lockOwner, h.lockHeld, h.recv, h.recAlive⟩
    rcases h.shape with h' | h'
    · exact .inl ⟨by simp, h'.2⟩
    · exact .inr ⟨h'.1, h'.2.1, h'.2.2.1, h'.2.2.2.1, h'.2.2.2.2.1, by simp, by simp⟩

theorem InvStruct.of_reachable {c : Cfg} {s : State} (h : Reachable c s) : InvStruct c s :=
  Reachable.induct (invStruct_init c) (fun _ _ _ hs st => invStruct_step hs st) h


/-! ### The model seen through the specification's `View` -/

def viewOf (c : Cfg) (s : State) : PoolSpec.View where
  n := c.n
  submitted := s.submitted
  queued := queuedTasks s.queue
  held := heldTasks s.workers
  running := runningTasks s.workers
  finished := s.finished
  panicked := s.panicked
  startedLog := s.started
  dequeuedLog := s.dequeued
  workers := s.workers.length
  exited := exitedCount s.workers
  usable := usableCount s.workers
  callerDone := s.caller == .done

theorem length_runningTasks (ws : List Phase) : (runningTasks ws).length = runningCount ws := by
  induction ws with
  | nil => simp [runningTasks, runningCount]
  | cons p ps ih =>
    simp only [runningTasks, runningCount] at ih ⊢
    cases p <;> simp [List.flatMap_cons, Phase.runs, Phase.isRunning, List.filter_cons, ih]

theorem workers_length_le {c : Cfg} {s : State} (h : InvStruct c s) : s.workers.length ≤ c.n := by
  rcases h.shape with h' | h'
  · omega
  · simp [h'.1]

end Humphrey.Pool
