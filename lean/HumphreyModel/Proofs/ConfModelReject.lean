import HumphreyModel.Proofs.ConfModelTotal

/-!
C15, part C: "bad value ⇒ rejected", in the direct direction, at whole-configuration level.
`from_tree` validates in this order: port, threads, timeout, threads ≠ 0, blacklist file, blacklist
mode, log level, log console, cache size, cache time, routes of the default host, hosts. A key with a
rejected value gives its own error provided the keys validated before it are fine.
-/
namespace Humphrey.Conf

theorem cfgrt_gop_bad {α ε : Type} {m : Map} {key : Str} {parse : Str → Option α}
    (h : KeyBad m key parse) (d : α) (e : ε) : getOptionalParsed m key d parse e = .err e := by
  obtain ⟨n, hn, hp⟩ := h
  simp [getOptionalParsed, hn, hp]

theorem cfgrt_gop_fine {α ε : Type} {m : Map} {key : Str} {parse : Str → Option α}
    (h : KeyFine m key parse) (d : α) (e : ε) : ∃ a, getOptionalParsed m key d parse e = .ok a := by
  unfold getOptionalParsed
  cases hg : m.get key with
  | none => exact ⟨d, rfl⟩
  | some n =>
    obtain ⟨a, ha⟩ := Option.isSome_iff_exists.mp (h n hg)
    exact ⟨a, by simp [ha]⟩

/-- With fine numbers the three numeric getters succeed and the thread count is positive. -/
theorem cfgrt_numbers {m : Map} (h : NumbersFine m) :
    ∃ p t to, getOptionalParsed m (k "server.port") 80 (parseUnsigned 16) CfgErr.port = .ok p ∧
      getOptionalParsed m (k "server.threads") 32 (parseUnsigned 64) CfgErr.threads = .ok t ∧
      getOptionalParsed m (k "server.timeout") 0 (parseUnsigned 64) CfgErr.timeout = .ok to ∧
      ¬ t < 1 := by
  obtain ⟨p, hp⟩ := cfgrt_gop_fine h.port 80 CfgErr.port
  obtain ⟨to, hto⟩ := cfgrt_gop_fine h.timeout 0 CfgErr.timeout
  obtain ⟨t, ht⟩ := cfgrt_gop_fine h.threads 32 CfgErr.threads
  refine ⟨p, t, to, hp, ht, hto, ?_⟩
  unfold getOptionalParsed at ht
  cases hg : m.get (k "server.threads") with
  | none => rw [hg] at ht; cases ht; decide
  | some n =>
    rw [hg] at ht
    simp only at ht
    have h0 := h.threadsPos n hg
    cases hb : n.scalar.bind (parseUnsigned 64) with
    | none => rw [hb] at ht; cases ht
    | some a =>
      rw [hb] at ht h0
      cases ht
      intro hlt
      exact h0 (by congr 1; omega)

theorem cfgrt_bad_port {fs : FS} {tree : Node}
    (h : KeyBad (flattenNode [] tree []) (k "server.port") (parseUnsigned 16)) :
    fromTree fs tree = .err .port := by
  unfold fromTree
  simp only [cfgrt_gop_bad h]

theorem cfgrt_bad_threads {fs : FS} {tree : Node}
    (hport : KeyFine (flattenNode [] tree []) (k "server.port") (parseUnsigned 16))
    (h : KeyBad (flattenNode [] tree []) (k "server.threads") (parseUnsigned 64)) :
    fromTree fs tree = .err .threads := by
  obtain ⟨p, hp⟩ := cfgrt_gop_fine hport 80 CfgErr.port
  unfold fromTree
  simp only [hp, cfgrt_gop_bad h]

theorem cfgrt_bad_timeout {fs : FS} {tree : Node}
    (hport : KeyFine (flattenNode [] tree []) (k "server.port") (parseUnsigned 16))
    (hthreads : KeyFine (flattenNode [] tree []) (k "server.threads") (parseUnsigned 64))
    (h : KeyBad (flattenNode [] tree []) (k "server.timeout") (parseUnsigned 64)) :
    fromTree fs tree = .err .timeout := by
  obtain ⟨p, hp⟩ := cfgrt_gop_fine hport 80 CfgErr.port
  obtain ⟨t, ht⟩ := cfgrt_gop_fine hthreads 32 CfgErr.threads
  unfold fromTree
  simp only [hp, ht, cfgrt_gop_bad h]

theorem cfgrt_zero_threads {fs : FS} {tree : Node} {n : Node}
    (hport : KeyFine (flattenNode [] tree []) (k "server.port") (parseUnsigned 16))
    (htimeout : KeyFine (flattenNode [] tree []) (k "server.timeout") (parseUnsigned 64))
    (hg : (flattenNode [] tree []).get (k "server.threads") = some n)
    (h0 : n.scalar.bind (parseUnsigned 64) = some 0) :
    fromTree fs tree = .err .threadsZero := by
  obtain ⟨p, hp⟩ := cfgrt_gop_fine hport 80 CfgErr.port
  obtain ⟨to, hto⟩ := cfgrt_gop_fine htimeout 0 CfgErr.timeout
  have ht : getOptionalParsed (flattenNode [] tree []) (k "server.threads") 32 (parseUnsigned 64)
      CfgErr.threads = .ok 0 := by
    simp [getOptionalParsed, hg, h0]
  unfold fromTree
  simp only [hp, ht, hto, Nat.lt_one_iff, if_true]

theorem cfgrt_bad_blacklist_file {fs : FS} {tree : Node} {e : CfgErr}
    (hnum : NumbersFine (flattenNode [] tree []))
    (h : loadBlacklist fs (getOwned (flattenNode [] tree []) (k "server.blacklist.file")) = .err e) :
    fromTree fs tree = .err e := by
  obtain ⟨p, t, to, hp, ht, hto, hpos⟩ := cfgrt_numbers hnum
  unfold fromTree
  simp only [hp, ht, hto, if_neg hpos, h]

theorem cfgrt_bad_blacklist_mode {fs : FS} {tree : Node}
    (hnum : NumbersFine (flattenNode [] tree []))
    (hload : ∃ l, loadBlacklist fs (getOwned (flattenNode [] tree []) (k "server.blacklist.file")) = .ok l)
    (h1 : getOptional (flattenNode [] tree []) (k "server.blacklist.mode") (k "block") ≠ k "block")
    (h2 : getOptional (flattenNode [] tree []) (k "server.blacklist.mode") (k "block") ≠ k "forbidden") :
    fromTree fs tree = .err .blacklistMode := by
  obtain ⟨p, t, to, hp, ht, hto, hpos⟩ := cfgrt_numbers hnum
  obtain ⟨l, hl⟩ := hload
  unfold fromTree
  simp only [hp, ht, hto, if_neg hpos, hl, if_neg h1, if_neg h2]

/-- With a fine blacklist the mode match succeeds. -/
theorem cfgrt_blacklist {fs : FS} {m : Map} (h : BlacklistFine fs m) :
    ∃ l mode, loadBlacklist fs (getOwned m (k "server.blacklist.file")) = .ok l ∧
      (if getOptional m (k "server.blacklist.mode") (k "block") = k "block" then some BlacklistMode.block
       else if getOptional m (k "server.blacklist.mode") (k "block") = k "forbidden"
         then some BlacklistMode.forbidden else none) = some mode := by
  obtain ⟨l, hl⟩ := h.loads
  by_cases h1 : getOptional m (k "server.blacklist.mode") (k "block") = k "block"
  · exact ⟨l, .block, hl, by rw [if_pos h1]⟩
  · rcases h.mode with h2 | h2
    · exact absurd h2 h1
    · exact ⟨l, .forbidden, hl, by rw [if_neg h1, if_pos h2]⟩

theorem cfgrt_bad_log_level {fs : FS} {tree : Node}
    (hnum : NumbersFine (flattenNode [] tree []))
    (hbl : BlacklistFine fs (flattenNode [] tree []))
    (h : KeyBad (flattenNode [] tree []) (k "server.log.level") parseLogLevel) :
    fromTree fs tree = .err .logLevel := by
  obtain ⟨p, t, to, hp, ht, hto, hpos⟩ := cfgrt_numbers hnum
  obtain ⟨l, mode, hl, hm⟩ := cfgrt_blacklist hbl
  unfold fromTree
  simp only [hp, ht, hto, if_neg hpos, hl, hm, cfgrt_gop_bad h]

theorem cfgrt_bad_log_console {fs : FS} {tree : Node}
    (hnum : NumbersFine (flattenNode [] tree []))
    (hbl : BlacklistFine fs (flattenNode [] tree []))
    (hlevel : KeyFine (flattenNode [] tree []) (k "server.log.level") parseLogLevel)
    (h : KeyBad (flattenNode [] tree []) (k "server.log.console") parseBool) :
    fromTree fs tree = .err .logConsole := by
  obtain ⟨p, t, to, hp, ht, hto, hpos⟩ := cfgrt_numbers hnum
  obtain ⟨l, mode, hl, hm⟩ := cfgrt_blacklist hbl
  obtain ⟨lv, hlv⟩ := cfgrt_gop_fine hlevel LogLevel.warn CfgErr.logLevel
  unfold fromTree
  simp only [hp, ht, hto, if_neg hpos, hl, hm, hlv, cfgrt_gop_bad h]

theorem cfgrt_bad_cache_size {fs : FS} {tree : Node}
    (hnum : NumbersFine (flattenNode [] tree []))
    (hbl : BlacklistFine fs (flattenNode [] tree []))
    (hlevel : KeyFine (flattenNode [] tree []) (k "server.log.level") parseLogLevel)
    (hconsole : KeyFine (flattenNode [] tree []) (k "server.log.console") parseBool)
    (h : KeyBad (flattenNode [] tree []) (k "server.cache.size") (parseUnsigned 64)) :
    fromTree fs tree = .err .cacheSize := by
  obtain ⟨p, t, to, hp, ht, hto, hpos⟩ := cfgrt_numbers hnum
  obtain ⟨l, mode, hl, hm⟩ := cfgrt_blacklist hbl
  obtain ⟨lv, hlv⟩ := cfgrt_gop_fine hlevel LogLevel.warn CfgErr.logLevel
  obtain ⟨cn, hcn⟩ := cfgrt_gop_fine hconsole true CfgErr.logConsole
  unfold fromTree
  simp only [hp, ht, hto, if_neg hpos, hl, hm, hlv, hcn, cfgrt_gop_bad h]

theorem cfgrt_bad_cache_time {fs : FS} {tree : Node}
    (hnum : NumbersFine (flattenNode [] tree []))
    (hbl : BlacklistFine fs (flattenNode [] tree []))
    (hlevel : KeyFine (flattenNode [] tree []) (k "server.log.level") parseLogLevel)
    (hconsole : KeyFine (flattenNode [] tree []) (k "server.log.console") parseBool)
    (hsize : KeyFine (flattenNode [] tree []) (k "server.cache.size") (parseUnsigned 64))
    (h : KeyBad (flattenNode [] tree []) (k "server.cache.time") (parseUnsigned 64)) :
    fromTree fs tree = .err .cacheTime := by
  obtain ⟨p, t, to, hp, ht, hto, hpos⟩ := cfgrt_numbers hnum
  obtain ⟨l, mode, hl, hm⟩ := cfgrt_blacklist hbl
  obtain ⟨lv, hlv⟩ := cfgrt_gop_fine hlevel LogLevel.warn CfgErr.logLevel
  obtain ⟨cn, hcn⟩ := cfgrt_gop_fine hconsole true CfgErr.logConsole
  obtain ⟨sz, hsz⟩ := cfgrt_gop_fine hsize 0 CfgErr.cacheSize
  unfold fromTree
  simp only [hp, ht, hto, if_neg hpos, hl, hm, hlv, hcn, hsz, cfgrt_gop_bad h]

/-- With all scalar keys fine, `from_tree` is decided by the routes and hosts. -/
theorem cfgrt_scalars_fine {fs : FS} {tree : Node} (h : ScalarsFine fs (flattenNode [] tree [])) :
    ∃ p t to l mode lv cn sz tm,
      getOptionalParsed (flattenNode [] tree []) (k "server.port") 80 (parseUnsigned 16) CfgErr.port = .ok p ∧
      getOptionalParsed (flattenNode [] tree []) (k "server.threads") 32 (parseUnsigned 64) CfgErr.threads = .ok t ∧
      getOptionalParsed (flattenNode [] tree []) (k "server.timeout") 0 (parseUnsigned 64) CfgErr.timeout = .ok to ∧
      ¬ t < 1 ∧
      loadBlacklist fs (getOwned (flattenNode [] tree []) (k "server.blacklist.file")) = .ok l ∧
      (if getOptional (flattenNode [] tree []) (k "server.blacklist.mode") (k "block") = k "block"
         then some BlacklistMode.block
       else if getOptional (flattenNode [] tree []) (k "server.blacklist.mode") (k "block") = k "forbidden"
         then some BlacklistMode.forbidden else none) = some mode ∧
      getOptionalParsed (flattenNode [] tree []) (k "server.log.level") LogLevel.warn parseLogLevel CfgErr.logLevel = .ok lv ∧
      getOptionalParsed (flattenNode [] tree []) (k "server.log.console") true parseBool CfgErr.logConsole = .ok cn ∧
      getOptionalParsed (flattenNode [] tree []) (k "server.cache.size") 0 (parseUnsigned 64) CfgErr.cacheSize = .ok sz ∧
      getOptionalParsed (flattenNode [] tree []) (k "server.cache.time") 0 (parseUnsigned 64) CfgErr.cacheTime = .ok tm := by
  obtain ⟨p, t, to, hp, ht, hto, hpos⟩ := cfgrt_numbers h.numbers
  obtain ⟨l, mode, hl, hm⟩ := cfgrt_blacklist h.blacklist
  obtain ⟨lv, hlv⟩ := cfgrt_gop_fine h.level LogLevel.warn CfgErr.logLevel
  obtain ⟨cn, hcn⟩ := cfgrt_gop_fine h.console true CfgErr.logConsole
  obtain ⟨sz, hsz⟩ := cfgrt_gop_fine h.size 0 CfgErr.cacheSize
  obtain ⟨tm, htm⟩ := cfgrt_gop_fine h.time 0 CfgErr.cacheTime
  exact ⟨p, t, to, l, mode, lv, cn, sz, tm, hp, ht, hto, hpos, hl, hm, hlv, hcn, hsz, htm⟩

theorem cfgrt_bad_default_routes {fs : FS} {tree : Node} {e : CfgErr}
    (hs : ScalarsFine fs (flattenNode [] tree []))
    (h : parseRoutes tree.sectionChildren = .err e) : fromTree fs tree = .err e := by
  obtain ⟨p, t, to, l, mode, lv, cn, sz, tm, hp, ht, hto, hpos, hl, hm, hlv, hcn, hsz, htm⟩ :=
    cfgrt_scalars_fine hs
  unfold fromTree
  simp only [hp, ht, hto, if_neg hpos, hl, hm, hlv, hcn, hsz, htm, h]

theorem cfgrt_bad_hosts {fs : FS} {tree : Node} {e : CfgErr} {rs : List RouteConfig}
    (hs : ScalarsFine fs (flattenNode [] tree []))
    (hr : parseRoutes tree.sectionChildren = .ok rs)
    (h : parseHosts tree.sectionChildren = .err e) : fromTree fs tree = .err e := by
  obtain ⟨p, t, to, l, mode, lv, cn, sz, tm, hp, ht, hto, hpos, hl, hm, hlv, hcn, hsz, htm⟩ :=
    cfgrt_scalars_fine hs
  unfold fromTree
  simp only [hp, ht, hto, if_neg hpos, hl, hm, hlv, hcn, hsz, htm, hr, h]

/-! ### a faulty route anywhere in the file -/

/-- The routes before the faulty one are fine. -/
theorem cfgrt_parseRoutes_err_at {pre rest inner : List Node} {wild : Str} {e : CfgErr}
    (hpre : ∃ rs, parseRoutes pre = .ok rs)
    (h : parseRoute wild (flattenList [] inner []) = .err e) :
    parseRoutes (pre ++ .route wild inner :: rest) = .err e := by
  induction pre with
  | nil => simp [parseRoutes, h]
  | cons n pre ih =>
    obtain ⟨rs, hrs⟩ := hpre
    cases n with
    | route w i =>
      simp only [parseRoutes] at hrs
      cases h1 : parseRoute w (flattenList [] i []) with
      | ok r1 =>
        rw [h1] at hrs
        cases h2 : parseRoutes pre with
        | ok r2 => simp [parseRoutes, h1, ih ⟨r2, h2⟩]
        | err e2 => rw [h2] at hrs; cases hrs
        | panic => rw [h2] at hrs; cases hrs
      | err e1 => rw [h1] at hrs; cases hrs
      | panic => rw [h1] at hrs; cases hrs
    | number _ _ => simp only [parseRoutes] at hrs; simpa [parseRoutes] using ih ⟨rs, hrs⟩
    | boolean _ _ => simp only [parseRoutes] at hrs; simpa [parseRoutes] using ih ⟨rs, hrs⟩
    | string _ _ => simp only [parseRoutes] at hrs; simpa [parseRoutes] using ih ⟨rs, hrs⟩
    | «section» _ _ => simp only [parseRoutes] at hrs; simpa [parseRoutes] using ih ⟨rs, hrs⟩
    | host _ _ => simp only [parseRoutes] at hrs; simpa [parseRoutes] using ih ⟨rs, hrs⟩

/-- The hosts before the faulty one are fine. -/
theorem cfgrt_parseHosts_err_at {pre rest inner : List Node} {name : Str} {e : CfgErr}
    (hpre : ∃ hs, parseHosts pre = .ok hs)
    (h : parseRoutes inner = .err e) :
    parseHosts (pre ++ .host name inner :: rest) = .err e := by
  induction pre with
  | nil => simp [parseHosts, h]
  | cons n pre ih =>
    obtain ⟨rs, hrs⟩ := hpre
    cases n with
    | host w i =>
      simp only [parseHosts] at hrs
      cases h1 : parseRoutes i with
      | ok r1 =>
        rw [h1] at hrs
        cases h2 : parseHosts pre with
        | ok r2 => simp [parseHosts, h1, ih ⟨r2, h2⟩]
        | err e2 => rw [h2] at hrs; cases hrs
        | panic => rw [h2] at hrs; cases hrs
      | err e1 => rw [h1] at hrs; cases hrs
      | panic => rw [h1] at hrs; cases hrs
    | number _ _ => simp only [parseHosts] at hrs; simpa [parseHosts] using ih ⟨rs, hrs⟩
    | boolean _ _ => simp only [parseHosts] at hrs; simpa [parseHosts] using ih ⟨rs, hrs⟩
    | string _ _ => simp only [parseHosts] at hrs; simpa [parseHosts] using ih ⟨rs, hrs⟩
    | «section» _ _ => simp only [parseHosts] at hrs; simpa [parseHosts] using ih ⟨rs, hrs⟩
    | route _ _ => simp only [parseHosts] at hrs; simpa [parseHosts] using ih ⟨rs, hrs⟩

end Humphrey.Conf
