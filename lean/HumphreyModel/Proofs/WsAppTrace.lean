import HumphreyModel.Proofs.WsApp

/-!
Helper lemmas for C12, part 2: what the normal form of a run (`runEffects`) says about one client.
-/
namespace Humphrey.WsApp
open Humphrey.WsAppSpec

/-- The client an effect is about. -/
def addrOf : Effect → Option Addr
  | .dispatchConnect b => some b
  | .dispatchMessage b _ => some b
  | .dispatchDisconnect b => some b
  | .sendTo b _ => some b
  | .ping b => some b
  | _ => none

theorem concerns_iff {a : Addr} {e : Effect} : concerns a e = true ↔ addrOf e = some a := by
  cases e <;> simp [concerns, addrOf]

theorem isMsgOf_addr {a : Addr} {e : Effect} (h : isMsgOf a e = true) : addrOf e = some a := by
  cases e <;> simp [isMsgOf, msgOf, addrOf] at h ⊢
  rename_i b m
  by_cases hb : b = a <;> simp [hb] at h ⊢

theorem addr_pollEffects {w : Bool} {p : Poll} {e : Effect} (h : e ∈ pollEffects w p) :
    addrOf e = some p.addr := by
  unfold pollEffects at h
  rw [List.mem_append] at h
  rcases h with h | h
  · simp only [List.mem_map] at h
    obtain ⟨m, _, rfl⟩ := h; rfl
  · split at h
    · simp at h; subst h; rfl
    · split at h
      · simp at h; subst h; rfl
      · simp at h

theorem mem_recipients {st order : List Addr} {b : Addr} : b ∈ recipients st order ↔ b ∈ st := by
  unfold recipients
  split
  · rename_i h
    simp only [okOrder, Bool.and_eq_true, List.all_eq_true, decide_eq_true_eq] at h
    exact ⟨fun hb => h.1.2 b hb, fun hb => h.2 b hb⟩
  · rfl

theorem nodup_recipients {st order : List Addr} (h : st.Nodup) : (recipients st order).Nodup := by
  unfold recipients
  split
  · rename_i h'
    simp only [okOrder, Bool.and_eq_true, decide_eq_true_eq] at h'
    exact h'.1.1
  · exact h

theorem mem_deliver {st : List Addr} {o : Out} {e : Effect} (h : e ∈ deliver st o) :
    ∃ b bytes, e = .sendTo b bytes ∧ b ∈ st := by
  cases o with
  | unicast a m =>
    simp only [deliver] at h
    split at h
    · simp at h; exact ⟨a, _, h, by assumption⟩
    · simp at h
  | broadcast m order =>
    simp only [deliver, List.mem_map] at h
    obtain ⟨b, hb, rfl⟩ := h
    exact ⟨b, _, rfl, mem_recipients.1 hb⟩

theorem mem_flush {st : List Addr} {out : List Out} {e : Effect} (h : e ∈ flush st out) :
    ∃ b bytes, e = .sendTo b bytes ∧ b ∈ st := by
  simp only [flush, List.mem_flatMap] at h
  obtain ⟨o, _, ho⟩ := h
  exact mem_deliver ho

/-- Every effect of an iteration is about a client that was connected before it or is admitted in it. -/
theorem addr_iterEffects {st : List Addr} {i : IterInput} (hp : ∀ p ∈ i.polls, p.addr ∈ st) {e : Effect}
    (h : e ∈ iterEffects st i) : ∃ b, addrOf e = some b ∧ (b ∈ st ∨ b ∈ i.incoming) := by
  simp only [iterEffects, List.mem_append, List.mem_flatMap, List.mem_map] at h
  rcases h with (⟨p, hp', he⟩ | ⟨b, hb, rfl⟩) | h
  · exact ⟨p.addr, addr_pollEffects he, Or.inl (hp p hp')⟩
  · exact ⟨b, rfl, Or.inr hb⟩
  · obtain ⟨b, bytes, rfl, hb⟩ := mem_flush h
    refine ⟨b, rfl, ?_⟩
    rcases mem_nextStreams.1 hb with h | h
    · exact Or.inl h.1
    · exact Or.inr h

theorem filterMap_eq_nil_of {α β : Type} {f : α → Option β} : ∀ {l : List α}, (∀ e ∈ l, f e = none) →
    l.filterMap f = []
  | [], _ => rfl
  | x :: l, h => by
    rw [List.filterMap_cons, h x (by simp)]
    exact filterMap_eq_nil_of (fun e he => h e (by simp [he]))

/-! ### Messages -/

theorem filterMap_msgOf_pollEffects (a : Addr) (w : Bool) (p : Poll) :
    (pollEffects w p).filterMap (msgOf a) = if p.addr = a then msgs p.results else [] := by
  unfold pollEffects
  rw [List.filterMap_append]
  have h2 : (if closes p then [Effect.dispatchDisconnect p.addr] else if w then [Effect.ping p.addr] else []).filterMap
      (msgOf a) = [] := by
    apply filterMap_eq_nil_of
    intro e he
    split at he
    · simp at he; subst he; rfl
    · split at he
      · simp at he; subst he; rfl
      · simp at he
  rw [h2, List.append_nil, List.filterMap_map]
  by_cases h : p.addr = a
  · simp only [h, if_true]
    have : (msgOf a ∘ Effect.dispatchMessage a) = some := by
      funext m; simp [msgOf]
    rw [this]; simp
  · simp only [h, if_false]
    apply filterMap_eq_nil_of
    intro m _
    simp [msgOf, h]

theorem filterMap_msgOf_iterEffects (a : Addr) (st : List Addr) (i : IterInput) :
    (iterEffects st i).filterMap (msgOf a) =
      i.polls.flatMap fun p => if p.addr = a then msgs p.results else [] := by
  unfold iterEffects
  rw [List.filterMap_append, List.filterMap_append, List.filterMap_flatMap]
  have h1 : (i.incoming.map Effect.dispatchConnect).filterMap (msgOf a) = [] := by
    apply filterMap_eq_nil_of
    intro e he
    simp only [List.mem_map] at he
    obtain ⟨b, _, rfl⟩ := he; rfl
  have h2 : (flush (nextStreams st i) i.outgoing).filterMap (msgOf a) = [] := by
    apply filterMap_eq_nil_of
    intro e he
    obtain ⟨b, bytes, rfl, _⟩ := mem_flush he; rfl
  rw [h1, h2]
  simp only [List.append_nil]
  congr 1
  funext p
  exact filterMap_msgOf_pollEffects a i.willPing p

theorem messages_runEffects (a : Addr) : ∀ (is : List IterInput) (st : List Addr),
    (runEffects st is).filterMap (msgOf a) = received a is := by
  intro is
  induction is with
  | nil => intro st; simp [runEffects, received, executed]
  | cons i is ih =>
    intro st
    cases hs : i.shutdown
    · simp only [runEffects, hs, Bool.false_eq_true, if_false, List.filterMap_append, ih,
        filterMap_msgOf_iterEffects, received, executed, List.flatMap_cons]
    · simp [runEffects, hs, received, executed, msgOf]

/-! ### Connect -/

theorem count_connect_map (a : Addr) : ∀ (inc : List Addr),
    (inc.map Effect.dispatchConnect).count (.dispatchConnect a) = inc.count a
  | [] => rfl
  | b :: inc => by
    simp only [List.map_cons, List.count_cons, count_connect_map a inc]
    by_cases h : b = a <;> simp [h]

theorem count_connect_iterEffects (a : Addr) (st : List Addr) (i : IterInput) :
    (iterEffects st i).count (.dispatchConnect a) = i.incoming.count a := by
  unfold iterEffects
  rw [List.count_append, List.count_append, count_connect_map]
  have h1 : (i.polls.flatMap (pollEffects i.willPing)).count (.dispatchConnect a) = 0 := by
    apply List.count_eq_zero_of_not_mem
    intro h
    simp only [List.mem_flatMap] at h
    obtain ⟨p, _, he⟩ := h
    unfold pollEffects at he
    simp only [List.mem_append, List.mem_map] at he
    rcases he with ⟨m, _, hm⟩ | he
    · cases hm
    · split at he
      · simp at he
      · split at he <;> simp at he
  have h2 : (flush (nextStreams st i) i.outgoing).count (.dispatchConnect a) = 0 := by
    apply List.count_eq_zero_of_not_mem
    intro h
    obtain ⟨b, bytes, hb, _⟩ := mem_flush h
    cases hb
  rw [h1, h2]; simp

theorem count_connect_runEffects (a : Addr) : ∀ (is : List IterInput) (st : List Addr),
    (runEffects st is).count (.dispatchConnect a) = (admitted is).count a := by
  intro is
  induction is with
  | nil => intro st; simp [runEffects, admitted, executed]
  | cons i is ih =>
    intro st
    cases hs : i.shutdown
    · simp only [runEffects, hs, Bool.false_eq_true, if_false, List.count_append, ih,
        count_connect_iterEffects, admitted, executed, List.flatMap_cons]
    · simp [runEffects, hs, admitted, executed]


/-- All addresses admitted by the given inputs (whether executed or not). -/
def allIncoming (is : List IterInput) : List Addr := is.flatMap (·.incoming)

theorem mem_takeWhile_append {α : Type} {p : α → Bool} : ∀ {L R : List α} {e : α},
    e ∈ (L ++ R).takeWhile p → (e ∈ L) ∨ ((∀ x ∈ L, p x = true) ∧ e ∈ R.takeWhile p)
  | [], R, e, h => Or.inr ⟨by simp, by simpa using h⟩
  | x :: L, R, e, h => by
    simp only [List.cons_append, List.takeWhile_cons] at h
    split at h
    · rename_i hx
      simp only [List.mem_cons] at h
      rcases h with rfl | h
      · exact Or.inl (by simp)
      · rcases mem_takeWhile_append h with h | ⟨h1, h2⟩
        · exact Or.inl (by simp [h])
        · refine Or.inr ⟨?_, h2⟩
          intro y hy
          simp only [List.mem_cons] at hy
          rcases hy with rfl | hy
          · exact hx
          · exact h1 y hy
    · simp at h

theorem mem_of_mem_takeWhile' {α : Type} {p : α → Bool} {L : List α} {e : α} (h : e ∈ L.takeWhile p) : e ∈ L := by
  have := mem_takeWhile_append (L := L) (R := []) (e := e) (by simpa using h)
  rcases this with h | ⟨_, h⟩
  · exact h
  · simp at h

theorem runOk'_cons {st : List Addr} {i : IterInput} {is : List IterInput} (hs : i.shutdown = false)
    (h : RunOk' st (i :: is)) :
    (i.polls.map (·.addr)).Nodup ∧ (∀ p ∈ i.polls, p.addr ∈ st) ∧ RunOk' (nextStreams st i) is := by
  simp only [RunOk', hs, Bool.false_eq_true, false_or] at h
  obtain ⟨hnd, hmem, _, _⟩ := (inputsOk_iff (s := { streams := st }) hs).1 h.1
  exact ⟨hnd, hmem, h.2⟩

theorem before_runEffects (a : Addr) : ∀ (is : List IterInput) (st : List Addr), a ∉ st → RunOk' st is →
    ∀ e ∈ (runEffects st is).takeWhile (· != .dispatchConnect a), isMsgOf a e = false := by
  intro is
  induction is with
  | nil => intro st _ _ e he; simp [runEffects] at he
  | cons i is ih =>
    intro st hst hok e he
    cases hs : i.shutdown
    · obtain ⟨_, hmem, hnext⟩ := runOk'_cons hs hok
      simp only [runEffects, hs, Bool.false_eq_true, if_false] at he
      rcases mem_takeWhile_append he with h | ⟨hall, h⟩
      · -- an effect of this iteration that comes before the connect dispatch (if there is one)
        by_cases hinc : a ∈ i.incoming
        · -- it is in the poll part or the connect part
          unfold iterEffects at he
          rw [List.append_assoc, List.append_assoc] at he
          rcases mem_takeWhile_append he with h' | ⟨_, h'⟩
          · simp only [List.mem_flatMap] at h'
            obtain ⟨p, hp, hep⟩ := h'
            cases hm : isMsgOf a e
            · rfl
            · have := (addr_pollEffects hep).symm.trans (isMsgOf_addr hm)
              simp at this
              exact absurd (this ▸ hmem p hp) hst
          · rcases mem_takeWhile_append h' with h'' | ⟨hall, _⟩
            · simp only [List.mem_map] at h''
              obtain ⟨b, _, rfl⟩ := h''; rfl
            · have := hall (.dispatchConnect a) (by simp [hinc])
              simp at this
        · cases hm : isMsgOf a e
          · rfl
          · obtain ⟨b, hb, hmem'⟩ := addr_iterEffects hmem h
            have := hb.symm.trans (isMsgOf_addr hm)
            simp at this
            subst this
            rcases hmem' with h1 | h1
            · exact absurd h1 hst
            · exact absurd h1 hinc
      · -- the connect dispatch is not in this iteration
        have hinc : a ∉ i.incoming := by
          intro hinc
          have := hall (.dispatchConnect a) (by simp [iterEffects, hinc])
          simp at this
        have hnot : a ∉ nextStreams st i := by
          intro hn
          rcases mem_nextStreams.1 hn with h1 | h1
          · exact hst h1.1
          · exact hinc h1
        exact ih _ hnot hnext e h
    · simp only [runEffects, hs, if_true] at he
      have := mem_of_mem_takeWhile' he
      simp at this; subst this; rfl

/-! ### Flush -/

theorem deliver_unicast (st : List Addr) (a : Addr) (m : Msg) :
    deliver st (.unicast a m) = if a ∈ st then [.sendTo a (frameOf m)] else [] := rfl

theorem count_sendTo_map (a : Addr) (bytes : WsFrame.Bytes) : ∀ (l : List Addr),
    (l.map (Effect.sendTo · bytes)).count (.sendTo a bytes) = l.count a
  | [] => rfl
  | b :: l => by
    simp only [List.map_cons, List.count_cons, count_sendTo_map a bytes l]
    by_cases h : b = a <;> simp [h]

theorem deliver_broadcast_count {st : List Addr} (hn : st.Nodup) (m : Msg) (order : List Addr) (a : Addr) :
    (deliver st (.broadcast m order)).count (.sendTo a (frameOf m)) = if a ∈ st then 1 else 0 := by
  simp only [deliver]
  rw [count_sendTo_map, (nodup_recipients hn).count]
  simp only [mem_recipients]

/-! ### Shutdown -/

theorem runEffects_shutdown : ∀ (pre : List IterInput) (i : IterInput) (post : List IterInput) (st : List Addr),
    (∀ j ∈ pre, j.shutdown = false) → i.shutdown = true →
    runEffects st (pre ++ i :: post) = runEffects st pre ++ [.exit]
  | [], i, post, st, _, hi => by simp [runEffects, hi]
  | j :: pre, i, post, st, hpre, hi => by
    have hj : j.shutdown = false := hpre j (by simp)
    simp only [List.cons_append, runEffects, hj, Bool.false_eq_true, if_false, List.append_assoc]
    rw [runEffects_shutdown pre i post _ (fun k hk => hpre k (by simp [hk])) hi]

theorem exit_not_mem_runEffects : ∀ (pre : List IterInput) (st : List Addr),
    (∀ j ∈ pre, j.shutdown = false) → RunOk' st pre →
    Effect.exit ∉ runEffects st pre
  | [], st, _, _ => by simp [runEffects]
  | j :: pre, st, hpre, hok => by
    have hj : j.shutdown = false := hpre j (by simp)
    obtain ⟨_, hmem, hnext⟩ := runOk'_cons hj hok
    simp only [runEffects, hj, Bool.false_eq_true, if_false, List.mem_append, not_or]
    refine ⟨?_, exit_not_mem_runEffects pre _ (fun k hk => hpre k (by simp [hk])) hnext⟩
    intro h
    obtain ⟨b, hb, _⟩ := addr_iterEffects hmem h
    simp [addrOf] at hb


/-! ### Disconnect -/

/-- The closing polls of `a` in an iteration. -/
def closers (a : Addr) (i : IterInput) : List Poll := i.polls.filter fun p => p.addr == a && closes p

theorem count_dd_pollEffects (a : Addr) (w : Bool) (p : Poll) :
    (pollEffects w p).count (.dispatchDisconnect a) = if (p.addr == a && closes p) = true then 1 else 0 := by
  unfold pollEffects
  rw [List.count_append]
  have h1 : ((msgs p.results).map (Effect.dispatchMessage p.addr)).count (.dispatchDisconnect a) = 0 := by
    apply List.count_eq_zero_of_not_mem
    simp
  rw [h1]
  by_cases hc : closes p = true
  · by_cases ha : p.addr = a
    · simp [hc, ha]
    · simp [hc, ha]
  · cases w <;> simp [hc]

theorem count_dd_polls (a : Addr) (w : Bool) : ∀ (ps : List Poll),
    (ps.flatMap (pollEffects w)).count (.dispatchDisconnect a) =
      (ps.filter fun p => p.addr == a && closes p).length
  | [] => rfl
  | p :: ps => by
    rw [List.flatMap_cons, List.count_append, count_dd_pollEffects, count_dd_polls a w ps, List.filter_cons]
    split <;> simp <;> omega

theorem count_dd_iterEffects (a : Addr) (st : List Addr) (i : IterInput) :
    (iterEffects st i).count (.dispatchDisconnect a) = (closers a i).length := by
  unfold iterEffects closers
  rw [List.count_append, List.count_append, count_dd_polls]
  have h1 : (i.incoming.map Effect.dispatchConnect).count (.dispatchDisconnect a) = 0 := by
    apply List.count_eq_zero_of_not_mem
    simp
  have h2 : (flush (nextStreams st i) i.outgoing).count (.dispatchDisconnect a) = 0 := by
    apply List.count_eq_zero_of_not_mem
    intro h
    obtain ⟨b, bytes, hb, _⟩ := mem_flush h
    cases hb
  rw [h1, h2]; simp

theorem count_dd_runEffects (a : Addr) : ∀ (is : List IterInput) (st : List Addr),
    (runEffects st is).count (.dispatchDisconnect a) = closings a is := by
  intro is
  induction is with
  | nil => intro st; simp [runEffects, closings, executed]
  | cons i is ih =>
    intro st
    cases hs : i.shutdown
    · simp only [runEffects, hs, Bool.false_eq_true, if_false, List.count_append, ih,
        count_dd_iterEffects, closings, executed, List.map_cons, List.sum_cons, closers]
    · simp [runEffects, hs, closings, executed]

theorem closers_length_le_one {a : Addr} {i : IterInput} (hnd : (i.polls.map (·.addr)).Nodup) :
    (closers a i).length ≤ 1 := by
  unfold closers
  generalize i.polls = ps at hnd
  induction ps with
  | nil => simp
  | cons p ps ih =>
    simp only [List.map_cons, List.nodup_cons] at hnd
    rw [List.filter_cons]
    split
    · rename_i h
      simp only [Bool.and_eq_true, beq_iff_eq] at h
      have : ps.filter (fun p => p.addr == a && closes p) = [] := by
        rw [List.filter_eq_nil_iff]
        intro q hq hq'
        simp only [Bool.and_eq_true, beq_iff_eq] at hq'
        exact hnd.1 (by rw [h.1, ← hq'.1]; exact List.mem_map_of_mem hq)
      simp [this]
    · exact ih hnd.2

theorem closers_eq_nil_of_closedIn {a : Addr} {i : IterInput} (h : closedIn i a = false) : closers a i = [] := by
  unfold closers
  rw [List.filter_eq_nil_iff]
  intro p hp hp'
  simp only [closedIn, List.any_eq_false] at h
  exact h p hp hp'

theorem closedIn_of_closers {a : Addr} {i : IterInput} (h : closers a i ≠ []) :
    ∃ p ∈ i.polls, p.addr = a ∧ closes p = true := by
  cases hc : closers a i with
  | nil => exact absurd hc h
  | cons p ps =>
    have : p ∈ closers a i := by rw [hc]; simp
    simp only [closers, List.mem_filter, Bool.and_eq_true, beq_iff_eq] at this
    exact ⟨p, this.1, this.2.1, this.2.2⟩

theorem mem_allIncoming_cons {a : Addr} {i : IterInput} {is : List IterInput} :
    a ∈ allIncoming (i :: is) ↔ a ∈ i.incoming ∨ a ∈ allIncoming is := by
  simp [allIncoming]

theorem nodup_step {st : List Addr} {i : IterInput} {is : List IterInput}
    (h : (st ++ allIncoming (i :: is)).Nodup) :
    (nextStreams st i ++ allIncoming is).Nodup ∧ (∀ a ∈ st, a ∉ i.incoming ∧ a ∉ allIncoming is) ∧
    (∀ a ∈ i.incoming, a ∉ allIncoming is) := by
  simp only [allIncoming, List.flatMap_cons] at h
  rw [List.nodup_append] at h
  obtain ⟨h1, h2, h3⟩ := h
  rw [List.nodup_append] at h2
  obtain ⟨_, h5, h6⟩ := h2
  refine ⟨?_, ?_, ?_⟩
  · rw [List.nodup_append]
    refine ⟨nodup_nextStreams i h1, h5, ?_⟩
    intro a ha b hb e
    subst e
    rcases mem_nextStreams.1 ha with h | h
    · exact h3 a h.1 a (List.mem_append.2 (Or.inr hb)) rfl
    · exact h6 a h a hb rfl
  · intro a ha
    exact ⟨fun h => h3 a ha a (List.mem_append.2 (Or.inl h)) rfl,
      fun h => h3 a ha a (List.mem_append.2 (Or.inr h)) rfl⟩
  · intro a ha hb
    exact h6 a ha a hb rfl

theorem closings_le_one (a : Addr) : ∀ (is : List IterInput) (st : List Addr), RunOk' st is →
    (st ++ allIncoming is).Nodup →
    closings a is ≤ 1 ∧ (a ∉ st → a ∉ allIncoming is → closings a is = 0) := by
  intro is
  induction is with
  | nil => intro st _ _; simp [closings, executed]
  | cons i is ih =>
    intro st hok hnd
    cases hs : i.shutdown
    · obtain ⟨hpn, hmem, hnext⟩ := runOk'_cons hs hok
      obtain ⟨hnd', hst, _⟩ := nodup_step hnd
      obtain ⟨ih1, ih2⟩ := ih _ hnext hnd'
      have hcl : closings a (i :: is) = (closers a i).length + closings a is := by
        simp [closings, executed, hs, closers]
      rw [hcl]
      have hle := closers_length_le_one (a := a) hpn
      constructor
      · by_cases hc : closers a i = []
        · simp [hc]; exact ih1
        · obtain ⟨p, hp, hpa, hpc⟩ := closedIn_of_closers hc
          have hast : a ∈ st := hpa ▸ hmem p hp
          have hnot : a ∉ nextStreams st i := by
            intro hn
            rcases mem_nextStreams.1 hn with h | h
            · have : closedIn i a = true := by
                simp only [closedIn, List.any_eq_true]
                exact ⟨p, hp, by simp [hpa, hpc]⟩
              simp [this] at h
            · exact (hst a hast).1 h
          rw [ih2 hnot (hst a hast).2]
          omega
      · intro h1 h2
        have hc : closers a i = [] := by
          unfold closers
          rw [List.filter_eq_nil_iff]
          intro p hp hp'
          simp only [Bool.and_eq_true, beq_iff_eq] at hp'
          exact h1 (hp'.1 ▸ hmem p hp)
        have hnot : a ∉ nextStreams st i := by
          intro hn
          rcases mem_nextStreams.1 hn with h | h
          · exact h1 h.1
          · exact h2 (mem_allIncoming_cons.2 (Or.inl h))
        rw [hc, ih2 hnot (fun h => h2 (mem_allIncoming_cons.2 (Or.inr h)))]
        rfl
    · simp [closings, executed, hs]


theorem silent_iter {a : Addr} {st : List Addr} {i : IterInput} (hmem : ∀ p ∈ i.polls, p.addr ∈ st)
    (h1 : a ∉ st) (h2 : a ∉ i.incoming) : ∀ e ∈ iterEffects st i, concerns a e = false := by
  intro e he
  cases hc : concerns a e
  · rfl
  · obtain ⟨b, hb, hm⟩ := addr_iterEffects hmem he
    have := hb.symm.trans (concerns_iff.1 hc)
    simp at this
    subst this
    rcases hm with h | h
    · exact absurd h h1
    · exact absurd h h2

theorem silence_runEffects (a : Addr) : ∀ (is : List IterInput) (st : List Addr), RunOk' st is →
    (st ++ allIncoming is).Nodup →
    (∀ e ∈ ((runEffects st is).dropWhile (· != .dispatchDisconnect a)).drop 1, concerns a e = false) ∧
    (a ∉ st → a ∉ allIncoming is → ∀ e ∈ runEffects st is, concerns a e = false) := by
  intro is
  induction is with
  | nil => intro st _ _; simp [runEffects]
  | cons i is ih =>
    intro st hok hnd
    cases hs : i.shutdown
    · obtain ⟨hpn, hmem, hnext⟩ := runOk'_cons hs hok
      obtain ⟨hnd', hst, _⟩ := nodup_step hnd
      obtain ⟨ih1, ih2⟩ := ih _ hnext hnd'
      have hrun : runEffects st (i :: is) = iterEffects st i ++ runEffects (nextStreams st i) is := by
        simp [runEffects, hs]
      rw [hrun]
      constructor
      · by_cases hc : closers a i = []
        · -- no disconnect of `a` in this iteration
          have hnot : Effect.dispatchDisconnect a ∉ iterEffects st i := by
            rw [← List.count_eq_zero, count_dd_iterEffects, hc]; rfl
          rw [List.dropWhile_append_of_pos]
          · exact ih1
          · intro x hx
            simp only [bne_iff_ne, ne_eq]
            intro e; subst e; exact hnot hx
        · obtain ⟨p, hp, hpa, hpc⟩ := closedIn_of_closers hc
          have hast : a ∈ st := hpa ▸ hmem p hp
          have hclosed : closedIn i a = true := by
            simp only [closedIn, List.any_eq_true]
            exact ⟨p, hp, by simp [hpa, hpc]⟩
          have hnotnext : a ∉ nextStreams st i := by
            intro hn
            rcases mem_nextStreams.1 hn with h | h
            · simp [hclosed] at h
            · exact (hst a hast).1 h
          obtain ⟨l1, l2, hsplit⟩ := List.append_of_mem hp
          have hnd2 := hpn
          rw [hsplit, List.map_append, List.map_cons, List.nodup_append, List.nodup_cons] at hnd2
          obtain ⟨_, ⟨hl2, _⟩, hl1⟩ := hnd2
          have hl1' : ∀ q ∈ l1, q.addr ≠ a := by
            intro q hq
            have := hl1 q.addr (List.mem_map_of_mem hq) p.addr (by simp)
            rwa [hpa] at this
          have hl2' : ∀ q ∈ l2, q.addr ≠ a := by
            intro q hq e
            exact hl2 (by rw [hpa, ← e]; exact List.mem_map_of_mem hq)
          have hpe : pollEffects i.willPing p =
              (msgs p.results).map (Effect.dispatchMessage a) ++ [.dispatchDisconnect a] := by
            unfold pollEffects; rw [if_pos hpc, hpa]
          have hIE : iterEffects st i =
              (l1.flatMap (pollEffects i.willPing) ++ (msgs p.results).map (Effect.dispatchMessage a)) ++
              .dispatchDisconnect a ::
                (l2.flatMap (pollEffects i.willPing) ++ i.incoming.map .dispatchConnect ++
                  flush (nextStreams st i) i.outgoing) := by
            unfold iterEffects
            rw [hsplit, List.flatMap_append, List.flatMap_cons, hpe]
            simp only [List.append_assoc, List.cons_append, List.nil_append]
          rw [hIE, List.append_assoc, List.dropWhile_append_of_pos]
          · simp only [List.cons_append, List.dropWhile_cons, bne_self_eq_false, Bool.false_eq_true,
              if_false, List.drop_succ_cons, List.drop_zero]
            intro e he
            simp only [List.mem_append, List.mem_flatMap, List.mem_map] at he
            cases hcon : concerns a e
            · rfl
            · have hadr := concerns_iff.1 hcon
              rcases he with ((⟨q, hq, heq⟩ | ⟨b, hb, rfl⟩) | he) | he
              · have := (addr_pollEffects heq).symm.trans hadr
                simp at this
                exact absurd this (hl2' q hq)
              · simp [addrOf] at hadr
                subst hadr
                exact absurd hb (hst _ hast).1
              · obtain ⟨b, bytes, rfl, hb⟩ := mem_flush he
                simp [addrOf] at hadr
                subst hadr
                exact absurd hb hnotnext
              · rw [ih2 hnotnext (hst a hast).2 e he] at hcon
                exact hcon.symm
          · intro x hx
            simp only [bne_iff_ne, ne_eq]
            intro e; subst e
            simp only [List.mem_append, List.mem_flatMap, List.mem_map] at hx
            rcases hx with ⟨q, hq, heq⟩ | ⟨m, _, hm⟩
            · have := addr_pollEffects heq
              simp [addrOf] at this
              exact hl1' q hq this.symm
            · cases hm
      · intro h1 h2 e he
        rw [List.mem_append] at he
        rcases he with he | he
        · exact silent_iter hmem h1 (fun h => h2 (mem_allIncoming_cons.2 (Or.inl h))) e he
        · have hnot : a ∉ nextStreams st i := by
            intro hn
            rcases mem_nextStreams.1 hn with h | h
            · exact h1 h.1
            · exact h2 (mem_allIncoming_cons.2 (Or.inl h))
          exact ih2 hnot (fun h => h2 (mem_allIncoming_cons.2 (Or.inr h))) e he
    · simp [runEffects, hs, concerns]

/-- The bridge used by all run theorems: a consistent run does not panic and its trace is the normal form. -/
theorem run_trace {s : AppState} {is : List IterInput} (hp : s.phase = .running) (hok : RunOk s is = true) :
    (runLoop s is).2 = runEffects s.streams is :=
  runLoop_eq is s hp ((runOk_iff is s hp).1 hok)


theorem mem_liveAtFlush {live : List Addr} {i : IterInput} {a : Addr} :
    a ∈ liveAtFlush live i ↔ a ∈ nextStreams live i := by
  rw [mem_nextStreams]
  simp [liveAtFlush]


end Humphrey.WsApp
