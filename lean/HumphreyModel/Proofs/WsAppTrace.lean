import HumphreyModel.Proofs.WsApp

/-!
Helper lemmas for C12, part 2: what the normal form of a run (`runEffects`) says about one client.
-/
namespace Humphrey.WsApp
open Humphrey.WsAppSpec

/-- The client an effect is about. -/
def addrOf : Effect → Option Addr
  | .dispatchConnect b => some b
  | .dispatchMessage b _ => some b
  | .dispatchDisconnect b => some b
  | .sendTo b _ => some b
  | .ping b => some b
  | .drop b => some b
  | _ => none

theorem concerns_addr {a : Addr} {e : Effect} (h : concerns a e = true) : addrOf e = some a := by
  cases e <;> simp [concerns, addrOf] at h ⊢ <;> exact h

/-- An effect about somebody else is nothing for `a`. -/
theorem silent_of_addr_ne {a : Addr} {e : Effect} (h : addrOf e ≠ some a) : concerns a e = false ∧ e ≠ .drop a := by
  constructor
  · cases hc : concerns a e
    · rfl
    · exact absurd (concerns_addr hc) h
  · intro he; subst he; exact h rfl

theorem mem_onMessage {h : Handlers} {a : Addr} {m : Msg} {e : Effect} (he : e ∈ onMessage h a m) :
    e = .dispatchMessage a m := by
  unfold onMessage at he
  split at he <;> simp at he
  exact he

theorem mem_onGone {h : Handlers} {a : Addr} {e : Effect} (he : e ∈ onGone h a) :
    e = .dispatchDisconnect a ∨ e = .drop a := by
  unfold onGone at he
  simp only [List.mem_append, List.mem_singleton] at he
  rcases he with he | he
  · split at he <;> simp at he
    exact Or.inl he
  · exact Or.inr he

theorem mem_onConnect {h : Handlers} {a : Addr} {e : Effect} (he : e ∈ onConnect h a) :
    e = .dispatchConnect a := by
  unfold onConnect at he
  split at he <;> simp at he
  exact he

theorem flatMap_onMessage (h : Handlers) (a : Addr) (ms : List Msg) :
    ms.flatMap (onMessage h a) = if h.message then ms.map (.dispatchMessage a) else [] := by
  induction ms with
  | nil => simp
  | cons m ms ih => rw [List.flatMap_cons, ih]; cases hm : h.message <;> simp [onMessage, hm]

theorem flatMap_onConnect (h : Handlers) (inc : List Addr) :
    inc.flatMap (onConnect h) = if h.connect then inc.map .dispatchConnect else [] := by
  induction inc with
  | nil => simp
  | cons b inc ih => rw [List.flatMap_cons, ih]; cases hc : h.connect <;> simp [onConnect, hc]

theorem isMsgOf_addr {a : Addr} {e : Effect} (h : isMsgOf a e = true) : addrOf e = some a := by
  cases e <;> simp [isMsgOf, msgOf, addrOf] at h ⊢
  rename_i b m
  by_cases hb : b = a <;> simp [hb] at h ⊢

theorem addr_pollEffects {h : Handlers} {w : Bool} {p : Poll} {e : Effect} (he : e ∈ pollEffects h w p) :
    addrOf e = some p.addr := by
  unfold pollEffects at he
  rw [List.mem_append] at he
  rcases he with he | he
  · simp only [List.mem_flatMap] at he
    obtain ⟨m, _, hm⟩ := he
    rw [mem_onMessage hm]; rfl
  · split at he
    · rcases mem_onGone he with rfl | rfl <;> rfl
    · split at he
      · simp at he; subst he; rfl
      · simp at he

theorem mem_recipients {st order : List Addr} {b : Addr} : b ∈ recipients st order ↔ b ∈ st := by
  unfold recipients
  split
  · rename_i h
    simp only [okOrder, Bool.and_eq_true, List.all_eq_true, decide_eq_true_eq] at h
    exact ⟨fun hb => h.1.2 b hb, fun hb => h.2 b hb⟩
  · rfl

theorem nodup_recipients {st order : List Addr} (h : st.Nodup) : (recipients st order).Nodup := by
  unfold recipients
  split
  · rename_i h'
    simp only [okOrder, Bool.and_eq_true, decide_eq_true_eq] at h'
    exact h'.1.1
  · exact h

theorem mem_deliver {st : List Addr} {o : Out} {e : Effect} (h : e ∈ deliver st o) :
    ∃ b bytes, e = .sendTo b bytes ∧ b ∈ st := by
  cases o with
  | unicast a m =>
    simp only [deliver] at h
    split at h
    · simp at h; exact ⟨a, _, h, by assumption⟩
    · simp at h
  | broadcast m order =>
    simp only [deliver, List.mem_map] at h
    obtain ⟨b, hb, rfl⟩ := h
    exact ⟨b, _, rfl, mem_recipients.1 hb⟩

theorem mem_flush {st : List Addr} {out : List Out} {e : Effect} (h : e ∈ flush st out) :
    ∃ b bytes, e = .sendTo b bytes ∧ b ∈ st := by
  simp only [flush, List.mem_flatMap] at h
  obtain ⟨o, _, ho⟩ := h
  exact mem_deliver ho

/-- Every effect of an iteration is about a client that was connected before it or is admitted in it. -/
theorem addr_iterEffects {h : Handlers} {st : List Addr} {i : IterInput} (hp : ∀ p ∈ i.polls, p.addr ∈ st)
    {e : Effect} (h : e ∈ iterEffects h st i) : ∃ b, addrOf e = some b ∧ (b ∈ st ∨ b ∈ i.incoming) := by
  simp only [iterEffects, List.mem_append, List.mem_flatMap] at h
  rcases h with (⟨p, hp', he⟩ | ⟨b, hb, he⟩) | h
  · exact ⟨p.addr, addr_pollEffects he, Or.inl (hp p hp')⟩
  · exact ⟨b, by rw [mem_onConnect he]; rfl, Or.inr hb⟩
  · obtain ⟨b, bytes, rfl, hb⟩ := mem_flush h
    refine ⟨b, rfl, ?_⟩
    rcases mem_nextStreams.1 hb with h | h
    · exact Or.inl h.1
    · exact Or.inr h

theorem filterMap_eq_nil_of {α β : Type} {f : α → Option β} : ∀ {l : List α}, (∀ e ∈ l, f e = none) →
    l.filterMap f = []
  | [], _ => rfl
  | x :: l, h => by
    rw [List.filterMap_cons, h x (by simp)]
    exact filterMap_eq_nil_of (fun e he => h e (by simp [he]))

/-! ### Messages -/

theorem filterMap_msgOf_pollEffects (h : Handlers) (a : Addr) (w : Bool) (p : Poll) :
    (pollEffects h w p).filterMap (msgOf a) =
      if h.message then (if p.addr = a then msgs p.results else []) else [] := by
  unfold pollEffects
  rw [List.filterMap_append]
  have h2 : (if closes p then onGone h p.addr else if w then [Effect.ping p.addr] else []).filterMap
      (msgOf a) = [] := by
    apply filterMap_eq_nil_of
    intro e he
    split at he
    · rcases mem_onGone he with rfl | rfl <;> rfl
    · split at he
      · simp at he; subst he; rfl
      · simp at he
  rw [h2, List.append_nil, flatMap_onMessage]
  cases hm : h.message
  · simp
  · simp only [if_true, List.filterMap_map]
    by_cases hpa : p.addr = a
    · simp only [hpa, if_true]
      have : (msgOf a ∘ Effect.dispatchMessage a) = some := by
        funext m; simp [msgOf]
      rw [this]; simp
    · simp only [hpa, if_false]
      apply filterMap_eq_nil_of
      intro m _
      simp [msgOf, hpa]

theorem filterMap_msgOf_iterEffects (h : Handlers) (a : Addr) (st : List Addr) (i : IterInput) :
    (iterEffects h st i).filterMap (msgOf a) =
      if h.message then (i.polls.flatMap fun p => if p.addr = a then msgs p.results else []) else [] := by
  unfold iterEffects
  rw [List.filterMap_append, List.filterMap_append, List.filterMap_flatMap]
  have h1 : (i.incoming.flatMap (onConnect h)).filterMap (msgOf a) = [] := by
    apply filterMap_eq_nil_of
    intro e he
    simp only [List.mem_flatMap] at he
    obtain ⟨b, _, hb⟩ := he
    rw [mem_onConnect hb]; rfl
  have h2 : (flush (nextStreams st i) i.outgoing).filterMap (msgOf a) = [] := by
    apply filterMap_eq_nil_of
    intro e he
    obtain ⟨b, bytes, rfl, _⟩ := mem_flush he; rfl
  rw [h1, h2]
  simp only [List.append_nil]
  have : (fun p => (pollEffects h i.willPing p).filterMap (msgOf a)) =
      fun p => if h.message then (if p.addr = a then msgs p.results else []) else [] := by
    funext p
    exact filterMap_msgOf_pollEffects h a i.willPing p
  rw [this]
  cases hm : h.message <;> simp

theorem messages_runEffects (h : Handlers) (a : Addr) : ∀ (is : List IterInput) (st : List Addr),
    (runEffects h st is).filterMap (msgOf a) = if h.message then received a is else [] := by
  intro is
  induction is with
  | nil => intro st; simp [runEffects, received, executed]
  | cons i is ih =>
    intro st
    cases hs : i.shutdown
    · simp only [runEffects, hs, Bool.false_eq_true, if_false, List.filterMap_append, ih,
        filterMap_msgOf_iterEffects, received, executed, List.flatMap_cons]
      cases hm : h.message <;> simp
    · simp [runEffects, hs, received, executed, msgOf]

/-! ### Connect -/

theorem count_connect_map (a : Addr) : ∀ (inc : List Addr),
    (inc.map Effect.dispatchConnect).count (.dispatchConnect a) = inc.count a
  | [] => rfl
  | b :: inc => by
    simp only [List.map_cons, List.count_cons, count_connect_map a inc]
    by_cases h : b = a <;> simp [h]

theorem count_connect_iterEffects (h : Handlers) (a : Addr) (st : List Addr) (i : IterInput) :
    (iterEffects h st i).count (.dispatchConnect a) = if h.connect then i.incoming.count a else 0 := by
  unfold iterEffects
  rw [List.count_append, List.count_append, flatMap_onConnect]
  have h1 : (i.polls.flatMap (pollEffects h i.willPing)).count (.dispatchConnect a) = 0 := by
    apply List.count_eq_zero_of_not_mem
    intro hm
    simp only [List.mem_flatMap] at hm
    obtain ⟨p, _, he⟩ := hm
    unfold pollEffects at he
    simp only [List.mem_append, List.mem_flatMap] at he
    rcases he with ⟨m, _, hm⟩ | he
    · cases mem_onMessage hm
    · split at he
      · rcases mem_onGone he with he | he <;> cases he
      · split at he <;> simp at he
  have h2 : (flush (nextStreams st i) i.outgoing).count (.dispatchConnect a) = 0 := by
    apply List.count_eq_zero_of_not_mem
    intro hm
    obtain ⟨b, bytes, hb, _⟩ := mem_flush hm
    cases hb
  rw [h1, h2]
  cases hc : h.connect <;> simp [count_connect_map]

theorem count_connect_runEffects (h : Handlers) (a : Addr) : ∀ (is : List IterInput) (st : List Addr),
    (runEffects h st is).count (.dispatchConnect a) = if h.connect then (admitted is).count a else 0 := by
  intro is
  induction is with
  | nil => intro st; simp [runEffects, admitted, executed]
  | cons i is ih =>
    intro st
    cases hs : i.shutdown
    · simp only [runEffects, hs, Bool.false_eq_true, if_false, List.count_append, ih,
        count_connect_iterEffects, admitted, executed, List.flatMap_cons]
      cases hc : h.connect <;> simp
    · simp [runEffects, hs, admitted, executed]

/-- With a connect handler the connect part of an iteration is one dispatch per admitted stream. -/
theorem iterEffects_connect {h : Handlers} (hc : h.connect = true) (st : List Addr) (i : IterInput) :
    iterEffects h st i = i.polls.flatMap (pollEffects h i.willPing) ++ i.incoming.map .dispatchConnect ++
      flush (nextStreams st i) i.outgoing := by
  unfold iterEffects
  rw [flatMap_onConnect, if_pos hc]


/-- All addresses admitted by the given inputs (whether executed or not). -/
def allIncoming (is : List IterInput) : List Addr := is.flatMap (·.incoming)

/-- The clients admitted in the executed iterations are among all incoming addresses. -/
theorem admitted_sublist (is : List IterInput) : (admitted is).Sublist (allIncoming is) := by
  unfold admitted allIncoming
  induction is with
  | nil => simp [executed]
  | cons i is ih =>
    cases hs : i.shutdown
    · simp only [executed, hs, Bool.false_eq_true, if_false, List.flatMap_cons]
      exact List.Sublist.append (List.Sublist.refl _) ih
    · simp [executed, hs]

theorem mem_takeWhile_append {α : Type} {p : α → Bool} : ∀ {L R : List α} {e : α},
    e ∈ (L ++ R).takeWhile p → (e ∈ L) ∨ ((∀ x ∈ L, p x = true) ∧ e ∈ R.takeWhile p)
  | [], R, e, h => Or.inr ⟨by simp, by simpa using h⟩
  | x :: L, R, e, h => by
    simp only [List.cons_append, List.takeWhile_cons] at h
    split at h
    · rename_i hx
      simp only [List.mem_cons] at h
      rcases h with rfl | h
      · exact Or.inl (by simp)
      · rcases mem_takeWhile_append h with h | ⟨h1, h2⟩
        · exact Or.inl (by simp [h])
        · refine Or.inr ⟨?_, h2⟩
          intro y hy
          simp only [List.mem_cons] at hy
          rcases hy with rfl | hy
          · exact hx
          · exact h1 y hy
    · simp at h

theorem mem_of_mem_takeWhile' {α : Type} {p : α → Bool} {L : List α} {e : α} (h : e ∈ L.takeWhile p) : e ∈ L := by
  have := mem_takeWhile_append (L := L) (R := []) (e := e) (by simpa using h)
  rcases this with h | ⟨_, h⟩
  · exact h
  · simp at h

theorem runOk'_cons {st : List Addr} {i : IterInput} {is : List IterInput} (hs : i.shutdown = false)
    (h : RunOk' st (i :: is)) :
    (i.polls.map (·.addr)).Nodup ∧ (∀ p ∈ i.polls, p.addr ∈ st) ∧ RunOk' (nextStreams st i) is := by
  simp only [RunOk', hs, Bool.false_eq_true, false_or] at h
  obtain ⟨hnd, hmem, _, _⟩ := (inputsOk_iff (s := { streams := st }) hs).1 h.1
  exact ⟨hnd, hmem, h.2⟩

theorem before_runEffects {h : Handlers} (hc : h.connect = true) (a : Addr) :
    ∀ (is : List IterInput) (st : List Addr), a ∉ st → RunOk' st is →
    ∀ e ∈ (runEffects h st is).takeWhile (· != .dispatchConnect a), isMsgOf a e = false := by
  intro is
  induction is with
  | nil => intro st _ _ e he; simp [runEffects] at he
  | cons i is ih =>
    intro st hst hok e he
    cases hs : i.shutdown
    · obtain ⟨_, hmem, hnext⟩ := runOk'_cons hs hok
      simp only [runEffects, hs, Bool.false_eq_true, if_false] at he
      rcases mem_takeWhile_append he with h | ⟨hall, h⟩
      · -- an effect of this iteration that comes before the connect dispatch (if there is one)
        by_cases hinc : a ∈ i.incoming
        · -- it is in the poll part or the connect part
          rw [iterEffects_connect hc] at he
          rw [List.append_assoc, List.append_assoc] at he
          rcases mem_takeWhile_append he with h' | ⟨_, h'⟩
          · simp only [List.mem_flatMap] at h'
            obtain ⟨p, hp, hep⟩ := h'
            cases hm : isMsgOf a e
            · rfl
            · have := (addr_pollEffects hep).symm.trans (isMsgOf_addr hm)
              simp at this
              exact absurd (this ▸ hmem p hp) hst
          · rcases mem_takeWhile_append h' with h'' | ⟨hall, _⟩
            · simp only [List.mem_map] at h''
              obtain ⟨b, _, rfl⟩ := h''; rfl
            · have := hall (.dispatchConnect a) (by simp [hinc])
              simp at this
        · cases hm : isMsgOf a e
          · rfl
          · obtain ⟨b, hb, hmem'⟩ := addr_iterEffects hmem h
            have := hb.symm.trans (isMsgOf_addr hm)
            simp at this
            subst this
            rcases hmem' with h1 | h1
            · exact absurd h1 hst
            · exact absurd h1 hinc
      · -- the connect dispatch is not in this iteration
        have hinc : a ∉ i.incoming := by
          intro hinc
          have := hall (.dispatchConnect a) (by simp [iterEffects_connect hc, hinc])
          simp at this
        have hnot : a ∉ nextStreams st i := by
          intro hn
          rcases mem_nextStreams.1 hn with h1 | h1
          · exact hst h1.1
          · exact hinc h1
        exact ih _ hnot hnext e h
    · simp only [runEffects, hs, if_true] at he
      have := mem_of_mem_takeWhile' he
      simp at this; subst this; rfl

/-! ### Flush -/

theorem deliver_unicast (st : List Addr) (a : Addr) (m : Msg) :
    deliver st (.unicast a m) = if a ∈ st then [.sendTo a (frameOf m)] else [] := rfl

theorem count_sendTo_map (a : Addr) (bytes : WsFrame.Bytes) : ∀ (l : List Addr),
    (l.map (Effect.sendTo · bytes)).count (.sendTo a bytes) = l.count a
  | [] => rfl
  | b :: l => by
    simp only [List.map_cons, List.count_cons, count_sendTo_map a bytes l]
    by_cases h : b = a <;> simp [h]

theorem deliver_broadcast_count {st : List Addr} (hn : st.Nodup) (m : Msg) (order : List Addr) (a : Addr) :
    (deliver st (.broadcast m order)).count (.sendTo a (frameOf m)) = if a ∈ st then 1 else 0 := by
  simp only [deliver]
  rw [count_sendTo_map, (nodup_recipients hn).count]
  simp only [mem_recipients]

/-! ### Shutdown -/

theorem runEffects_shutdown (h : Handlers) :
    ∀ (pre : List IterInput) (i : IterInput) (post : List IterInput) (st : List Addr),
    (∀ j ∈ pre, j.shutdown = false) → i.shutdown = true →
    runEffects h st (pre ++ i :: post) = runEffects h st pre ++ [.exit]
  | [], i, post, st, _, hi => by simp [runEffects, hi]
  | j :: pre, i, post, st, hpre, hi => by
    have hj : j.shutdown = false := hpre j (by simp)
    simp only [List.cons_append, runEffects, hj, Bool.false_eq_true, if_false, List.append_assoc]
    rw [runEffects_shutdown h pre i post _ (fun k hk => hpre k (by simp [hk])) hi]

theorem exit_not_mem_runEffects (h : Handlers) : ∀ (pre : List IterInput) (st : List Addr),
    (∀ j ∈ pre, j.shutdown = false) → RunOk' st pre →
    Effect.exit ∉ runEffects h st pre
  | [], st, _, _ => by simp [runEffects]
  | j :: pre, st, hpre, hok => by
    have hj : j.shutdown = false := hpre j (by simp)
    obtain ⟨_, hmem, hnext⟩ := runOk'_cons hj hok
    simp only [runEffects, hj, Bool.false_eq_true, if_false, List.mem_append, not_or]
    refine ⟨?_, exit_not_mem_runEffects h pre _ (fun k hk => hpre k (by simp [hk])) hnext⟩
    intro hx
    obtain ⟨b, hb, _⟩ := addr_iterEffects hmem hx
    simp [addrOf] at hb


/-! ### Disconnect and removal -/

/-- The closing polls of `a` in an iteration. -/
def closers (a : Addr) (i : IterInput) : List Poll := i.polls.filter fun p => p.addr == a && closes p

theorem count_dd_onGone (h : Handlers) (a b : Addr) :
    (onGone h b).count (.dispatchDisconnect a) = if h.disconnect then (if b = a then 1 else 0) else 0 := by
  unfold onGone
  cases hd : h.disconnect <;> by_cases hb : b = a <;> simp [hb]

theorem count_drop_onGone (h : Handlers) (a b : Addr) :
    (onGone h b).count (.drop a) = if b = a then 1 else 0 := by
  unfold onGone
  cases hd : h.disconnect <;> by_cases hb : b = a <;> simp [hb]

theorem count_dd_pollEffects (h : Handlers) (a : Addr) (w : Bool) (p : Poll) :
    (pollEffects h w p).count (.dispatchDisconnect a) =
      if h.disconnect then (if (p.addr == a && closes p) = true then 1 else 0) else 0 := by
  unfold pollEffects
  rw [List.count_append]
  have h1 : ((msgs p.results).flatMap (onMessage h p.addr)).count (.dispatchDisconnect a) = 0 := by
    apply List.count_eq_zero_of_not_mem
    intro hm
    simp only [List.mem_flatMap] at hm
    obtain ⟨m, _, hm⟩ := hm
    cases mem_onMessage hm
  rw [h1]
  by_cases hc : closes p = true
  · rw [if_pos hc, count_dd_onGone]
    cases hd : h.disconnect <;> by_cases ha : p.addr = a <;> simp [hc, ha]
  · cases hd : h.disconnect <;> cases w <;> simp [hc]

theorem count_drop_pollEffects (h : Handlers) (a : Addr) (w : Bool) (p : Poll) :
    (pollEffects h w p).count (.drop a) = if (p.addr == a && closes p) = true then 1 else 0 := by
  unfold pollEffects
  rw [List.count_append]
  have h1 : ((msgs p.results).flatMap (onMessage h p.addr)).count (.drop a) = 0 := by
    apply List.count_eq_zero_of_not_mem
    intro hm
    simp only [List.mem_flatMap] at hm
    obtain ⟨m, _, hm⟩ := hm
    cases mem_onMessage hm
  rw [h1]
  by_cases hc : closes p = true
  · rw [if_pos hc, count_drop_onGone]
    by_cases ha : p.addr = a <;> simp [hc, ha]
  · cases w <;> simp [hc]

theorem count_dd_polls (h : Handlers) (a : Addr) (w : Bool) : ∀ (ps : List Poll),
    (ps.flatMap (pollEffects h w)).count (.dispatchDisconnect a) =
      if h.disconnect then (ps.filter fun p => p.addr == a && closes p).length else 0
  | [] => by simp
  | p :: ps => by
    rw [List.flatMap_cons, List.count_append, count_dd_pollEffects, count_dd_polls h a w ps, List.filter_cons]
    cases hd : h.disconnect
    · simp
    · simp only [if_true]
      split <;> simp <;> omega

theorem count_drop_polls (h : Handlers) (a : Addr) (w : Bool) : ∀ (ps : List Poll),
    (ps.flatMap (pollEffects h w)).count (.drop a) = (ps.filter fun p => p.addr == a && closes p).length
  | [] => rfl
  | p :: ps => by
    rw [List.flatMap_cons, List.count_append, count_drop_pollEffects, count_drop_polls h a w ps, List.filter_cons]
    split <;> simp <;> omega

/-- Neither the connect dispatches nor the flush contain an effect of the shape `x` when `x` is a disconnect
dispatch or a removal. -/
theorem not_mem_tail_iter {h : Handlers} {st : List Addr} {i : IterInput} {x : Effect}
    (hx : (∃ a, x = .dispatchDisconnect a) ∨ (∃ a, x = .drop a)) :
    x ∉ i.incoming.flatMap (onConnect h) ++ flush (nextStreams st i) i.outgoing := by
  intro hm
  rw [List.mem_append] at hm
  rcases hm with hm | hm
  · simp only [List.mem_flatMap] at hm
    obtain ⟨b, _, hb⟩ := hm
    have := mem_onConnect hb
    rcases hx with ⟨a, rfl⟩ | ⟨a, rfl⟩ <;> cases this
  · obtain ⟨b, bytes, hb, _⟩ := mem_flush hm
    rcases hx with ⟨a, rfl⟩ | ⟨a, rfl⟩ <;> cases hb

theorem count_dd_iterEffects (h : Handlers) (a : Addr) (st : List Addr) (i : IterInput) :
    (iterEffects h st i).count (.dispatchDisconnect a) = if h.disconnect then (closers a i).length else 0 := by
  unfold iterEffects closers
  rw [List.append_assoc, List.count_append, count_dd_polls,
    List.count_eq_zero_of_not_mem (not_mem_tail_iter (Or.inl ⟨a, rfl⟩))]
  simp

theorem count_drop_iterEffects (h : Handlers) (a : Addr) (st : List Addr) (i : IterInput) :
    (iterEffects h st i).count (.drop a) = (closers a i).length := by
  unfold iterEffects closers
  rw [List.append_assoc, List.count_append, count_drop_polls,
    List.count_eq_zero_of_not_mem (not_mem_tail_iter (Or.inr ⟨a, rfl⟩))]
  simp

theorem count_dd_runEffects (h : Handlers) (a : Addr) : ∀ (is : List IterInput) (st : List Addr),
    (runEffects h st is).count (.dispatchDisconnect a) = if h.disconnect then closings a is else 0 := by
  intro is
  induction is with
  | nil => intro st; simp [runEffects, closings, executed]
  | cons i is ih =>
    intro st
    cases hs : i.shutdown
    · simp only [runEffects, hs, Bool.false_eq_true, if_false, List.count_append, ih,
        count_dd_iterEffects, closings, executed, List.map_cons, List.sum_cons, closers]
      cases hd : h.disconnect <;> simp
    · simp [runEffects, hs, closings, executed]

theorem count_drop_runEffects (h : Handlers) (a : Addr) : ∀ (is : List IterInput) (st : List Addr),
    (runEffects h st is).count (.drop a) = closings a is := by
  intro is
  induction is with
  | nil => intro st; simp [runEffects, closings, executed]
  | cons i is ih =>
    intro st
    cases hs : i.shutdown
    · simp only [runEffects, hs, Bool.false_eq_true, if_false, List.count_append, ih,
        count_drop_iterEffects, closings, executed, List.map_cons, List.sum_cons, closers]
    · simp [runEffects, hs, closings, executed]

theorem closers_length_le_one {a : Addr} {i : IterInput} (hnd : (i.polls.map (·.addr)).Nodup) :
    (closers a i).length ≤ 1 := by
  unfold closers
  generalize i.polls = ps at hnd
  induction ps with
  | nil => simp
  | cons p ps ih =>
    simp only [List.map_cons, List.nodup_cons] at hnd
    rw [List.filter_cons]
    split
    · rename_i h
      simp only [Bool.and_eq_true, beq_iff_eq] at h
      have : ps.filter (fun p => p.addr == a && closes p) = [] := by
        rw [List.filter_eq_nil_iff]
        intro q hq hq'
        simp only [Bool.and_eq_true, beq_iff_eq] at hq'
        exact hnd.1 (by rw [h.1, ← hq'.1]; exact List.mem_map_of_mem hq)
      simp [this]
    · exact ih hnd.2

theorem closers_eq_nil_of_closedIn {a : Addr} {i : IterInput} (h : closedIn i a = false) : closers a i = [] := by
  unfold closers
  rw [List.filter_eq_nil_iff]
  intro p hp hp'
  simp only [closedIn, List.any_eq_false] at h
  exact h p hp hp'

theorem closedIn_of_closers {a : Addr} {i : IterInput} (h : closers a i ≠ []) :
    ∃ p ∈ i.polls, p.addr = a ∧ closes p = true := by
  cases hc : closers a i with
  | nil => exact absurd hc h
  | cons p ps =>
    have : p ∈ closers a i := by rw [hc]; simp
    simp only [closers, List.mem_filter, Bool.and_eq_true, beq_iff_eq] at this
    exact ⟨p, this.1, this.2.1, this.2.2⟩

theorem mem_allIncoming_cons {a : Addr} {i : IterInput} {is : List IterInput} :
    a ∈ allIncoming (i :: is) ↔ a ∈ i.incoming ∨ a ∈ allIncoming is := by
  simp [allIncoming]

theorem nodup_step {st : List Addr} {i : IterInput} {is : List IterInput}
    (h : (st ++ allIncoming (i :: is)).Nodup) :
    (nextStreams st i ++ allIncoming is).Nodup ∧ (∀ a ∈ st, a ∉ i.incoming ∧ a ∉ allIncoming is) ∧
    (∀ a ∈ i.incoming, a ∉ allIncoming is) := by
  simp only [allIncoming, List.flatMap_cons] at h
  rw [List.nodup_append] at h
  obtain ⟨h1, h2, h3⟩ := h
  rw [List.nodup_append] at h2
  obtain ⟨_, h5, h6⟩ := h2
  refine ⟨?_, ?_, ?_⟩
  · rw [List.nodup_append]
    refine ⟨nodup_nextStreams i h1, h5, ?_⟩
    intro a ha b hb e
    subst e
    rcases mem_nextStreams.1 ha with h | h
    · exact h3 a h.1 a (List.mem_append.2 (Or.inr hb)) rfl
    · exact h6 a h a hb rfl
  · intro a ha
    exact ⟨fun h => h3 a ha a (List.mem_append.2 (Or.inl h)) rfl,
      fun h => h3 a ha a (List.mem_append.2 (Or.inr h)) rfl⟩
  · intro a ha hb
    exact h6 a ha a hb rfl

/-- A client found closed in an iteration was in the table and is not in it afterwards. -/
theorem gone_after_close {a : Addr} {st : List Addr} {i : IterInput} {is : List IterInput}
    (hmem : ∀ p ∈ i.polls, p.addr ∈ st) (hnd : (st ++ allIncoming (i :: is)).Nodup)
    {p : Poll} (hp : p ∈ i.polls) (hpa : p.addr = a) (hpc : closes p = true) :
    a ∈ st ∧ closedIn i a = true ∧ a ∉ nextStreams st i ∧ a ∉ allIncoming is := by
  obtain ⟨_, hst, _⟩ := nodup_step hnd
  have hast : a ∈ st := hpa ▸ hmem p hp
  have hclosed : closedIn i a = true := by
    simp only [closedIn, List.any_eq_true]
    exact ⟨p, hp, by simp [hpa, hpc]⟩
  refine ⟨hast, hclosed, ?_, (hst a hast).2⟩
  intro hn
  rcases mem_nextStreams.1 hn with h | h
  · simp [hclosed] at h
  · exact (hst a hast).1 h

theorem closings_le_one (a : Addr) : ∀ (is : List IterInput) (st : List Addr), RunOk' st is →
    (st ++ allIncoming is).Nodup →
    closings a is ≤ 1 ∧ (a ∉ st → a ∉ allIncoming is → closings a is = 0) := by
  intro is
  induction is with
  | nil => intro st _ _; simp [closings, executed]
  | cons i is ih =>
    intro st hok hnd
    cases hs : i.shutdown
    · obtain ⟨hpn, hmem, hnext⟩ := runOk'_cons hs hok
      obtain ⟨hnd', hst, _⟩ := nodup_step hnd
      obtain ⟨ih1, ih2⟩ := ih _ hnext hnd'
      have hcl : closings a (i :: is) = (closers a i).length + closings a is := by
        simp [closings, executed, hs, closers]
      rw [hcl]
      have hle := closers_length_le_one (a := a) hpn
      constructor
      · by_cases hc : closers a i = []
        · simp [hc]; exact ih1
        · obtain ⟨p, hp, hpa, hpc⟩ := closedIn_of_closers hc
          obtain ⟨_, _, hnot, hinc⟩ := gone_after_close hmem hnd hp hpa hpc
          rw [ih2 hnot hinc]
          omega
      · intro h1 h2
        have hc : closers a i = [] := by
          unfold closers
          rw [List.filter_eq_nil_iff]
          intro p hp hp'
          simp only [Bool.and_eq_true, beq_iff_eq] at hp'
          exact h1 (hp'.1 ▸ hmem p hp)
        have hnot : a ∉ nextStreams st i := by
          intro hn
          rcases mem_nextStreams.1 hn with h | h
          · exact h1 h.1
          · exact h2 (mem_allIncoming_cons.2 (Or.inl h))
        rw [hc, ih2 hnot (fun h => h2 (mem_allIncoming_cons.2 (Or.inr h)))]
        rfl
    · simp [closings, executed, hs]

/-- An iteration does nothing for a client that is neither in the table nor admitted in it. -/
theorem silent_iter {h : Handlers} {a : Addr} {st : List Addr} {i : IterInput} (hmem : ∀ p ∈ i.polls, p.addr ∈ st)
    (h1 : a ∉ st) (h2 : a ∉ i.incoming) : ∀ e ∈ iterEffects h st i, concerns a e = false ∧ e ≠ .drop a := by
  intro e he
  apply silent_of_addr_ne
  intro hadr
  obtain ⟨b, hb, hm⟩ := addr_iterEffects hmem he
  have := hb.symm.trans hadr
  simp at this
  subst this
  rcases hm with h | h
  · exact absurd h h1
  · exact absurd h h2

/-- Everything after the first `x` of `L ++ x :: R`, when `x` is not in `L`, is in `R`. -/
theorem after_marker {x : Effect} {L R : List Effect} (hL : x ∉ L) :
    ((L ++ x :: R).dropWhile (· != x)).drop 1 = R := by
  rw [List.dropWhile_append_of_pos]
  · simp
  · intro y hy
    simp only [bne_iff_ne, ne_eq]
    intro e; subst e; exact hL hy

/-- The shape of the iteration in which `a` is found closed: what comes before the disconnect dispatch and the
removal contains neither, and what comes after them in that iteration is nothing for `a`. -/
theorem closing_iter_split {h : Handlers} {a : Addr} {st : List Addr} {i : IterInput} {is : List IterInput}
    (hpn : (i.polls.map (·.addr)).Nodup) (hmem : ∀ p ∈ i.polls, p.addr ∈ st)
    (hnd : (st ++ allIncoming (i :: is)).Nodup)
    {p : Poll} (hp : p ∈ i.polls) (hpa : p.addr = a) (hpc : closes p = true) :
    ∃ L R, iterEffects h st i = L ++ onGone h a ++ R ∧
      Effect.dispatchDisconnect a ∉ L ∧ Effect.drop a ∉ L ∧ ∀ e ∈ R, concerns a e = false := by
  obtain ⟨hast, _, hnotnext, _⟩ := gone_after_close hmem hnd hp hpa hpc
  obtain ⟨_, hst, _⟩ := nodup_step hnd
  obtain ⟨l1, l2, hsplit⟩ := List.append_of_mem hp
  have hnd2 := hpn
  rw [hsplit, List.map_append, List.map_cons, List.nodup_append, List.nodup_cons] at hnd2
  obtain ⟨_, ⟨hl2, _⟩, hl1⟩ := hnd2
  have hl1' : ∀ q ∈ l1, q.addr ≠ a := by
    intro q hq
    have := hl1 q.addr (List.mem_map_of_mem hq) p.addr (by simp)
    rwa [hpa] at this
  have hl2' : ∀ q ∈ l2, q.addr ≠ a := by
    intro q hq e
    exact hl2 (by rw [hpa, ← e]; exact List.mem_map_of_mem hq)
  have hpe : pollEffects h i.willPing p = (msgs p.results).flatMap (onMessage h a) ++ onGone h a := by
    unfold pollEffects; rw [if_pos hpc, hpa]
  refine ⟨l1.flatMap (pollEffects h i.willPing) ++ (msgs p.results).flatMap (onMessage h a),
    l2.flatMap (pollEffects h i.willPing) ++ i.incoming.flatMap (onConnect h) ++
      flush (nextStreams st i) i.outgoing, ?_, ?_, ?_, ?_⟩
  · unfold iterEffects
    rw [hsplit, List.flatMap_append, List.flatMap_cons, hpe]
    simp only [List.append_assoc]
  · intro hx
    simp only [List.mem_append, List.mem_flatMap] at hx
    rcases hx with ⟨q, hq, heq⟩ | ⟨m, _, hm⟩
    · have := addr_pollEffects heq
      simp [addrOf] at this
      exact hl1' q hq this.symm
    · cases mem_onMessage hm
  · intro hx
    simp only [List.mem_append, List.mem_flatMap] at hx
    rcases hx with ⟨q, hq, heq⟩ | ⟨m, _, hm⟩
    · have := addr_pollEffects heq
      simp [addrOf] at this
      exact hl1' q hq this.symm
    · cases mem_onMessage hm
  · intro e he
    simp only [List.mem_append, List.mem_flatMap] at he
    cases hcon : concerns a e
    · rfl
    · have hadr := concerns_addr hcon
      rcases he with (⟨q, hq, heq⟩ | ⟨b, hb, heb⟩) | he
      · have := (addr_pollEffects heq).symm.trans hadr
        simp at this
        exact absurd this (hl2' q hq)
      · rw [mem_onConnect heb] at hadr
        simp [addrOf] at hadr
        subst hadr
        exact absurd hb (hst _ hast).1
      · obtain ⟨b, bytes, rfl, hb⟩ := mem_flush he
        simp [addrOf] at hadr
        subst hadr
        exact absurd hb hnotnext

theorem silence_runEffects (h : Handlers) (a : Addr) : ∀ (is : List IterInput) (st : List Addr), RunOk' st is →
    (st ++ allIncoming is).Nodup →
    (∀ e ∈ ((runEffects h st is).dropWhile (· != .drop a)).drop 1, concerns a e = false) ∧
    (h.disconnect = true →
      ∀ e ∈ ((runEffects h st is).dropWhile (· != .dispatchDisconnect a)).drop 1, concerns a e = false) ∧
    (a ∉ st → a ∉ allIncoming is → ∀ e ∈ runEffects h st is, concerns a e = false ∧ e ≠ .drop a) := by
  intro is
  induction is with
  | nil => intro st _ _; simp [runEffects]
  | cons i is ih =>
    intro st hok hnd
    cases hs : i.shutdown
    · obtain ⟨hpn, hmem, hnext⟩ := runOk'_cons hs hok
      obtain ⟨hnd', hst, _⟩ := nodup_step hnd
      obtain ⟨ih1, ih2, ih3⟩ := ih _ hnext hnd'
      have hrun : runEffects h st (i :: is) = iterEffects h st i ++ runEffects h (nextStreams st i) is := by
        simp [runEffects, hs]
      rw [hrun]
      by_cases hc : closers a i = []
      · -- `a` is not found closed in this iteration: neither marker occurs in it
        have hnodrop : Effect.drop a ∉ iterEffects h st i := by
          rw [← List.count_eq_zero, count_drop_iterEffects, hc]; rfl
        have hnodd : Effect.dispatchDisconnect a ∉ iterEffects h st i := by
          rw [← List.count_eq_zero, count_dd_iterEffects, hc]; simp
        have skip : ∀ x : Effect, x ∉ iterEffects h st i →
            (iterEffects h st i ++ runEffects h (nextStreams st i) is).dropWhile (· != x) =
              (runEffects h (nextStreams st i) is).dropWhile (· != x) := by
          intro x hx
          apply List.dropWhile_append_of_pos
          intro y hy
          simp only [bne_iff_ne, ne_eq]
          intro e; subst e; exact hx hy
        refine ⟨?_, ?_, ?_⟩
        · rw [skip _ hnodrop]; exact ih1
        · intro hd; rw [skip _ hnodd]; exact ih2 hd
        · intro h1 h2 e he
          rw [List.mem_append] at he
          rcases he with he | he
          · exact silent_iter hmem h1 (fun hi => h2 (mem_allIncoming_cons.2 (Or.inl hi))) e he
          · have hnot : a ∉ nextStreams st i := by
              intro hn
              rcases mem_nextStreams.1 hn with hh | hh
              · exact h1 hh.1
              · exact h2 (mem_allIncoming_cons.2 (Or.inl hh))
            exact ih3 hnot (fun hi => h2 (mem_allIncoming_cons.2 (Or.inr hi))) e he
      · obtain ⟨p, hp, hpa, hpc⟩ := closedIn_of_closers hc
        obtain ⟨hast, _, hnotnext, hnotinc⟩ := gone_after_close hmem hnd hp hpa hpc
        obtain ⟨L, R, hIE, hLdd, hLdrop, hR⟩ := closing_iter_split (h := h) hpn hmem hnd hp hpa hpc
        have hrest : ∀ e ∈ R ++ runEffects h (nextStreams st i) is, concerns a e = false := by
          intro e he
          rw [List.mem_append] at he
          rcases he with he | he
          · exact hR e he
          · exact (ih3 hnotnext hnotinc e he).1
        refine ⟨?_, ?_, ?_⟩
        · -- after the removal
          have hL' : Effect.drop a ∉ L ++ (if h.disconnect then [Effect.dispatchDisconnect a] else []) := by
            intro hx
            rw [List.mem_append] at hx
            rcases hx with hx | hx
            · exact hLdrop hx
            · split at hx <;> simp at hx
          have : iterEffects h st i ++ runEffects h (nextStreams st i) is =
              (L ++ (if h.disconnect then [Effect.dispatchDisconnect a] else [])) ++
                Effect.drop a :: (R ++ runEffects h (nextStreams st i) is) := by
            rw [hIE]; unfold onGone; simp only [List.append_assoc, List.cons_append, List.nil_append]
          rw [this, after_marker hL']
          exact hrest
        · intro hd
          have : iterEffects h st i ++ runEffects h (nextStreams st i) is =
              L ++ Effect.dispatchDisconnect a :: (Effect.drop a :: (R ++ runEffects h (nextStreams st i) is)) := by
            rw [hIE]; unfold onGone
            simp only [hd, if_true, List.append_assoc, List.cons_append, List.nil_append]
          rw [this, after_marker hLdd]
          intro e he
          rw [List.mem_cons] at he
          rcases he with rfl | he
          · rfl
          · exact hrest e he
        · intro h1 _
          exact absurd hast h1
    · simp [runEffects, hs, concerns]

/-! ### Polling -/

/-- A client that is not in the table and is never admitted is never polled. -/
theorem never_polled (a : Addr) : ∀ (is : List IterInput) (st : List Addr), a ∉ st → a ∉ allIncoming is →
    RunOk' st is → ∀ j ∈ executed is, ∀ p ∈ j.polls, p.addr ≠ a := by
  intro is
  induction is with
  | nil => intro st _ _ _ j hj; simp [executed] at hj
  | cons i is ih =>
    intro st h1 h2 hok j hj
    cases hs : i.shutdown
    · obtain ⟨_, hmem, hnext⟩ := runOk'_cons hs hok
      simp only [executed, hs, Bool.false_eq_true, if_false, List.mem_cons] at hj
      rcases hj with rfl | hj
      · intro p hp e
        exact h1 (e ▸ hmem p hp)
      · have hnot : a ∉ nextStreams st i := by
          intro hn
          rcases mem_nextStreams.1 hn with hh | hh
          · exact h1 hh.1
          · exact h2 (mem_allIncoming_cons.2 (Or.inl hh))
        exact ih _ hnot (fun hi => h2 (mem_allIncoming_cons.2 (Or.inr hi))) hnext j hj
    · simp [executed, hs] at hj

theorem notPolled_run (a : Addr) : ∀ (is : List IterInput) (st : List Addr), RunOk' st is →
    (st ++ allIncoming is).Nodup → notPolledAfterClose a (executed is) = true := by
  intro is
  induction is with
  | nil => intro st _ _; simp [executed, notPolledAfterClose]
  | cons i is ih =>
    intro st hok hnd
    cases hs : i.shutdown
    · obtain ⟨_, hmem, hnext⟩ := runOk'_cons hs hok
      obtain ⟨hnd', _, _⟩ := nodup_step hnd
      simp only [executed, hs, Bool.false_eq_true, if_false, notPolledAfterClose]
      split
      · rename_i hcl
        simp only [closedIn, List.any_eq_true, Bool.and_eq_true, beq_iff_eq] at hcl
        obtain ⟨p, hp, hpa, hpc⟩ := hcl
        obtain ⟨_, _, hnot, hinc⟩ := gone_after_close hmem hnd hp hpa hpc
        simp only [List.all_eq_true, bne_iff_ne, ne_eq]
        intro j hj q hq
        exact never_polled a is _ hnot hinc hnext j hj q hq
      · exact ih _ hnext hnd'
    · simp [executed, hs, notPolledAfterClose]

/-- Nothing happens for a client that is neither in the table at the start nor admitted later. -/
theorem stranger_silent (h : Handlers) (a : Addr) : ∀ (is : List IterInput) (st : List Addr), a ∉ st →
    a ∉ admitted is → RunOk' st is → ∀ e ∈ runEffects h st is, concerns a e = false ∧ e ≠ .drop a := by
  intro is
  induction is with
  | nil => intro st _ _ _ e he; simp [runEffects] at he
  | cons i is ih =>
    intro st h1 h2 hok e he
    cases hs : i.shutdown
    · obtain ⟨_, hmem, hnext⟩ := runOk'_cons hs hok
      simp only [admitted, executed, hs, Bool.false_eq_true, if_false, List.flatMap_cons, List.mem_append,
        not_or] at h2
      simp only [runEffects, hs, Bool.false_eq_true, if_false, List.mem_append] at he
      rcases he with he | he
      · exact silent_iter hmem h1 h2.1 e he
      · have hnot : a ∉ nextStreams st i := by
          intro hn
          rcases mem_nextStreams.1 hn with hh | hh
          · exact h1 hh.1
          · exact h2.1 hh
        exact ih _ hnot h2.2 hnext e he
    · simp only [runEffects, hs, if_true, List.mem_singleton] at he
      subst he
      exact ⟨rfl, by simp⟩

/-- The bridge used by all run theorems: a consistent run does not panic and its trace is the normal form. -/
theorem run_trace {h : Handlers} {s : AppState} {is : List IterInput} (hp : s.phase = .running)
    (hok : RunOk h s is = true) : (runLoop h s is).2 = runEffects h s.streams is :=
  runLoop_eq h is s hp ((runOk_iff h is s hp).1 hok)


theorem mem_liveAtFlush {live : List Addr} {i : IterInput} {a : Addr} :
    a ∈ liveAtFlush live i ↔ a ∈ nextStreams live i := by
  rw [mem_nextStreams]
  simp [liveAtFlush]


end Humphrey.WsApp
