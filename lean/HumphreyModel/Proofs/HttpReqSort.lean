import HumphreyModel.Model.Http
/-
The header order used by serialisation (`HName.lt`: category, then displayed name) is a strict order,
and `Headers.sorted` (stable insertion sort) keeps the relative order of same-named fields.
-/
namespace Humphrey.Http
open Humphrey Humphrey.Bytes

/-! ## `bytesLt` is a strict order -/

theorem u8_tri (a b : UInt8) : a < b ∨ a = b ∨ b < a := by
  rcases Nat.lt_trichotomy a.toNat b.toNat with h | h | h
  · exact .inl (UInt8.lt_iff_toNat_lt.mpr h)
  · exact .inr (.inl (UInt8.toNat_inj.mp h))
  · exact .inr (.inr (UInt8.lt_iff_toNat_lt.mpr h))

theorem u8_lt_irrefl (a : UInt8) : ¬ a < a := by
  rw [UInt8.lt_iff_toNat_lt]; omega

theorem u8_lt_asymm {a b : UInt8} (h : a < b) : ¬ b < a := by
  rw [UInt8.lt_iff_toNat_lt] at h ⊢; omega

theorem u8_lt_trans {a b c : UInt8} (h : a < b) (h' : b < c) : a < c := by
  rw [UInt8.lt_iff_toNat_lt] at h h' ⊢; omega

theorem bytesLt_irrefl (a : Bytes) : bytesLt a a = false := by
  induction a with
  | nil => rfl
  | cons x xs ih => simp [bytesLt, ih]

theorem bytesLt_cons (x y : UInt8) (xs ys : Bytes) :
    bytesLt (x :: xs) (y :: ys) = true ↔ x < y ∨ (x = y ∧ bytesLt xs ys = true) := by
  simp only [bytesLt]
  rcases u8_tri x y with h | h | h
  · simp [h]
  · subst h; simp
  · have h1 := u8_lt_asymm h
    have h2 : x ≠ y := by intro e; subst e; exact u8_lt_irrefl _ h
    simp [h, h1, h2]

theorem bytesLt_trans : ∀ (a b c : Bytes), bytesLt a b = true → bytesLt b c = true → bytesLt a c = true
  | [], [], _, h, _ => by simp [bytesLt] at h
  | [], _ :: _, [], _, h => by simp [bytesLt] at h
  | [], _ :: _, _ :: _, _, _ => by simp [bytesLt]
  | _ :: _, [], _, h, _ => by simp [bytesLt] at h
  | _ :: _, _ :: _, [], _, h => by simp [bytesLt] at h
  | x :: xs, y :: ys, z :: zs, h, h' => by
    rw [bytesLt_cons] at h h' ⊢
    rcases h with h | ⟨rfl, h⟩
    · rcases h' with h' | ⟨rfl, h'⟩
      · exact .inl (u8_lt_trans h h')
      · exact .inl h
    · rcases h' with h' | ⟨rfl, h'⟩
      · exact .inl h'
      · exact .inr ⟨rfl, bytesLt_trans xs ys zs h h'⟩

theorem bytesLt_asymm (a b : Bytes) (h : bytesLt a b = true) : bytesLt b a = false := by
  cases h' : bytesLt b a with
  | false => rfl
  | true =>
    have := bytesLt_trans a b a h h'
    rw [bytesLt_irrefl] at this
    exact absurd this (by simp)

/-! ## `HName.lt` is a strict order -/

theorem HName.lt_irrefl (a : HName) : a.lt a = false := by
  simp [HName.lt, bytesLt_irrefl]

theorem HName.lt_iff (x y : HName) : x.lt y = true ↔
    x.category < y.category ∨ (x.category = y.category ∧ bytesLt x.display y.display = true) := by
  unfold HName.lt
  by_cases e : x.category = y.category
  · simp [e]
  · simp [e]

theorem HName.lt_trans {a b c : HName} (h : a.lt b = true) (h' : b.lt c = true) : a.lt c = true := by
  rw [HName.lt_iff] at h h' ⊢
  rcases h with h | ⟨e, h⟩
  · rcases h' with h' | ⟨e', h'⟩
    · exact .inl (by omega)
    · exact .inl (by omega)
  · rcases h' with h' | ⟨e', h'⟩
    · exact .inl (by omega)
    · exact .inr ⟨e.trans e', bytesLt_trans _ _ _ h h'⟩

theorem HName.lt_asymm {a b : HName} (h : a.lt b = true) : b.lt a = false := by
  cases h' : b.lt a with
  | false => rfl
  | true =>
    have := HName.lt_trans h h'
    rw [HName.lt_irrefl] at this
    exact absurd this (by simp)

/-! ## The stable sort -/

/-- No later element is smaller than an earlier one. -/
def Sorted (l : Headers) : Prop := l.Pairwise (fun x y => y.name.lt x.name = false)

theorem mem_insertSorted {h y : Header} {xs : Headers} :
    y ∈ insertSorted h xs ↔ y = h ∨ y ∈ xs := by
  induction xs with
  | nil => simp [insertSorted]
  | cons x xs ih =>
    simp only [insertSorted]
    split
    · simp
    · simp only [List.mem_cons, ih]
      constructor
      · rintro (h | h | h) <;> simp [h]
      · rintro (h | h | h) <;> simp [h]

theorem sorted_insertSorted (h : Header) {xs : Headers} (hs : Sorted xs) : Sorted (insertSorted h xs) := by
  induction xs with
  | nil => simp [insertSorted, Sorted]
  | cons x xs ih =>
    unfold Sorted at hs ih ⊢
    rw [List.pairwise_cons] at hs
    simp only [insertSorted]
    split
    · rename_i hlt
      rw [List.pairwise_cons]
      refine ⟨?_, List.pairwise_cons.mpr hs⟩
      intro y hy
      rcases List.mem_cons.mp hy with rfl | hy
      · exact HName.lt_asymm hlt
      · cases hyh : y.name.lt h.name with
        | false => rfl
        | true =>
          have := HName.lt_trans hyh hlt
          rw [hs.1 y hy] at this
          exact absurd this (by simp)
    · rename_i hlt
      rw [List.pairwise_cons]
      refine ⟨?_, ih hs.2⟩
      intro y hy
      rcases mem_insertSorted.mp hy with rfl | hy
      · simpa using hlt
      · exact hs.1 y hy

theorem getAll_cons (x : Header) (xs : Headers) (n : HName) :
    Headers.getAll (x :: xs) n = (if x.name = n then [x.value] else []) ++ Headers.getAll xs n := by
  unfold Headers.getAll
  by_cases e : x.name = n <;> simp [e]

/-- Inserting puts the new field after every field of the same name. -/
theorem getAll_insertSorted (h : Header) {xs : Headers} (hs : Sorted xs) (n : HName) :
    (insertSorted h xs).getAll n = xs.getAll n ++ (if h.name = n then [h.value] else []) := by
  induction xs with
  | nil => simp [insertSorted, Headers.getAll]; split <;> simp_all
  | cons x xs ih =>
    unfold Sorted at hs ih
    rw [List.pairwise_cons] at hs
    simp only [insertSorted]
    split
    · rename_i hlt
      by_cases e : h.name = n
      · subst e
        have hnone : Headers.getAll (x :: xs) h.name = [] := by
          unfold Headers.getAll
          rw [List.map_eq_nil_iff, List.filter_eq_nil_iff]
          intro y hy
          simp only [decide_eq_true_eq]
          intro e
          rcases List.mem_cons.mp hy with rfl | hy
          · rw [e, HName.lt_irrefl] at hlt; exact absurd hlt (by simp)
          · have := hs.1 y hy
            rw [e, hlt] at this; exact absurd this (by simp)
        rw [getAll_cons h, hnone]; simp
      · rw [getAll_cons h]; simp [e]
    · rw [getAll_cons x, ih hs.2, getAll_cons x, List.append_assoc]

theorem sorted_foldl (hs acc : Headers) (ha : Sorted acc) (n : HName) :
    Sorted (hs.foldl (fun acc h => insertSorted h acc) acc) ∧
    Headers.getAll (hs.foldl (fun acc h => insertSorted h acc) acc) n = acc.getAll n ++ hs.getAll n := by
  induction hs generalizing acc with
  | nil => simp [ha, Headers.getAll]
  | cons h hs ih =>
    simp only [List.foldl_cons]
    have := ih (insertSorted h acc) (sorted_insertSorted h ha)
    refine ⟨this.1, ?_⟩
    rw [this.2, getAll_insertSorted h ha, getAll_cons h, List.append_assoc]

theorem get_eq_head_getAll (hs : Headers) (n : HName) : hs.get n = (hs.getAll n).head? := by
  induction hs with
  | nil => rfl
  | cons x xs ih =>
    rw [getAll_cons]
    unfold Headers.get at ih ⊢
    by_cases e : x.name = n
    · simp [e]
    · simp [e, ih]

theorem sorted_getAll_aux (hs : Headers) (n : HName) : hs.sorted.getAll n = hs.getAll n := by
  have := (sorted_foldl hs [] (by simp [Sorted]) n).2
  simpa [Headers.sorted, Headers.getAll] using this

theorem sorted_sorted (hs : Headers) : Sorted hs.sorted :=
  (sorted_foldl hs [] (by simp [Sorted]) ⟨[]⟩).1

theorem sorted_get (hs : Headers) (n : HName) : hs.sorted.get n = hs.get n := by
  rw [get_eq_head_getAll, sorted_getAll_aux, get_eq_head_getAll]

theorem mem_sorted_foldl (hs acc : Headers) (y : Header) :
    y ∈ hs.foldl (fun acc h => insertSorted h acc) acc ↔ y ∈ acc ∨ y ∈ hs := by
  induction hs generalizing acc with
  | nil => simp
  | cons h hs ih =>
    simp only [List.foldl_cons, ih, mem_insertSorted, List.mem_cons]
    constructor
    · rintro ((h | h) | h) <;> simp [h]
    · rintro (h | h | h) <;> simp [h]

theorem mem_sorted {hs : Headers} {y : Header} : y ∈ hs.sorted ↔ y ∈ hs := by
  simp [Headers.sorted, mem_sorted_foldl]

theorem sorted_eq_nil {hs : Headers} : hs.sorted = [] ↔ hs = [] := by
  constructor
  · intro e
    cases hs with
    | nil => rfl
    | cons x xs =>
      have : x ∈ Headers.sorted (x :: xs) := mem_sorted.mpr (by simp)
      rw [e] at this; simp at this
  · rintro rfl; rfl

end Humphrey.Http
