import HumphreyModel.Proofs.Sha1Block

/-!
Helper lemmas for C18 (SHA-1), second part: schedule, rounds, chunk loop, digest.
-/
namespace Humphrey.Sha1
open Humphrey.Rfc3174

/-! ### The 80-word schedule -/

/-- What the in-place extension maintains: every word present is the RFC's `W(t)`. -/
def SchedInv (bits : List Bool) (ws : Array UInt32) : Prop :=
  16 ≤ ws.size ∧ ∀ t, t < ws.size → ws[t]? = some (W bits t)

theorem SchedInv.get {bits : List Bool} {ws : Array UInt32} (h : SchedInv bits ws) (t : Nat)
    (ht : t < ws.size) : ws[t]! = W bits t := by
  rw [Array.getElem!_eq_getD, Array.getD_eq_getD_getElem?, h.2 t ht]; rfl

theorem W_step (bits : List Bool) (t : Nat) (h : 16 ≤ t) :
    W bits t = S 1 (W bits (t - 3) ^^^ W bits (t - 8) ^^^ W bits (t - 14) ^^^ W bits (t - 16)) := by
  rw [W, dif_neg (by omega)]

theorem W_base (bits : List Bool) (t : Nat) (h : t < 16) : W bits t = M bits t := by
  rw [W, dif_pos h]

theorem extend_inv (bits : List Bool) (k : Nat) : ∀ ws : Array UInt32, SchedInv bits ws →
    SchedInv bits (extend ws k) ∧ (extend ws k).size = ws.size + k := by
  induction k with
  | zero => intro ws h; exact ⟨h, rfl⟩
  | succ k ih =>
    intro ws h
    have h16 := h.1
    have hnew : rotl (ws[ws.size - 3]! ^^^ ws[ws.size - 8]! ^^^ ws[ws.size - 14]! ^^^ ws[ws.size - 16]!) 1 =
        W bits ws.size := by
      rw [h.get _ (by omega), h.get _ (by omega), h.get _ (by omega), h.get _ (by omega), W_step bits _ h16]
      rfl
    have hinv : SchedInv bits (ws.push (rotl (ws[ws.size - 3]! ^^^ ws[ws.size - 8]! ^^^ ws[ws.size - 14]! ^^^
        ws[ws.size - 16]!) 1)) := by
      refine ⟨by rw [Array.size_push]; omega, ?_⟩
      intro t ht
      rw [Array.size_push] at ht
      rw [Array.getElem?_push]
      by_cases e : t = ws.size
      · rw [if_pos e, hnew, e]
      · rw [if_neg e]; exact h.2 t (by omega)
    obtain ⟨h1, h2⟩ := ih _ hinv
    refine ⟨h1, ?_⟩
    show (extend _ k).size = _
    rw [h2, Array.size_push]; omega

/-- The schedule built by `sha1.rs` for a 64-byte chunk is `W(0) … W(79)`. -/
theorem schedule_eq (block : Bytes) (h : block.length = 64) :
    (schedule block).size = 80 ∧ ∀ t, t < 80 → (schedule block).toList[t]? = some (W (bitsOfBytes block) t) := by
  have hlen : (wordsOfBytes block).length = 16 := by rw [wordsOfBytes_length, h]
  have h0 : SchedInv (bitsOfBytes block) (wordsOfBytes block).toArray := by
    refine ⟨by simp [hlen], ?_⟩
    intro t ht
    have ht' : t < 16 := by simpa [hlen] using ht
    rw [List.getElem?_toArray, words_eq_M t block (by omega), W_base _ _ ht']
  obtain ⟨h1, h2⟩ := extend_inv (bitsOfBytes block) 64 _ h0
  have hsize : (schedule block).size = 80 := by
    show (extend _ 64).size = 80
    rw [h2]; simp [hlen]
  refine ⟨hsize, ?_⟩
  intro t ht
  rw [Array.getElem?_toList]
  exact h1.2 t (by rw [show (extend (wordsOfBytes block).toArray 64).size = 80 from hsize]; exact ht)

/-! ### The rounds -/

def toState (r : Regs) : State := { a := r.A, b := r.B, c := r.C, d := r.D, e := r.E }

theorem step_eq (bits : List Bool) (H : Regs) (t : Nat) :
    step t (W bits t) (toState (regs bits H t)) = toState (regs bits H (t + 1)) := by
  simp only [step, regs, iteration, toState, Rfc3174.f, Rfc3174.K, rotl, S]
  by_cases h1 : t ≤ 19
  · simp only [h1, if_true, State.mk.injEq, and_true]; ac_rfl
  · by_cases h2 : t ≤ 39
    · simp only [h1, h2, if_true, if_false, State.mk.injEq, and_true]; ac_rfl
    · by_cases h3 : t ≤ 59
      · simp only [h1, h2, h3, if_true, if_false, State.mk.injEq, and_true]; ac_rfl
      · simp only [h1, h2, h3, if_false, State.mk.injEq, and_true]; ac_rfl

theorem rounds_eq (bits : List Bool) (H : Regs) : ∀ (l : List UInt32) (i : Nat),
    (∀ j, j < l.length → l[j]? = some (W bits (i + j))) →
    rounds l i (toState (regs bits H i)) = toState (regs bits H (i + l.length)) := by
  intro l
  induction l with
  | nil => intro i _; rfl
  | cons w l ih =>
    intro i h
    have hw : w = W bits i := by
      have := h 0 (by simp)
      simpa using this
    rw [rounds, hw, step_eq, ih (i + 1)]
    · congr 2; simp only [List.length_cons]; omega
    · intro j hj
      have := h (j + 1) (by simp only [List.length_cons]; omega)
      rw [List.getElem?_cons_succ] at this
      rw [this]; congr 2; omega

/-- One chunk of `sha1.rs` is one block of §6.1. -/
theorem compress_eq (H : Regs) (block : Bytes) (h : block.length = 64) :
    compress (toState H) block = toState (processBlock H (bitsOfBytes block)) := by
  obtain ⟨hsize, hw⟩ := schedule_eq block h
  have hlen : (schedule block).toList.length = 80 := by rw [Array.length_toList]; exact hsize
  have hr := rounds_eq (bitsOfBytes block) H (schedule block).toList 0
    (by intro j hj; rw [hlen] at hj; rw [hw j hj, Nat.zero_add])
  rw [hlen] at hr
  unfold compress processBlock
  simp only
  have e : toState (regs (bitsOfBytes block) H 0) = toState H := rfl
  rw [e] at hr
  rw [hr]
  rfl

/-! ### The chunk loop and the digest -/

theorem processBlocks_zero (msg : List Bool) (H : Regs) : processBlocks 0 msg H = H := by
  unfold processBlocks
  rw [blocks, List.foldl_nil]

theorem processBlocks_succ (k : Nat) (msg : List Bool) (H : Regs) :
    processBlocks (k + 1) msg H = processBlocks k (msg.drop 512) (processBlock H (msg.take 512)) := by
  unfold processBlocks
  rw [blocks, List.foldl_cons]

theorem processChunks_eq : ∀ (k : Nat) (msg : Bytes) (H : Regs), msg.length = 64 * k →
    processChunks k msg (toState H) = toState (processBlocks k (bitsOfBytes msg) H) := by
  intro k
  induction k with
  | zero => intro msg H _; rw [processBlocks_zero]; rfl
  | succ k ih =>
    intro msg H h
    have htake : (msg.take 64).length = 64 := by rw [List.length_take]; omega
    have hdrop : (msg.drop 64).length = 64 * k := by rw [List.length_drop]; omega
    rw [processBlocks_succ, processChunks, compress_eq H _ htake, ih _ _ hdrop, bitsOfBytes_take,
      bitsOfBytes_drop]

theorem be32_eq_wordBytes (w : UInt32) : be32 w = wordBytes w := rfl

theorem init_eq : init = toState H0 := rfl

/-- The model of `sha1.rs` computes the RFC 3174 digest, for every message. -/
theorem sha1_eq_digest (m : Bytes) : sha1 m = digest m := by
  have hmod := paddedLen_mod m.length
  have hlen : (pad m).length = 64 * (paddedLen m.length / 64) := by rw [pad_length]; omega
  unfold sha1 digest digestBits
  simp only
  rw [← pad_eq_rfc, bitsOfBytes_length, pad_length]
  have e : 8 * paddedLen m.length / 512 = paddedLen m.length / 64 := by omega
  rw [e, init_eq, processChunks_eq _ _ _ hlen]
  rfl

end Humphrey.Sha1
