import HumphreyModel.Proofs.ConfRound
import HumphreyModel.Proofs.ConfTotal

/-! Whole files: the `server {` search, the root section, and `str::lines` on joined lines. -/
namespace Humphrey.Conf

theorem findServer_fillers (fl : List (Str × Option Str)) (hf : ∀ f ∈ fl, ∀ x ∈ f.1, isBlank x = true)
    (rest : List Str) (ln : Nat) :
    findServer (fl.map fillerLine ++ rest) ln = findServer rest (ln + fl.length) := by
  induction fl generalizing ln with
  | nil => simp
  | cons f fl ih =>
    have h1 : cleanUp (fillerLine f) ≠ serverLine := by
      rw [cleanUp_filler (hf f (by simp))]; decide
    simp only [List.map_cons, List.cons_append, List.length_cons, findServer, h1, if_false]
    rw [ih (fun g hg => hf g (by simp [hg]))]
    congr 1; omega

theorem server_content : (∀ x ∈ serverLine, x ≠ '#') ∧ tight serverLine := by
  have e : serverLine = ['s', 'e', 'r', 'v', 'e', 'r', ' ', '{'] := by decide
  rw [e]
  exact ⟨by decide, ⟨'s', rfl, by decide⟩, ⟨'{', rfl, by decide⟩⟩

theorem findServer_render {d : Deco} (hd : d.ok) (rest : List Str) :
    findServer (mkLines d serverLine ++ rest) 0 = some (rest, d.pre.length + 1) := by
  obtain ⟨hpre, hind, _, _, htr, _⟩ := hd
  unfold mkLines
  rw [List.append_assoc, findServer_fillers d.pre (fun f hf => (hpre f hf).1)]
  have hc := cleanUp_line (ind := d.indent) (content := serverLine) (tr := d.trail) d.comment hind htr
    server_content.1 (Or.inr server_content.2)
  simp only [List.singleton_append, findServer]
  rw [hc]
  simp

theorem renderLines_eq (lay : Layout) (cs : List Node) :
    renderLines lay cs =
      mkLines (lay.line []) serverLine ++ renderNodes lay [] 0 cs ++ mkLines (lay.close []) ['}'] := rfl

/-- Lines level: the rendered lines of a well-formed tree parse back to the tree. -/
theorem parseConfLines_render (fs : FS) (file : Str) (lay : Layout) (hl : lay.ok) (cs : List Node)
    (hwf : WFNodes cs) (hdep : nodesDepth cs ≤ maxDepth) :
    parseConfLines fs (renderLines lay cs) file = .ok (.section "server".toList cs) := by
  unfold parseConfLines
  rw [renderLines_eq, List.append_assoc, findServer_render (hl []).1]
  simp only
  have h1 := go_renderNodes (parseFile fs (maxDepth + 2)) file 0 lay hl cs hwf [] 0
    (mkLines (lay.close []) ['}'] ++ []) ((lay.line []).pre.length + 1) [] [] (by simpa using hdep)
  simp only [List.append_nil] at h1
  rw [h1]
  obtain ⟨raw, hc, hgo⟩ := go_mkLines (parseFile fs (maxDepth + 2)) file 0 (hl []).2 (content := ['}'])
    (by decide) tight_brace [] ((lay.line []).pre.length + 1 + (renderNodes lay [] 0 cs).length) [] cs.reverse
  simp only [List.append_nil] at hgo
  rw [hgo, go_close_done _ _ _ hc]
  simp

/-! ### `str::lines` -/

def lineClean (l : Str) : Prop := (∀ c ∈ l, c ≠ '\n') ∧ l.getLast? ≠ some '\r'

theorem splitLinesAux_run (l rest cur : Str) (h : ∀ c ∈ l, c ≠ '\n') :
    splitLinesAux (l ++ rest) cur = splitLinesAux rest (l.reverse ++ cur) := by
  induction l generalizing cur with
  | nil => simp
  | cons c l ih =>
    have hc : c ≠ '\n' := h c (by simp)
    simp only [List.cons_append, splitLinesAux, hc, if_false]
    rw [ih _ (fun x hx => h x (by simp [hx]))]
    simp

theorem stripCr_clean {l : Str} (h : l.getLast? ≠ some '\r') : stripCr l = l := by
  simp [stripCr, stripSuffixChar_none h]

/-- `lines()` of lines joined by `\n` gives the lines back (no line contains `\n` or ends in
`\r`, and the last one is not empty). -/
theorem splitLines_joinLines (ls : List Str) (hne : ls ≠ []) (hc : ∀ l ∈ ls, lineClean l)
    (hlast : ls.getLast? ≠ some []) : splitLines (joinLines ls) = ls := by
  unfold splitLines
  induction ls with
  | nil => exact absurd rfl hne
  | cons l rest ih =>
    cases rest with
    | nil =>
      have hl : l ≠ [] := by intro e; subst e; simp at hlast
      have := splitLinesAux_run l [] [] (hc l (by simp)).1
      simp only [List.append_nil] at this
      simp only [joinLines, this, splitLinesAux]
      cases l with
      | nil => exact absurd rfl hl
      | cons a l => simp
    | cons r rest =>
      have h1 := splitLinesAux_run l ('\n' :: joinLines (r :: rest)) [] (hc l (by simp)).1
      simp only [joinLines, h1, List.append_nil, splitLinesAux, if_true, List.reverse_reverse]
      rw [stripCr_clean (hc l (by simp)).2]
      rw [ih (by simp) (fun x hx => hc x (by simp [hx])) (by simpa using hlast)]

end Humphrey.Conf
