import HumphreyModel.Proofs.ConfModelTotal

/-!
C15, part B: the flattened map of `Cfg.toTree` and the look-ups `from_tree` makes in it.
-/
namespace Humphrey.Conf

/-- An optional binding. -/
def cfgrt_optB (key : Str) : Option Node → Map
  | none => []
  | some n => [(key, n)]

theorem cfgrt_get_optB_ne {key q : Str} (h : key ≠ q) (o : Option Node) (m : Map) :
    Map.get (cfgrt_optB key o ++ m) q = Map.get m q := by
  cases o with
  | none => rfl
  | some n => simp [cfgrt_optB, Map.get, h]

theorem cfgrt_get_optB_eq (key : Str) (o : Option Node) (m : Map) :
    Map.get (cfgrt_optB key o ++ m) key = (match o with | some n => some n | none => Map.get m key) := by
  cases o with
  | none => rfl
  | some n => simp [cfgrt_optB, Map.get]

theorem cfgrt_flattenList_append (level : List Str) (a b : List Node) (m : Map) :
    flattenList level (a ++ b) m = flattenList level b (flattenList level a m) := by
  induction a generalizing m with
  | nil => simp [flattenList]
  | cons n a ih => simp [flattenList, ih]

theorem cfgrt_flatten_strKey (level : List Str) (key : Str) (o : Option Str) (m : Map) :
    flattenList level (strKey key o) m =
      cfgrt_optB (joinDots (level ++ [key])) (o.map (Node.string key)) ++ m := by
  cases o <;> simp [strKey, flattenList, flattenNode, cfgrt_optB]

theorem cfgrt_flatten_numKey (level : List Str) (key : Str) (o : Option Nat) (m : Map) :
    flattenList level (numKey key o) m =
      cfgrt_optB (joinDots (level ++ [key])) (o.map (fun n => Node.number key (showNat n))) ++ m := by
  cases o <;> simp [numKey, flattenList, flattenNode, cfgrt_optB]

theorem cfgrt_flatten_boolKey (level : List Str) (key : Str) (o : Option Bool) (m : Map) :
    flattenList level (boolKey key o) m =
      cfgrt_optB (joinDots (level ++ [key])) (o.map (fun b => Node.boolean key (boolText b))) ++ m := by
  cases o <;> simp [boolKey, flattenList, flattenNode, cfgrt_optB]

theorem cfgrt_flatten_optSection (level : List Str) (name : Str) (hn : name ≠ "plugins".toList)
    (cs : List Node) (m : Map) :
    flattenList level (optSection name cs) m = flattenList (level ++ [name]) cs m := by
  unfold optSection
  split
  · rename_i h
    have : cs = [] := by simpa using h
    subst this; simp [flattenList]
  · simp only [flattenList, flattenNode, if_neg hn]

theorem cfgrt_flatten_itemNodes (level : List Str) (is : List Item) (m : Map) :
    flattenList level (itemNodes is) m = m := by
  induction is with
  | nil => simp [itemNodes, flattenList]
  | cons i is ih =>
    cases i <;> simp [itemNodes, flattenList, flattenNode, Item.toNode, RouteCfg.toNode, HostCfg.toNode, ih]

/-- The bindings of the flattened tree of a model, newest first. -/
def cfgrt_serverMap (c : Cfg) : Map :=
  cfgrt_optB (k "server.cache.time") (c.cacheTime.map (fun n => Node.number ['t', 'i', 'm', 'e'] (showNat n))) ++
  (cfgrt_optB (k "server.cache.size") (c.cacheSize.map (fun n => Node.number ['s', 'i', 'z', 'e'] (showNat n))) ++
  (cfgrt_optB (k "server.log.file") (c.logFile.map (Node.string ['f', 'i', 'l', 'e'])) ++
  (cfgrt_optB (k "server.log.console") (c.logConsole.map (fun b => Node.boolean ['c', 'o', 'n', 's', 'o', 'l', 'e'] (boolText b))) ++
  (cfgrt_optB (k "server.log.level") ((c.logLevel.map LogLevel.text).map (Node.string ['l', 'e', 'v', 'e', 'l'])) ++
  (cfgrt_optB (k "server.blacklist.mode") ((c.blacklistMode.map BlacklistMode.text).map (Node.string ['m', 'o', 'd', 'e'])) ++
  (cfgrt_optB (k "server.blacklist.file") ((c.blacklist.map (·.1)).map (Node.string ['f', 'i', 'l', 'e'])) ++
  (cfgrt_optB (k "server.timeout") (c.timeout.map (fun n => Node.number ['t', 'i', 'm', 'e', 'o', 'u', 't'] (showNat n))) ++
  (cfgrt_optB (k "server.websocket") (c.websocket.map (Node.string wsKey)) ++
  (cfgrt_optB (k "server.threads") (c.threads.map (fun n => Node.number ['t', 'h', 'r', 'e', 'a', 'd', 's'] (showNat n))) ++
  (cfgrt_optB (k "server.port") (c.port.map (fun n => Node.number ['p', 'o', 'r', 't'] (showNat n))) ++
  (cfgrt_optB (k "server.address") (c.address.map (Node.string ['a', 'd', 'd', 'r', 'e', 's', 's'])) ++ [])))))))))))

theorem cfgrt_flatten_toTree (c : Cfg) : flattenNode [] c.toTree [] = cfgrt_serverMap c := by
  have hs : "server".toList ≠ "plugins".toList := by decide
  have p1 : joinDots ["server".toList, ['a', 'd', 'd', 'r', 'e', 's', 's']] = k "server.address" := by decide
  have p2 : joinDots ["server".toList, ['p', 'o', 'r', 't']] = k "server.port" := by decide
  have p3 : joinDots ["server".toList, ['t', 'h', 'r', 'e', 'a', 'd', 's']] = k "server.threads" := by decide
  have p4 : joinDots ["server".toList, wsKey] = k "server.websocket" := by decide
  have p5 : joinDots ["server".toList, ['t', 'i', 'm', 'e', 'o', 'u', 't']] = k "server.timeout" := by decide
  have p6 : joinDots ["server".toList, ['b', 'l', 'a', 'c', 'k', 'l', 'i', 's', 't'], ['f', 'i', 'l', 'e']] =
      k "server.blacklist.file" := by decide
  have p7 : joinDots ["server".toList, ['b', 'l', 'a', 'c', 'k', 'l', 'i', 's', 't'], ['m', 'o', 'd', 'e']] =
      k "server.blacklist.mode" := by decide
  have p8 : joinDots ["server".toList, ['l', 'o', 'g'], ['l', 'e', 'v', 'e', 'l']] = k "server.log.level" := by decide
  have p9 : joinDots ["server".toList, ['l', 'o', 'g'], ['c', 'o', 'n', 's', 'o', 'l', 'e']] =
      k "server.log.console" := by decide
  have p10 : joinDots ["server".toList, ['l', 'o', 'g'], ['f', 'i', 'l', 'e']] = k "server.log.file" := by decide
  have p11 : joinDots ["server".toList, ['c', 'a', 'c', 'h', 'e'], ['s', 'i', 'z', 'e']] = k "server.cache.size" := by decide
  have p12 : joinDots ["server".toList, ['c', 'a', 'c', 'h', 'e'], ['t', 'i', 'm', 'e']] = k "server.cache.time" := by decide
  have n1 : ['b', 'l', 'a', 'c', 'k', 'l', 'i', 's', 't'] ≠ "plugins".toList := by decide
  have n2 : ['l', 'o', 'g'] ≠ "plugins".toList := by decide
  have n3 : ['c', 'a', 'c', 'h', 'e'] ≠ "plugins".toList := by decide
  unfold Cfg.toTree Cfg.children Cfg.scalarNodes cfgrt_serverMap
  simp only [flattenNode, hs, if_false, cfgrt_flattenList_append, cfgrt_flatten_strKey, cfgrt_flatten_numKey,
    cfgrt_flatten_boolKey, cfgrt_flatten_optSection _ _ n1, cfgrt_flatten_optSection _ _ n2,
    cfgrt_flatten_optSection _ _ n3, cfgrt_flatten_itemNodes, List.nil_append, List.cons_append,
    p1, p2, p3, p4, p5, p6, p7, p8, p9, p10, p11, p12]

end Humphrey.Conf
