import HumphreyModel.Proofs.JsonNum

/-!
Helper lemmas for C13, part 3: whitespace, delimiters, strings of the spec (`StrBody`) against
`parseString`, literals.
-/
namespace Humphrey.Json
open Humphrey.JsonSpec

theorem isWhitespace_iff (c : Char) : isWhitespace c = true ↔ WsChar c := by
  simp [isWhitespace, WsChar, or_assoc]

theorem flush_ws_append {w : List Char} (x : List Char) (hw : Ws w) :
    flushWhitespace (w ++ x) = flushWhitespace x := by
  induction w with
  | nil => rfl
  | cons c w ih =>
    have hc : isWhitespace c = true := (isWhitespace_iff c).2 (hw c (by simp))
    simp only [flushWhitespace, List.cons_append, List.dropWhile_cons, hc, if_true]
    exact ih (fun x hx => hw x (by simp [hx]))

theorem flush_nonws {c : Char} (r : List Char) (h : isWhitespace c = false) :
    flushWhitespace (c :: r) = c :: r := by
  simp [flushWhitespace, List.dropWhile_cons, h]

theorem flush_ws {w : List Char} (hw : Ws w) : flushWhitespace w = [] := by
  have := flush_ws_append [] hw
  simpa [flushWhitespace] using this

/-- what may follow a literal token: end of input or a character that ends the token -/
def Delim (l : List Char) : Prop := ∀ c r, l = c :: r → isLiteral c = false

theorem delim_nil : Delim [] := by intro c r h; cases h
theorem delim_cons {c : Char} {r : List Char} (h : isLiteral c = false) : Delim (c :: r) := by
  intro c' r' e; cases e; exact h

theorem isLiteral_ws {c : Char} (h : WsChar c) : isLiteral c = false := by
  have := (isWhitespace_iff c).2 h
  simp [isLiteral, this]

theorem delim_ws_append {w x : List Char} (hw : Ws w) (hx : Delim x) : Delim (w ++ x) := by
  cases w with
  | nil => simpa using hx
  | cons c w => exact delim_cons (isLiteral_ws (hw c (by simp)))

theorem takeWhile_literal {t rest : List Char} (ht : ∀ x ∈ t, isLiteral x = true) (hr : Delim rest) :
    (t ++ rest).takeWhile isLiteral = t ∧ (t ++ rest).dropWhile isLiteral = rest := by
  induction t with
  | nil =>
    cases rest with
    | nil => simp
    | cons c r => simp [List.takeWhile_cons, List.dropWhile_cons, hr c r rfl]
  | cons c t ih =>
    have hc := ht c (by simp)
    have := ih (fun x hx => ht x (by simp [hx]))
    simp [List.takeWhile_cons, List.dropWhile_cons, hc, this]

/-! ### strings -/

theorem hexVal_of_hexDigit {c : Char} {v : Nat} (h : HexDigit c v) : hexVal c = some v := by
  unfold HexDigit at h
  unfold hexVal
  have e0 : '0'.toNat = 48 := rfl
  have e9 : '9'.toNat = 57 := rfl
  have ea : 'a'.toNat = 97 := rfl
  have ef : 'f'.toNat = 102 := rfl
  have eA : 'A'.toNat = 65 := rfl
  have eF : 'F'.toNat = 70 := rfl
  simp only [char_le_iff, e0, e9, ea, ef, eA, eF] at h ⊢
  rcases h with ⟨h1, h2, rfl⟩ | ⟨h1, h2, rfl⟩ | ⟨h1, h2, rfl⟩
  · simp [h1, h2]
  · have : ¬ (48 ≤ c.toNat ∧ c.toNat ≤ 57) := by omega
    simp [this, h1, h2]
  · have n1 : ¬ (48 ≤ c.toNat ∧ c.toNat ≤ 57) := by omega
    have n2 : ¬ (97 ≤ c.toNat ∧ c.toNat ≤ 102) := by omega
    simp [n1, n2, h1, h2]

theorem hexDigit_of_hexVal {c : Char} {v : Nat} (h : hexVal c = some v) : HexDigit c v := by
  unfold hexVal at h
  unfold HexDigit
  split at h
  · rename_i h1; simp only [Option.some.injEq] at h; exact Or.inl ⟨h1.1, h1.2, h.symm⟩
  · split at h
    · rename_i h1; simp only [Option.some.injEq] at h; exact Or.inr (Or.inl ⟨h1.1, h1.2, h.symm⟩)
    · split at h
      · rename_i h1; simp only [Option.some.injEq] at h; exact Or.inr (Or.inr ⟨h1.1, h1.2, h.symm⟩)
      · simp at h

theorem hex4_of_Hex4 {h : List Char} {n : Nat} (hh : Hex4 h n) (t : List Char) :
    hex4 (h ++ t) = some (n, t) := by
  cases hh with
  | mk ha hb hc hd =>
    simp [hex4, hexVal_of_hexDigit ha, hexVal_of_hexDigit hb, hexVal_of_hexDigit hc, hexVal_of_hexDigit hd]

theorem Hex4_of_hex4 {s r : List Char} {n : Nat} (h : hex4 s = some (n, r)) :
    ∃ hx, Hex4 hx n ∧ s = hx ++ r := by
  match s, h with
  | a :: b :: c :: d :: rest, h =>
    simp only [hex4] at h
    split at h
    · rename_i ha hb hc hd
      simp only [Option.some.injEq, Prod.mk.injEq] at h
      obtain ⟨rfl, rfl⟩ := h
      exact ⟨[a, b, c, d], .mk (hexDigit_of_hexVal ha) (hexDigit_of_hexVal hb) (hexDigit_of_hexVal hc)
        (hexDigit_of_hexVal hd), rfl⟩
    · simp at h

theorem parseEscape_simple {e c : Char} (h : SimpleEscape e c) (t : List Char) :
    parseEscape (e :: t) = some (c, t) := by
  cases h <;> simp [parseEscape, simpleEscape] <;> rfl

theorem unescaped_iff (c : Char) : isUnescaped c = true ↔ Unescaped c := by
  rw [isUnescaped_iff]; rfl

theorem unescaped_ne {c : Char} (h : Unescaped c) : c ≠ '\\' ∧ c ≠ '"' := by
  unfold Unescaped at h
  constructor
  · intro e; subst e; revert h; decide
  · intro e; subst e; revert h; decide

/-- Completeness for strings: the text of a `StrBody` followed by the closing quote is read back
as the string it denotes. -/
theorem parseString_of_strBody {t s : List Char} (h : StrBody t s) (rest : List Char) :
    parseString (t ++ '"' :: rest) = some (s, rest) := by
  induction h with
  | nil => simp [parseString_cons]
  | @raw c t s hc _ ih =>
    obtain ⟨h1, h2⟩ := unescaped_ne hc
    simp [parseString_cons, h1, h2, (unescaped_iff c).2 hc, ih]
  | @esc e c t s he _ ih =>
    simp only [List.cons_append, parseString_cons, if_true, parseEscape_simple he, ih, consResult_some]
  | @u h t s n hh hn _ ih =>
    simp only [List.cons_append, List.append_assoc, parseString_cons, if_true, parseEscape,
      parseUnicodeEscape, hex4_of_Hex4 hh, hn, ih, consResult_some]
  | @pair h1 h2 t s hi lo hh1 hh2 a1 a2 a3 a4 _ ih =>
    have hns : ¬ (hi < 0xD800 ∨ 0xDFFF < hi) := by omega
    simp only [List.cons_append, List.append_assoc, parseString_cons, if_true, parseEscape,
      parseUnicodeEscape, hex4_of_Hex4 hh1, hns, if_false, parseLowSurrogate, and_self,
      hex4_of_Hex4 hh2, a2, a3, a4, ih, consResult_some]

end Humphrey.Json
