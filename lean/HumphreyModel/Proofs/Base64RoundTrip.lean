import HumphreyModel.Proofs.Base64

/-! Round trip `decode (encode b) = ok b` for the Base64 model. -/
namespace Humphrey.Base64

theorem decodeGroup_sym {c : UInt8} {v : Nat} (l : Bool) (i : Nat) (rest : Bytes) (d : Nat)
    (hc : c ≠ 61) (hv : sextet c = some v) :
    decodeGroup l i (c :: rest) d = decodeGroup l (i + 1) rest (d + v * 2 ^ (6 * (3 - i))) := by
  simp [decodeGroup, hc, hv]

theorem decodeGroup_pad (l : Bool) (i : Nat) (rest : Bytes) (d : Nat) :
    decodeGroup l i (61 :: rest) d =
      if l && decide (2 ≤ i) && rest.all (· == 61) then some (d, i) else none := by
  simp [decodeGroup]

/-- A full group of encoder output decodes to the three bytes it came from, whatever follows. -/
theorem decodeGroup_full (l : Bool) (a b c : UInt8) :
    decodeGroup l 0 ((groupIndices a.toNat b.toNat c.toNat).map sym) 0 =
      some (a.toNat * 65536 + b.toNat * 256 + c.toNat, 4) := by
  obtain ⟨h0, h1, h2, h3, -, -⟩ := groupIndices_lt a.toNat_lt b.toNat_lt c.toNat_lt
  simp only [groupIndices, List.map_cons, List.map_nil]
  rw [decodeGroup_sym _ _ _ _ (sym_ne_pad h0) (sextet_sym h0),
    decodeGroup_sym _ _ _ _ (sym_ne_pad h1) (sextet_sym h1),
    decodeGroup_sym _ _ _ _ (sym_ne_pad h2) (sextet_sym h2),
    decodeGroup_sym _ _ _ _ (sym_ne_pad h3) (sextet_sym h3)]
  simp only [decodeGroup, Option.some.injEq, Prod.mk.injEq, and_true]
  omega

theorem slice1_four (d : Nat) :
    slice1 (beBytes d) 4 =
      some [UInt8.ofNat (d / 65536 % 256), UInt8.ofNat (d / 256 % 256), UInt8.ofNat (d % 256)] := by
  simp [slice1, beBytes]

theorem slice1_three (d : Nat) :
    slice1 (beBytes d) 3 = some [UInt8.ofNat (d / 65536 % 256), UInt8.ofNat (d / 256 % 256)] := by
  simp [slice1, beBytes]

theorem slice1_two (d : Nat) : slice1 (beBytes d) 2 = some [UInt8.ofNat (d / 65536 % 256)] := by
  simp [slice1, beBytes]

theorem ofNat_of_eq_toNat {n : Nat} {b : UInt8} (h : n = b.toNat) : UInt8.ofNat n = b := by
  rw [h]; exact UInt8.ofNat_toNat

theorem encode_ne_nil_pad_free_head (a b c : UInt8) (rest : Bytes) :
    decodeGroups ((groupIndices a.toNat b.toNat c.toNat).map sym ++ rest) =
      match decodeGroups rest with
      | .ok r => .ok (a :: b :: c :: r)
      | o => o := by
  have hg := decodeGroup_full rest.isEmpty a b c
  simp only [groupIndices, List.map_cons, List.map_nil, List.cons_append, List.nil_append] at hg ⊢
  simp only [decodeGroups, hg, slice1_four]
  have ha := a.toNat_lt
  have hb := b.toNat_lt
  have hc := c.toNat_lt
  have e1 : UInt8.ofNat ((a.toNat * 65536 + b.toNat * 256 + c.toNat) / 65536 % 256) = a :=
    ofNat_of_eq_toNat (by omega)
  have e2 : UInt8.ofNat ((a.toNat * 65536 + b.toNat * 256 + c.toNat) / 256 % 256) = b :=
    ofNat_of_eq_toNat (by omega)
  have e3 : UInt8.ofNat ((a.toNat * 65536 + b.toNat * 256 + c.toNat) % 256) = c :=
    ofNat_of_eq_toNat (by omega)
  rw [e1, e2, e3]
  cases decodeGroups rest <;> rfl

theorem decodeGroup_tail1 (a : UInt8) :
    decodeGroup true 0 [sym (a.toNat / 4), sym (a.toNat % 4 * 16), 61, 61] 0 =
      some (a.toNat * 65536, 2) := by
  obtain ⟨h0, -, -, -, h4, -⟩ := groupIndices_lt a.toNat_lt a.toNat_lt a.toNat_lt
  rw [decodeGroup_sym _ _ _ _ (sym_ne_pad h0) (sextet_sym h0),
    decodeGroup_sym _ _ _ _ (sym_ne_pad h4) (sextet_sym h4), decodeGroup_pad]
  simp
  omega

theorem decodeGroup_tail2 (a b : UInt8) :
    decodeGroup true 0
        [sym (a.toNat / 4), sym (a.toNat % 4 * 16 + b.toNat / 16), sym (b.toNat % 16 * 4), 61] 0 =
      some (a.toNat * 65536 + b.toNat * 256, 3) := by
  obtain ⟨h0, h1, -, -, -, h5⟩ := groupIndices_lt a.toNat_lt b.toNat_lt a.toNat_lt
  rw [decodeGroup_sym _ _ _ _ (sym_ne_pad h0) (sextet_sym h0),
    decodeGroup_sym _ _ _ _ (sym_ne_pad h1) (sextet_sym h1),
    decodeGroup_sym _ _ _ _ (sym_ne_pad h5) (sextet_sym h5), decodeGroup_pad]
  simp
  omega

theorem decodeGroups_encode (bs : Bytes) : decodeGroups (encode bs) = .ok bs := by
  induction bs using encode.induct with
  | case1 a b c rest ih =>
    rw [encode, encode_ne_nil_pad_free_head, ih]
  | case2 a =>
    have ha := a.toNat_lt
    simp only [encode, decodeGroups, List.isEmpty_nil, decodeGroup_tail1, slice1_two,
      List.append_nil]
    have e1 : UInt8.ofNat (a.toNat * 65536 / 65536 % 256) = a := ofNat_of_eq_toNat (by omega)
    rw [e1]
  | case3 a b =>
    have ha := a.toNat_lt
    have hb := b.toNat_lt
    simp only [encode, decodeGroups, List.isEmpty_nil, decodeGroup_tail2, slice1_three,
      List.append_nil]
    have e1 : UInt8.ofNat ((a.toNat * 65536 + b.toNat * 256) / 65536 % 256) = a :=
      ofNat_of_eq_toNat (by omega)
    have e2 : UInt8.ofNat ((a.toNat * 65536 + b.toNat * 256) / 256 % 256) = b :=
      ofNat_of_eq_toNat (by omega)
    rw [e1, e2]
  | case4 => rfl

theorem encode_length_mod (bs : Bytes) : (encode bs).length % 4 = 0 := by
  induction bs using encode.induct with
  | case1 a b c rest ih => simp [encode, groupIndices]; omega
  | case2 a => simp [encode]
  | case3 a b => simp [encode]
  | case4 => simp [encode]

theorem decode_encode' (bs : Bytes) : decode (encode bs) = .ok bs := by
  simp [decode, encode_length_mod, decodeGroups_encode]

end Humphrey.Base64
