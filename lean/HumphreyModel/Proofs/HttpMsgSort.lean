import HumphreyModel.Model.Http
/-
`Headers.sorted` (the stable insertion sort behind `Headers::iter`) is a permutation that keeps
same-named headers in their original relative order: for every name, the sub-list of headers with
that name is unchanged. Needs `HName.lt` to be a strict order (irreflexive, transitive).
-/
namespace Humphrey.Http
open Humphrey Humphrey.Bytes

/-! ## `HName.lt` is a strict order -/

theorem bytesLt_irrefl_m (a : Bytes) : bytesLt a a = false := by
  induction a with
  | nil => rfl
  | cons x xs ih => simp [bytesLt, UInt8.lt_irrefl, ih]

theorem bytesLt_trans_m (a b c : Bytes) (h1 : bytesLt a b = true) (h2 : bytesLt b c = true) :
    bytesLt a c = true := by
  induction a generalizing b c with
  | nil =>
    cases b with
    | nil => simp [bytesLt] at h1
    | cons y ys =>
      cases c with
      | nil => simp [bytesLt] at h2
      | cons z zs => simp [bytesLt]
  | cons x xs ih =>
    cases b with
    | nil => simp [bytesLt] at h1
    | cons y ys =>
      cases c with
      | nil => simp [bytesLt] at h2
      | cons z zs =>
        simp only [bytesLt] at h1 h2 ⊢
        by_cases hxy : x < y
        · by_cases hyz : y < z
          · simp [UInt8.lt_trans hxy hyz]
          · simp only [hyz, if_false] at h2
            by_cases hzy : z < y
            · simp [hzy] at h2
            · have : y = z := UInt8.le_antisymm (UInt8.not_lt.mp hzy) (UInt8.not_lt.mp hyz)
              subst this; simp [hxy]
        · simp only [hxy, if_false] at h1
          by_cases hyx : y < x
          · simp [hyx] at h1
          · have : x = y := UInt8.le_antisymm (UInt8.not_lt.mp hyx) (UInt8.not_lt.mp hxy)
            subst this
            simp only [hyx, if_false] at h1
            by_cases hxz : x < z
            · simp [hxz]
            · simp only [hxz, if_false] at h2 ⊢
              by_cases hzx : z < x
              · simp [hzx] at h2
              · simp only [hzx, if_false] at h2 ⊢
                exact ih _ _ h1 h2

theorem HName.lt_irrefl_m (a : HName) : a.lt a = false := by
  simp [HName.lt, bytesLt_irrefl_m]

theorem HName.lt_trans_m (a b c : HName) (h1 : a.lt b = true) (h2 : b.lt c = true) : a.lt c = true := by
  simp only [HName.lt] at h1 h2 ⊢
  by_cases hab : a.category = b.category
  · by_cases hbc : b.category = c.category
    · have hac : a.category = c.category := hab.trans hbc
      simp only [hab, hbc, ne_eq, not_true_eq_false, if_false] at h1 h2 ⊢
      exact bytesLt_trans_m _ _ _ h1 h2
    · have hac : a.category ≠ c.category := by rw [hab]; exact hbc
      simp only [hbc, hac, ne_eq, not_false_eq_true, if_true, decide_eq_true_eq] at h2 ⊢
      omega
  · simp only [hab, ne_eq, not_false_eq_true, if_true, decide_eq_true_eq] at h1
    by_cases hbc : b.category = c.category
    · have hac : a.category ≠ c.category := by rw [← hbc]; exact hab
      simp only [hac, ne_eq, not_false_eq_true, if_true, decide_eq_true_eq]
      omega
    · simp only [hbc, ne_eq, not_false_eq_true, if_true, decide_eq_true_eq] at h2
      have hac : a.category ≠ c.category := by omega
      simp only [hac, ne_eq, not_false_eq_true, if_true, decide_eq_true_eq]
      omega

/-! ## Insertion keeps the list sorted and keeps every per-name sub-list -/

/-- Sorted for `insertSorted`: no later element is smaller than an earlier one. -/
def SortedH (l : Headers) : Prop := l.Pairwise (fun a b => b.name.lt a.name = false)

theorem mem_insertSorted_m (h x : Header) (l : Headers) :
    x ∈ insertSorted h l ↔ x = h ∨ x ∈ l := by
  induction l with
  | nil => simp [insertSorted]
  | cons y ys ih =>
    simp only [insertSorted]
    split
    · simp
    · simp only [List.mem_cons, ih]
      constructor
      · rintro (h1 | h1 | h1) <;> simp [h1]
      · rintro (h1 | h1 | h1) <;> simp [h1]

theorem sortedH_insert (h : Header) (l : Headers) (hs : SortedH l) : SortedH (insertSorted h l) := by
  induction l with
  | nil => simp [insertSorted, SortedH]
  | cons x xs ih =>
    simp only [SortedH, List.pairwise_cons] at hs
    obtain ⟨h1, h2⟩ := hs
    simp only [insertSorted]
    by_cases hlt : h.name.lt x.name = true
    · simp only [hlt, if_true, SortedH, List.pairwise_cons]
      refine ⟨?_, h1, h2⟩
      intro y hy
      simp only [List.mem_cons] at hy
      cases hyh : y.name.lt h.name with
      | false => rfl
      | true =>
        have hyx := HName.lt_trans_m _ _ _ hyh hlt
        rcases hy with rfl | hy
        · rw [HName.lt_irrefl_m] at hyx; cases hyx
        · rw [h1 y hy] at hyx; cases hyx
    · have hlt' : h.name.lt x.name = false := by simpa using hlt
      simp only [hlt', Bool.false_eq_true, if_false, SortedH, List.pairwise_cons]
      refine ⟨?_, ih h2⟩
      intro y hy
      rw [mem_insertSorted_m] at hy
      rcases hy with rfl | hy
      · exact hlt'
      · exact h1 y hy

theorem filter_insertSorted (h : Header) (l : Headers) (hs : SortedH l) (n : HName) :
    (insertSorted h l).filter (fun x => x.name = n) =
      l.filter (fun x => x.name = n) ++ (if h.name = n then [h] else []) := by
  induction l with
  | nil => simp [insertSorted, List.filter]; split <;> simp_all
  | cons x xs ih =>
    simp only [SortedH, List.pairwise_cons] at hs
    obtain ⟨h1, h2⟩ := hs
    simp only [insertSorted]
    by_cases hlt : h.name.lt x.name = true
    · simp only [hlt, if_true]
      by_cases hn : h.name = n
      · -- nothing from `x` on carries the name `n`
        have hnone : (x :: xs).filter (fun y => y.name = n) = [] := by
          rw [List.filter_eq_nil_iff]
          intro y hy
          simp only [List.mem_cons] at hy
          simp only [decide_eq_true_eq]
          intro hyn
          have e : y.name = h.name := hyn.trans hn.symm
          rcases hy with rfl | hy
          · rw [e, HName.lt_irrefl_m] at hlt; cases hlt
          · have := h1 y hy
            rw [e, hlt] at this; cases this
        rw [List.filter_cons, hnone]
        simp [hn]
      · rw [List.filter_cons]
        simp [hn]
    · have hlt' : h.name.lt x.name = false := by simpa using hlt
      simp only [hlt', Bool.false_eq_true, if_false]
      rw [List.filter_cons, List.filter_cons, ih h2]
      split <;> simp

theorem sorted_foldl_m (hs acc : Headers) (ha : SortedH acc) (n : HName) :
    SortedH (hs.foldl (fun acc h => insertSorted h acc) acc) ∧
    (hs.foldl (fun acc h => insertSorted h acc) acc).filter (fun x => x.name = n) =
      acc.filter (fun x => x.name = n) ++ hs.filter (fun x => x.name = n) := by
  induction hs generalizing acc with
  | nil => simp [ha]
  | cons h hs ih =>
    simp only [List.foldl_cons]
    obtain ⟨i1, i2⟩ := ih (insertSorted h acc) (sortedH_insert h acc ha)
    refine ⟨i1, ?_⟩
    rw [i2, filter_insertSorted h acc ha, List.filter_cons]
    by_cases hn : h.name = n <;> simp [hn]

/-- For every name, sorting leaves the sub-list of headers with that name unchanged. -/
theorem sorted_filter (hs : Headers) (n : HName) :
    hs.sorted.filter (fun x => x.name = n) = hs.filter (fun x => x.name = n) := by
  have := (sorted_foldl_m hs [] (by simp [SortedH]) n).2
  simpa [Headers.sorted] using this

theorem sorted_getAll_m (hs : Headers) (n : HName) : hs.sorted.getAll n = hs.getAll n := by
  simp [Headers.getAll, sorted_filter]

theorem get_eq_head_getAll_m (hs : Headers) (n : HName) : hs.get n = (hs.getAll n).head? := by
  simp [Headers.get, Headers.getAll, List.head?_map, List.head?_filter]

theorem sorted_get_m (hs : Headers) (n : HName) : hs.sorted.get n = hs.get n := by
  rw [get_eq_head_getAll_m, get_eq_head_getAll_m, sorted_getAll_m]

theorem mem_sorted_m (hs : Headers) (h : Header) : h ∈ hs.sorted ↔ h ∈ hs := by
  have e := sorted_filter hs h.name
  constructor
  · intro hm
    have : h ∈ hs.sorted.filter (fun x => x.name = h.name) := by simp [hm]
    rw [e] at this
    exact (List.mem_filter.mp this).1
  · intro hm
    have : h ∈ hs.filter (fun x => x.name = h.name) := by simp [hm]
    rw [← e] at this
    exact (List.mem_filter.mp this).1

theorem length_insertSorted (h : Header) (l : Headers) : (insertSorted h l).length = l.length + 1 := by
  induction l with
  | nil => rfl
  | cons x xs ih => simp only [insertSorted]; split <;> simp [ih]

theorem length_sorted (hs : Headers) : hs.sorted.length = hs.length := by
  have : ∀ acc : Headers, (hs.foldl (fun acc h => insertSorted h acc) acc).length = acc.length + hs.length := by
    induction hs with
    | nil => simp
    | cons h hs ih => intro acc; simp [ih, length_insertSorted]; omega
  simpa [Headers.sorted] using this []

end Humphrey.Http
