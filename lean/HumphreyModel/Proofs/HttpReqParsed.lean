import HumphreyModel.Spec.HttpReq
import HumphreyModel.Proofs.HttpReqShapes
import HumphreyModel.Proofs.HttpReqParse
/-
Every request the parser returns satisfies `Request.WFParsed` (the hypothesis of the round trip).
-/
namespace Humphrey.Http
open Humphrey Humphrey.Bytes Humphrey.IO

theorem avoids_of_not_mem {bad : List UInt8} {s : Bytes} (h : ∀ x ∈ bad, x ∉ s) : avoids bad s :=
  fun b hb hbad => h b hbad hb

theorem Method.ofName_inv {n : Bytes} {m : Method} (h : Method.ofName n = some m) : n = m.name := by
  unfold Method.ofName at h
  repeat' split at h
  all_goals first | (injection h with h; subst h; rename_i hh; exact hh) | cases h

/-! ## The start line -/

structure StartOk (uri query version : Bytes) : Prop where
  uri_chars : avoids [SP, QMARK, LF] uri
  uri_utf8 : utf8Valid uri = true
  query_chars : avoids [SP, LF] query
  query_utf8 : utf8Valid query = true
  version_nonempty : version ≠ []
  version_chars : avoids [SP, LF] version
  version_utf8 : utf8Valid version = true

theorem parseStartLine_ok {b : UInt8} {line : Bytes} {m : Method} {uri query version : Bytes}
    (hl : LineOf LF line) (h : parseStartLine (b :: line) = some (m, uri, query, version)) :
    StartOk uri query version := by
  by_cases hutf : utf8Valid (b :: line) = true
  rotate_left
  · simp [parseStartLine, hutf] at h
  simp only [parseStartLine, hutf, Bool.not_true, Bool.false_eq_true, if_false] at h
  cases hsplit : splitOn SP (b :: line) with
  | nil => simp [hsplit] at h
  | cons mn l1 =>
  cases l1 with
  | nil => simp [hsplit] at h
  | cons target l2 =>
  cases l2 with
  | nil => simp [hsplit] at h
  | cons v rest4 =>
  simp only [hsplit] at h
  cases hmeth : Method.ofName mn with
  | none => simp [hmeth] at h
  | some method =>
  simp only [hmeth] at h
  -- the three pieces
  obtain ⟨hm_sp, -, hm3⟩ := splitOn_inv hsplit
  obtain ⟨s1, hs1, hsplit1⟩ := hm3 (by simp)
  obtain ⟨ht_sp, -, ht3⟩ := splitOn_inv hsplit1
  obtain ⟨s2, hs2, hsplit2⟩ := ht3 (by simp)
  obtain ⟨hv_sp, hv2, hv3⟩ := splitOn_inv hsplit2
  obtain ⟨tail, htail⟩ : ∃ tail, s2 = v ++ tail := by
    by_cases e : rest4 = []
    · exact ⟨[], by rw [hv2 e]; simp⟩
    · obtain ⟨s3, hs3, _⟩ := hv3 e
      exact ⟨SP :: s3, hs3⟩
  -- the version
  cases hstrip : stripCrlf v with
  | none => simp [hstrip] at h
  | some ver =>
    have hv : v = ver ++ crlf := stripCrlf_inv hstrip
    simp only [hstrip, Option.getD_some] at h
    by_cases hver : ver.isEmpty = true
    · simp [hver] at h
    simp only [hver, Bool.false_eq_true, if_false] at h
    -- the method name
    have hmn : mn = method.name := Method.ofName_inv hmeth
    obtain ⟨m0, mt, hm0⟩ : ∃ m0 mt, method.name = m0 :: mt := by
      cases hh : method.name with
      | nil => exact absurd hh method.name_ne_nil
      | cons a c => exact ⟨a, c, rfl⟩
    have hb : b = m0 ∧ line = mt ++ SP :: s1 := by
      rw [hmn, hm0] at hs1
      simp only [List.cons_append, List.cons.injEq] at hs1
      exact hs1
    have hm0lf : LF ∉ m0 :: mt := by rw [← hm0]; exact method.name_no_lf
    simp only [List.mem_cons, not_or] at hm0lf
    have hline : line = mt ++ SP :: (target ++ SP :: (ver ++ CR :: LF :: tail)) := by
      rw [hb.2, hs2, htail, hv]; simp [crlf, CR, LF]
    -- no LF before the end
    have hlf_t : LF ∉ target := by
      have := hl.prefix (x := mt ++ SP :: target) (y := SP :: (ver ++ CR :: LF :: tail))
        (by rw [hline]; simp) (by simp)
      simp only [List.mem_append, List.mem_cons, not_or] at this
      exact this.2.2
    have hlf_v : LF ∉ ver := by
      have := hl.prefix (x := mt ++ SP :: (target ++ SP :: ver)) (y := CR :: LF :: tail)
        (by rw [hline]; simp) (by simp)
      simp only [List.mem_append, List.mem_cons, not_or] at this
      exact this.2.2.2.2
    -- UTF-8
    have hu0 : utf8Valid ((b :: mt) ++ SP :: (target ++ SP :: (ver ++ CR :: LF :: tail))) = true := by
      rw [← hutf, hline]; rfl
    have hu1 := (utf8Valid_split_ascii SP _ (by decide) hu0).2
    have hu_t := (utf8Valid_split_ascii SP _ (by decide) hu1).1
    have hu2 := (utf8Valid_split_ascii SP _ (by decide) hu1).2
    have hu_v := (utf8Valid_split_ascii CR _ (by decide) hu2).1
    have hv_sp' : SP ∉ ver := by
      rw [hv] at hv_sp; simp only [List.mem_append, not_or] at hv_sp; exact hv_sp.1
    -- the target
    cases hq : splitOnce 63 target with
    | mk u q =>
      simp only [hq, Option.some.injEq, Prod.mk.injEq] at h
      obtain ⟨-, rfl, rfl, rfl⟩ := h
      obtain ⟨hq1, hq2, hq3⟩ := splitOnce_inv hq
      have hvne : ver ≠ [] := by
        intro e; rw [e] at hver; simp at hver
      cases q with
      | none =>
        have e := hq2 rfl
        subst e
        refine ⟨avoids_of_not_mem ?_, hu_t, avoids_of_not_mem (by simp), rfl, hvne,
          avoids_of_not_mem ?_, hu_v⟩
        · intro x hx
          simp only [List.mem_cons, List.not_mem_nil, or_false] at hx
          rcases hx with rfl | rfl | rfl
          · exact ht_sp
          · exact hq1
          · exact hlf_t
        · intro x hx
          simp only [List.mem_cons, List.not_mem_nil, or_false] at hx
          rcases hx with rfl | rfl
          · exact hv_sp'
          · exact hlf_v
      | some qq =>
        have e := hq3 qq rfl
        subst e
        have hus := utf8Valid_split_ascii 63 _ (by decide) hu_t
        simp only [List.mem_append, List.mem_cons, not_or] at ht_sp hlf_t
        refine ⟨avoids_of_not_mem ?_, hus.1, avoids_of_not_mem ?_, hus.2, hvne,
          avoids_of_not_mem ?_, hu_v⟩
        · intro x hx
          simp only [List.mem_cons, List.not_mem_nil, or_false] at hx
          rcases hx with rfl | rfl | rfl
          · exact ht_sp.1
          · exact hq1
          · exact hlf_t.1
        · intro x hx
          simp only [List.mem_cons, List.not_mem_nil, or_false] at hx
          rcases hx with rfl | rfl
          · exact ht_sp.2.2
          · exact hlf_t.2.2
        · intro x hx
          simp only [List.mem_cons, List.not_mem_nil, or_false] at hx
          rcases hx with rfl | rfl
          · exact hv_sp'
          · exact hlf_v

/-! ## Header lines -/

structure HeaderOk (h : Header) : Prop where
  name_chars : avoids [COLON, LF] h.name.lower
  name_utf8 : utf8Valid h.name.lower = true
  name_lower : asciiLower h.name.lower = h.name.lower
  value_chars : avoids [LF] h.value
  value_utf8 : utf8Valid h.value = true
  value_trimmed : trimStart h.value = h.value

theorem parseHeaderLine_ok {line : Bytes} {h : Header} (hl : LineOf LF line)
    (hp : parseHeaderLine line = .ok h) : HeaderOk h := by
  unfold parseHeaderLine at hp
  split at hp
  · cases hp
  rename_i hutf
  simp only [Bool.not_eq_true, Bool.not_eq_false'] at hutf
  split at hp
  · cases hp
  rename_i body hstrip
  have hline : line = body ++ crlf := stripCrlf_inv hstrip
  split at hp
  · cases hp
  rename_i name value hsplit
  injection hp with hp
  subst hp
  obtain ⟨hn1, -, hn3⟩ := splitOnce_inv hsplit
  have hbody : body = name ++ 58 :: value := hn3 value rfl
  have hlf : LF ∉ name ++ 58 :: value := by
    have := hl.prefix (x := body ++ [CR]) (y := [LF]) (by rw [hline]; simp [crlf, CR, LF]) (by simp)
    rw [hbody] at this
    simp only [List.mem_append, not_or] at this
    simpa using this.1
  simp only [List.mem_append, List.mem_cons, not_or] at hlf
  have hu0 : utf8Valid (body ++ CR :: [LF]) = true := by rw [← hutf, hline]; rfl
  have hu1 := (utf8Valid_split_ascii CR _ (by decide) hu0).1
  rw [hbody] at hu1
  have hu2 := utf8Valid_split_ascii 58 _ (by decide) hu1
  refine ⟨avoids_of_not_mem ?_, utf8Valid_asciiLower hu2.1, asciiLower_idem _,
    avoids_of_not_mem ?_, utf8Valid_trimStart hu2.2, trimStart_idem _⟩
  · intro x hx
    simp only [List.mem_cons, List.not_mem_nil, or_false] at hx
    rcases hx with rfl | rfl
    · exact not_mem_asciiLower (by decide) hn1
    · exact not_mem_asciiLower (by decide) hlf.1
  · intro x hx
    simp only [List.mem_cons, List.not_mem_nil, or_false] at hx
    subst hx
    exact not_mem_trimStart hlf.2.2

theorem parseHeaders_ok (fuel : Nat) (s : Bytes) (acc : Headers) (hs : Headers) (s' : Bytes)
    (hacc : ∀ h ∈ acc, HeaderOk h) (hp : parseHeaders flatSource fuel s acc = .ok (hs, s')) :
    ∀ h ∈ hs, HeaderOk h := by
  induction fuel generalizing s acc with
  | zero => simp [parseHeaders] at hp
  | succ fuel ih =>
    simp only [parseHeaders, flatSource_readUntil] at hp
    by_cases hc : (flatReadUntil LF s).1 = crlf
    · simp only [hc, if_true] at hp
      injection hp with hp
      injection hp with h1 h2
      subst h1; exact hacc
    · simp only [hc, if_false] at hp
      cases hline : parseHeaderLine (flatReadUntil LF s).1 with
      | ok hd =>
        simp only [hline] at hp
        refine ih _ _ ?_ hp
        intro h hh
        rcases List.mem_append.mp hh with hh | hh
        · exact hacc h hh
        · simp only [List.mem_singleton] at hh
          subst hh
          exact parseHeaderLine_ok (flatReadUntil_lineOf LF s) hline
      | err e => simp [hline] at hp
      | panic => simp [hline] at hp

/-! ## The request -/

/-- **Every request `Request::from_stream` returns satisfies `WFParsed`** (flat stream), and its
address is the one computed from its headers and the peer. -/
theorem parseRequest_flat_inv (env : Env) (s : Bytes) (q : Request) (s' : Bytes)
    (hp : parseRequest flatSource env s = .ok (q, s')) :
    q.WFParsed ∧ q.address = Address.fromHeaders env.parseIp trim q.headers env.peer env.port := by
  unfold parseRequest at hp
  simp only [flatSource_readExact, flatSource_readUntil, flatSource_remaining] at hp
  split at hp
  · cases hp
  rename_i first s1 hfirst
  have hf : ∃ b, first = [b] := by
    unfold flatReadExact at hfirst
    split at hfirst
    · injection hfirst with hfirst
      injection hfirst with h1 _
      cases s with
      | nil => simp at *
      | cons b t => exact ⟨b, by rw [← h1]; simp⟩
    · cases hfirst
  obtain ⟨b, rfl⟩ := hf
  split at hp
  · cases hp
  rename_i method uri query version hstart
  have hso := parseStartLine_ok (flatReadUntil_lineOf LF s1) hstart
  split at hp
  · cases hp
  · cases hp
  rename_i headers s3 hheaders
  have hho := parseHeaders_ok _ _ _ _ _ (by simp) hheaders
  have base : ∀ content, (match content with
      | none => headers.get hContentLength = none
      | some (b : Bytes) => ∃ cl, headers.get hContentLength = some cl ∧ parseUsize cl = some b.length) →
      Request.WFParsed ⟨method, uri, query, version, headers, content,
        Address.fromHeaders env.parseIp trim headers env.peer env.port⟩ ∧
      Address.fromHeaders env.parseIp trim headers env.peer env.port =
        Address.fromHeaders env.parseIp trim headers env.peer env.port := by
    intro content hc
    refine ⟨?_, rfl⟩
    exact ⟨hso.uri_chars, hso.uri_utf8, hso.query_chars, hso.query_utf8, hso.version_nonempty,
      hso.version_chars, hso.version_utf8, fun h hh => (hho h hh).name_chars,
      fun h hh => (hho h hh).name_utf8, fun h hh => (hho h hh).name_lower,
      fun h hh => (hho h hh).value_chars, fun h hh => (hho h hh).value_utf8,
      fun h hh => (hho h hh).value_trimmed, hc⟩
  split at hp
  · rename_i hcl
    injection hp with hp
    injection hp with h1 _
    subst h1
    exact base none hcl
  · rename_i cl hcl
    split at hp
    · cases hp
    rename_i n hn
    split at hp
    · cases hp
    rename_i body s4 hbody
    injection hp with hp
    injection hp with h1 _
    subst h1
    refine base (some body) ⟨cl, hcl, ?_⟩
    unfold flatReadExact at hbody
    split at hbody
    · rename_i hle
      injection hbody with hbody
      injection hbody with h1 _
      rw [hn, ← h1, List.length_take, Nat.min_eq_left hle]
    · cases hbody

end Humphrey.Http
