import HumphreyModel.Proofs.JsonSer

/-!
Helper lemmas for C13 (trusted base), part 4: two facts about derivations of `J` used to tie the
pieces together — the depth index is `depthOf` of the value denoted, and every number in the value
denoted is a value returned by the codec's `parse`.
-/
namespace Humphrey.JsonSpec
open Humphrey.Json

variable {N : Type} {C : NumCodec N}

/-- depth index against `depthOf`, by syntactic category -/
def RecDepthAt (v : Value N) (d : Nat) : Kind → Prop
  | .value => depthOf v = d
  | .elems => depthOf v = d + 1
  | .members => depthOf v = d + 1

theorem rec_depth_aux {k : Kind} {t : List Char} {v : Value N} {d : Nat} (h : J C k t v d) :
    RecDepthAt v d k := by
  induction h with
  | null => simp [RecDepthAt, depthOf]
  | true => simp [RecDepthAt, depthOf]
  | false => simp [RecDepthAt, depthOf]
  | number _ _ => simp [RecDepthAt, depthOf]
  | string _ => simp [RecDepthAt, depthOf]
  | arrayEmpty _ => simp [RecDepthAt, depthOf, depthList]
  | array _ ih => exact ih
  | elemsOne _ _ _ ih =>
    simp only [RecDepthAt] at ih ⊢
    simp [depthOf, depthList, ih]
  | elemsCons _ _ _ _ ih ih' =>
    simp only [RecDepthAt] at ih ih' ⊢
    simp only [depthOf, depthList] at ih' ⊢
    rw [ih]; omega
  | objectEmpty _ => simp [RecDepthAt, depthOf, depthMembers]
  | object _ ih => exact ih
  | membersOne _ _ _ _ _ _ ih =>
    simp only [RecDepthAt] at ih ⊢
    simp [depthOf, depthMembers, ih]
  | membersCons _ _ _ _ _ _ _ ih ih' =>
    simp only [RecDepthAt] at ih ih' ⊢
    simp only [depthOf, depthMembers] at ih' ⊢
    rw [ih]; omega

/-- every number of the value denoted was produced by the codec's `parse` -/
theorem rec_finite_aux {Fin : N → Prop} (hF : ∀ l n, C.parse l = some n → Fin n)
    {k : Kind} {t : List Char} {v : Value N} {d : Nat} (h : J C k t v d) : FiniteNumbers Fin v := by
  induction h with
  | null => simp [FiniteNumbers]
  | true => simp [FiniteNumbers]
  | false => simp [FiniteNumbers]
  | number _ hp => simp only [FiniteNumbers]; exact hF _ _ hp
  | string _ => simp [FiniteNumbers]
  | arrayEmpty _ => simp [FiniteNumbers, FiniteList]
  | array _ ih => exact ih
  | elemsOne _ _ _ ih => simp only [FiniteNumbers, FiniteList]; exact ⟨ih, trivial⟩
  | elemsCons _ _ _ _ ih ih' =>
    simp only [FiniteNumbers, FiniteList] at ih' ⊢
    exact ⟨ih, ih'⟩
  | objectEmpty _ => simp [FiniteNumbers, FiniteMembers]
  | object _ ih => exact ih
  | membersOne _ _ _ _ _ _ ih => simp only [FiniteNumbers, FiniteMembers]; exact ⟨ih, trivial⟩
  | membersCons _ _ _ _ _ _ _ ih ih' =>
    simp only [FiniteNumbers, FiniteMembers] at ih' ⊢
    exact ⟨ih, ih'⟩

end Humphrey.JsonSpec
