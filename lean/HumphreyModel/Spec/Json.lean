import HumphreyModel.Model.Json
/-!
# Specification for C13: RFC 8259 JSON texts and what they denote

Only the *types* `Value` and `NumCodec` are taken from the model file; nothing below mentions a
function of the model.

* `JsonText s v d` — `s` is a JSON text in the sense of RFC 8259 §2 (`ws value ws`), it denotes
  the value `v`, and `d` is its nesting depth (a scalar has depth 0, an array or object one more
  than its deepest child). The rules transcribe §2 (structural characters, `ws`), §3 (the three
  literal names), §4 (objects: members separated by commas, *in document order*), §5 (arrays),
  §6 (numbers: `[ minus ] int [ frac ] [ exp ]`) and §7 (strings, the escape table, `\uXXXX`,
  a non-BMP character as a UTF-16 surrogate pair of two escapes).
  A number lexeme denotes whatever the codec's `parse` (= `f64::from_str`) makes of it.
  An escape that denotes an *unpaired* surrogate has no denotation as a Unicode string (§8.2),
  hence no rule; C13 allows such texts to be rejected. So `JsonText s v d` reads: "`s` is an
  RFC 8259 text without unpaired-surrogate escapes, denoting `v`".
* `recognise` / `isJsonText` — a decidable acceptor for the full RFC grammar (unpaired
  surrogate escapes included, reported by a flag) written directly from the ABNF, used by the
  driver as the spec verdict on the implementation's accept/reject answer.
* `LawfulCodec` — the three facts about `f64::from_str` / `Display` that the theorems need.
-/
namespace Humphrey.JsonSpec
open Humphrey.Json (Value NumCodec)

/-! ## §2 whitespace -/

/-- `ws = *( %x20 / %x09 / %x0A / %x0D )` -/
def WsChar (c : Char) : Prop := c = ' ' ∨ c = '\t' ∨ c = '\n' ∨ c = '\r'

def Ws (l : List Char) : Prop := ∀ c ∈ l, WsChar c

/-! ## §6 numbers -/

/-- `DIGIT = %x30-39` -/
def Digit (c : Char) : Prop := '0' ≤ c ∧ c ≤ '9'
/-- `digit1-9 = %x31-39` -/
def Digit19 (c : Char) : Prop := '1' ≤ c ∧ c ≤ '9'
/-- `1*DIGIT` -/
def Digits1 (l : List Char) : Prop := l ≠ [] ∧ ∀ c ∈ l, Digit c

/-- `[ minus ]` -/
inductive OptMinus : List Char → Prop
  | none : OptMinus []
  | minus : OptMinus ['-']

/-- `int = zero / ( digit1-9 *DIGIT )` -/
inductive IntPart : List Char → Prop
  | zero : IntPart ['0']
  | nonzero {c : Char} {ds : List Char} : Digit19 c → (∀ d ∈ ds, Digit d) → IntPart (c :: ds)

/-- `[ frac ]`, `frac = decimal-point 1*DIGIT` -/
inductive OptFrac : List Char → Prop
  | none : OptFrac []
  | frac {ds : List Char} : Digits1 ds → OptFrac ('.' :: ds)

/-- `[ minus / plus ]` -/
inductive OptSign : List Char → Prop
  | none : OptSign []
  | minus : OptSign ['-']
  | plus : OptSign ['+']

/-- `[ exp ]`, `exp = e [ minus / plus ] 1*DIGIT` -/
inductive OptExp : List Char → Prop
  | none : OptExp []
  | exp {e : Char} {sg ds : List Char} : (e = 'e' ∨ e = 'E') → OptSign sg → Digits1 ds → OptExp (e :: (sg ++ ds))

/-- `number = [ minus ] int [ frac ] [ exp ]` -/
inductive NumberLexeme : List Char → Prop
  | mk {m i f e : List Char} : OptMinus m → IntPart i → OptFrac f → OptExp e →
      NumberLexeme (m ++ (i ++ (f ++ e)))

/-! ## §7 strings -/

/-- `unescaped = %x20-21 / %x23-5B / %x5D-10FFFF` -/
def Unescaped (c : Char) : Prop :=
  (0x20 ≤ c.toNat ∧ c.toNat ≤ 0x21) ∨ (0x23 ≤ c.toNat ∧ c.toNat ≤ 0x5B) ∨
  (0x5D ≤ c.toNat ∧ c.toNat ≤ 0x10FFFF)

/-- The two-character escapes: the character after `\` and the character denoted. -/
inductive SimpleEscape : Char → Char → Prop
  | quote : SimpleEscape '"' (Char.ofNat 0x22)
  | backslash : SimpleEscape '\\' (Char.ofNat 0x5C)
  | slash : SimpleEscape '/' (Char.ofNat 0x2F)
  | b : SimpleEscape 'b' (Char.ofNat 0x08)
  | f : SimpleEscape 'f' (Char.ofNat 0x0C)
  | n : SimpleEscape 'n' (Char.ofNat 0x0A)
  | r : SimpleEscape 'r' (Char.ofNat 0x0D)
  | t : SimpleEscape 't' (Char.ofNat 0x09)

/-- `HEXDIG` (either case, RFC 5234 + §7) with its value -/
def HexDigit (c : Char) (v : Nat) : Prop :=
  ('0' ≤ c ∧ c ≤ '9' ∧ v = c.toNat - 48) ∨ ('a' ≤ c ∧ c ≤ 'f' ∧ v = c.toNat - 87) ∨
  ('A' ≤ c ∧ c ≤ 'F' ∧ v = c.toNat - 55)

/-- `4HEXDIG` with its value -/
inductive Hex4 : List Char → Nat → Prop
  | mk {a b c d : Char} {x y z w : Nat} : HexDigit a x → HexDigit b y → HexDigit c z → HexDigit d w →
      Hex4 [a, b, c, d] (((x * 16 + y) * 16 + z) * 16 + w)

/-- `*char` between the quotation marks, and the Unicode string it denotes. -/
inductive StrBody : List Char → List Char → Prop
  | nil : StrBody [] []
  | raw {c : Char} {t s : List Char} : Unescaped c → StrBody t s → StrBody (c :: t) (c :: s)
  | esc {e c : Char} {t s : List Char} : SimpleEscape e c → StrBody t s →
      StrBody ('\\' :: e :: t) (c :: s)
  | u {h t s : List Char} {n : Nat} : Hex4 h n → (n < 0xD800 ∨ 0xDFFF < n) → StrBody t s →
      StrBody ('\\' :: 'u' :: (h ++ t)) (Char.ofNat n :: s)
  | pair {h1 h2 t s : List Char} {hi lo : Nat} : Hex4 h1 hi → Hex4 h2 lo →
      0xD800 ≤ hi → hi ≤ 0xDBFF → 0xDC00 ≤ lo → lo ≤ 0xDFFF → StrBody t s →
      StrBody ('\\' :: 'u' :: (h1 ++ '\\' :: 'u' :: (h2 ++ t)))
        (Char.ofNat (0x10000 + (hi - 0xD800) * 0x400 + (lo - 0xDC00)) :: s)

/-! ## §3–§5 values -/

/-- Syntactic category of the single inductive family `J` (one family instead of a mutual
block so that `induction` applies): a `value`, a non-empty comma-separated `elems` list
(denoting `Value.array` of the elements) or a non-empty `members` list (denoting
`Value.object` of the members, in document order). -/
inductive Kind where
  | value | elems | members

inductive J {N : Type} (C : NumCodec N) : Kind → List Char → Value N → Nat → Prop
  | null : J C .value ['n', 'u', 'l', 'l'] .null 0
  | true : J C .value ['t', 'r', 'u', 'e'] (.bool true) 0
  | false : J C .value ['f', 'a', 'l', 's', 'e'] (.bool false) 0
  | number {l : List Char} {n : N} : NumberLexeme l → C.parse l = some n → J C .value l (.number n) 0
  | string {t s : List Char} : StrBody t s → J C .value ('"' :: (t ++ ['"'])) (.string s) 0
  /- array = begin-array [ value *( value-separator value ) ] end-array,
     begin-array = ws [ ws, value-separator = ws , ws, end-array = ws ] ws -/
  | arrayEmpty {w : List Char} : Ws w → J C .value ('[' :: (w ++ [']'])) (.array []) 1
  | array {t : List Char} {vs : List (Value N)} {d : Nat} :
      J C .elems t (.array vs) d → J C .value ('[' :: (t ++ [']'])) (.array vs) (d + 1)
  | elemsOne {w1 t w2 : List Char} {v : Value N} {d : Nat} :
      Ws w1 → J C .value t v d → Ws w2 → J C .elems (w1 ++ (t ++ w2)) (.array [v]) d
  | elemsCons {w1 t w2 t' : List Char} {v : Value N} {vs : List (Value N)} {d d' : Nat} :
      Ws w1 → J C .value t v d → Ws w2 → J C .elems t' (.array vs) d' →
      J C .elems (w1 ++ (t ++ (w2 ++ ',' :: t'))) (.array (v :: vs)) (max d d')
  /- object = begin-object [ member *( value-separator member ) ] end-object,
     member = string name-separator value, name-separator = ws : ws -/
  | objectEmpty {w : List Char} : Ws w → J C .value ('{' :: (w ++ ['}'])) (.object []) 1
  | object {t : List Char} {ms : List (List Char × Value N)} {d : Nat} :
      J C .members t (.object ms) d → J C .value ('{' :: (t ++ ['}'])) (.object ms) (d + 1)
  | membersOne {w1 k w2 w3 t w4 key : List Char} {v : Value N} {d : Nat} :
      Ws w1 → StrBody k key → Ws w2 → Ws w3 → J C .value t v d → Ws w4 →
      J C .members (w1 ++ '"' :: (k ++ '"' :: (w2 ++ ':' :: (w3 ++ (t ++ w4))))) (.object [(key, v)]) d
  | membersCons {w1 k w2 w3 t w4 t' key : List Char} {v : Value N}
      {ms : List (List Char × Value N)} {d d' : Nat} :
      Ws w1 → StrBody k key → Ws w2 → Ws w3 → J C .value t v d → Ws w4 →
      J C .members t' (.object ms) d' →
      J C .members (w1 ++ '"' :: (k ++ '"' :: (w2 ++ ':' :: (w3 ++ (t ++ (w4 ++ ',' :: t'))))))
        (.object ((key, v) :: ms)) (max d d')

/-- `JSON-text = ws value ws` (§2). -/
def JsonText {N : Type} (C : NumCodec N) (s : List Char) (v : Value N) (d : Nat) : Prop :=
  ∃ w1 t w2, s = w1 ++ (t ++ w2) ∧ Ws w1 ∧ Ws w2 ∧ J C .value t v d

/-! ## nesting depth of a value and finiteness of its numbers -/

mutual
/-- nesting depth: scalars 0, an array/object one more than its deepest child -/
def depthOf {N : Type} : Value N → Nat
  | .array xs => depthList xs + 1
  | .object ms => depthMembers ms + 1
  | _ => 0
def depthList {N : Type} : List (Value N) → Nat
  | [] => 0
  | x :: xs => max (depthOf x) (depthList xs)
def depthMembers {N : Type} : List (List Char × Value N) → Nat
  | [] => 0
  | (_, v) :: ms => max (depthOf v) (depthMembers ms)
end

/-! ## What the theorems assume about `f64::from_str` and `Display` -/

mutual
/-- every number occurring in the value satisfies `Fin` ("is finite") -/
def FiniteNumbers {N : Type} (Fin : N → Prop) : Value N → Prop
  | .number n => Fin n
  | .array xs => FiniteList Fin xs
  | .object ms => FiniteMembers Fin ms
  | _ => True
def FiniteList {N : Type} (Fin : N → Prop) : List (Value N) → Prop
  | [] => True
  | x :: xs => FiniteNumbers Fin x ∧ FiniteList Fin xs
def FiniteMembers {N : Type} (Fin : N → Prop) : List (List Char × Value N) → Prop
  | [] => True
  | (_, v) :: ms => FiniteNumbers Fin v ∧ FiniteMembers Fin ms
end

/-- The three laws, for a codec `C` and a predicate `Fin` singling out the finite numbers
(for `f64`: not NaN, not ±inf; `from_str` itself may return ±inf, e.g. on `1e999`). -/
structure LawfulCodec {N : Type} (C : NumCodec N) (Fin : N → Prop) : Prop where
  /-- `from_str` succeeds on every RFC 8259 number lexeme (possibly rounding, possibly to ±inf) -/
  parse_total : ∀ l, NumberLexeme l → ∃ n, C.parse l = some n
  /-- the text printed for a finite number is an RFC 8259 number lexeme -/
  show_lexeme : ∀ n, Fin n → NumberLexeme (C.show n)
  /-- reading back what was printed for a finite number gives the same number -/
  parse_show : ∀ n, Fin n → C.parse (C.show n) = some n

/-! ## Decidable acceptor (independent of the model) -/

def wsChar (c : Char) : Bool := c.toNat = 0x20 || c.toNat = 0x09 || c.toNat = 0x0A || c.toNat = 0x0D

def skipWs : List Char → List Char
  | [] => []
  | c :: cs => if wsChar c then skipWs cs else c :: cs

def digit (c : Char) : Bool := 0x30 ≤ c.toNat && c.toNat ≤ 0x39

def skipDigits : List Char → List Char
  | [] => []
  | c :: cs => if digit c then skipDigits cs else c :: cs

/-- `1*DIGIT` -/
def recDigits1 : List Char → Option (List Char)
  | [] => none
  | c :: cs => if digit c then some (skipDigits cs) else none

/-- `number`; returns the input after the longest match of the grammar -/
def recNumber (s : List Char) : Option (List Char) :=
  let s := match s with
    | '-' :: r => r
    | s => s
  -- int
  let s? : Option (List Char) := match s with
    | [] => none
    | c :: r => if c.toNat = 0x30 then some r else if 0x31 ≤ c.toNat && c.toNat ≤ 0x39 then some (skipDigits r) else none
  match s? with
  | none => none
  | some s =>
    -- frac
    let s? : Option (List Char) := match s with
      | '.' :: r => recDigits1 r
      | s => some s
    match s? with
    | none => none
    | some s =>
      -- exp
      match s with
      | e :: r =>
        if e = 'e' || e = 'E' then
          match r with
          | '+' :: r => recDigits1 r
          | '-' :: r => recDigits1 r
          | r => recDigits1 r
        else some s
      | [] => some []

def hexdig (c : Char) : Option Nat :=
  let n := c.toNat
  if 0x30 ≤ n && n ≤ 0x39 then some (n - 0x30)
  else if 0x41 ≤ n && n ≤ 0x46 then some (n - 0x41 + 10)
  else if 0x61 ≤ n && n ≤ 0x66 then some (n - 0x61 + 10)
  else none

def recHex4 : List Char → Option (Nat × List Char)
  | a :: b :: c :: d :: r =>
    (hexdig a).bind fun a => (hexdig b).bind fun b => (hexdig c).bind fun c => (hexdig d).bind fun d =>
      some (a * 4096 + b * 256 + c * 16 + d, r)
  | _ => none

/-- `*char quotation-mark`; the flag records an escape denoting an unpaired surrogate. -/
def recChars : Nat → List Char → Bool → Option (Bool × List Char)
  | 0, _, _ => none
  | _ + 1, [], _ => none
  | fuel + 1, c :: r, lone =>
    if c = '"' then some (lone, r)
    else if c = '\\' then
      match r with
      | [] => none
      | e :: r =>
        if e = '"' || e = '\\' || e = '/' || e = 'b' || e = 'f' || e = 'n' || e = 'r' || e = 't' then
          recChars fuel r lone
        else if e = 'u' then
          match recHex4 r with
          | none => none
          | some (n, r) =>
            if 0xD800 ≤ n && n ≤ 0xDBFF then
              -- high surrogate: paired iff immediately followed by `\u` + low surrogate
              match r with
              | '\\' :: 'u' :: r' =>
                match recHex4 r' with
                | some (m, r'') => if 0xDC00 ≤ m && m ≤ 0xDFFF then recChars fuel r'' lone else recChars fuel r true
                | none => recChars fuel r true
              | _ => recChars fuel r true
            else if 0xDC00 ≤ n && n ≤ 0xDFFF then recChars fuel r true
            else recChars fuel r lone
        else none
    else if 0x20 ≤ c.toNat then recChars fuel r lone
    else none

/-- `string` -/
def recString (s : List Char) (lone : Bool) : Option (Bool × List Char) :=
  match s with
  | '"' :: r => recChars (r.length + 1) r lone
  | _ => none

def startsWith (p s : List Char) : Option (List Char) :=
  match p, s with
  | [], s => some s
  | _ :: _, [] => none
  | a :: p, b :: s => if a = b then startsWith p s else none

mutual
/-- `value` (no surrounding whitespace); returns depth, unpaired-surrogate flag, rest -/
def recValue : Nat → List Char → Bool → Option (Nat × Bool × List Char)
  | 0, _, _ => none
  | fuel + 1, s, lone =>
    match s with
    | [] => none
    | '"' :: _ => (recString s lone).map fun (l, r) => (0, l, r)
    | '[' :: r =>
      match skipWs r with
      | ']' :: r => some (1, lone, r)
      | r => (recElems fuel r lone 0).map fun (d, l, r) => (d + 1, l, r)
    | '{' :: r =>
      match skipWs r with
      | '}' :: r => some (1, lone, r)
      | r => (recMembers fuel r lone 0).map fun (d, l, r) => (d + 1, l, r)
    | 't' :: _ => (startsWith ['t', 'r', 'u', 'e'] s).map fun r => (0, lone, r)
    | 'f' :: _ => (startsWith ['f', 'a', 'l', 's', 'e'] s).map fun r => (0, lone, r)
    | 'n' :: _ => (startsWith ['n', 'u', 'l', 'l'] s).map fun r => (0, lone, r)
    | _ => (recNumber s).map fun r => (0, lone, r)

/-- `value ws *( "," ws value ws ) "]"`, input positioned at the first value -/
def recElems : Nat → List Char → Bool → Nat → Option (Nat × Bool × List Char)
  | 0, _, _, _ => none
  | fuel + 1, s, lone, dmax =>
    match recValue fuel s lone with
    | none => none
    | some (d, lone, r) =>
      match skipWs r with
      | ',' :: r => recElems fuel (skipWs r) lone (max dmax d)
      | ']' :: r => some (max dmax d, lone, r)
      | _ => none

/-- `member ws *( "," ws member ws ) "}"`, `member = string ws ":" ws value` -/
def recMembers : Nat → List Char → Bool → Nat → Option (Nat × Bool × List Char)
  | 0, _, _, _ => none
  | fuel + 1, s, lone, dmax =>
    match recString s lone with
    | none => none
    | some (lone, r) =>
      match skipWs r with
      | ':' :: r =>
        match recValue fuel (skipWs r) lone with
        | none => none
        | some (d, lone, r) =>
          match skipWs r with
          | ',' :: r => recMembers fuel (skipWs r) lone (max dmax d)
          | '}' :: r => some (max dmax d, lone, r)
          | _ => none
      | _ => none
end

/-- `JSON-text = ws value ws`: `some (depth, hasUnpairedSurrogateEscape)` iff `s` is one. -/
def recognise (s : List Char) : Option (Nat × Bool) :=
  match recValue (2 * s.length + 2) (skipWs s) false with
  | none => none
  | some (d, lone, r) => if (skipWs r).isEmpty then some (d, lone) else none

def isJsonText (s : List Char) : Bool := (recognise s).isSome

end Humphrey.JsonSpec
