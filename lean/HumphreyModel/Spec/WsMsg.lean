import HumphreyModel.Spec.WsFrame

/-
Specification for C11, at the level of FRAMES (RFC 6455 sections 5.4 fragmentation, 5.5 control
frames, 7.1.5/5.5.1 close), independent of the receive loops of `message.rs`. Only the types `Frame`,
`Opcode` and the layout `rfc6455Layout` (Spec/WsFrame.lean) are used.

* a client script is a list of frames; on the wire it is the concatenation of their layouts (`wire`);
* the messages it denotes (`messages`): data frames are collected until one has FIN; the payloads are
  concatenated in order; the message is text iff the FIRST fragment has opcode text; Ping and Pong
  frames between (or before) the fragments are skipped; a Close ends the conversation;
* what the server must write in reply (`replies`): one Pong with the same payload per Ping, one Close
  for the Close, nothing else;
* `parseFrames`: decoder for what the SERVER wrote, used to judge the implementation's output
  (`framesOf`: the bytes are exactly the layouts of unmasked frames);
* `Session`: the same at the granularity of single `recv`/`recv_nonblocking` calls, with the delivery
  schedule seen as byte positions: which call returns which message, which replies are written during
  which call, and when a non-blocking call may answer "nothing yet".
-/
namespace Humphrey.WsMsg.Spec
open Humphrey.WsFrame Humphrey.WsFrame.Spec

/-- The client's byte stream. -/
def wire (fs : List Frame) : Bytes := (fs.map rfc6455Layout).flatten

structure Msg where
  text : Bool
  payload : Bytes
  deriving DecidableEq, Repr

def isControl (o : Opcode) : Bool :=
  match o with
  | .close | .ping | .pong => true
  | _ => false

/-- A data frame added to the message under construction: the first fragment fixes the type. -/
def extend (cur : Option Msg) (f : Frame) : Msg :=
  match cur with
  | none => ⟨f.opcode == .text, f.payload⟩
  | some m => ⟨m.text, m.payload ++ f.payload⟩

/-- The messages a client script denotes (`cur` = fragments collected so far). -/
def messagesFrom (cur : Option Msg) : List Frame → List Msg
  | [] => []
  | f :: fs =>
    match f.opcode with
    | .close => []
    | .ping => messagesFrom cur fs
    | .pong => messagesFrom cur fs
    | _ => if f.fin then extend cur f :: messagesFrom none fs else messagesFrom (some (extend cur f)) fs

def messages (fs : List Frame) : List Msg := messagesFrom none fs

/-- The script contains a Close frame (everything after it is ignored). -/
def hasClose (fs : List Frame) : Bool := fs.any (fun f => f.opcode == .close)

/-- A reply frame: FIN, no RSV bits, not masked. -/
def reply (o : Opcode) (payload : Bytes) : Frame :=
  { fin := true, rsv1 := false, rsv2 := false, rsv3 := false, opcode := o, mask := false,
    length := payload.length, key := Key.zero, payload := payload }

/-- What the server has to write while it reads the script: a Pong per Ping (same payload), a Close
for the first Close. -/
def replies : List Frame → List Frame
  | [] => []
  | f :: fs =>
    match f.opcode with
    | .ping => reply .pong f.payload :: replies fs
    | .close => [reply .close f.payload]
    | _ => replies fs

/-! ### Decoder for the server's output -/

def opcodeOf (n : Nat) : Option Opcode :=
  if n = 0 then some .continuation else if n = 1 then some .text else if n = 2 then some .binary
  else if n = 8 then some .close else if n = 9 then some .ping else if n = 10 then some .pong
  else none

def beValue (bs : Bytes) : Nat := bs.foldl (fun acc b => acc * 256 + b.toNat) 0

/-- One frame off the front (any length form is read; `framesOf` then insists on the layout). -/
def parseFrame (bs : Bytes) : Option (Frame × Bytes) :=
  match bs with
  | o0 :: o1 :: rest =>
    match opcodeOf (o0.toNat % 16) with
    | none => none
    | some op =>
      let len7 := o1.toNat % 128
      let masked := decide (128 ≤ o1.toNat)
      let ext := if len7 = 126 then 2 else if len7 = 127 then 8 else 0
      if rest.length < ext then none else
      let len := if ext = 0 then len7 else beValue (rest.take ext)
      let rest := rest.drop ext
      let klen := if masked then 4 else 0
      if rest.length < klen + len then none else
      let kb := rest.take klen
      let key : Key := ⟨kb.getD 0 0, kb.getD 1 0, kb.getD 2 0, kb.getD 3 0⟩
      let rest := rest.drop klen
      let data := rest.take len
      some ({ fin := decide (128 ≤ o0.toNat), rsv1 := decide (64 ≤ o0.toNat % 128),
              rsv2 := decide (32 ≤ o0.toNat % 64), rsv3 := decide (16 ≤ o0.toNat % 32),
              opcode := op, mask := masked, length := len, key := key,
              payload := if masked then transform key data else data }, rest.drop len)
  | _ => none

def parseFrames : Nat → Bytes → Option (List Frame)
  | _, [] => some []
  | 0, _ :: _ => none
  | fuel + 1, bs =>
    match parseFrame bs with
    | none => none
    | some (f, rest) =>
      match parseFrames fuel rest with
      | none => none
      | some fs => some (f :: fs)

/-- The frames `bs` consists of, provided `bs` is exactly the concatenated layout of UNMASKED frames
(with the minimal length form, as the layout demands). -/
def framesOf (bs : Bytes) : Option (List Frame) :=
  match parseFrames bs.length bs with
  | none => none
  | some fs => if fs.all (fun f => !f.mask) && wire fs == bs then some fs else none

/-! ### Sessions: single calls, delivery schedule -/

/-- Number of octets of a frame on the wire (RFC 6455 section 5.2). -/
def wireLen (f : Frame) : Nat :=
  2 + (if f.payload.length ≤ 125 then 0 else if f.payload.length ≤ 65535 then 2 else 8)
    + (if f.mask then 4 else 0) + f.payload.length

/-- The client side as the server sees it: frames not yet read, how many bytes of the stream were
read (`pos`), how many arrive at all before the connection ends (`keep`), and the positions in the
byte stream of the moments at which nothing more has arrived yet (`gaps`, ascending). -/
structure Client where
  frames : List Frame
  pos : Nat
  keep : Nat
  gaps : List Nat
  deriving Repr

inductive Outcome
  | message (m : Msg)
  /-- the client's Close was read: `ConnectionClosed` -/
  | closed
  /-- the stream ended before the message (or frame) was complete: `ReadError` -/
  | lost
  /-- `Restion::None`: nothing yet -/
  | nothing
  deriving DecidableEq, Repr

/-- One receive call. `nb`: `recv_nonblocking`. `first`: no data fragment collected yet (only then
may a non-blocking call answer "nothing yet", and only if no byte of a frame is there: a pending
`gap` at the current position, or the end of the stream). Returns the outcome, the frames written
meanwhile, and the client state afterwards. -/
def recvCall (nb : Bool) (keep : Nat) :
    List Frame → Bool → Option Msg → Nat → List Nat → Outcome × List Frame × Client
  | [], first, _, pos, gaps =>
    if nb && first then
      match gaps with
      | g :: gs => if g ≤ pos then (.nothing, [], ⟨[], pos, keep, gs⟩) else (.nothing, [], ⟨[], pos, keep, gaps⟩)
      | [] => (.nothing, [], ⟨[], pos, keep, []⟩)
    else (.lost, [], ⟨[], keep, keep, []⟩)
  | f :: fs, first, cur, pos, gaps =>
    let waiting := match gaps with | g :: _ => decide (g ≤ pos) | [] => false
    if nb && first && waiting then (.nothing, [], ⟨f :: fs, pos, keep, gaps.drop 1⟩)
    else if nb && first && decide (keep ≤ pos) then (.nothing, [], ⟨f :: fs, pos, keep, gaps⟩)
    else if keep < pos + wireLen f then (.lost, [], ⟨[], keep, keep, []⟩)
    else
      let pos' := pos + wireLen f
      let gaps' := gaps.dropWhile (fun g => decide (g < pos'))
      match f.opcode with
      | .ping =>
        let r := recvCall nb keep fs first cur pos' gaps'
        (r.1, reply .pong f.payload :: r.2.1, r.2.2)
      | .pong => recvCall nb keep fs first cur pos' gaps'
      | .close => (.closed, [reply .close f.payload], ⟨fs, pos', keep, gaps'⟩)
      | _ =>
        if f.fin then (.message (extend cur f), [], ⟨fs, pos', keep, gaps'⟩)
        else recvCall nb keep fs false (some (extend cur f)) pos' gaps'

def Client.recv (c : Client) (nb : Bool) : Outcome × List Frame × Client :=
  recvCall nb c.keep c.frames true none c.pos c.gaps

end Humphrey.WsMsg.Spec
