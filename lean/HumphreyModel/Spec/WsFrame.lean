import HumphreyModel.Model.WsFrame

/-
Specification for C10, written from RFC 6455 section 5.2 ("Base Framing Protocol") and 5.3
("Client-to-Server Masking"), independently of the encoder. Only the *types* `Frame`, `Opcode`,
`Key` are shared with the model; every number below is taken from the RFC text.

      0                   1                   2                   3
      0 1 2 3 4 5 6 7 8 9 0 1 2 3 4 5 6 7 8 9 0 1 2 3 4 5 6 7 8 9 0 1
     +-+-+-+-+-------+-+-------------+-------------------------------+
     |F|R|R|R| opcode|M| Payload len |    Extended payload length    |
     |I|S|S|S|  (4)  |A|     (7)     |             (16/64)           |
     |N|V|V|V|       |S|             |   (if payload len==126/127)   |
     | |1|2|3|       |K|             |                               |
     +-+-+-+-+-------+-+-------------+ - - - - - - - - - - - - - - - +
     |     Extended payload length continued, if payload len == 127  |
     + - - - - - - - - - - - - - - - +-------------------------------+
     |                               |Masking-key, if MASK set to 1  |
     +-------------------------------+-------------------------------+
     | Masking-key (continued)       |          Payload Data         |
     +-------------------------------- - - - - - - - - - - - - - - - +

Bit 0 of the figure is the most significant bit of the octet.
-/
namespace Humphrey.WsFrame.Spec
open Humphrey.WsFrame

def bit (b : Bool) : Nat := if b then 1 else 0

/-- Section 5.2 "Opcode: 4 bits": %x0 continuation, %x1 text, %x2 binary, %x8 connection close,
%x9 ping, %xA pong; %x3-7 and %xB-F are reserved. -/
def opcodeCode : Opcode → Nat
  | .continuation => 0
  | .text => 1
  | .binary => 2
  | .close => 8
  | .ping => 9
  | .pong => 10

/-- The opcode values the RFC reserves (non-control 3-7, control B-F). -/
def reservedOpcode (n : Nat) : Bool := (3 ≤ n && n ≤ 7) || (11 ≤ n && n ≤ 15)

/-- `n` as `k` octets in network byte order (most significant first). -/
def beBytes : Nat → Nat → Bytes
  | 0, _ => []
  | k + 1, n => beBytes k (n / 256) ++ [UInt8.ofNat (n % 256)]

/-- First octet: FIN is the top bit, then RSV1, RSV2, RSV3, then the 4-bit opcode. -/
def octet0 (f : Frame) : UInt8 :=
  UInt8.ofNat (128 * bit f.fin + 64 * bit f.rsv1 + 32 * bit f.rsv2 + 16 * bit f.rsv3
    + opcodeCode f.opcode)

/-- "Payload length: 7 bits, 7+16 bits, or 7+64 bits … the minimal number of bytes MUST be used
to encode the length": the 7-bit field followed by the extended length octets. -/
def lengthField (n : Nat) : Nat × Bytes :=
  if n ≤ 125 then (n, [])
  else if n ≤ 65535 then (126, beBytes 2 n)
  else (127, beBytes 8 n)

/-- Second octet: MASK is the top bit, the 7-bit payload length field below it. -/
def octet1 (f : Frame) : UInt8 := UInt8.ofNat (128 * bit f.mask + (lengthField f.length).1)

/-- Octet `j` of the masking key (section 5.3: "masking-key-octet-j", `j = i MOD 4`). -/
def keyOctet (k : Key) (j : Nat) : UInt8 := (k.toList.getD j 0)

/-- Section 5.3: "transformed-octet-i = original-octet-i XOR masking-key-octet-(i MOD 4)". -/
def transform (k : Key) (data : Bytes) : Bytes :=
  data.mapIdx (fun i b => b ^^^ keyOctet k (i % 4))

/-- The octets of frame `f` on the wire (for `f.length` = number of payload octets, `< 2^64`). -/
def rfc6455Layout (f : Frame) : Bytes :=
  [octet0 f, octet1 f] ++ (lengthField f.length).2
    ++ (if f.mask then f.key.toList else [])
    ++ (if f.mask then transform f.key f.payload else f.payload)

end Humphrey.WsFrame.Spec
