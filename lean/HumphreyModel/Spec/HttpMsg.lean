import HumphreyModel.Model.Bytes
import HumphreyModel.Spec.Status
/-
Specification for C07 (and the wire format of C01): what a syntactically valid HTTP/1.x response
message is — RFC 9112 §2–§6 restricted to what the property mentions: status line with the
registered reason phrase, one `field-name ":" OWS field-value` line per header, blank line, body.
Written as an independent strict recogniser (it shares no code with the serialiser model).
-/
namespace Humphrey.Spec
open Humphrey Humphrey.Bytes

/-- RFC 9110 §5.6.2 `tchar`. -/
def isTchar (b : UInt8) : Bool :=
  (48 ≤ b && b ≤ 57) || (65 ≤ b && b ≤ 90) || (97 ≤ b && b ≤ 122) ||
  b = 33 || b = 35 || b = 36 || b = 37 || b = 38 || b = 39 || b = 42 || b = 43 || b = 45 ||
  b = 46 || b = 94 || b = 95 || b = 96 || b = 124 || b = 126

/-- Split a byte string at the first CRLF: the line and what follows. -/
def splitLine : Bytes → Option (Bytes × Bytes)
  | [] => none
  | [_] => none
  | a :: b :: rest =>
    if a = 13 ∧ b = 10 then some ([], rest)
    else match splitLine (b :: rest) with
      | some (l, r) => some (a :: l, r)
      | none => none

structure Msg where
  version : Bytes
  code : Nat
  phrase : Bytes
  headers : List (Bytes × Bytes)   -- (lower-cased name, value with OWS removed), in wire order
  body : Bytes

def dropOws : Bytes → Bytes
  | b :: rest => if b = 32 ∨ b = 9 then dropOws rest else b :: rest
  | [] => []

/-- Header section: lines until the empty line. Fuel = input length. -/
def parseHeaderSection : Nat → Bytes → List (Bytes × Bytes) → Option (List (Bytes × Bytes) × Bytes)
  | 0, _, _ => none
  | fuel + 1, s, acc =>
    match splitLine s with
    | none => none
    | some ([], rest) => some (acc.reverse, rest)
    | some (line, rest) =>
      match splitOnce 58 line with
      | (_, none) => none
      | (name, some value) =>
        if name.isEmpty || !name.all isTchar then none
        else if value.any (fun b => b = 13 ∨ b = 10) then none
        else parseHeaderSection fuel rest ((asciiLower name, dropOws value) :: acc)

/-- Strict parse of a whole response message (the body is everything after the blank line). -/
def parseMsg (s : Bytes) : Option Msg :=
  match splitLine s with
  | none => none
  | some (statusLine, rest) =>
    match splitOnce 32 statusLine with
    | (_, none) => none
    | (version, some r1) =>
      match splitOnce 32 r1 with
      | (_, none) => none
      | (code, some phrase) =>
        if version.isEmpty || version.any (fun b => b = 13 ∨ b = 10) then none
        else if code.length ≠ 3 || !code.all isDigit then none
        else if phrase.any (fun b => b = 13 ∨ b = 10) then none
        else match parseHeaderSection (rest.length + 1) rest [] with
          | none => none
          | some (hs, body) => some ⟨version, digitsValue code 0, phrase, hs, body⟩

/-- Same multiset of fields, same-named fields in the same relative order. -/
def sameFields (a b : List (Bytes × Bytes)) : Bool :=
  a.length == b.length &&
  a.all (fun (n, _) => (a.filter (·.1 = n)).map (·.2) == (b.filter (·.1 = n)).map (·.2))

/-- `bytes` is a valid HTTP message for the response (version, code, fields, body): valid syntax,
the registered reason phrase, exactly these fields and exactly this body. Returns the first clause
that fails. -/
def checkSerialization (version : Bytes) (code : Nat) (fields : List (Bytes × Bytes)) (body : Bytes)
    (bytes : Bytes) : Option String :=
  match parseMsg bytes with
  | none => some "not-an-http-message"
  | some m =>
    if m.version ≠ version then some "version"
    else if m.code ≠ code then some "status-code"
    else if !(phrasesFor code).contains (asciiLower m.phrase) then some "reason-phrase"
    else if !sameFields m.headers fields then some "header-fields"
    else if m.body = body then none
    else if body ≠ [] ∧ m.body = body ++ [13, 10] then some "crlf-after-body"
    else some "body"

end Humphrey.Spec
