import HumphreyModel.Model.Http
/-
Specification side of C02: the well-formed requests the property quantifies over, the bytes they are
written as (`WfReq.render`) and the request they denote (`WfReq.denote`). Only the *types* of the
model (`Method`, `HName`, `Header`, `Request`, `Env`) and the byte primitives of `Model/Bytes.lean`
are used; nothing here mentions the parser. No Mathlib.

Grammar (RFC 9112 §3, §5 restricted to what Humphrey supports):

  request      = method SP path [ "?" query ] SP version CRLF *( field CRLF ) CRLF [ body ]
  field        = name ":" OWS value            ; OWS = *( SP / HTAB )
-/
namespace Humphrey.Http
open Humphrey Humphrey.Bytes

/-- One header field as written by the client. -/
structure WfHeader where
  /-- the field name as spelled (any case) -/
  name : Bytes
  /-- optional white space after the colon: spaces and tabs -/
  ows : Bytes
  /-- the field value -/
  value : Bytes
deriving DecidableEq, Repr

/-- A request as written by the client. -/
structure WfReq where
  method : Method
  path : Bytes
  /-- `none`: no `?` in the target; `some q`: the target is `path?q` (`q` may be empty) -/
  query : Option Bytes
  version : Bytes
  headers : List WfHeader
  /-- `none`: no Content-Length field and no body -/
  body : Option Bytes
deriving DecidableEq, Repr

def HTAB : UInt8 := 9
def COLON : UInt8 := 58
def QMARK : UInt8 := 63

/-- `name ":" OWS value CRLF`. -/
def WfHeader.render (h : WfHeader) : Bytes := h.name ++ [COLON] ++ h.ows ++ h.value ++ crlf

/-- `method SP path [ "?" query ]`. -/
def WfReq.target (r : WfReq) : Bytes :=
  r.path ++ (match r.query with | none => [] | some q => [QMARK] ++ q)

/-- `method SP target SP version CRLF`. -/
def WfReq.startLine (r : WfReq) : Bytes :=
  r.method.name ++ [SP] ++ r.target ++ [SP] ++ r.version ++ crlf

def renderHeaders (hs : List WfHeader) : Bytes := (hs.map WfHeader.render).flatten

/-- The bytes of the request. -/
def WfReq.render (r : WfReq) : Bytes :=
  r.startLine ++ renderHeaders r.headers ++ crlf ++ r.body.getD []

/-- What a written field denotes: the name up to ASCII case, the value verbatim. -/
def WfHeader.denote (h : WfHeader) : Header := ⟨HName.ofName h.name, h.value⟩

/-- The request the bytes denote, as seen from the peer `env`. -/
def WfReq.denote (r : WfReq) (env : Env) : Request :=
  let hs : Headers := r.headers.map WfHeader.denote
  { method := r.method, uri := r.path, query := r.query.getD [], version := r.version,
    headers := hs, content := r.body,
    address := Address.fromHeaders env.parseIp trim hs env.peer env.port }

/-! ## Well-formedness -/

/-- `content-length` -/
def contentLengthLower : Bytes := [99, 111, 110, 116, 101, 110, 116, 45, 108, 101, 110, 103, 116, 104]

/-- The value of the first field named Content-Length (any case), if there is one. -/
def clValue (hs : List WfHeader) : Option Bytes :=
  (hs.find? (fun h => asciiLower h.name = contentLengthLower)).map (·.value)

/-- No byte of `s` is in `bad`. -/
def avoids (bad : List UInt8) (s : Bytes) : Prop := ∀ b ∈ s, b ∉ bad

instance (bad : List UInt8) (s : Bytes) : Decidable (avoids bad s) := by
  unfold avoids; infer_instance

/-- What the parser actually needs of a header field (used by the round-trip theorem, where the
fields come from a parsed request and may contain CR or have an empty name). -/
structure WfHeader.Core (h : WfHeader) : Prop where
  name_chars : avoids [COLON, LF] h.name
  name_utf8 : utf8Valid h.name = true
  ows_chars : ∀ b ∈ h.ows, b = SP ∨ b = HTAB
  value_chars : avoids [LF] h.value
  value_utf8 : utf8Valid h.value = true
  value_trimmed : trimStart h.value = h.value

/-- A well-formed header field, as the property's quantifier has it.
* name: a non-empty string without `:`, CR, LF. White space inside or around the name is *not*
  excluded: the code does not trim names (`HeaderType::from(" Host")` is the custom name `" host"`),
  and `denote` says exactly that (`HName.ofName name`), so there is nothing to exclude.
* value: valid UTF-8 without CR/LF and without *leading* white space (Unicode `White_Space`, what
  `trim_start` strips): `trimStart value = value`. Leading white space is what `ows` is for; a value
  beginning with, say, U+00A0 would be shortened by the parser. *Trailing* white space is kept verbatim by
  the parser, so it need not be excluded (the property's quantifier excludes it; the theorem is
  stronger). -/
structure WfHeader.WF (h : WfHeader) : Prop where
  name_nonempty : h.name ≠ []
  name_chars : avoids [COLON, CR, LF] h.name
  name_utf8 : utf8Valid h.name = true
  ows_chars : ∀ b ∈ h.ows, b = SP ∨ b = HTAB
  value_chars : avoids [CR, LF] h.value
  value_utf8 : utf8Valid h.value = true
  value_trimmed : trimStart h.value = h.value

/-- What the parser actually needs of a request (every `WF` request satisfies it; so does the
serialisation of every parsed request, which is what the round-trip theorem uses). -/
structure WfReq.Core (r : WfReq) : Prop where
  path_chars : avoids [SP, QMARK, LF] r.path
  path_utf8 : utf8Valid r.path = true
  query_chars : ∀ q, r.query = some q → avoids [SP, LF] q ∧ utf8Valid q = true
  version_nonempty : r.version ≠ []
  version_chars : avoids [SP, LF] r.version
  version_utf8 : utf8Valid r.version = true
  headers : ∀ h ∈ r.headers, h.Core
  /-- a Content-Length field iff there is a body; the first one gives the body's length -/
  content_length : match r.body with
    | none => clValue r.headers = none
    | some b => ∃ cl, clValue r.headers = some cl ∧ parseUsize cl = some b.length

/-- **The well-formed requests of C02.**
* path: no SP, `?`, CR, LF; valid UTF-8 (it may be empty: the parser does not insist on the leading `/`);
* query (if any): no SP, CR, LF; valid UTF-8 (it may contain `?`);
* version: non-empty, no SP, CR, LF; valid UTF-8;
* every header field well-formed (`WfHeader.WF`);
* a Content-Length field is present iff there is a body, and then the first field so named (any
  case) has the value `natToBytes body.length`; the body is shorter than 2^64 bytes (`usize`). The body
  itself is arbitrary bytes. -/
structure WfReq.WF (r : WfReq) : Prop where
  path_chars : avoids [SP, QMARK, CR, LF] r.path
  path_utf8 : utf8Valid r.path = true
  query_chars : ∀ q, r.query = some q → avoids [SP, CR, LF] q ∧ utf8Valid q = true
  version_nonempty : r.version ≠ []
  version_chars : avoids [SP, CR, LF] r.version
  version_utf8 : utf8Valid r.version = true
  headers : ∀ h ∈ r.headers, h.WF
  content_length : clValue r.headers = r.body.map (fun b => natToBytes b.length)
  body_size : ∀ b, r.body = some b → b.length < 18446744073709551616

/-- `WF` as a Boolean (so that concrete requests are checked by evaluation). -/
def WfHeader.wfb (h : WfHeader) : Bool :=
  decide (h.name ≠ []) && decide (avoids [COLON, CR, LF] h.name) && utf8Valid h.name &&
  decide (∀ b ∈ h.ows, b = SP ∨ b = HTAB) && decide (avoids [CR, LF] h.value) && utf8Valid h.value &&
  decide (trimStart h.value = h.value)

def WfReq.wfb (r : WfReq) : Bool :=
  decide (avoids [SP, QMARK, CR, LF] r.path) && utf8Valid r.path &&
  (match r.query with | none => true | some q => decide (avoids [SP, CR, LF] q) && utf8Valid q) &&
  decide (r.version ≠ []) && decide (avoids [SP, CR, LF] r.version) && utf8Valid r.version &&
  r.headers.all WfHeader.wfb &&
  decide (clValue r.headers = r.body.map (fun b => natToBytes b.length)) &&
  (match r.body with | none => true | some b => decide (b.length < 18446744073709551616))

/-! ## An example -/

/-- `POST /a?x=1 HTTP/1.1`, `Host: h`, `content-LENGTH:<SP><TAB>3`, `X-A:v` (no space), body `abc`. -/
def exampleReq : WfReq :=
  { method := .post, path := [47, 97], query := some [120, 61, 49],
    version := [72, 84, 84, 80, 47, 49, 46, 49],
    headers := [⟨[72, 111, 115, 116], [32], [104]⟩,
                ⟨[99, 111, 110, 116, 101, 110, 116, 45, 76, 69, 78, 71, 84, 72], [32, 9], [51]⟩,
                ⟨[88, 45, 65], [], [118]⟩],
    body := some [97, 98, 99] }

/-! ## Equality of requests (the type has no `PartialEq`) -/

/-- "Equal request" of C02: same method, path, query, version, body, and for every header name the same
value sequence. The order between *different* names is not part of equality (serialisation sorts by
design); the address and the cookie list are functions of these (`ReqEquiv.address`, `ReqEquiv.cookies`
in `Props/C02Faithful.lean`). -/
structure ReqEquiv (a b : Request) : Prop where
  method : a.method = b.method
  uri : a.uri = b.uri
  query : a.query = b.query
  version : a.version = b.version
  content : a.content = b.content
  getAll : ∀ n : HName, a.headers.getAll n = b.headers.getAll n

/-- What every request produced by `parseRequest` satisfies (`parseRequest_wfParsed`), and all that
the round trip needs. -/
structure Request.WFParsed (q : Request) : Prop where
  uri_chars : avoids [SP, QMARK, LF] q.uri
  uri_utf8 : utf8Valid q.uri = true
  query_chars : avoids [SP, LF] q.query
  query_utf8 : utf8Valid q.query = true
  version_nonempty : q.version ≠ []
  version_chars : avoids [SP, LF] q.version
  version_utf8 : utf8Valid q.version = true
  name_chars : ∀ h ∈ q.headers, avoids [COLON, LF] h.name.lower
  name_utf8 : ∀ h ∈ q.headers, utf8Valid h.name.lower = true
  name_lower : ∀ h ∈ q.headers, asciiLower h.name.lower = h.name.lower
  value_chars : ∀ h ∈ q.headers, avoids [LF] h.value
  value_utf8 : ∀ h ∈ q.headers, utf8Valid h.value = true
  value_trimmed : ∀ h ∈ q.headers, trimStart h.value = h.value
  content_length : match q.content with
    | none => q.headers.get hContentLength = none
    | some b => ∃ cl, q.headers.get hContentLength = some cl ∧ parseUsize cl = some b.length

end Humphrey.Http
