import HumphreyModel.Model.Auth
/-
Specification for C17, written independently of the list-of-users database: the abstract state is
the pair of finite maps the property talks about,

  `sess : Token → Option (Uid × Expiry)`   "this token was issued to this user and has neither been
                                            invalidated nor lost its user; it expires at …"
  `pw   : Uid → Option Password`           "this user exists and was created with this password"

plus the values drawn from the random source so far (`drawnUids`, `drawnToks`), which is what
"never repeats" (`Fresh`) refers to.  The only thing imported from the model file is the vocabulary
of the interface: `Op`, `Out`, `AuthError`, `u64Bound`.

Reading of the property built into `step`:
* a token authenticates (`live`) exactly the user it is mapped to, and only while `now < expiry`;
* a user has at most one session: issuing a session to `u` is refused while `u` owns a live token
  and otherwise discards whatever (expired) token `u` still had;
* an expired or unknown token is rejected by every operation that takes one, **including refresh**,
  and nothing changes (invalidating an expired token merely forgets it);
* removing a user kills its token.
-/
namespace Humphrey.Auth.Spec
open Humphrey.Auth

structure State (U T P : Type) where
  pw : U → Option P
  sess : T → Option (U × Nat)
  drawnUids : List U
  drawnToks : List T

section
variable {U T P S : Type} [DecidableEq U] [DecidableEq T] [DecidableEq P]

def empty : State U T P := { pw := fun _ => none, sess := fun _ => none, drawnUids := [], drawnToks := [] }

/-- Point update of a finite map. -/
def upd {K V : Type} [DecidableEq K] (f : K → Option V) (k : K) (v : Option V) : K → Option V :=
  fun k' => if k' = k then v else f k'

/-- The user a token authenticates at time `now`, if any. -/
def live (a : State U T P) (now : Nat) (t : T) : Option U :=
  match a.sess t with
  | some (u, e) => if now < e then some u else none
  | none => none

/-- Does `u` own a live token? (Every token in `sess` has been drawn: `Rel.drawnT`.) -/
def hasLive (a : State U T P) (now : Nat) (u : U) : Bool :=
  a.drawnToks.any (fun t => decide (live a now t = some u))

/-- Forget every token of `u`. -/
def dropSessionsOf (a : State U T P) (u : U) : T → Option (U × Nat) :=
  fun t => match a.sess t with
    | some (u', e) => if u' = u then none else some (u', e)
    | none => none

def issue (a : State U T P) (u : U) (lifetime : Nat) (t : T) (now : Nat) : State U T P × Out U T :=
  let a1 := { a with drawnToks := t :: a.drawnToks }
  match a.pw u with
  | none => (a1, .err .userNotFound)
  | some _ =>
    if hasLive a now u then (a1, .err .sessionAlreadyExists)
    else if now + lifetime < u64Bound then
      ({ a1 with sess := upd (dropSessionsOf a u) t (some (u, now + lifetime)) }, .tok t)
    else (a1, .panic)

/-- One operation at time `now`; `dl`/`rl` are the configured default and refresh lifetimes. -/
def step (dl rl : Nat) (a : State U T P) (op : Op U T P S) (now : Nat) : State U T P × Out U T :=
  match op with
  | .createUser p _ u =>
    let a1 := { a with drawnUids := u :: a.drawnUids }
    if (a.pw u).isSome then (a1, .err .userAlreadyExists)
    else ({ a1 with pw := upd a.pw u (some p) }, .uid u)
  | .removeUser u =>
    if (a.pw u).isNone then (a, .err .userNotFound)
    else ({ a with pw := upd a.pw u none, sess := dropSessionsOf a u }, .unit)
  | .verify u p => (a, .bool (decide (a.pw u = some p)))
  | .userExists u => (a, .bool (a.pw u).isSome)
  | .createSession u t => issue a u dl t now
  | .createSessionWithLifetime u l t => issue a u l t now
  | .refreshSession t =>
    match live a now t with
    | none => (a, .err .invalidToken)
    | some u =>
      if now + rl < u64Bound then ({ a with sess := upd a.sess t (some (u, now + rl)) }, .unit)
      else (a, .panic)
  | .invalidateSession t => ({ a with sess := upd a.sess t none }, .unit)
  | .invalidateUserSession u => ({ a with sess := dropSessionsOf a u }, .unit)
  | .getUidByToken t =>
    (a, match live a now t with | some u => .uid u | none => .err .invalidToken)
  | .authRoute c =>
    (a, match c.bind (live a now) with | some u => .http200 u | none => .http401)

def run (dl rl : Nat) (a : State U T P) : List (Op U T P S × Nat) → State U T P × List (Out U T)
  | [] => (a, [])
  | (op, now) :: rest =>
    let r := step dl rl a op now
    let rr := run dl rl r.1 rest
    (rr.1, r.2 :: rr.2)

/-- `Fresh`: every uid / token drawn by an operation differs from all drawn before (the 256-bit /
122-bit randomness claim). Purely a condition on the operation sequence and the values already drawn. -/
def FreshOp (du : List U) (dt : List T) : Op U T P S → Prop
  | .createUser _ _ u => u ∉ du
  | .createSession _ t => t ∉ dt
  | .createSessionWithLifetime _ _ t => t ∉ dt
  | _ => True

def drawU (du : List U) : Op U T P S → List U
  | .createUser _ _ u => u :: du
  | _ => du

def drawT (dt : List T) : Op U T P S → List T
  | .createSession _ t => t :: dt
  | .createSessionWithLifetime _ _ t => t :: dt
  | _ => dt

def Fresh (du : List U) (dt : List T) : List (Op U T P S × Nat) → Prop
  | [] => True
  | (op, _) :: rest => FreshOp du dt op ∧ Fresh (drawU du op) (drawT dt op) rest

end

/-! ### What set-up code denotes

Read from the END of the set-up code: the provider's configuration is the one handed to the LAST `with_config`
(the defaults if there is none, or if the provider was re-made by `AuthProvider::default()` after it); in that
configuration every field has the value of the LAST call of its method made on that `AuthConfig` value, i.e. since
the last `AuthConfig::default()` before the `with_config`, whatever the order of the calls and whatever other methods
were called in between; a field whose method was not called has its default (3600 s, 3600 s, no pepper). -/
section
variable {Pep : Type}

structure Eff (Pep : Type) where
  lifetime : Nat
  refreshLifetime : Nat
  pepper : Pep

def installs : BCall Pep → Bool
  | .withConfig => true
  | .providerDefault => true
  | _ => false

def startsConfig : BCall Pep → Bool
  | .newConfig => true
  | _ => false

def asLifetime : BCall Pep → Option Nat
  | .defaultLifetime l => some l
  | _ => none

def asRefresh : BCall Pep → Option Nat
  | .refreshLifetime l => some l
  | _ => none

def asPepper : BCall Pep → Option Pep
  | .pepper p => some p
  | _ => none

/-- The fields denoted by the calls `back` (latest first) made on one `AuthConfig` value. -/
def fieldsOf (noPepper : Pep) (back : List (BCall Pep)) : Eff Pep :=
  let seg := back.takeWhile (fun c => !startsConfig c)
  { lifetime := (seg.findSome? asLifetime).getD 3600,
    refreshLifetime := (seg.findSome? asRefresh).getD 3600,
    pepper := (seg.findSome? asPepper).getD noPepper }

/-- `back` = the set-up code, latest call first. -/
def effectiveBack (noPepper : Pep) (back : List (BCall Pep)) : Eff Pep :=
  match back.dropWhile (fun c => !installs c) with
  | .withConfig :: before => fieldsOf noPepper before
  | _ => fieldsOf noPepper []

def effective (noPepper : Pep) (calls : List (BCall Pep)) : Eff Pep := effectiveBack noPepper calls.reverse

end
end Humphrey.Auth.Spec
