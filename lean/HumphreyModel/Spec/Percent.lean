/-
Specification of percent-encoding, RFC 3986 §2.1 and §2.3, written from the RFC and
independently of `Model/Percent.lean`.

§2.3  unreserved = ALPHA / DIGIT / "-" / "." / "_" / "~"
§2.1  pct-encoded = "%" HEXDIG HEXDIG; "the uppercase hexadecimal digits 'A' through 'F' are
      equivalent to the lowercase digits 'a' through 'f'"; producers "should use uppercase".
-/
namespace Humphrey.Percent.Spec

/-- RFC 3986 §2.3 by character ranges. -/
def unreserved (b : UInt8) : Bool :=
  (0x41 ≤ b.toNat && b.toNat ≤ 0x5A) ||   -- ALPHA upper
  (0x61 ≤ b.toNat && b.toNat ≤ 0x7A) ||   -- ALPHA lower
  (0x30 ≤ b.toNat && b.toNat ≤ 0x39) ||   -- DIGIT
  b.toNat == 0x2D || b.toNat == 0x2E || b.toNat == 0x5F || b.toNat == 0x7E   -- - . _ ~

/-- The sixteen upper-case hexadecimal digits, `0123456789ABCDEF`, as a table. -/
def upperHexDigits : List UInt8 :=
  [0x30, 0x31, 0x32, 0x33, 0x34, 0x35, 0x36, 0x37, 0x38, 0x39, 0x41, 0x42, 0x43, 0x44, 0x45, 0x46]

/-- The layout the property demands of the encoder: an unreserved byte stands for itself, any
other byte `b` is `%` followed by the two upper-case hex digits of `b`. -/
def encodeByte (b : UInt8) : List UInt8 :=
  if unreserved b then [b]
  else [0x25, upperHexDigits.getD (b.toNat / 16) 0, upperHexDigits.getD (b.toNat % 16) 0]

def encode (bs : List UInt8) : List UInt8 := bs.flatMap encodeByte

/-- `0123456789abcdef`: the lower-case digits §2.1 declares equivalent to the upper-case ones. -/
def lowerHexDigits : List UInt8 :=
  [0x30, 0x31, 0x32, 0x33, 0x34, 0x35, 0x36, 0x37, 0x38, 0x39, 0x61, 0x62, 0x63, 0x64, 0x65, 0x66]

/-- HEXDIG (either case) and its value: the position of the digit in one of the two tables. -/
def hexDigitValue (c : UInt8) : Option Nat :=
  (upperHexDigits.idxOf? c).or (lowerHexDigits.idxOf? c)

/-- `Denotes s b`: the text `s` is a concatenation of literal bytes (anything but `%`) and
well-formed escapes `%XY`, and `b` is the byte string it stands for. -/
inductive Denotes : List UInt8 → List UInt8 → Prop
  | nil : Denotes [] []
  | lit {c : UInt8} {s b : List UInt8} : c ≠ 0x25 → Denotes s b → Denotes (c :: s) (c :: b)
  | esc {x y : UInt8} {hi lo : Nat} {s b : List UInt8} :
      hexDigitValue x = some hi → hexDigitValue y = some lo → Denotes s b →
      Denotes (0x25 :: x :: y :: s) (UInt8.ofNat (16 * hi + lo) :: b)

end Humphrey.Percent.Spec
