/-!
# What C08 demands of a thread pool — independent of the model (import-free)

The property speaks about tasks (numbered in submission order), about how many run at once, about
what a panic may touch, and about what is left when the pool has been stopped and dropped.
`View` is what the property can see of a pool at one instant; the predicates below are the
clauses of the property. `Model/Pool.lean` is mapped into `View` in `Proofs/PoolInv.lean`
(`viewOf`); the harness's end-of-run summary is judged by `Summary.ok`.
-/
namespace Humphrey.PoolSpec

structure View where
  /-- configured thread count -/
  n : Nat
  /-- task ids in submission order -/
  submitted : List Nat
  /-- tasks waiting in the queue, front first -/
  queued : List Nat
  /-- tasks taken from the queue by a worker and neither finished nor panicked yet (one entry per worker) -/
  held : List Nat
  /-- tasks whose body is executing now (one entry per worker) -/
  running : List Nat
  finished : List Nat
  panicked : List Nat
  /-- every entry into a task body, in order -/
  startedLog : List Nat
  /-- every removal of a task from the queue, in order -/
  dequeuedLog : List Nat
  /-- worker ids that exist -/
  workers : Nat
  /-- … whose current incarnation has left its loop -/
  exited : Nat
  /-- … whose current incarnation serves the queue -/
  usable : Nat
  /-- the thread that owns the pool is back from `drop` -/
  callerDone : Bool

/-- Every submitted task is in exactly one place (queue, one worker, finished, panicked), nothing else is
anywhere, and no task body is entered twice. -/
def ExactlyOnce (v : View) : Prop :=
  (∀ k, v.submitted.count k ≤ 1) ∧
  (∀ k, v.queued.count k + v.held.count k + v.finished.count k + v.panicked.count k = v.submitted.count k) ∧
  (∀ k, v.startedLog.count k ≤ 1) ∧
  (∀ k, v.startedLog.count k = v.running.count k + v.finished.count k + v.panicked.count k)

def AtMostN (v : View) : Prop := v.running.length ≤ v.n

/-- Tasks leave the queue in the order in which they were submitted. -/
def Fifo (v : View) : Prop := v.dequeuedLog ++ v.queued = v.submitted

/-- After stop-and-drop (or drop alone) has run its course. -/
def AllDone (v : View) : Prop :=
  (∀ k, k ∈ v.submitted → k ∈ v.finished ∨ k ∈ v.panicked) ∧ v.exited = v.workers

/-- The harness's observation at the end of a script (after drop and a grace period). -/
structure Summary where
  wedged : Bool
  /-- how often each task's body was entered (per-task counters, independent of the event log) -/
  runs : List Nat
  exited : Nat
  barrierTimeout : Bool

/-- `tasks` executes in the script; `workers` = N if the script started the pool, else 0. -/
def Summary.ok (tasks workers : Nat) (s : Summary) : Bool :=
  !s.wedged && s.runs.length == tasks && s.runs.all (· == 1) && s.exited == workers && !s.barrierTimeout

end Humphrey.PoolSpec
