/-!
# What C08 demands of a thread pool — independent of the model (import-free)

The property speaks about tasks (numbered in submission order), about how many run at once, about
what a panic may touch, and about what is left when the pool has been stopped and dropped.
`View` is what the property can see of a pool at one instant; the predicates below are the
clauses of the property. `Model/Pool.lean` is mapped into `View` in `Proofs/PoolInv.lean`
(`viewOf`); the harness's end-of-run summary is judged by `Summary.ok`.
-/
namespace Humphrey.PoolSpec

structure View where
  /-- configured thread count -/
  n : Nat
  /-- task ids in submission order -/
  submitted : List Nat
  /-- tasks waiting in the queue, front first -/
  queued : List Nat
  /-- tasks taken from the queue by a worker and neither finished nor panicked yet (one entry per worker) -/
  held : List Nat
  /-- tasks whose body is executing now (one entry per worker) -/
  running : List Nat
  finished : List Nat
  panicked : List Nat
  /-- every entry into a task body, in order -/
  startedLog : List Nat
  /-- every removal of a task from the queue, in order -/
  dequeuedLog : List Nat
  /-- worker ids that exist -/
  workers : Nat
  /-- … whose current incarnation has left its loop -/
  exited : Nat
  /-- … whose current incarnation serves the queue -/
  usable : Nat
  /-- the thread that owns the pool is back from `drop` -/
  callerDone : Bool

/-- Every submitted task is in exactly one place (queue, one worker, finished, panicked), nothing else is
anywhere, and no task body is entered twice. -/
def ExactlyOnce (v : View) : Prop :=
  (∀ k, v.submitted.count k ≤ 1) ∧
  (∀ k, v.queued.count k + v.held.count k + v.finished.count k + v.panicked.count k = v.submitted.count k) ∧
  (∀ k, v.startedLog.count k ≤ 1) ∧
  (∀ k, v.startedLog.count k = v.running.count k + v.finished.count k + v.panicked.count k)

def AtMostN (v : View) : Prop := v.running.length ≤ v.n

/-- Tasks leave the queue in the order in which they were submitted. -/
def Fifo (v : View) : Prop := v.dequeuedLog ++ v.queued = v.submitted

/-- After stop-and-drop (or drop alone) has run its course. -/
def AllDone (v : View) : Prop :=
  (∀ k, k ∈ v.submitted → k ∈ v.finished ∨ k ∈ v.panicked) ∧ v.exited = v.workers

/-- The harness's observation at the end of a script (after drop and a grace period). -/
structure Summary where
  wedged : Bool
  /-- how often each task's body was entered (per-task counters, independent of the event log) -/
  runs : List Nat
  exited : Nat
  barrierTimeout : Bool
  /-- a settle point of the script that waits until every panic begun so far has been answered by a replacement
  worker was not satisfied in time ("the pool returns to N usable workers") -/
  settleTimeout : Bool := false

/-- `tasks` executes in the script; `workers` = N for every `start` in the script (each start spawns N workers, and the
workers of every run have to exit), 0 if the script never started the pool. -/
def Summary.ok (tasks workers : Nat) (s : Summary) : Bool :=
  !s.wedged && s.runs.length == tasks && s.runs.all (· == 1) && s.exited == workers && !s.barrierTimeout
    && !s.settleTimeout

/-- The clause of the property a summary fails first (for the report). -/
def Summary.failed (tasks workers : Nat) (s : Summary) : String :=
  if s.wedged then "wedged"
  else if s.runs.length != tasks || !s.runs.all (· == 1) then "task-not-run-exactly-once"
  else if s.exited != workers then "workers-not-all-exited"
  else if s.barrierTimeout then "N-tasks-could-not-run-at-once"
  else if s.settleTimeout then "panic-not-recovered"
  else ""

/-! ### Scripts that start the pool more than once

`Model/Pool.lean` describes ONE run (start … stop/drop). A script with several starts is judged on what the property
says about it directly, on counts that can be read off the implementation's event log without knowing to which run a
worker id belongs (ids are reused by every run). -/

structure LogCounts where
  /-- ids of the tasks whose body was entered, in log order -/
  bodies : List Nat
  /-- tasks that began to unwind -/
  unwound : Nat
  /-- panic markers sent to a recovery thread -/
  markers : Nat
  /-- replacement workers spawned -/
  respawns : Nat
  /-- workers that left their loop -/
  exits : Nat
  starts : Nat

/-- Every task body entered exactly once (the log says the same as the per-task counters), each of the `panics`
panicking tasks unwound one worker, which reported itself and was replaced exactly once, and N workers per start have
exited. -/
def LogCounts.ok (n tasks panics : Nat) (l : LogCounts) : Bool :=
  l.bodies.length == tasks && l.bodies.mergeSort (fun a b => decide (a ≤ b)) == List.range tasks
    && l.unwound == panics && l.markers == panics && l.respawns == panics && l.exits == n * l.starts

end Humphrey.PoolSpec
