import HumphreyModel.Model.Fs
/-
Specification for C06, written independently of the path walk and of the handlers of
`Model/Fs.lean` (only the data types `Node`, `Resp` and the MIME table are shared).

* `Descends n names m` — `m` is reached from `n` by going strictly downward through `names`.
* `subtree dir` — the regular files inside `dir`, as (relative path, content) pairs.
* `Inside world dirPath p c` — the canonical path `p` names a regular file with bytes `c` that lies
  inside the directory whose canonical path is `dirPath`.
* `HasExt` / `NoExt` — what "the extension of a file name" is.
* `ServedIntact r c name` — "the file is returned intact, with the Content-Type of its extension".
-/
namespace Humphrey.Fs.Spec
open Humphrey Humphrey.Fs

/-- The entry called `name` of a directory listing (the first one, should a listing repeat a name). -/
def entryOf (es : List (Name × Node)) (name : Name) : Option Node :=
  (es.find? (fun e => e.1 == name)).map (·.2)

/-- Going downward only. -/
inductive Descends : Node → List Name → Node → Prop
  | here (n : Node) : Descends n [] n
  | down {es : List (Name × Node)} {name : Name} {child : Node} {rest : List Name} {m : Node} :
      entryOf es name = some child → Descends child rest m → Descends (.dir es) (name :: rest) m

/-- The regular files inside `dir`: relative path and content. -/
def subtree (dir : Node) (rel : List Name) (content : Bytes) : Prop :=
  Descends dir rel (.file content)

/-- `p` is the canonical path of a regular file with bytes `c` inside the directory at `dirPath`. -/
def Inside (world : Node) (dirPath p : List Name) (c : Bytes) : Prop :=
  ∃ dnode rel, Descends world dirPath dnode ∧ p = dirPath ++ rel ∧ subtree dnode rel c

/-- `name` has extension `e`: `e` is the dot-free text after the last `.`, and something precedes
that dot (a leading dot alone makes a hidden file, not an extension). -/
def HasExt (name e : Bytes) : Prop :=
  ∃ before, before ≠ [] ∧ name = before ++ 46 :: e ∧ 46 ∉ e

/-- `name` has no extension: no dot, or only the leading one. -/
def NoExt (name : Bytes) : Prop := ∀ before e, name = before ++ 46 :: e → 46 ∉ e → before = []

/-- A name a directory can really hold: non-empty, no `/`, no NUL, not `.` (that `..` is excluded
follows from the property's own condition that the path contains no `..`). -/
def PlainName (n : Name) : Prop :=
  n ≠ [] ∧ 47 ∉ n ∧ 0 ∉ n ∧ n ≠ [46]

/-- The path text of relative components: joined with `/`. -/
def joinPath : List Name → Bytes
  | [] => []
  | [n] => n
  | n :: rest => n ++ 47 :: joinPath rest

/-- The slash form of a directory path: every component followed by `/` (empty for the served
directory itself). -/
def slashPath : List Name → Bytes
  | [] => []
  | n :: rest => n ++ 47 :: slashPath rest

/-- "Returned intact, with the Content-Type of its extension": status 200, exactly the bytes of the
file, and — when the name has an extension — the MIME type of that extension (for an
extension-less name the header is left free: the library sends none, the server
`application/octet-stream`). -/
def ServedIntact (r : Resp) (c : Bytes) (name : Name) : Prop :=
  ∃ ct served, r = .ok ct c served ∧ ∀ e, HasExt name e → ct = some (mimeFromExtension e)

/-- `index.html`, `index.htm`. -/
def indexHtml : Name := [105, 110, 100, 101, 120, 46, 104, 116, 109, 108]
def indexHtm : Name := [105, 110, 100, 101, 120, 46, 104, 116, 109]

/-- The index rule: `index.html` if the directory holds a regular file of that name, else
`index.htm` if it holds a regular file of that name, else nothing. -/
def indexOf (es : List (Name × Node)) : Option (Name × Bytes) :=
  match entryOf es indexHtml with
  | some (.file c) => some (indexHtml, c)
  | _ =>
    match entryOf es indexHtm with
    | some (.file c) => some (indexHtm, c)
    | _ => none

end Humphrey.Fs.Spec
