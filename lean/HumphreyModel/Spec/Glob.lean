/-
Specification for C05: what it means for a pattern to match a text.
Written independently of the matcher: `Glob p t` holds exactly when `t` can be obtained from
`p` by replacing each `*` with some (possibly empty) string (`glob_iff_subst` in
`Props/C05.lean` proves the two readings equal).
-/
namespace Humphrey.Glob

/-- Derivation rules: every character other than `*` matches itself; a `*` matches the empty
string (`starSkip`) or one more character (`starEat`). -/
inductive Glob : List Char → List Char → Prop
  | nil : Glob [] []
  | lit {c : Char} {p t : List Char} : c ≠ '*' → Glob p t → Glob (c :: p) (c :: t)
  | starSkip {p t : List Char} : Glob p t → Glob ('*' :: p) t
  | starEat {p : List Char} {c : Char} {t : List Char} :
      Glob ('*' :: p) t → Glob ('*' :: p) (c :: t)

/-- The statement's own wording: replace the `*`s of `p`, left to right, by the strings in
`fills`. `none` when the number of fills is not the number of `*`s. -/
def subst : List Char → List (List Char) → Option (List Char)
  | [], [] => some []
  | [], _ :: _ => none
  | c :: p, fills =>
    if c = '*' then
      match fills with
      | [] => none
      | f :: fs => (subst p fs).map (f ++ ·)
    else (subst p fills).map (c :: ·)

end Humphrey.Glob
