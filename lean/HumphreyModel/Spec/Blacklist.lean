/-
Specification for C19 — "a blacklisted address never receives content" — written without reference to the
server's data structures (no `Address`, no handlers, no cache).

The parties of a request are the address the client connects from (`peer`) and the addresses the request
names in `X-Forwarded-For` (`fwd`, every entry that is an address, in any position and with any spacing: a
request forwarded "on behalf of" a listed address is one that names it, and the statement's last clause
serves only clients "whose own and forwarded addresses are ALL unlisted").  What a client can observe is one
of three things.
-/
namespace Humphrey.BlacklistSpec

/-- What the client observes. `content` is whatever the route gives to clients that are not on the list
(a file, a cached copy, a redirect, the upstream's answer, the route's own 404). -/
inductive Obs | closed | forbidden | content
deriving DecidableEq, Repr

variable {α : Type} [DecidableEq α]

/-- **C19.** `block` says the mode is `block` (otherwise `forbidden`).
1. a listed peer in `block` mode: the connection is closed without a response;
2. a listed peer in `forbidden` mode: 403, whatever the request says;
3. an unlisted peer forwarding for a listed address: 403 (either mode);
4. nobody involved is listed: served normally. -/
def Holds (block : Bool) (list : List α) (peer : α) (fwd : List α) (o : Obs) : Prop :=
  (peer ∈ list → block = true → o = .closed) ∧
  (peer ∈ list → block = false → o = .forbidden) ∧
  (peer ∉ list → (∃ a ∈ fwd, a ∈ list) → o = .forbidden) ∧
  (peer ∉ list → (∀ a ∈ fwd, a ∉ list) → o = .content)

instance (block : Bool) (list : List α) (peer : α) (fwd : List α) (o : Obs) :
    Decidable (Holds block list peer fwd o) := by
  unfold Holds; infer_instance

/-- The one observation the property allows (the four cases of `Holds` are exclusive and exhaustive). -/
def expected (block : Bool) (list : List α) (peer : α) (fwd : List α) : Obs :=
  if list.contains peer then (if block then .closed else .forbidden)
  else if fwd.any (fun a => list.contains a) then .forbidden
  else .content

/-- The title of the property on its own: whoever is listed — as peer or as a forwarded address — gets no content. -/
def NoContentToListed (list : List α) (peer : α) (fwd : List α) (o : Obs) : Prop :=
  (∃ a ∈ peer :: fwd, a ∈ list) → o ≠ .content

end Humphrey.BlacklistSpec
