import HumphreyModel.Model.Conn
import HumphreyModel.Spec.HttpMsg
/-
Specification for C01, evaluated on what the server actually wrote. It does not predict the bytes;
it checks the clauses of the property against them: one response per request, in order; each a
valid message carrying the request's version, Date, Server, the matched route's CORS headers and a
body as long as its Content-Length; open afterwards iff the request was well-formed and asked for
keep-alive, and then self-delimiting; 400 / 408 then close; a panicking handler costs only its own
connection. Requests are cut out of the concatenated client stream by the (segmentation-independent,
see C02) request parser; routing uses the route table through the glob matcher proved in C05.
-/
namespace Humphrey.Spec
open Humphrey Humphrey.Bytes Humphrey.Http

/-- What the connection must do for the next item of the client stream. -/
inductive Expect
  | response (req : Request) (keepAlive : Bool)   -- one framed response to this request
  | status (code : Nat)                           -- 400 / 408, then close
  | upgrade                                       -- WebSocket hand-off: nothing written
  | handlerPanic                                  -- nothing written for this request, then nothing
  | nothing                                       -- client gone: nothing more

def lowerKeepAlive : Bytes := [107, 101, 101, 112, 45, 97, 108, 105, 118, 101]

/-- Headers a message carries, looked up case-insensitively. -/
def msgHeader (m : Msg) (lower : Bytes) : Option Bytes :=
  (m.headers.find? (fun h => h.1 = lower)).map (·.2)

/-- Check one written response against the request it answers. `some reason` = a clause fails. -/
def checkResponse {κ ω : Type} (cfg : ConnCfg κ ω) (req : Request) (keepAlive : Bool) (bytes : Bytes) :
    Option String :=
  match parseMsg bytes with
  | none => some "response-not-an-http-message"
  | some m =>
    let route := getHandler cfg.app ((req.headers.get hHost).map cfg.decode) (cfg.decode req.uri)
    if m.version ≠ req.version then some "version-not-echoed"
    else if !(phrasesFor m.code).contains (asciiLower m.phrase) then some "reason-phrase"
    else if (msgHeader m hDate.lower).isNone then some "no-date"
    else if (msgHeader m hServer.lower).isNone then some "no-server"
    else if route.isNone ∧ m.code ≠ 404 then some "unrouted-not-404"
    else
      -- the matched route's CORS headers
      let want := match route with
        | some r => r.cors.setHeaders []
        | none => []
      -- "handled by" that route: the status and body are what its handler returns for this request
      let handled : Bool := match route with
        | some r =>
          if req.method = Method.options then true
          else match cfg.run r.handler req with
            | .response x =>
              decide (m.code = x.status) &&
                (decide (m.body = x.body) || decide (x.body ≠ [] ∧ m.body = x.body ++ [13, 10]))
            | .panic => true
        | none => true
      if !handled then some "handled-by-wrong-route"
      else if !want.all (fun h => msgHeader m h.name.lower = some h.value) then some "cors-headers"
      else
        let noBodyStatus := m.code = 204 ∨ m.code = 304 ∨ m.code < 200
        match (msgHeader m hContentLength.lower).bind parseUsize with
        | some n =>
          if m.body.length = n then none
          else if n ≠ 0 ∧ m.body = m.body.take n ++ [13, 10] then some "crlf-after-body"
          else some "content-length-mismatch"
        | none =>
          if noBodyStatus ∧ m.body = [] then none
          else if keepAlive then some "open-but-not-self-delimiting"
          else if m.body = [] then none
          else some "body-without-content-length"

/-- Walk the client stream and the written responses side by side. -/
def checkLoop {κ ω : Type} (cfg : ConnCfg κ ω) (idle : IO.Reader → Option IO.Reader) :
    Nat → IO.Reader → List Bytes → Bool → Bool → Option String
  | 0, _, _, _, _ => some "spec-out-of-fuel"
  | fuel + 1, s, written, panicked, pad =>
    -- the CRLF pad after a body is a recorded finding: note it, keep checking everything else
    let done : Option String := if pad then some "crlf-after-body" else none
    let expect : Expect × IO.Reader :=
      match (if cfg.timeout then idle s else none) with
      | some s' => (.status 408, s')
      | none =>
        match parseRequest IO.readerSource cfg.env s with
        | .panic => (.nothing, s)
        | .err .request => (.status 400, s)
        | .err .timeout => (.status 408, s)
        | .err _ => (.nothing, s)
        | .ok (req, s') =>
          if req.headers.get hUpgrade = some websocketValue then (.upgrade, s')
          else
            let ka : Bool := match req.headers.get hConnection with
              | some c => decide (asciiLower c = lowerKeepAlive)
              | none => false
            let route := getHandler cfg.app ((req.headers.get hHost).map cfg.decode) (cfg.decode req.uri)
            let panics : Bool := match route with
              | some r => decide (req.method ≠ Method.options) &&
                  (match cfg.run r.handler req with | .panic => true | _ => false)
              | none => false
            if panics then (.handlerPanic, s') else (.response req ka, s')
    match expect with
    | (.nothing, _) => if written.isEmpty ∧ !panicked then done else some "bytes-after-client-left"
    | (.upgrade, _) => if written.isEmpty then done else some "bytes-after-upgrade"
    | (.handlerPanic, _) =>
      if !written.isEmpty then some "response-after-handler-panic"
      else if !panicked then some "handler-panic-not-propagated"
      else done
    | (.status code, _) =>
      match written with
      | [w] =>
        (match parseMsg w with
         | some m => if m.code = code ∧ !panicked then done else some s!"expected-{code}-then-close"
         | none => some "error-response-not-an-http-message")
      | [] => some s!"missing-{code}"
      | _ => some s!"bytes-after-{code}"
    | (.response req ka, s') =>
      match written with
      | [] => some "missing-response"
      | w :: rest =>
        let r := checkResponse cfg req ka w
        if r.isSome ∧ r ≠ some "crlf-after-body" then r
        else
          let pad' := pad || r.isSome
          if ka then checkLoop cfg idle fuel s' rest panicked pad'
          else if rest.isEmpty ∧ !panicked then (if pad' then some "crlf-after-body" else none)
          else some "bytes-after-close"

def checkConn {κ ω : Type} (cfg : ConnCfg κ ω) (idle : IO.Reader → Option IO.Reader)
    (s : IO.Reader) (written : List Bytes) (panicked : Bool) : Option String :=
  checkLoop cfg idle (s.rest.length + 2) s written panicked false

end Humphrey.Spec
