/-
Specification for HTTP dates (C18): the proleptic Gregorian calendar and RFC 7231 §7.1.1.1
IMF-fixdate, written without reference to `date.rs`.

Months are numbered as in the code's `DateTime.month`: 0 = January … 11 = December.
Weekdays: 0 = Sunday … 6 = Saturday. 1970-01-01 was a Thursday.
-/
namespace Humphrey.Date.Spec

/-- Gregorian leap rule: every 4th year, except centuries, except every 400th year. -/
def isLeap (y : Int) : Bool := (y % 4 == 0 && y % 100 != 0) || y % 400 == 0

def yearLength (y : Int) : Int := if isLeap y then 366 else 365

/-- Length of month `m` (0 = January) of year `y`. -/
def daysInMonth (y : Int) : Nat → Int
  | 0 => 31
  | 1 => if isLeap y then 29 else 28
  | 2 => 31
  | 3 => 30
  | 4 => 31
  | 5 => 30
  | 6 => 31
  | 7 => 31
  | 8 => 30
  | 9 => 31
  | 10 => 30
  | 11 => 31
  | _ => 0

/-- Days of year `y` that precede month `m`: the sum of the lengths of months `0 … m-1`. -/
def daysBeforeMonth (y : Int) : Nat → Int
  | 0 => 0
  | m + 1 => daysBeforeMonth y m + daysInMonth y m

/-- Number of leap years among the years `1 … y-1` (floor division). -/
def leapYearsBefore (y : Int) : Int := (y - 1) / 4 - (y - 1) / 100 + (y - 1) / 400

/-- Days from 1970-01-01 to `y`-01-01: 365 per year plus one per leap year in between.
(`Proofs/Date.lean` shows `daysBeforeYear 1970 = 0` and
`daysBeforeYear (y+1) = daysBeforeYear y + yearLength y`, which determine it.) -/
def daysBeforeYear (y : Int) : Int := 365 * (y - 1970) + (leapYearsBefore y - leapYearsBefore 1970)

/-- Days from 1970-01-01 to the civil date `y`-`m+1`-`d`. -/
def daysFromCivil (y : Int) (m : Nat) (d : Int) : Int :=
  daysBeforeYear y + daysBeforeMonth y m + (d - 1)

/-- Weekday of the day containing Unix time `t`; 0 = Sunday, and 1970-01-01 is a Thursday (4). -/
def weekdaySpec (t : Int) : Int := (4 + t / 86400) % 7

/-- A calendar date with time of day and weekday number, all fields in range. -/
def validDate (y : Int) (m : Nat) (d h mi s w : Int) : Prop :=
  m < 12 ∧ 1 ≤ d ∧ d ≤ daysInMonth y m ∧ 0 ≤ h ∧ h < 24 ∧ 0 ≤ mi ∧ mi < 60 ∧ 0 ≤ s ∧ s < 60 ∧
  0 ≤ w ∧ w < 7

instance (y : Int) (m : Nat) (d h mi s w : Int) : Decidable (validDate y m d h mi s w) := by
  unfold validDate; infer_instance

/-! ### IMF-fixdate (RFC 7231 §7.1.1.1)

`IMF-fixdate = day-name "," SP date1 SP time-of-day SP GMT`, `date1 = day SP month SP year`
(`2DIGIT SP month SP 4DIGIT`), `time-of-day = 2DIGIT ":" 2DIGIT ":" 2DIGIT`. -/

def dayName : Nat → List Char
  | 0 => "Sun".toList | 1 => "Mon".toList | 2 => "Tue".toList | 3 => "Wed".toList
  | 4 => "Thu".toList | 5 => "Fri".toList | 6 => "Sat".toList | _ => []

def monthName : Nat → List Char
  | 0 => "Jan".toList | 1 => "Feb".toList | 2 => "Mar".toList | 3 => "Apr".toList
  | 4 => "May".toList | 5 => "Jun".toList | 6 => "Jul".toList | 7 => "Aug".toList
  | 8 => "Sep".toList | 9 => "Oct".toList | 10 => "Nov".toList | 11 => "Dec".toList | _ => []

/-- The decimal digit for `n % 10`. -/
def digit (n : Nat) : Char := Char.ofNat ('0'.toNat + n % 10)

/-- `2DIGIT`. -/
def dec2 (n : Nat) : List Char := [digit (n / 10), digit n]
/-- `4DIGIT`. -/
def dec4 (n : Nat) : List Char := [digit (n / 1000), digit (n / 100), digit (n / 10), digit n]

def imfFixdate (y m d h mi s w : Nat) : List Char :=
  dayName w ++ (',' :: ' ' :: (dec2 d ++ (' ' :: (monthName m ++ (' ' :: (dec4 y ++ (' ' ::
    (dec2 h ++ (':' :: (dec2 mi ++ (':' :: (dec2 s ++ [' ', 'G', 'M', 'T']))))))))))))

end Humphrey.Date.Spec
