/-
RFC 3174 (SHA-1), written from the RFC text, without reference to `sha1.rs`.

§2/§3: a message is a bit string; a byte is 8 bits, a word 32 bits, most significant bit first.
§4: padding. §5: `f(t;B,C,D)` and `K(t)`. §6.1: method 1. Everything that the RFC indexes by `t`
is a function of `t` here (`W` is the RFC's recurrence itself, not a table that is filled in).
-/
namespace Humphrey.Rfc3174

/-- The 8 bits of a byte, most significant first (§2.c). -/
def byteBits (b : UInt8) : List Bool :=
  [b.toNat.testBit 7, b.toNat.testBit 6, b.toNat.testBit 5, b.toNat.testBit 4,
   b.toNat.testBit 3, b.toNat.testBit 2, b.toNat.testBit 1, b.toNat.testBit 0]

/-- A byte string as a bit string. -/
def bitsOfBytes : List UInt8 → List Bool
  | [] => []
  | b :: rest => byteBits b ++ bitsOfBytes rest

/-- The integer a bit string represents, most significant bit first (§2.d). -/
def natOfBits (bs : List Bool) : Nat := bs.foldl (fun acc b => 2 * acc + b.toNat) 0

/-- The `width`-bit representation of `n`, most significant bit first. -/
def bitsOfNat (width n : Nat) : List Bool :=
  (List.range width).map (fun i => n.testBit (width - 1 - i))

/-- §4.b: the number of "0" bits appended after the "1": the padded message without its final
64-bit length must have length ≡ 448 (mod 512), and no more zeros than necessary are used.
`padZeros_spec` below states exactly that. -/
def padZeros (l : Nat) : Nat := (959 - l % 512) % 512

theorem padZeros_spec (l : Nat) :
    (l + 1 + padZeros l) % 512 = 448 ∧ ∀ k, k < padZeros l → (l + 1 + k) % 512 ≠ 448 := by
  unfold padZeros; constructor
  · omega
  · intro k hk; omega

/-- §4: "1" is appended, then `padZeros` "0"s, then the 64-bit length of the original message. -/
def pad (msg : List Bool) : List Bool :=
  msg ++ [true] ++ List.replicate (padZeros msg.length) false ++ bitsOfNat 64 msg.length

/-- §3.c: circular left shift `S^n(X) = (X << n) OR (X >> 32-n)`. -/
def S (n : UInt32) (x : UInt32) : UInt32 := (x <<< n) ||| (x >>> (32 - n))

/-- §5: `f(t;B,C,D)`. -/
def f (t : Nat) (B C D : UInt32) : UInt32 :=
  if t ≤ 19 then (B &&& C) ||| ((~~~B) &&& D)
  else if t ≤ 39 then B ^^^ C ^^^ D
  else if t ≤ 59 then (B &&& C) ||| (B &&& D) ||| (C &&& D)
  else B ^^^ C ^^^ D

/-- §5: `K(t)`. -/
def K (t : Nat) : UInt32 :=
  if t ≤ 19 then 0x5A827999 else if t ≤ 39 then 0x6ED9EBA1 else if t ≤ 59 then 0x8F1BBCDC
  else 0xCA62C1D6

/-- §6.1.a: word `t` (0 ≤ t < 16) of a 512-bit block. -/
def M (block : List Bool) (t : Nat) : UInt32 :=
  UInt32.ofNat (natOfBits ((block.drop (32 * t)).take 32))

/-- §6.1.a/b: `W(t) = M(t)` for `t < 16`, `W(t) = S^1(W(t-3) XOR W(t-8) XOR W(t-14) XOR W(t-16))`
for `16 ≤ t ≤ 79`. -/
def W (block : List Bool) (t : Nat) : UInt32 :=
  if _h : t < 16 then M block t
  else S 1 (W block (t - 3) ^^^ W block (t - 8) ^^^ W block (t - 14) ^^^ W block (t - 16))
termination_by t
decreasing_by all_goals omega

structure Regs where
  A : UInt32
  B : UInt32
  C : UInt32
  D : UInt32
  E : UInt32
  deriving DecidableEq, Repr

/-- §6.1.d, one iteration `t`:
`TEMP = S^5(A) + f(t;B,C,D) + E + W(t) + K(t); E = D; D = C; C = S^30(B); B = A; A = TEMP`. -/
def iteration (block : List Bool) (t : Nat) (r : Regs) : Regs :=
  { A := S 5 r.A + f t r.B r.C r.D + r.E + W block t + K t
    B := r.A
    C := S 30 r.B
    D := r.C
    E := r.D }

/-- §6.1.c/d: the registers after iterations `0 … t-1`, started from `A = H0 … E = H4`. -/
def regs (block : List Bool) (H : Regs) : Nat → Regs
  | 0 => H
  | t + 1 => iteration block t (regs block H t)

/-- §6.1.e: `H0 = H0 + A, …, H4 = H4 + E` after the 80 iterations. -/
def processBlock (H : Regs) (block : List Bool) : Regs :=
  let r := regs block H 80
  { A := H.A + r.A, B := H.B + r.B, C := H.C + r.C, D := H.D + r.D, E := H.E + r.E }

/-- §4/§6.1: the padded message is the sequence of `n` 512-bit blocks `M(1) … M(n)`. -/
def blocks : Nat → List Bool → List (List Bool)
  | 0, _ => []
  | n + 1, msg => msg.take 512 :: blocks n (msg.drop 512)

/-- §6.1: the blocks are processed in order, each updating `H0 … H4`. -/
def processBlocks (n : Nat) (msg : List Bool) (H : Regs) : Regs :=
  (blocks n msg).foldl processBlock H

/-- §6.1: initial `H0 … H4`. -/
def H0 : Regs :=
  { A := 0x67452301, B := 0xEFCDAB89, C := 0x98BADCFE, D := 0x10325476, E := 0xC3D2E1F0 }

/-- The 4 bytes of a word, most significant first. -/
def wordBytes (w : UInt32) : List UInt8 :=
  [UInt8.ofNat (w.toNat / 2^24), UInt8.ofNat (w.toNat / 2^16), UInt8.ofNat (w.toNat / 2^8),
   UInt8.ofNat w.toNat]

/-- The message digest of a bit string: the 160-bit string `H0 H1 H2 H3 H4`, as 20 bytes. -/
def digestBits (msg : List Bool) : List UInt8 :=
  let padded := pad msg
  let H := processBlocks (padded.length / 512) padded H0
  wordBytes H.A ++ wordBytes H.B ++ wordBytes H.C ++ wordBytes H.D ++ wordBytes H.E

/-- The message digest of a byte string. -/
def digest (m : List UInt8) : List UInt8 := digestBits (bitsOfBytes m)

end Humphrey.Rfc3174
