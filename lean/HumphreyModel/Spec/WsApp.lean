import HumphreyModel.Model.WsApp

/-!
# What C12 demands of the asynchronous WebSocket app

Predicates over the effect trace of a run (`List Effect`: handler dispatches, sends, pings, `exit`) and over
what the run observed (`List IterInput`). Nothing here refers to `stepLoop`/`runLoop`: the same predicates are
evaluated by the driver on the trace the REAL loop produced (H4 log) and are proved of the model's trace in
`Props/C12.lean`. Only the vocabulary (`Addr`, `Msg`, `Recv`, `Poll`, `IterInput`, `Out`, `Effect`, `frameOf`)
is taken from `Model/WsApp.lean`.

The handlers of the app are optional. The predicates about dispatches (`ConnectOnceBeforeMessages`,
`MessagesOnceInOrder`, `DisconnectOnceThenSilence`) are demanded for the handlers that are registered (for an
unregistered handler: no dispatch of that kind at all). The predicates about removal, silence after removal,
polling, sends and pings (`RemovedOnceThenSilence`, `notPolledAfterClose`, `Silent`, `UnicastOk`, `BroadcastOk`)
speak of no handler: they are demanded of EVERY app, whichever handlers it has, and what they look at (`drop`,
`sendTo`, `ping`, the polls) is reported by the loop itself, not by a handler.
-/
namespace Humphrey.WsAppSpec
open Humphrey.WsApp

/-! ### What the run observed -/

/-- The iterations that happen: those before the first one that sees the shutdown signal. -/
def executed : List IterInput → List IterInput
  | [] => []
  | i :: is => if i.shutdown then [] else i :: executed is

/-- Does some iteration see the shutdown signal? -/
def sawShutdown (is : List IterInput) : Bool := is.any (·.shutdown)

/-- The messages an inner loop received (before its first `None`/`Err`). -/
def msgs : List Recv → List Msg
  | .msg m :: rs => m :: msgs rs
  | _ => []

/-- Did the inner loop end with `Err`? -/
def endsErr : List Recv → Bool
  | .msg _ :: rs => endsErr rs
  | .err :: _ => true
  | _ => false

/-- The stream was found closed, broken or timed out in this poll. -/
def closes (p : Poll) : Bool := endsErr p.results || p.timedOut

def closedIn (i : IterInput) (a : Addr) : Bool := i.polls.any fun p => p.addr == a && closes p

/-- Everything client `a` sent that the app received, in order. -/
def received (a : Addr) (is : List IterInput) : List Msg :=
  (executed is).flatMap fun i => i.polls.flatMap fun p => if p.addr = a then msgs p.results else []

/-- The clients accepted, in order. -/
def admitted (is : List IterInput) : List Addr := (executed is).flatMap (·.incoming)

/-- How often client `a` was found closed, broken or timed out. -/
def closings (a : Addr) (is : List IterInput) : Nat :=
  ((executed is).map fun i => (i.polls.filter fun p => p.addr == a && closes p).length).sum

/-- Once `a` has been found closed, broken or timed out it is not polled again (it has left the table).
To be applied to the executed iterations. -/
def notPolledAfterClose (a : Addr) : List IterInput → Bool
  | [] => true
  | i :: is =>
    if closedIn i a then is.all fun j => j.polls.all fun p => p.addr != a
    else notPolledAfterClose a is

/-- The clients connected at (and after) the flush of an iteration, given those connected before it
(as a list with possible repetitions: only membership matters). -/
def liveAtFlush (live : List Addr) (i : IterInput) : List Addr :=
  (live.filter fun a => !closedIn i a) ++ i.incoming

/-- The clients connected after the given (executed) iterations. -/
def liveAfter (live : List Addr) : List IterInput → List Addr
  | [] => live
  | i :: is => liveAfter (liveAtFlush live i) is

/-! ### Who sends

"A broadcast reaches every client connected at that moment exactly once" - whoever issues it: the connect, message
or disconnect handler through the stream object it is given, or anybody through an `AsyncSender`. What the loop
does with a message it takes from the channel is `UnicastOk` / `BroadcastOk` below; that every message handed to
`send` / `broadcast` IS taken is demanded here, of the real run, from what the issuers wrote down. -/

/-- A server-side send as its issuer saw it. -/
structure Issue where
  /-- how many iterations of the loop had started when the call returned (`none`: it had not returned when the
  run's logs were collected) -/
  stamp : Option Nat
  /-- what was handed over (`broadcast m []`: the visiting order is not the issuer's business) -/
  out : Out
  /-- a unicast through the stream of a client that has already gone (the stream a disconnect handler is given),
  i.e. to that client: there is nobody to deliver it to -/
  toGone : Bool := false
  deriving DecidableEq, Repr

/-- A message of the channel without the visiting order of its flush. -/
def normOut : Out → Out
  | .unicast a m => .unicast a m
  | .broadcast m _ => .broadcast m []

/-- The send must have been taken by a run of `n` iterations: its call returned before the last of them started
(so that iteration's `outgoing_messages.try_iter()` found it, if no earlier one did). -/
def Issue.due (n : Nat) (i : Issue) : Bool :=
  !i.toGone && match i.stamp with
    | some k => decide (k < n)
    | none => false

/-- The message `o` was taken from the channel at least as often as it was due. -/
def issuedOutFlushed (n : Nat) (is : List Issue) (taken : List Out) (o : Out) : Bool :=
  decide (((is.filter (·.due n)).map fun i => normOut i.out).count o ≤ (taken.map normOut).count o)

/-- Every send whose call returned before an iteration of the run started was taken from the channel (and then
flushed: `UnicastOk` / `BroadcastOk` say to whom) - whoever issued it. -/
def issuedAreFlushed (n : Nat) (is : List Issue) (taken : List Out) : Bool :=
  (((is.filter (·.due n)).map fun i => normOut i.out).eraseDups).all (issuedOutFlushed n is taken)

/-- Nothing is taken from the channel more often than it was issued (no message out of thin air, none twice). -/
def flushedWereIssued (is : List Issue) (taken : List Out) : Bool :=
  ((taken.map normOut).eraseDups).all fun o =>
    decide ((taken.map normOut).count o ≤ (is.map fun i => normOut i.out).count o)

/-- Everything the executed iterations took from the channel, in order. -/
def takenOut (is : List IterInput) : List Out := (executed is).flatMap (·.outgoing)

/-! ### The heartbeat

`with_heartbeat(interval, timeout)`: the app pings every connected client every `interval` and disconnects a
client that has not answered within `timeout` ("if the client does not respond to any pings within `timeout`,
the server will close the connection and run the configured callbacks", ping.rs). The model takes the clock
readings as inputs (`willPing`, `timedOut`), so what they must be is demanded here, of the REAL run, from what
can be observed from outside: when the client's socket delivered a Pong, when the loop polled, pinged and gave
up. Times are natural numbers (ns, the resolution of the clock) on one monotonic clock. The loop reads the clock itself; the observer brackets
each reading between two of its own observations on the loop's thread, hence the intervals. A Pong counts
wherever it stands in the client's frame stream: alone, before or after a message, between the fragments of a
message (RFC 6455 5.4, 5.5), several in a row. -/

/-- What was observed about one client, in order. -/
inductive HbEv
  /-- a sign of life: the stream was created, or a Pong of the client was delivered to the server; the loop's
  clock reading for it lies in `[lo, hi]` -/
  | life (lo hi : Nat)
  /-- the client was polled ("nothing") at a reading `≥ t` and then kept -/
  | alive (t : Nat)
  /-- the client was declared timed out at a reading `≤ t` -/
  | timedOut (t : Nat)
  deriving DecidableEq, Repr

/-- A client whose last sign of life is less than `timeout` old is not timed out: at every `timedOut t` the
latest sign of life before it is at least `timeout` old even when dated as early as possible. -/
def liveClientKept (timeout : Nat) : Option (Nat × Nat) → List HbEv → Bool
  | _, [] => true
  | _, .life lo hi :: es => liveClientKept timeout (some (lo, hi)) es
  | last, .alive _ :: es => liveClientKept timeout last es
  | last, .timedOut t :: es =>
    (match last with
     | some (lo, _) => decide (lo + timeout ≤ t)
     | none => true) && liveClientKept timeout last es

/-- A client that has been silent for `timeout` is timed out at the next check: whenever it is kept at `t`, its
latest sign of life, dated as late as possible, is less than `timeout` old. -/
def silentClientTimedOut (timeout : Nat) : Option (Nat × Nat) → List HbEv → Bool
  | _, [] => true
  | _, .life lo hi :: es => silentClientTimedOut timeout (some (lo, hi)) es
  | last, .timedOut _ :: es => silentClientTimedOut timeout last es
  | last, .alive t :: es =>
    (match last with
     | some (_, hi) => decide (t < hi + timeout)
     | none => true) && silentClientTimedOut timeout last es

/-- The ping decisions of the loop, in order. -/
inductive PingEv
  /-- the loop decided to ping in an iteration that started at `i`; reported at `t` (`last_ping` lies in `[i, t]`);
  the first entry of a run stands for the initial `last_ping` -/
  | pinged (i t : Nat)
  /-- the loop decided not to ping, in an iteration that started at `i` -/
  | notPinged (i : Nat)
  deriving DecidableEq, Repr

/-- Pings are `interval` apart: never two less than `interval` apart, and no iteration without one when the last
one is `interval` old. -/
def pingCadenceOk (interval : Nat) : Option (Nat × Nat) → List PingEv → Bool
  | _, [] => true
  | last, .pinged i t :: es =>
    (match last with
     | some (i', _) => decide (i' + interval ≤ t)
     | none => true) && pingCadenceOk interval (some (i, t)) es
  | last, .notPinged i :: es =>
    (match last with
     | some (_, t') => decide (i < t' + interval)
     | none => true) && pingCadenceOk interval last es

/-! ### The trace -/

def msgOf (a : Addr) : Effect → Option Msg
  | .dispatchMessage b m => if b = a then some m else none
  | _ => none

def isMsgOf (a : Addr) (e : Effect) : Bool := (msgOf a e).isSome

/-- The effect is a dispatch for, a send to or a ping of client `a`. -/
def concerns (a : Addr) : Effect → Bool
  | .dispatchConnect b => b == a
  | .dispatchMessage b _ => b == a
  | .dispatchDisconnect b => b == a
  | .sendTo b _ => b == a
  | .ping b => b == a
  | _ => false

/-- The connect handler is dispatched exactly once for `a`, and no message of `a` is dispatched before. -/
def ConnectOnceBeforeMessages (a : Addr) (T : List Effect) : Prop :=
  T.count (.dispatchConnect a) = 1 ∧
  ∀ e ∈ T.takeWhile (· != .dispatchConnect a), isMsgOf a e = false

/-- The message dispatches of `a` are the messages received from `a`: each once, in order. -/
def MessagesOnceInOrder (a : Addr) (is : List IterInput) (T : List Effect) : Prop :=
  T.filterMap (msgOf a) = received a is

/-- The disconnect handler is dispatched exactly once for `a`, and nothing concerns `a` afterwards
(what follows for `a` is its removal, `drop a`: see `RemovedOnceThenSilence`). -/
def DisconnectOnceThenSilence (a : Addr) (T : List Effect) : Prop :=
  T.count (.dispatchDisconnect a) = 1 ∧
  ∀ e ∈ (T.dropWhile (· != .dispatchDisconnect a)).drop 1, concerns a e = false

/-- The stream of `a` is removed from the table (and dropped) exactly once, and afterwards nothing is
dispatched for `a`, sent to it or pinged. No handler is needed to see this. -/
def RemovedOnceThenSilence (a : Addr) (T : List Effect) : Prop :=
  T.count (.drop a) = 1 ∧
  ∀ e ∈ (T.dropWhile (· != .drop a)).drop 1, concerns a e = false

/-- Nothing at all happens for `a`: no dispatch, send, ping or removal. -/
def Silent (a : Addr) (T : List Effect) : Prop :=
  ∀ e ∈ T, concerns a e = false ∧ e ≠ .drop a

/-- The effects `seg` of flushing a unicast to `a`: nothing but the one frame to `a`, at most once, exactly
once when `a` is connected, nothing when it is not. -/
def UnicastOk (live : List Addr) (a : Addr) (m : Msg) (seg : List Effect) : Prop :=
  (∀ e ∈ seg, e = .sendTo a (frameOf m)) ∧ seg.length ≤ 1 ∧ (a ∈ live → seg.length = 1) ∧ (a ∉ live → seg = [])

/-- The effects `seg` of flushing a broadcast: every connected client gets the frame exactly once, and
nothing else happens. -/
def BroadcastOk (live : List Addr) (m : Msg) (seg : List Effect) : Prop :=
  (∀ a ∈ live, seg.count (.sendTo a (frameOf m)) = 1) ∧ (∀ e ∈ seg, ∃ a ∈ live, e = .sendTo a (frameOf m))

/-- `run` returns: the trace ends with its only `exit`. -/
def ExitsLast (T : List Effect) : Prop := T.getLast? = some .exit ∧ T.count .exit = 1

instance (a : Addr) (T : List Effect) : Decidable (ConnectOnceBeforeMessages a T) := by
  unfold ConnectOnceBeforeMessages; infer_instance
instance (a : Addr) (is : List IterInput) (T : List Effect) : Decidable (MessagesOnceInOrder a is T) := by
  unfold MessagesOnceInOrder; infer_instance
instance (a : Addr) (T : List Effect) : Decidable (DisconnectOnceThenSilence a T) := by
  unfold DisconnectOnceThenSilence; infer_instance
instance (a : Addr) (T : List Effect) : Decidable (RemovedOnceThenSilence a T) := by
  unfold RemovedOnceThenSilence; infer_instance
instance (a : Addr) (T : List Effect) : Decidable (Silent a T) := by
  unfold Silent; infer_instance
instance (live : List Addr) (a : Addr) (m : Msg) (seg : List Effect) : Decidable (UnicastOk live a m seg) := by
  unfold UnicastOk; infer_instance
instance (live : List Addr) (m : Msg) (seg : List Effect) : Decidable (BroadcastOk live m seg) := by
  unfold BroadcastOk; infer_instance
instance (T : List Effect) : Decidable (ExitsLast T) := by
  unfold ExitsLast; infer_instance

end Humphrey.WsAppSpec
