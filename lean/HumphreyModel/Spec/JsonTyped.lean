import HumphreyModel.Model.JsonTyped
/-!
# Specification for C14: documented JSON shapes and the meaning of a `json!` literal

Only types are taken from the model files (`Value`, `NumCodec`, `serialize` for embedded
expressions, `Tok`, `Ty`, `TVal`, `Num`); none of `expandJson/expandArray/expandObject`,
`toJson`, `fromJson` is mentioned.

## `json!` literals

`Lit` is the documented grammar of the macro argument — JSON with Rust expressions in value
position and string literals or string-typed expressions as keys, a trailing comma allowed in
arrays and objects:

    lit     ::= null | [ elems ] | { members } | "string" | expr
    elems   ::= ε | lit (, lit)* ,?
    members ::= ε | key : lit (, key : lit)* ,?

`Lit.tok` is the token tree a literal is written as, `Lit.spell C` the JSON text it spells (an
embedded expression spells the serialisation of its value), `Lit.value` the value that text
denotes. The property says: the macro evaluates `lit.tok` to what parsing `lit.spell` gives.

## Shapes

`shapeOk ty j` — `j` has the documented shape for `ty`: a named struct (derive or `json_map!`) is
an object whose members are exactly the fields, in order, keyed by the (re)name; a tuple struct is
an array with one element per field; an enum is one of its variant names as a string; `Option` is
`null` or the inner shape; `Vec` an array; scalars the matching JSON scalar.
-/
namespace Humphrey.JsonTyped
open Humphrey.Json (Value NumCodec)

/-- how a key is written: a string literal, or an expression of string type -/
inductive KeyForm where
  | literal | expression
deriving DecidableEq, Repr

inductive Lit (N : Type) where
  | null : Lit N
  | str (s : List Char) : Lit N
  | expr (v : Value N) : Lit N
  | arr (xs : List (Lit N)) (trailing : Bool) : Lit N
  | obj (ms : List (KeyForm × Key × Lit N)) (trailing : Bool) : Lit N

def keyTok {N : Type} : KeyForm → Key → Tok N
  | .literal, k => .lit k
  | .expression, k => .expr (.string k)

mutual
/-- the token tree a literal is written as -/
def Lit.tok {N : Type} : Lit N → Tok N
  | .null => .null
  | .str s => .lit s
  | .expr v => .expr v
  | .arr xs tr => .group .brack (Lit.elemToks xs tr)
  | .obj ms tr => .group .brace (Lit.memberToks ms tr)
def Lit.elemToks {N : Type} : List (Lit N) → Bool → List (Tok N)
  | [], _ => []
  | [x], tr => if tr then [x.tok, .comma] else [x.tok]
  | x :: y :: xs, tr => x.tok :: .comma :: Lit.elemToks (y :: xs) tr
def Lit.memberToks {N : Type} : List (KeyForm × Key × Lit N) → Bool → List (Tok N)
  | [], _ => []
  | [(f, k, x)], tr => if tr then [keyTok f k, .colon, x.tok, .comma] else [keyTok f k, .colon, x.tok]
  | (f, k, x) :: m :: ms, tr => keyTok f k :: .colon :: x.tok :: .comma :: Lit.memberToks (m :: ms) tr
end

mutual
/-- the value the spelled text denotes -/
def Lit.value {N : Type} : Lit N → Value N
  | .null => .null
  | .str s => .string s
  | .expr v => v
  | .arr xs _ => .array (Lit.values xs)
  | .obj ms _ => .object (Lit.memberValues ms)
def Lit.values {N : Type} : List (Lit N) → List (Value N)
  | [] => []
  | x :: xs => x.value :: Lit.values xs
def Lit.memberValues {N : Type} : List (KeyForm × Key × Lit N) → List (Key × Value N)
  | [] => []
  | (_, k, x) :: ms => (k, x.value) :: Lit.memberValues ms
end

mutual
/-- the JSON text a literal spells (trailing commas are not part of JSON and are not spelled) -/
def Lit.spell {N : Type} (C : NumCodec N) : Lit N → List Char
  | .null => ['n', 'u', 'l', 'l']
  | .str s => Humphrey.Json.stringToString s
  | .expr v => Humphrey.Json.serialize C v
  | .arr xs _ => '[' :: (Lit.spellElems C xs ++ [']'])
  | .obj ms _ => '{' :: (Lit.spellMembers C ms ++ ['}'])
def Lit.spellElems {N : Type} (C : NumCodec N) : List (Lit N) → List Char
  | [] => []
  | [x] => x.spell C
  | x :: y :: xs => x.spell C ++ ',' :: Lit.spellElems C (y :: xs)
def Lit.spellMembers {N : Type} (C : NumCodec N) : List (KeyForm × Key × Lit N) → List Char
  | [] => []
  | [(_, k, x)] => Humphrey.Json.stringToString k ++ ':' :: x.spell C
  | (_, k, x) :: m :: ms =>
    Humphrey.Json.stringToString k ++ ':' :: (x.spell C ++ ',' :: Lit.spellMembers C (m :: ms))
end

/-- **the meaning of a `json!` literal**: what `Value::parse` makes of the text it spells -/
def Lit.denote {N : Type} (C : NumCodec N) (l : Lit N) : Option (Value N) :=
  Humphrey.Json.parse C (l.spell C)

/-! ### recognising the grammar in a token tree (used by the driver) -/

mutual
def parseLit {N : Type} : Tok N → Option (Lit N)
  | .null => some .null
  | .lit s => some (.str s)
  | .expr v => some (.expr v)
  | .group .brack ts =>
    match parseElems ts with
    | some (xs, tr) => some (.arr xs tr)
    | none => none
  | .group .brace ts =>
    match parseMembers ts with
    | some (ms, tr) => some (.obj ms tr)
    | none => none
  | .comma => none
  | .colon => none
def parseElems {N : Type} : List (Tok N) → Option (List (Lit N) × Bool)
  | [] => some ([], false)
  | [t] =>
    match parseLit t with
    | some x => some ([x], false)
    | none => none
  | [t, .comma] =>
    match parseLit t with
    | some x => some ([x], true)
    | none => none
  | t :: .comma :: rest =>
    match parseLit t, parseElems rest with
    | some x, some (y :: xs, tr) => some (x :: y :: xs, tr)
    | _, _ => none
  | _ :: _ :: _ => none
def parseMembers {N : Type} : List (Tok N) → Option (List (KeyForm × Key × Lit N) × Bool)
  | [] => some ([], false)
  | [k, .colon, t] =>
    match parseKey k, parseLit t with
    | some (f, k), some x => some ([(f, k, x)], false)
    | _, _ => none
  | [k, .colon, t, .comma] =>
    match parseKey k, parseLit t with
    | some (f, k), some x => some ([(f, k, x)], true)
    | _, _ => none
  | k :: .colon :: t :: .comma :: rest =>
    match parseKey k, parseLit t, parseMembers rest with
    | some (f, k), some x, some (m :: ms, tr) => some ((f, k, x) :: m :: ms, tr)
    | _, _, _ => none
  | _ :: _ => none
def parseKey {N : Type} : Tok N → Option (KeyForm × Key)
  | .lit s => some (.literal, s)
  | .expr (.string s) => some (.expression, s)
  | _ => none
end

/-! ## Shapes -/

mutual
def shapeOk : Ty → Value Num → Bool
  | .bool, .bool _ => true
  | .num _, .number _ => true
  | .str, .string _ => true
  | .opt _, .null => true
  | .opt t, v => shapeOk t v
  | .vec t, .array xs => xs.all (shapeOk t)
  | .named fs, .object ms => shapeFields fs ms
  | .tuple ts, .array xs => shapeTuple ts xs
  | .enum names, .string s => names.contains s
  | _, _ => false
def shapeFields : List (Key × Ty) → List (Key × Value Num) → Bool
  | [], [] => true
  | (k, t) :: fs, (k', v) :: ms => k = k' && shapeOk t v && shapeFields fs ms
  | _, _ => false
def shapeTuple : List Ty → List (Value Num) → Bool
  | [], [] => true
  | t :: ts, v :: xs => shapeOk t v && shapeTuple ts xs
  | _, _ => false
end

/-! ## The hypotheses of the round trip -/

mutual
/-- keys of every named struct and variant names of every enum are pairwise distinct -/
def KeysDistinct : Ty → Prop
  | .opt t => KeysDistinct t
  | .vec t => KeysDistinct t
  | .named fs => (fs.map (·.1)).Nodup ∧ KeysDistinctFields fs
  | .tuple ts => KeysDistinctList ts
  | .enum names => names.Nodup
  | _ => True
def KeysDistinctFields : List (Key × Ty) → Prop
  | [] => True
  | (_, t) :: fs => KeysDistinct t ∧ KeysDistinctFields fs
def KeysDistinctList : List Ty → Prop
  | [] => True
  | t :: ts => KeysDistinct t ∧ KeysDistinctList ts
end

def Ty.isOpt : Ty → Bool
  | .opt _ => true
  | _ => false

mutual
/-- no `Option<Option<_>>` anywhere in the type -/
def NoNestedOpt : Ty → Prop
  | .opt t => t.isOpt = false ∧ NoNestedOpt t
  | .vec t => NoNestedOpt t
  | .named fs => NoNestedOptFields fs
  | .tuple ts => NoNestedOptList ts
  | _ => True
def NoNestedOptFields : List (Key × Ty) → Prop
  | [] => True
  | (_, t) :: fs => NoNestedOpt t ∧ NoNestedOptFields fs
def NoNestedOptList : List Ty → Prop
  | [] => True
  | t :: ts => NoNestedOpt t ∧ NoNestedOptList ts
end

/-- the integer survives `as f64`: it is one of the integers an `f64` can hold -/
def F64Exact (i : Int) : Prop := roundF64 i = i

mutual
/-- every integer in the value is `f64`-representable (in particular every `|i| ≤ 2^53`) -/
def Representable : TVal → Prop
  | .int i => F64Exact i
  | .some v => Representable v
  | .vec vs => RepresentableList vs
  | .fields vs => RepresentableList vs
  | _ => True
def RepresentableList : List TVal → Prop
  | [] => True
  | v :: vs => Representable v ∧ RepresentableList vs
end

end Humphrey.JsonTyped
