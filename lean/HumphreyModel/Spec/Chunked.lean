import HumphreyModel.Model.Bytes
/-
Specification for the chunked half of C07: how a message with `Transfer-Encoding: chunked` is
rendered (RFC 9112 §7.1, without chunk extensions and without trailer fields):

    chunked-body = *chunk last-chunk CRLF
    chunk        = chunk-size CRLF chunk-data CRLF        ; chunk-size = 1*HEXDIG, data non-empty
    last-chunk   = 1*("0") CRLF

The spelling of each size (letter case, leading zeros) is a parameter.
-/
namespace Humphrey.Spec
open Humphrey Humphrey.Bytes

/-- `hex` is a spelling of `n`: at least one digit, hex digits of either case only, value `n`
(leading zeros allowed). -/
def HexSpells (hex : Bytes) (n : Nat) : Prop := hex ≠ [] ∧ hexValue hex 0 = some n

/-- `chunk-size CRLF chunk-data CRLF` -/
def renderChunk (hex data : Bytes) : Bytes := hex ++ 13 :: 10 :: (data ++ [13, 10])

/-- `*chunk last-chunk CRLF`; `parts` pairs each chunk's size spelling with its data, `last` spells 0. -/
def renderChunkedBody (parts : List (Bytes × Bytes)) (last : Bytes) : Bytes :=
  parts.flatMap (fun p => renderChunk p.1 p.2) ++ (last ++ [13, 10, 13, 10])

/-- The whole message: status line, field lines (each already `name ": " value`), blank line,
chunked body. -/
def renderChunked (version code phrase : Bytes) (fieldLines : List Bytes) (parts : List (Bytes × Bytes))
    (last : Bytes) : Bytes :=
  version ++ 32 :: (code ++ 32 :: phrase) ++ 13 :: 10 ::
    (fieldLines.flatMap (fun l => l ++ [13, 10]) ++ 13 :: 10 :: renderChunkedBody parts last)

end Humphrey.Spec
