/-!
# What C20 demands of `App::run` with a shutdown receiver — independent of the model (import-free)

The property speaks about what can be seen of a run from outside: the signal, the accept loop's
iterations, connections handed to the pool, `run` returning, the port, the bytes in-flight clients get.
`Ev` is that vocabulary; an execution is a `List Ev` in the order in which things happened; `End` is what
is left when nothing can move any more. The clauses of the property are predicates on those.
`Model/Shutdown.lean` is mapped into this vocabulary in `Proofs/Shutdown.lean` (`evOf`, `endOf`); the
harness's end-of-scenario summary is judged by `Summary.ok`.
-/
namespace Humphrey.ShutdownSpec

/-- Connection ids are whatever the environment uses to tell connections apart. -/
inductive Ev where
  | signalTaken                 -- the waiting thread has seen the signal
  | flagStored                  -- the shutdown flag is visible to the accept loop
  | wakeSent                    -- the loop-back connection that wakes `accept()` is made
  | acceptReturned              -- one iteration of the accept loop begins
  | admitted (conn : Nat)       -- the connection condition let the connection in
  | dispatched (conn : Nat)     -- handed to the thread pool
  | loopLeft
  | poolStopped
  | listenerDropped
  | poolDropped
  | returned                    -- `run` is back
  | taskTouched                 -- something other than a worker changed what a worker is doing or has done
  | other
  deriving DecidableEq, Repr

def count (p : Ev → Bool) (tr : List Ev) : Nat := (tr.filter p).length

/-- Every `b` in the execution has an `a` somewhere before it. -/
def Precedes (a b : Ev) : List Ev → Prop
  | [] => True
  | e :: tr => (e = a ∨ (e ≠ b ∧ Precedes a b tr))

/-- The flag is stored before the wake-up connection is made: the iteration that accepts the wake-up
connection (or an earlier one) sees the flag. -/
def FlagBeforeWakeup (tr : List Ev) : Prop := Precedes .flagStored .wakeSent tr

/-- At most `n` further iterations of the accept loop. -/
def AcceptsAtMost (n : Nat) (tr : List Ev) : Prop := count (· == .acceptReturned) tr ≤ n

/-- The shutdown path never touches a task. -/
def NoTaskTouched (tr : List Ev) : Prop := count (· == .taskTouched) tr = 0

/-- What is left at the end of a run. -/
structure End where
  callerReturned : Bool
  listenerOpen : Bool
  poolStopped : Bool
  poolDropped : Bool
  /-- connections handed to the pool whose task neither finished nor panicked -/
  unfinished : Nat
  /-- workers that have not left their loop -/
  workersLeft : Nat

/-- `run` returned, the port is free, the pool was stopped and dropped. -/
def End.shutDown (e : End) : Prop :=
  e.callerReturned = true ∧ e.listenerOpen = false ∧ e.poolStopped = true ∧ e.poolDropped = true

/-- … and nothing that had been handed to the pool was lost. -/
def End.nothingLost (e : End) : Prop := e.unfinished = 0 ∧ e.workersLeft = 0

/-! ### The harness's observation of one scenario -/

/-- Per client: `C` complete response, `P` partial response (truncated), `Z` connection closed without a byte,
`T` nothing within the deadline although the connection is open, `R` connect refused, `h` a connection that
only holds a worker (not judged). A client that PIPELINED n requests on one connection: `C` all n responses,
complete, in the order of the requests, nothing after them; `P` anything else that has bytes which are not
that (a truncated response, a response out of order); `M` fewer than n responses (at least one), each complete,
and the connection closed; `Z` / `T` as above (`T`: not all n at the deadline, connection open). -/
structure Summary where
  wedged : Bool
  rebindOk : Bool
  exited : Nat
  clients : List Char

/-- `workers`: threads of the pool (0 for tokio); `must`: clients whose complete request had been handed to the
pool before the signal was sent — their response must be complete; for a pipelined client: whose connection had
been handed to the pool and whose requests had ALL been written (plus a grace period) before the signal was
sent — every one of them must be answered (`C`; `M` is not enough). No client at all may see a truncated
response or be left hanging. -/
def Summary.ok (workers : Nat) (must : List Nat) (s : Summary) : Bool :=
  !s.wedged && s.rebindOk && s.exited == workers &&
  s.clients.all (fun c => c != 'P' && c != 'T') &&
  must.all (fun i => s.clients[i]? == some 'C')

def Summary.reason (workers : Nat) (must : List Nat) (s : Summary) : String :=
  if s.wedged then "wedged"
  else if !s.rebindOk then "port-not-free"
  else if s.clients.any (· == 'P') then "response-truncated"
  else if s.clients.any (· == 'T') then "response-missing"
  else if must.any (fun i => s.clients[i]? == some 'M') then "pipelined-request-not-answered"
  else if !must.all (fun i => s.clients[i]? == some 'C') then "dispatched-request-not-answered"
  else if s.exited != workers then "workers-left"
  else ""

end Humphrey.ShutdownSpec
