/-
Specification for C16, written without reference to the cache's data structure.

A history is a list of operations, each carrying the clock value at which it ran.  The abstract cache
is the map `Key → Option (bytes × mime × time)` holding, for every key, what the LAST `set` for that key
stored (`absRun`, a left fold; `lastSet`, the same read off the history from its end — the two are
proved equal in `Props/C16.lean`).  The property demands that a lookup answers nothing or exactly that
entry, and only while it is no older than the time limit.
-/
namespace Humphrey.CacheSpec

/-- A cache key: (route, host index). -/
abbrev Key := String × Nat

/-- What a `set` stores: bytes, MIME index, time of the store. -/
abbrev Val := List UInt8 × Nat × Nat

/-- One cache operation with the clock value (seconds) at which it executes. -/
inductive Op where
  | set (t : Nat) (route : String) (host : Nat) (bytes : List UInt8) (mime : Nat)
  | get (t : Nat) (route : String) (host : Nat)
deriving Repr, DecidableEq

/-- The clock value of an operation. -/
def Op.time : Op → Nat
  | .set t .. => t
  | .get t .. => t

/-- Number of bytes an operation stores (0 for lookups). -/
def Op.storeLen : Op → Nat
  | .set _ _ _ b _ => b.length
  | .get .. => 0

abbrev AbsMap := Key → Option Val

def absEmpty : AbsMap := fun _ => none

/-- A store overwrites the key's entry; a lookup changes nothing. -/
def absStep (m : AbsMap) : Op → AbsMap
  | .set t r h b mi => fun k => if k = (r, h) then some (b, mi, t) else m k
  | .get .. => m

/-- The abstract cache after a history. -/
def absRun (ops : List Op) : AbsMap := ops.foldl absStep absEmpty

/-- What an operation stores under key `k`, if anything. -/
def storesAt (k : Key) : Op → Option Val
  | .set t r h b mi => if (r, h) = k then some (b, mi, t) else none
  | .get .. => none

/-- The most recent store for `k` in the history (second, independent reading of `absRun`). -/
def lastSet (ops : List Op) (k : Key) : Option Val := ops.reverse.findSome? (storesAt k)

/-- The clock never goes backwards along the history. -/
def ClockMonotone (ops : List Op) : Prop := (ops.map Op.time).Pairwise (· ≤ ·)

/-- Every stored item fits the size limit. -/
def SizesWithin (limit : Nat) (ops : List Op) : Prop := ∀ op ∈ ops, op.storeLen ≤ limit

/-- `m₁` is a sub-map of `m₂`: wherever `m₁` answers, `m₂` answers the same. -/
def SubMap (m₁ m₂ : AbsMap) : Prop := ∀ k v, m₁ k = some v → m₂ k = some v

/-- What the property allows a lookup at time `now` to answer, given the abstract cache `m`:
nothing, or the latest entry for the key provided it is not older than `timeLimit`. -/
def Allowed (m : AbsMap) (timeLimit now : Nat) (k : Key) (answer : Option Val) : Prop :=
  answer = none ∨ (answer = m k ∧ ∃ b mi t, m k = some (b, mi, t) ∧ t ≤ now ∧ now - t ≤ timeLimit)

end Humphrey.CacheSpec
