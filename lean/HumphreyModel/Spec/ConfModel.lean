import HumphreyModel.Spec.Conf

/-
Specification side of C15, configuration level (`Config::from_tree`, `Config::load`).

* `Cfg`: the generating model of a configuration: what the documentation lets one configure,
  every omittable key an `Option`. `Cfg.toTree` is the syntax tree of a file that describes it
  (which keys are written, in which sections, in which order), `Cfg.normalise` the configuration it
  denotes, with the `from_tree` defaults for every omitted key. `Cfg.WF` says which models are
  expressible (values that the syntax can carry, numbers in the range of their key).
* `KeyBad` / `KeyFine` and the `…Fine` structures: the vocabulary of the "bad value ⇒ rejected"
  theorems — what it means for a validated key to be present with a value its parser rejects, and
  for the keys validated *before* a given key to be fine.

Shared with the model: the data types (`Str`, `Node`, `Map`, `Config`, …), the number printer
`showNat`, `Map.get`/`Node.scalar` (the vocabulary of "key present with scalar text s") and, for
the blacklist, `loadBlacklist` (see `Cfg.WF.blacklist`: the list file is a hypothesis on the file
system, its own text format is not generated here).

No extra `NoCR…` predicate is defined: `WFTree`/`WFLayout` already exclude a line feed anywhere
and a carriage return at the end of a rendered line (`Proofs/ConfClean.lean`).
-/
namespace Humphrey.Conf

/-! ## vocabulary of the rejection theorems -/

/-- The key is present and `parse` rejects what it holds (a non-scalar node counts as rejected,
as in `get_optional_parsed`). -/
def KeyBad {α : Type} (m : Map) (key : Str) (parse : Str → Option α) : Prop :=
  ∃ n, m.get key = some n ∧ n.scalar.bind parse = none

/-- The key is absent, or `parse` accepts what it holds. -/
def KeyFine {α : Type} (m : Map) (key : Str) (parse : Str → Option α) : Prop :=
  ∀ n, m.get key = some n → (n.scalar.bind parse).isSome = true

/-- The keys `from_tree` validates before it looks at the blacklist: port, threads, timeout are
absent or parse, and the number of threads is not zero. -/
structure NumbersFine (m : Map) : Prop where
  port : KeyFine m (k "server.port") (parseUnsigned 16)
  threads : KeyFine m (k "server.threads") (parseUnsigned 64)
  timeout : KeyFine m (k "server.timeout") (parseUnsigned 64)
  threadsPos : ∀ n, m.get (k "server.threads") = some n → n.scalar.bind (parseUnsigned 64) ≠ some 0

/-- The blacklist file (when one is named) loads, and the mode is one of the two words. -/
structure BlacklistFine (fs : FS) (m : Map) : Prop where
  loads : ∃ l, loadBlacklist fs (getOwned m (k "server.blacklist.file")) = .ok l
  mode : getOptional m (k "server.blacklist.mode") (k "block") = k "block" ∨
    getOptional m (k "server.blacklist.mode") (k "block") = k "forbidden"

/-- Every scalar key that `from_tree` validates is fine (what is checked before the routes). -/
structure ScalarsFine (fs : FS) (m : Map) : Prop where
  numbers : NumbersFine m
  blacklist : BlacklistFine fs m
  level : KeyFine m (k "server.log.level") parseLogLevel
  console : KeyFine m (k "server.log.console") parseBool
  size : KeyFine m (k "server.cache.size") (parseUnsigned 64)
  time : KeyFine m (k "server.cache.time") (parseUnsigned 64)

/-! ## the generating model -/

/-- What a route does with a request. -/
inductive Target where
  | file (path : Str)
  | directory (path : Str)
  | proxy (targets : List Str) (mode : Option LbMode)
  | redirect (to : Str)
  /-- no target key at all: the route only names a WebSocket proxy -/
  | websocketOnly
  deriving Repr, DecidableEq

structure RouteCfg where
  /-- the comma-separated patterns of the `route … {` line -/
  patterns : List Str
  target : Target
  websocket : Option Str := none
  deriving Repr, DecidableEq

structure HostCfg where
  name : Str
  routes : List RouteCfg
  deriving Repr, DecidableEq

/-- The `route` and `host` sections of the `server` section, in file order (they may be mixed). -/
inductive Item where
  | route (r : RouteCfg)
  | host (h : HostCfg)
  deriving Repr, DecidableEq

structure Cfg where
  address : Option Str := none
  port : Option Nat := none
  threads : Option Nat := none
  websocket : Option Str := none
  timeout : Option Nat := none
  /-- path of the blacklist file, and the addresses it holds (canonical text) -/
  blacklist : Option (Str × List Str) := none
  blacklistMode : Option BlacklistMode := none
  logLevel : Option LogLevel := none
  logConsole : Option Bool := none
  logFile : Option Str := none
  cacheSize : Option Nat := none
  cacheTime : Option Nat := none
  items : List Item := []
  deriving Repr, DecidableEq

/-! ### the words of the enumerations (explicit characters: these must reduce) -/

def LogLevel.text : LogLevel → Str
  | .error => ['e', 'r', 'r', 'o', 'r']
  | .warn => ['w', 'a', 'r', 'n']
  | .info => ['i', 'n', 'f', 'o']
  | .debug => ['d', 'e', 'b', 'u', 'g']

def BlacklistMode.text : BlacklistMode → Str
  | .block => ['b', 'l', 'o', 'c', 'k']
  | .forbidden => ['f', 'o', 'r', 'b', 'i', 'd', 'd', 'e', 'n']

def LbMode.text : LbMode → Str
  | .roundRobin => ['r', 'o', 'u', 'n', 'd', '-', 'r', 'o', 'b', 'i', 'n']
  | .random => ['r', 'a', 'n', 'd', 'o', 'm']

def boolText (b : Bool) : Str := if b then ['t', 'r', 'u', 'e'] else ['f', 'a', 'l', 's', 'e']

/-! ### the tree of a file that describes a model -/

def joinComma : List Str → Str
  | [] => []
  | [a] => a
  | a :: b :: r => a ++ ',' :: joinComma (b :: r)

def strKey (key : Str) : Option Str → List Node
  | none => []
  | some s => [.string key s]

def numKey (key : Str) : Option Nat → List Node
  | none => []
  | some n => [.number key (showNat n)]

def boolKey (key : Str) : Option Bool → List Node
  | none => []
  | some b => [.boolean key (boolText b)]

/-- A sub-section is written only when it has at least one key. -/
def optSection (name : Str) (cs : List Node) : List Node :=
  if cs.isEmpty then [] else [.section name cs]

def Target.nodes : Target → List Node
  | .file p => [.string ['f', 'i', 'l', 'e'] p]
  | .directory p => [.string ['d', 'i', 'r', 'e', 'c', 't', 'o', 'r', 'y'] p]
  | .proxy ts mode =>
    .string ['p', 'r', 'o', 'x', 'y'] (joinComma ts) ::
      strKey ['l', 'o', 'a', 'd', '_', 'b', 'a', 'l', 'a', 'n', 'c', 'e', 'r', '_', 'm', 'o', 'd', 'e']
        (mode.map LbMode.text)
  | .redirect p => [.string ['r', 'e', 'd', 'i', 'r', 'e', 'c', 't'] p]
  | .websocketOnly => []

def wsKey : Str := ['w', 'e', 'b', 's', 'o', 'c', 'k', 'e', 't']

def RouteCfg.toNode (r : RouteCfg) : Node :=
  .route (joinComma r.patterns) (r.target.nodes ++ strKey wsKey r.websocket)

def routeNodes : List RouteCfg → List Node
  | [] => []
  | r :: rs => r.toNode :: routeNodes rs

def HostCfg.toNode (h : HostCfg) : Node := .host h.name (routeNodes h.routes)

def Item.toNode : Item → Node
  | .route r => r.toNode
  | .host h => h.toNode

def itemNodes : List Item → List Node
  | [] => []
  | i :: is => i.toNode :: itemNodes is

/-- The scalar keys of the `server` section and its `blacklist`, `log`, `cache` sub-sections. -/
def Cfg.scalarNodes (c : Cfg) : List Node :=
  strKey ['a', 'd', 'd', 'r', 'e', 's', 's'] c.address ++
  numKey ['p', 'o', 'r', 't'] c.port ++
  numKey ['t', 'h', 'r', 'e', 'a', 'd', 's'] c.threads ++
  strKey wsKey c.websocket ++
  numKey ['t', 'i', 'm', 'e', 'o', 'u', 't'] c.timeout ++
  optSection ['b', 'l', 'a', 'c', 'k', 'l', 'i', 's', 't']
    (strKey ['f', 'i', 'l', 'e'] (c.blacklist.map (·.1)) ++
     strKey ['m', 'o', 'd', 'e'] (c.blacklistMode.map BlacklistMode.text)) ++
  optSection ['l', 'o', 'g']
    (strKey ['l', 'e', 'v', 'e', 'l'] (c.logLevel.map LogLevel.text) ++
     boolKey ['c', 'o', 'n', 's', 'o', 'l', 'e'] c.logConsole ++
     strKey ['f', 'i', 'l', 'e'] c.logFile) ++
  optSection ['c', 'a', 'c', 'h', 'e']
    (numKey ['s', 'i', 'z', 'e'] c.cacheSize ++ numKey ['t', 'i', 'm', 'e'] c.cacheTime)

def Cfg.children (c : Cfg) : List Node := c.scalarNodes ++ itemNodes c.items

/-- The syntax tree of a file describing `c`. -/
def Cfg.toTree (c : Cfg) : Node := .section "server".toList c.children

/-! ### the configuration a model denotes -/

def RouteCfg.config (r : RouteCfg) (pattern : Str) : RouteConfig :=
  match r.target with
  | .file p => ⟨.file, pattern, some p, none, r.websocket⟩
  | .directory p => ⟨.directory, pattern, some p, none, r.websocket⟩
  | .proxy ts mode => ⟨.proxy, pattern, none, some (ts, mode.getD .roundRobin), r.websocket⟩
  | .redirect p => ⟨.redirect, pattern, some p, none, r.websocket⟩
  | .websocketOnly => ⟨.exclusiveWebSocket, pattern, none, none, r.websocket⟩

/-- One `RouteConfig` per pattern, in order. -/
def RouteCfg.configs (r : RouteCfg) : List RouteConfig := r.patterns.map r.config

def routeConfigs : List RouteCfg → List RouteConfig
  | [] => []
  | r :: rs => r.configs ++ routeConfigs rs

def HostCfg.config (h : HostCfg) : HostConfig := ⟨h.name, routeConfigs h.routes⟩

/-- The routes of the default host: the `route` items, in file order. -/
def defaultRoutes : List Item → List RouteConfig
  | [] => []
  | .route r :: is => r.configs ++ defaultRoutes is
  | .host _ :: is => defaultRoutes is

/-- The hosts: the `host` items, in file order. -/
def hostConfigs : List Item → List HostConfig
  | [] => []
  | .route _ :: is => hostConfigs is
  | .host h :: is => h.config :: hostConfigs is

def Cfg.normalise (c : Cfg) : Config :=
  { address := c.address.getD "0.0.0.0".toList
    port := c.port.getD 80
    threads := c.threads.getD 32
    defaultWebsocketProxy := c.websocket
    hosts := hostConfigs c.items
    defaultHost := ⟨"*".toList, defaultRoutes c.items⟩
    logLevel := c.logLevel.getD .warn
    logConsole := c.logConsole.getD true
    logFile := c.logFile
    cacheSize := c.cacheSize.getD 0
    cacheTime := c.cacheTime.getD 0
    blacklist := match c.blacklist with
      | some (_, ips) => ips
      | none => []
    blacklistMode := c.blacklistMode.getD .block
    connectionTimeout := match c.timeout with
      | some t => if t > 0 then some t else none
      | none => none }

/-! ### which models are expressible -/

/-- A pattern of a route: first and last character not white space, no `,` `#` or line feed. -/
def okPattern (p : Str) : Prop := tight p ∧ ∀ c ∈ p, c ≠ ',' ∧ c ≠ '#' ∧ c ≠ '\n'

/-- A proxy target: no `,` (targets are comma-separated), no `#` or line feed. -/
def okTarget (t : Str) : Prop := ∀ c ∈ t, c ≠ ',' ∧ c ≠ '#' ∧ c ≠ '\n'

def Target.WF : Target → Prop
  | .file p => noHashNl p
  | .directory p => noHashNl p
  | .proxy ts _ => ts ≠ [] ∧ ∀ t ∈ ts, okTarget t
  | .redirect p => noHashNl p
  | .websocketOnly => True

structure RouteCfg.WF (r : RouteCfg) : Prop where
  nonempty : r.patterns ≠ []
  patterns : ∀ p ∈ r.patterns, okPattern p
  /-- `route { {` would be read as a section called `route` -/
  notBrace : r.patterns ≠ [['{']]
  target : r.target.WF
  websocket : ∀ w, r.websocket = some w → noHashNl w
  /-- a route without a target needs the `websocket` key -/
  wsOnly : r.target = .websocketOnly → r.websocket.isSome = true

structure HostCfg.WF (h : HostCfg) : Prop where
  name : noHashNl h.name
  routes : ∀ r ∈ h.routes, r.WF

def Item.WF : Item → Prop
  | .route r => r.WF
  | .host h => h.WF

structure Cfg.WF (fs : FS) (c : Cfg) : Prop where
  address : ∀ a, c.address = some a → noHashNl a
  port : ∀ p, c.port = some p → p < 2 ^ 16
  /-- at least one thread; a number node holds an `i64` -/
  threads : ∀ t, c.threads = some t → 1 ≤ t ∧ t < 2 ^ 63
  websocket : ∀ w, c.websocket = some w → noHashNl w
  timeout : ∀ t, c.timeout = some t → t < 2 ^ 63
  /-- the named list file holds exactly the addresses of the model (hypothesis on the file
  system: the text format of the list file is not generated by this specification) -/
  blacklist : ∀ p ips, c.blacklist = some (p, ips) → noHashNl p ∧ loadBlacklist fs (some p) = .ok ips
  logFile : ∀ f, c.logFile = some f → noHashNl f
  cacheSize : ∀ n, c.cacheSize = some n → n < 2 ^ 63
  cacheTime : ∀ n, c.cacheTime = some n → n < 2 ^ 63
  items : ∀ i ∈ c.items, i.WF

/-! ## the blacklist list file -/

/-- An IPv4 address. -/
structure Ip4 where
  a : Nat
  b : Nat
  c : Nat
  d : Nat
  deriving Repr, DecidableEq

def Ip4.ok (i : Ip4) : Prop := i.a ≤ 255 ∧ i.b ≤ 255 ∧ i.c ≤ 255 ∧ i.d ≤ 255

/-- Dotted-quad text (also the canonical text `Ipv4Addr` prints). -/
def Ip4.text (i : Ip4) : Str := showNat i.a ++ '.' :: showNat i.b ++ '.' :: showNat i.c ++ '.' :: showNat i.d

/-- A list file: one address per line. -/
def blacklistText (ips : List Ip4) : Str := joinLines (ips.map Ip4.text)

/-! ## files that use `include` (one level, in the body of the `server` section) -/

/-- A piece of the body of the `server` section: nodes written in place, or an `include` line
naming a file whose text holds nodes (written with a layout of its own). -/
inductive Piece where
  | nodes (ns : List Node)
  | incl (path : Str) (flay : Layout) (ns : List Node)

/-- The nodes a piece contributes to the section. -/
def Piece.denote : Piece → List Node
  | .nodes ns => ns
  | .incl _ _ ns => ns

def piecesDenote : List Piece → List Node
  | [] => []
  | p :: ps => p.denote ++ piecesDenote ps

def includeKey : Str := ['i', 'n', 'c', 'l', 'u', 'd', 'e']

/-- Piece number `i` uses the layout positions below `[i]`; an `include` line is decorated by
`lay.line [i]`. -/
def Piece.lines (lay : Layout) (i : Nat) : Piece → List Str
  | .nodes ns => renderNodes lay [i] 0 ns
  | .incl path _ _ => mkLines (lay.line [i]) (kvContent (lay.line [i]) includeKey (quoted path))

def renderPieces (lay : Layout) : Nat → List Piece → List Str
  | _, [] => []
  | i, p :: ps => p.lines lay i ++ renderPieces lay (i + 1) ps

def piecesLines (lay : Layout) (ps : List Piece) : List Str :=
  mkLines (lay.line []) "server {".toList ++ renderPieces lay 0 ps ++ mkLines (lay.close []) ['}']

/-- The text of a main file whose `server` section is made of the pieces. -/
def renderWithIncludes (lay : Layout) (ps : List Piece) : Str := joinLines (piecesLines lay ps)

/-- The text of an included file holding `ns` (no enclosing braces). -/
def includedText (flay : Layout) (ns : List Node) : Str := joinLines (renderNodes flay [] 0 ns)

/-- Well-formed pieces; for an `include`, the file system holds the included text at that path.
An included file is parsed one level deeper than the line that names it. -/
def Piece.WF (fs : FS) : Piece → Prop
  | .nodes ns => WFNodes ns ∧ nodesDepth ns ≤ maxDepth
  | .incl path flay ns =>
    noHashNl path ∧ WFLayout flay ∧ WFNodes ns ∧ 1 + nodesDepth ns ≤ maxDepth ∧
      fs path = .text (includedText flay ns)

end Humphrey.Conf
