/-
Specification of Base64, RFC 4648 §4, at the level of bits and written from the RFC,
independently of `Model/Base64.lean` (no shifts, masks, or byte-triple arithmetic):

  "A 24-bit input group is formed by concatenating 3 8-bit input groups. These 24 bits are then
   treated as 4 concatenated 6-bit groups, each of which is translated into a single character
   in the base 64 alphabet. [...] When fewer than 24 input bits are available in an input
   group, bits with value zero are added (on the right) to form an integral number of 6-bit
   groups. Padding at the end of the data is performed using the '=' character."

Bits are `Bool`, most significant first.
-/
namespace Humphrey.Base64.Spec

/-- RFC 4648 Table 1: values 0–25 `A`–`Z`, 26–51 `a`–`z`, 52–61 `0`–`9`, 62 `+`, 63 `/`. -/
def table : List UInt8 :=
  (List.range 26).map (fun i => UInt8.ofNat (0x41 + i)) ++
  (List.range 26).map (fun i => UInt8.ofNat (0x61 + i)) ++
  (List.range 10).map (fun i => UInt8.ofNat (0x30 + i)) ++ [0x2B, 0x2F]

/-- The pad character `=`. -/
def pad : UInt8 := 0x3D

/-- The eight bits of an octet, most significant first. -/
def bitsOfByte (b : UInt8) : List Bool :=
  [7, 6, 5, 4, 3, 2, 1, 0].map (fun i => b.toNat.testBit i)

/-- The six bits of an alphabet value, most significant first. -/
def bitsOfSextet (n : Nat) : List Bool :=
  [5, 4, 3, 2, 1, 0].map (fun i => n.testBit i)

/-- The number a bit string (most significant first) denotes. -/
def bitsToNat (bits : List Bool) : Nat :=
  bits.foldl (fun acc b => 2 * acc + b.toNat) 0

/-- Regroup a bit string by 6; a short final group gets zero bits added on the right. -/
def sixes : List Bool → List (List Bool)
  | [] => []
  | b0 :: b1 :: b2 :: b3 :: b4 :: b5 :: rest => [b0, b1, b2, b3, b4, b5] :: sixes rest
  | short => [short ++ List.replicate (6 - short.length) false]

/-- Regroup a bit string by 8; an incomplete final group carries no octet and is dropped. -/
def eights : List Bool → List (List Bool)
  | b0 :: b1 :: b2 :: b3 :: b4 :: b5 :: b6 :: b7 :: rest =>
    [b0, b1, b2, b3, b4, b5, b6, b7] :: eights rest
  | _ => []

/-- RFC 4648 §4 encoding. -/
def encode (bs : List UInt8) : List UInt8 :=
  let syms := (sixes (bs.flatMap bitsOfByte)).map (fun g => table.getD (bitsToNat g) 0)
  syms ++ List.replicate ((4 - syms.length % 4) % 4) pad

/-- Well-formed Base64 text: alphabet symbols followed by at most two `=`, total length a
multiple of 4. (Hence `=` occurs only as the last one or two symbols of the last group of four,
and at least two alphabet symbols precede it there.) -/
def Shape (s : List UInt8) : Prop :=
  ∃ body n, s = body ++ List.replicate n pad ∧ (∀ c ∈ body, c ∈ table) ∧ n ≤ 2 ∧ s.length % 4 = 0

/-- Executable form of `Shape` (used by the driver to judge the implementation). -/
def shapeB (s : List UInt8) : Bool :=
  let body := s.takeWhile (· != pad)
  let tail := s.drop body.length
  s.length % 4 == 0 && body.all (table.contains ·) && tail.length ≤ 2 && tail.all (· == pad)

/-- RFC 4648 §4 decoding of well-formed text: the symbols before the padding, each as the six
bits of its table value, concatenated and regrouped by 8. -/
def decode (s : List UInt8) : List UInt8 :=
  let body := s.takeWhile (· != pad)
  (eights (body.flatMap (fun c => bitsOfSextet (table.idxOf c)))).map
    (fun g => UInt8.ofNat (bitsToNat g))

end Humphrey.Base64.Spec
