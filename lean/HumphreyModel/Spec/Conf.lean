import HumphreyModel.Model.Conf

/-
Specification side of C15: the generating model of configuration files.

* tree level: `renderTree : Node → Layout → Str` writes a syntax tree as text. The layout
  chooses, for every line, the filler lines before it (blank / comment-only), the indentation,
  the blanks between the parts of the line, the trailing blanks, the comment and, for numbers,
  the unit spelling. `WFTree` says which trees are expressible in the documented syntax.
* configuration level: `Cfg` (what the documentation lets one configure), `toTree` (which
  keys are written, in which sections) and `normalise` (the configuration it denotes, with the
  `from_tree` defaults for everything that is omitted).

Only the data types (`Str`, `Node`, `Config`, …) and the number printer `showNat` are shared
with the model (plus `parseDigits`, used only to decide whether a unit spelling is exact).
-/
namespace Humphrey.Conf

/-! ## layout -/

/-- Decoration of one line. -/
structure Deco where
  /-- filler lines before the line: blanks and an optional comment each -/
  pre : List (Str × Option Str) := []
  indent : Str := []
  /-- extra blanks after the mandatory space between key and value / keyword and name -/
  sep : Str := []
  /-- blanks between a section name and its `{` -/
  gap : Str := []
  trail : Str := []
  comment : Option Str := none
  /-- spelling of a number: `some 'K'` writes `n / 1024` followed by `K` when that is exact -/
  unit : Option Char := none

/-- A layout decorates every line: the opening (or only) line of the node at a position, and
the closing line of the section at a position. Positions are paths from the root, innermost
index first. -/
structure Layout where
  line : List Nat → Deco
  close : List Nat → Deco

def isBlank (c : Char) : Bool := c == ' ' || c == '\t'

def commentOk (c : Str) : Prop := ∀ x ∈ c, x ≠ '\n' ∧ x ≠ '\r'

def Deco.ok (d : Deco) : Prop :=
  (∀ f ∈ d.pre, (∀ x ∈ f.1, isBlank x = true) ∧ ∀ c, f.2 = some c → commentOk c) ∧
  (∀ x ∈ d.indent, isBlank x = true) ∧ (∀ x ∈ d.sep, isBlank x = true) ∧
  (∀ x ∈ d.gap, isBlank x = true) ∧ (∀ x ∈ d.trail, isBlank x = true) ∧
  (∀ c, d.comment = some c → commentOk c)

def Layout.ok (l : Layout) : Prop := ∀ p, (l.line p).ok ∧ (l.close p).ok

def commentText : Option Str → Str
  | none => []
  | some c => '#' :: c

def fillerLine (f : Str × Option Str) : Str := f.1 ++ commentText f.2

/-- The filler lines of a decoration, then `content` dressed with it. -/
def mkLines (d : Deco) (content : Str) : List Str :=
  d.pre.map fillerLine ++ [d.indent ++ content ++ d.trail ++ commentText d.comment]

/-! ## tree level -/

def unitFactor (u : Char) : Option Nat :=
  if u = 'K' ∨ u = 'k' then some 1024
  else if u = 'M' ∨ u = 'm' then some (1024 * 1024)
  else if u = 'G' ∨ u = 'g' then some (1024 * 1024 * 1024)
  else none

/-- How a number is spelled: with a unit when the layout asks for one, the text is the
canonical decimal form of some `n` and `n` is a multiple of the unit. -/
def spellNumber (v : Str) (unit : Option Char) (n : Nat) : Str :=
  match unit with
  | none => v
  | some u =>
    match unitFactor u with
    | none => v
    | some m => if v = showNat n ∧ n % m = 0 then showNat (n / m) ++ [u] else v

def quoted (s : Str) : Str := '"' :: s ++ ['"']

def kvContent (d : Deco) (key value : Str) : Str := key ++ ' ' :: d.sep ++ value

def headerContent (d : Deco) : Kind → Str → Str
  | .section, name => name ++ d.gap ++ ['{']
  | .route, name => "route".toList ++ ' ' :: d.sep ++ name ++ d.gap ++ ['{']
  | .host, name => "host".toList ++ ' ' :: d.sep ++ quoted name ++ d.gap ++ ['{']

/-- Value of the decimal text `v` when it is one (used only to pick the unit spelling). -/
def natOfText (v : Str) : Nat := (parseDigits v).getD 0

mutual
def renderNode (lay : Layout) (path : List Nat) : Node → List Str
  | .number k v => mkLines (lay.line path) (kvContent (lay.line path) k (spellNumber v (lay.line path).unit (natOfText v)))
  | .boolean k v => mkLines (lay.line path) (kvContent (lay.line path) k v)
  | .string k v => mkLines (lay.line path) (kvContent (lay.line path) k (quoted v))
  | .section name cs =>
    mkLines (lay.line path) (headerContent (lay.line path) .section name) ++
      renderNodes lay path 0 cs ++ mkLines (lay.close path) ['}']
  | .host name cs =>
    mkLines (lay.line path) (headerContent (lay.line path) .host name) ++
      renderNodes lay path 0 cs ++ mkLines (lay.close path) ['}']
  | .route name cs =>
    mkLines (lay.line path) (headerContent (lay.line path) .route name) ++
      renderNodes lay path 0 cs ++ mkLines (lay.close path) ['}']
def renderNodes (lay : Layout) (path : List Nat) : Nat → List Node → List Str
  | _, [] => []
  | i, n :: ns => renderNode lay (i :: path) n ++ renderNodes lay path (i + 1) ns
end

def joinLines : List Str → Str
  | [] => []
  | [l] => l
  | l :: r :: rest => l ++ '\n' :: joinLines (r :: rest)

/-- The lines of a whole file: `server {`, the children, `}`. The root's own decoration may not
put blanks between `server` and `{` (the parser looks for exactly `server {`). -/
def renderLines (lay : Layout) (children : List Node) : List Str :=
  mkLines (lay.line []) "server {".toList ++ renderNodes lay [] 0 children ++ mkLines (lay.close []) ['}']

/-- A tree (whose root is the `server` section) as configuration text. -/
def renderTree (tree : Node) (lay : Layout) : Str :=
  match tree with
  | .section _ cs => joinLines (renderLines lay cs)
  | _ => []

/-! ### which trees the syntax can express -/

def noHashNl (s : Str) : Prop := ∀ c ∈ s, c ≠ '#' ∧ c ≠ '\n'

/-- First and last character are not white space (and there is one). -/
def tight (s : Str) : Prop :=
  (∃ c, s.head? = some c ∧ isWhitespace c = false) ∧ (∃ c, s.getLast? = some c ∧ isWhitespace c = false)

def okKey (k : Str) : Prop :=
  k ≠ [] ∧ (∀ c ∈ k, isWhitespace c = false ∧ c ≠ '#') ∧ k ≠ "include".toList

def okSectionName (n : Str) : Prop :=
  noHashNl n ∧ tight n ∧ routePrefix.isPrefixOf n = false ∧ hostPrefix.isPrefixOf n = false

def okRouteName (n : Str) : Prop := noHashNl n ∧ tight n ∧ n ≠ ['{']

mutual
def WFNode : Node → Prop
  | .number k v => okKey k ∧ (parseI64 v).isSome = true
  | .boolean k v => okKey k ∧ (v = "true".toList ∨ v = "false".toList)
  | .string k v => okKey k ∧ noHashNl v
  | .section name cs => okSectionName name ∧ WFNodes cs
  | .host name cs => noHashNl name ∧ WFNodes cs
  | .route name cs => okRouteName name ∧ WFNodes cs
def WFNodes : List Node → Prop
  | [] => True
  | n :: ns => WFNode n ∧ WFNodes ns
end

mutual
def nodeDepth : Node → Nat
  | .section _ cs => nodesDepth cs + 1
  | .host _ cs => nodesDepth cs + 1
  | .route _ cs => nodesDepth cs + 1
  | _ => 0
def nodesDepth : List Node → Nat
  | [] => 0
  | n :: ns => max (nodeDepth n) (nodesDepth ns)
end

/-- Trees of the documented syntax: root `server`, well-formed children, nesting within the
parser's limit. -/
def WFTree : Node → Prop
  | .section name cs => name = "server".toList ∧ WFNodes cs ∧ nodesDepth cs ≤ maxDepth
  | _ => False

/-- Layouts usable for a whole file: decorations well-formed. -/
def WFLayout (lay : Layout) : Prop := lay.ok

end Humphrey.Conf
