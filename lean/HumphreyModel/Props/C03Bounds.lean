import HumphreyModel.Proofs.TruncBounds
import HumphreyModel.Props.C02Faithful
import HumphreyModel.Props.C07Roundtrip

/-!
# C03 (memory) — what a parser keeps is bounded by the bytes it was supplied

`Props/C03.lean` proves this for the request body (`request_body_le_supplied`). Here: the response
body in all three framings (Content-Length, chunked — the sum of the chunk payloads —,
close-delimited), the WebSocket frame payload, and the header names and values of requests and
responses. A claimed length (Content-Length, a chunk-size line, the frame length field) never makes
a parser return — hence keep — more than it read. Helper lemmas: `Proofs/TruncBounds.lean`.

`headersSize hs` is the total length of the stored (lower-cased) names and the (left-trimmed) values.
-/
namespace Humphrey.Http
open Humphrey Humphrey.IO Humphrey.Bytes

/-! ## Response body -/

/-- **The response body buffer is bounded by the bytes supplied**, whatever Content-Length or the
chunk-size lines claim and whichever framing applies: the parsed body plus what is left unread fits
in the input. -/
theorem response_body_le_supplied (s : Bytes) (r : Response) (rest : Bytes)
    (h : parseResponse flatSource s = .ok (r, rest)) :
    r.body.length + rest.length ≤ s.length := by
  obtain ⟨hs, _, hb⟩ := bnd_parseResponse s r rest h
  omega

/-- The same per framing, on the body reader alone. Chunked: the decoded body (the concatenation of
the chunk payloads) plus the remainder is smaller than the chunked section by at least the three
bytes of the last-chunk line and its CRLF. -/
theorem chunked_body_le_supplied (fuel : Nat) (s body rest : Bytes)
    (h : parseChunks flatSource fuel s [] = .ok (body, rest)) :
    body.length + rest.length + 3 ≤ s.length := by
  simpa using bnd_parseChunks fuel s [] body rest h

/-- Close-delimited: `read_to_end` returns no more than the stream held. -/
theorem close_delimited_body_le_supplied (fuel : Nat) (s : Bytes) :
    (readRest flatSource fuel s []).1.length + (readRest flatSource fuel s []).2.length ≤ s.length := by
  simpa using bnd_readRest fuel s []

/-- For every way the bytes are cut into reads. -/
theorem response_body_le_supplied_any_reads (reads : List Bytes) (r : Response) (t : Reader)
    (h : parseResponse readerSource (⟨[], reads⟩ : Reader) = .ok (r, t)) :
    r.body.length + t.rest.length ≤ reads.flatten.length := by
  have hs := parseResponse_sim reader_flat_sim (⟨[], reads⟩ : Reader) reads.flatten (by simp [Reader.rest])
  rcases hs.elim with ⟨a, t₁, t₂, e₁, e₂, ht⟩ | ⟨e, e₁, _⟩ | ⟨e₁, _⟩
  · rw [h] at e₁
    simp only [Outcome.ok.injEq, Prod.mk.injEq] at e₁
    obtain ⟨rfl, rfl⟩ := e₁
    have := response_body_le_supplied _ _ _ e₂
    rw [ht]; exact this
  · rw [h] at e₁; cases e₁
  · rw [h] at e₁; cases e₁

/-! ## Headers -/

/-- **The header loop keeps no more than it read** (request side): names and values of the fields
it returns, plus what it leaves unread, fit in what it was given — with room to spare for the `:`
and CRLF of each field and the blank line. -/
theorem header_loop_le_supplied (fuel : Nat) (s : Bytes) (hs : Headers) (rest : Bytes)
    (h : parseHeaders flatSource fuel s [] = .ok (hs, rest)) :
    headersSize hs + 3 * hs.length + 2 + rest.length ≤ s.length := by
  simpa [headersSize_nil] using bnd_parseHeaders fuel s [] hs rest h

/-- The response header loop, likewise. -/
theorem resp_header_loop_le_supplied (fuel : Nat) (s : Bytes) (hs : Headers) (rest : Bytes)
    (h : parseRespHeaders flatSource fuel s [] = .ok (hs, rest)) :
    headersSize hs + 3 * hs.length + 2 + rest.length ≤ s.length := by
  simpa [headersSize_nil] using bnd_parseRespHeaders fuel s [] hs rest h

/-- **Request: header names and values, body and unread remainder together fit in the bytes
supplied** (so the total size of the parsed headers is at most the number of bytes consumed,
`s.length - rest.length`, and the number of fields at most a third of it). -/
theorem headers_le_supplied (env : Env) (s : Bytes) (req : Request) (rest : Bytes)
    (h : parseRequest flatSource env s = .ok (req, rest)) :
    headersSize req.headers + (req.content.getD []).length + rest.length ≤ s.length ∧
    3 * req.headers.length + rest.length ≤ s.length := by
  have := bnd_parseRequest env s req rest h
  constructor <;> omega

/-- **Response: the same for the header list the header loop built.** The response returned carries
that list `hs` itself (Content-Length and close-delimited framings), or — chunked framing — `hs`
without `Transfer-Encoding` followed by one synthesised `Content-Length: <decoded length>` field. -/
theorem response_headers_le_supplied (s : Bytes) (r : Response) (rest : Bytes)
    (h : parseResponse flatSource s = .ok (r, rest)) :
    ∃ hs : Headers,
      (r.headers = hs ∨
        r.headers = hs.remove hTransferEncoding ++ [⟨hContentLength, natToBytes r.body.length⟩]) ∧
      headersSize hs + r.body.length + rest.length ≤ s.length ∧
      3 * hs.length + rest.length ≤ s.length := by
  obtain ⟨hs, h1, h2⟩ := bnd_parseResponse s r rest h
  exact ⟨hs, h1, by omega, by omega⟩

/-- Without the case distinction: the headers of the parsed response exceed the bytes consumed by at
most the one synthesised field (its 14-byte name and the decimal digits of the body length). -/
theorem response_headers_le_supplied_plus (s : Bytes) (r : Response) (rest : Bytes)
    (h : parseResponse flatSource s = .ok (r, rest)) :
    headersSize r.headers + r.body.length + rest.length ≤
      s.length + 14 + (natToBytes r.body.length).length := by
  obtain ⟨hs, h1, h2, _⟩ := response_headers_le_supplied s r rest h
  rcases h1 with e | e
  · rw [e]; omega
  · rw [e, headersSize_append, headersSize_single]
    have := headersSize_remove_le hs hTransferEncoding
    have e14 : hContentLength.lower.length = 14 := by decide
    simp only [e14]
    omega

end Humphrey.Http

namespace Humphrey.WsFrame

/-! ## WebSocket frames -/

/-- **The frame payload buffer is bounded by the bytes supplied**, whatever the length field claims
and however the bytes arrive (no assumption on the reads): payload plus unread remainder, plus the
two header bytes, fit in the script; and the payload is exactly as long as the length field says. -/
theorem frame_payload_le_supplied (chunks : List Bytes) (f : Frame) (rest : List Bytes)
    (h : decodeFrame chunks = .ok (f, rest)) :
    f.payload.length + rest.flatten.length ≤ chunks.flatten.length := by
  have := bnd_decodeWith readExact (fun s => s.flatten.length)
    (by
      intro n s bs s' hr
      obtain ⟨e1, e2⟩ := bnd_readExact n s bs s' hr
      refine ⟨e1, ?_⟩
      have := congrArg List.length e2
      simp only [List.length_append] at this
      omega)
    chunks f rest h
  omega

/-- Sharper: the length field is honoured only when that many bytes were really there. -/
theorem frame_length_le_supplied (chunks : List Bytes) (f : Frame) (rest : List Bytes)
    (h : decodeFrame chunks = .ok (f, rest)) :
    f.payload.length = f.length ∧ 2 + f.length + rest.flatten.length ≤ chunks.flatten.length := by
  have := bnd_decodeWith readExact (fun s => s.flatten.length)
    (by
      intro n s bs s' hr
      obtain ⟨e1, e2⟩ := bnd_readExact n s bs s' hr
      refine ⟨e1, ?_⟩
      have := congrArg List.length e2
      simp only [List.length_append] at this
      omega)
    chunks f rest h
  exact ⟨this.1, by omega⟩

/-- A successful decode committed to a length (the model's `alloc` record; in the repaired Rust the
buffer grows with `take(length).read_to_end`) no larger than what the stream held. -/
theorem frame_alloc_le_supplied (chunks : List Bytes) (f : Frame) (rest : List Bytes)
    (h : decodeFrame chunks = .ok (f, rest)) : f.length + 2 ≤ chunks.flatten.length := by
  have := (frame_length_le_supplied chunks f rest h).2
  omega

end Humphrey.WsFrame

/-! ## Non-vacuity: each hypothesis is satisfiable -/

namespace Humphrey.Http
open Humphrey Humphrey.IO Humphrey.Bytes

/-- Content-Length framing (the sample response of `Props/C07Roundtrip.lean`). -/
example : ∃ r rest, parseResponse flatSource (serializeResponse sampleResponse ++ []) = .ok (r, rest) := by
  obtain ⟨r', h1, _⟩ :=
    parse_serialize sampleResponse sampleResponse_wf sampleResponse_parseBack [] (.inl (by decide))
  exact ⟨r', _, h1⟩

/-- Chunked framing. -/
example : ∃ r rest, parseResponse flatSource
    (Spec.renderChunked [72, 84, 84, 80, 47, 49, 46, 49] (natToBytes 200) [79, 75] ([teHeader].map headerLine)
      [([48, 49], [97])] [48]) = .ok (r, rest) := by
  have := chunked_decode [72, 84, 84, 80, 47, 49, 46, 49] [79, 75] 200 [] [] [([48, 49], [97])] [48]
    (by decide) (by decide) (by decide) (by decide) (by simp)
    (by
      intro p hp
      simp only [List.mem_cons, List.not_mem_nil, or_false] at hp
      subst hp
      exact ⟨⟨by decide, by decide⟩, by decide, by decide⟩)
    ⟨by decide, by decide⟩
  exact ⟨_, _, this⟩

/-- A request with three header fields and a body. -/
example : ∃ req rest, parseRequest flatSource ⟨[49], 80, fun _ => none⟩ (exampleReq.render ++ []) =
    .ok (req, rest) :=
  ⟨_, _, parse_render exampleReq ⟨[49], 80, fun _ => none⟩ (WfReq.wf_of_wfb (by decide)) []⟩

end Humphrey.Http

namespace Humphrey.WsFrame

/-- A masked five-byte text frame delivered in four reads, followed by one more byte. -/
example : ∃ f rest,
    decodeFrame [[0x81], [0x85, 0x37, 0xfa], [0x21, 0x3d, 0x7f, 0x9f, 0x4d, 0x51], [0x58, 0x00]] =
      .ok (f, rest) := ⟨_, _, rfl⟩

/-- A length field claiming more than the stream holds is an error, not a large buffer. -/
example : decodeFrame [[0x82, 0x7f, 0xff, 0xff, 0xff, 0xff, 0xff, 0xff, 0xff, 0xff, 0x41]] =
    .error .readError := by rfl

end Humphrey.WsFrame
