import HumphreyModel.Proofs.WsFrameMain

/-!
# C10 — WebSocket frames encode to the RFC 6455 layout and decode back under any split

Property theorems only. Model: `Model/WsFrame.lean` (`encodeFrame` = `From<Frame> for Vec<u8>`,
`decodeFrame` = `Frame::from_stream` over a script of reads, `messageToFrame` = `Message::to_frame`).
Spec: `Spec/WsFrame.lean` (`rfc6455Layout`, written from RFC 6455 sections 5.2 and 5.3).

A *split into reads* of a byte string `bs` is a list of chunks `s` with `s.flatten = bs`, every chunk
non-empty (`NonEmptyReads s`: a `read` that returns 0 bytes means end of stream to `read_exact`).
`Frame.wf f`: `f.length = f.payload.length` and `f.length < 2^64`.
`Frame.normKey f`: `f` itself when `f.mask`; with the all-zero key otherwise (no key is on the wire).
No theorem below bounds the payload length otherwise; the length classes 0–125 / 126–65535 / 65536– are
case splits inside the proofs (`encodeHeader_eq`, `readLength_ext`).
-/
namespace Humphrey.WsFrame
open Spec

/-- **C10, layout.** The encoder produces exactly the RFC 6455 section 5.2 octets: FIN/RSV/opcode
octet, MASK bit and the minimal 7 / 7+16 / 7+64-bit length form, masking key when masked, payload
XOR key (section 5.3) when masked. -/
theorem encode_eq_layout (f : Frame) (_hlen : f.length = f.payload.length)
    (_h64 : f.length < 2 ^ 64) : encodeFrame f = rfc6455Layout f :=
  encodeFrame_eq_layout f

/-- The same without the hypotheses: the equation also holds for frames whose length field is not
the payload length (where the RFC gives the octets no meaning). -/
theorem encode_eq_layout_any (f : Frame) : encodeFrame f = rfc6455Layout f :=
  encodeFrame_eq_layout f

/-- **C10, round trip.** For every well-formed frame, every split of its encoding into non-empty
reads, and any bytes `tail` following it on the stream: decoding returns the frame, with the
original (unmasked) payload, and leaves exactly `tail` unread. -/
theorem decode_encode_tail (f : Frame) (hwf : f.wf) (tail : Bytes) (s : List Bytes)
    (hne : NonEmptyReads s) (hs : s.flatten = encodeFrame f ++ tail) :
    ∃ rest, decodeFrame s = .ok (f.normKey, rest) ∧ NonEmptyReads rest ∧ rest.flatten = tail := by
  apply decodeFrame_ok_of_flat hne
  have h := decodeFlat_take_encode f hwf tail (encodeFrame f ++ tail).length
  rw [List.take_length] at h
  rw [hs, h, if_pos (by simp)]
  simp

/-- **C10, round trip** (the statement's form): decoding the encoded frame under any split into
non-empty reads returns the frame and consumes everything. -/
theorem decode_encode (f : Frame) (hwf : f.wf) (s : List Bytes) (hne : NonEmptyReads s)
    (hs : s.flatten = encodeFrame f) : decodeFrame s = .ok (f.normKey, []) := by
  obtain ⟨rest, h, hne', hfl⟩ := decode_encode_tail f hwf [] s hne (by simpa using hs)
  rw [h, nonEmptyReads_flatten_nil hne' hfl]

/-- A masked frame comes back identical (key included), payload unmasked. -/
theorem decode_encode_masked (f : Frame) (hwf : f.wf) (hm : f.mask = true) (s : List Bytes)
    (hne : NonEmptyReads s) (hs : s.flatten = encodeFrame f) : decodeFrame s = .ok (f, []) := by
  have h := decode_encode f hwf s hne hs
  have : f.normKey = f := by
    obtain ⟨_, _, _, _, _, m, _, _, _⟩ := f
    simp only at hm; subst hm; rfl
  rwa [this] at h

/-- The allocation made before the payload is read is the frame's own length. -/
theorem decode_encode_alloc (f : Frame) (hwf : f.wf) (s : List Bytes) (hne : NonEmptyReads s)
    (hs : s.flatten = encodeFrame f) : (decodeFrameFull s).alloc = some f.length := by
  rw [(observe_decodeFrame s hne).2, hs]
  have h := decodeFlat_take_encode f hwf [] (encodeFrame f).length
  rw [List.append_nil, List.take_length] at h
  rw [h, if_pos (Nat.le_refl _)]

/-- **C10, segmentation independence.** What a decode returns (frame or error, bytes left unread,
size allocated) depends only on the bytes of the stream, not on how they are cut into reads. -/
theorem decode_chunking_independent (s₁ s₂ : List Bytes) (h₁ : NonEmptyReads s₁)
    (h₂ : NonEmptyReads s₂) (h : s₁.flatten = s₂.flatten) :
    observe (decodeFrame s₁) = observe (decodeFrame s₂) ∧
    (decodeFrameFull s₁).alloc = (decodeFrameFull s₂).alloc := by
  obtain ⟨a1, b1⟩ := observe_decodeFrame s₁ h₁
  obtain ⟨a2, b2⟩ := observe_decodeFrame s₂ h₂
  rw [a1, a2, b1, b2, h]
  exact ⟨rfl, rfl⟩

/-- **C10, truncation.** Every proper prefix of an encoded frame, under any split into non-empty
reads, is answered with `ReadError` (the opcode of a `Frame` is always a valid one). -/
theorem decode_truncated (f : Frame) (hwf : f.wf) (n : Nat) (hn : n < (encodeFrame f).length)
    (s : List Bytes) (hne : NonEmptyReads s) (hs : s.flatten = (encodeFrame f).take n) :
    decodeFrame s = .error .readError := by
  apply decodeFrame_error_of_flat hne
  have h := decodeFlat_take_encode f hwf [] n
  rw [List.append_nil] at h
  rw [hs, h, if_neg (by omega)]

/-- The same with the prefix delivered by a single read (`n = 0`: a read that returns nothing). -/
theorem decode_truncated_single (f : Frame) (hwf : f.wf) (n : Nat)
    (hn : n < (encodeFrame f).length) :
    decodeFrame [(encodeFrame f).take n] = .error .readError := by
  cases n with
  | zero => simp [decodeFrame, decodeFrameFull, decodeWith, readExact]
  | succ n =>
    apply decode_truncated f hwf (n + 1) hn
    · intro c hc
      rw [List.mem_singleton] at hc
      subst hc
      intro h0
      have h1 : ((encodeFrame f).take (n + 1)).length = 0 := by rw [h0]; rfl
      rw [List.length_take] at h1
      omega
    · simp

/-- **C10, reserved opcodes.** A header whose opcode nibble is one of 3–7, 0xB–0xF is rejected with
`InvalidOpcode`, whatever the second byte and whatever follows, under any split. -/
theorem reserved_opcode_rejected (b0 b1 : UInt8) (rest : Bytes)
    (hres : reservedOpcode (b0 &&& 0xF).toNat = true) (s : List Bytes) (hne : NonEmptyReads s)
    (hs : s.flatten = b0 :: b1 :: rest) : decodeFrame s = .error .invalidOpcode := by
  apply decodeFrame_error_of_flat hne
  rw [hs, decodeFlat_reserved b0 b1 rest hres]

/-- `reservedOpcode` spelled out: the nibbles 3,4,5,6,7,11,12,13,14,15. -/
theorem reservedOpcode_iff (n : Nat) :
    reservedOpcode n = true ↔ n ∈ [3, 4, 5, 6, 7, 0xB, 0xC, 0xD, 0xE, 0xF] := by
  simp only [reservedOpcode, Bool.or_eq_true, Bool.and_eq_true, decide_eq_true_eq, List.mem_cons,
    List.not_mem_nil, or_false]
  omega

/-- `Opcode::try_from` accepts exactly the six opcodes the RFC defines, with the RFC's numbers. -/
theorem opcode_table :
    (∀ n, n < 16 → (Opcode.ofNat? n).isNone = reservedOpcode n) ∧
    (∀ o : Opcode, Opcode.ofNat? (opcodeCode o) = some o ∧ o.toNat = opcodeCode o) := by
  refine ⟨by decide, fun o => ?_⟩
  cases o <;> exact ⟨rfl, rfl⟩

/-- **C10, `Message::to_frame`.** A single unfragmented frame: FIN = 1, RSV1–3 = 0, opcode text (1)
or binary (2), MASK = 0, no key, the minimal length form, the payload as it is. -/
theorem to_frame_unmasked_single (text : Bool) (payload : Bytes) :
    messageToFrame text payload
      = [if text then 0x81 else 0x82, UInt8.ofNat (lengthField payload.length).1]
          ++ (lengthField payload.length).2 ++ payload ∧
    messageToFrame text payload
      = rfc6455Layout { fin := true, rsv1 := false, rsv2 := false, rsv3 := false,
                        opcode := if text then .text else .binary, mask := false,
                        length := payload.length, key := Key.zero, payload := payload } := by
  cases text <;>
    simp [messageToFrame, Frame.new, encodeFrame_eq_layout, rfc6455Layout, octet0, octet1, bit,
      opcodeCode]

/-- …and it decodes back, under any split, to that frame. -/
theorem to_frame_decodes (text : Bool) (payload : Bytes) (h64 : payload.length < 2 ^ 64)
    (s : List Bytes) (hne : NonEmptyReads s) (hs : s.flatten = messageToFrame text payload) :
    decodeFrame s = .ok (Frame.new (if text then .text else .binary) payload, []) := by
  have hwf : (Frame.new (if text then .text else .binary) payload).wf := ⟨rfl, h64⟩
  have h := decode_encode _ hwf s hne (by rw [hs]; cases text <;> rfl)
  simpa [Frame.normKey, Frame.new, Key.zero] using h

/-! ### Non-vacuity: the RFC's own examples (section 5.7) and the hypotheses are satisfiable -/

/-- "A single-frame unmasked text message": 0x81 0x05 0x48 0x65 0x6c 0x6c 0x6f (contains "Hello"). -/
example : messageToFrame true [0x48, 0x65, 0x6c, 0x6c, 0x6f]
    = [0x81, 0x05, 0x48, 0x65, 0x6c, 0x6c, 0x6f] := by decide

def helloMasked : Frame :=
  { fin := true, rsv1 := false, rsv2 := false, rsv3 := false, opcode := .text, mask := true,
    length := 5, key := ⟨0x37, 0xfa, 0x21, 0x3d⟩, payload := [0x48, 0x65, 0x6c, 0x6c, 0x6f] }

/-- "A single-frame masked text message": 0x81 0x85 0x37 0xfa 0x21 0x3d 0x7f 0x9f 0x4d 0x51 0x58. -/
example : rfc6455Layout helloMasked
    = [0x81, 0x85, 0x37, 0xfa, 0x21, 0x3d, 0x7f, 0x9f, 0x4d, 0x51, 0x58] := by decide
example : encodeFrame helloMasked
    = [0x81, 0x85, 0x37, 0xfa, 0x21, 0x3d, 0x7f, 0x9f, 0x4d, 0x51, 0x58] := by decide
example : helloMasked.wf := ⟨rfl, by decide⟩
example : NonEmptyReads [[0x81], [0x85, 0x37, 0xfa], [0x21, 0x3d, 0x7f, 0x9f, 0x4d, 0x51], [0x58]] := by
  intro c hc; simp at hc; rcases hc with rfl | rfl | rfl | rfl <;> simp
/-- the decoder on that split, by evaluation -/
example : decodeFrame [[0x81], [0x85, 0x37, 0xfa], [0x21, 0x3d, 0x7f, 0x9f, 0x4d, 0x51], [0x58]]
    = .ok (helloMasked, []) := by rfl
/-- a read that returns nothing in the middle of a frame is the end of the stream -/
example : decodeFrame [[0x81, 0x01], [], [0x41]] = .error .readError := by rfl
/-- a reserved opcode (0x3) -/
example : decodeFrame [[0x83, 0x00]] = .error .invalidOpcode := by rfl
example : reservedOpcode ((0x83 : UInt8) &&& 0xF).toNat = true := by decide
/-- length classes: 125 is the last 7-bit length, 126 the first 16-bit, 65536 the first 64-bit -/
example : lengthField 125 = (125, []) ∧ lengthField 126 = (126, [0x00, 0x7e]) ∧
    lengthField 65535 = (126, [0xff, 0xff]) ∧
    lengthField 65536 = (127, [0, 0, 0, 0, 0, 1, 0, 0]) := by decide

end Humphrey.WsFrame
