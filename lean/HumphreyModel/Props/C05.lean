import HumphreyModel.Proofs.GlobMain

/-!
# C05 — `*` matches any character sequence, everything else matches only itself

Property theorems only. Model: `Model/Glob.lean` (the loop of `krauss.rs`).
Spec: `Spec/Glob.lean` (`Glob`, `subst`).
-/
namespace Humphrey.Glob

/-- The derivation-rule spec and the statement's wording ("the string can be obtained from the
pattern by replacing each `*` with some string") are the same relation. -/
theorem glob_iff_subst (p t : List Char) : Glob p t ↔ ∃ fills, subst p fills = some t := by
  constructor
  · intro h
    induction h with
    | nil => exact ⟨[], rfl⟩
    | lit hc _ ih =>
      obtain ⟨fs, hfs⟩ := ih
      exact ⟨fs, by simp [subst, hc, hfs]⟩
    | starSkip _ ih =>
      obtain ⟨fs, hfs⟩ := ih
      exact ⟨[] :: fs, by simp [subst, hfs]⟩
    | @starEat p c t _ ih =>
      obtain ⟨fs, hfs⟩ := ih
      cases fs with
      | nil => simp [subst] at hfs
      | cons f fs =>
        simp only [subst, if_true, Option.map_eq_some_iff] at hfs
        obtain ⟨t', ht', rfl⟩ := hfs
        exact ⟨(c :: f) :: fs, by simp [subst, ht']⟩
  · rintro ⟨fs, hfs⟩
    induction p generalizing fs t with
    | nil =>
      cases fs with
      | nil => simp [subst] at hfs; subst hfs; exact .nil
      | cons f fs => simp [subst] at hfs
    | cons c p ih =>
      by_cases hc : c = '*'
      · subst hc
        cases fs with
        | nil => simp [subst] at hfs
        | cons f fs =>
          simp only [subst, if_true, Option.map_eq_some_iff] at hfs
          obtain ⟨t', ht', rfl⟩ := hfs
          have hg := ih t' fs ht'
          exact glob_star_drop f.length (by simpa using hg)
      · simp only [subst, hc, if_false, Option.map_eq_some_iff] at hfs
        obtain ⟨t', ht', rfl⟩ := hfs
        exact .lit hc (ih t' fs ht')

/-- **C05.** `wildcard_match` answers `true` exactly on the pairs the glob language relates:
for every pattern and text over all of Unicode, any number and placement of `*`. -/
theorem wildcard_match_iff_glob (p t : List Char) : wildcardMatch p t = true ↔ Glob p t :=
  matchNoStar_spec p t

/-- **C05**, in the statement's own words. -/
theorem wildcard_match_iff_subst (p t : List Char) :
    wildcardMatch p t = true ↔ ∃ fills, subst p fills = some t := by
  rw [wildcard_match_iff_glob, glob_iff_subst]

/-- A `*` in the *text* is an ordinary character (it is only special in the pattern). -/
theorem star_in_text_is_literal (t : List Char) : wildcardMatch ['*'] ('*' :: t) = true := by
  rw [wildcard_match_iff_glob]; exact glob_star_drop ('*' :: t).length (by simp [Glob.nil])

-- Non-vacuity: both sides of the equivalence are inhabited, on the shapes that defeated the
-- unrepaired matcher (self-overlapping literal after `*`).
example : wildcardMatch "*aab".toList "aaab".toList = true :=
  (wildcard_match_iff_subst _ _).mpr ⟨["a".toList], by decide⟩
example : Glob "*aab".toList "aaab".toList :=
  (glob_iff_subst _ _).mpr ⟨["a".toList], by decide⟩
example : wildcardMatch "*.example.com".toList "a.example.example.com".toList = true :=
  (wildcard_match_iff_subst _ _).mpr ⟨["a.example".toList], by decide⟩
example : wildcardMatch "a*b".toList "ab😀a".toList = false := by
  simp [wildcardMatch, matchNoStar, matchStar, allStars]
example : subst "a*b*".toList ["xx".toList, []] = some "axxb".toList := by decide

end Humphrey.Glob
