import HumphreyModel.Proofs.RouteWs

/-!
# C04 (WebSocket half) — upgrade requests are routed by the same rule over the WebSocket routes

Model: `wsHandler` in `Model/Route.lean` (`call_websocket_handler` in `humphrey/src/app.rs`) and the
upgrade branch of `serveLoop` in `Model/Conn.lean` (`client_handler`). As in `Props/C04.lean` the
statements are over the glob *relation* `Glob` (C05's spec), carried across by
`wildcard_match_iff_glob`.

The selection rule of `wsHandler` is the one of `getHandler` (checked against the Rust code: both
functions have the same three-way fallback): first sub-application, in registration order, whose host
pattern matches the Host header; within it the first WebSocket route, in registration order, whose
pattern matches the path; the default sub-application when there is no Host header, no sub-application
matches, or the selected sub-application has no matching WebSocket route.

What differs from the HTTP side is the "matches nothing" case: an upgrade request that no WebSocket
route takes is NOT answered 404 (nor 400): nothing at all is written and the connection is dropped
(`Disposition.websocket false`), exactly as `call_websocket_handler` falls off its end and
`client_handler` then `break`s (`upgrade_dispatch`, `upgrade_unrouted_writes_nothing`).
-/
namespace Humphrey.Http
open Humphrey Humphrey.Glob

/-- **C04 (WebSocket routes), exact characterisation.** `wsHandler` returns `w` exactly when `w` is
the handler of the FIRST WebSocket route, in registration order, whose pattern matches the path,
within the first sub-application whose host pattern matches the Host header; or, when there is no
Host header, no sub-application matches it, or the selected sub-application has no matching WebSocket
route, of the first matching WebSocket route of the default sub-application. -/
theorem wsHandler_some_iff {κ ω : Type} (app : App κ ω) (host : Option (List Char))
    (path : List Char) (w : ω) :
    wsHandler app host path = some w ↔
      (∃ h s r, host = some h ∧ FirstHost app.subapps h s ∧ FirstWsRoute s.wsRoutes path r ∧ r.2 = w) ∨
      ((host = none ∨ (∃ h, host = some h ∧ NoHost app.subapps h) ∨
        (∃ h s, host = some h ∧ FirstHost app.subapps h s ∧ NoWsRoute s.wsRoutes path)) ∧
       ∃ r, FirstWsRoute app.default.wsRoutes path r ∧ r.2 = w) := by
  simp only [routeWs_firstHost_iff, routeWs_noHost_iff, routeWs_firstWsRoute_iff, routeWs_noWsRoute_iff]
  cases host with
  | none => simp [wsHandler, -List.find?_eq_none]
  | some h =>
    cases hs : app.subapps.find? (fun s => wildcardMatch s.host h) with
    | none => simp [wsHandler, hs, -List.find?_eq_none]
    | some s =>
      cases hr : s.wsRoutes.find? (fun r => wildcardMatch r.1 path) with
      | none => simp [wsHandler, hs, hr, -List.find?_eq_none]
      | some r =>
        simp [wsHandler, hs, hr, -List.find?_eq_none]
        constructor
        · intro e; exact ⟨r.1, by rw [← e]⟩
        · rintro ⟨a, rfl⟩; rfl

/-- **No WebSocket handler is chosen** exactly when the default sub-application has no matching
WebSocket route and neither has the sub-application selected by the Host header (if any). -/
theorem wsHandler_none_iff {κ ω : Type} (app : App κ ω) (host : Option (List Char)) (path : List Char) :
    wsHandler app host path = none ↔
      NoWsRoute app.default.wsRoutes path ∧
      ∀ h s, host = some h → FirstHost app.subapps h s → NoWsRoute s.wsRoutes path := by
  simp only [routeWs_firstHost_iff, routeWs_noWsRoute_iff]
  cases host with
  | none => simp [wsHandler, -List.find?_eq_none]
  | some h =>
    cases hs : app.subapps.find? (fun s => wildcardMatch s.host h) with
    | none =>
      simp [wsHandler, hs, -List.find?_eq_none]
      intro _ h' s' e hs'
      subst e
      rw [hs] at hs'; cases hs'
    | some s =>
      cases hr : s.wsRoutes.find? (fun r => wildcardMatch r.1 path) with
      | none =>
        simp [wsHandler, hs, hr, -List.find?_eq_none]
        intro _ h' s' e hs'
        subst e
        rw [hs] at hs'; cases hs'; exact hr
      | some r => simp [wsHandler, hs, hr, -List.find?_eq_none]

/-- The first matching host / route is unique, so the characterisation above determines the result:
two handlers that both satisfy its right-hand side are equal. (Immediate from the `iff`.) -/
theorem wsHandler_choice_unique {κ ω : Type} (app : App κ ω) (host : Option (List Char))
    (path : List Char) (w w' : ω)
    (h : wsHandler app host path = some w) (h' : wsHandler app host path = some w') : w = w' := by
  rw [h] at h'; exact Option.some.inj h'

/-- **The connection step for an upgrade request.** When the next request on the connection parses
and carries `Upgrade: websocket` (the model's — and the code's — condition: the value compared
byte for byte), the loop stops: the connection is handed to exactly `wsHandler`'s result for the
request's Host header and path; nothing is written, no HTTP handler is called, and the unread bytes
are what the parser left. When `wsHandler` finds nothing the outcome is `websocket false`: the
connection is dropped without any response (no 404, no 400). -/
theorem upgrade_dispatch {σ κ ω : Type} (S : Source σ) (idle : σ → Option σ) (cfg : ConnCfg κ ω)
    (fuel : Nat) (s s' : σ) (req : Request) (w : List Bytes) (d : List Request)
    (hi : (if cfg.timeout then idle s else none) = none)
    (hp : parseRequest S cfg.env s = .ok (req, s'))
    (hu : req.headers.get hUpgrade = some websocketValue) :
    serveLoop S idle cfg (fuel + 1) s w d =
      ⟨w, d, wsHandler cfg.app ((req.headers.get hHost).map cfg.decode) (cfg.decode req.uri),
        .websocket (wsHandler cfg.app ((req.headers.get hHost).map cfg.decode) (cfg.decode req.uri)).isSome,
        s'⟩ := by
  simp [serveLoop, hi, hp, hu]

/-- An upgrade request is handed to the handler the characterisation names. -/
theorem upgrade_routed {σ κ ω : Type} (S : Source σ) (idle : σ → Option σ) (cfg : ConnCfg κ ω)
    (fuel : Nat) (s s' : σ) (req : Request) (w : List Bytes) (d : List Request) (h : ω)
    (hi : (if cfg.timeout then idle s else none) = none)
    (hp : parseRequest S cfg.env s = .ok (req, s'))
    (hu : req.headers.get hUpgrade = some websocketValue)
    (hw : wsHandler cfg.app ((req.headers.get hHost).map cfg.decode) (cfg.decode req.uri) = some h) :
    serveLoop S idle cfg (fuel + 1) s w d = ⟨w, d, some h, .websocket true, s'⟩ := by
  rw [upgrade_dispatch S idle cfg fuel s s' req w d hi hp hu, hw]; rfl

/-- An upgrade request that no WebSocket route takes: nothing is written (in particular no 404), no
handler of either kind runs, and the connection ends. -/
theorem upgrade_unrouted_writes_nothing {σ κ ω : Type} (S : Source σ) (idle : σ → Option σ)
    (cfg : ConnCfg κ ω) (fuel : Nat) (s s' : σ) (req : Request) (w : List Bytes) (d : List Request)
    (hi : (if cfg.timeout then idle s else none) = none)
    (hp : parseRequest S cfg.env s = .ok (req, s'))
    (hu : req.headers.get hUpgrade = some websocketValue)
    (hw : wsHandler cfg.app ((req.headers.get hHost).map cfg.decode) (cfg.decode req.uri) = none) :
    serveLoop S idle cfg (fuel + 1) s w d = ⟨w, d, none, .websocket false, s'⟩ := by
  rw [upgrade_dispatch S idle cfg fuel s s' req w d hi hp hu, hw]; rfl

/-- Conversely, a request without `Upgrade: websocket` never reaches a WebSocket route in its own
step: if the loop stops there (no keep-alive, or the handler panicked) the hand-off is `none`. -/
theorem non_upgrade_not_ws {σ κ ω : Type} (S : Source σ) (idle : σ → Option σ) (cfg : ConnCfg κ ω)
    (fuel : Nat) (s s' : σ) (req : Request) (w : List Bytes) (d : List Request)
    (hi : (if cfg.timeout then idle s else none) = none)
    (hp : parseRequest S cfg.env s = .ok (req, s'))
    (hu : req.headers.get hUpgrade ≠ some websocketValue)
    (hk : ∀ c, req.headers.get hConnection = some c → Bytes.asciiLower c ≠ keepAliveLower) :
    (serveLoop S idle cfg (fuel + 1) s w d).ws = none := by
  cases hc : req.headers.get hConnection with
  | none =>
    simp only [serveLoop, hi, hp, hu, hc, if_false]
    split <;> simp
  | some c =>
    simp only [serveLoop, hi, hp, hu, hc, hk c hc, if_false]
    split <;> simp

/-- **The query string never takes part** (upgrade requests included): the path of every request the
parser returns — on any source — contains no `?`; the query went to `req.query`, which `wsHandler`
(like `getHandler`) is never given. -/
theorem parsed_request_uri_has_no_query {σ : Type} (S : Source σ) (env : Env) (s : σ) (req : Request)
    (s' : σ) (h : parseRequest S env s = .ok (req, s')) : (63 : UInt8) ∉ req.uri := by
  obtain ⟨line, m, q, v, hl⟩ := routeWs_parseRequest_uri S env s req s' h
  exact parsed_uri_has_no_query line m req.uri q v hl

/-- The hand-off of an upgrade request is a function of its Host header and its path only: changing
the query (or the method, version, body, peer address) does not change it. -/
theorem upgrade_dispatch_ignores_query {σ κ ω : Type} (S : Source σ) (idle : σ → Option σ)
    (cfg : ConnCfg κ ω) (fuel₁ fuel₂ : Nat) (s₁ s₁' s₂ s₂' : σ) (req₁ req₂ : Request)
    (w₁ w₂ : List Bytes) (d₁ d₂ : List Request)
    (hi₁ : (if cfg.timeout then idle s₁ else none) = none)
    (hi₂ : (if cfg.timeout then idle s₂ else none) = none)
    (hp₁ : parseRequest S cfg.env s₁ = .ok (req₁, s₁'))
    (hp₂ : parseRequest S cfg.env s₂ = .ok (req₂, s₂'))
    (hu₁ : req₁.headers.get hUpgrade = some websocketValue)
    (hu₂ : req₂.headers.get hUpgrade = some websocketValue)
    (hhost : req₁.headers.get hHost = req₂.headers.get hHost) (huri : req₁.uri = req₂.uri) :
    (serveLoop S idle cfg (fuel₁ + 1) s₁ w₁ d₁).ws = (serveLoop S idle cfg (fuel₂ + 1) s₂ w₂ d₂).ws := by
  rw [upgrade_dispatch S idle cfg fuel₁ s₁ s₁' req₁ w₁ d₁ hi₁ hp₁ hu₁,
    upgrade_dispatch S idle cfg fuel₂ s₂ s₂' req₂ w₂ d₂ hi₂ hp₂ hu₂, hhost, huri]

/-! ## Non-vacuity -/

/-- Two hosts; the second WebSocket route of the first matching host wins over the default's. -/
def wsSampleApp : App Nat Nat :=
  ⟨[⟨['*', '.', 'e', 'x'], [], [(['/', 'a'], 1), (['/', '*'], 2)]⟩,
    ⟨['*'], [], [(['/', '*'], 5)]⟩],
   ⟨['*'], [], [(['/', 'w', '*'], 3)]⟩⟩

example : wsHandler wsSampleApp (some ['x', '.', 'e', 'x']) ['/', 'b'] = some 2 := by
  simp [wsHandler, wsSampleApp, wildcardMatch, matchNoStar, matchStar, allStars]

/-- The selected sub-app has no matching WebSocket route: fallback to the default application (NOT to
the next matching host, whose `/*` would give 5). -/
example : wsHandler
    (⟨[⟨['*', '.', 'e', 'x'], [], [(['/', 'a'], 1)]⟩, ⟨['*'], [], [(['/', '*'], 5)]⟩],
      ⟨['*'], [], [(['/', 'w', '*'], 3)]⟩⟩ : App Nat Nat)
    (some ['x', '.', 'e', 'x']) ['/', 'w', 's'] = some 3 := by
  simp [wsHandler, wildcardMatch, matchNoStar, matchStar, allStars]

/-- No Host header: the default application. -/
example : wsHandler wsSampleApp none ['/', 'w', 's'] = some 3 := by
  simp [wsHandler, wsSampleApp, wildcardMatch, matchNoStar, matchStar, allStars]

/-- Nothing matches: `none` (the connection is then dropped without a response). -/
example : wsHandler wsSampleApp none ['/', 'x'] = none := by
  simp [wsHandler, wsSampleApp, wildcardMatch, matchNoStar]

/-- The right-hand side of `wsHandler_some_iff` is inhabited through its first disjunct. -/
example : ∃ h s r, (some ['x', '.', 'e', 'x'] : Option (List Char)) = some h ∧
    FirstHost wsSampleApp.subapps h s ∧ FirstWsRoute s.wsRoutes ['/', 'b'] r ∧ r.2 = 2 := by
  have h : wsHandler wsSampleApp (some ['x', '.', 'e', 'x']) ['/', 'b'] = some 2 := by
    simp [wsHandler, wsSampleApp, wildcardMatch, matchNoStar, matchStar, allStars]
  rcases (wsHandler_some_iff _ _ _ _).mp h with h1 | ⟨_, r, hr, _⟩
  · exact h1
  · exfalso
    rw [routeWs_firstWsRoute_iff] at hr
    simp [wsSampleApp, wildcardMatch, matchNoStar] at hr

end Humphrey.Http
