import HumphreyModel.Model.CodecTR

/-!
# C18 — the accumulator forms used by the driver on large inputs are the models

`Model/CodecTR.lean` restates the four list codecs with an accumulator so that the compiled driver can
run them on inputs of a mebibyte. These theorems make that restatement invisible: for every input the
accumulator form returns what the plain model returns (hence everything proved about
`Percent.encode/decode` and `Base64.encode/decode` holds of what the driver computes).
-/
namespace Humphrey.Percent

theorem encodeTR_eq (l acc : Bytes) : encodeTR l acc = acc.reverse ++ encode l := by
  induction l generalizing acc with
  | nil => simp [encodeTR, encode]
  | cons b rest ih =>
    simp only [encodeTR, encode]
    split
    · rw [ih]; simp
    · rw [ih]; simp

/-- **Percent encoder, accumulator form.** -/
theorem encodeTR_nil (l : Bytes) : encodeTR l [] = encode l := by
  simp [encodeTR_eq]

theorem decodeTR_eq (l acc : Bytes) : decodeTR l acc = (decode l).map (acc.reverse ++ ·) := by
  fun_induction decode l generalizing acc
  case case1 => simp [decodeTR]
  case case2 h1 h2 rest' hi lo e2 e1 ih =>
    simp only [decodeTR, if_true, e1, e2, ih, Option.map_map]
    congr 1; funext x; simp
  case case3 => simp_all [decodeTR]
  case case4 => simp_all [decodeTR]
  case case5 b rest h ih =>
    unfold decodeTR
    rw [if_neg h, ih, Option.map_map]
    congr 1; funext x; simp

/-- **Percent decoder, accumulator form.** -/
theorem decodeTR_nil (l : Bytes) : decodeTR l [] = decode l := by
  simp [decodeTR_eq]

end Humphrey.Percent

namespace Humphrey.Base64

theorem encodeTR_eq (l acc : Bytes) : encodeTR l acc = acc.reverse ++ encode l := by
  fun_induction encode l generalizing acc <;> simp_all [encodeTR]

/-- **Base64 encoder, accumulator form.** -/
theorem encodeTR_nil (l : Bytes) : encodeTR l [] = encode l := by
  simp [encodeTR_eq]

/-- What `decodeGroups` returns with `pre` put in front of a successful result. -/
def prepend (pre : Bytes) : Outcome → Outcome
  | .ok r => .ok (pre ++ r)
  | o => o

theorem decodeGroupsTR_eq (l acc : Bytes) :
    decodeGroupsTR l acc = prepend acc.reverse (decodeGroups l) := by
  fun_induction decodeGroups l generalizing acc <;> simp_all [decodeGroupsTR, prepend]

/-- **Base64 decoder, accumulator form.** -/
theorem decodeTR_eq (s : Bytes) : decodeTR s = decode s := by
  unfold decodeTR decode
  split
  · rfl
  · rw [decodeGroupsTR_eq]
    cases decodeGroups s <;> simp [prepend]

end Humphrey.Base64
