import HumphreyModel.Props.C15
import HumphreyModel.Proofs.ConfClean
import HumphreyModel.Proofs.ConfModelReject
import HumphreyModel.Proofs.ConfModelLoad
import HumphreyModel.Proofs.ConfModelWF
import HumphreyModel.Proofs.ConfModelInclude
import HumphreyModel.Proofs.ConfModelList

/-!
# C15, completed: text-level round trip, configuration-level round trip, direct rejection

Property theorems only (plus non-vacuity examples). Model: `Model/Conf.lean`. Specification:
`Spec/Conf.lean` (tree level: `renderTree`, `Layout`, `WFTree`, `WFLayout`) and `Spec/ConfModel.lean`
(configuration level: `Cfg`, `Cfg.toTree`, `Cfg.normalise`, `Cfg.WF`; vocabulary of the rejection
theorems: `KeyBad`, `KeyFine`, `NumbersFine`, `BlacklistFine`, `ScalarsFine`).
Helper lemmas: `Proofs/ConfClean.lean`, `Proofs/ConfModel*.lean`.

A. `parse_tree_roundtrip` — the statement that `Props/C15.lean` left as `…_partial`, without the
   `hclean` hypothesis. `WFTree`/`WFLayout` as defined already make every rendered line free of
   `\n` and of a trailing `\r` (`clean_renderLines`); no `NoCR…` predicate is needed, so there is no
   necessity counterexample to give. (The remark in `Props/C15.lean` that `WFTree` would have to
   exclude a `\r` at the end of a value or name is not accurate: a name is followed by `{`, a
   string value by its closing quotation mark, and a `\r` that is not last on its line is kept by
   `str::lines`; see the example with a value ending in `\r` below.)
B. `load_render`, `load_config_roundtrip` — every field of `Config` and every route kind is
   generated. The result type `Res` has a `panic` outcome.
   Restrictions of the generating model (not of the theorems' strength over that model):
   * `include` is generated one level deep and in the body of the `server` section only
     (`Piece`, `renderWithIncludes`, theorems `parse_tree_roundtrip_includes` and
     `load_config_roundtrip_includes`): an included file that itself uses `include`, or an `include`
     line inside a sub-section, host or route, is not generated;
   * `Cfg.WF` states the blacklist as a hypothesis on the file system (the named list file loads as
     the model's addresses, `loadBlacklist fs (some path) = .ok ips`); `blacklist_file_loads`
     discharges it for generated list files (one dotted-quad IPv4 address per line, `blacklistText`);
     IPv6 addresses are not in the model (`parseIpv4` only), so they are not generated;
   * one fixed order of keys (address, port, threads, websocket, timeout, `blacklist {file mode}`,
     `log {level console file}`, `cache {size time}`, then routes and hosts mixed in any order), a
     sub-section is written once and only when it has a key; inside a route: target, balancer mode,
     websocket; hosts contain only routes;
   * strings are always quoted, numbers and booleans never; enumeration words in lower case;
     numbers are below 2^63 (what a number node can hold; the unit spelling `K/M/G` is the layout's);
   * the patterns of a route are joined by `,` without blanks around it.
   Layout (comments, blank lines, indentation, blanks, unit spelling) is arbitrary (`WFLayout`).
C. `fromTree_never_panics`, and "bad value ⇒ rejected" in the direct direction for every validated
   key in validation order, each under the minimal "earlier keys are fine" condition.
-/
namespace Humphrey.Conf

/-! ## A. tree level, on the text -/

/-- Every line of the rendering of a well-formed tree is free of `\n` and does not end in `\r`. -/
theorem rendered_lines_clean (lay : Layout) (hl : WFLayout lay) (cs : List Node)
    (hw : WFTree (.section "server".toList cs)) : ∀ l ∈ renderLines lay cs, lineClean l :=
  clean_renderLines lay hl cs hw.2.1

/-- **Round trip on the text.** Every well-formed tree, written with any well-formed layout, is
read back from the text as itself. -/
theorem parse_tree_roundtrip (fs : FS) (file : Str) (tree : Node) (lay : Layout) (hw : WFTree tree)
    (hl : WFLayout lay) : parseConf fs (renderTree tree lay) file = .ok tree := by
  cases tree with
  | «section» name cs =>
    obtain rfl : name = "server".toList := hw.1
    exact parse_tree_roundtrip_partial fs file lay hl cs hw (rendered_lines_clean lay hl cs hw)
  | number _ _ => exact absurd hw (by simp [WFTree])
  | boolean _ _ => exact absurd hw (by simp [WFTree])
  | string _ _ => exact absurd hw (by simp [WFTree])
  | host _ _ => exact absurd hw (by simp [WFTree])
  | route _ _ => exact absurd hw (by simp [WFTree])

/-- Non-vacuity, and the `\r` question settled on an instance: a string value that *ends* in a
carriage return is a well-formed tree, so it is read back with its `\r`. -/
example : WFTree (.section "server".toList [.string ['a'] ['x', '\r']]) := by
  refine ⟨rfl, ⟨⟨?_, ?_⟩, trivial⟩, by decide⟩
  · unfold okKey; decide
  · unfold noHashNl; decide

example (fs : FS) (file : Str) :
    parseConf fs (renderTree (.section "server".toList [.string ['a'] ['x', '\r']]) plainLayout) file =
      .ok (.section "server".toList [.string ['a'] ['x', '\r']]) :=
  parse_tree_roundtrip fs file _ _
    ⟨rfl, ⟨⟨by unfold okKey; decide, by unfold noHashNl; decide⟩, trivial⟩, by decide⟩ plainLayout_ok

/-! ## C. `from_tree`: no panic; a bad value is rejected with its own error

Validation order of `Config::from_tree`: port, threads, timeout, threads ≠ 0, blacklist file,
blacklist mode, log level, log console, cache size, cache time, routes of the default host, hosts. -/

/-- `Config::from_tree` never panics, on any tree (the `unwrap`s of `parse_route` are guarded by
`contains_key`, and `flatten` only binds scalar nodes). -/
theorem fromTree_never_panics (fs : FS) (tree : Node) : fromTree fs tree ≠ .panic :=
  cfgrt_fromTree_ne_panic fs tree

/-- … hence loading a file never panics either. -/
theorem load_never_panics (fs : FS) (conf file : Str) : load fs conf file ≠ .panic := by
  unfold load
  split
  · simp
  · rename_i h; exact absurd h (conf_never_panics fs conf file)
  · split
    · simp
    · simp
    · rename_i h; exact absurd h (fromTree_never_panics fs _)

/-- `server.port` present with a text that is not a `u16`: rejected (nothing is checked before). -/
theorem bad_port_rejected (fs : FS) (tree : Node)
    (h : KeyBad (flattenNode [] tree []) (k "server.port") (parseUnsigned 16)) :
    fromTree fs tree = .err .port := cfgrt_bad_port h

/-- `server.threads` not a `usize`, the port being fine. -/
theorem bad_threads_rejected (fs : FS) (tree : Node)
    (hport : KeyFine (flattenNode [] tree []) (k "server.port") (parseUnsigned 16))
    (h : KeyBad (flattenNode [] tree []) (k "server.threads") (parseUnsigned 64)) :
    fromTree fs tree = .err .threads := cfgrt_bad_threads hport h

/-- `server.timeout` not a `u64`, port and threads being fine. -/
theorem bad_timeout_rejected (fs : FS) (tree : Node)
    (hport : KeyFine (flattenNode [] tree []) (k "server.port") (parseUnsigned 16))
    (hthreads : KeyFine (flattenNode [] tree []) (k "server.threads") (parseUnsigned 64))
    (h : KeyBad (flattenNode [] tree []) (k "server.timeout") (parseUnsigned 64)) :
    fromTree fs tree = .err .timeout := cfgrt_bad_timeout hport hthreads h

/-- `server.threads` present and equal to zero (`0`, `+0`, `000`, …), port and timeout being fine. -/
theorem zero_threads_rejected (fs : FS) (tree : Node) (n : Node)
    (hport : KeyFine (flattenNode [] tree []) (k "server.port") (parseUnsigned 16))
    (htimeout : KeyFine (flattenNode [] tree []) (k "server.timeout") (parseUnsigned 64))
    (hg : (flattenNode [] tree []).get (k "server.threads") = some n)
    (h0 : n.scalar.bind (parseUnsigned 64) = some 0) :
    fromTree fs tree = .err .threadsZero := cfgrt_zero_threads hport htimeout hg h0

/-- The blacklist file cannot be opened / read / holds a line that is not an address (`e` is the
error of `loadBlacklist`), the numeric keys being fine. -/
theorem bad_blacklist_file_rejected (fs : FS) (tree : Node) (e : CfgErr)
    (hnum : NumbersFine (flattenNode [] tree []))
    (h : loadBlacklist fs (getOwned (flattenNode [] tree []) (k "server.blacklist.file")) = .err e) :
    fromTree fs tree = .err e := cfgrt_bad_blacklist_file hnum h

/-- `server.blacklist.mode` neither `block` nor `forbidden`, numeric keys fine, list file loading. -/
theorem bad_blacklist_mode_rejected (fs : FS) (tree : Node)
    (hnum : NumbersFine (flattenNode [] tree []))
    (hload : ∃ l, loadBlacklist fs (getOwned (flattenNode [] tree []) (k "server.blacklist.file")) = .ok l)
    (h1 : getOptional (flattenNode [] tree []) (k "server.blacklist.mode") (k "block") ≠ k "block")
    (h2 : getOptional (flattenNode [] tree []) (k "server.blacklist.mode") (k "block") ≠ k "forbidden") :
    fromTree fs tree = .err .blacklistMode := cfgrt_bad_blacklist_mode hnum hload h1 h2

/-- `server.log.level` not one of the four levels. -/
theorem bad_log_level_rejected (fs : FS) (tree : Node)
    (hnum : NumbersFine (flattenNode [] tree []))
    (hbl : BlacklistFine fs (flattenNode [] tree []))
    (h : KeyBad (flattenNode [] tree []) (k "server.log.level") parseLogLevel) :
    fromTree fs tree = .err .logLevel := cfgrt_bad_log_level hnum hbl h

/-- `server.log.console` not `true`/`false`. -/
theorem bad_log_console_rejected (fs : FS) (tree : Node)
    (hnum : NumbersFine (flattenNode [] tree []))
    (hbl : BlacklistFine fs (flattenNode [] tree []))
    (hlevel : KeyFine (flattenNode [] tree []) (k "server.log.level") parseLogLevel)
    (h : KeyBad (flattenNode [] tree []) (k "server.log.console") parseBool) :
    fromTree fs tree = .err .logConsole := cfgrt_bad_log_console hnum hbl hlevel h

/-- `server.cache.size` not a `usize`. -/
theorem bad_cache_size_rejected (fs : FS) (tree : Node)
    (hnum : NumbersFine (flattenNode [] tree []))
    (hbl : BlacklistFine fs (flattenNode [] tree []))
    (hlevel : KeyFine (flattenNode [] tree []) (k "server.log.level") parseLogLevel)
    (hconsole : KeyFine (flattenNode [] tree []) (k "server.log.console") parseBool)
    (h : KeyBad (flattenNode [] tree []) (k "server.cache.size") (parseUnsigned 64)) :
    fromTree fs tree = .err .cacheSize := cfgrt_bad_cache_size hnum hbl hlevel hconsole h

/-- `server.cache.time` not a `usize`. -/
theorem bad_cache_time_rejected (fs : FS) (tree : Node)
    (hnum : NumbersFine (flattenNode [] tree []))
    (hbl : BlacklistFine fs (flattenNode [] tree []))
    (hlevel : KeyFine (flattenNode [] tree []) (k "server.log.level") parseLogLevel)
    (hconsole : KeyFine (flattenNode [] tree []) (k "server.log.console") parseBool)
    (hsize : KeyFine (flattenNode [] tree []) (k "server.cache.size") (parseUnsigned 64))
    (h : KeyBad (flattenNode [] tree []) (k "server.cache.time") (parseUnsigned 64)) :
    fromTree fs tree = .err .cacheTime := cfgrt_bad_cache_time hnum hbl hlevel hconsole hsize h

/-- A faulty route of the default host (error `e` of `parse_route`), anywhere among the children of
the `server` section, the routes before it and all scalar keys being fine. -/
theorem bad_route_rejected (fs : FS) (name wild : Str) (pre rest inner : List Node) (e : CfgErr)
    (hs : ScalarsFine fs (flattenNode [] (.section name (pre ++ .route wild inner :: rest)) []))
    (hpre : ∃ rs, parseRoutes pre = .ok rs)
    (h : parseRoute wild (flattenList [] inner []) = .err e) :
    fromTree fs (.section name (pre ++ .route wild inner :: rest)) = .err e :=
  cfgrt_bad_default_routes hs (cfgrt_parseRoutes_err_at hpre h)

/-- A faulty route inside a host section, the default host's routes, the hosts before it, the routes
before it in its host and all scalar keys being fine. -/
theorem bad_host_route_rejected (fs : FS) (name hname wild : Str) (pre rest hpre hrest inner : List Node)
    (e : CfgErr)
    (hs : ScalarsFine fs
      (flattenNode [] (.section name (pre ++ .host hname (hpre ++ .route wild inner :: hrest) :: rest)) []))
    (hdef : ∃ rs, parseRoutes (pre ++ .host hname (hpre ++ .route wild inner :: hrest) :: rest) = .ok rs)
    (hhosts : ∃ hs, parseHosts pre = .ok hs)
    (hroutes : ∃ rs, parseRoutes hpre = .ok rs)
    (h : parseRoute wild (flattenList [] inner []) = .err e) :
    fromTree fs (.section name (pre ++ .host hname (hpre ++ .route wild inner :: hrest) :: rest)) = .err e := by
  obtain ⟨rs, hrs⟩ := hdef
  exact cfgrt_bad_hosts hs hrs (cfgrt_parseHosts_err_at hhosts (cfgrt_parseRoutes_err_at hroutes h))

/-- `bad_enum_rejected` for the balancer mode, at whole-configuration level: a proxy route of the
default host whose `load_balancer_mode` is neither `round-robin` nor `random`. -/
theorem bad_balancer_mode_rejected (fs : FS) (name wild : Str) (pre rest inner : List Node) (n : Node)
    (t : Str)
    (hs : ScalarsFine fs (flattenNode [] (.section name (pre ++ .route wild inner :: rest)) []))
    (hpre : ∃ rs, parseRoutes pre = .ok rs)
    (h1 : (flattenList [] inner []).get "file".toList = none)
    (h2 : (flattenList [] inner []).get "directory".toList = none)
    (h3 : (flattenList [] inner []).get "proxy".toList = some n) (ht : n.getString = some t)
    (hm1 : getOptional (flattenList [] inner []) "load_balancer_mode".toList "round-robin".toList ≠
      "round-robin".toList)
    (hm2 : getOptional (flattenList [] inner []) "load_balancer_mode".toList "round-robin".toList ≠
      "random".toList) :
    fromTree fs (.section name (pre ++ .route wild inner :: rest)) = .err .lbMode :=
  bad_route_rejected fs name wild pre rest inner _ hs hpre
    (parseRoute_bad_lb_mode wild _ n t h1 h2 h3 ht hm1 hm2)

/-- `route_without_target_rejected`, at whole-configuration level (default host). -/
theorem route_without_target_rejected (fs : FS) (name wild : Str) (pre rest inner : List Node)
    (hs : ScalarsFine fs (flattenNode [] (.section name (pre ++ .route wild inner :: rest)) []))
    (hpre : ∃ rs, parseRoutes pre = .ok rs)
    (h1 : (flattenList [] inner []).get "file".toList = none)
    (h2 : (flattenList [] inner []).get "directory".toList = none)
    (h3 : (flattenList [] inner []).get "proxy".toList = none)
    (h4 : (flattenList [] inner []).get "redirect".toList = none)
    (h5 : (flattenList [] inner []).get "websocket".toList = none) :
    fromTree fs (.section name (pre ++ .route wild inner :: rest)) = .err .routeTarget :=
  bad_route_rejected fs name wild pre rest inner _ hs hpre
    (parseRoute_without_target wild _ h1 h2 h3 h4 h5)

/-- A rejected tree is a rejected file: the validation error of `from_tree` is what `load` returns. -/
theorem load_rejects_invalid (fs : FS) (conf file : Str) (tree : Node) (e : CfgErr)
    (hp : parseConf fs conf file = .ok tree) (h : fromTree fs tree = .err e) :
    load fs conf file = .err (.invalid e) := by
  simp [load, hp, h]

/-! ## B. configuration level -/

/-- **`from_tree` on the tree of a model gives the model**, hosts and routes in file order, omitted
keys at the `from_tree` defaults. -/
theorem load_render (fs : FS) (c : Cfg) (hc : c.WF fs) : fromTree fs c.toTree = .ok c.normalise :=
  cfgrt_load_render fs c hc

/-- The tree of a well-formed model is a tree of the documented syntax. -/
theorem toTree_wellformed (fs : FS) (c : Cfg) (hc : c.WF fs) : WFTree c.toTree := cfgrt_wf_toTree hc

/-- **A configuration file is loaded into exactly the configuration it describes**: the text of
any well-formed model under any well-formed layout (comments, blank lines, indentation, blanks,
unit spelling of sizes) loads (`parse_conf` then `Config::from_tree`, the body of `Config::load`)
into the normalised model. -/
theorem load_config_roundtrip (fs : FS) (file : Str) (c : Cfg) (lay : Layout) (hc : c.WF fs)
    (hl : WFLayout lay) : load fs (renderTree c.toTree lay) file = .ok c.normalise := by
  unfold load
  rw [parse_tree_roundtrip fs file c.toTree lay (toTree_wellformed fs c hc) hl]
  simp only [load_render fs c hc]

/-- Layout independence at configuration level. -/
theorem load_layout_irrelevant (fs : FS) (file : Str) (c : Cfg) (lay₁ lay₂ : Layout) (hc : c.WF fs)
    (h₁ : WFLayout lay₁) (h₂ : WFLayout lay₂) :
    load fs (renderTree c.toTree lay₁) file = load fs (renderTree c.toTree lay₂) file := by
  rw [load_config_roundtrip fs file c lay₁ hc h₁, load_config_roundtrip fs file c lay₂ hc h₂]

/-- **The blacklist list file**: a file with one dotted-quad address per line loads as exactly
those addresses, in order (this is the hypothesis `Cfg.WF.blacklist` for a generated list file). -/
theorem blacklist_file_loads (fs : FS) (p : Str) (ips : List Ip4) (h : ∀ i ∈ ips, i.ok)
    (hfs : fs p = .text (blacklistText ips)) : loadBlacklist fs (some p) = .ok (ips.map Ip4.text) :=
  cfgrt_loadBlacklist_text fs p ips h hfs

/-! ### files that use `include` -/

/-- **Round trip with includes** (tree level, on the text): a main file whose `server` section is
made of pieces — nodes written in place and `include "path"` lines, the named files holding the
rendering (under layouts of their own) of further nodes — is read back as the `server` section
with all those nodes in order. -/
theorem parse_tree_roundtrip_includes (fs : FS) (file : Str) (lay : Layout) (hl : WFLayout lay)
    (ps : List Piece) (hwf : ∀ p ∈ ps, p.WF fs) :
    parseConf fs (renderWithIncludes lay ps) file = .ok (.section "server".toList (piecesDenote ps)) :=
  cfgrt_parseConf_pieces fs file lay hl ps hwf

/-- **Configuration level with includes**: however the children of a model's tree are distributed
over the main file and included files, loading the main file gives the normalised model. -/
theorem load_config_roundtrip_includes (fs : FS) (file : Str) (c : Cfg) (lay : Layout) (hc : c.WF fs)
    (hl : WFLayout lay) (ps : List Piece) (hwf : ∀ p ∈ ps, p.WF fs) (hsplit : piecesDenote ps = c.children) :
    load fs (renderWithIncludes lay ps) file = .ok c.normalise := by
  unfold load
  rw [parse_tree_roundtrip_includes fs file lay hl ps hwf, hsplit]
  have := load_render fs c hc
  unfold Cfg.toTree at this
  simp only [this]

/-! ### non-vacuity -/

/-- A file system with one includable file, holding a route, and a main file that includes it
between two keys: the three nodes come back in order. -/
example (file : Str) :
    let inner : List Node := [.route ['/', '*'] [.string ['f', 'i', 'l', 'e'] ['x']]]
    let fs : FS := fun p => if p = ['r', '.', 'c'] then .text (includedText plainLayout inner) else .missing
    parseConf fs (renderWithIncludes plainLayout
        [.nodes [.number ['p', 'o', 'r', 't'] ['8', '0']], .incl ['r', '.', 'c'] plainLayout inner,
         .nodes [.boolean ['x'] "true".toList]]) file =
      .ok (.section "server".toList
        ([.number ['p', 'o', 'r', 't'] ['8', '0']] ++ inner ++ [.boolean ['x'] "true".toList])) := by
  intro inner fs
  have hk1 : okKey ['p', 'o', 'r', 't'] := by unfold okKey; decide
  have hk2 : okKey ['x'] := by unfold okKey; decide
  have hk3 : okKey ['f', 'i', 'l', 'e'] := by unfold okKey; decide
  have hr : okRouteName ['/', '*'] :=
    ⟨by unfold noHashNl; decide, ⟨⟨'/', rfl, by decide⟩, ⟨'*', rfl, by decide⟩⟩, by decide⟩
  have := parse_tree_roundtrip_includes fs file plainLayout plainLayout_ok
    [.nodes [.number ['p', 'o', 'r', 't'] ['8', '0']], .incl ['r', '.', 'c'] plainLayout inner,
     .nodes [.boolean ['x'] "true".toList]] (by
      intro p hp
      simp only [List.mem_cons, List.not_mem_nil, or_false] at hp
      rcases hp with rfl | rfl | rfl
      · exact ⟨⟨⟨hk1, by decide⟩, trivial⟩, by decide⟩
      · refine ⟨by unfold noHashNl; decide, plainLayout_ok, ⟨⟨hr, ⟨hk3, by unfold noHashNl; decide⟩, trivial⟩, trivial⟩,
          by decide, ?_⟩
        simp [fs]
      · exact ⟨⟨⟨hk2, Or.inl rfl⟩, trivial⟩, by decide⟩)
  simpa [piecesDenote, Piece.denote] using this

theorem tight_of_ends {s : Str} (h1 : s.head?.map isWhitespace = some false)
    (h2 : s.getLast?.map isWhitespace = some false) : tight s := by
  constructor
  · cases h : s.head? with
    | none => rw [h] at h1; cases h1
    | some c => rw [h] at h1; exact ⟨c, rfl, by simpa using h1⟩
  · cases h : s.getLast? with
    | none => rw [h] at h2; cases h2
    | some c => rw [h] at h2; exact ⟨c, rfl, by simpa using h2⟩

/-- A model with every kind of route, a host, and most keys. -/
def sampleCfg : Cfg :=
  { address := some ['1', '2', '7', '.', '0', '.', '0', '.', '1']
    port := some 8080
    threads := some 4
    timeout := some 30
    blacklistMode := some .forbidden
    logLevel := some .info
    logConsole := some false
    cacheSize := some 134217728
    items :=
      [ .route ⟨[['/', 's', '/', '*'], ['/', 't']], .directory ['/', 'v', 'a', 'r'], none⟩,
        .host ⟨['a', '.', 'b'],
          [ ⟨[['/', 'a', 'p', 'i', '/', '*']], .proxy [['h', '1'], ['h', '2']] (some .random), some ['w', 's']⟩,
            ⟨[['/', 'o', 'l', 'd']], .redirect ['/', 'n', 'e', 'w'], none⟩ ]⟩,
        .route ⟨[['/', 'w', 's']], .websocketOnly, some ['l', ':', '9']⟩,
        .route ⟨[['/', 'f']], .file ['i', '.', 'h', 't', 'm', 'l'], none⟩ ] }

theorem sampleCfg_wf (fs : FS) : sampleCfg.WF fs where
  address := by intro a h; cases h; unfold noHashNl; decide
  port := by intro p h; cases h; decide
  threads := by intro p h; cases h; decide
  websocket := by intro p h; cases h
  timeout := by intro p h; cases h; decide
  blacklist := by intro p ips h; cases h
  logFile := by intro p h; cases h
  cacheSize := by intro p h; cases h; decide
  cacheTime := by intro p h; cases h
  items := by
    have pat : ∀ p : Str, p.head?.map isWhitespace = some false → p.getLast?.map isWhitespace = some false →
        (∀ c ∈ p, c ≠ ',' ∧ c ≠ '#' ∧ c ≠ '\n') → okPattern p := fun p h1 h2 h3 => ⟨tight_of_ends h1 h2, h3⟩
    intro i hi
    simp only [sampleCfg, List.mem_cons, List.not_mem_nil, or_false] at hi
    rcases hi with rfl | rfl | rfl | rfl
    · refine ⟨by simp, ?_, by simp, ?_, by simp, by simp⟩
      · intro p hp
        simp only [List.mem_cons, List.not_mem_nil, or_false] at hp
        rcases hp with rfl | rfl <;> exact pat _ (by decide) (by decide) (by decide)
      · show noHashNl _; unfold noHashNl; decide
    · refine ⟨by unfold noHashNl; decide, ?_⟩
      intro r hr
      simp only [List.mem_cons, List.not_mem_nil, or_false] at hr
      rcases hr with rfl | rfl
      · refine ⟨by simp, ?_, by simp, ?_, ?_, by simp⟩
        · intro p hp
          simp only [List.mem_cons, List.not_mem_nil, or_false] at hp
          rcases hp with rfl; exact pat _ (by decide) (by decide) (by decide)
        · refine ⟨by simp, ?_⟩
          intro t ht
          simp only [List.mem_cons, List.not_mem_nil, or_false] at ht
          rcases ht with rfl | rfl <;> (unfold okTarget; decide)
        · intro w hw; cases hw; unfold noHashNl; decide
      · refine ⟨by simp, ?_, by simp, ?_, by simp, by simp⟩
        · intro p hp
          simp only [List.mem_cons, List.not_mem_nil, or_false] at hp
          rcases hp with rfl; exact pat _ (by decide) (by decide) (by decide)
        · show noHashNl _; unfold noHashNl; decide
    · refine ⟨by simp, ?_, by simp, trivial, ?_, by simp⟩
      · intro p hp
        simp only [List.mem_cons, List.not_mem_nil, or_false] at hp
        rcases hp with rfl; exact pat _ (by decide) (by decide) (by decide)
      · intro w hw; cases hw; unfold noHashNl; decide
    · refine ⟨by simp, ?_, by simp, ?_, by simp, by simp⟩
      · intro p hp
        simp only [List.mem_cons, List.not_mem_nil, or_false] at hp
        rcases hp with rfl; exact pat _ (by decide) (by decide) (by decide)
      · show noHashNl _; unfold noHashNl; decide

/-- The sample model written with the plain layout loads into its normal form … -/
example (fs : FS) (file : Str) :
    load fs (renderTree sampleCfg.toTree plainLayout) file = .ok sampleCfg.normalise :=
  load_config_roundtrip fs file sampleCfg plainLayout (sampleCfg_wf fs) plainLayout_ok

/-- … which has the written values, the defaults for what was omitted, and hosts and routes in file
order (five routes on the default host from three `route` sections, two in the host). -/
example : sampleCfg.normalise.port = 8080 ∧ sampleCfg.normalise.cacheTime = 0 ∧
    sampleCfg.normalise.logLevel = .info ∧ sampleCfg.normalise.blacklistMode = .forbidden ∧
    sampleCfg.normalise.connectionTimeout = some 30 ∧
    sampleCfg.normalise.defaultHost.routes.map (·.routeType) =
      [.directory, .directory, .exclusiveWebSocket, .file] ∧
    sampleCfg.normalise.hosts.map (fun h => h.routes.map (·.routeType)) = [[.proxy, .redirect]] := by
  decide

/-- The empty model is well-formed and denotes the default configuration. -/
example (fs : FS) : ({} : Cfg).WF fs := by
  constructor <;> intros <;> simp_all

/-- A model with a blacklist, over a file system that holds the generated list file. -/
example :
    let ips : List Ip4 := [⟨10, 0, 0, 1⟩, ⟨192, 168, 1, 255⟩]
    let fs : FS := fun q => if q = ['b', 'l'] then .text (blacklistText ips) else .missing
    ({ blacklist := some (['b', 'l'], ips.map Ip4.text), blacklistMode := some .block } : Cfg).WF fs := by
  intro ips fs
  refine ⟨by simp, by simp, by simp, by simp, by simp, ?_, by simp, by simp, by simp, by simp⟩
  intro p l h
  cases h
  refine ⟨by unfold noHashNl; decide, blacklist_file_loads fs _ ips ?_ (by simp [fs])⟩
  intro i hi
  simp only [ips, List.mem_cons, List.not_mem_nil, or_false] at hi
  rcases hi with rfl | rfl <;> (unfold Ip4.ok; decide)

/-- `port 70000` is rejected with the port error; `threads 0` with the zero-threads error. -/
example (fs : FS) :
    fromTree fs (.section "server".toList [.number ['p', 'o', 'r', 't'] ['7', '0', '0', '0', '0']]) = .err .port := by
  refine bad_port_rejected fs _ ⟨.number ['p', 'o', 'r', 't'] ['7', '0', '0', '0', '0'], ?_, by decide⟩
  simp [flattenNode, flattenList, joinDots, Map.get, k]

example (fs : FS) :
    fromTree fs (.section "server".toList [.number ['t', 'h', 'r', 'e', 'a', 'd', 's'] ['0']]) = .err .threadsZero := by
  refine zero_threads_rejected fs _ (.number ['t', 'h', 'r', 'e', 'a', 'd', 's'] ['0']) ?_ ?_ ?_ (by decide)
  · intro n h; simp [flattenNode, flattenList, joinDots, Map.get, k] at h
  · intro n h; simp [flattenNode, flattenList, joinDots, Map.get, k] at h
  · simp [flattenNode, flattenList, joinDots, Map.get, k]

end Humphrey.Conf
