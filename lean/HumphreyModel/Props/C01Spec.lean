import HumphreyModel.Proofs.HttpMsgLoop
import HumphreyModel.Proofs.HttpMsgReq

/-!
# C01 — the connection loop meets its executable specification on ALL inputs

Model: `Model/Conn.lean` (`serve`, the loop of `client_handler`). Spec: `Spec/Conn.lean`
(`checkConn`, the clauses of the property evaluated on what was written). Helper lemmas:
`Proofs/HttpMsgConn.lean` (what `respond` writes), `Proofs/HttpMsgConnSpec.lean`
(`checkResponse` accepts it), `Proofs/HttpMsgLoop.lean` (lockstep induction).

Hypotheses (all are the property's own restriction on its targets, see `CfgOk`, `HandlerOk`,
`ReqOk` in `Proofs/HttpMsgConn.lean`):

* `CfgOk cfg` — every response a handler returns has a status the code knows, well-formed headers
  (token names, values without CR/LF or leading SP/TAB), a body whose length is a `usize`, and sets
  none of Content-Length / Access-Control-Allow-{Origin,Methods,Headers} itself (Connection, Date
  and Server MAY be set by the handler: the spec only asks that Date and Server be present); the
  CORS values of the routes and the clock text `cfg.now` are well-formed header values.
* `hcr` — no request that parses from a suffix of the client byte stream has a bare CR (a CR not
  followed by LF) inside its version or inside its `Connection` value (`NoBareCR`,
  `Proofs/HttpMsgReq.lean`). Everything else the response echoes is guaranteed by parsing and
  PROVED (`parseRequest_reqOk`): version non-empty without SP and LF, `Connection` value without LF
  and without leading SP/TAB. The bare CR is real: `GET / A\rB\r\n` is accepted with version
  `A\rB` and `Connection: x\ry` with value `x\ry`; both are echoed into the response, which the
  strict recogniser then rejects. So without `hcr` the statement is FALSE.

The unrestricted statement (kept visible, not provable):

    theorem serve_meets_spec_all (cfg) (s) (hcfg : CfgOk cfg) :
      Spec.checkConn cfg readerIdle s (serve readerSource readerIdle cfg s).written
        (decide ((serve readerSource readerIdle cfg s).disposition = .handlerPanicked))
        ∈ [none, some "crlf-after-body"]
-/
namespace Humphrey.Http
open Humphrey Humphrey.Bytes Humphrey.IO

/-- (Form with the full `ReqOk` hypothesis.) **The loop meets its executable specification**, for every client stream, every segmentation
into reads and every placement of pauses: `checkConn` run on what `serve` wrote (and on whether it
ended in a handler panic) finds no violated clause other than the recorded CRLF pad after non-empty
bodies. All branches are covered: 408 on idle, 400/408 on parse errors, disconnects, parser panic,
WebSocket hand-off, OPTIONS, unrouted 404, handler responses, handler panics, keep-alive
continuation and close. -/
theorem serve_meets_spec_of_reqOk {κ ω : Type} (cfg : ConnCfg κ ω) (s : Reader) (hcfg : CfgOk cfg)
    (hreq : ∀ (b : Bytes) (req : Request) (b' : Bytes), b <:+ s.rest →
      parseRequest flatSource cfg.env b = .ok (req, b') → ReqOk req) :
    Spec.checkConn cfg readerIdle s (serve readerSource readerIdle cfg s).written
      (decide ((serve readerSource readerIdle cfg s).disposition = .handlerPanicked))
      ∈ [none, some "crlf-after-body"] := by
  have hreq' : ∀ (t : Reader) (req : Request) (t' : Reader), t.rest <:+ s.rest →
      parseRequest readerSource cfg.env t = .ok (req, t') → ReqOk req := by
    intro t req t' hsuf hp
    rcases OutRel.elim' (parseRequest_sim reader_flat_sim cfg.env t t.rest rfl) with
      ⟨a, t₁, t₂, e₁, e₂, _⟩ | ⟨e, e₁, _⟩ | ⟨e₁, _⟩
    · rw [hp] at e₁
      simp only [Outcome.ok.injEq, Prod.mk.injEq] at e₁
      obtain ⟨rfl, rfl⟩ := e₁
      exact hreq _ _ _ hsuf e₂
    · rw [hp] at e₁; cases e₁
    · rw [hp] at e₁; cases e₁
  obtain ⟨out, ho1, ho2⟩ := loop_meets_spec cfg hcfg s.rest hreq' (s.rest.length + 1) (s.rest.length + 2)
    s [] [] false (List.suffix_refl _) (by omega) (by omega)
  have e : (serve readerSource readerIdle cfg s) =
      serveLoop readerSource readerIdle cfg (s.rest.length + 1) s [] [] := rfl
  rw [e, ho1, Spec.checkConn]
  simp only [List.nil_append, List.mem_cons, List.not_mem_nil, or_false]
  exact ho2

/-- **The loop meets its executable specification** for every client stream, every segmentation
into reads and every placement of pauses, under the one hypothesis parsing cannot discharge: no
bare CR in an echoed version / `Connection` value. -/
theorem serve_meets_spec {κ ω : Type} (cfg : ConnCfg κ ω) (s : Reader) (hcfg : CfgOk cfg)
    (hcr : ∀ (b : Bytes) (req : Request) (b' : Bytes), b <:+ s.rest →
      parseRequest flatSource cfg.env b = .ok (req, b') → NoBareCR req) :
    Spec.checkConn cfg readerIdle s (serve readerSource readerIdle cfg s).written
      (decide ((serve readerSource readerIdle cfg s).disposition = .handlerPanicked))
      ∈ [none, some "crlf-after-body"] :=
  serve_meets_spec_of_reqOk cfg s hcfg
    (fun b req b' hb hp => parseRequest_reqOk cfg.env b req b' hp (hcr b req b' hb hp))

/-- Corollary for a stream without pauses, cut into reads in any way. -/
theorem serve_meets_spec_any_segmentation {κ ω : Type} (cfg : ConnCfg κ ω) (reads : List Bytes)
    (hcfg : CfgOk cfg)
    (hcr : ∀ (b : Bytes) (req : Request) (b' : Bytes), b <:+ reads.flatten →
      parseRequest flatSource cfg.env b = .ok (req, b') → NoBareCR req) :
    Spec.checkConn cfg readerIdle ⟨[], reads⟩ (serve readerSource readerIdle cfg ⟨[], reads⟩).written
      (decide ((serve readerSource readerIdle cfg ⟨[], reads⟩).disposition = .handlerPanicked))
      ∈ [none, some "crlf-after-body"] :=
  serve_meets_spec cfg ⟨[], reads⟩ hcfg (by simpa [Reader.rest] using hcr)

/-! ## Non-vacuity: a configuration that satisfies `CfgOk` -/

/-- One route `*` with wildcard CORS whose handler answers `200 OK`, body `x`, one custom header. -/
def sampleCfg : ConnCfg Unit Unit where
  app := ⟨[], ⟨[], [⟨['*'], (), { origins := none, methods := some [.get], headers := some [] }⟩], []⟩⟩
  run := fun _ _ => .response ⟨http11, 200, [⟨⟨[120, 45, 97]⟩, [118]⟩], [120]⟩
  decode := fun b => b.map (fun c => Char.ofNat c.toNat)
  env := ⟨[49], 80, fun _ => none⟩
  now := [110, 111, 119]
  timeout := true

theorem sampleCfg_ok : CfgOk sampleCfg := by
  refine ⟨?_, ?_, ⟨HName.wf_known hDate (by decide), by decide, by intro b t e; cases e; decide⟩⟩
  · intro k req r hr
    simp only [sampleCfg, HandlerResult.response.injEq] at hr
    subst hr
    refine ⟨by decide, ?_, by decide, by decide, by decide, by decide, by decide⟩
    intro h hh
    simp only [List.mem_cons, List.not_mem_nil, or_false] at hh
    subst hh
    exact ⟨HName.wf_of_lower _ (by decide) (by decide) (by decide), by decide,
      by intro b t e; cases e; decide⟩
  · intro host path e he h hh
    have hmem : e = ⟨['*'], (), { origins := none, methods := some [.get], headers := some [] }⟩ := by
      simp only [getHandler, sampleCfg, List.find?_nil] at he
      cases host with
      | none =>
        simp only [List.find?_cons] at he
        split at he
        · simp at he; exact he.symm
        · simp at he
      | some hst =>
        simp only [List.find?_cons] at he
        split at he
        · simp at he; exact he.symm
        · simp at he
    subst hmem
    simp only [setHeaders_nil, corsA, corsB, corsC, List.isEmpty_cons, List.isEmpty_nil,
      Bool.false_eq_true, if_false, if_true, List.append_nil, List.mem_append, List.mem_cons,
      List.not_mem_nil, or_false] at hh
    rcases hh with rfl | rfl
    · exact ⟨HName.wf_known hAcao (by decide), by decide, by intro b t e; cases e; decide⟩
    · exact ⟨HName.wf_known hAcam (by decide), by decide, by intro b t e; cases e; decide⟩

/-- Bool form of `NoBareCR` on a parse outcome (`true` when nothing parsed). -/
def cleanOutcome (o : Outcome ReqErr (Request × Bytes)) : Bool :=
  match o with
  | .ok (req, _) =>
    req.version.all (· != 13) &&
      (match req.headers.get hConnection with
       | some c => c.all (· != 13)
       | none => true)
  | _ => true

theorem cleanOutcome_noBareCR {req : Request} {b' : Bytes}
    (h : cleanOutcome (.ok (req, b')) = true) : NoBareCR req := by
  simp only [cleanOutcome, Bool.and_eq_true, List.all_eq_true, bne_iff_ne, ne_eq] at h
  refine ⟨h.1, ?_⟩
  intro c hc
  have h2 := h.2
  rw [hc] at h2
  simpa [List.all_eq_true] using h2

/-- `GET / HTTP/1.1\r\nConnection: keep-alive\r\n\r\n` -/
def sampleStream : Bytes :=
  [71, 69, 84, 32, 47, 32, 72, 84, 84, 80, 47, 49, 46, 49, 13, 10,
   67, 111, 110, 110, 101, 99, 116, 105, 111, 110, 58, 32, 107, 101, 101, 112, 45, 97, 108, 105, 118, 101, 13, 10,
   13, 10]

/-- No suffix of the sample stream parses to a request with a bare CR (checked on all 43 suffixes). -/
theorem sampleStream_clean :
    ∀ k, k < 43 → cleanOutcome (parseRequest flatSource sampleCfg.env (sampleStream.drop k)) = true := by
  decide

/-- The sample stream does parse to a request (so the hypothesis `hcr` below is exercised, not
vacuous): version `HTTP/1.1`. -/
example : ∃ req b', parseRequest flatSource sampleCfg.env sampleStream = .ok (req, b') ∧
    req.version = [72, 84, 84, 80, 47, 49, 46, 49] ∧ b' = [] :=
  ⟨_, _, rfl, rfl, rfl⟩

/-- Non-vacuity on a non-empty stream: one keep-alive GET request, routed to the handler of
`sampleCfg`, delivered in two reads with a pause past the timeout afterwards. -/
example : Spec.checkConn sampleCfg readerIdle ⟨[], [sampleStream.take 5, sampleStream.drop 5, []]⟩
    (serve readerSource readerIdle sampleCfg ⟨[], [sampleStream.take 5, sampleStream.drop 5, []]⟩).written
    (decide ((serve readerSource readerIdle sampleCfg
      ⟨[], [sampleStream.take 5, sampleStream.drop 5, []]⟩).disposition = .handlerPanicked))
    ∈ [none, some "crlf-after-body"] := by
  apply serve_meets_spec sampleCfg _ sampleCfg_ok
  intro b req b' hb hp
  have hrest : (⟨[], [sampleStream.take 5, sampleStream.drop 5, []]⟩ : Reader).rest = sampleStream := by
    simp [Reader.rest]
  rw [hrest] at hb
  have hk := List.suffix_iff_eq_drop.mp hb
  have := sampleStream_clean (sampleStream.length - b.length)
    (by have : sampleStream.length = 42 := rfl
        omega)
  rw [← hk, hp] at this
  exact cleanOutcome_noBareCR this

/-- The hypothesis on requests holds for the empty stream (nothing parses from it). -/
example : Spec.checkConn sampleCfg readerIdle ⟨[], []⟩
    (serve readerSource readerIdle sampleCfg ⟨[], []⟩).written
    (decide ((serve readerSource readerIdle sampleCfg ⟨[], []⟩).disposition = .handlerPanicked))
    ∈ [none, some "crlf-after-body"] := by
  apply serve_meets_spec_of_reqOk sampleCfg ⟨[], []⟩ sampleCfg_ok
  intro b req b' hb hp
  have : b = [] := by simpa [Reader.rest] using hb
  subst this
  simp [parseRequest, flatSource, flatReadExact] at hp

end Humphrey.Http
