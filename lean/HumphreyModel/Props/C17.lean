import HumphreyModel.Proofs.AuthCor

/-!
# C17 — passwords and session tokens authenticate exactly their owner, only while valid

Property theorems only. Model: `Model/Auth.lean` (`database.rs`, `session.rs`, `user.rs`, `lib.rs`,
`app.rs::with_auth_route` of humphrey-auth, after the repair of `refresh_session`).
Spec: `Spec/Auth.lean` (token map `Token → Option (Uid × Expiry)`, password map `Uid → Option Password`).

All theorems hold for every type of uids, tokens, passwords, salts, peppers and hashes, every
`HashScheme` satisfying the contract `Lawful`, every configuration, every database size, every operation
sequence of any length and every clock. `Rel hs cfg db a` ("`db` represents `a`") holds of the empty
database and of every pre-populated one (`rel_init`) and is preserved by every operation
(`refinement_step`, `refinement_run`), so the corollaries stated for related states hold in every reachable
state.

The refinement is stated as a forward simulation `Rel`, not as a function `abs`, for one reason only: the
password a stored hash was made from cannot be computed from the hash. The token half *is* a function:
`refinement_step_tokens` is literally `absSess (step db op now).1 = (Spec.step (…) op now).1.sess`.
-/
namespace Humphrey.Auth
set_option linter.unusedSectionVars false
set_option linter.unusedVariables false

section
variable {U T H P S Pep : Type} [DecidableEq U] [DecidableEq T] [DecidableEq P]
variable {hs : HashScheme P S Pep H} {cfg : Config Pep} {db : Db U T H} {a : Spec.State U T P}

/-! ## Refinement -/

/-- The empty database represents the empty maps. -/
theorem rel_empty (hs : HashScheme P S Pep H) (cfg : Config Pep) :
    Rel hs cfg ([] : Db U T H) (Spec.empty : Spec.State U T P) where
  uids := List.Pairwise.nil
  sess u t e := by simp [sessOf, getUserByUid, Spec.empty]
  pwNone u _ := rfl
  pwSome u p h := by simp [Spec.empty] at h
  drawnT t u e h := by simp [Spec.empty] at h
  drawnU u p h := by simp [Spec.empty] at h

/-- A database of session-less users `(uid, password, salt)` hashed with the configured pepper … -/
def initDb (hs : HashScheme P S Pep H) (cfg : Config Pep) (init : List (U × P × S)) : Db U T H :=
  init.map (fun x => { uid := x.1, pwHash := hs.hash x.2.1 x.2.2 cfg.pepper, session := none })

/-- … and the abstract state it stands for: those users with those passwords, no tokens. -/
def initSpec (init : List (U × P × S)) : Spec.State U T P :=
  { pw := fun u => (init.find? (fun x => decide (x.1 = u))).map (·.2.1), sess := fun _ => none,
    drawnUids := init.map (·.1), drawnToks := [] }

/-- Every pre-populated database with pairwise distinct uids (any number of users) represents its
abstract state — the starting point of the pool-based correspondence runs. -/
theorem rel_init (hs : HashScheme P S Pep H) (cfg : Config Pep) (init : List (U × P × S))
    (hd : (init.map (·.1)).Pairwise (· ≠ ·)) :
    Rel hs cfg (initDb hs cfg init : Db U T H) (initSpec init : Spec.State U T P) := by
  have hget : ∀ u, getUserByUid (initDb hs cfg init : Db U T H) u =
      (init.find? (fun x => decide (x.1 = u))).map
        (fun x => { uid := x.1, pwHash := hs.hash x.2.1 x.2.2 cfg.pepper, session := none }) := by
    intro u
    unfold getUserByUid initDb
    rw [List.find?_map]
    rfl
  refine ⟨?_, ?_, ?_, ?_, ?_, ?_⟩
  · rw [uidsDistinct_iff]
    have : (initDb hs cfg init : Db U T H).map (·.uid) = init.map (·.1) := by
      simp [initDb, List.map_map, Function.comp_def]
    rw [this]; exact hd
  · intro u t e
    have : sessOf (initDb hs cfg init : Db U T H) u = none := by
      unfold sessOf
      rw [hget u]
      cases init.find? (fun x => decide (x.1 = u)) <;> simp
    rw [this]; simp [initSpec]
  · intro u h
    rw [hget u]
    simp only [initSpec, Option.map_eq_none_iff] at h
    rw [h]; rfl
  · intro u p h
    simp only [initSpec, Option.map_eq_some_iff] at h
    obtain ⟨x, hx, hp⟩ := h
    refine ⟨_, x.2.2, by rw [hget u, hx]; rfl, by simp [hp]⟩
  · intro t u e h; simp [initSpec] at h
  · intro u p h
    simp only [initSpec, Option.map_eq_some_iff] at h
    obtain ⟨x, hx, _⟩ := h
    have h1 := List.mem_of_find?_eq_some hx
    have h2 : x.1 = u := by simpa using List.find?_some hx
    exact List.mem_map.mpr ⟨x, h1, h2⟩

/-- **Refinement, one step.** From related states, every `AuthProvider` operation (and a request on the
authenticated route) returns what the abstract specification returns and leads to related states.
`FreshOp`: a token drawn by the operation has not been drawn before (needed by the two session-creating
calls only). -/
theorem refinement_step (hl : hs.Lawful) (hr : Rel hs cfg db a) (op : Op U T P S) (now : Nat)
    (hf : Spec.FreshOp a.drawnUids a.drawnToks op) :
    Rel hs cfg (step hs cfg db op now).1
      (Spec.step cfg.defaultLifetime cfg.defaultRefreshLifetime a op now).1 ∧
    (step hs cfg db op now).2 = (Spec.step cfg.defaultLifetime cfg.defaultRefreshLifetime a op now).2 := by
  cases op with
  | createUser p s u => exact sim_createUser hr _ _ now p s u
  | removeUser u => exact sim_removeUser hr _ _ now u
  | verify u p => exact ⟨hr, by simp only [step, Spec.step, sim_verify hl hr u p]⟩
  | userExists u => exact ⟨hr, by simp only [step, Spec.step, sim_exists hr u]⟩
  | createSession u t => exact sim_issue hr u _ t now hf
  | createSessionWithLifetime u l t => exact sim_issue hr u l t now hf
  | refreshSession t => exact sim_refresh hr _ rfl _ t now
  | invalidateSession t => exact sim_invalidateSession hr _ _ t now
  | invalidateUserSession u => exact sim_invalidateUserSession hr _ _ u now
  | getUidByToken t => exact ⟨hr, sim_getUidByToken hr t now⟩
  | authRoute c => exact ⟨hr, sim_authRoute hr c now⟩

/-- The token half of the refinement as an equation between functions:
`abs (step s op now) = specStep (abs s) op now` on the token map. -/
theorem refinement_step_tokens (hl : hs.Lawful) (hr : Rel hs cfg db a) (op : Op U T P S) (now : Nat)
    (hf : Spec.FreshOp a.drawnUids a.drawnToks op) :
    absSess (step hs cfg db op now).1 =
      (Spec.step cfg.defaultLifetime cfg.defaultRefreshLifetime a op now).1.sess :=
  funext fun t => (refinement_step hl hr op now hf).1.absSess_eq t

/-- **Refinement, whole histories** (any length, any clock values): the model's outputs are the
specification's outputs, step for step, and the final states are related. -/
theorem refinement_run (hl : hs.Lawful) : ∀ (ops : List (Op U T P S × Nat)) (db : Db U T H)
    (a : Spec.State U T P), Rel hs cfg db a → Spec.Fresh a.drawnUids a.drawnToks ops →
    Rel hs cfg (run hs cfg db ops).1
      (Spec.run cfg.defaultLifetime cfg.defaultRefreshLifetime a ops).1 ∧
    (run hs cfg db ops).2 = (Spec.run cfg.defaultLifetime cfg.defaultRefreshLifetime a ops).2
  | [], db, a, hr, _ => ⟨hr, rfl⟩
  | (op, now) :: rest, db, a, hr, hf => by
    have h1 := refinement_step hl hr op now hf.1
    have hdr := spec_step_drawn cfg.defaultLifetime cfg.defaultRefreshLifetime a op now
    have h2 := refinement_run hl rest _ _ h1.1 (by rw [hdr.1, hdr.2]; exact hf.2)
    exact ⟨h2.1, by simp only [run, Spec.run, h1.2, h2.2]⟩

/-! ## Corollaries (for every reachable = related state) -/

/-- **A password verifies only for the user created with it**: `verify(uid, pw)` is true exactly when
`uid` exists and was created with `pw`. -/
theorem verify_only_owner (hl : hs.Lawful) (hr : Rel hs cfg db a) (u : U) (p : P) :
    verifyPw hs cfg db u p = true ↔ a.pw u = some p := by
  rw [sim_verify hl hr u p]; simp

/-- **A token authenticates exactly the user it was issued to, only while valid**: `get_uid_by_token`
answers `Ok(u)` exactly when the token map sends `tok` to `u` (issued to `u`, not invalidated, `u` not
removed, not replaced by a newer session) and `now` is before its expiry. -/
theorem token_authenticates_exactly_owner_while_valid (hr : Rel hs cfg db a) (tok : T) (now : Nat) (u : U) :
    getUidByToken db tok now = .uid u ↔ ∃ e, a.sess tok = some (u, e) ∧ now < e := by
  rw [sim_getUidByToken hr tok now]
  unfold Spec.live
  cases hs' : a.sess tok with
  | none => simp
  | some ue =>
    obtain ⟨u', e⟩ := ue
    by_cases h : now < e
    · simp [h]
      constructor
      · intro hu; exact ⟨e, ⟨hu, rfl⟩, h⟩
      · rintro ⟨_, ⟨hu, _⟩, _⟩; exact hu
    · simp [h]
      intro _; exact Nat.le_of_not_lt h

/-- … and in every other case it answers `InvalidToken` (it never panics). -/
theorem token_rejected_otherwise (hr : Rel hs cfg db a) (tok : T) (now : Nat)
    (h : ¬ ∃ u e, a.sess tok = some (u, e) ∧ now < e) : getUidByToken db tok now = .err .invalidToken := by
  rw [sim_getUidByToken hr tok now]
  unfold Spec.live
  cases hs' : a.sess tok with
  | none => rfl
  | some ue =>
    obtain ⟨u', e⟩ := ue
    by_cases hlt : now < e
    · exact absurd ⟨u', e, hs', hlt⟩ h
    · simp [hlt]

/-- **At most one live session per user**: two tokens that authenticate the same user at the same time
are the same token. -/
theorem at_most_one_live_session (hr : Rel hs cfg db a) (t1 t2 : T) (now : Nat) (u : U)
    (h1 : getUidByToken db t1 now = .uid u) (h2 : getUidByToken db t2 now = .uid u) : t1 = t2 := by
  obtain ⟨e1, hs1, _⟩ := (token_authenticates_exactly_owner_while_valid hr t1 now u).mp h1
  obtain ⟨e2, hs2, _⟩ := (token_authenticates_exactly_owner_while_valid hr t2 now u).mp h2
  have a1 := (hr.sess u t1 e1).mpr hs1
  have a2 := (hr.sess u t2 e2).mpr hs2
  rw [a1] at a2
  simpa using (congrArg (·.map Prod.fst) a2)

/-- The three statements above with the quantification over histories spelled out: start from any
pre-populated database (or the empty one), run **any** operation sequence with fresh draws at **any**
clock values; then password checks and token lookups answer exactly what the abstract maps say. -/
theorem owner_only_after_any_history (hl : hs.Lawful) (init : List (U × P × S))
    (hd : (init.map (·.1)).Pairwise (· ≠ ·)) (ops : List (Op U T P S × Nat))
    (hf : Spec.Fresh (init.map (·.1)) [] ops) (now : Nat) :
    let db : Db U T H := (run hs cfg (initDb hs cfg init) ops).1
    let a : Spec.State U T P :=
      (Spec.run cfg.defaultLifetime cfg.defaultRefreshLifetime (initSpec init) ops).1
    (∀ u p, verifyPw hs cfg db u p = true ↔ a.pw u = some p) ∧
    (∀ tok u, getUidByToken db tok now = .uid u ↔ ∃ e, a.sess tok = some (u, e) ∧ now < e) ∧
    (∀ t1 t2 u, getUidByToken db t1 now = .uid u → getUidByToken db t2 now = .uid u → t1 = t2) := by
  have hr := (refinement_run (cfg := cfg) hl ops _ _ (rel_init hs cfg init hd) hf).1
  exact ⟨fun u p => verify_only_owner hl hr u p,
    fun tok u => token_authenticates_exactly_owner_while_valid hr tok now u,
    fun t1 t2 u h1 h2 => at_most_one_live_session hr t1 t2 now u h1 h2⟩

/-- The tokens returned by the operations of a history, in order. -/
def outToks : List (Out U T) → List T
  | [] => []
  | .tok t :: rest => t :: outToks rest
  | _ :: rest => outToks rest

/-- **Tokens never repeat** (from `Fresh`): the tokens handed out during a history are pairwise distinct
and differ from every token drawn before it. -/
theorem tokens_never_repeat (hs : HashScheme P S Pep H) (cfg : Config Pep) :
    ∀ (ops : List (Op U T P S × Nat)) (db : Db U T H) (du : List U) (dt : List T), Spec.Fresh du dt ops →
    (outToks (run hs cfg db ops).2).Nodup ∧ ∀ t ∈ outToks (run hs cfg db ops).2, t ∉ dt
  | [], _, _, _, _ => ⟨List.nodup_nil, by simp [run, outToks]⟩
  | (op, now) :: rest, db, du, dt, hf => by
    have ih := tokens_never_repeat hs cfg rest (step hs cfg db op now).1 _ _ hf.2
    simp only [run]
    cases hout : (step hs cfg db op now).2 with
    | tok t =>
      have hdraw := step_tok hs cfg db op now t hout dt
      rw [hdraw] at ih
      have hft : t ∉ dt := by
        have h1 := hf.1
        cases op <;> simp_all [Spec.drawT, Spec.FreshOp]
      simp only [outToks, List.nodup_cons, List.mem_cons]
      refine ⟨⟨fun hmem => (ih.2 t hmem) List.mem_cons_self, ih.1⟩, ?_⟩
      rintro t' (rfl | hmem)
      · exact hft
      · exact fun hd => ih.2 t' hmem (List.mem_cons_of_mem _ hd)
    | unit | bool _ | uid _ | err _ | panic | http200 _ | http401 =>
      simp only [outToks]
      refine ⟨ih.1, fun t' hmem hd => ih.2 t' hmem ?_⟩
      cases op <;> simp [Spec.drawT, hd]

/-- **An expired or unknown token is rejected by every operation, including refresh, and nothing
changes.** `refresh_session`, `get_uid_by_token` and the authenticated route answer `InvalidToken` /
`401` and leave the database exactly as it was. `invalidate_session` (which returns `()` in every case)
at most forgets the dead entry: afterwards every token authenticates whom it authenticated before, at
every later time, and the users are the same. -/
theorem expired_or_unknown_rejected_by_all (hr : Rel hs cfg db a) (tok : T) (now : Nat)
    (hdead : ∀ u e, a.sess tok = some (u, e) → e ≤ now) :
    refreshSession cfg db tok now = (db, .err .invalidToken) ∧
    getUidByToken db tok now = .err .invalidToken ∧
    authRoute db (some tok) now = .http401 ∧
    (invalidateSession db tok).2 = .unit ∧
    (∀ t' now', now ≤ now' →
      getUidByToken (invalidateSession db tok).1 t' now' = getUidByToken db t' now') ∧
    (∀ u, userExists (invalidateSession db tok).1 u = userExists db u) := by
  have hget : getUidByToken db tok now = .err .invalidToken := by
    apply token_rejected_otherwise hr tok now
    rintro ⟨u, e, hs', hlt⟩
    exact absurd hlt (Nat.not_lt.mpr (hdead u e hs'))
  have hrefresh : refreshSession cfg db tok now = (db, .err .invalidToken) := by
    rcases hr.lookupTok tok with ⟨h1, _⟩ | ⟨x, e, h1, h2, h3, _⟩
    · simp [refreshSession, h1]
    · have hnlt : ¬ now < e := Nat.not_lt.mpr (hdead _ _ h3)
      simp [refreshSession, h1, h2, sessionValid, hnlt]
  have hsim := sim_invalidateSession (S := S) hr 0 0 tok now
  refine ⟨hrefresh, hget, by simp [authRoute, hget], ?_, ?_, ?_⟩
  · rw [hsim.2]; rfl
  · intro t' now' hle
    rw [sim_getUidByToken hsim.1 t' now', sim_getUidByToken hr t' now']
    have : Spec.live (Spec.step 0 0 a (.invalidateSession tok : Op U T P S) now).1 now' t' =
        Spec.live a now' t' := by
      show Spec.live { a with sess := Spec.upd a.sess tok none } now' t' = _
      unfold Spec.live
      simp only [Spec.upd]
      by_cases ht : t' = tok
      · subst ht
        simp only [if_true]
        cases hs' : a.sess t' with
        | none => rfl
        | some ue =>
          obtain ⟨u, e⟩ := ue
          have : ¬ now' < e := Nat.not_lt.mpr (Nat.le_trans (hdead u e hs') hle)
          simp [this]
      · simp [ht]
    rw [this]
  · intro u
    rw [sim_exists hsim.1 u, sim_exists hr u]; rfl

/-- **A dead token is dead for good.** Once a drawn token is absent from the token map (invalidated,
owner removed, replaced) or expired, then after any further history (fresh draws, clock not going back) every
operation that takes it still rejects it, at every later time. -/
theorem dead_token_rejected_forever (hl : hs.Lawful) (hr : Rel hs cfg db a) (tok : T) (now : Nat)
    (hd : Dead a tok now) (ops : List (Op U T P S × Nat)) (hm : Monotone now ops)
    (hf : Spec.Fresh a.drawnUids a.drawnToks ops) (now' : Nat) (hle : lastClock now ops ≤ now') :
    let db' := (run hs cfg db ops).1
    refreshSession cfg db' tok now' = (db', .err .invalidToken) ∧
    getUidByToken db' tok now' = .err .invalidToken ∧
    authRoute db' (some tok) now' = .http401 := by
  have hrun := refinement_run hl ops db a hr hf
  have hdead := dead_run cfg.defaultLifetime cfg.defaultRefreshLifetime ops a tok now hd hm hf
  have h := expired_or_unknown_rejected_by_all hrun.1 tok now'
    (fun u e hs' => Nat.le_trans (hdead.2 u e hs') hle)
  exact ⟨h.1, h.2.1, h.2.2.1⟩

/-- **Removing a user kills its token**: if `tok` belonged to `u` and `remove_user(u)` succeeds, then `tok`
is rejected by everything, for ever. -/
theorem removed_user_token_dead (hl : hs.Lawful) (hr : Rel hs cfg db a) (tok : T) (u : U) (e now : Nat)
    (hown : a.sess tok = some (u, e)) (hrem : (removeUserOp db u).2 = .unit)
    (ops : List (Op U T P S × Nat)) (hm : Monotone now ops)
    (hf : Spec.Fresh a.drawnUids a.drawnToks ops) (now' : Nat) (hle : lastClock now ops ≤ now') :
    let db' := (run hs cfg (removeUserOp db u).1 ops).1
    refreshSession cfg db' tok now' = (db', .err .invalidToken) ∧
    getUidByToken db' tok now' = .err .invalidToken ∧
    authRoute db' (some tok) now' = .http401 := by
  have hsim := sim_removeUser (S := S) hr cfg.defaultLifetime cfg.defaultRefreshLifetime now u
  have hex : a.pw u ≠ none := by
    intro hnone
    have := hsim.2
    rw [hrem] at this
    simp [Spec.step, hnone] at this
  have hstate : (Spec.step cfg.defaultLifetime cfg.defaultRefreshLifetime a (.removeUser u : Op U T P S) now).1 =
      { a with pw := Spec.upd a.pw u none, sess := Spec.dropSessionsOf a u } := by
    cases hp : a.pw u with
    | none => exact absurd hp hex
    | some p => simp [Spec.step, hp]
  have hd : Dead (Spec.step cfg.defaultLifetime cfg.defaultRefreshLifetime a (.removeUser u : Op U T P S) now).1
      tok now := by
    rw [hstate]
    refine ⟨hr.drawnT tok u e hown, ?_⟩
    intro u' e' h
    change Spec.dropSessionsOf a u tok = some (u', e') at h
    simp [Spec.dropSessionsOf, hown] at h
  have hf' : Spec.Fresh
      (Spec.step cfg.defaultLifetime cfg.defaultRefreshLifetime a (.removeUser u : Op U T P S) now).1.drawnUids
      (Spec.step cfg.defaultLifetime cfg.defaultRefreshLifetime a (.removeUser u : Op U T P S) now).1.drawnToks
      ops := by
    rw [hstate]; exact hf
  exact dead_token_rejected_forever hl hsim.1 tok now hd ops hm hf' now' hle

/-- **The authenticated route answers 401 unless the cookie is a live token**, and otherwise runs the
handler with the owner's uid (the model's handler answers 200 with the uid it was given); the request
changes nothing (`step … (.authRoute c)` returns the database it was given, by definition). -/
theorem auth_route_401_unless_live_token (hr : Rel hs cfg db a) (c : Option T) (now : Nat) :
    (∀ u, authRoute db c now = .http200 u ↔ ∃ tok e, c = some tok ∧ a.sess tok = some (u, e) ∧ now < e) ∧
    ((¬ ∃ tok u e, c = some tok ∧ a.sess tok = some (u, e) ∧ now < e) → authRoute db c now = .http401) := by
  cases c with
  | none => simp [authRoute]
  | some tok =>
    constructor
    · intro u
      rw [sim_authRoute hr (some tok) now]
      simp only [Option.bind_some]
      have := token_authenticates_exactly_owner_while_valid hr tok now u
      rw [sim_getUidByToken hr tok now] at this
      cases hl' : Spec.live a now tok with
      | none => simp [hl'] at this ⊢; exact this
      | some u' => simp [hl'] at this ⊢; exact this
    · intro h
      have := token_rejected_otherwise hr tok now (by
        rintro ⟨u, e, hs', hlt⟩; exact h ⟨tok, u, e, rfl, hs', hlt⟩)
      simp [authRoute, this]

end

/-! ## Non-vacuity: a concrete scheme satisfying the contract and a concrete 8-step history -/

/-- A hash scheme that satisfies the contract (it stores password and pepper). -/
def hsDemo : HashScheme Nat Nat Nat (Nat × Nat × Nat) where
  hash p s pep := (p, s, pep)
  verify h p pep := h.1 == p && h.2.2 == pep

theorem hsDemo_lawful : hsDemo.Lawful := by
  intro p s pep p' pep'
  simp [hsDemo]

def cfgDemo : Config Nat := { defaultLifetime := 3600, defaultRefreshLifetime := 3600, pepper := 1 }

/-- create a user; give it a 10 s session; use it; let it expire; refresh and lookup are refused; a new
session is issued; the user is removed; the route answers 401. -/
def demo : List (Op Nat Nat Nat Nat × Nat) :=
  [ (.createUser 7 0 0, 100), (.createSessionWithLifetime 0 10 0, 100), (.getUidByToken 0, 109),
    (.refreshSession 0, 110), (.getUidByToken 0, 110), (.createSession 0 1, 112),
    (.authRoute (some 1), 113), (.removeUser 0, 113), (.authRoute (some 1), 114) ]

example : (run hsDemo cfgDemo ([] : Db Nat Nat (Nat × Nat × Nat)) demo).2 =
    [.uid 0, .tok 0, .uid 0, .err .invalidToken, .err .invalidToken, .tok 1, .http200 0, .unit, .http401] := by
  decide

example : Spec.Fresh ([] : List Nat) ([] : List Nat) demo := by
  simp [demo, Spec.Fresh, Spec.FreshOp, Spec.drawT]

example : Monotone 100 demo := by simp [demo, Monotone]

/-- The hypotheses of the refinement are satisfiable together, and its conclusion is then not trivial:
the specification's outputs for the history above are the eight non-trivial answers. -/
example : (Spec.run 3600 3600 (Spec.empty : Spec.State Nat Nat Nat) demo).2 =
    [.uid 0, .tok 0, .uid 0, .err .invalidToken, .err .invalidToken, .tok 1, .http200 0, .unit, .http401] :=
  ((refinement_run (cfg := cfgDemo) hsDemo_lawful demo [] Spec.empty (rel_empty hsDemo cfgDemo)
    (by simp [demo, Spec.Fresh, Spec.FreshOp, Spec.drawT, Spec.empty])).2).symm.trans (by decide)

/-- `Dead` is satisfiable: token 0 of the history above, once expired. -/
example : Dead (Spec.run 3600 3600 (Spec.empty : Spec.State Nat Nat Nat) (demo.take 2)).1 0 110 := by
  refine ⟨by decide, ?_⟩
  intro u e h
  have : (Spec.run 3600 3600 (Spec.empty : Spec.State Nat Nat Nat) (demo.take 2)).1.sess 0 = some (0, 110) := by
    decide
  rw [this] at h
  simp at h
  omega

/-! ## The configuration denoted by set-up code

`build` runs the builder methods / `with_config` line by line (`Model/Auth.lean`); `Spec.effective` says what the
set-up code denotes, reading it from the end (last `with_config`; last call per field on that value; defaults
otherwise). They agree for every list of calls, so the refinement above, which holds for EVERY `cfg`, applies with
`dl := (Spec.effective …).lifetime`, `rl := (Spec.effective …).refreshLifetime`. -/
section
variable {Pep : Type}

def Spec.Eff.toConfig (e : Spec.Eff Pep) : Config Pep :=
  { defaultLifetime := e.lifetime, defaultRefreshLifetime := e.refreshLifetime, pepper := e.pepper }

set_option linter.unusedSimpArgs false in
theorem build_back (np : Pep) : ∀ back : List (BCall Pep),
    (back.reverse.foldl (bstep np) { cfg := Config.dflt np, prov := Config.dflt np }).cfg
        = (Spec.fieldsOf np back).toConfig ∧
    (back.reverse.foldl (bstep np) { cfg := Config.dflt np, prov := Config.dflt np }).prov
        = (Spec.effectiveBack np back).toConfig
  | [] => by
    simp [Spec.fieldsOf, Spec.effectiveBack, Spec.Eff.toConfig, Config.dflt]
  | c :: r => by
    obtain ⟨h1, h2⟩ := build_back np r
    rw [List.reverse_cons, List.foldl_append]
    generalize List.foldl (bstep np) _ r.reverse = s at h1 h2 ⊢
    obtain ⟨sc, sp⟩ := s
    simp only at h1 h2
    subst h1 h2
    cases c <;>
      simp [bstep, Spec.fieldsOf, Spec.effectiveBack, Spec.Eff.toConfig, Spec.installs, Spec.startsConfig,
        Spec.asLifetime, Spec.asRefresh, Spec.asPepper, Config.withDefaultLifetime,
        Config.withDefaultRefreshLifetime, Config.withPepper, Config.dflt, List.takeWhile, List.dropWhile,
        List.findSome?]

/-- The builder, run call by call, yields exactly the configuration the set-up code denotes. -/
theorem build_eq_effective (np : Pep) (calls : List (BCall Pep)) :
    build np calls = (Spec.effective np calls).toConfig := by
  have := (build_back np calls.reverse).2
  rw [List.reverse_reverse] at this
  exact this

/-- The order of calls of DIFFERENT builder methods is irrelevant; of the same method the last one wins. -/
example (np : Pep) (a b a' : Nat) (p : Pep) :
    build np [.refreshLifetime b, .defaultLifetime a, .pepper p, .withConfig]
      = build np [.defaultLifetime a', .pepper p, .defaultLifetime a, .refreshLifetime b, .withConfig] := rfl

example : build 0 [.refreshLifetime 7, .defaultLifetime 5, .withConfig] =
    ({ defaultLifetime := 5, defaultRefreshLifetime := 7, pepper := 0 } : Config Nat) := rfl

/-- A configuration that is never installed, or is replaced by a later `with_config`, has no effect. -/
example : build 0 [.defaultLifetime 5, .pepper 2] = Config.dflt 0 := rfl
example : build 0 [.defaultLifetime 5, .pepper 2, .withConfig, .newConfig, .refreshLifetime 7, .withConfig] =
    ({ defaultLifetime := 3600, defaultRefreshLifetime := 7, pepper := 0 } : Config Nat) := rfl

end

end Humphrey.Auth
