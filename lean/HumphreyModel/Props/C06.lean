import HumphreyModel.Proofs.FsServer
import HumphreyModel.Props.C05

/-!
# C06 — static handlers never leave their directory and serve what is inside it intact

Property theorems only. Model: `Model/Fs.lean` (`tryFindPath`, `serveDir`, `serveAsFilePath` — the
REPAIRED handler —, `directoryHandler`, over the world `Node` and the POSIX path walk `walk`).
Spec: `Spec/Fs.lean` (`Descends`, `subtree`, `Inside`, `HasExt`, `ServedIntact`, `indexOf`).

Every theorem is for ALL worlds (any tree, any names — including names such as `..%2f` or `%2e%2e` —
any depth), ALL directory texts and ALL request texts: dot-segments, percent-encodings (single,
double, mixed case, overlong `%c0%ae`), repeated slashes, NUL, backslashes and absolute components
are ordinary values of the universally quantified request.

`dirPath` is the canonical path of the configured directory (`canonicalDir`: the directory text,
trailing slashes trimmed as each handler trims them, walked from the world root).
-/
namespace Humphrey.Fs
open Humphrey Humphrey.Fs.Spec

/-- The world's "going down" (`lookup`, used by the model) is the specification's `Descends`. -/
theorem lookup_is_descends (n : Node) (cs : List Name) (m : Node) :
    lookup n cs = some m ↔ Descends n cs m :=
  lookup_iff_descends n cs m

/-- **Key lemma.** A text without `..` as a substring has no `..` component. -/
theorem no_dotdot_substring_no_dotdot_component (s : Bytes) (h : hasDotDot s = false) :
    ∀ c ∈ components s, c ≠ [46, 46] :=
  no_dotdot_component h

/-- **Key lemma.** A walk over components none of which is `..` only descends. -/
theorem walk_without_dotdot_descends (world : Node) (comps cur p : List Name)
    (hno : ∀ c ∈ comps, c ≠ [46, 46]) (h : walk world cur comps = some p) : ∃ rel, p = cur ++ rel :=
  walk_descends hno h

/-! ## Confinement -/

/-- **`try_find_path` is confined.** Whatever file it locates — for any request text, decoded once —
is a regular file inside the directory: its canonical path extends the directory's and it is reached
from the directory by going downward only. -/
theorem try_find_path_confined (world : Node) (dir req : Bytes) (p : List Name)
    (h : tryFindPath world dir req indexFiles = some (.file p)) :
    ∃ dirPath c, canonicalDir world (trimEndSlash dir) = some dirPath ∧ Inside world dirPath p c := by
  obtain ⟨dirPath, c, hd, -, hin⟩ := tryFindPath_confined indexFiles_plain h
  exact ⟨dirPath, c, hd, hin⟩

/-- The same for any list of index file names without `..` components. -/
theorem try_find_path_confined_any_index (world : Node) (dir req : Bytes) (index : List Bytes)
    (hidx : ∀ f ∈ index, ∀ c ∈ components f, c ≠ [46, 46]) (p : List Name)
    (h : tryFindPath world dir req index = some (.file p)) :
    ∃ dirPath c, canonicalDir world (trimEndSlash dir) = some dirPath ∧ Inside world dirPath p c := by
  obtain ⟨dirPath, c, hd, -, hin⟩ := tryFindPath_confined hidx h
  exact ⟨dirPath, c, hd, hin⟩

/-- **`serve_dir` is confined**: a 200 body is the content of a regular file inside the directory. -/
theorem serve_dir_confined (world : Node) (dir : Bytes) (uri route : List Char) (ct : Option Bytes)
    (body : Bytes) (p : List Name) (h : serveDir world dir uri route = .ok ct body p) :
    ∃ dirPath, canonicalDir world (trimEndSlash dir) = some dirPath ∧ Inside world dirPath p body :=
  serveDir_confined h

/-- **The server's `directory_handler` is confined.** -/
theorem directory_handler_confined (world : Node) (dir : Bytes) (uri pattern : List Char)
    (ct : Option Bytes) (body : Bytes) (p : List Name)
    (h : directoryHandler world dir uri pattern = .ok ct body p) :
    ∃ dirPath, canonicalDir world (trimEndSlash dir) = some dirPath ∧ Inside world dirPath p body :=
  directoryHandler_confined h

/-- **`serve_as_file_path` (repaired) is confined.** Before the repair this was false: see
`serveAsFilePathUnchecked_escapes` / `witness_outside` in `Proofs/FsHandlers.lean`
(`GET /../c` against directory `s` returned the bytes of `/c`). -/
theorem serve_as_file_path_confined (world : Node) (dir : Bytes) (uri : List Char) (ct : Option Bytes)
    (body : Bytes) (p : List Name) (h : serveAsFilePath world dir uri = .ok ct body p) :
    ∃ dirPath, canonicalDir world (stripOneEndSlash dir) = some dirPath ∧ Inside world dirPath p body :=
  serveAsFilePath_confined h

/-- What confinement buys: a file whose canonical path does not extend the directory's (the canary
next to it, anything above it, a sibling whose name merely starts with the directory's name) is
never the file served. -/
theorem outside_never_served (world : Node) (dirPath q : List Name) (c : Bytes)
    (hout : ¬ dirPath <+: q) : ¬ Inside world dirPath q c := by
  rintro ⟨_, rel, -, rfl, -⟩
  exact hout ⟨rel, rfl⟩

/-! ## Completeness: what is inside is served intact -/

/-- **`serve_dir` serves every file inside intact** — for EVERY spelling of its path: any text that
percent-decodes (once) to the path, possibly after extra leading slashes. `init ++ [name]` are the
file's components below the directory; the path contains no `..` and no `:` and is valid UTF-8. -/
theorem serve_dir_complete (world : Node) (dir : Bytes) (pre tail : List Char) (d : Bytes)
    (dirPath : List Name) (dnode : Node) (init : List Name) (name : Name) (c : Bytes)
    (hdir : canonicalDir world (trimEndSlash dir) = some dirPath)
    (hdn : Descends world dirPath dnode) (hfile : subtree dnode (init ++ [name]) c)
    (hplain : ∀ n ∈ init ++ [name], PlainName n)
    (hdec : Percent.decode (utf8 tail) = some d) (hpath : trimStartSlash d = joinPath (init ++ [name]))
    (hutf : Bytes.utf8Valid d = true) (hdd : hasDotDot d = false) (hcol : 58 ∉ d) :
    ServedIntact (serveDir world dir (pre ++ tail) (pre ++ ['*'])) c name := by
  have hr := serveDir_file (pre := pre) (route := pre ++ ['*']) (stripStarSuffix_snoc pre) hdec hutf hdd
    hcol hpath hplain hdir ((lookup_iff_descends _ _ _).mpr hdn) ((lookup_iff_descends _ _ _).mpr hfile)
  refine ⟨_, _, hr, fun e he => ?_⟩
  have hnd : name ≠ [46, 46] := by
    have h47 : ∀ n ∈ init ++ [name], 47 ∉ n := fun n hn => (hplain n hn).2.1
    have hrp : hasDotDot (joinPath (init ++ [name])) = false := hpath ▸ hasDotDot_trimStartSlash hdd
    exact no_dotdot_component hrp name (by rw [components_joinPath (by simp) h47]; simp)
  rw [nameExtension_of_hasExt he hnd]; rfl

/-- **`serve_dir_complete`, canonical spelling**: `route ++ percent_encode(path)`. Names may contain
any byte (`%`, space, non-ASCII, `?`, `#`, backslash…): `Percent.decode_encode` removes every
`%`-ambiguity. -/
theorem serve_dir_complete_encoded (world : Node) (dir : Bytes) (pre : List Char)
    (dirPath : List Name) (dnode : Node) (init : List Name) (name : Name) (c : Bytes)
    (hdir : canonicalDir world (trimEndSlash dir) = some dirPath)
    (hdn : Descends world dirPath dnode) (hfile : subtree dnode (init ++ [name]) c)
    (hplain : ∀ n ∈ init ++ [name], PlainName n)
    (hutf : Bytes.utf8Valid (joinPath (init ++ [name])) = true)
    (hdd : hasDotDot (joinPath (init ++ [name])) = false) (hcol : 58 ∉ joinPath (init ++ [name])) :
    ServedIntact (serveDir world dir
      (pre ++ asciiChars (Percent.encode (joinPath (init ++ [name])))) (pre ++ ['*'])) c name :=
  serve_dir_complete world dir pre _ _ dirPath dnode init name c hdir hdn hfile hplain
    (decode_encoded_spelling _) (trimStartSlash_joinPath hplain) hutf hdd hcol

/-- **The server's `directory_handler` serves every file inside intact**, for every spelling of its
path; the route pattern is `pre*rest` with a literal prefix `pre`. -/
theorem directory_handler_complete (world : Node) (dir : Bytes) (pre rest tail : List Char) (d : Bytes)
    (dirPath : List Name) (dnode : Node) (init : List Name) (name : Name) (c : Bytes)
    (hpre : '*' ∉ pre)
    (hdir : canonicalDir world (trimEndSlash dir) = some dirPath)
    (hdn : Descends world dirPath dnode) (hfile : subtree dnode (init ++ [name]) c)
    (hplain : ∀ n ∈ init ++ [name], PlainName n)
    (hdec : Percent.decode (utf8 tail) = some d) (hpath : trimStartSlash d = joinPath (init ++ [name]))
    (hutf : Bytes.utf8Valid d = true) (hdd : hasDotDot d = false) (hcol : 58 ∉ d) :
    ServedIntact (directoryHandler world dir (pre ++ tail) (pre ++ '*' :: rest)) c name := by
  have hr := directoryHandler_file (rest := rest) hpre hdec hutf hdd hcol hpath hplain hdir
    ((lookup_iff_descends _ _ _).mpr hdn) ((lookup_iff_descends _ _ _).mpr hfile)
  refine ⟨_, _, hr, fun e he => ?_⟩
  have hnd : name ≠ [46, 46] := by
    have h47 : ∀ n ∈ init ++ [name], 47 ∉ n := fun n hn => (hplain n hn).2.1
    have hrp : hasDotDot (joinPath (init ++ [name])) = false := hpath ▸ hasDotDot_trimStartSlash hdd
    exact no_dotdot_component hrp name (by rw [components_joinPath (by simp) h47]; simp)
  rw [nameExtension_of_hasExt he hnd]; rfl

/-- **`directory_handler_complete`, canonical spelling.** -/
theorem directory_handler_complete_encoded (world : Node) (dir : Bytes) (pre rest : List Char)
    (dirPath : List Name) (dnode : Node) (init : List Name) (name : Name) (c : Bytes)
    (hpre : '*' ∉ pre)
    (hdir : canonicalDir world (trimEndSlash dir) = some dirPath)
    (hdn : Descends world dirPath dnode) (hfile : subtree dnode (init ++ [name]) c)
    (hplain : ∀ n ∈ init ++ [name], PlainName n)
    (hutf : Bytes.utf8Valid (joinPath (init ++ [name])) = true)
    (hdd : hasDotDot (joinPath (init ++ [name])) = false) (hcol : 58 ∉ joinPath (init ++ [name])) :
    ServedIntact (directoryHandler world dir
      (pre ++ asciiChars (Percent.encode (joinPath (init ++ [name])))) (pre ++ '*' :: rest)) c name :=
  directory_handler_complete world dir pre rest _ _ dirPath dnode init name c hpre hdir hdn hfile hplain
    (decode_encoded_spelling _) (trimStartSlash_joinPath hplain) hutf hdd hcol

/-- **`serve_as_file_path` (repaired) serves every file inside intact** when requested literally:
the URI is `/` followed by the path (this handler does not decode; the path is a Rust `String`, so
it is UTF-8 by construction; `:` is not special here). -/
theorem serve_as_file_path_complete (world : Node) (dir : Bytes) (chars : List Char)
    (dirPath : List Name) (dnode : Node) (init : List Name) (name : Name) (c : Bytes)
    (hdir : canonicalDir world (stripOneEndSlash dir) = some dirPath)
    (hdn : Descends world dirPath dnode) (hfile : subtree dnode (init ++ [name]) c)
    (hplain : ∀ n ∈ init ++ [name], PlainName n)
    (huri : utf8 chars = joinPath (init ++ [name]))
    (hdd : hasDotDot (joinPath (init ++ [name])) = false) :
    ServedIntact (serveAsFilePath world dir ('/' :: chars)) c name := by
  have hr := serveAsFilePath_file huri hdd hplain hdir
    ((lookup_iff_descends _ _ _).mpr hdn) ((lookup_iff_descends _ _ _).mpr hfile)
  refine ⟨_, _, hr, fun e he => ?_⟩
  have hnd : name ≠ [46, 46] := by
    have h47 : ∀ n ∈ init ++ [name], 47 ∉ n := fun n hn => (hplain n hn).2.1
    exact no_dotdot_component hdd name (by rw [components_joinPath (by simp) h47]; simp)
  rw [nameExtension_of_hasExt he hnd]; rfl

/-- The model's `Path::extension` is the specification's extension (so "the Content-Type of its
extension" above is not vacuous): `HasExt name e` forces `nameExtension name = some e`. -/
theorem extension_is_spec (name e : Bytes) (h : HasExt name e) (hdd : name ≠ [46, 46]) :
    nameExtension name = some e :=
  nameExtension_of_hasExt h hdd

/-! ## Redirect and index rule -/

/-- **`dir_redirect_and_index` (`serve_dir`).** For a directory inside the served directory at plain
components `cs`, requested by any spelling `tail` that decodes to `d`:
* without trailing slash (`cs ≠ []`): 301 with `Location: <request URI>/`;
* in its slash form (every component followed by `/`; the empty text for the served directory itself):
  `index.html` if the directory holds a regular file of that name, else `index.htm` likewise — both
  as `text/html`, content intact —, else 404. -/
theorem dir_redirect_and_index (world : Node) (dir : Bytes) (pre tail : List Char) (d : Bytes)
    (dirPath : List Name) (dnode : Node) (cs : List Name) (es : List (Name × Node))
    (hdir : canonicalDir world (trimEndSlash dir) = some dirPath)
    (hdn : Descends world dirPath dnode) (hobj : Descends dnode cs (.dir es))
    (hplain : ∀ n ∈ cs, PlainName n)
    (hdec : Percent.decode (utf8 tail) = some d)
    (hutf : Bytes.utf8Valid d = true) (hdd : hasDotDot d = false) (hcol : 58 ∉ d) :
    (cs ≠ [] → trimStartSlash d = joinPath cs →
      serveDir world dir (pre ++ tail) (pre ++ ['*']) = .moved (utf8 (pre ++ tail) ++ [47])) ∧
    (trimStartSlash d = slashPath cs →
      serveDir world dir (pre ++ tail) (pre ++ ['*']) =
        match indexOf es with
        | some (n, c) => .ok (some [116, 101, 120, 116, 47, 104, 116, 109, 108]) c (dirPath ++ cs ++ [n])
        | none => .notFound) := by
  have hdn' := (lookup_iff_descends _ _ _).mpr hdn
  have hobj' := (lookup_iff_descends _ _ _).mpr hobj
  exact ⟨fun hne hpath => serveDir_redirect (stripStarSuffix_snoc pre) hdec hutf hdd hcol hpath hne hplain
      hdir hdn' hobj',
    fun hpath => serveDir_index (stripStarSuffix_snoc pre) hdec hutf hdd hcol hpath hplain hdir hdn' hobj'⟩

/-- **`dir_redirect_and_index` for the server's `directory_handler`** (pattern `pre*rest`). -/
theorem directory_handler_redirect_and_index (world : Node) (dir : Bytes) (pre rest tail : List Char)
    (d : Bytes) (dirPath : List Name) (dnode : Node) (cs : List Name) (es : List (Name × Node))
    (hpre : '*' ∉ pre)
    (hdir : canonicalDir world (trimEndSlash dir) = some dirPath)
    (hdn : Descends world dirPath dnode) (hobj : Descends dnode cs (.dir es))
    (hplain : ∀ n ∈ cs, PlainName n)
    (hdec : Percent.decode (utf8 tail) = some d)
    (hutf : Bytes.utf8Valid d = true) (hdd : hasDotDot d = false) (hcol : 58 ∉ d) :
    (cs ≠ [] → trimStartSlash d = joinPath cs →
      directoryHandler world dir (pre ++ tail) (pre ++ '*' :: rest) = .moved (utf8 (pre ++ tail) ++ [47])) ∧
    (trimStartSlash d = slashPath cs →
      directoryHandler world dir (pre ++ tail) (pre ++ '*' :: rest) =
        match indexOf es with
        | some (n, c) => .ok (some [116, 101, 120, 116, 47, 104, 116, 109, 108]) c (dirPath ++ cs ++ [n])
        | none => .notFound) := by
  have hdn' := (lookup_iff_descends _ _ _).mpr hdn
  have hobj' := (lookup_iff_descends _ _ _).mpr hobj
  exact ⟨fun hne hpath => directoryHandler_redirect hpre hdec hutf hdd hcol hpath hne hplain hdir hdn' hobj',
    fun hpath => directoryHandler_index hpre hdec hutf hdd hcol hpath hplain hdir hdn' hobj'⟩

/-! ## No panic -/

/-- A URI that matches a route pattern (C05's glob relation, i.e. `wildcard_match`) has at least as
many characters as the pattern's literal prefix (the text before its first `*`). -/
theorem matched_uri_covers_prefix (pattern uri : List Char)
    (h : Glob.wildcardMatch pattern uri = true) :
    (pattern.takeWhile (· ≠ '*')).length ≤ uri.length :=
  glob_prefix_le ((Glob.wildcard_match_iff_glob pattern uri).mp h)

/-- **`directory_handler` never panics** on a URI with at least as many characters as the pattern's
literal prefix: neither `String::remove(0)` (prefix stripping by character count) nor the
`File::open(path).unwrap()` of `inner_file_handler` (the located path is a regular file). -/
theorem directory_handler_never_panics (world : Node) (dir : Bytes) (uri pattern : List Char)
    (h : (pattern.takeWhile (· ≠ '*')).length ≤ uri.length) :
    directoryHandler world dir uri pattern ≠ .panic := by
  obtain ⟨r, hr⟩ := stripMatched_some h
  unfold directoryHandler
  rw [hr]
  simp only
  split
  · simp
  · rename_i path hfind
    obtain ⟨_, c, -, hl, -⟩ := tryFindPath_confined indexFiles_plain hfind
    simp [innerFileHandler, hl]
  · simp

/-- Hence no panic on any URI the router hands to the directory route. -/
theorem directory_handler_never_panics_on_matched (world : Node) (dir : Bytes) (uri pattern : List Char)
    (h : Glob.wildcardMatch pattern uri = true) : directoryHandler world dir uri pattern ≠ .panic :=
  directory_handler_never_panics world dir uri pattern (matched_uri_covers_prefix pattern uri h)

/-- `serve_dir` and `serve_as_file_path` have no panic outcome at all. -/
theorem library_handlers_never_panic (world : Node) (dir : Bytes) (uri route : List Char) :
    serveDir world dir uri route ≠ .panic ∧ serveAsFilePath world dir uri ≠ .panic := by
  constructor
  · unfold serveDir
    simp only
    split
    · simp
    · split
      · split <;> simp
      · simp
    · simp
  · unfold serveAsFilePath serveAsFilePathUnchecked
    simp only
    split
    · simp
    · split
      · split <;> simp
      · simp

/-! ## Non-vacuity: one concrete world, the shapes the property names -/

/-- `/c` (canary), `/s/a.txt`, `/s/sub/index.htm`, `/s/p%q`; served directory `s`, route `/s/*`. -/
def exampleWorld : Node :=
  .dir [([99], .file [67, 65, 78, 65, 82, 89]),
        ([115], .dir [([97, 46, 116, 120, 116], .file [1]),
                      ([115, 117, 98], .dir [(indexHtm, .file [2])]),
                      ([112, 37, 113], .file [3])])]

-- GET /s/a.txt on route /s/*: 200 text/plain
example : serveDir exampleWorld [115] ['/', 's', '/', 'a', '.', 't', 'x', 't'] ['/', 's', '/', '*'] =
    .ok (some [116, 101, 120, 116, 47, 112, 108, 97, 105, 110]) [1] [[115], [97, 46, 116, 120, 116]] := by rfl
-- GET /s/sub: 301 Location: /s/sub/
example : serveDir exampleWorld [115, 47] ['/', 's', '/', 's', 'u', 'b'] ['/', 's', '/', '*'] =
    .moved [47, 115, 47, 115, 117, 98, 47] := by rfl
-- GET /s/sub/: index.htm (no index.html there)
example : serveDir exampleWorld [115] ['/', 's', '/', 's', 'u', 'b', '/'] ['/', 's', '/', '*'] =
    .ok (some [116, 101, 120, 116, 47, 104, 116, 109, 108]) [2] [[115], [115, 117, 98], indexHtm] := by rfl
-- a name containing '%', requested encoded
example : serveDir exampleWorld [115] ['/', 's', '/', 'p', '%', '2', '5', 'q'] ['/', 's', '/', '*'] =
    .ok none [3] [[115], [112, 37, 113]] := by rfl
-- encoded dot-dot
example : serveDir exampleWorld [115] ['/', 's', '/', '%', '2', 'e', '%', '2', 'e', '/', 'c'] ['/', 's', '/', '*'] =
    .notFound := by rfl
-- double encoding
example : serveDir exampleWorld [115] ['/', 's', '/', '%', '2', '5', '2', 'e', '%', '2', '5', '2', 'e', '/', 'c'] ['/', 's', '/', '*'] =
    .notFound := by rfl
-- overlong UTF-8 dot
example : serveDir exampleWorld [115] ['/', 's', '/', '%', 'c', '0', '%', 'a', 'e', '%', 'c', '0', '%', 'a', 'e', '/', 'c'] ['/', 's', '/', '*'] =
    .notFound := by rfl
-- mixed
example : serveDir exampleWorld [115] ['/', 's', '/', '.', '.', '%', '2', 'f', 'c'] ['/', 's', '/', '*'] =
    .notFound := by rfl
-- NUL
example : serveDir exampleWorld [115] ['/', 's', '/', 'a', '.', 't', 'x', 't', '%', '0', '0'] ['/', 's', '/', '*'] =
    .notFound := by rfl
-- the request that escaped before the repair
example : serveAsFilePath exampleWorld [115] ['/', '.', '.', '/', 'c'] =
    .notFound := by rfl
-- literal path
example : serveAsFilePath exampleWorld [115] ['/', 'a', '.', 't', 'x', 't'] =
    .ok (some [116, 101, 120, 116, 47, 112, 108, 97, 105, 110]) [1] [[115], [97, 46, 116, 120, 116]] := by rfl
-- String::remove(0) on an empty string: the URI is shorter than the literal prefix
example : directoryHandler exampleWorld [115] ['/'] ['/', 's', '/', '*'] =
    .panic := by rfl
-- the served directory itself has no index file
example : directoryHandler exampleWorld [115] ['/', 's', '/'] ['/', 's', '/', '*'] =
    .notFound := by rfl
example : HasExt [97, 46, 116, 120, 116] [116, 120, 116] := ⟨[97], by simp, rfl, by simp⟩
example : Inside exampleWorld [[115]] [[115], [97, 46, 116, 120, 116]] [1] :=
  ⟨.dir [([97, 46, 116, 120, 116], .file [1]), ([115, 117, 98], .dir [(indexHtm, .file [2])]),
      ([112, 37, 113], .file [3])], [[97, 46, 116, 120, 116]],
    (lookup_iff_descends _ _ _).mp (by rfl), rfl, (lookup_iff_descends _ _ _).mp (by rfl)⟩
example : ¬ Inside exampleWorld [[115]] [[99]] [67, 65, 78, 65, 82, 89] :=
  outside_never_served _ _ _ _ (by decide)

end Humphrey.Fs
