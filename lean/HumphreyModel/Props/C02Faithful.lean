import HumphreyModel.Props.C02
import HumphreyModel.Proofs.HttpReqParse
import HumphreyModel.Proofs.HttpReqRound
import HumphreyModel.Proofs.HttpReqParsed

/-!
# C02 — faithfulness and round trip of the request parser

Specification: `Spec/HttpReq.lean` (`WfReq`, `WfReq.render`, `WfReq.denote`, `WfReq.WF`, `ReqEquiv`,
`Request.WFParsed`). Model: `Model/Http.lean`. Segmentation independence for every input is
`Props/C02.lean`; it is used here to lift the statements from the flat stream to every chunking.
-/
namespace Humphrey.Http
open Humphrey Humphrey.IO Humphrey.Bytes

/-! ## Faithfulness -/

/-- **C02, faithfulness.** The parser run on the bytes of a well-formed request followed by arbitrary
bytes `rest` returns exactly the request the bytes denote and leaves exactly `rest` unread. -/
theorem parse_render (r : WfReq) (env : Env) (h : r.WF) (rest : Bytes) :
    parseRequest flatSource env (r.render ++ rest) = .ok (r.denote env, rest) :=
  parse_render_core r env h.core rest

/-- **C02, faithfulness for every segmentation.** However the bytes are cut into reads. -/
theorem parse_render_chunked (r : WfReq) (env : Env) (h : r.WF) (rest : Bytes) (chunks : List Bytes)
    (hc : chunks.flatten = r.render ++ rest) :
    ∃ rd : Reader, parseRequest readerSource env ⟨[], chunks⟩ = .ok (r.denote env, rd) ∧ rd.rest = rest := by
  have h1 := parse_reader_eq_flat env ⟨[], chunks⟩
  have e : (⟨[], chunks⟩ : Reader).rest = r.render ++ rest := by simp [Reader.rest, hc]
  rw [e, parse_render r env h rest] at h1
  rcases h1.elim' with ⟨a, t₁, t₂, h₁, h₂, ht⟩ | ⟨e', _, h₂⟩ | ⟨_, h₂⟩
  · injection h₂ with h₂
    injection h₂ with ha ht₂
    subst ha; subst ht₂
    exact ⟨t₁, h₁, ht⟩
  · cases h₂
  · cases h₂

/-- Same statements under the weaker hypothesis `WfReq.Core` (only what the parser needs: CR is
allowed inside fields, names may be empty, Content-Length may be spelled `+5` or `005`). -/
theorem parse_render_core_chunked (r : WfReq) (env : Env) (h : r.Core) (rest : Bytes) (chunks : List Bytes)
    (hc : chunks.flatten = r.render ++ rest) :
    ∃ rd : Reader, parseRequest readerSource env ⟨[], chunks⟩ = .ok (r.denote env, rd) ∧ rd.rest = rest := by
  have h1 := parse_reader_eq_flat env ⟨[], chunks⟩
  have e : (⟨[], chunks⟩ : Reader).rest = r.render ++ rest := by simp [Reader.rest, hc]
  rw [e, parse_render_core r env h rest] at h1
  rcases h1.elim' with ⟨a, t₁, t₂, h₁, h₂, ht⟩ | ⟨e', _, h₂⟩ | ⟨_, h₂⟩
  · injection h₂ with h₂
    injection h₂ with ha ht₂
    subst ha; subst ht₂
    exact ⟨t₁, h₁, ht⟩
  · cases h₂
  · cases h₂

/-- Header fields of the parsed request: for every name (any case), the values of the fields so
named (compared ASCII-case-insensitively), in the order they were written. -/
theorem get_all_parsed (r : WfReq) (env : Env) (n : Bytes) :
    (r.denote env).headers.getAll (HName.ofName n) =
      (r.headers.filter (fun h => asciiLower h.name = asciiLower n)).map (·.value) := by
  simp only [WfReq.denote, Headers.getAll, List.filter_map, List.map_map]
  congr 1
  apply List.filter_congr
  intro h _
  simp [WfHeader.denote, HName.ofName]

/-- The same, read off the parser's result. -/
theorem get_all_parsed' (r : WfReq) (env : Env) (h : r.WF) (rest : Bytes) (n : Bytes) :
    ∃ q, parseRequest flatSource env (r.render ++ rest) = .ok (q, rest) ∧
      q.headers.getAll (HName.ofName n) =
        (r.headers.filter (fun h => asciiLower h.name = asciiLower n)).map (·.value) :=
  ⟨_, parse_render r env h rest, get_all_parsed r env n⟩

/-! ## Round trip -/

/-- `Headers::iter` (a stable sort by category and displayed name, after the D12 repair) keeps, for every
name, the values of the fields so named in their original order. No hypothesis on the headers. -/
theorem sorted_getAll (hs : Headers) (n : HName) : hs.sorted.getAll n = hs.getAll n :=
  sorted_getAll_aux hs n

/-- … hence also the first value (`Headers::get`). -/
theorem sorted_get' (hs : Headers) (n : HName) : hs.sorted.get n = hs.get n := sorted_get hs n

theorem ReqEquiv.refl (q : Request) : ReqEquiv q q := ⟨rfl, rfl, rfl, rfl, rfl, fun _ => rfl⟩

theorem ReqEquiv.get {a b : Request} (h : ReqEquiv a b) (n : HName) : a.headers.get n = b.headers.get n := by
  rw [get_eq_head_getAll, get_eq_head_getAll, h.getAll]

/-- Equal requests have the same cookie list. -/
theorem ReqEquiv.cookies {a b : Request} (h : ReqEquiv a b) : cookies a = cookies b := by
  simp only [Http.cookies, h.get hCookie]

/-- Equal requests seen from the same peer have the same origin and proxy addresses. -/
theorem ReqEquiv.address {a b : Request} (h : ReqEquiv a b) (env : Env) :
    Address.fromHeaders env.parseIp trim a.headers env.peer env.port =
    Address.fromHeaders env.parseIp trim b.headers env.peer env.port :=
  fromHeaders_congr _ _ _ _ _ _ (h.get hXff)

/-- **C02, round trip.** Serialising a parsed request (`Request.WFParsed`: what `parseRequest` guarantees
of its result) and parsing the bytes again — followed by arbitrary bytes `rest` — yields an equal request
(`ReqEquiv`: method, path, query, version, body, and for every header name the same value sequence), with
the address the parser computes for the original header list; the parser stops exactly at `rest`,
EXCEPT that with zero headers the serialiser has written a blank line too many
(`start CRLF "" CRLF CRLF`), so a stray CRLF is left unread in front of `rest`. -/
theorem roundtrip (q : Request) (env : Env) (hq : q.WFParsed) (rest : Bytes) :
    ∃ q', parseRequest flatSource env (serializeRequest q ++ rest) =
        .ok (q', (if q.headers.isEmpty then crlf else []) ++ rest) ∧
      ReqEquiv q' q ∧
      q'.address = Address.fromHeaders env.parseIp trim q.headers env.peer env.port := by
  have hcore := toWf_core q hq
  have hden : ((toWf q).denote env).headers = q.headers.sorted := toWf_denote_headers q hq
  have hequiv : ReqEquiv ((toWf q).denote env) q := by
    refine ⟨rfl, rfl, ?_, rfl, rfl, fun n => ?_⟩
    · simp only [WfReq.denote, toWf]
      cases hqq : q.query with
      | nil => rfl
      | cons x xs => rfl
    · rw [hden, sorted_getAll]
  have haddr : ((toWf q).denote env).address =
      Address.fromHeaders env.parseIp trim q.headers env.peer env.port := by
    have := hequiv.address env
    simpa [WfReq.denote] using this
  refine ⟨(toWf q).denote env, ?_, hequiv, haddr⟩
  cases hh : q.headers with
  | nil =>
    have hcont : q.content = none := by
      have := hq.content_length
      cases hc : q.content with
      | none => rfl
      | some b =>
        simp only [hc, hh] at this
        obtain ⟨cl, h1, _⟩ := this
        simp [Headers.get] at h1
    have hser : serializeRequest q ++ rest = (toWf q).render ++ (crlf ++ rest) := by
      rw [serialize_eq_render_nil q hh, hcont]
      simp [WfReq.render, toWf, hh, Headers.sorted, renderHeaders, hcont]
    rw [hser, parse_render_core _ env hcore]
    simp
  | cons x xs =>
    have hne : q.headers ≠ [] := by simp [hh]
    rw [serialize_eq_render q hne, parse_render_core _ env hcore]
    simp

/-- The round trip for every segmentation of the serialised bytes. -/
theorem roundtrip_chunked (q : Request) (env : Env) (hq : q.WFParsed) (rest : Bytes) (chunks : List Bytes)
    (hc : chunks.flatten = serializeRequest q ++ rest) :
    ∃ (q' : Request) (rd : Reader), parseRequest readerSource env ⟨[], chunks⟩ = .ok (q', rd) ∧
      rd.rest = (if q.headers.isEmpty then crlf else []) ++ rest ∧ ReqEquiv q' q ∧
      q'.address = Address.fromHeaders env.parseIp trim q.headers env.peer env.port := by
  obtain ⟨q', hp, he, ha⟩ := roundtrip q env hq rest
  have h1 := parse_reader_eq_flat env ⟨[], chunks⟩
  have e : (⟨[], chunks⟩ : Reader).rest = serializeRequest q ++ rest := by simp [Reader.rest, hc]
  rw [e, hp] at h1
  rcases h1.elim' with ⟨a, t₁, t₂, h₁, h₂, ht⟩ | ⟨e', _, h₂⟩ | ⟨_, h₂⟩
  · injection h₂ with h₂
    injection h₂ with ha' ht₂
    subst ha'; subst ht₂
    exact ⟨_, t₁, h₁, ht, he, ha⟩
  · cases h₂
  · cases h₂

/-- **Whatever the parser returns satisfies `WFParsed`** — for every input and every segmentation. -/
theorem parseRequest_wfParsed (env : Env) (chunks : List Bytes) (q : Request) (rd : Reader)
    (hp : parseRequest readerSource env ⟨[], chunks⟩ = .ok (q, rd)) :
    q.WFParsed ∧ q.address = Address.fromHeaders env.parseIp trim q.headers env.peer env.port := by
  have h1 := parse_reader_eq_flat env ⟨[], chunks⟩
  rw [hp] at h1
  rcases h1.elim' with ⟨a, t₁, t₂, h₁, h₂, _⟩ | ⟨e', h₁, _⟩ | ⟨h₁, _⟩
  · injection h₁ with h₁
    injection h₁ with ha _
    subst ha
    exact parseRequest_flat_inv env _ _ _ h₂
  · cases h₁
  · cases h₁

/-- The same on the flat stream. -/
theorem parseRequest_flat_wfParsed (env : Env) (s : Bytes) (q : Request) (s' : Bytes)
    (hp : parseRequest flatSource env s = .ok (q, s')) :
    q.WFParsed ∧ q.address = Address.fromHeaders env.parseIp trim q.headers env.peer env.port :=
  parseRequest_flat_inv env s q s' hp

/-- **C02, round trip, closed form**: parse anything (any bytes, any segmentation); if that yields a request
`q`, then serialising `q` and parsing the result again (any segmentation, any following bytes, same peer)
yields a request equal to `q` (`ReqEquiv`) with the same address and the same cookies. -/
theorem parse_serialize_parse (env : Env) (chunks : List Bytes) (q : Request) (rd : Reader)
    (hp : parseRequest readerSource env ⟨[], chunks⟩ = .ok (q, rd))
    (rest : Bytes) (chunks' : List Bytes) (hc : chunks'.flatten = serializeRequest q ++ rest) :
    ∃ (q' : Request) (rd' : Reader), parseRequest readerSource env ⟨[], chunks'⟩ = .ok (q', rd') ∧
      rd'.rest = (if q.headers.isEmpty then crlf else []) ++ rest ∧
      ReqEquiv q' q ∧ q'.address = q.address ∧ cookies q' = cookies q := by
  obtain ⟨hwf, haddr⟩ := parseRequest_wfParsed env chunks q rd hp
  obtain ⟨q', rd', h1, h2, h3, h4⟩ := roundtrip_chunked q env hwf rest chunks' hc
  exact ⟨q', rd', h1, h2, h3, by rw [h4, haddr], h3.cookies⟩

/-! ## Non-vacuity -/

example : exampleReq.WF := WfReq.wf_of_wfb (by decide)

example : exampleReq.render =
    [80, 79, 83, 84, 32, 47, 97, 63, 120, 61, 49, 32, 72, 84, 84, 80, 47, 49, 46, 49, 13, 10,
     72, 111, 115, 116, 58, 32, 104, 13, 10,
     99, 111, 110, 116, 101, 110, 116, 45, 76, 69, 78, 71, 84, 72, 58, 32, 9, 51, 13, 10,
     88, 45, 65, 58, 118, 13, 10, 13, 10, 97, 98, 99] := by decide

/-- A request without a body and without headers is well-formed too. -/
example : (⟨.get, [47], none, [72, 84, 84, 80, 47, 49, 46, 48], [], none⟩ : WfReq).WF :=
  WfReq.wf_of_wfb (by decide)

/-- `WFParsed` is inhabited by the denotation of the example (it is what the parser returns for it). -/
example : (exampleReq.denote ⟨[49], 80, fun _ => none⟩).WFParsed :=
  (parseRequest_flat_wfParsed _ _ _ _
    (parse_render exampleReq ⟨[49], 80, fun _ => none⟩ (WfReq.wf_of_wfb (by decide)) [])).1

/-- The serialisation of that request: headers sorted (Host, Content-Length, then the custom name),
names in the table's spelling or lower-cased, `": "` after each name:
`POST /a?x=1 HTTP/1.1 / Host: h / Content-Length: 3 / x-a: v / / abc`. -/
example : serializeRequest (exampleReq.denote ⟨[49], 80, fun _ => none⟩) =
    [80, 79, 83, 84, 32, 47, 97, 63, 120, 61, 49, 32, 72, 84, 84, 80, 47, 49, 46, 49, 13, 10, 72, 111, 115, 116, 58, 32, 104, 13, 10, 67, 111, 110, 116, 101, 110, 116, 45, 76, 101, 110, 103, 116, 104, 58, 32, 51, 13, 10, 120, 45, 97, 58, 32, 118, 13, 10, 13, 10, 97, 98, 99] := by decide

/-- With no headers the serialiser writes three CRLFs: `GET / HTTP/1.0 CRLF CRLF CRLF`. -/
example : serializeRequest ((⟨.get, [47], none, [72, 84, 84, 80, 47, 49, 46, 48], [], none⟩ : WfReq).denote
      ⟨[49], 80, fun _ => none⟩) =
    [71, 69, 84, 32, 47, 32, 72, 84, 84, 80, 47, 49, 46, 48, 13, 10, 13, 10, 13, 10] := by decide

end Humphrey.Http
