import HumphreyModel.Model.Proxy
import HumphreyModel.Props.C02
import HumphreyModel.Props.C03
import HumphreyModel.Props.C07

/-!
# C09 — the proxy always answers: the upstream's response if valid, else 502, within the timeout

Model: `Model/Proxy.lean`. What the upstream does before the proxy's deadline is a value of
`Upstream` (refused; or some delivered segments followed by the upstream closing, or by silence
until the deadline — a stall and a too-slow trickle look the same to the proxy). Wall-clock time
itself is not modelled: that the real exchange is cut off at the deadline is observed by the
correspondence run (every case is timed against timeout + slack).
-/
namespace Humphrey.Http
open Humphrey Humphrey.IO

/-- **The proxy always answers, and with one of two things**: the fixed 502 response, or exactly the
response the response parser read from what the upstream delivered. It never panics (the parser
cannot: `response_parser_never_panics`). -/
theorem proxy_answers (up : Upstream) :
    proxyRequest up = badGateway ∨
    ∃ d e r rest, up = .accepted d e ∧
      parseResponse readerSource (⟨[], d⟩ : Reader) = .ok (r, rest) ∧ proxyRequest up = r := by
  cases up with
  | refused => exact .inl rfl
  | accepted d e =>
    simp only [proxyRequest]
    cases h : parseResponse readerSource (⟨[], d⟩ : Reader) with
    | ok p =>
      obtain ⟨r, rest⟩ := p
      simp only []
      split
      · exact .inl rfl
      · exact .inr ⟨d, e, r, rest, rfl, h, rfl⟩
    | err _ => exact .inl rfl
    | panic => exact .inl rfl

/-- Connection refused ⇒ 502. -/
theorem refused_502 : proxyRequest .refused = badGateway := rfl

/-- A complete valid response (self-delimiting, or close-delimited and then closed) is returned as
it is — status, headers and body exactly as the parser read them. -/
theorem valid_response_returned (d : List Bytes) (e : UpEnd) (r : Response) (rest : Reader)
    (h : parseResponse readerSource (⟨[], d⟩ : Reader) = .ok (r, rest))
    (hok : e = .closed ∨ closeDelimited r = false) :
    proxyRequest (.accepted d e) = r := by
  simp only [proxyRequest, h]
  rcases hok with rfl | hcd
  · simp
  · simp [hcd]

/-- Anything that is not a complete valid response — garbage, malformed headers, a body or chunk cut
short by a disconnect — is answered 502, however it was segmented. -/
theorem invalid_response_502 (d : List Bytes) (e : UpEnd) (err : RespErr)
    (h : parseResponse readerSource (⟨[], d⟩ : Reader) = .err err) :
    proxyRequest (.accepted d e) = badGateway := by
  simp [proxyRequest, h]

/-- An upstream that accepts and then stays silent is answered 502: with nothing delivered the
parser has no status line. -/
theorem accept_then_silence_502 (e : UpEnd) : proxyRequest (.accepted [] e) = badGateway := by
  simp [proxyRequest, parseResponse, readerSource, Reader.readUntil, readUntilAux, takeThrough,
    parseStatusLine, Bytes.utf8Valid, splitn3, Bytes.splitOnce]

/-- A response whose end only the close of the connection marks, from an upstream that then stalls
instead of closing, is answered 502 (the deadline passes while the proxy waits for the end). -/
theorem close_delimited_stall_502 (d : List Bytes) (r : Response) (rest : Reader)
    (h : parseResponse readerSource (⟨[], d⟩ : Reader) = .ok (r, rest))
    (hcd : closeDelimited r = true) :
    proxyRequest (.accepted d .silent) = badGateway := by
  simp [proxyRequest, h, hcd]

/-- The answer does not depend on how the upstream's bytes were segmented. -/
theorem proxy_segmentation_independent (d₁ d₂ : List Bytes) (e : UpEnd) (h : d₁.flatten = d₂.flatten) :
    proxyRequest (.accepted d₁ e) = proxyRequest (.accepted d₂ e) := by
  have := response_parse_segmentation_independent d₁ d₂ h
  simp only [proxyRequest]
  cases a : parseResponse readerSource (⟨[], d₁⟩ : Reader) <;>
    cases b : parseResponse readerSource (⟨[], d₂⟩ : Reader) <;>
    simp_all [OutRel]

/-! ## What the upstream receives -/

/-- The relayed request differs from the client's only by one appended `X-Forwarded-For` field
carrying the client's address: every other field keeps its values and their order. -/
theorem relay_adds_only_xff (req : Request) (n : HName) :
    let fwd : Request := { req with headers := req.headers ++ [⟨hXff, req.address.origin⟩] }
    (forwardedBytes req = serializeRequest fwd) ∧
    fwd.method = req.method ∧ fwd.uri = req.uri ∧ fwd.query = req.query ∧
    fwd.version = req.version ∧ fwd.content = req.content ∧
    fwd.headers.getAll n =
      if n = hXff then req.headers.getAll n ++ [req.address.origin] else req.headers.getAll n := by
  refine ⟨rfl, rfl, rfl, rfl, rfl, rfl, ?_⟩
  simp only [get_all_preserves_order]
  by_cases hn : n = hXff
  · subst hn; simp [Headers.getAll]
  · have : hXff ≠ n := fun h => hn h.symm
    simp [Headers.getAll, hn, this]

/-- Prefix stripping removes exactly as many characters as the pattern has before its first `*`. -/
theorem stripPrefix_drop (pattern uri : List Char) (k : Nat)
    (hk : k = (pattern.takeWhile (· ≠ '*')).length) (hlen : k ≤ uri.length) :
    stripPrefix pattern uri = some (uri.drop k) := by
  induction pattern generalizing uri k with
  | nil => simp at hk; subst hk; simp [stripPrefix]
  | cons c ps ih =>
    by_cases hc : c = '*'
    · subst hc; simp at hk; subst hk; simp [stripPrefix]
    · simp [List.takeWhile, hc] at hk
      cases uri with
      | nil => subst hk; simp at hlen
      | cons u us =>
        subst hk
        simp only [stripPrefix, hc, if_false]
        rw [ih us _ rfl (by simpa using hlen)]
        simp

/-! ## Load balancing -/

/-- **Round-robin is strict rotation**: from index `i < n` the `k`-th selection is
`targets[(i + k) mod n]`. -/
theorem round_robin_strict {τ : Type} (lb : LoadBalancer τ) (hm : lb.mode = .roundRobin)
    (hi : lb.index < lb.targets.length) (k : Nat) :
    ∃ ts lb', lb.selectN k = some (ts, lb') ∧ ts.length = k ∧
      (∀ j (hj : j < k), ts[j]? = lb.targets[(lb.index + j) % lb.targets.length]?) ∧
      lb'.targets = lb.targets ∧ lb'.mode = .roundRobin ∧
      lb'.index = (lb.index + k) % lb.targets.length := by
  induction k generalizing lb with
  | zero =>
    exact ⟨[], lb, rfl, rfl, by intro j hj; omega, rfl, hm, by simp [Nat.mod_eq_of_lt hi]⟩
  | succ k ih =>
    have hsel : lb.select = some (lb.targets[lb.index], { lb with index := if lb.index + 1 = lb.targets.length then 0 else lb.index + 1 }) := by
      simp [LoadBalancer.select, hm, List.getElem?_eq_getElem hi]
    obtain ⟨lb1, hlb1⟩ : ∃ x : LoadBalancer τ, x = { lb with index := if lb.index + 1 = lb.targets.length then 0 else lb.index + 1 } := ⟨_, rfl⟩
    rw [← hlb1] at hsel
    have e : lb1.targets = lb.targets := by rw [hlb1]
    have hi1 : lb1.index < lb1.targets.length := by
      simp only [hlb1]; split <;> omega
    have hidx : lb1.index = (lb.index + 1) % lb.targets.length := by
      simp only [hlb1]
      split
      · rename_i h; rw [h]; simp
      · rename_i h; rw [Nat.mod_eq_of_lt (by omega)]
    obtain ⟨ts, lb', hs, hl, hall, ht, hm', hi'⟩ := ih lb1 (by simp [hlb1, hm]) hi1
    refine ⟨lb.targets[lb.index] :: ts, lb', ?_, by simp [hl], ?_, ?_, hm', ?_⟩
    · simp [LoadBalancer.selectN, hsel, hs]
    · intro j hj
      cases j with
      | zero => simp [Nat.mod_eq_of_lt hi, List.getElem?_eq_getElem hi]
      | succ j =>
        have := hall j (by omega)
        simp only [List.getElem?_cons_succ, this]
        rw [e, hidx, Nat.mod_add_mod]
        congr 2; omega
    · rw [ht, e]
    · rw [hi', e, hidx, Nat.mod_add_mod]
      congr 1; omega

/-- **Random selection stays inside the configured set.** -/
theorem random_in_set {τ : Type} (lb : LoadBalancer τ) (t : τ) (lb' : LoadBalancer τ)
    (h : lb.select = some (t, lb')) : t ∈ lb.targets ∧ lb'.targets = lb.targets := by
  unfold LoadBalancer.select at h
  cases hm : lb.mode with
  | roundRobin =>
    simp only [hm] at h
    cases hx : lb.targets[lb.index]? with
    | none => simp [hx] at h
    | some x =>
      simp only [hx, Option.some.injEq, Prod.mk.injEq] at h
      obtain ⟨rfl, rfl⟩ := h
      exact ⟨List.mem_of_getElem? hx, rfl⟩
  | random =>
    simp only [hm] at h
    by_cases he : lb.targets.isEmpty
    · simp [he] at h
    · simp only [he, Bool.false_eq_true, if_false] at h
      cases hx : lb.targets[lb.lcg.next.1 % lb.targets.length]? with
      | none => simp [hx] at h
      | some x =>
        simp only [hx, Option.some.injEq, Prod.mk.injEq] at h
        obtain ⟨rfl, rfl⟩ := h
        exact ⟨List.mem_of_getElem? hx, rfl⟩

/-- Selection never panics on a non-empty target list with a valid index. -/
theorem select_defined {τ : Type} (lb : LoadBalancer τ) (hn : lb.targets ≠ [])
    (hi : lb.index < lb.targets.length) : (lb.select).isSome := by
  unfold LoadBalancer.select
  cases lb.mode with
  | roundRobin => simp [List.getElem?_eq_getElem hi]
  | random =>
    have hpos : 0 < lb.targets.length := List.length_pos_iff.mpr hn
    simp only [List.isEmpty_iff, hn, if_false]
    rw [List.getElem?_eq_getElem (Nat.mod_lt _ hpos)]
    simp

-- Non-vacuity.
example : ((⟨["a", "b", "c"], .roundRobin, 2, ⟨7, 3, 1, 1⟩⟩ : LoadBalancer String).selectN 4).map (·.1)
    = some ["c", "a", "b", "c"] := by decide
example : stripPrefix "/api/*".toList "/api/x".toList = some "x".toList := by decide

end Humphrey.Http
