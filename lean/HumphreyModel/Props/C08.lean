import HumphreyModel.Proofs.PoolRecover

/-!
# C08 — thread pool: tasks run exactly once, panics are isolated, shutdown terminates

Property theorems only. Model: `Model/Pool.lean` (labelled transition system of `thread/pool.rs` and
`thread/recovery.rs` after the repair of `Drop`; `stepU` = the code before the repair).
Spec: `Spec/Pool.lean`. All theorems quantify over every reachable state, i.e. over every
interleaving of the caller, the N workers and the recovery thread, for every N, every number of
tasks and every panicking subset `c.panics`.

Scope: ONE run of the pool. `start` is enabled only in `created`, so the reachable states — and with them every
theorem below — cover the lifecycle scripts `start, execute*, stop?, drop`. Scripts that start the pool again
(`… stop, start …`, any number of times; `start, start`) are the subject of `Model/PoolRestart.lean` (a several-runs
system over the same `step`) and `Props/C08Restart.lean`, which lifts the invariant behind the theorems below to every
run of the pool value. Their event logs are not replayed through that system (worker ids are reused by every run);
`./check C08` judges them with the executable predicates `PoolSpec.Summary.ok` / `PoolSpec.LogCounts.ok`
(see `Driver/C08.lean`).
-/
namespace Humphrey.Pool
open PoolSpec

/-- Each submitted task is in exactly one of queue / one worker / finished / panicked, nothing that was not
submitted is anywhere, and no task body is ever entered twice (`startedLog` has no duplicates). -/
theorem exactly_once {c : Cfg} {s : State} (h : Reachable c s) : ExactlyOnce (viewOf c s) := by
  have hc := InvCount.of_reachable h
  have hsub : ∀ k, s.submitted.count k ≤ 1 := by
    rw [hc.sub]; exact List.nodup_iff_count.mp List.nodup_range
  have hsplit : ∀ k, s.submitted.count k = s.dequeued.count k + (queuedTasks s.queue).count k := by
    intro k; rw [← hc.fifo, List.count_append]
  have hrun_le : ∀ k, sumBy (runsC k) s.workers ≤ sumBy (holdsC k) s.workers := by
    intro k
    generalize s.workers = ws
    induction ws with
    | nil => simp [sumBy]
    | cons p ps ih =>
      have : runsC k p ≤ holdsC k p := by cases p <;> simp [runsC, holdsC, Phase.runs, Phase.holds]
      simp [sumBy]; omega
  refine ⟨hsub, ?_, ?_, ?_⟩
  · intro k
    have := hc.deq k; have := hsplit k
    simp only [viewOf, heldTasks, count_flatMap]
    show _ + sumBy (holdsC k) s.workers + _ + _ = _
    omega
  · intro k
    have := hc.deq k; have := hc.sta k; have := hsplit k; have := hsub k; have := hrun_le k
    simp only [viewOf]; omega
  · intro k
    have := hc.sta k
    simp only [viewOf, runningTasks, count_flatMap]
    show _ = sumBy (runsC k) s.workers + _ + _
    omega

/-- Never more than N tasks run at the same time. -/
theorem at_most_N_running {c : Cfg} {s : State} (h : Reachable c s) : AtMostN (viewOf c s) := by
  have hs := InvStruct.of_reachable h
  simp only [AtMostN, viewOf, length_runningTasks, runningCount]
  exact Nat.le_trans (List.length_filter_le _ _) (workers_length_le hs)

/-- Tasks are taken from the queue in the order in which they were submitted. -/
theorem fifo_dequeue {c : Cfg} {s : State} (h : Reachable c s) : Fifo (viewOf c s) :=
  (InvCount.of_reachable h).fifo

/-- The receiver's mutex is never held by a worker that is running a task (it is held only inside `recv`
and until the guard is dropped, before the task is called). -/
theorem lock_not_held_while_running {c : Cfg} {s : State} (h : Reachable c s) (w : Wid) (k : TaskId)
    (hw : s.workers[w]? = some (.running k)) : s.rxLock ≠ some w := by
  intro hl
  obtain ⟨p, hp, hh⟩ := (InvStruct.of_reachable h).lockOwner w hl
  simp [hw] at hp; subst hp; simp [Phase.holdsLock] at hh


/-! ### Panic isolation -/

/-- A `panic w` step touches nothing but worker `w`'s phase and the ghost entry of the task it was running:
the queue, the mutex, every other worker, the recovery channel and all other logs are unchanged. -/
theorem panic_isolated {c : Cfg} {s s' : State} {w : Wid} (h : step c s (.panic w) = some s') :
    ∃ k, s.workers[w]? = some (.running k) ∧ c.panics k = true ∧
      s' = { s with workers := s.workers.set w .unwinding, panicked := s.panicked ++ [k] } ∧
      (∀ v, v ≠ w → s'.workers[v]? = s.workers[v]?) ∧ s'.workers[w]? = some .unwinding := by
  cases Step.of_step h with
  | @panic _ k hw hp =>
    refine ⟨k, hw, hp, rfl, ?_, ?_⟩
    · intro v hv
      simp only [setW, getElem?_set_workers hw]
      simp; intro e; exact absurd e.symm hv
    · simp [setW, getElem?_set_workers hw]

/-- … and after any number of panics the recovery machinery alone (marker sends and the recovery thread's
steps, all of them enabled one after the other) brings every worker id back to an incarnation that serves the
queue, without touching the queue, the mutex, the logs or any worker that was not broken: afterwards
`usable + exited = workers`, and `usable = N` while the pool is started ("the pool returns to N usable
workers"). -/
theorem panic_recovery_restores {c : Cfg} {s : State} (h : Reachable c s) :
    ∃ ls s', ls.all Label.isRecovery = true ∧ run c s ls = some s' ∧ Untouched s s' ∧
      (viewOf c s').usable + (viewOf c s').exited = (viewOf c s').workers ∧
      (s.life = .started → (viewOf c s').usable = c.n) := by
  obtain ⟨ls, s', h1, h2, h3, h4⟩ := recovery_restores_aux (recRank s) s h (Nat.le_refl _)
  have hsum := usable_or_exited_of_not_broken h4
  refine ⟨ls, s', h1, h2, h3, hsum, ?_⟩
  intro hl
  have hi := Inv.of_reachable (h.run h2)
  have hl' : s'.life = .started := h3.life.1.trans hl
  have hne := (hi.queue.started hl').2
  have hex : exitedCount s'.workers = 0 := by
    simp only [exitedCount, length_filter_eq_sumBy]
    apply sumBy_zero_of_all
    intro w p hw
    have := hne w p hw
    cases p <;> simp_all [Phase.exitish, Phase.isExited]
  have hlen : s'.workers.length = c.n := by
    rcases hi.struct.shape with sh | ns
    · exact sh.2.1
    · exact absurd hl' ns.2.2.2.2.2.1
  simp only [viewOf] at hsum ⊢
  omega

/-! ### N tasks at once -/

/-- For every N (and whatever tasks panic) a state with N tasks running at the same time is reachable, with
the receiver's mutex free: the mutex is not held while a task runs. -/
theorem N_can_run (n : Nat) (panics : TaskId → Bool) :
    ∃ s, Reachable ⟨n, panics⟩ s ∧ (viewOf ⟨n, panics⟩ s).running.length = n ∧ s.rxLock = none := by
  obtain ⟨s, hs⟩ := busy ⟨n, panics⟩ n (Nat.le_refl n)
  refine ⟨s, hs.reach, ?_, hs.lock⟩
  simp only [viewOf, length_runningTasks]
  rw [runningCount_eq_length, hs.len]
  intro w hw
  exact hs.running w (by have := hs.len; simp at this; omega)

/-! ### Termination -/

/-- Every step other than `submit` strictly decreases `measure` (and `submit` adds 11 to it). -/
theorem measure_decreases {c : Cfg} {s s' : State} {l : Label} (h : step c s l = some s') (hl : l.isSubmit = false) :
    measure c s' < measure c s :=
  (measure_step (Step.of_step h)).1 hl

/-- Hence every execution with finitely many submits is finite: an execution from `s` with `k` submits has at
most `measure c s + 11 * k` other steps. -/
theorem executions_finite {c : Cfg} {s s' : State} {ls : List Label} (h : run c s ls = some s') :
    otherSteps ls ≤ measure c s + 11 * submits ls := by
  have := run_measure ls s s' h; omega

/-- When nothing can move any more and the pool has been dropped (with or without `stop` before), every
submitted task has finished or panicked and every worker incarnation has left its loop. -/
theorem terminal_all_done {c : Cfg} {s : State} (hn : 0 < c.n) (h : Reachable c s) (hT : Terminal c s)
    (hd : s.life = .dropped) : AllDone (viewOf c s) := by
  have hi := Inv.of_reachable h
  have hex := terminal_workers_exited hi hT hd
  constructor
  · intro k hk
    simp only [viewOf] at hk ⊢
    rcases hi.struct.shape with sh | ns
    · -- worker 0 exists, has exited, so the queue is empty
      have h0 : ∃ p, s.workers[0]? = some p := by
        have : 0 < s.workers.length := by omega
        exact ⟨s.workers[0], by simp [this]⟩
      obtain ⟨p, hp⟩ := h0
      have pe := hex 0 p hp; subst pe
      have hq := hi.queue.drained 0 _ hp rfl
      have hf := hi.count.fifo
      simp [hq, queuedTasks] at hf
      have hheld : sumBy (holdsC k) s.workers = 0 :=
        sumBy_zero_of_all (fun w p hw => by rw [hex w p hw]; rfl)
      have hdq := hi.count.deq k
      have : 0 < s.dequeued.count k := by rw [hf]; exact List.count_pos_iff.mpr hk
      rcases Nat.eq_zero_or_pos (s.finished.count k) with z | pos
      · right; exact List.count_pos_iff.mp (by omega)
      · left; exact List.count_pos_iff.mp pos
    · simp [ns.2.2.2.1] at hk
  · simp only [viewOf, exitedCount, length_filter_eq_sumBy]
    exact sumBy_eq_length_of_all (fun w p hw => by rw [hex w p hw]; rfl)

/-! ### Drop never blocks (repaired code) and blocks forever (code before the repair) -/

def Label.isRecoveryProgress : Label → Bool
  | .recJoin | .recRespawn => true
  | _ => false

def Label.isDropStep : Label → Bool
  | .dropDetachRecovery | .dropDetach | .dropSender => true
  | _ => false

/-- Whenever the caller is inside `drop`, its next step is enabled right away, or becomes enabled after at most
two steps of the recovery thread which are themselves enabled (it holds the `threads` mutex only while joining
a worker that is already dead and respawning it). The caller never waits for a thread that cannot finish. -/
theorem drop_never_blocks {c : Cfg} {s : State} (h : Reachable c s)
    (hc : s.caller = .dropRec ∨ s.caller = .dropThreads ∨ s.caller = .dropTx) :
    ∃ ls s₁ l, ls.length ≤ 2 ∧ ls.all Label.isRecoveryProgress = true ∧ run c s ls = some s₁ ∧
      l.isDropStep = true ∧ (step c s₁ l).isSome = true := by
  have hi := Inv.of_reachable h
  rcases hc with hc | hc | hc
  · exact ⟨[], s, .dropDetachRecovery, by simp, by simp, rfl, rfl, by simp [step, hc]⟩
  · have hlife := hi.caller.threads hc
    have hab : s.recov ≠ .absent := by
      rcases hi.struct.shape with sh | ns
      · exact sh.2.2
      · have := hi.caller.dropped
        rcases hl : s.life <;> simp_all [NeverStarted]
    have dead_of : ∀ v, s.recov.busyWith v = true → s.workers[v]? = some .dead := by
      intro v hv
      have := hi.struct.recv v
      by_cases e : s.workers[v]? = some .dead
      · exact e
      · simp [e, hv] at this
    cases hrec : s.recov with
    | absent => exact absurd hrec hab
    | ended => exact absurd hrec hi.struct.recAlive
    | waiting => exact ⟨[], s, .dropDetach, by simp, by simp, rfl, rfl, by simp [step, hc, hrec]⟩
    | joining v =>
      have hv := dead_of v (by simp [hrec, Rec.busyWith])
      refine ⟨[.recJoin, .recRespawn], { setW { s with recov := .respawning v } v .idle with recov := .waiting },
        .dropDetach, by simp, by simp [Label.isRecoveryProgress], ?_, rfl, ?_⟩
      · simp [run, runWith, step, hrec, hv]
      · simp [step, setW, hc]
    | respawning v =>
      have hv := dead_of v (by simp [hrec, Rec.busyWith])
      refine ⟨[.recRespawn], { setW s v .idle with recov := .waiting },
        .dropDetach, by simp, by simp [Label.isRecoveryProgress], ?_, rfl, ?_⟩
      · simp [run, runWith, step, hrec, hv]
      · simp [step, setW, hc]
  · exact ⟨[], s, .dropSender, by simp, by simp, rfl, rfl, by simp [step, hc]⟩

/-- In particular the repaired `drop` never joins the recovery thread at all. -/
theorem drop_never_joins_recovery {c : Cfg} {s : State} : step c s .dropJoinRecovery = none := rfl

/-- The code before the repair: `start; drop` reaches a state in which the caller is inside
`thread.join()` of the recovery thread and stays there in every continuation — blocked forever, although the
other threads can still move. -/
theorem drop_without_stop_deadlocks_unrepaired (c : Cfg) :
    ∃ s, ReachableU c s ∧ s.caller = .dropRec ∧ stepU c s .dropJoinRecovery = none ∧
      ∀ ls s', runU c s ls = some s' → s'.caller = .dropRec ∧ stepU c s' .dropJoinRecovery = none := by
  let s : State := { init with life := .started, workers := List.replicate c.n .idle, recov := .waiting, caller := .dropRec }
  refine ⟨s, ⟨[.start, .dropBegin], ?_⟩, rfl, ?_, ?_⟩
  · simp [runU, runWith, stepU, step, init, s]
  · simp [stepU, s]
  · intro ls s' hr
    have := blocked_in_join_forever ls s s' rfl rfl (by simp [s]) hr
    refine ⟨this.1, ?_⟩
    simp [stepU, this.2.1, this.2.2]


/-! ### The executable `enabled` / `terminalB` used by the driver -/

/-- In every reachable state `enabled` lists exactly the labels on which `step` is defined … -/
theorem enabled_iff_step {c : Cfg} {s : State} (h : Reachable c s) (l : Label) :
    l ∈ enabled c s ↔ (step c s l).isSome = true :=
  mem_enabled_iff (InvStruct.of_reachable h) l

/-- … and the driver's end-of-trace test `terminalB` is `Terminal`. -/
theorem terminalB_iff_terminal {c : Cfg} {s : State} (h : Reachable c s) : terminalB c s = true ↔ Terminal c s :=
  terminalB_iff (InvStruct.of_reachable h)

/-! ### Non-vacuity: concrete executions -/

/-- N = 1, task 0 panics: the worker dies, is joined and respawned under the same id, and the new incarnation
runs task 1; after `stop` and `drop` nothing can move, both tasks are accounted for, the worker has exited. -/
def demoCfg : Cfg := { n := 1, panics := fun k => k == 0 }

def demoTrace : List Label :=
  [.start, .submit 0, .submit 1, .reqLock 0, .lock 0, .recv 0, .unlock 0, .run 0, .panic 0, .markerSend 0,
   .recRecv 0, .recJoin, .recRespawn, .reqLock 0, .lock 0, .recv 0, .unlock 0, .run 0, .finish 0,
   .stop, .dropBegin, .dropDetachRecovery, .dropDetach, .dropSender,
   .reqLock 0, .lock 0, .recv 0, .unlock 0, .exit 0]

example : (run demoCfg init demoTrace).map (fun s => (s.panicked, s.finished, s.started))
    = some ([0], [1], [0, 1]) := by decide

example : (run demoCfg init demoTrace).map (fun s => (s.workers, s.life, s.caller))
    = some ([.exited], .dropped, .done) := by decide

example : (run demoCfg init demoTrace).map (terminalB demoCfg) = some true := by decide

/-- the same script without `stop`: the worker leaves on the disconnected channel -/
example : (run demoCfg init [.start, .submit 0, .dropBegin, .dropDetachRecovery, .dropDetach, .dropSender,
    .reqLock 0, .lock 0, .recv 0, .unlock 0, .run 0, .panic 0, .markerSend 0, .recRecv 0, .recJoin, .recRespawn,
    .reqLock 0, .lock 0, .recv 0, .unlock 0, .exit 0]).map (fun s => (s.panicked, s.workers, terminalB demoCfg s))
    = some ([0], [.exited], true) := by decide

/-- two workers run two tasks at the same time with the mutex free -/
example : (run { n := 2, panics := fun _ => false } init
    [.start, .submit 0, .submit 1, .reqLock 0, .reqLock 1, .lock 1, .recv 1, .unlock 1, .run 1,
     .lock 0, .recv 0, .unlock 0, .run 0]).map (fun s => (s.workers, s.rxLock))
    = some ([.running 1, .running 0], none) := by decide

/-- the unrepaired `drop` is stuck right after `start; dropBegin`: the join is not enabled -/
example : (runU demoCfg init [.start, .dropBegin]).map (fun s => (stepU demoCfg s .dropJoinRecovery).isSome)
    = some false := by decide

end Humphrey.Pool
