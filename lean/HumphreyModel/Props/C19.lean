import HumphreyModel.Proofs.Blacklist

/-!
# C19 — a blacklisted address never receives content

Model: `Model/Blacklist.lean` (`verify_connection`, `is_blacklisted`/`blacklist_check`, the four handlers with
the cache check behind the blacklist check, composed with `Address.fromHeaders` of C02).  The model is the code
AFTER the repair of D25 (the test looks at the origin address and at every proxy, the last of which is the
peer).  Spec: `Spec/Blacklist.lean` (`Holds`, on configuration, peer, forwarded addresses and observation).

Reading of "forwarded on behalf of a listed address": EVERY entry of the `X-Forwarded-For` field that parses
as an address counts, in any position and with any white space around it — not only the last one, which is
what `origin_addr` is.  Reason: the statement serves normally only clients "whose own and forwarded addresses
are all unlisted", so a request naming a listed address anywhere must not be served; and the repaired code
tests exactly the origin plus all proxies.  `forwarded_for_listed_403` is therefore stated for any entry.

All theorems quantify over every `parseIp` (`IpAddr::from_str`), list, mode, peer, header list, route of each
of the four types, and — for file and directory routes — every cache state, clock and key (`CacheCtx`;
cache off is `cache.limit = 0`).
-/
namespace Humphrey.Blacklist
open Humphrey Humphrey.Http Humphrey.BlacklistSpec

variable (parseIp : Bytes → Option Ip) (cfg : BlCfg) (peer : Ip) (hs : Headers) (route : Route)

/-- The decision table of the whole path, from which everything below is read off. -/
theorem handle_decision :
    handle parseIp cfg peer hs route =
      if listed cfg peer then (if cfg.mode = .block then .closedNoResponse else .forbidden403)
      else if (forwarded parseIp hs).any (listed cfg) then .forbidden403
      else route.unrefused := by
  unfold handle respond admits
  cases hp : listed cfg peer
  · have hadm : (!(cfg.mode == Mode.block && false)) = true := by simp
    simp only [hadm, if_true, Bool.false_eq_true, if_false]
    cases hf : (forwarded parseIp hs).any (listed cfg)
    · rw [dispatch_not_blacklisted]
      · simp
      · rw [isBlacklisted_fromHeaders, hp, hf]; rfl
    · rw [dispatch_blacklisted]
      · simp
      · rw [isBlacklisted_fromHeaders, hp, hf]; rfl
  · cases hm : cfg.mode
    · simp
    · simp only [if_true]
      have : (!(Mode.forbidden == Mode.block && true)) = true := by decide
      simp only [this, if_true, reduceCtorEq, if_false]
      rw [dispatch_blacklisted]
      rw [isBlacklisted_fromHeaders, hp]; rfl

/-- **Block mode.** A listed peer is refused by the connection condition: nothing is answered, whatever the
request and the route. -/
theorem listed_peer_block_mode_closed (hl : peer ∈ cfg.list) (hm : cfg.mode = .block) :
    admits cfg peer = false ∧ ∀ hs route, handle parseIp cfg peer hs route = .closedNoResponse := by
  have hp := (listed_iff cfg peer).2 hl
  refine ⟨by simp [admits, hp, hm], fun hs route => ?_⟩
  rw [handle_decision]; simp [hp, hm]

/-- **Forbidden mode.** A listed peer is answered 403 by every route type, whatever headers it sends
(in particular whatever `X-Forwarded-For` says) and whatever the cache holds.  False before the repair:
see `forbidden_mode_bypass_before_repair` below. -/
theorem listed_peer_forbidden_mode_always_403 (hl : peer ∈ cfg.list) (hm : cfg.mode = .forbidden) :
    ∀ hs route, handle parseIp cfg peer hs route = .forbidden403 := by
  intro hs route
  have hp := (listed_iff cfg peer).2 hl
  rw [handle_decision]; simp [hp, hm]

/-- **Forwarded addresses.** If ANY comma-separated entry of the `X-Forwarded-For` field, after trimming
white space, parses to a listed address, every handler answers 403 (both modes, any peer); so does the whole
path for every admitted connection (every unlisted peer; every peer in `forbidden` mode). -/
theorem forwarded_for_listed_403 (fwd e : Bytes) (a : Ip) (hx : hs.get hXff = some fwd)
    (he : e ∈ Bytes.splitOn 44 fwd) (hpa : parseIp (Bytes.trim e) = some a) (hl : a ∈ cfg.list) :
    respond parseIp cfg peer hs route = .forbidden403 ∧
    (admits cfg peer = true → handle parseIp cfg peer hs route = .forbidden403) := by
  have hmem : a ∈ forwarded parseIp hs := by
    simp only [forwarded, hx, List.mem_filterMap]
    exact ⟨e, he, hpa⟩
  have hany : (forwarded parseIp hs).any (listed cfg) = true :=
    (any_listed_iff cfg _).2 ⟨a, hmem, hl⟩
  have hr : respond parseIp cfg peer hs route = .forbidden403 := by
    unfold respond
    apply dispatch_blacklisted
    rw [isBlacklisted_fromHeaders, hany, Bool.or_true]
  exact ⟨hr, fun hadm => by simp [handle, hadm, hr]⟩

/-- The same for an unlisted peer, in the form of the property's sentence. -/
theorem forwarded_for_listed_unlisted_peer_403 (a : Ip) (hp : peer ∉ cfg.list)
    (hmem : a ∈ forwarded parseIp hs) (hl : a ∈ cfg.list) :
    handle parseIp cfg peer hs route = .forbidden403 := by
  rw [handle_decision]
  simp [(listed_false_iff cfg peer).2 hp, (any_listed_iff cfg _).2 ⟨a, hmem, hl⟩]

/-- **Unlisted clients are served normally.** If neither the peer nor any forwarded address is listed, the
answer is what the route gives when the check has passed — the same answer as under an empty blacklist —
and it is content unless `Cache::get` panics (C16: only when the clock went backwards). -/
theorem unlisted_served (hp : peer ∉ cfg.list) (hf : ∀ a ∈ forwarded parseIp hs, a ∉ cfg.list) :
    handle parseIp cfg peer hs route = route.unrefused ∧
    handle parseIp cfg peer hs route = handle parseIp { cfg with list := [] } peer hs route ∧
    (route.lookupOk → ∃ k, handle parseIp cfg peer hs route = .served k) := by
  have h1 : handle parseIp cfg peer hs route = route.unrefused := by
    rw [handle_decision]
    simp [(listed_false_iff cfg peer).2 hp, (any_listed_false_iff cfg _).2 hf]
  have h2 : handle parseIp { cfg with list := [] } peer hs route = route.unrefused := by
    rw [handle_decision]
    have : ∀ l : List Ip, l.any (listed { cfg with list := [] }) = false := by
      intro l; simp [listed]
    simp [listed, this]
  exact ⟨h1, by rw [h1, h2], fun hok => by rw [h1]; exact unrefused_served route hok⟩

/-- **The check precedes the cache.** Whatever the cache holds for the requested key — in particular a fresh
entry `it` that `cache_check` would return — a client that is listed (as peer or through any forwarded
address) is never answered from it, on the file route and on the directory route. -/
theorem check_precedes_cache (hl : ∃ a ∈ peer :: forwarded parseIp hs, a ∈ cfg.list)
    (cc : CacheCtx) (rest : String) :
    (∀ k, handle parseIp cfg peer hs (.file cc rest) ≠ .served k) ∧
    (∀ k, handle parseIp cfg peer hs (.directory cc rest) ≠ .served k) := by
  have key : ∀ r : Route, ∀ k, handle parseIp cfg peer hs r ≠ .served k := by
    intro r k
    rw [handle_decision]
    obtain ⟨a, ha, hal⟩ := hl
    rcases List.mem_cons.1 ha with rfl | ha
    · simp only [(listed_iff cfg a).2 hal, if_true]
      cases cfg.mode <;> simp
    · have := (any_listed_iff cfg _).2 ⟨a, ha, hal⟩
      cases listed cfg peer
      · simp [this]
      · cases cfg.mode <;> simp
  exact ⟨key _, key _⟩

/-- … while the very same cache entry does reach a client nobody has listed (so `check_precedes_cache` is not
about an unreachable branch). -/
theorem cache_reaches_unlisted (hp : peer ∉ cfg.list) (hf : ∀ a ∈ forwarded parseIp hs, a ∉ cfg.list)
    (cc : CacheCtx) (rest : String) (it : Cache.Item) (hit : cacheCheck cc = .ok (some it)) :
    handle parseIp cfg peer hs (.file cc rest) = .served (.cached it) ∧
    handle parseIp cfg peer hs (.directory cc rest) = .served (.cached it) := by
  constructor <;>
  · rw [(unlisted_served parseIp cfg peer hs _ hp hf).1]
    simp [Route.unrefused, afterCheckStatic, hit]

/-- **C19, the title alone, with no side condition:** whoever is listed — as the connecting address or as any
forwarded address — observes no content, for every mode, route type, header list and cache state. -/
theorem listed_never_content :
    NoContentToListed cfg.list peer (forwarded parseIp hs) (handle parseIp cfg peer hs route).obs := by
  intro hl
  rw [handle_decision]
  obtain ⟨a, ha, hal⟩ := hl
  rcases List.mem_cons.1 ha with rfl | ha
  · simp only [(listed_iff cfg a).2 hal, if_true]
    cases cfg.mode <;> simp [Outcome.obs]
  · have := (any_listed_iff cfg _).2 ⟨a, ha, hal⟩
    cases listed cfg peer
    · simp [this, Outcome.obs]
    · cases cfg.mode <;> simp [Outcome.obs]

/-- **C19 as one statement over the specification predicate.** For every configuration, peer, header list
and route (whose cache lookup does not panic), what the client observes is what `Spec.Holds` demands:
closed / 403 / 403 / content in the four cases of the property. -/
theorem never_content_to_listed (hok : route.lookupOk) :
    Holds (cfg.mode == .block) cfg.list peer (forwarded parseIp hs)
      (handle parseIp cfg peer hs route).obs := by
  refine ⟨fun hl hm => ?_, fun hl hm => ?_, fun hp hf => ?_, fun hp hf => ?_⟩
  · have hm' : cfg.mode = .block := by simpa using hm
    rw [(listed_peer_block_mode_closed parseIp cfg peer hl hm').2]; rfl
  · have hm' : cfg.mode = .forbidden := by
      cases h : cfg.mode
      · simp [h] at hm
      · rfl
    rw [listed_peer_forbidden_mode_always_403 parseIp cfg peer hl hm']; rfl
  · obtain ⟨a, ha, hal⟩ := hf
    rw [forwarded_for_listed_unlisted_peer_403 parseIp cfg peer hs route a hp ha hal]; rfl
  · obtain ⟨k, hk⟩ := (unlisted_served parseIp cfg peer hs route hp hf).2.2 hok
    rw [hk]; rfl

/-- The observation is the one `Spec.expected` computes (used by the driver to judge the implementation). -/
theorem obs_eq_expected (hok : route.lookupOk) :
    (handle parseIp cfg peer hs route).obs =
      expected (cfg.mode == .block) cfg.list peer (forwarded parseIp hs) :=
  (holds_iff_expected _ _ _ _ _).1 (never_content_to_listed parseIp cfg peer hs route hok)

/-! ## Non-vacuity and the defect witness

Addresses as the bytes of their canonical text; `some` as `parseIp` (every entry is an address).
`127.0.0.5` = `[49,50,55,46,48,46,48,46,53]`, `10.0.0.9` = `[49,48,46,48,46,48,46,57]`,
`8.8.8.8` = `[56,46,56,46,56,46,56]`, `::1` = `[58,58,49]`, `2001:db8::7` = `[50,48,48,49,58,100,98,56,58,58,55]`. -/

private def ip5 : Ip := [49, 50, 55, 46, 48, 46, 48, 46, 53]
private def ip9 : Ip := [49, 48, 46, 48, 46, 48, 46, 57]
private def ip8 : Ip := [56, 46, 56, 46, 56, 46, 56]
private def ipL : Ip := [58, 58, 49]
private def ipDb : Ip := [50, 48, 48, 49, 58, 100, 98, 56, 58, 58, 55]
/-- list = {127.0.0.5, ::1, 2001:db8::7} -/
private def cfgF : BlCfg := ⟨.forbidden, [ip5, ipL, ipDb]⟩
private def cfgB : BlCfg := ⟨.block, [ip5, ipL, ipDb]⟩
/-- `X-Forwarded-For: 8.8.8.8` -/
private def xff8 : Headers := [⟨hXff, ip8⟩]
/-- `X-Forwarded-For:  2001:db8::7 ,8.8.8.8` (a listed IPv6 address first, spaces around it) -/
private def xffDb8 : Headers := [⟨hXff, [32] ++ ipDb ++ [32, 44] ++ ip8⟩]
/-- `X-Forwarded-For: 8.8.8.8,  ::1` -/
private def xff8L : Headers := [⟨hXff, ip8 ++ [44, 32, 32] ++ ipL⟩]

/-- **D25, the defect.** With the unrepaired test (`origin_addr` only) a listed peer in `forbidden` mode that
sends `X-Forwarded-For: 8.8.8.8` is served: `listed_peer_forbidden_mode_always_403` was false of the code. -/
theorem forbidden_mode_bypass_before_repair :
    ip5 ∈ cfgF.list ∧ respondOld some cfgF ip5 xff8 "index.html" = .served (.fresh "index.html") := by
  constructor
  · decide
  · simp [respondOld, isBlacklistedOld_fromHeaders, forwarded, xff8, Headers.get, listed, cfgF]
    decide

/-- The same request on the repaired path: 403 on all four route types (hypotheses of
`listed_peer_forbidden_mode_always_403` are satisfiable). -/
example : handle some cfgF ip5 xff8 (.proxy "up") = .forbidden403 ∧
    handle some cfgF ip5 xff8 (.redirect "to") = .forbidden403 ∧
    handle some cfgF ipL [] (.proxy "up") = .forbidden403 :=
  ⟨listed_peer_forbidden_mode_always_403 some cfgF ip5 (by decide) rfl _ _,
   listed_peer_forbidden_mode_always_403 some cfgF ip5 (by decide) rfl _ _,
   listed_peer_forbidden_mode_always_403 some cfgF ipL (by decide) rfl _ _⟩

/-- Block mode: the listed IPv6 loopback peer is refused; an unlisted peer is admitted. -/
example : admits cfgB ipL = false ∧ admits cfgB ip9 = true ∧ admits cfgF ipL = true := by decide

/-- A listed address in a non-final position, with spaces, from an unlisted peer, in block mode: 403.
(Before the repair the origin `8.8.8.8` alone was tested and the request was served.) -/
example : forwarded some xffDb8 = [ipDb, ip8] ∧
    handle some cfgB ip9 xffDb8 (.proxy "up") = .forbidden403 := by
  have h : forwarded some xffDb8 = [ipDb, ip8] := by decide
  exact ⟨h, forwarded_for_listed_unlisted_peer_403 some cfgB ip9 xffDb8 _ ipDb (by decide)
    (by rw [h]; decide) (by decide)⟩

/-- The listed address as the last entry (the origin), after two spaces. -/
example : handle some cfgF ip9 xff8L (.redirect "to") = .forbidden403 :=
  forwarded_for_listed_unlisted_peer_403 some cfgF ip9 xff8L _ ipL (by decide)
    (by decide) (by decide)

/-- Nobody listed: served, from the cache when it holds a fresh entry, else by the rest of the handler. -/
example : handle some cfgF ip9 xff8 (.file ⟨3, ⟨4, 60, 3, [⟨"/a", 0, 2, 2, [5, 6, 7]⟩]⟩, "/a", 0⟩ "a.txt") =
    .served (.cached ⟨"/a", 0, 2, 2, [5, 6, 7]⟩) := by
  refine (cache_reaches_unlisted some cfgF ip9 xff8 (by decide) (by decide) _ _ _ ?_).1
  simp [cacheCheck, Cache.get, Cache.find, Cache.isKey]

example : handle some cfgF ip9 xff8 (.directory ⟨3, Cache.empty 0 0, "/a", 0⟩ "a.txt") =
    .served (.fresh "a.txt") := by
  rw [(unlisted_served some cfgF ip9 xff8 _ (by decide) (by decide)).1]
  simp [Route.unrefused, afterCheckStatic, cacheCheck, Cache.empty]

/-- The same cache entry and a listed peer: 403, not the cached bytes. -/
example : handle some cfgF ip5 xff8 (.file ⟨3, ⟨4, 60, 3, [⟨"/a", 0, 2, 2, [5, 6, 7]⟩]⟩, "/a", 0⟩ "a.txt") =
    .forbidden403 :=
  listed_peer_forbidden_mode_always_403 some cfgF ip5 (by decide) rfl _ _

end Humphrey.Blacklist
