import HumphreyModel.Props.C13
import HumphreyModel.Proofs.JsonRecSound
import HumphreyModel.Proofs.JsonRecDepth
import HumphreyModel.Proofs.JsonDecShow

/-!
# C13, trusted base — the executable acceptor of the driver is the inductive grammar

The correspondence driver judges the Rust parser's accept/reject answer with the executable
acceptor `JsonSpec.recognise : List Char → Option (Nat × Bool)` (nesting depth, "has an escape
denoting an unpaired surrogate"). The theorems of `Props/C13.lean` are stated against the
inductive grammar `JsonText C s v d`. This file proves that the two coincide:

* `recognise s = some (d, false)` iff `s` is a `JsonText` of nesting depth exactly `d`
  (`JsonText`'s depth index is exact: it is a function of the text, `json_text_depth_unique`);
* the fuel `2 * s.length + 2` that `recognise` supplies is sufficient (part of completeness);
* `Value::parse` (the model) accepts `s` iff `recognise s = some (d, false)` with `d ≤ MAX_DEPTH`.

Soundness needs the codec to read every number lexeme (`LawfulCodec.parse_total`), because
`J.number` carries the denotation of the lexeme; completeness needs nothing about the codec.

Second half: the executable codec `decCodec` the driver instantiates the model with is lawful,
`decCodec_lawful : LawfulCodec decCodec DecFin`, where `DecFin` (normal form: no trailing decimal
zero in the mantissa, zero is `0e0` with either sign) is exactly the range of `decParse`.
-/
namespace Humphrey.Json
open Humphrey.JsonSpec

variable {N : Type} {C : NumCodec N}

/-- **Completeness of the acceptor, with depth.** A text of the grammar with depth index `d` is
accepted, the depth reported is `d`, the unpaired-surrogate flag is `false`; in particular the fuel
`2 * s.length + 2` is never exhausted. No assumption on the codec. -/
theorem recognise_complete {s : List Char} {v : Value N} {d : Nat} (h : JsonText C s v d) :
    recognise s = some (d, false) := by
  obtain ⟨w1, t, w2, rfl, hw1, hw2, hj⟩ := h
  obtain ⟨c, r, rfl, hcws, _⟩ := rec_value_head hj
  have hp := rec_complete_aux hj (2 * (w1 ++ (c :: r ++ w2)).length + 2) false w2
    (by simpa using delim_ws_append hw2 delim_nil)
    (by simp only [List.length_append, List.length_cons]; omega)
  unfold recognise
  rw [List.cons_append] at hp ⊢
  rw [rec_skipWs_ws_then _ hw1 hcws, hp]
  simp [rec_skipWs_ws hw2]

/-- **Soundness of the acceptor, with depth.** If the acceptor answers `(d, false)` the text is in
the grammar with depth index `d` (for a codec that reads every RFC 8259 number lexeme). -/
theorem recognise_sound (hC : ∀ l, NumberLexeme l → ∃ n, C.parse l = some n) {s : List Char} {d : Nat}
    (h : recognise s = some (d, false)) : ∃ v, JsonText C s v d := by
  unfold recognise at h
  split at h
  · simp at h
  · rename_i d' lone r hv
    split at h
    · rename_i hemp
      simp only [Option.some.injEq, Prod.mk.injEq] at h
      obtain ⟨rfl, rfl⟩ := h
      obtain ⟨_, t, v, hs, hj⟩ := (rec_sound_aux C hC _).1 _ _ _ _ hv
      obtain ⟨w1, hw1, hs1⟩ := rec_skipWs_split s
      obtain ⟨w2, hw2, hs2⟩ := rec_skipWs_split r
      have : skipWs r = [] := by simpa using hemp
      rw [this, List.append_nil] at hs2
      subst hs2
      exact ⟨v, w1, t, r, by rw [← hs]; exact hs1, hw1, hw2, hj⟩
    · simp at h

/-- **`recognise` is the grammar, depth included**: the acceptor answers `(d, false)` exactly on
the RFC 8259 texts without unpaired-surrogate escapes whose nesting depth is `d`. -/
theorem recognise_depth_iff_json_text (hC : ∀ l, NumberLexeme l → ∃ n, C.parse l = some n)
    (s : List Char) (d : Nat) : recognise s = some (d, false) ↔ ∃ v, JsonText C s v d :=
  ⟨recognise_sound hC, fun ⟨_, h⟩ => recognise_complete h⟩

/-- **`recognise` is the grammar** (acceptance alone). -/
theorem recognise_iff_json_text (hC : ∀ l, NumberLexeme l → ∃ n, C.parse l = some n) (s : List Char) :
    (∃ d, recognise s = some (d, false)) ↔ ∃ v d, JsonText C s v d :=
  ⟨fun ⟨d, h⟩ => let ⟨v, hj⟩ := recognise_sound hC h; ⟨v, d, hj⟩,
   fun ⟨_, d, h⟩ => ⟨d, recognise_complete h⟩⟩

/-- The same for a lawful codec (the form used with `decCodec_lawful`). -/
theorem recognise_iff_json_text_of_lawful {Fin : N → Prop} (hC : LawfulCodec C Fin) (s : List Char) (d : Nat) :
    recognise s = some (d, false) ↔ ∃ v, JsonText C s v d :=
  recognise_depth_iff_json_text hC.parse_total s d

/-- The depth index of `JsonText` is exact (a function of the text), not an upper bound. -/
theorem json_text_depth_unique {s : List Char} {v v' : Value N} {d d' : Nat}
    (h : JsonText C s v d) (h' : JsonText C s v' d') : d = d' := by
  have a := recognise_complete h
  have b := recognise_complete h'
  rw [a] at b
  simp only [Option.some.injEq, Prod.mk.injEq, and_true] at b
  exact b

/-- What is outside the grammar: rejected, or flagged as containing an unpaired-surrogate escape. -/
theorem not_json_text_iff_recognise (hC : ∀ l, NumberLexeme l → ∃ n, C.parse l = some n) (s : List Char) :
    (¬ ∃ v d, JsonText C s v d) ↔ (recognise s = none ∨ ∃ d, recognise s = some (d, true)) := by
  rw [← recognise_iff_json_text hC]
  cases h : recognise s with
  | none => simp
  | some p =>
    obtain ⟨d, b⟩ := p
    cases b <;> simp

/-- **The model parser against the acceptor the driver uses**: `Value::parse` accepts exactly the
texts on which `recognise` answers `(d, false)` with `d ≤ MAX_DEPTH`. -/
theorem parse_accepts_iff_recognise (hC : ∀ l, NumberLexeme l → ∃ n, C.parse l = some n) (s : List Char) :
    (∃ v, parse C s = some v) ↔ ∃ d, d ≤ maxDepth ∧ recognise s = some (d, false) := by
  rw [parse_accepts_iff]
  constructor
  · rintro ⟨v, d, hd, hj⟩
    exact ⟨d, hd, recognise_complete hj⟩
  · rintro ⟨d, hd, hr⟩
    obtain ⟨v, hj⟩ := recognise_sound hC hr
    exact ⟨v, d, hd, hj⟩

/-- The three branches of the driver's `json_parse` verdict, for the model: rejected by the
acceptor ⇒ rejected by the parser; flagged ⇒ rejected by the parser (the model never accepts an
unpaired-surrogate escape; the driver lets the implementation go either way); too deep ⇒ rejected. -/
theorem parse_none_of_recognise (hC : ∀ l, NumberLexeme l → ∃ n, C.parse l = some n) {s : List Char}
    (h : recognise s = none ∨ (∃ d, recognise s = some (d, true)) ∨
      ∃ d b, maxDepth < d ∧ recognise s = some (d, b)) : parse C s = none := by
  cases hp : parse C s with
  | none => rfl
  | some v =>
    obtain ⟨d, hd, hr⟩ := (parse_accepts_iff_recognise hC s).1 ⟨v, hp⟩
    rcases h with h | ⟨d', h⟩ | ⟨d', b, hlt, h⟩
    · rw [h] at hr; cases hr
    · rw [h] at hr; cases hr
    · rw [h] at hr
      simp only [Option.some.injEq, Prod.mk.injEq] at hr
      omega

/-! ### Non-vacuity -/

/-- `parse_none_of_recognise` applies: the flagged text below is rejected by the model -/
example : parse unitCodec ['"', '\\', 'u', 'D', '8', '0', '0', '"'] = none :=
  parse_none_of_recognise unitCodec_lawful.parse_total (Or.inr (Or.inl ⟨0, by decide⟩))

/-- `parse_accepts_iff_recognise` applies, right to left -/
example : ∃ v, parse unitCodec ['[', '[', ']', ',', '0', ']'] = some v :=
  (parse_accepts_iff_recognise unitCodec_lawful.parse_total _).2 ⟨2, by decide, by decide⟩

/-- the acceptor on the text of the `JsonText` example of `Props/C13.lean`: depth 3, no flag -/
example : recognise [' ', '[', '0', ' ', ',', '{', '"', 'a', '\\', 'n', '"', ':', '[', ']', '}', ']'] =
    some (3, false) := by decide

/-- an unpaired high surrogate is accepted with the flag set, hence not a `JsonText` -/
example : recognise ['"', '\\', 'u', 'D', '8', '0', '0', '"'] = some (0, true) := by decide

/-- a surrogate pair is fine -/
example : recognise ['"', '\\', 'u', 'D', '8', '0', '0', '\\', 'u', 'D', 'C', '0', '0', '"'] =
    some (0, false) := by decide

/-- leading zeros, trailing commas, bare words are rejected -/
example : recognise ['0', '1'] = none ∧ recognise ['[', '1', ',', ']'] = none ∧
    recognise ['n', 'u', 'l'] = none := by decide

/-- the hypotheses of `recognise_sound` are satisfiable, and its conclusion is a real derivation -/
example : ∃ v, JsonText unitCodec ['[', '0', ']'] v 1 :=
  recognise_sound unitCodec_lawful.parse_total (by decide)

/-- The depth the acceptor reports is the nesting depth `depthOf` of the value denoted. -/
theorem json_text_depthOf {s : List Char} {v : Value N} {d : Nat} (h : JsonText C s v d) : depthOf v = d := by
  obtain ⟨_, _, _, _, _, _, hj⟩ := h
  exact rec_depth_aux hj

theorem recognise_depth_eq_depthOf {s : List Char} {v : Value N} (h : parse C s = some v) :
    recognise s = some (depthOf v, false) := by
  obtain ⟨d, _, hj⟩ := parse_sound h
  rw [json_text_depthOf hj]
  exact recognise_complete hj

/-! ## The executable codec of the driver is lawful -/

/-- `from_str` law: `decParse` succeeds on every RFC 8259 number lexeme. -/
theorem decParse_total (l : List Char) (h : NumberLexeme l) : ∃ n, decParse l = some n := by
  have hl := isNumberLexeme_of_numberLexeme h
  unfold decParse
  rw [hl]
  exact ⟨_, rfl⟩

/-- `decParse` accepts exactly the RFC 8259 number lexemes. -/
theorem decParse_isSome_iff (l : List Char) : (∃ n, decParse l = some n) ↔ NumberLexeme l := by
  refine ⟨?_, decParse_total l⟩
  rintro ⟨n, h⟩
  rw [← isNumberLexeme_iff]
  cases hl : isNumberLexeme l with
  | true => rfl
  | false => unfold decParse at h; rw [hl] at h; simp at h

/-- `Display` law, for *every* `DecNum` (normal or not): the text printed is a number lexeme. -/
theorem decShow_lexeme (d : DecNum) : NumberLexeme (decShow d) := dec_show_lexeme d

/-- round-trip law: `decParse (decShow d) = some d` for `d` in normal form. -/
theorem decParse_decShow (d : DecNum) (h : DecFin d) : decParse (decShow d) = some d := dec_parse_show d h

/-- `DecFin` is exactly the range of `decParse` … -/
theorem decFin_iff_range (d : DecNum) : DecFin d ↔ ∃ l, decParse l = some d :=
  ⟨fun h => ⟨decShow d, dec_parse_show d h⟩, fun ⟨_, h⟩ => dec_parse_fin h⟩

/-- … hence the *tightest* predicate under which the round-trip law can hold. -/
theorem decParse_decShow_iff (d : DecNum) : decParse (decShow d) = some d ↔ DecFin d :=
  ⟨fun h => dec_parse_fin h, dec_parse_show d⟩

/-- **The codec the driver runs the model with satisfies the three laws the theorems of C13 assume.** -/
theorem decCodec_lawful : LawfulCodec decCodec DecFin :=
  ⟨decParse_total, fun n _ => dec_show_lexeme n, dec_parse_show⟩

/-- Outside the normal form the round-trip law fails (so `DecFin` cannot be dropped): a trailing
zero in the mantissa moves into the exponent, and zero loses its exponent. -/
example : ¬ DecFin ⟨false, 10, 0⟩ ∧ decParse (decShow ⟨false, 10, 0⟩) = some ⟨false, 1, 1⟩ := by decide
example : ¬ DecFin ⟨false, 0, 5⟩ ∧ decParse (decShow ⟨false, 0, 5⟩) = some ⟨false, 0, 0⟩ := by decide

/-- negative zero is a normal form of its own and survives the round trip (`-0` ≠ `0`, as for `f64`) -/
example : DecFin ⟨true, 0, 0⟩ ∧ decShow ⟨true, 0, 0⟩ = ['-', '0'] ∧
    decParse ['-', '0'] = some ⟨true, 0, 0⟩ ∧ decParse ['0'] = some ⟨false, 0, 0⟩ := by decide

/-- exponent signs, upper/lower case `e`, fraction digits: all read to the same normal form -/
example : decParse ['1', '2', '.', '5', '0', 'e', '+', '0', '2'] = some ⟨false, 125, 1⟩ ∧
    decParse ['1', '2', '5', '0', 'E', '0'] = some ⟨false, 125, 1⟩ ∧
    decParse ['0', '.', '0', '1', '2', '5', 'e', '-', '1'] = some ⟨false, 125, -5⟩ ∧
    decShow ⟨false, 125, -5⟩ = ['0', '.', '0', '0', '1', '2', '5'] ∧
    decShow ⟨true, 125, -1⟩ = ['-', '1', '2', '.', '5'] ∧
    decShow ⟨false, 125, 2⟩ = ['1', '2', '5', '0', '0'] := by decide

/-! ## The theorems of C13 for the driver's instance -/

/-- `recognise` is the grammar instantiated with the driver's codec. -/
theorem recognise_iff_json_text_dec (s : List Char) (d : Nat) :
    recognise s = some (d, false) ↔ ∃ v, JsonText decCodec s v d :=
  recognise_iff_json_text_of_lawful decCodec_lawful s d

/-- The model as run by the driver accepts exactly what the acceptor of the driver accepts without
flag, up to `MAX_DEPTH`. -/
theorem parse_dec_accepts_iff_recognise (s : List Char) :
    (∃ v, parse decCodec s = some v) ↔ ∃ d, d ≤ maxDepth ∧ recognise s = some (d, false) :=
  parse_accepts_iff_recognise decCodec_lawful.parse_total s

/-- Every number in a value returned by the model (run with `decCodec`) is in normal form … -/
theorem parse_dec_finite {s : List Char} {v : Value DecNum} (h : parse decCodec s = some v) :
    FiniteNumbers DecFin v := by
  obtain ⟨d, _, _, _, _, _, _, _, hj⟩ := parse_sound h
  exact rec_finite_aux (C := decCodec) (fun _ _ hp => dec_parse_fin hp) hj

/-- … so the round-trip theorems of C13 apply to it: parse ∘ serialise ∘ parse = parse. -/
theorem parse_dec_reserialize {s : List Char} {v : Value DecNum} (h : parse decCodec s = some v) :
    parse decCodec (serialize decCodec v) = some v := by
  obtain ⟨d, hd, hj⟩ := parse_sound h
  exact roundtrip decCodec_lawful v (parse_dec_finite h) (by rw [json_text_depthOf hj]; exact hd)

theorem parse_dec_reserialize_pretty (indent : Nat) {s : List Char} {v : Value DecNum}
    (h : parse decCodec s = some v) : parse decCodec (serializePretty decCodec indent v) = some v := by
  obtain ⟨d, hd, hj⟩ := parse_sound h
  exact roundtrip_pretty decCodec_lawful indent v (parse_dec_finite h) (by rw [json_text_depthOf hj]; exact hd)

/-- non-vacuity: the round trip on a concrete value with the driver's codec -/
example : parse decCodec (serialize decCodec (.array [.number ⟨true, 125, -5⟩, .object [(['k'], .number ⟨false, 0, 0⟩)]])) =
    some (.array [.number ⟨true, 125, -5⟩, .object [(['k'], .number ⟨false, 0, 0⟩)]]) :=
  roundtrip decCodec_lawful _ (by simp [FiniteNumbers, FiniteList, FiniteMembers]; decide)
    (by simp [depthOf, depthList, depthMembers, maxDepth])

end Humphrey.Json
