import HumphreyModel.Proofs.Base64Spec
import HumphreyModel.Proofs.Base64Main
import HumphreyModel.Proofs.Base64Bits

/-!
# C18 (Base64 half) — `humphrey-ws/src/util/base64.rs` is exact with respect to RFC 4648 §4

Property theorems only. Model: `Model/Base64.lean` (the loops of `encode` and `decode` after the
D3/D4 repairs, with an explicit `panic` outcome for the slice `to_be_bytes()[1..broken]`).
Spec: `Spec/Base64.lean` (bit-level: the bits of the input regrouped by 6 / by 8, Table 1, `=`
padding, the predicate `Shape`). All statements are for every byte string, no length bound.
Non-zero trailing bits in the last symbol before padding are *not* rejected (RFC 4648 §3.5: MAY).
-/
namespace Humphrey.Base64

/-- **Encoder = RFC 4648.** The shift-and-mask encoder produces exactly the bit-level encoding:
concatenate the input bits, regroup by 6 (zero bits added on the right), Table 1, `=` padding
to a multiple of four symbols. -/
theorem encode_eq_rfc4648 (b : Bytes) : encode b = Spec.encode b :=
  encode_eq_spec' b

/-- Every `ALPHABET[..]` index the encoder computes is in bounds (the Rust indexing cannot panic). -/
theorem encode_indices_in_bounds (a b c : UInt8) :
    (∀ n ∈ groupIndices a.toNat b.toNat c.toNat, n < 64) ∧
    a.toNat / 4 < 64 ∧ a.toNat % 4 * 16 < 64 ∧ a.toNat % 4 * 16 + b.toNat / 16 < 64 ∧
    b.toNat % 16 * 4 < 64 := by
  obtain ⟨h0, h1, h2, h3, h4, h5⟩ := groupIndices_lt a.toNat_lt b.toNat_lt c.toNat_lt
  refine ⟨?_, h0, h4, h1, h5⟩
  intro n hn
  simp only [groupIndices, List.mem_cons, List.not_mem_nil, or_false] at hn
  rcases hn with rfl | rfl | rfl | rfl <;> assumption

/-- The model's div/mod indices are the shift/mask expressions of `base64.rs`, on `u8`:
`a >> 2`, `(a & 0x03) << 4 | b >> 4`, `(b & 0x0f) << 2 | c >> 6`, `c & 0x3f`. -/
theorem groupIndices_eq_shift_mask (a b c : UInt8) :
    groupIndices a.toNat b.toNat c.toNat =
      [(a >>> 2).toNat, ((a &&& 0x03) <<< 4 ||| b >>> 4).toNat,
       ((b &&& 0x0f) <<< 2 ||| c >>> 6).toNat, (c &&& 0x3f).toNat] :=
  groupIndices_eq_shift_mask' a b c

/-- The decoder's accumulation `decoded |= v << (6 * (3 - i))`, `i = 0..3`, over sextet values is
the sum the model computes (the four fields are disjoint; no `u32` overflow: the result is `< 2^24`). -/
theorem decoded_or_eq_add (v0 v1 v2 v3 : Nat) (h1 : v1 < 64) (h2 : v2 < 64) (h3 : v3 < 64) :
    (((0 ||| v0 <<< (6 * (3 - 0))) ||| v1 <<< (6 * (3 - 1))) ||| v2 <<< (6 * (3 - 2))) |||
        v3 <<< (6 * (3 - 3)) =
      v0 * 2 ^ (6 * (3 - 0)) + v1 * 2 ^ (6 * (3 - 1)) + v2 * 2 ^ (6 * (3 - 2)) +
        v3 * 2 ^ (6 * (3 - 3)) :=
  decoded_or_eq_add' v0 v1 v2 v3 h1 h2 h3

/-- **Round trip.** The decoder inverts the encoder on every byte string. -/
theorem decode_encode (b : Bytes) : decode (encode b) = .ok b :=
  decode_encode' b

/-- **The decoder never panics** (the slice `[1..broken]` always has `1 ≤ broken ≤ 4`): for every
input, well-formed or not, the outcome is `Ok` or `Err`. -/
theorem decode_never_panics (s : Bytes) : decode s ≠ .panic := by
  unfold decode
  split
  · simp
  · exact decodeGroups_ne_panic s

/-- **Exactness of the decoder.** `decode` answers `Ok(b)` exactly when the text is well shaped
(alphabet symbols, then at most two `=`, total length a multiple of 4) and `b` is its bit-level
RFC 4648 decoding. -/
theorem decode_ok_iff (s b : Bytes) : decode s = .ok b ↔ Spec.Shape s ∧ b = Spec.decode s := by
  constructor
  · intro h
    unfold decode at h
    split at h
    · simp at h
    · next hlen =>
      obtain ⟨g, e⟩ := decodeGroups_sound s b (by omega) h
      exact ⟨g.shape, e⟩
  · rintro ⟨hs, rfl⟩
    have g := (gshape_iff_shape s).mpr hs
    simp [decode, g.length_mod, decodeGroups_of_gshape g]

/-- **Accepted input is well shaped**: length a multiple of 4, alphabet symbols only, `=` only
as the last one or two symbols (see `shape_explicit`). -/
theorem decode_ok_implies_shape (s b : Bytes) (h : decode s = .ok b) : Spec.Shape s :=
  ((decode_ok_iff s b).mp h).1

/-- **Decoder = RFC 4648 on well-shaped input.** -/
theorem decode_eq_spec (s : Bytes) (h : Spec.Shape s) : decode s = .ok (Spec.decode s) :=
  (decode_ok_iff s _).mpr ⟨h, rfl⟩

/-- **Malformed input is rejected**: everything that is not well shaped yields `Err(())`. -/
theorem decode_err_iff (s : Bytes) : decode s = .err ↔ ¬ Spec.Shape s := by
  constructor
  · intro h hs
    rw [decode_eq_spec s hs] at h
    cases h
  · intro hs
    cases h : decode s with
    | ok b => exact (hs (decode_ok_implies_shape s b h)).elim
    | err => rfl
    | panic => exact (decode_never_panics s h).elim

/-- `Shape` spelled out position by position: the length is a multiple of 4; every symbol is in
the alphabet or is `=`; `=` can stand only in the last two positions (so, the length being a
multiple of 4, only as the last one or two symbols of the last group, with at least two alphabet
symbols before it in that group); and after a `=` there is nothing but `=`. -/
theorem shape_explicit (s : Bytes) (h : Spec.Shape s) :
    s.length % 4 = 0 ∧ (∀ c ∈ s, c ∈ Spec.table ∨ c = Spec.pad) ∧
    (∀ i, i + 2 < s.length → ∃ c, s[i]? = some c ∧ c ∈ Spec.table) ∧
    (∀ i j, i ≤ j → j < s.length → s[i]? = some Spec.pad → s[j]? = some Spec.pad) := by
  obtain ⟨body, n, rfl, hall, hn, hlen⟩ := h
  refine ⟨hlen, ?_, ?_, ?_⟩
  · intro c hc
    rcases List.mem_append.mp hc with hc | hc
    · exact .inl (hall c hc)
    · exact .inr (List.eq_of_mem_replicate hc)
  · intro i hi
    have hi' : i < body.length := by simp at hi; omega
    refine ⟨body[i], ?_, hall _ (List.getElem_mem hi')⟩
    rw [List.getElem?_append_left hi', List.getElem?_eq_getElem hi']
  · intro i j hij hj hi
    have hib : ¬ i < body.length := by
      intro hlt
      rw [List.getElem?_append_left hlt, List.getElem?_eq_getElem hlt] at hi
      have hm := hall _ (List.getElem_mem hlt)
      rw [Option.some.inj hi] at hm
      exact pad_not_mem_table hm
    have hjb : body.length ≤ j := by omega
    rw [List.getElem?_append_right hjb, List.getElem?_replicate]
    simp at hj
    simp; omega

/-- The executable shape test with which the driver judges the implementation decides `Shape`;
so the driver's verdict `if shapeB s then ok (Spec.decode s) else err` is the specification. -/
theorem shapeB_iff_shape (s : Bytes) : Spec.shapeB s = true ↔ Spec.Shape s :=
  shapeB_iff_shape' s

/-- The decoder model *is* the executable specification the driver evaluates. -/
theorem decode_eq_driver_spec (s : Bytes) :
    decode s = if Spec.shapeB s then .ok (Spec.decode s) else .err := by
  by_cases h : Spec.shapeB s = true
  · rw [if_pos h]; exact decode_eq_spec s ((shapeB_iff_shape s).mp h)
  · rw [if_neg h]; exact (decode_err_iff s).mpr (fun hs => h ((shapeB_iff_shape s).mpr hs))

-- Non-vacuity, and the shapes that defeated the unrepaired decoder.
/-- `"+A=="` (D3): `+` is value 62 in the *first* position, i.e. the top six bits. -/
example : decode [43, 65, 61, 61] = .ok [0xF8] := by decide
/-- `"===="` (D4) is an error, not a panic. -/
example : decode [61, 61, 61, 61] = .err := by decide
/-- `"Zm=v"`, `"Zm9=Zm9v"`, `"Zm"`, `"Z==="` (D4) are rejected. -/
example : decode [90, 109, 61, 118] = .err := by decide
example : decode [90, 109, 57, 61, 90, 109, 57, 118] = .err := by decide
example : decode [90, 109] = .err := by decide
example : decode [90, 61, 61, 61] = .err := by decide
/-- `"Zm9v"`, `"Zm8="`, `"Zg=="` decode to `"foo"`, `"fo"`, `"f"`. -/
example : decode [90, 109, 57, 118] = .ok [102, 111, 111] := by decide
example : decode [90, 109, 56, 61] = .ok [102, 111] := by decide
example : decode [90, 103, 61, 61] = .ok [102] := by decide
example : Spec.Shape [90, 103, 61, 61] := decode_ok_implies_shape _ [102] (by decide)
example : ¬ Spec.Shape [90, 109, 61, 118] := (decode_err_iff _).mp (by decide)
/-- RFC 4648 §10 test vectors, on the *spec* (they validate the spec; labelled tests). -/
example : Spec.encode [102, 111, 111, 98, 97] = [90, 109, 57, 118, 89, 109, 69, 61] := by decide
example : Spec.decode [90, 109, 57, 118, 89, 109, 69, 61] = [102, 111, 111, 98, 97] := by decide
example : encode [0xFB, 0xEF, 0xBF] = [43, 43, 43, 47] := by decide    -- "+++/"

end Humphrey.Base64
