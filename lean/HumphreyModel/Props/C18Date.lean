import HumphreyModel.Proofs.Date
import HumphreyModel.Proofs.DateFormat

/-!
# C18 (HTTP dates) — every Unix timestamp of 1970 … 9999 formats to the correct weekday, day,
month, year and time in IMF-fixdate form

Property theorems only. Model: `Model/Date.lean` (`DateTime::from`, `to_string` of `date.rs`).
Spec: `Spec/Date.lean` (proleptic Gregorian calendar, weekday rule, RFC 7231 IMF-fixdate).
-/
namespace Humphrey.Date
open Humphrey.Date.Spec

/-- **C18, dates.** For every timestamp from 1970-01-01T00:00:00 to 9999-12-31T23:59:59 `from` does
not panic and yields a valid calendar date (month 0 = January) in the years 1970 … 9999 whose day
count since 1970-01-01 and time of day give back exactly the timestamp, with the weekday of that day. -/
theorem date_correct (t : Int) (h0 : 0 ≤ t) (h1 : t ≤ 253402300799) :
    ∃ d, DateTime.from t = some d ∧ d.timestamp = t ∧
      validDate d.year d.month d.day d.hour d.minute d.second d.weekday ∧
      daysFromCivil d.year d.month d.day * 86400 + d.hour * 3600 + d.minute * 60 + d.second = t ∧
      (d.weekday : Int) = weekdaySpec t ∧ 1970 ≤ d.year ∧ d.year ≤ 9999 := by
  have hnot : ¬ (t - MARCH_01_2000 < -9223372036854775808) := by simp only [MARCH_01_2000]; omega
  have hM0 : MARCH_01_2000 = 951868800 := rfl
  unfold DateTime.from
  simp only [hnot, ↓reduceIte]
  rw [hM0]
  -- the blocks of `from`, one at a time
  have hs := splitSeconds_spec (t - 951868800)
  generalize splitSeconds (t - 951868800) = p at hs ⊢
  obtain ⟨days, rs⟩ := p
  simp only at hs ⊢
  have hw := weekdayOf_spec days
  generalize weekdayOf days = wd at hw ⊢
  have h400 := split400_spec days
  generalize split400 days = p at h400 ⊢
  obtain ⟨q, r400⟩ := p
  simp only at h400 ⊢
  have h100 := split100_spec r400 h400.2.1 h400.2.2
  generalize split100 r400 = p at h100 ⊢
  obtain ⟨c, r100⟩ := p
  simp only at h100 ⊢
  have h4 := split4_spec r100 h100.2.2.2.1 h100.2.2.2.2.1
  generalize split4 r100 = p at h4 ⊢
  obtain ⟨b, r4⟩ := p
  simp only at h4 ⊢
  have h1y := split1_spec r4 h4.2.2.2.1 h4.2.2.2.2.1
  generalize split1 r4 = p at h1y ⊢
  obtain ⟨a, rd⟩ := p
  simp only at h1y ⊢
  -- the March-based year `y` and the day `rd` within it
  have hmarch := march_first a b c q h1y.2.1 h1y.2.2.1 h4.2.1 h4.2.2.1 h100.2.1 h100.2.2.1 _ rfl
  have hnext := next_leap a b c q h1y.2.1 h1y.2.2.1 h4.2.1 h4.2.2.1 h100.2.1 h100.2.2.1 _ rfl
  generalize a + 4 * b + 100 * c + 400 * q + 2000 = y at hmarch hnext ⊢
  have hA : days + 11017 = daysBeforeYear y + 59 + leapDay y + rd := by omega
  have hB : rd < 365 + leapDay (y + 1) := by
    have := leapDay_range (y + 1)
    by_cases hl : leapDay (y + 1) = 1
    · omega
    · have hn : ¬ (a = 3 ∧ (b < 24 ∨ c = 3)) := fun h => hl (hnext.mpr h)
      omega
  have hrd0 : 0 ≤ rd := h1y.2.2.2.1
  have hdays : 0 ≤ days + 11017 ∧ days + 11017 ≤ 2932896 := by omega
  clear hmarch hnext h400 h100 h4 h1y
  -- the month loop and the shift to a January-based year
  obtain ⟨k, r, hml, hk⟩ := monthLoop_table rd hrd0 (by have := leapDay_range (y + 1); omega)
  simp only [hml]
  obtain ⟨m, hm, hm12, hd1, hd2, hr30, hciv, hdoy⟩ := civil_of_march_based y rd k r hrd0 hB hk
  generalize (shiftMonth k y).2 = Y at hd2 hciv hdoy ⊢
  generalize (shiftMonth k y).1 = mo at hm ⊢
  clear hk hml
  have hciv' := hciv
  unfold daysFromCivil at hciv'
  have hbm := daysBeforeMonth_nonneg Y m
  have hY := year_range Y (daysBeforeMonth Y m + r) (by omega) (by omega) (by omega) hdoy
  -- time of day
  have hH := tdiv_tmod_facts rs 3600 (by decide)
  have hMi := tdiv_tmod_facts rs 60 (by decide)
  have hMi2 := tdiv_tmod_facts (rs.tdiv 60) 60 (by decide)
  generalize rs.tdiv 3600 = hour at hH ⊢
  generalize rs.tmod 3600 = hourRem at hH ⊢
  generalize (rs.tdiv 60).tmod 60 = minute at hMi2 ⊢
  generalize (rs.tdiv 60).tdiv 60 = minuteQ at hMi2 ⊢
  generalize rs.tdiv 60 = minutes at hMi hMi2 ⊢
  generalize rs.tmod 60 = second at hMi ⊢
  refine ⟨_, rfl, rfl, ?_⟩
  simp only [hm]
  rw [asU16_cast Y (by omega) (by omega), asU8_cast (r + 1) (by omega) (by omega),
    asU8_cast hour (by omega) (by omega), asU8_cast minute (by omega) (by omega),
    asU8_cast second (by omega) (by omega), asU8_cast wd (by omega) (by omega)]
  refine ⟨?_, ?_, ?_, ?_, ?_⟩
  · unfold validDate
    omega
  · rw [hciv]; omega
  · unfold weekdaySpec; omega
  · have := asU16_cast Y (by omega) (by omega); omega
  · have := asU16_cast Y (by omega) (by omega); omega

/-- **C18, IMF-fixdate layout.** For fields in range (in particular a four-digit year) `to_string`
does not panic and is exactly `day-name "," SP 2DIGIT SP month SP 4DIGIT SP 2DIGIT ":" 2DIGIT ":" 2DIGIT SP
"GMT"` of RFC 7231 with the names of the RFC — 29 characters. -/
theorem imf_fixdate_format (d : DateTime) (hw : d.weekday < 7) (hm : d.month < 12) (hd : d.day < 100)
    (hy0 : 1000 ≤ d.year) (hy1 : d.year ≤ 9999) (hh : d.hour < 100) (hmi : d.minute < 100)
    (hs : d.second < 100) :
    d.toString = some (imfFixdate d.year d.month d.day d.hour d.minute d.second d.weekday) ∧
    (imfFixdate d.year d.month d.day d.hour d.minute d.second d.weekday).length = 29 := by
  obtain ⟨hmo, hpad, hmlen⟩ := months_table d.month hm
  constructor
  · unfold DateTime.toString
    rw [days_table d.weekday hw, hmo]
    simp only
    rw [pad02_eq_dec2 d.day hd, pad02_eq_dec2 d.hour hh, pad02_eq_dec2 d.minute hmi,
      pad02_eq_dec2 d.second hs, decimal_eq_dec4 d.year hy0 hy1, hpad]
    rfl
  · unfold imfFixdate dec2 dec4
    simp only [List.length_append, List.length_cons, List.length_nil, dayName_length d.weekday hw, hmlen]

/-- **C18, dates, end to end.** Every timestamp of 1970 … 9999 is rendered as the IMF-fixdate of the
calendar date, time and weekday that `date_correct` shows to be the right ones. -/
theorem date_to_string_correct (t : Int) (h0 : 0 ≤ t) (h1 : t ≤ 253402300799) :
    ∃ d, DateTime.from t = some d ∧
      d.toString = some (imfFixdate d.year d.month d.day d.hour d.minute d.second d.weekday) ∧
      (imfFixdate d.year d.month d.day d.hour d.minute d.second d.weekday).length = 29 := by
  obtain ⟨d, hd, _, hv, _, _, hy0, hy1⟩ := date_correct t h0 h1
  unfold validDate at hv
  have h31 := daysInMonth_le_31 d.year d.month
  have := imf_fixdate_format d (by omega) (by omega) (by omega) (by omega) hy1 (by omega) (by omega) (by omega)
  exact ⟨d, hd, this⟩

/-! Non-vacuity and labelled tests: the epoch (the date the test suite pins), the last second of
9999 and a leap day. (`decimal` is defined by well-founded recursion, so the strings are evaluated
through `imf_fixdate_format`.) -/
example : (DateTime.from 0).bind DateTime.toString = some "Thu, 01 Jan 1970 00:00:00 GMT".toList := by
  have h : DateTime.from 0 = some ⟨0, 1970, 0, 1, 4, 0, 0, 0⟩ := by decide
  rw [h, Option.bind_some]
  rw [(imf_fixdate_format _ (by decide) (by decide) (by decide) (by decide) (by decide) (by decide)
    (by decide) (by decide)).1]
  decide
example : (DateTime.from 253402300799).bind DateTime.toString = some "Fri, 31 Dec 9999 23:59:59 GMT".toList := by
  have h : DateTime.from 253402300799 = some ⟨253402300799, 9999, 11, 31, 5, 23, 59, 59⟩ := by decide
  rw [h, Option.bind_some]
  rw [(imf_fixdate_format _ (by decide) (by decide) (by decide) (by decide) (by decide) (by decide)
    (by decide) (by decide)).1]
  decide
example : (DateTime.from 951782400).bind DateTime.toString = some "Tue, 29 Feb 2000 00:00:00 GMT".toList := by
  have h : DateTime.from 951782400 = some ⟨951782400, 2000, 1, 29, 2, 0, 0, 0⟩ := by decide
  rw [h, Option.bind_some]
  rw [(imf_fixdate_format _ (by decide) (by decide) (by decide) (by decide) (by decide) (by decide)
    (by decide) (by decide)).1]
  decide
example : daysFromCivil 2000 1 29 = 11016 ∧ weekdaySpec 951782400 = 2 := by decide

end Humphrey.Date
