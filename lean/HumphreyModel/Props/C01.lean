import HumphreyModel.Proofs.ConnSim
import HumphreyModel.Spec.Conn

/-!
# C01 — one well-framed response per request on every connection, in order

Model: `Model/Conn.lean` (`serveLoop`, the loop of `client_handler` after the repairs: one buffered
reader per connection, OPTIONS responses completed like all others). Spec: `Spec/Conn.lean`
(`checkConn`, evaluated on what the real server wrote in every correspondence case).

Proved here: for EVERY client byte stream and any two segmentations the loop writes the same
responses, dispatches the same requests and ends the same way (so no byte is dropped or attributed
to another request because of how the stream was cut); the per-step behaviour of the loop (408,
400, handler panic, keep-alive); the headers every completed response carries.

Not yet a Lean theorem (the statement is `checkConn cfg idle s (serve …).written … ∈ {none,
some "crlf-after-body"}` for every stream `s`, i.e. the model meets the executable spec on all
inputs; it needs `parseMsg (serializeResponse r)` — the serialiser/strict-parser lemma shared with
C07): judged per case by running `checkConn` on the implementation's output.
-/
namespace Humphrey.Http
open Humphrey Humphrey.IO

/-- **Segmentation independence of the connection loop.** Any two ways of cutting the same client
byte stream into reads (no pauses past the timeout) give the same written responses, the same
dispatched requests, the same WebSocket hand-off and the same ending; the unread bytes agree. -/
theorem serve_segmentation_independent {κ ω : Type} (cfg : ConnCfg κ ω) (c₁ c₂ : List Bytes)
    (h : c₁.flatten = c₂.flatten) :
    ConnRel (fun r₁ r₂ : Reader => r₁.rest = r₂.rest)
      (serve readerSource (fun _ => none) cfg ⟨[], c₁⟩)
      (serve readerSource (fun _ => none) cfg ⟨[], c₂⟩) := by
  have e : (⟨[], c₁⟩ : Reader).rest = (⟨[], c₂⟩ : Reader).rest := by simp [Reader.rest, h]
  have h₁ := serveLoop_sim reader_flat_sim cfg ((⟨[], c₂⟩ : Reader).rest.length + 1)
    ⟨[], c₁⟩ (⟨[], c₂⟩ : Reader).rest [] [] e
  have h₂ := serveLoop_sim reader_flat_sim cfg ((⟨[], c₂⟩ : Reader).rest.length + 1)
    ⟨[], c₂⟩ (⟨[], c₂⟩ : Reader).rest [] [] rfl
  simp only [serve, readerSource] at *
  rw [e]
  obtain ⟨a1, a2, a3, a4, a5⟩ := h₁
  obtain ⟨b1, b2, b3, b4, b5⟩ := h₂
  exact ⟨a1.trans b1.symm, a2.trans b2.symm, a3.trans b3.symm, a4.trans b4.symm, a5.trans b5.symm⟩

/-- A pause past the timeout between requests is answered 408 and the connection closes. -/
theorem serve_idle_408_close {σ κ ω : Type} (S : Source σ) (idle : σ → Option σ) (cfg : ConnCfg κ ω)
    (fuel : Nat) (s s' : σ) (w : List Bytes) (d : List Request)
    (ht : cfg.timeout = true) (hi : idle s = some s') :
    serveLoop S idle cfg (fuel + 1) s w d =
      ⟨w ++ [serializeResponse (errorResponse 408)], d, none, .closed, s'⟩ := by
  simp [serveLoop, ht, hi]

/-- A malformed request is answered 400 and the connection closes; nothing is dispatched. -/
theorem serve_malformed_400_close {σ κ ω : Type} (S : Source σ) (idle : σ → Option σ)
    (cfg : ConnCfg κ ω) (fuel : Nat) (s : σ) (w : List Bytes) (d : List Request)
    (hi : (if cfg.timeout then idle s else none) = none)
    (hp : parseRequest S cfg.env s = .err .request) :
    serveLoop S idle cfg (fuel + 1) s w d =
      ⟨w ++ [serializeResponse (errorResponse 400)], d, none, .closed, s⟩ := by
  simp [serveLoop, hi, hp]

/-- A client that goes away between (or inside) requests gets nothing more. -/
theorem serve_disconnect_writes_nothing {σ κ ω : Type} (S : Source σ) (idle : σ → Option σ)
    (cfg : ConnCfg κ ω) (fuel : Nat) (s : σ) (w : List Bytes) (d : List Request)
    (hi : (if cfg.timeout then idle s else none) = none)
    (hp : parseRequest S cfg.env s = .err .disconnected ∨ parseRequest S cfg.env s = .err .stream) :
    (serveLoop S idle cfg (fuel + 1) s w d).written = w := by
  rcases hp with hp | hp <;> simp [serveLoop, hi, hp]

/-- A panicking handler costs only its own connection: nothing is written for that request, what
was written before stays, and the loop stops. -/
theorem serve_handler_panic {σ κ ω : Type} (S : Source σ) (idle : σ → Option σ)
    (cfg : ConnCfg κ ω) (fuel : Nat) (s s' : σ) (req : Request) (w : List Bytes) (d : List Request)
    (hi : (if cfg.timeout then idle s else none) = none)
    (hp : parseRequest S cfg.env s = .ok (req, s'))
    (hu : req.headers.get hUpgrade ≠ some websocketValue)
    (hr : ∀ ka, respond cfg req ka = none) :
    (serveLoop S idle cfg (fuel + 1) s w d).written = w ∧
    (serveLoop S idle cfg (fuel + 1) s w d).disposition = .handlerPanicked := by
  simp [serveLoop, hi, hp, hu, hr]

/-- The connection stays open after a response iff the request asked for `Connection: keep-alive`
(any case): otherwise exactly one more response is written and the connection closes. -/
theorem serve_closes_without_keepalive {σ κ ω : Type} (S : Source σ) (idle : σ → Option σ)
    (cfg : ConnCfg κ ω) (fuel : Nat) (s s' : σ) (req : Request) (resp : Response)
    (w : List Bytes) (d : List Request)
    (hi : (if cfg.timeout then idle s else none) = none)
    (hp : parseRequest S cfg.env s = .ok (req, s'))
    (hu : req.headers.get hUpgrade ≠ some websocketValue)
    (hk : ∀ c, req.headers.get hConnection = some c → Bytes.asciiLower c ≠ keepAliveLower)
    (hr : respond cfg req false = some resp) :
    (serveLoop S idle cfg (fuel + 1) s w d).written = w ++ [serializeResponse resp] ∧
    (serveLoop S idle cfg (fuel + 1) s w d).disposition = .closed := by
  cases hc : req.headers.get hConnection with
  | none => simp [serveLoop, hi, hp, hu, hc, hr]
  | some c => simp [serveLoop, hi, hp, hu, hc, hk c hc, hr]

theorem serve_continues_with_keepalive {σ κ ω : Type} (S : Source σ) (idle : σ → Option σ)
    (cfg : ConnCfg κ ω) (fuel : Nat) (s s' : σ) (req : Request) (resp : Response) (c : Bytes)
    (w : List Bytes) (d : List Request)
    (hi : (if cfg.timeout then idle s else none) = none)
    (hp : parseRequest S cfg.env s = .ok (req, s'))
    (hu : req.headers.get hUpgrade ≠ some websocketValue)
    (hc : req.headers.get hConnection = some c) (hk : Bytes.asciiLower c = keepAliveLower)
    (hr : respond cfg req true = some resp) :
    ∃ d', serveLoop S idle cfg (fuel + 1) s w d =
      serveLoop S idle cfg fuel s' (w ++ [serializeResponse resp]) d' := by
  simp only [serveLoop, hi, hp, hu, hc, hk, hr, if_false, decide_true, if_true]
  exact ⟨_, rfl⟩

/-- Every completed response echoes the request's version and carries Connection, Server, Date and
Content-Length; when the handler set no Content-Length itself it is the body's length. -/
theorem completed_response_headers (now : Bytes) (req : Request) (r : Response) :
    let c := completeResponse now req r
    c.version = req.version ∧ c.body = r.body ∧ c.status = r.status ∧
    (c.headers.get hConnection).isSome ∧ (c.headers.get hServer).isSome ∧
    (c.headers.get hDate).isSome ∧ (c.headers.get hContentLength).isSome ∧
    (r.headers.get hContentLength = none →
      c.headers.get hContentLength = some (Bytes.natToBytes r.body.length)) := by
  have key : ∀ (hs : Headers) (n : HName) (v : Bytes), ((addIfAbsent hs n v).get n).isSome := by
    intro hs n v
    unfold addIfAbsent
    split
    · assumption
    · simp [Headers.get, List.find?_append]
  have mono : ∀ (hs : Headers) (n m : HName) (v : Bytes), (hs.get m).isSome →
      ((addIfAbsent hs n v).get m).isSome := by
    intro hs n m v h
    unfold addIfAbsent
    split
    · exact h
    · simp only [Headers.get, List.find?_append, Option.isSome_map] at h ⊢
      cases hf : List.find? (fun h => decide (h.name = m)) hs with
      | none => simp [hf] at h
      | some x => simp
  refine ⟨rfl, rfl, rfl, ?_, ?_, ?_, ?_, ?_⟩
  · exact mono _ _ _ _ (mono _ _ _ _ (mono _ _ _ _ (key _ _ _)))
  · exact mono _ _ _ _ (mono _ _ _ _ (key _ _ _))
  · exact mono _ _ _ _ (key _ _ _)
  · exact key _ _ _
  · intro hno
    have keep : ∀ (hs : Headers) (n : HName) (v : Bytes), n ≠ hContentLength →
        hs.get hContentLength = none → (addIfAbsent hs n v).get hContentLength = none := by
      intro hs n v hn h
      unfold addIfAbsent
      split
      · exact h
      · simp only [Headers.get, List.find?_append, Option.map_eq_none_iff] at h ⊢
        simp [h, hn]
    have h3 := keep _ hDate now (by decide)
      (keep _ hServer hServerValue (by decide)
        (keep _ hConnection ((req.headers.get hConnection).getD closeValue) (by decide) hno))
    simp only [completeResponse]
    generalize addIfAbsent (addIfAbsent (addIfAbsent r.headers hConnection
      ((req.headers.get hConnection).getD closeValue)) hServer hServerValue) hDate now = hs at h3 ⊢
    unfold addIfAbsent
    simp only [h3, Option.isSome_none, Bool.false_eq_true, if_false]
    simp only [Headers.get, List.find?_append, Option.map_eq_none_iff] at h3 ⊢
    simp [h3]

-- Non-vacuity: the same two-request stream cut in two different ways.
example : ([[71, 69], [84, 32]] : List Bytes).flatten = ([[71], [69, 84, 32]] : List Bytes).flatten := by
  decide

end Humphrey.Http
