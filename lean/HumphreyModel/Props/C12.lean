import HumphreyModel.Proofs.WsAppTrace

/-!
# C12 — the asynchronous WebSocket app delivers connect / message / disconnect exactly once, in order

`Model/WsApp.lean` is one iteration of `AsyncWebsocketApp::run` (`stepLoop`) and the loop over any list of
iteration inputs (`runLoop`); `Spec/WsApp.lean` states the property as predicates over the effect trace.
A "dispatch" is the submission of a handler call to the handler pool, which dequeues in FIFO order (C08,
`fifo_dequeue`); with one handler thread dispatch order is execution order.

The three handlers are optional (`Handlers`: which of `on_connect` / `on_message` / `on_disconnect` are
registered). EVERY theorem below is stated and proved for an arbitrary configuration `h : Handlers`:
* the statements about dispatches speak of the registered handlers (`connect_once_before_messages`,
  `message_once_in_order`, `disconnect_once_then_silence`: the full statement when the handler is registered, no
  dispatch of that kind at all when it is not);
* the statements about removal, silence after removal, polling, sends and pings make no assumption on `h`
  (`removed_once_then_silence`, `closed_client_not_polled_again`, `never_admitted_silent`,
  `unicast_only_addressee`, `broadcast_each_connected_once`, `shutdown_returns`, `no_panic`): a client that closes /
  breaks / times out leaves the table exactly once — effect `drop`, `self.streams.remove(&addr)` — and is never
  polled, dispatched for, written to or pinged again, whether or not anybody is told about it.

Hypotheses of the run theorems:
* `s.phase = .running` — the loop has not been left yet;
* `RunOk s is` — every executed iteration's input is consistent with the table at that moment (`InputsOk`: the
  streams polled are exactly the keys of the table, each once, and every inner loop ends with its first
  `None`/`Err`); the code guarantees this by construction (`keys` is `self.streams.keys()`), and the driver
  checks it on every logged iteration;
* `DistinctPeers s is` — no peer address is used twice in the run.
Nothing else is assumed about the inputs: any number of iterations, any clients, any receive results, any
clock readings, any admissions, any outgoing messages in any order.

What the model cannot exhibit (and the theorems therefore do not cover): a blocking read inside an unfinished
fragmented message stalls the iteration (C11: `recv_nonblocking` blocks after the first frame), socket
timing, and the execution order of queued handler calls with more than one handler thread.
-/
namespace Humphrey.Props.C12
open Humphrey.WsApp Humphrey.WsAppSpec

/-- `get_mut(&addr).unwrap()` never panics on consistent inputs. -/
theorem no_panic (h : Handlers) (s : AppState) (is : List IterInput) (hp : s.phase = .running)
    (hok : RunOk h s is = true) :
    Effect.panic ∉ (runLoop h s is).2 := by
  rw [run_trace hp hok]
  have hok' := (runOk_iff h is s hp).1 hok
  clear hok
  generalize s.streams = st at hok'
  induction is generalizing st with
  | nil => simp [runEffects]
  | cons i is ih =>
    cases hs : i.shutdown
    · obtain ⟨_, hmem, hnext⟩ := runOk'_cons hs hok'
      simp only [runEffects, hs, Bool.false_eq_true, if_false, List.mem_append, not_or]
      refine ⟨?_, ih _ hnext⟩
      intro hx
      obtain ⟨b, hb, _⟩ := addr_iterEffects hmem hx
      simp [addrOf] at hb
    · simp [runEffects, hs]

/-- **Connect exactly once, before any of the client's messages** (app with a connect handler). For every
client admitted in the run the connect handler is dispatched exactly once, and no message of that client is
dispatched before it. A client that is never admitted gets no connect dispatch; an app without a connect handler
dispatches none at all. -/
theorem connect_once_before_messages (h : Handlers) (s : AppState) (is : List IterInput)
    (hp : s.phase = .running) (hok : RunOk h s is = true) (hd : DistinctPeers s is) (a : Addr) :
    (h.connect = true → a ∈ admitted is → ConnectOnceBeforeMessages a (runLoop h s is).2) ∧
    ((h.connect = false ∨ a ∉ admitted is) → (runLoop h s is).2.count (.dispatchConnect a) = 0) := by
  rw [run_trace hp hok]
  have hok' := (runOk_iff h is s hp).1 hok
  have hsub := admitted_sublist is
  have hnd : (allIncoming is).Nodup := ((List.nodup_append.1 hd).2.1)
  constructor
  · intro hc ha
    refine ⟨?_, ?_⟩
    · rw [count_connect_runEffects, if_pos hc, (List.Nodup.sublist hsub hnd).count, if_pos ha]
    · have hnot : a ∉ s.streams := by
        intro hin
        exact (List.nodup_append.1 hd).2.2 a hin a (hsub.subset ha) rfl
      exact before_runEffects hc a is s.streams hnot hok'
  · intro ha
    rw [count_connect_runEffects]
    rcases ha with hc | ha
    · simp [hc]
    · split
      · exact List.count_eq_zero_of_not_mem ha
      · rfl

/-- **Each message exactly once, in per-client order** (app with a message handler). The messages dispatched for
client `a` are the messages received from `a`, in the order received (no address hypothesis is needed for this
one). An app without a message handler dispatches none (it still receives them: see `removed_once_then_silence`
and the model, where the receive results drive the same state changes). -/
theorem message_once_in_order (h : Handlers) (s : AppState) (is : List IterInput) (hp : s.phase = .running)
    (hok : RunOk h s is = true) (a : Addr) :
    (h.message = true → MessagesOnceInOrder a is (runLoop h s is).2) ∧
    (h.message = false → (runLoop h s is).2.filterMap (msgOf a) = []) := by
  unfold MessagesOnceInOrder
  rw [run_trace hp hok, messages_runEffects h a is s.streams]
  constructor <;> intro hm <;> simp [hm]

/-- **Removed exactly once, then silence — for EVERY configuration of handlers.** A client is found closed,
broken or timed out at most once; if it is, its stream is removed from the table (and dropped) exactly once and
afterwards nothing is dispatched for it, sent to it or pinged; if it is not, its stream is never removed. Nothing
here depends on a disconnect handler being registered. -/
theorem removed_once_then_silence (h : Handlers) (s : AppState) (is : List IterInput) (hp : s.phase = .running)
    (hok : RunOk h s is = true) (hd : DistinctPeers s is) (a : Addr) :
    closings a is ≤ 1 ∧
    (closings a is = 1 → RemovedOnceThenSilence a (runLoop h s is).2) ∧
    (closings a is = 0 → (runLoop h s is).2.count (.drop a) = 0) := by
  rw [run_trace hp hok]
  have hok' := (runOk_iff h is s hp).1 hok
  refine ⟨(closings_le_one a is s.streams hok' hd).1, ?_, ?_⟩
  · intro hc
    exact ⟨by rw [count_drop_runEffects, hc], (silence_runEffects h a is s.streams hok' hd).1⟩
  · intro hc
    rw [count_drop_runEffects, hc]

/-- **Once found closed, never polled again — for EVERY configuration.** After the iteration whose poll finds
the client closed, broken or timed out, no later iteration polls it: it has left the table (`RunOk`: the streams
polled are exactly the keys of the table). -/
theorem closed_client_not_polled_again (h : Handlers) (s : AppState) (is : List IterInput)
    (hp : s.phase = .running) (hok : RunOk h s is = true) (hd : DistinctPeers s is) (a : Addr) :
    notPolledAfterClose a (executed is) = true :=
  notPolled_run a is s.streams ((runOk_iff h is s hp).1 hok) hd

/-- **Disconnect exactly once, then silence** (app with a disconnect handler). If the client is found closed,
broken or timed out, the disconnect handler is dispatched exactly once and afterwards nothing is dispatched for
it, sent to it or pinged (what follows for it is its removal). If it is not, or if there is no disconnect
handler, the disconnect handler is never dispatched for it. -/
theorem disconnect_once_then_silence (h : Handlers) (s : AppState) (is : List IterInput)
    (hp : s.phase = .running) (hok : RunOk h s is = true) (hd : DistinctPeers s is) (a : Addr) :
    (h.disconnect = true → closings a is = 1 → DisconnectOnceThenSilence a (runLoop h s is).2) ∧
    ((h.disconnect = false ∨ closings a is = 0) → (runLoop h s is).2.count (.dispatchDisconnect a) = 0) := by
  rw [run_trace hp hok]
  have hok' := (runOk_iff h is s hp).1 hok
  constructor
  · intro hdh hc
    exact ⟨by rw [count_dd_runEffects, if_pos hdh, hc], (silence_runEffects h a is s.streams hok' hd).2.1 hdh⟩
  · intro hc
    rw [count_dd_runEffects]
    rcases hc with hc | hc
    · simp [hc]
    · simp [hc]

/-- **Nothing for a client that never connected — for EVERY configuration.** An address that is not in the table
at the start and is not admitted during the run gets no dispatch, no send, no ping and no removal. -/
theorem never_admitted_silent (h : Handlers) (s : AppState) (is : List IterInput) (hp : s.phase = .running)
    (hok : RunOk h s is = true) (a : Addr) (h1 : a ∉ s.streams) (h2 : a ∉ admitted is) :
    Silent a (runLoop h s is).2 := by
  unfold Silent
  rw [run_trace hp hok]
  exact stranger_silent h a is s.streams h1 h2 ((runOk_iff h is s hp).1 hok)

/-- **A unicast reaches only its addressee — for EVERY configuration.** In any iteration from any table, the
effects of flushing a unicast to `a` (pinned down as what lies between the trace of the same iteration with the
flush stopped before that message and the flush of the remaining messages) are: exactly one `sendTo a` of the
message's frame when `a` is connected at that moment, nothing when it is not (unknown or already disconnected
address), and never anything for anybody else. -/
theorem unicast_only_addressee (h : Handlers) (s : AppState) (i : IterInput) (hs : i.shutdown = false)
    (hok : InputsOk s i = true) (a : Addr) (m : Msg) (o1 o2 : List Out)
    (hout : i.outgoing = o1 ++ .unicast a m :: o2) :
    ∃ seg, (stepLoop h s i).2 =
        (stepLoop h s { i with outgoing := o1 }).2 ++ seg ++ flush (stepLoop h s i).1.streams o2 ∧
      UnicastOk (liveAtFlush s.streams i) a m seg := by
  have hok1 : InputsOk s { i with outgoing := o1 } = true := hok
  refine ⟨deliver (nextStreams s.streams i) (.unicast a m), ?_, ?_⟩
  · rw [stepLoop_eq hs hok, stepLoop_eq (i := { i with outgoing := o1 }) hs hok1]
    simp only [iterEffects, hout, flush, List.flatMap_append, List.flatMap_cons, List.append_assoc]
    rfl
  · rw [deliver_unicast]
    unfold UnicastOk
    by_cases hm : a ∈ nextStreams s.streams i
    · simp [hm, mem_liveAtFlush]
    · simp [hm, mem_liveAtFlush]

/-- **A broadcast reaches every client connected at that moment exactly once, and nobody else — for EVERY
configuration.** -/
theorem broadcast_each_connected_once (h : Handlers) (s : AppState) (i : IterInput) (hn : s.streams.Nodup)
    (hs : i.shutdown = false) (hok : InputsOk s i = true) (m : Msg) (order : List Addr) (o1 o2 : List Out)
    (hout : i.outgoing = o1 ++ .broadcast m order :: o2) :
    ∃ seg, (stepLoop h s i).2 =
        (stepLoop h s { i with outgoing := o1 }).2 ++ seg ++ flush (stepLoop h s i).1.streams o2 ∧
      BroadcastOk (liveAtFlush s.streams i) m seg := by
  have hok1 : InputsOk s { i with outgoing := o1 } = true := hok
  refine ⟨deliver (nextStreams s.streams i) (.broadcast m order), ?_, ?_⟩
  · rw [stepLoop_eq hs hok, stepLoop_eq (i := { i with outgoing := o1 }) hs hok1]
    simp only [iterEffects, hout, flush, List.flatMap_append, List.flatMap_cons, List.append_assoc]
    rfl
  · constructor
    · intro b hb
      rw [deliver_broadcast_count (nodup_nextStreams i hn), if_pos (mem_liveAtFlush.1 hb)]
    · intro e he
      obtain ⟨b, hb, rfl⟩ := List.mem_map.1 he
      exact ⟨b, mem_liveAtFlush.2 (mem_recipients.1 hb), rfl⟩

/-- The two flush theorems speak about every iteration of every run: a run's trace is the concatenation of
its iterations' traces, each taken from the table the run has reached, and that table has no address twice. -/
theorem run_decomposes (h : Handlers) (s : AppState) (pre : List IterInput) (i : IterInput)
    (post : List IterInput)
    (hp : s.phase = .running) (hn : s.streams.Nodup) (hok : RunOk h s (pre ++ i :: post) = true)
    (hpre : ∀ j ∈ pre, j.shutdown = false) :
    let sk := (runLoop h s pre).1
    (runLoop h s (pre ++ i :: post)).2 =
      (runLoop h s pre).2 ++ (stepLoop h sk i).2 ++ (runLoop h (stepLoop h sk i).1 post).2 ∧
    sk.phase = .running ∧ sk.streams.Nodup ∧ InputsOk sk i = true := by
  induction pre generalizing s with
  | nil =>
    simp only [List.nil_append, runLoop, hp, if_true]
    simp only [List.nil_append, RunOk, hp, bne_self_eq_false, Bool.false_or, Bool.and_eq_true] at hok
    exact ⟨trivial, trivial, hn, hok.1⟩
  | cons j pre ih =>
    have hj : j.shutdown = false := hpre j (by simp)
    simp only [List.cons_append, RunOk, hp, bne_self_eq_false, Bool.false_or, Bool.and_eq_true] at hok
    have hstep := stepLoop_eq (h := h) hj hok.1
    have hok2 := hok.2
    rw [hstep] at hok2
    have := ih { streams := nextStreams s.streams j, phase := .running } rfl (nodup_nextStreams j hn) hok2
      (fun k hk => hpre k (by simp [hk]))
    simp only [List.cons_append, runLoop, hp, if_true, hstep, List.append_assoc] at this ⊢
    exact ⟨by rw [this.1], this.2⟩

/-- **A shutdown signal makes `run` return — for EVERY configuration.** The loop is left at the first iteration
whose input has the flag: the trace is the trace of the iterations before it followed by `exit`, which is its
only `exit`; nothing of the later inputs is looked at. -/
theorem shutdown_returns (h : Handlers) (s : AppState) (pre : List IterInput) (i : IterInput)
    (post : List IterInput)
    (hp : s.phase = .running) (hok : RunOk h s (pre ++ i :: post) = true)
    (hpre : ∀ j ∈ pre, j.shutdown = false) (hi : i.shutdown = true) :
    (runLoop h s (pre ++ i :: post)).2 = (runLoop h s pre).2 ++ [.exit] ∧
    ExitsLast (runLoop h s (pre ++ i :: post)).2 ∧
    (runLoop h s (pre ++ i :: post)).1.phase = .exited := by
  have hok' := (runOk_iff h _ s hp).1 hok
  have hokpre : RunOk' s.streams pre := by
    clear hok
    generalize s.streams = st at hok'
    induction pre generalizing st with
    | nil => trivial
    | cons j pre ih =>
      have hj : j.shutdown = false := hpre j (by simp)
      simp only [List.cons_append, RunOk', hj, Bool.false_eq_true, false_or] at hok' ⊢
      exact ⟨hok'.1, ih (fun k hk => hpre k (by simp [hk])) _ hok'.2⟩
  have hpreT : (runLoop h s pre).2 = runEffects h s.streams pre := runLoop_eq h pre s hp hokpre
  have hT : (runLoop h s (pre ++ i :: post)).2 = runEffects h s.streams pre ++ [.exit] := by
    rw [run_trace hp hok, runEffects_shutdown h pre i post _ hpre hi]
  refine ⟨by rw [hT, hpreT], ?_, ?_⟩
  · rw [hT]
    refine ⟨by simp, ?_⟩
    rw [List.count_append, List.count_eq_zero_of_not_mem (exit_not_mem_runEffects h pre _ hpre hokpre)]
    rfl
  · clear hok' hokpre hpreT hT
    induction pre generalizing s with
    | nil => simp [runLoop, hp, stepLoop, hi, runLoop_stopped]
    | cons j pre ih =>
      have hj : j.shutdown = false := hpre j (by simp)
      simp only [List.cons_append, RunOk, hp, bne_self_eq_false, Bool.false_or, Bool.and_eq_true] at hok
      simp only [List.cons_append, runLoop, hp, if_true]
      have hstep := stepLoop_eq (h := h) hj hok.1
      have hok2 := hok.2
      rw [hstep] at hok2 ⊢
      exact ih _ rfl hok2 (fun k hk => hpre k (by simp [hk]))

/-! ### Whoever issues it

The handles through which messages reach the channel (`Handle` = what `AsyncStream::send` / `broadcast` look at,
`senderSend` / `senderBroadcast` = `AsyncSender`). A broadcast is queued whoever issues it: through the stream of
a connected client, through the DISCONNECTED stream a disconnect handler is given, or through an `AsyncSender`.
That the loop takes what was queued is a fact about the channel (`std::sync::mpsc`, trusted) which the driver
checks on every run from the issuers' own records (`issuedAreFlushed`). -/

/-- **Every handle queues a broadcast, exactly one, unchanged** - `connected` or not, whatever its address; an
`AsyncSender` queues what it is given; `AsyncStream::send` queues one unicast to the stream's own client when
connected and panics (`assert!`) when not. -/
theorem broadcast_queued_whoever_issues (hd : Handle) (m : Msg) (a : Addr) :
    hd.broadcast m = .queued [.broadcast m []] ∧ senderBroadcast m = .queued [.broadcast m []] ∧
    senderSend a m = .queued [.unicast a m] ∧
    hd.send m = (if hd.connected then .queued [.unicast hd.addr m] else .panic) :=
  ⟨rfl, rfl, rfl, rfl⟩

/-- **A broadcast issued through ANY stream object reaches every client connected at the flush exactly once.**
Whatever handle `hd` a handler holds (the disconnected one of a client that closed, broke or timed out included):
the iteration that takes what `hd.broadcast m` queued sends the frame of `m` once to each client connected at
that flush and to nobody else. -/
theorem issued_broadcast_each_connected_once (h : Handlers) (s : AppState) (i : IterInput) (hn : s.streams.Nodup)
    (hs : i.shutdown = false) (hok : InputsOk s i = true) (hd : Handle) (m : Msg) (o : Out) (o1 o2 : List Out)
    (hq : hd.broadcast m = .queued [o]) (hout : i.outgoing = o1 ++ o :: o2) :
    ∃ seg, (stepLoop h s i).2 =
        (stepLoop h s { i with outgoing := o1 }).2 ++ seg ++ flush (stepLoop h s i).1.streams o2 ∧
      BroadcastOk (liveAtFlush s.streams i) m seg := by
  have ho : o = .broadcast m [] := by
    simp only [Handle.broadcast, Enq.queued.injEq, List.cons.injEq, and_true] at hq
    exact hq.symm
  subst ho
  exact broadcast_each_connected_once h s i hn hs hok m [] o1 o2 hout

/-! ### Non-vacuity -/

def demoInputs : List IterInput :=
  [ { incoming := [1, 2] },
    { polls := [⟨2, [.msg ⟨true, [104]⟩, .msg ⟨false, []⟩, .none], false⟩, ⟨1, [.none], false⟩],
      outgoing := [.unicast 2 ⟨true, [104]⟩, .broadcast ⟨true, [33]⟩ [2, 1], .unicast 7 ⟨true, []⟩], willPing := true },
    { polls := [⟨1, [.msg ⟨true, [1]⟩, .err], false⟩, ⟨2, [.none], true⟩], incoming := [3],
      outgoing := [.unicast 1 ⟨true, [2]⟩, .broadcast ⟨false, [9]⟩ [3]] },
    { shutdown := true },
    { incoming := [4] } ]

/-- `InputsOk` (along a run) and `DistinctPeers` are satisfiable, by a run with two clients that connect, send,
are closed (one by `Err`, one by timeout), a third that stays, unicasts, broadcasts and a shutdown — with all
handlers, with none, and with a message handler only. -/
example : RunOk {} {} demoInputs = true ∧ DistinctPeers {} demoInputs := by decide
example : RunOk ⟨false, false, false⟩ {} demoInputs = true := by decide
example : RunOk ⟨false, true, false⟩ {} demoInputs = true := by decide

example : InputsOk { streams := [5, 6] } { polls := [⟨6, [.err], false⟩, ⟨5, [.msg ⟨true, []⟩, .none], true⟩] } = true := by
  decide

def blank : Effect → Effect
  | .sendTo a _ => .sendTo a []
  | e => e

/-- The trace of that run with all three handlers. -/
example : (runLoop {} {} demoInputs).2.map blank =
  [ .dispatchConnect 1, .dispatchConnect 2,
    .dispatchMessage 2 ⟨true, [104]⟩, .dispatchMessage 2 ⟨false, []⟩, .ping 2, .ping 1,
    .sendTo 2 [], .sendTo 2 [], .sendTo 1 [],
    .dispatchMessage 1 ⟨true, [1]⟩, .dispatchDisconnect 1, .drop 1, .dispatchDisconnect 2, .drop 2,
    .dispatchConnect 3,
    .sendTo 3 [], .exit ] := by decide

/-- The same run without any handler: the same pings, sends and removals, no dispatch; the same tables. -/
example : (runLoop ⟨false, false, false⟩ {} demoInputs).2.map blank =
  [ .ping 2, .ping 1, .sendTo 2 [], .sendTo 2 [], .sendTo 1 [], .drop 1, .drop 2, .sendTo 3 [], .exit ] ∧
  (runLoop ⟨false, false, false⟩ {} demoInputs).1 = (runLoop {} {} demoInputs).1 := by decide

/-- With a message handler only (the configuration of the missed change): messages are dispatched, the two
closed clients are removed without a disconnect dispatch, the later unicast to client 1 reaches nobody. -/
example : (runLoop ⟨false, true, false⟩ {} demoInputs).2.map blank =
  [ .dispatchMessage 2 ⟨true, [104]⟩, .dispatchMessage 2 ⟨false, []⟩, .ping 2, .ping 1,
    .sendTo 2 [], .sendTo 2 [], .sendTo 1 [],
    .dispatchMessage 1 ⟨true, [1]⟩, .drop 1, .drop 2, .sendTo 3 [], .exit ] := by decide

/-- `closings … = 1` is satisfiable (clients 1 and 2 of the demo run), so the removal theorem is not vacuous. -/
example : closings 1 demoInputs = 1 ∧ closings 2 demoInputs = 1 ∧ closings 3 demoInputs = 0 := by decide

/-- What the removal clause rejects: a trace in which the closed client stays in the table and is written to
again (the shape a loop produces that forgets `streams.remove` when no disconnect handler is registered). -/
example : ¬ RemovedOnceThenSilence 1 [.dispatchMessage 1 ⟨true, [1]⟩, .sendTo 1 [], .exit] := by decide
example : ¬ RemovedOnceThenSilence 1 [.drop 1, .sendTo 1 [], .exit] := by decide
example : notPolledAfterClose 1 [{ polls := [⟨1, [.err], false⟩] }, { polls := [⟨1, [.none], false⟩] }] = false := by
  decide

/-! ### The heartbeat clauses

`timedOut` and `willPing` are INPUTS of the model (clock readings), so no theorem above can say when they must be
true. What the heartbeat owes the clients is stated in `Spec/WsApp.lean` over the observable timeline of a run
(`liveClientKept`, `silentClientTimedOut`, `pingCadenceOk`) and evaluated by the driver on every real run with a
heartbeat, from the scripted sockets' delivery times and the tracer's events. The clauses separate good from bad
timelines (timeout 8, interval 5): -/

/-- a client whose Pong was delivered at [6, 7] may be timed out at 14, not at 13 - wherever in its frame stream
the Pong stood -/
example : liveClientKept 8 none [.life 0 1, .alive 5, .life 6 7, .timedOut 14] = true := by decide
example : liveClientKept 8 none [.life 0 1, .alive 5, .life 6 7, .timedOut 13] = false := by decide
/-- a client silent since [0, 1] may be kept at 8, not at 9 -/
example : silentClientTimedOut 8 none [.life 0 1, .alive 8] = true := by decide
example : silentClientTimedOut 8 none [.life 0 1, .alive 9] = false := by decide
example : silentClientTimedOut 8 none [.life 0 1, .alive 8, .life 8 9, .alive 16] = true := by decide
/-- pings are `interval` apart: not closer, and none left out -/
example : pingCadenceOk 5 none [.pinged 0 1, .notPinged 5, .pinged 6 7, .notPinged 11] = true := by decide
example : pingCadenceOk 5 none [.pinged 0 1, .pinged 3 4] = false := by decide
example : pingCadenceOk 5 none [.pinged 0 1, .notPinged 6] = false := by decide

/-! ### Who sends: the clauses on the issuers' records -/

/-- a broadcast handed over (through a disconnected stream or otherwise) when 3 iterations had started must have
been taken by a run of 4 iterations, need not by a run of 3; a unicast to the client that has gone need never -/
example : issuedAreFlushed 4 [{ stamp := some 3, out := .broadcast ⟨true, [1]⟩ [] }] [] = false := by decide
example : issuedAreFlushed 3 [{ stamp := some 3, out := .broadcast ⟨true, [1]⟩ [] }] [] = true := by decide
example : issuedAreFlushed 4 [{ stamp := some 3, out := .broadcast ⟨true, [1]⟩ [] }] [.broadcast ⟨true, [1]⟩ [2, 5]] = true := by
  decide
example : issuedAreFlushed 4 [{ stamp := some 3, out := .broadcast ⟨true, [1]⟩ [] }, { stamp := some 2, out := .broadcast ⟨true, [1]⟩ [] }]
    [.broadcast ⟨true, [1]⟩ [2, 5]] = false := by decide
example : issuedAreFlushed 9 [{ stamp := some 3, out := .unicast 7 ⟨true, [1]⟩, toGone := true }, { stamp := none, out := .unicast 7 ⟨true, []⟩ }] [] = true := by
  decide
example : flushedWereIssued [{ stamp := some 3, out := .unicast 7 ⟨true, [1]⟩ }] [.unicast 7 ⟨true, [1]⟩, .unicast 7 ⟨true, [1]⟩] = false := by
  decide
/-- the disconnected stream: its broadcast is queued, its unicast panics -/
example : (Handle.mk 3 false).broadcast ⟨true, [9]⟩ = .queued [.broadcast ⟨true, [9]⟩ []] ∧
    (Handle.mk 3 false).send ⟨true, [9]⟩ = .panic ∧ (Handle.mk 3 true).send ⟨true, [9]⟩ = .queued [.unicast 3 ⟨true, [9]⟩] := by
  decide

/-- Without `DistinctPeers` the connect statement fails: an address admitted twice gets two connect dispatches. -/
example : (runLoop {} {} [{ incoming := [1] }, { polls := [⟨1, [.err], false⟩] }, { incoming := [1] }]).2.count
    (.dispatchConnect 1) = 2 := by decide

end Humphrey.Props.C12
