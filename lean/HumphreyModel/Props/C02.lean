import HumphreyModel.Proofs.HttpSim

/-!
# C02 — request parsing is faithful, segmentation-independent and round-trips

Model: `Model/Http.lean` (`parseRequest`, written once against `Source`), `Model/IO.lean`
(`Reader` = `BufReader` over a stream delivered in arbitrary chunks).

Proved here: independence of the segmentation for **every** input (well-formed or not),
case-insensitive lookup, the X-Forwarded-For rule. Faithfulness (`parse_render`), preservation of
same-named fields (`get_all_parsed`, `sorted_getAll`) and the serialise/parse round trip
(`roundtrip`, `parse_serialize_parse`) are in `Props/C02Faithful.lean`.
-/
namespace Humphrey.Http
open Humphrey Humphrey.IO

/-- Parsing from a chunked reader is parsing the concatenated stream: same request (or same
error, or same panic), and the unread remainder is the same byte string. -/
theorem parse_reader_eq_flat (env : Env) (r : Reader) :
    OutRel (fun r b => r.rest = b) (parseRequest readerSource env r)
      (parseRequest flatSource env r.rest) :=
  parseRequest_sim reader_flat_sim env r r.rest rfl

/-- **C02, segmentation independence.** For every byte stream — well-formed or not — and any two
ways of cutting it into reads, `Request::from_stream` returns the same result and leaves the
same bytes unread. -/
theorem parse_segmentation_independent (env : Env) (c₁ c₂ : List Bytes)
    (h : c₁.flatten = c₂.flatten) :
    OutRel (fun r₁ r₂ : Reader => r₁.rest = r₂.rest)
      (parseRequest readerSource env ⟨[], c₁⟩) (parseRequest readerSource env ⟨[], c₂⟩) := by
  have h₁ := parse_reader_eq_flat env ⟨[], c₁⟩
  have h₂ := parse_reader_eq_flat env ⟨[], c₂⟩
  have e : (⟨[], c₁⟩ : Reader).rest = (⟨[], c₂⟩ : Reader).rest := by simp [Reader.rest, h]
  rw [e] at h₁
  generalize parseRequest flatSource env (⟨[], c₂⟩ : Reader).rest = f at h₁ h₂
  cases a : parseRequest readerSource env ⟨[], c₁⟩ <;>
    cases b : parseRequest readerSource env ⟨[], c₂⟩ <;>
    cases f <;> simp_all [OutRel]

/-- Header names are matched case-insensitively (ASCII). -/
theorem header_lookup_case_insensitive (hs : Headers) (n n' : Bytes)
    (h : Bytes.asciiLower n = Bytes.asciiLower n') :
    hs.get (HName.ofName n) = hs.get (HName.ofName n') ∧
    hs.getAll (HName.ofName n) = hs.getAll (HName.ofName n') := by
  simp [HName.ofName, h]

/-- `get_all` returns the values of the same-named fields in the order they were added. -/
theorem get_all_preserves_order (hs₁ hs₂ : Headers) (n : HName) :
    Headers.getAll (hs₁ ++ hs₂) n = hs₁.getAll n ++ hs₂.getAll n := by
  simp [Headers.getAll]

/-- **X-Forwarded-For rule.** With a forwarded list whose (trimmed) entries parse to the addresses
`ips ≠ []`, the origin is the last listed address and the proxies are the earlier ones followed
by the peer; with no parsable entry the peer itself is the origin. -/
theorem xff_origin_is_last (parseIp : Bytes → Option Ip) (hs : Headers) (fwd : Bytes) (peer : Ip)
    (port : Nat) (hx : hs.get hXff = some fwd) :
    let ips := (Bytes.splitOn 44 fwd).filterMap (fun e => parseIp (Bytes.trim e))
    Address.fromHeaders parseIp Bytes.trim hs peer port =
      match ips.getLast? with
      | some origin => ⟨origin, ips.dropLast ++ [peer], port⟩
      | none => ⟨peer, [], port⟩ := by
  simp only [Address.fromHeaders, hx]
  cases ((Bytes.splitOn 44 fwd).filterMap (fun e => parseIp (Bytes.trim e))).getLast? <;> rfl

theorem no_xff_peer_is_origin (parseIp : Bytes → Option Ip) (hs : Headers) (peer : Ip) (port : Nat)
    (hx : hs.get hXff = none) :
    Address.fromHeaders parseIp Bytes.trim hs peer port = ⟨peer, [], port⟩ := by
  simp [Address.fromHeaders, hx]

-- Non-vacuity: a concrete request cut in two different ways.
example :
    (⟨[], [[71, 69, 84, 32, 47, 32, 72, 84], [84, 80, 47, 49, 46, 49, 13, 10, 13, 10]]⟩ : Reader).rest =
    (⟨[], [[71, 69, 84, 32, 47, 32, 72, 84, 84, 80, 47, 49, 46, 49, 13, 10, 13, 10]]⟩ : Reader).rest := by decide

end Humphrey.Http
