import HumphreyModel.Proofs.PercentMain

/-!
# C18 (percent-encoding half) — `humphrey/src/percent.rs` is exact with respect to RFC 3986 §2.1/§2.3

Property theorems only. Model: `Model/Percent.lean` (the loops of `percent_encode` and
`percent_decode` after the D2 repair). Spec: `Spec/Percent.lean` (`unreserved`, `encode`,
`hexDigitValue`, `Denotes`). All statements are for every byte string, no length bound.
-/
namespace Humphrey.Percent

/-- **Encoder layout.** `percent_encode` is the RFC 3986 layout: every unreserved byte
(ALPHA / DIGIT / `-` `.` `_` `~`) stands for itself, every other byte `b` becomes `%` followed by
the two upper-case hexadecimal digits of `b`. -/
theorem encode_eq_spec (b : Bytes) : encode b = Spec.encode b :=
  encode_eq_spec' b

/-- **Round trip.** The decoder inverts the encoder on every byte string. -/
theorem decode_encode (b : Bytes) : decode (encode b) = some b :=
  decode_encode' b

/-- **Exactness of the decoder.** `percent_decode` answers `Some(b)` exactly when the text is a
concatenation of literal bytes (anything but `%`) and well-formed escapes `%XY` (two hex digits,
either case) that denotes `b`; in every other case it answers `None`. -/
theorem decode_iff_denotes (s b : Bytes) : decode s = some b ↔ Spec.Denotes s b :=
  ⟨decode_sound s b, decode_complete⟩

/-- **None or exact.** Whatever the decoder returns is what the text denotes. -/
theorem decode_none_or_exact (s : Bytes) :
    decode s = none ∨ ∃ b, decode s = some b ∧ Spec.Denotes s b := by
  cases h : decode s with
  | none => exact .inl rfl
  | some b => exact .inr ⟨b, rfl, decode_sound s b h⟩

/-- **Malformed escapes are rejected.** A `%` anywhere in the text that is not followed by two
hexadecimal digits makes the decoder answer `None` (whatever precedes and follows it). -/
theorem decode_rejects_bad_escape (pre post : Bytes)
    (h : ¬ ∃ x y rest, post = x :: y :: rest ∧
      (Spec.hexDigitValue x).isSome ∧ (Spec.hexDigitValue y).isSome) :
    decode (pre ++ 37 :: post) = none := by
  apply decode_bad_escape
  simpa [hexVal_eq_spec] using h

/-- The text a byte string denotes is unique (the relation is functional). -/
theorem denotes_functional {s b₁ b₂ : Bytes} (h₁ : Spec.Denotes s b₁) (h₂ : Spec.Denotes s b₂) :
    b₁ = b₂ := by
  have e₁ := decode_complete h₁
  have e₂ := decode_complete h₂
  rw [e₁] at e₂
  exact Option.some.inj e₂

-- Non-vacuity and the shapes that defeated the unrepaired decoder.
/-- `"%+f"` (D2): a sign is not a hex digit. -/
example : decode [37, 43, 102] = none :=
  decode_rejects_bad_escape [] [43, 102] (by
    rintro ⟨x, y, rest, h, hx, -⟩
    obtain ⟨rfl, -⟩ := List.cons.inj h
    revert hx; decide)
example : decode [37, 52, 49, 37, 54, 49, 32] = some [65, 97, 32] := by decide   -- "%41%61 "
example : Spec.Denotes [37, 52, 102] [79] :=                                     -- "%4f" ↦ "O"
  (decode_iff_denotes _ _).mp (by decide)
example : encode [65, 32, 233] = [65, 37, 50, 48, 37, 69, 57] := by decide       -- "A%20%E9"
example : decode [97, 37] = none := decode_rejects_bad_escape [97] [] (by simp)  -- "a%"

end Humphrey.Percent
