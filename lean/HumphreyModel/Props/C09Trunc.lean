import HumphreyModel.Proofs.TruncChunked
import HumphreyModel.Props.C09
import HumphreyModel.Props.C07Roundtrip

/-!
# C09 — each valid upstream response, cut at every byte offset, is answered 502

Model: `Model/Proxy.lean` (`proxyRequest`), `Model/Response.lean` (`parseResponse`). Helper lemmas:
`Proofs/TruncCut.lean`, `Proofs/TruncChunked.lean`.

A response `r` as the serialiser writes it is `headBytes r ++ r.body ++ pad r`: the head (status line,
field lines, blank line — `headBytes_eq`: what the serialiser writes for `r` without its body), the body,
and the surplus CRLF the serialiser appends after a non-empty body (`serialize_eq_wire_pad`; recorded
finding `crlf-after-body`). The message as framed by Content-Length is `wireBytes r = headBytes r ++
r.body`: it ends with the last body byte. Every cut strictly before that point is an error and is
answered 502, for every segmentation of the prefix into reads and whether the upstream then closes
or stalls (`cut_at_any_offset_502`). A cut at or after that point (inside the surplus CRLF) leaves a
complete message, which parses (`cut_in_pad_is_complete`) — so the bound is exact.

The same for chunked framing (`Spec.renderChunked`, hypotheses as in `chunked_decode`): every
proper prefix of the message — which ends with the CRLF after the last chunk — is an error
(`chunked_cut_at_any_offset_502`).
-/
namespace Humphrey.Http
open Humphrey Humphrey.Bytes Humphrey.IO

/-- Bytes that do not parse are answered 502 however they are cut into reads and however the
transmission ends. -/
theorem unparsable_bytes_502 (chunks : List Bytes) (ending : UpEnd) (e : RespErr)
    (h : parseResponse flatSource chunks.flatten = .err e) :
    proxyRequest (.accepted chunks ending) = badGateway := by
  have hs := parseResponse_sim reader_flat_sim (⟨[], chunks⟩ : Reader) chunks.flatten (by simp [Reader.rest])
  rcases hs.elim with ⟨a, t₁, t₂, _, e₂, _⟩ | ⟨e', e₁, _⟩ | ⟨_, e₂⟩
  · rw [h] at e₂; cases e₂
  · exact invalid_response_502 chunks ending e' e₁
  · rw [h] at e₂; cases e₂

/-! ## Content-Length framing -/

/-- **A Content-Length framed response cut at any offset `n` before its last body byte does not
parse** — whether the cut falls in the status line, in a field line, in the blank line or in the
body. (`headBytes r` is the message up to and including the blank line.) -/
theorem cut_response_is_error (r : Response) (h : r.WF) (hp : r.ParseBack)
    (hcl : r.headers.get hContentLength = some (natToBytes r.body.length))
    (n : Nat) (hn : n < (headBytes r).length + r.body.length) :
    ∃ e, parseResponse flatSource ((serializeResponse r).take n) = .err e := by
  rw [← wireBytes_length_eq] at hn
  rw [take_serialize_eq_take_wire r n (by omega)]
  exact trunc_contentLength_cut r h hp hcl n hn

/-- The kind of error, by where the cut falls: inside the head it is a parse error
(`ResponseError::…` from a line without LF), inside the body a stream error (`read_exact` hits the
end of the stream). -/
theorem cut_in_head_is_response_error (r : Response) (h : r.WF) (hp : r.ParseBack)
    (n : Nat) (hn : n < (headBytes r).length) :
    parseResponse flatSource ((serializeResponse r).take n) = .err .response := by
  obtain ⟨s1, _, _, _⟩ := statusLine_facts r h
  rw [take_serialize_eq_take_wire r n (by rw [wireBytes_length_eq]; omega)]
  rw [wireBytes, trunc_take_lt _ _ _ (by omega)]
  exact trunc_head_cut (statusLine r) r.version r.status r.headers.sorted (fun b hb => (s1 b hb).2)
    (parseStatusLine_serialize r h hp)
    (fun x hx => h.headers x ((mem_sorted_m _ _).mp hx))
    (fun x hx => hp.line_utf8 x ((mem_sorted_m _ _).mp hx))
    (fun x hx => hp.value_trim x ((mem_sorted_m _ _).mp hx)) n hn

/-- **Each valid Content-Length framed response cut at every byte offset ⇒ 502**: for every offset
before the last body byte, every way of cutting the prefix into reads, and both endings (the
upstream closes, or stalls until the deadline). -/
theorem cut_at_any_offset_502 (r : Response) (h : r.WF) (hp : r.ParseBack)
    (hcl : r.headers.get hContentLength = some (natToBytes r.body.length))
    (n : Nat) (hn : n < (headBytes r).length + r.body.length)
    (chunks : List Bytes) (hc : chunks.flatten = (serializeResponse r).take n) (ending : UpEnd) :
    proxyRequest (.accepted chunks ending) = badGateway := by
  obtain ⟨e, he⟩ := cut_response_is_error r h hp hcl n hn
  exact unparsable_bytes_502 chunks ending e (by rw [hc]; exact he)

/-- The bound is exact: cut at or after the last body byte (i.e. inside the serialiser's surplus
CRLF, or not at all) the message is complete; it parses to `r` (headers in sorted order) and the
proxy returns it. -/
theorem cut_in_pad_is_complete (r : Response) (h : r.WF) (hp : r.ParseBack)
    (hcl : r.headers.get hContentLength = some (natToBytes r.body.length))
    (n : Nat) (hn : (headBytes r).length + r.body.length ≤ n)
    (chunks : List Bytes) (hc : chunks.flatten = (serializeResponse r).take n) (ending : UpEnd) :
    proxyRequest (.accepted chunks ending) = ⟨r.version, r.status, r.headers.sorted, r.body⟩ := by
  rw [← wireBytes_length_eq] at hn
  have hf := trunc_contentLength_complete r h hp hcl n hn
  have hs := parseResponse_sim reader_flat_sim (⟨[], chunks⟩ : Reader) chunks.flatten (by simp [Reader.rest])
  rw [hc, hf] at hs
  rcases hs.elim with ⟨a, t₁, t₂, e₁, e₂, _⟩ | ⟨e', _, e₂⟩ | ⟨_, e₂⟩
  · simp only [Outcome.ok.injEq, Prod.mk.injEq] at e₂
    obtain ⟨rfl, _⟩ := e₂
    apply valid_response_returned chunks ending _ t₁ e₁
    right
    simp [closeDelimited, sorted_get_m, hcl]
  · cases e₂
  · cases e₂

/-! ## Chunked framing -/

/-- **Every proper prefix of a chunked message does not parse** (status line, field lines, blank line,
a chunk-size line, chunk data, the CRLF after it, the last-chunk line, the final CRLF). -/
theorem chunked_cut_is_error (version phrase : Bytes) (code : Nat) (hs₁ hs₂ : Headers)
    (parts : List (Bytes × Bytes)) (last : Bytes)
    (hver : ∀ b ∈ version, b ≠ 32 ∧ b ≠ 10) (hph : ∀ b ∈ phrase, b ≠ 10) (hk : statusKnown code = true)
    (hu : utf8Valid (version ++ 32 :: (natToBytes code ++ 32 :: phrase) ++ [13, 10]) = true)
    (hw : ∀ h ∈ hs₁ ++ hs₂, h.WF ∧ utf8Valid (headerLine h ++ [13, 10]) = true ∧
      wsPrefixLen h.value = 0 ∧ h.name ≠ hTransferEncoding)
    (hparts : ∀ p ∈ parts, Spec.HexSpells p.1 p.2.length ∧ p.2 ≠ [] ∧ p.2.length < 18446744073709551616)
    (hlast : Spec.HexSpells last 0) (n : Nat)
    (hn : n < (Spec.renderChunked version (natToBytes code) phrase
        ((hs₁ ++ teHeader :: hs₂).map headerLine) parts last).length) :
    ∃ e, parseResponse flatSource
      ((Spec.renderChunked version (natToBytes code) phrase
        ((hs₁ ++ teHeader :: hs₂).map headerLine) parts last).take n) = .err e :=
  trunc_chunked_cut version phrase code hs₁ hs₂ parts last hver hph hk hu hw hparts hlast n hn

/-- The chunk decoder alone, on every proper prefix of a chunked body. -/
theorem chunked_body_cut_is_error (parts : List (Bytes × Bytes)) (last : Bytes)
    (hparts : ∀ p ∈ parts, Spec.HexSpells p.1 p.2.length ∧ p.2 ≠ [] ∧ p.2.length < 18446744073709551616)
    (hlast : Spec.HexSpells last 0) (k : Nat) (hk : k < (Spec.renderChunkedBody parts last).length)
    (fuel : Nat) :
    ∃ e, parseChunks flatSource fuel ((Spec.renderChunkedBody parts last).take k) [] = .err e :=
  trunc_chunks_cut parts last hparts hlast k hk fuel []

/-- **Each valid chunked response cut at every byte offset ⇒ 502**, for every segmentation of the
prefix and both endings. -/
theorem chunked_cut_at_any_offset_502 (version phrase : Bytes) (code : Nat) (hs₁ hs₂ : Headers)
    (parts : List (Bytes × Bytes)) (last : Bytes)
    (hver : ∀ b ∈ version, b ≠ 32 ∧ b ≠ 10) (hph : ∀ b ∈ phrase, b ≠ 10) (hk : statusKnown code = true)
    (hu : utf8Valid (version ++ 32 :: (natToBytes code ++ 32 :: phrase) ++ [13, 10]) = true)
    (hw : ∀ h ∈ hs₁ ++ hs₂, h.WF ∧ utf8Valid (headerLine h ++ [13, 10]) = true ∧
      wsPrefixLen h.value = 0 ∧ h.name ≠ hTransferEncoding)
    (hparts : ∀ p ∈ parts, Spec.HexSpells p.1 p.2.length ∧ p.2 ≠ [] ∧ p.2.length < 18446744073709551616)
    (hlast : Spec.HexSpells last 0) (n : Nat)
    (hn : n < (Spec.renderChunked version (natToBytes code) phrase
        ((hs₁ ++ teHeader :: hs₂).map headerLine) parts last).length)
    (chunks : List Bytes)
    (hc : chunks.flatten = (Spec.renderChunked version (natToBytes code) phrase
        ((hs₁ ++ teHeader :: hs₂).map headerLine) parts last).take n) (ending : UpEnd) :
    proxyRequest (.accepted chunks ending) = badGateway := by
  obtain ⟨e, he⟩ :=
    chunked_cut_is_error version phrase code hs₁ hs₂ parts last hver hph hk hu hw hparts hlast n hn
  exact unparsable_bytes_502 chunks ending e (by rw [hc]; exact he)

/-! ## Non-vacuity -/

/-- The sample response of `Props/C07Roundtrip.lean` (`HTTP/1.1 200 OK`, `Content-Length: 1`,
`x-a: v`, body `x`): 46 bytes of head, one body byte, two bytes of surplus CRLF. -/
example : (headBytes sampleResponse).length = 46 ∧ (serializeResponse sampleResponse).length = 49 := by
  decide

/-- All 47 cuts of it are answered 502, e.g. delivered as two reads and then a stall. -/
example (n : Nat) (hn : n < 47) :
    proxyRequest (.accepted [((serializeResponse sampleResponse).take n).take 7,
      ((serializeResponse sampleResponse).take n).drop 7] .silent) = badGateway :=
  cut_at_any_offset_502 sampleResponse sampleResponse_wf sampleResponse_parseBack (by decide) n
    (by have : (headBytes sampleResponse).length = 46 := by decide
        have : sampleResponse.body.length = 1 := by decide
        omega) _ (by simp) _

/-- …while the cut after the last body byte is the complete response. -/
example : proxyRequest (.accepted [(serializeResponse sampleResponse).take 47] .closed) =
    ⟨sampleResponse.version, 200, sampleResponse.headers.sorted, [120]⟩ :=
  cut_in_pad_is_complete sampleResponse sampleResponse_wf sampleResponse_parseBack (by decide) 47
    (by decide) _ (by simp) _

/-- A concrete chunked message (one chunk `a`, size spelled `01`; last chunk `0`): every proper
prefix is answered 502. -/
example (n : Nat)
    (hn : n < (Spec.renderChunked [72, 84, 84, 80, 47, 49, 46, 49] (natToBytes 200) [79, 75]
      (([] ++ teHeader :: []).map headerLine) [([48, 49], [97])] [48]).length) (ending : UpEnd) :
    proxyRequest (.accepted [(Spec.renderChunked [72, 84, 84, 80, 47, 49, 46, 49] (natToBytes 200) [79, 75]
      (([] ++ teHeader :: []).map headerLine) [([48, 49], [97])] [48]).take n] ending) = badGateway :=
  chunked_cut_at_any_offset_502 [72, 84, 84, 80, 47, 49, 46, 49] [79, 75] 200 [] [] [([48, 49], [97])] [48]
    (by decide) (by decide) (by decide) (by decide) (by simp)
    (by
      intro p hp
      simp only [List.mem_cons, List.not_mem_nil, or_false] at hp
      subst hp
      exact ⟨⟨by decide, by decide⟩, by decide, by decide⟩)
    ⟨by decide, by decide⟩ n hn _ (by simp) ending

end Humphrey.Http
