import HumphreyModel.Proofs.HttpMsgParse
import HumphreyModel.Proofs.HttpMsgChunked

/-!
# C07 — responses serialise to valid HTTP and parse back (the theorems `Props/C07.lean` lists as open)

Model: `Model/Response.lean`. Spec: `Spec/HttpMsg.lean` (independent strict recogniser `parseMsg`,
`checkSerialization`), `Spec/Status.lean`, `Spec/Chunked.lean` (RFC 9112 §7.1 rendering).
Helper lemmas: `Proofs/HttpMsg*.lean`. Well-formedness `Response.WF` (`Proofs/HttpMsgSer.lean`) is
exactly the property's exclusions: version non-empty without SP/CR/LF, a status the code knows,
header names that are non-empty tokens (automatic for the names of the header table,
`HName.wf_known`; for a custom name a condition on its stored lower-case key, `HName.wf_of_lower`;
whatever `HeaderType::from` builds from a token satisfies it, `HName.wf_ofName`), header values
without CR/LF and without leading SP/TAB.

The full statement

    theorem serialize_valid (r) (h : r.WF) :
      Spec.checkSerialization r.version r.status (r.headers.map fun h => (h.name.lower, h.value)) r.body
        (serializeResponse r) = none

is FALSE for every response with a non-empty body: `impl From<Response> for Vec<u8>` appends CRLF
after a non-empty body (recorded finding `crlf-after-body`; `serialize_crlf_pad_witness` in
`Props/C07.lean`, `serialize_valid_false` below). Proved: `serialize_valid_partial`.
-/
namespace Humphrey.Http
open Humphrey Humphrey.Bytes Humphrey.IO

/-! ## A. The serialiser against the strict recogniser -/

/-- A well-formed response serialises to a message the independent recogniser accepts, with exactly
this version, code, reason phrase, these fields (sorted order) and — CRLF pad — this body. -/
theorem parseMsg_serialize_wf (r : Response) (h : r.WF) :
    Spec.parseMsg (serializeResponse r) =
      some ⟨r.version, statusCodeOut r.status, reasonPhrase r.status,
        r.headers.sorted.map (fun h => (asciiLower h.name.display, h.value)),
        if r.body = [] then [] else r.body ++ [13, 10]⟩ :=
  parseMsg_serialize r h

/-- **Serialised responses are valid HTTP messages** for the response they were made from (syntax,
version, status code, registered reason phrase, exactly the response's fields with same-named
fields in their original order, body) — except that a non-empty body is followed by a surplus
CRLF. -/
theorem serialize_valid_partial (r : Response) (h : r.WF) :
    Spec.checkSerialization r.version r.status (r.headers.map fun h => (h.name.lower, h.value)) r.body
      (serializeResponse r) ∈ [none, some "crlf-after-body"] := by
  rw [checkSerialization_serialize r h]
  by_cases hb : r.body = [] <;> simp [hb]

/-- With an empty body the message is valid outright. -/
theorem serialize_valid_empty_body (r : Response) (h : r.WF) (hb : r.body = []) :
    Spec.checkSerialization r.version r.status (r.headers.map fun h => (h.name.lower, h.value)) r.body
      (serializeResponse r) = none := by
  rw [checkSerialization_serialize r h]; simp [hb]

/-- The unrestricted statement fails on every well-formed response with a body. -/
theorem serialize_valid_false (r : Response) (h : r.WF) (hb : r.body ≠ []) :
    Spec.checkSerialization r.version r.status (r.headers.map fun h => (h.name.lower, h.value)) r.body
      (serializeResponse r) = some "crlf-after-body" := by
  rw [checkSerialization_serialize r h]; simp [hb]

/-! ## B. Parse-back -/

/-- **`from_stream (Vec::from r)` returns `r`** (headers up to the stable sort `Headers::iter`
applies: for every name the same values in the same order), leaving unread exactly what followed
the message — plus the surplus CRLF when the body is non-empty. Hypotheses beyond `WF`
(`Response.ParseBack`): the lines are valid UTF-8 (always so in Rust, where the parts are
`String`s), no header value starts with Unicode white space (`trim_start`), the body length is a
`usize`, and the response is not itself marked `Transfer-Encoding: chunked` (such a response is
read back through the chunk decoder — a response carrying both that and Content-Length does NOT
round-trip, which is why the clause cannot be dropped). Framing: either the response carries
`Content-Length: <body length>`, or it is bodiless without Content-Length and then EITHER its status
never carries a body (1xx/204/304) OR nothing follows it on the stream — otherwise `from_stream`
(after the D20 repair) reads what follows as a close-delimited body; see
`parse_serialize_close_delimited`. -/
theorem parse_serialize (r : Response) (h : r.WF) (hp : r.ParseBack) (rest : Bytes)
    (hcl : r.headers.get hContentLength = some (natToBytes r.body.length) ∨
      (r.body = [] ∧ r.headers.get hContentLength = none ∧ (noBodyStatus r.status = true ∨ rest = []))) :
    ∃ r', parseResponse flatSource (serializeResponse r ++ rest) = .ok (r', pad r ++ rest) ∧
      r'.version = r.version ∧ r'.status = r.status ∧ r'.body = r.body ∧
      ∀ n, r'.headers.getAll n = r.headers.getAll n :=
  ⟨_, parseResponse_serialize r h hp rest hcl, rfl, rfl, rfl, fun n => sorted_getAll_m _ n⟩

/-- The same for every way of cutting the bytes into reads. -/
theorem parse_serialize_chunked (r : Response) (h : r.WF) (hp : r.ParseBack) (rest : Bytes)
    (hcl : r.headers.get hContentLength = some (natToBytes r.body.length) ∨
      (r.body = [] ∧ r.headers.get hContentLength = none ∧ (noBodyStatus r.status = true ∨ rest = [])))
    (reads : List Bytes) (hreads : reads.flatten = serializeResponse r ++ rest) :
    ∃ r' t, parseResponse readerSource ⟨[], reads⟩ = .ok (r', t) ∧ t.rest = pad r ++ rest ∧
      r'.version = r.version ∧ r'.status = r.status ∧ r'.body = r.body ∧
      ∀ n, r'.headers.getAll n = r.headers.getAll n := by
  have hs := parseResponse_sim reader_flat_sim ⟨[], reads⟩ (serializeResponse r ++ rest)
    (by simp [Reader.rest, hreads])
  rw [parseResponse_serialize r h hp rest hcl] at hs
  rcases hs.elim with ⟨a, t₁, t₂, e₁, e₂, ht⟩ | ⟨e, _, e₂⟩ | ⟨_, e₂⟩
  · simp only [Outcome.ok.injEq, Prod.mk.injEq] at e₂
    obtain ⟨rfl, rfl⟩ := e₂
    exact ⟨_, t₁, e₁, ht, rfl, rfl, rfl, fun n => sorted_getAll_m _ n⟩
  · cases e₂
  · cases e₂

/-- **Close-delimited read-back**: a response without Content-Length (and not chunked) whose status
may carry a body is read back up to end of stream: the body returned is the body sent *followed by
the serialiser's CRLF pad* (and by anything else the peer sent before closing). So such a response
round-trips exactly only when its body is empty and nothing follows. -/
theorem parse_serialize_close_delimited (r : Response) (h : r.WF) (hp : r.ParseBack)
    (hcl : r.headers.get hContentLength = none) (hs : noBodyStatus r.status = false) :
    ∃ r', parseResponse flatSource (serializeResponse r) = .ok (r', []) ∧
      r'.version = r.version ∧ r'.status = r.status ∧
      r'.body = r.body ++ (if r.body = [] then [] else crlf) ∧
      ∀ n, r'.headers.getAll n = r.headers.getAll n := by
  have := parseResponse_serialize_close r h hp [] hcl hs
  rw [List.append_nil] at this
  refine ⟨_, this, rfl, rfl, ?_, fun n => sorted_getAll_m _ n⟩
  by_cases hb : r.body = [] <;> simp [bodyPart, hb, crlf]

/-- General form: whatever follows the message on the stream is part of the close-delimited body. -/
theorem parse_serialize_close_delimited_rest (r : Response) (h : r.WF) (hp : r.ParseBack) (rest : Bytes)
    (hcl : r.headers.get hContentLength = none) (hs : noBodyStatus r.status = false) :
    parseResponse flatSource (serializeResponse r ++ rest) =
      .ok (⟨r.version, r.status, r.headers.sorted, bodyPart r ++ rest⟩, []) :=
  parseResponse_serialize_close r h hp rest hcl hs

/-! ## Chunked transfer coding -/

/-- **A chunked message decodes to its concatenated data**: for every status line the code
accepts, any header fields (`Transfer-Encoding: chunked` at any position among them), any division
of the body into non-empty chunks and any spelling of the sizes (`Spec.HexSpells`: upper or lower
case, leading zeros), `from_stream` returns the version, the status, the other headers in wire
order followed by `Content-Length: <total>`, and the concatenation of the chunk data, and consumes
the message exactly. (Induction on the list of chunks: `parseChunks_render`.) The fields need not
exclude Content-Length: the chunked branch ignores it. -/
theorem chunked_decode (version phrase : Bytes) (code : Nat) (hs₁ hs₂ : Headers)
    (parts : List (Bytes × Bytes)) (last : Bytes)
    (hver : ∀ b ∈ version, b ≠ 32 ∧ b ≠ 10) (hph : ∀ b ∈ phrase, b ≠ 10) (hk : statusKnown code = true)
    (hu : utf8Valid (version ++ 32 :: (natToBytes code ++ 32 :: phrase) ++ [13, 10]) = true)
    (hw : ∀ h ∈ hs₁ ++ hs₂, h.WF ∧ utf8Valid (headerLine h ++ [13, 10]) = true ∧
      wsPrefixLen h.value = 0 ∧ h.name ≠ hTransferEncoding)
    (hparts : ∀ p ∈ parts, Spec.HexSpells p.1 p.2.length ∧ p.2 ≠ [] ∧ p.2.length < 18446744073709551616)
    (hlast : Spec.HexSpells last 0) :
    parseResponse flatSource
      (Spec.renderChunked version (natToBytes code) phrase
        ((hs₁ ++ teHeader :: hs₂).map headerLine) parts last) =
      .ok (⟨version, code,
          hs₁ ++ hs₂ ++ [⟨hContentLength, natToBytes (parts.map (·.2)).flatten.length⟩],
          (parts.map (·.2)).flatten⟩, []) :=
  parseResponse_chunked version phrase code hs₁ hs₂ parts last hver hph hk hu hw hparts hlast

/-- The same for every way of cutting the message into reads. -/
theorem chunked_decode_any_reads (version phrase : Bytes) (code : Nat) (hs₁ hs₂ : Headers)
    (parts : List (Bytes × Bytes)) (last : Bytes)
    (hver : ∀ b ∈ version, b ≠ 32 ∧ b ≠ 10) (hph : ∀ b ∈ phrase, b ≠ 10) (hk : statusKnown code = true)
    (hu : utf8Valid (version ++ 32 :: (natToBytes code ++ 32 :: phrase) ++ [13, 10]) = true)
    (hw : ∀ h ∈ hs₁ ++ hs₂, h.WF ∧ utf8Valid (headerLine h ++ [13, 10]) = true ∧
      wsPrefixLen h.value = 0 ∧ h.name ≠ hTransferEncoding)
    (hparts : ∀ p ∈ parts, Spec.HexSpells p.1 p.2.length ∧ p.2 ≠ [] ∧ p.2.length < 18446744073709551616)
    (hlast : Spec.HexSpells last 0) (reads : List Bytes)
    (hreads : reads.flatten = Spec.renderChunked version (natToBytes code) phrase
        ((hs₁ ++ teHeader :: hs₂).map headerLine) parts last) :
    ∃ t, parseResponse readerSource ⟨[], reads⟩ =
      .ok (⟨version, code,
          hs₁ ++ hs₂ ++ [⟨hContentLength, natToBytes (parts.map (·.2)).flatten.length⟩],
          (parts.map (·.2)).flatten⟩, t) ∧ t.rest = [] := by
  have hs := parseResponse_sim reader_flat_sim ⟨[], reads⟩
    (Spec.renderChunked version (natToBytes code) phrase ((hs₁ ++ teHeader :: hs₂).map headerLine) parts last)
    (by simp only [Reader.rest, List.nil_append]; exact hreads)
  rw [chunked_decode version phrase code hs₁ hs₂ parts last hver hph hk hu hw hparts hlast] at hs
  rcases hs.elim with ⟨a, t₁, t₂, e₁, e₂, ht⟩ | ⟨e, _, e₂⟩ | ⟨_, e₂⟩
  · simp only [Outcome.ok.injEq, Prod.mk.injEq] at e₂
    obtain ⟨rfl, rfl⟩ := e₂
    exact ⟨t₁, e₁, ht⟩
  · cases e₂
  · cases e₂

/-! ## Non-vacuity -/

/-- `HTTP/1.1 200 OK`, `Content-Length: 1`, a custom header `x-a: v`, body `x`. -/
def sampleResponse : Response :=
  ⟨[72, 84, 84, 80, 47, 49, 46, 49], 200, [⟨hContentLength, [49]⟩, ⟨⟨[120, 45, 97]⟩, [118]⟩], [120]⟩

theorem sampleResponse_wf : sampleResponse.WF := by
  refine ⟨by decide, by decide, by decide, ?_⟩
  intro h hh
  simp only [sampleResponse, List.mem_cons, List.not_mem_nil, or_false] at hh
  rcases hh with rfl | rfl
  · exact ⟨HName.wf_known _ (by decide), by decide, by intro b t e; cases e; decide⟩
  · exact ⟨HName.wf_of_lower _ (by decide) (by decide) (by decide), by decide,
      by intro b t e; cases e; decide⟩

theorem sampleResponse_parseBack : sampleResponse.ParseBack := by
  refine ⟨by decide, ?_, ?_, by decide, by decide⟩
  · intro h hh
    simp only [sampleResponse, List.mem_cons, List.not_mem_nil, or_false] at hh
    rcases hh with rfl | rfl <;> decide
  · intro h hh
    simp only [sampleResponse, List.mem_cons, List.not_mem_nil, or_false] at hh
    rcases hh with rfl | rfl <;> decide

example : Spec.checkSerialization sampleResponse.version sampleResponse.status
    (sampleResponse.headers.map fun h => (h.name.lower, h.value)) sampleResponse.body
    (serializeResponse sampleResponse) = some "crlf-after-body" :=
  serialize_valid_false _ sampleResponse_wf (by decide)

example : ∃ r', parseResponse flatSource (serializeResponse sampleResponse ++ []) = .ok (r', [13, 10]) ∧
    r'.body = [120] := by
  obtain ⟨r', h1, _, _, h4, _⟩ :=
    parse_serialize sampleResponse sampleResponse_wf sampleResponse_parseBack [] (.inl (by decide))
  exact ⟨r', h1, h4⟩

/-- A concrete chunked message: `HTTP/1.1 200 OK`, chunks `a` (size spelled `01`), ten bytes (size
spelled `a`), ten bytes (size spelled `A`), last chunk spelled `00`. -/
example : parseResponse flatSource
    (Spec.renderChunked [72, 84, 84, 80, 47, 49, 46, 49] (natToBytes 200) [79, 75] ([teHeader].map headerLine)
      [([48, 49], [97]), ([97], [48, 49, 50, 51, 52, 53, 54, 55, 56, 57]),
       ([65], [48, 49, 50, 51, 52, 53, 54, 55, 56, 57])] [48, 48]) =
    .ok (⟨[72, 84, 84, 80, 47, 49, 46, 49], 200, [⟨hContentLength, natToBytes 21⟩],
      [97, 48, 49, 50, 51, 52, 53, 54, 55, 56, 57, 48, 49, 50, 51, 52, 53, 54, 55, 56, 57]⟩, []) := by
  have := chunked_decode [72, 84, 84, 80, 47, 49, 46, 49] [79, 75] 200 [] []
    [([48, 49], [97]), ([97], [48, 49, 50, 51, 52, 53, 54, 55, 56, 57]),
     ([65], [48, 49, 50, 51, 52, 53, 54, 55, 56, 57])] [48, 48]
    (by decide) (by decide) (by decide) (by decide) (by simp)
    (by
      intro p hp
      simp only [List.mem_cons, List.not_mem_nil, or_false] at hp
      rcases hp with rfl | rfl | rfl <;> exact ⟨⟨by decide, by decide⟩, by decide, by decide⟩)
    ⟨by decide, by decide⟩
  simpa using this

end Humphrey.Http
