import HumphreyModel.Proofs.JsonSer
import HumphreyModel.Proofs.JsonSound

/-!
# C13 — the JSON parser accepts exactly RFC 8259, the serialiser emits it, and they round-trip

Property theorems only. Model: `Model/Json.lean` (parser.rs, serialize.rs after the three
repairs). Spec: `Spec/Json.lean` (`JsonText`, `LawfulCodec`, `FiniteNumbers`, `depthOf`).
All theorems hold for an arbitrary number codec `C` (`f64::from_str` / `Display`); the laws they
use are explicit hypotheses (`LawfulCodec C Fin`, and `C.parse l = some n` inside `JsonText`).
-/
namespace Humphrey.Json
open Humphrey.JsonSpec

variable {N : Type} {C : NumCodec N}

/-- **Completeness.** Every RFC 8259 text nested no deeper than `MAX_DEPTH` is accepted, and the
value returned is the one the text denotes. (`JsonText` has no rule for escapes denoting an
unpaired surrogate, so the hypothesis `NoLoneSurrogateEscape s` of the design is built into
`JsonText s v d`.) -/
theorem parse_complete {s : List Char} {v : Value N} {d : Nat}
    (h : JsonText C s v d) (hd : d ≤ maxDepth) : parse C s = some v := by
  obtain ⟨w1, t, w2, rfl, hw1, hw2, hj⟩ := h
  have hp := complete_aux C hj (2 * (w1 ++ (t ++ w2)).length + 2) 0 w2
    (by simpa using delim_ws_append hw2 delim_nil) (by omega)
    (by simp only [List.length_append]; omega)
  unfold parse
  rw [parseValue_ws_prefix C _ 0 _ hw1, hp]
  simp [flush_ws hw2]

/-- **The serialiser emits RFC 8259** (compact form), denoting the value it was given. -/
theorem serialize_is_json {Fin : N → Prop} (hC : LawfulCodec C Fin) (v : Value N)
    (hv : FiniteNumbers Fin v) : JsonText C (serialize C v) v (depthOf v) :=
  ⟨[], serialize C v, [], by simp, ws_nil, ws_nil, serialize_J hC v hv⟩

/-- **The pretty printer emits RFC 8259** for every indent. -/
theorem serialize_pretty_is_json {Fin : N → Prop} (hC : LawfulCodec C Fin) (indent : Nat) (v : Value N)
    (hv : FiniteNumbers Fin v) : JsonText C (serializePretty C indent v) v (depthOf v) :=
  ⟨[], serializePretty C indent v, [], by simp, ws_nil, ws_nil, pretty_J hC indent v 0 hv⟩

/-- **Round trip**: parsing the compact serialisation of a value with finite numbers, nested no
deeper than the parser's limit, returns that value. -/
theorem roundtrip {Fin : N → Prop} (hC : LawfulCodec C Fin) (v : Value N)
    (hv : FiniteNumbers Fin v) (hd : depthOf v ≤ maxDepth) : parse C (serialize C v) = some v :=
  parse_complete (serialize_is_json hC v hv) hd

/-- **Round trip** through `serialize_pretty(indent)`, any indent. -/
theorem roundtrip_pretty {Fin : N → Prop} (hC : LawfulCodec C Fin) (indent : Nat) (v : Value N)
    (hv : FiniteNumbers Fin v) (hd : depthOf v ≤ maxDepth) :
    parse C (serializePretty C indent v) = some v :=
  parse_complete (serialize_pretty_is_json hC indent v hv) hd

/-- (a) strings alone: `parse_string` inverts `string_to_string` for every Unicode string. -/
theorem roundtrip_string (s rest : List Char) :
    parseString (escapeString s ++ '"' :: rest) = some (s, rest) :=
  parseString_escapeString s rest

/-- The model's number check is exactly the RFC 8259 §6 grammar. -/
theorem number_check_iff_rfc (l : List Char) : isNumberLexeme l = true ↔ NumberLexeme l :=
  isNumberLexeme_iff l

/-- **Soundness.** Whatever `Value::parse` accepts is an RFC 8259 text nested no deeper than
`MAX_DEPTH`, and the value returned is the one the text denotes. -/
theorem parse_sound {s : List Char} {v : Value N} (h : parse C s = some v) :
    ∃ d, d ≤ maxDepth ∧ JsonText C s v d := by
  unfold parse at h
  split at h
  · simp at h
  · rename_i v' rest hpv
    split at h
    · rename_i hemp
      simp only [Option.some.injEq] at h; subst h
      obtain ⟨w, t, d, hs, hw, hj, hb⟩ := (sound_aux C _).1 0 s v' rest (Nat.zero_le _) hpv
      obtain ⟨w2, hw2, hs2⟩ := flush_split rest
      have : flushWhitespace rest = [] := by simpa using hemp
      rw [this, List.append_nil] at hs2
      subst hs2
      exact ⟨d, by omega, w, t, rest, hs, hw, hw2, hj⟩
    · simp at h

/-- **`Value::parse` accepts exactly RFC 8259** (texts without unpaired-surrogate escapes, nested no
deeper than `MAX_DEPTH` = 256) **and returns the value the text denotes.** -/
theorem parse_iff_json_text (s : List Char) (v : Value N) :
    parse C s = some v ↔ ∃ d, d ≤ maxDepth ∧ JsonText C s v d :=
  ⟨parse_sound, fun ⟨_, hd, h⟩ => parse_complete h hd⟩

/-- Acceptance alone, for a codec whose `parse` is defined on every number lexeme: the accepted
strings are exactly the texts of the grammar. -/
theorem parse_accepts_iff (s : List Char) :
    (∃ v, parse C s = some v) ↔ ∃ v d, d ≤ maxDepth ∧ JsonText C s v d :=
  ⟨fun ⟨v, h⟩ => let ⟨d, hd, hj⟩ := parse_sound h; ⟨v, d, hd, hj⟩,
   fun ⟨v, _, hd, h⟩ => ⟨v, parse_complete h hd⟩⟩

/-- **Members in document order.** When an object is returned, the text is `ws { members } ws` and
the member list returned is the one the `members` text denotes under the rules
`J.membersOne` / `J.membersCons`, which read `member , members` as `(key, value) :: rest`:
first member of the text first, duplicates kept. -/
theorem members_in_document_order {s : List Char} {ms : List (List Char × Value N)}
    (h : parse C s = some (.object ms)) :
    ∃ w1 t w2, s = w1 ++ ('{' :: (t ++ ['}']) ++ w2) ∧ Ws w1 ∧ Ws w2 ∧
      ((ms = [] ∧ Ws t) ∨ ∃ d, J C .members t (.object ms) d) := by
  obtain ⟨d, _, w1, t, w2, hs, hw1, hw2, hj⟩ := parse_sound h
  cases hj with
  | objectEmpty hw => exact ⟨w1, _, w2, hs, hw1, hw2, Or.inl ⟨rfl, hw⟩⟩
  | object hm => exact ⟨w1, _, w2, hs, hw1, hw2, Or.inr ⟨_, hm⟩⟩

/-- The head of the returned member list is the first member of the text. -/
theorem first_member_first {w1 k w2 w3 t w4 t' key : List Char} {v : Value N}
    {ms : List (List Char × Value N)} {d d' : Nat}
    (hw1 : Ws w1) (hk : StrBody k key) (hw2 : Ws w2) (hw3 : Ws w3) (hv : J C .value t v d) (hw4 : Ws w4)
    (hrest : J C .members t' (.object ms) d') (hd : max d d' + 1 ≤ maxDepth) :
    parse C ('{' :: ((w1 ++ '"' :: (k ++ '"' :: (w2 ++ ':' :: (w3 ++ (t ++ (w4 ++ ',' :: t')))))) ++ ['}'])) =
      some (.object ((key, v) :: ms)) :=
  parse_complete ⟨[], _, [], by simp, ws_nil, ws_nil,
    .object (.membersCons hw1 hk hw2 hw3 hv hw4 hrest)⟩ hd

/-! ### Non-vacuity -/

/-- a trivially lawful codec: one number, printed `0` -/
def unitCodec : NumCodec Unit := ⟨fun _ => some (), fun _ => ['0']⟩

theorem lexeme_zero : NumberLexeme ['0'] := by
  have := NumberLexeme.mk .none .zero .none .none
  simpa using this

theorem unitCodec_lawful : LawfulCodec unitCodec (fun _ => True) :=
  ⟨fun _ _ => ⟨(), rfl⟩, fun _ _ => lexeme_zero, fun _ _ => rfl⟩

/-- `JsonText` is inhabited on a text with whitespace, a nested array, an object and an escape. -/
example : JsonText unitCodec " [0 ,{\"a\\n\":[]}]".toList
    (.array [.number (), .object [(['a', '\n'], .array [])]]) 3 := by
  refine ⟨[' '], "[0 ,{\"a\\n\":[]}]".toList, [], rfl, ?_, ws_nil, ?_⟩
  · intro c hc; simp at hc; exact Or.inl hc
  · have h0 : J unitCodec .value ['0'] (.number ()) 0 := .number lexeme_zero rfl
    have hk : StrBody ['a', '\\', 'n'] ['a', '\n'] :=
      .raw ((unescaped_iff _).1 (by decide)) (.esc .n .nil)
    have harr : J unitCodec .value ['[', ']'] (.array []) 1 := .arrayEmpty (w := []) ws_nil
    have hm : J unitCodec .members ("\"a\\n\":[]".toList) (.object [(['a', '\n'], .array [])]) 1 :=
      .membersOne (w1 := []) (w2 := []) (w3 := []) (w4 := []) ws_nil hk ws_nil ws_nil harr ws_nil
    have hobj : J unitCodec .value ("{\"a\\n\":[]}".toList) (.object [(['a', '\n'], .array [])]) 2 := .object hm
    have he : J unitCodec .elems ("0 ,{\"a\\n\":[]}".toList) (.array [.number (), .object [(['a', '\n'], .array [])]]) 2 :=
      .elemsCons (w1 := []) (w2 := [' ']) ws_nil h0 ws_space (.elemsOne (w1 := []) (w2 := []) ws_nil hobj ws_nil)
    exact .array he

/-- the round-trip theorems apply to a concrete value (hypotheses are satisfiable) -/
example : parse unitCodec (serializePretty unitCodec 4
    (.object [(['k'], .array [.number (), .string ['\n', '"'], .null])])) =
    some (.object [(['k'], .array [.number (), .string ['\n', '"'], .null])]) :=
  roundtrip_pretty unitCodec_lawful 4 _ (by simp [FiniteNumbers, FiniteMembers, FiniteList])
    (by simp [depthOf, depthMembers, depthList, maxDepth])

/-- soundness is not vacuous: rejected inputs of the unrepaired parser are not JSON texts -/
example : parse unitCodec "01".toList = none := by
  simp [parse, parseValue, flushWhitespace, parseLiteral, isLiteral, isWhitespace, isNumberLexeme, numInt, numFrac,
    numExp]

end Humphrey.Json
