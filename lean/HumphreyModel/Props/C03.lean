import HumphreyModel.Proofs.RespSim
import HumphreyModel.Props.C10
import HumphreyModel.Props.C13
import HumphreyModel.Props.C15

/-!
# C03 — no input can crash, wedge or exhaust a parser

The five parser models (request: `Model/Http.lean`; response: `Model/Response.lean`; WebSocket
frame: `Model/WsFrame.lean`; JSON: `Model/Json.lean`; configuration: `Model/Conf.lean`) keep Rust's
panics explicit (`Outcome.panic`, `Res.panic`) or return `Option`/`Except`. They are total Lean
functions (structural recursion or fuel bounded by the input length), so each returns a value or
an error on every input; the theorems below add that the value is never the panic outcome, for
every byte source / input, and that what a parser buffers is bounded by the bytes actually
supplied, not by a claimed length.

What a theorem about the model cannot exhibit: the real stack and allocator. The correspondence
run (worker processes with an address-space limit, a watchdog and a counting allocator) observes
those on the real code: abort, hang and peak allocation per case.
-/
namespace Humphrey.Http
open Humphrey Humphrey.IO

/-! ## Request and response parsers: never the panic outcome, for every source and input -/

theorem parseHeaders_never_panics {σ : Type} (S : Source σ) (fuel : Nat) (s : σ) (acc : Headers) :
    parseHeaders S fuel s acc ≠ .panic := by
  induction fuel generalizing s acc with
  | zero => simp [parseHeaders]
  | succ fuel ih =>
    simp only [parseHeaders]
    split
    · simp
    · split
      · exact ih _ _
      · simp
      · rename_i hp
        exfalso
        revert hp
        unfold parseHeaderLine
        repeat' split
        all_goals simp

/-- **The HTTP request parser never panics**, whatever the bytes and however they are delivered. -/
theorem request_parser_never_panics {σ : Type} (S : Source σ) (env : Env) (s : σ) :
    parseRequest S env s ≠ .panic := by
  unfold parseRequest
  repeat' split
  all_goals first
    | (rename_i h; exact absurd h (parseHeaders_never_panics S _ _ _))
    | simp

theorem parseRespHeaders_never_panics {σ : Type} (S : Source σ) (fuel : Nat) (s : σ) (acc : Headers) :
    parseRespHeaders S fuel s acc ≠ .panic := by
  induction fuel generalizing s acc with
  | zero => simp [parseRespHeaders]
  | succ fuel ih =>
    simp only [parseRespHeaders]
    split
    · simp
    · split
      · exact ih _ _
      · simp
      · rename_i hp
        exfalso
        revert hp
        unfold parseRespHeaderLine
        repeat' split
        all_goals simp

theorem parseChunk_never_panics {σ : Type} (S : Source σ) (s : σ) : parseChunk S s ≠ .panic := by
  unfold parseChunk
  repeat' split
  all_goals simp

theorem parseChunks_never_panics {σ : Type} (S : Source σ) (fuel : Nat) (s : σ) (acc : Bytes) :
    parseChunks S fuel s acc ≠ .panic := by
  induction fuel generalizing s acc with
  | zero => simp [parseChunks]
  | succ fuel ih =>
    simp only [parseChunks]
    split
    · simp
    · exact ih _ _
    · simp
    · rename_i hp
      exact absurd hp (parseChunk_never_panics S s)

theorem parseBody_never_panics {σ : Type} (S : Source σ) (code : Nat) (hs : Headers) (s : σ) :
    parseBody S code hs s ≠ .panic := by
  unfold parseBody
  repeat' split
  all_goals first
    | (rename_i h; exact absurd h (parseChunks_never_panics S _ _ _))
    | simp

/-- **The HTTP response parser never panics** (chunked bodies included). -/
theorem response_parser_never_panics {σ : Type} (S : Source σ) (s : σ) :
    parseResponse S s ≠ .panic := by
  unfold parseResponse
  repeat' split
  all_goals first
    | (rename_i h; exact absurd h (parseRespHeaders_never_panics S _ _ _))
    | (rename_i h; exact absurd h (parseBody_never_panics S _ _ _))
    | simp

/-! ## Memory: what is buffered is bounded by what was supplied -/

theorem flatReadUntil_length (d : UInt8) (s : Bytes) :
    (flatReadUntil d s).1.length + (flatReadUntil d s).2.length = s.length := by
  have key : ∀ (s pre post : Bytes), takeThrough d s = some (pre, post) → pre.length + post.length = s.length := by
    intro s
    induction s with
    | nil => intro pre post h; simp [takeThrough] at h
    | cons b rest ih =>
      intro pre post h
      simp only [takeThrough] at h
      split at h
      · simp at h; obtain ⟨rfl, rfl⟩ := h; simp; omega
      · cases hr : takeThrough d rest with
        | none => simp [hr] at h
        | some p =>
          obtain ⟨p1, p2⟩ := p
          simp [hr] at h
          obtain ⟨rfl, rfl⟩ := h
          have := ih p1 p2 hr
          simp; omega
  unfold flatReadUntil
  cases h : takeThrough d s with
  | none => simp
  | some p => obtain ⟨pre, post⟩ := p; simpa using key s pre post h

theorem flatReadExact_length (n : Nat) (s data rest : Bytes)
    (h : flatReadExact n s = some (data, rest)) : data.length = n ∧ n + rest.length = s.length := by
  unfold flatReadExact at h
  split at h
  · simp at h
    obtain ⟨rfl, rfl⟩ := h
    simp; omega
  · simp at h

theorem parseHeaders_flat_shrinks (fuel : Nat) (s : Bytes) (acc hs : Headers) (rest : Bytes)
    (h : parseHeaders flatSource fuel s acc = .ok (hs, rest)) : rest.length ≤ s.length := by
  induction fuel generalizing s acc with
  | zero => simp [parseHeaders] at h
  | succ fuel ih =>
    simp only [parseHeaders] at h
    have hl := flatReadUntil_length Bytes.LF s
    simp only [flatSource] at h hl
    by_cases hc : (flatReadUntil Bytes.LF s).1 = Bytes.crlf
    · simp only [hc, if_true] at h
      simp at h; obtain ⟨_, rfl⟩ := h; omega
    · simp only [hc, if_false] at h
      split at h
      · have := ih _ _ h; omega
      · simp at h
      · simp at h

/-- **The request body buffer is bounded by the bytes supplied, not by the claimed Content-Length**:
whatever the headers claim, a parsed request's body plus what is left unread fits in the input. -/
theorem request_body_le_supplied (env : Env) (s : Bytes) (req : Request) (rest : Bytes)
    (h : parseRequest flatSource env s = .ok (req, rest)) :
    (req.content.getD []).length + rest.length ≤ s.length := by
  unfold parseRequest at h
  simp only [flatSource] at h
  split at h
  · simp at h
  · rename_i first s1 h1
    have e1 := flatReadExact_length 1 s first s1 h1
    have e2 := flatReadUntil_length Bytes.LF s1
    split at h
    · simp at h
    · split at h
      · simp at h
      · simp at h
      · rename_i hs s3 hh
        have e3 := parseHeaders_flat_shrinks _ _ _ _ _ hh
        split at h
        · simp at h; obtain ⟨rfl, rfl⟩ := h; simp; omega
        · split at h
          · simp at h
          · split at h
            · simp at h
            · rename_i body s4 h4
              have e4 := flatReadExact_length _ _ _ _ h4
              simp at h; obtain ⟨rfl, rfl⟩ := h
              simp; omega

/-- A request that claims more body than the stream holds is an error (never a huge allocation that
succeeds): with fewer than `n` bytes left, reading `n` fails. -/
theorem claimed_length_beyond_input_is_error (n : Nat) (s : Bytes) (h : s.length < n) :
    flatReadExact n s = none := by
  unfold flatReadExact
  split
  · omega
  · rfl

end Humphrey.Http

namespace Humphrey
/-! ## The other three parsers (restated from their slices) -/

/-- **WebSocket frame decoder**: a total function into `Except`; truncated input is a read error
(no allocation of the claimed length can succeed), reserved opcodes are rejected. See
`WsFrame.decode_truncated`, `WsFrame.reserved_opcode_rejected` in `Props/C10.lean`. -/
theorem ws_decoder_total (chunks : List Bytes) :
    (∃ f rest, WsFrame.decodeFrame chunks = .ok (f, rest)) ∨ (∃ e, WsFrame.decodeFrame chunks = .error e) := by
  cases h : WsFrame.decodeFrame chunks with
  | ok p => exact .inl ⟨p.1, p.2, rfl⟩
  | error e => exact .inr ⟨e, rfl⟩

/-- **Configuration parser**: never the panic outcome, for every file system, text and file name
(`Conf.conf_never_panics`, proved in the C15 slice after its four repairs; nesting is bounded by
`MAX_NESTING_DEPTH`). -/
theorem conf_parser_never_panics (fs : Conf.FS) (conf filename : Conf.Str) :
    Conf.parseConf fs conf filename ≠ .panic :=
  Conf.conf_never_panics fs conf filename

/-- **JSON parser**: a total function into `Option`; whatever it accepts is nested no deeper than the
depth limit, so recursion depth is bounded whatever the input (`Json.parse_sound`). -/
theorem json_parser_depth_bounded {N : Type} (C : Json.NumCodec N) (s : List Char) (v : Json.Value N)
    (h : Json.parse C s = some v) : ∃ d, d ≤ Json.maxDepth ∧ JsonSpec.JsonText C s v d :=
  Json.parse_sound h

end Humphrey
