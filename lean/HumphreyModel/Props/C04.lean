import HumphreyModel.Model.Conn
import HumphreyModel.Props.C05

/-!
# C04 — routing: first matching host, then first matching route, else default, else 404

Model: `Model/Route.lean` (`getHandler`, `wsHandler`), used by the connection loop of
`Model/Conn.lean`. The statements are over the glob *relation* `Glob` (C05's spec), not over the
matcher: `wildcard_match_iff_glob` carries them across.
-/
namespace Humphrey.Http
open Humphrey Humphrey.Glob

/-- `x` is the first element of `l` satisfying `P`. -/
def FirstSuch {α : Type} (P : α → Prop) (l : List α) (x : α) : Prop :=
  ∃ pre post, l = pre ++ x :: post ∧ P x ∧ ∀ y ∈ pre, ¬ P y

theorem find?_some_iff_firstSuch {α : Type} (p : α → Bool) (l : List α) (x : α) :
    l.find? p = some x ↔ FirstSuch (fun y => p y = true) l x := by
  rw [List.find?_eq_some_iff_append]
  constructor
  · rintro ⟨hp, as, bs, rfl, hall⟩
    exact ⟨as, bs, rfl, hp, fun y hy => by simpa using hall y hy⟩
  · rintro ⟨as, bs, rfl, hp, hall⟩
    exact ⟨hp, as, bs, rfl, fun y hy => by simpa using hall y hy⟩

theorem find?_none_iff {α : Type} (p : α → Bool) (l : List α) :
    l.find? p = none ↔ ∀ y ∈ l, ¬ p y = true := by
  simp [List.find?_eq_none]

/-- The first route of `routes` whose pattern matches `path` (as a relation). -/
def FirstRoute {κ : Type} (routes : List (RouteEntry κ)) (path : List Char) (r : RouteEntry κ) : Prop :=
  FirstSuch (fun r => Glob r.pattern path) routes r

def NoRoute {κ : Type} (routes : List (RouteEntry κ)) (path : List Char) : Prop :=
  ∀ r ∈ routes, ¬ Glob r.pattern path

/-- The sub-application that takes a request: the first whose host pattern matches the Host header. -/
def FirstHost {κ ω : Type} (subs : List (SubApp κ ω)) (host : List Char) (s : SubApp κ ω) : Prop :=
  FirstSuch (fun s => Glob s.host host) subs s

theorem getHandler_no_host {κ ω : Type} (app : App κ ω) (path : List Char) :
    getHandler app none path = app.default.routes.find? (fun r => wildcardMatch r.pattern path) := rfl

theorem getHandler_host_none {κ ω : Type} (app : App κ ω) (h path : List Char)
    (hs : app.subapps.find? (fun s => wildcardMatch s.host h) = none) :
    getHandler app (some h) path = app.default.routes.find? (fun r => wildcardMatch r.pattern path) := by
  simp [getHandler, hs]

theorem getHandler_host_route {κ ω : Type} (app : App κ ω) (h path : List Char) (s : SubApp κ ω)
    (r : RouteEntry κ) (hs : app.subapps.find? (fun s => wildcardMatch s.host h) = some s)
    (hr : s.routes.find? (fun r => wildcardMatch r.pattern path) = some r) :
    getHandler app (some h) path = some r := by
  simp [getHandler, hs, hr]

theorem getHandler_host_noroute {κ ω : Type} (app : App κ ω) (h path : List Char) (s : SubApp κ ω)
    (hs : app.subapps.find? (fun s => wildcardMatch s.host h) = some s)
    (hr : s.routes.find? (fun r => wildcardMatch r.pattern path) = none) :
    getHandler app (some h) path = app.default.routes.find? (fun r => wildcardMatch r.pattern path) := by
  simp [getHandler, hs, hr]

/-- **C04 (HTTP routes).** The chosen handler is: the first matching route of the first sub-app whose
host pattern matches the Host header; if there is no Host header, no sub-app matches, or that
sub-app has no matching route, the first matching route of the default application. -/
theorem getHandler_some_iff {κ ω : Type} (app : App κ ω) (host : Option (List Char))
    (path : List Char) (r : RouteEntry κ) :
    getHandler app host path = some r ↔
      (∃ h s, host = some h ∧ FirstHost app.subapps h s ∧ FirstRoute s.routes path r) ∨
      ((host = none ∨ (∃ h, host = some h ∧ ∀ s ∈ app.subapps, ¬ Glob s.host h) ∨
        (∃ h s, host = some h ∧ FirstHost app.subapps h s ∧ NoRoute s.routes path)) ∧
       FirstRoute app.default.routes path r) := by
  have hd : ∀ x, app.default.routes.find? (fun r => wildcardMatch r.pattern path) = some x ↔
      FirstRoute app.default.routes path x := by
    intro x
    rw [find?_some_iff_firstSuch]
    simp only [FirstRoute, FirstSuch, wildcard_match_iff_glob]
  cases host with
  | none => rw [getHandler_no_host]; simp [hd]
  | some h =>
    cases hs : app.subapps.find? (fun s => wildcardMatch s.host h) with
    | none =>
      rw [getHandler_host_none app h path hs]
      rw [find?_none_iff] at hs
      simp only [wildcard_match_iff_glob] at hs
      rw [hd]
      constructor
      · intro hr
        exact .inr ⟨.inr (.inl ⟨h, rfl, hs⟩), hr⟩
      · rintro (⟨h', s, hh, ⟨pre, post, hl, hm, _⟩, _⟩ | ⟨_, hr⟩)
        · cases hh
          exact absurd hm (hs s (by rw [hl]; simp))
        · exact hr
    | some s =>
      have hs0 := hs
      rw [find?_some_iff_firstSuch] at hs
      have hs' : FirstHost app.subapps h s := by
        simpa only [FirstHost, FirstSuch, wildcard_match_iff_glob] using hs
      -- the first matching host is unique
      have huniq : ∀ s', FirstHost app.subapps h s' → s' = s := by
        rintro s' ⟨pre', post', hl', hm', hn'⟩
        obtain ⟨pre, post, hl, hm, hn⟩ := hs'
        rcases Nat.lt_trichotomy pre.length pre'.length with hlt | heq | hgt
        · exfalso
          have : s ∈ pre' := by
            have h1 : (pre ++ s :: post)[pre.length]? = some s := by simp
            rw [← hl, hl', List.getElem?_append_left hlt] at h1
            exact List.mem_of_getElem? h1
          exact hn' s this hm
        · have h1 : (pre ++ s :: post)[pre.length]? = some s := by simp
          have h2 : (pre' ++ s' :: post')[pre'.length]? = some s' := by simp
          rw [← hl, hl', heq, h2] at h1
          exact Option.some.inj h1
        · exfalso
          have : s' ∈ pre := by
            have h2 : (pre' ++ s' :: post')[pre'.length]? = some s' := by simp
            rw [← hl', hl, List.getElem?_append_left hgt] at h2
            exact List.mem_of_getElem? h2
          exact hn s' this hm'
      cases hr : s.routes.find? (fun r => wildcardMatch r.pattern path) with
      | some r' =>
        rw [getHandler_host_route app h path s r' hs0 hr]
        rw [find?_some_iff_firstSuch] at hr
        have hr' : FirstRoute s.routes path r' := by
          simpa only [FirstRoute, FirstSuch, wildcard_match_iff_glob] using hr
        constructor
        · intro he
          cases he
          exact .inl ⟨h, s, rfl, hs', hr'⟩
        · rintro (⟨h', s', hh, hf, hfr⟩ | ⟨hcase, _⟩)
          · cases hh
            have := huniq s' hf
            subst this
            -- first matching route is unique as well
            obtain ⟨p1, q1, e1, m1, n1⟩ := hfr
            obtain ⟨p2, q2, e2, m2, n2⟩ := hr'
            rcases Nat.lt_trichotomy p1.length p2.length with hlt | heq | hgt
            · exfalso
              have : r ∈ p2 := by
                have h1 : (p1 ++ r :: q1)[p1.length]? = some r := by simp
                rw [← e1, e2, List.getElem?_append_left hlt] at h1
                exact List.mem_of_getElem? h1
              exact n2 r this m1
            · have h1 : (p1 ++ r :: q1)[p1.length]? = some r := by simp
              have h2 : (p2 ++ r' :: q2)[p2.length]? = some r' := by simp
              rw [← e1, e2, heq, h2] at h1
              exact (congrArg some (Option.some.inj h1))
            · exfalso
              have : r' ∈ p1 := by
                have h2 : (p2 ++ r' :: q2)[p2.length]? = some r' := by simp
                rw [← e2, e1, List.getElem?_append_left hgt] at h2
                exact List.mem_of_getElem? h2
              exact n1 r' this m2
          · exfalso
            rcases hcase with hn | ⟨h', hh, hnone⟩ | ⟨h', s', hh, hf, hno⟩
            · cases hn
            · cases hh
              obtain ⟨pre, post, hl, hm, _⟩ := hs'
              exact hnone s (by rw [hl]; simp) hm
            · cases hh
              have := huniq s' hf
              subst this
              obtain ⟨p2, q2, e2, m2, _⟩ := hr'
              exact hno r' (by rw [e2]; simp) m2
      | none =>
        rw [getHandler_host_noroute app h path s hs0 hr]
        rw [find?_none_iff] at hr
        simp only [wildcard_match_iff_glob] at hr
        rw [hd]
        constructor
        · intro hfr
          exact .inr ⟨.inr (.inr ⟨h, s, rfl, hs', hr⟩), hfr⟩
        · rintro (⟨h', s', hh, hf, hfr⟩ | ⟨_, hfr⟩)
          · cases hh
            have := huniq s' hf
            subst this
            obtain ⟨p1, q1, e1, m1, _⟩ := hfr
            exact absurd m1 (hr r (by rw [e1]; simp))
          · exact hfr

/-- No handler is chosen exactly when neither the selected sub-app nor the default has a matching
route; the connection loop then answers 404. -/
theorem getHandler_none_imp {κ ω : Type} (app : App κ ω) (host : Option (List Char)) (path : List Char)
    (h : getHandler app host path = none) : NoRoute app.default.routes path := by
  unfold getHandler at h
  have key : app.default.routes.find? (fun r => wildcardMatch r.pattern path) = none := by
    cases host with
    | none => simpa using h
    | some hh =>
      simp only [] at h
      cases hs : app.subapps.find? (fun s => wildcardMatch s.host hh) with
      | none => simpa [hs] using h
      | some s =>
        simp only [hs] at h
        cases hr : s.routes.find? (fun r => wildcardMatch r.pattern path) with
        | some r => simp [hr] at h
        | none => simpa [hr] using h
  rw [find?_none_iff] at key
  simpa only [NoRoute, wildcard_match_iff_glob] using key

/-- An unrouted (non-upgrade) request is answered 404. -/
theorem no_match_404 {κ ω : Type} (cfg : ConnCfg κ ω) (req : Request) (ka : Bool)
    (h : getHandler cfg.app ((req.headers.get hHost).map cfg.decode) (cfg.decode req.uri) = none) :
    ∃ r, respond cfg req ka = some r ∧ r.status = 404 := by
  unfold respond
  simp only [h]
  split <;> exact ⟨_, rfl, rfl⟩

/-- The choice depends only on the Host header, the path and registration order: it is a function of
exactly these (no other part of the request reaches `getHandler`), and the path handed to it never
contains the query. -/
theorem parsed_uri_has_no_query (line : Bytes) (m : Method) (uri q v : Bytes)
    (h : parseStartLine line = some (m, uri, q, v)) : (63 : UInt8) ∉ uri := by
  have splitOnce_fst : ∀ (s : Bytes), (63 : UInt8) ∉ (Bytes.splitOnce 63 s).1 := by
    intro s
    induction s with
    | nil => simp [Bytes.splitOnce]
    | cons b rest ih =>
      simp only [Bytes.splitOnce]
      split
      · simp
      · rename_i hb
        simp only [List.mem_cons, not_or]
        exact ⟨fun e => hb e.symm, ih⟩
  unfold parseStartLine at h
  repeat' split at h
  all_goals try (simp at h; done)
  all_goals
    simp at h
    rename_i heq
    obtain ⟨_, _, hu, _⟩ := h
    have := congrArg Prod.fst heq
    simp only at this
    rw [← hu, ← this]
    exact splitOnce_fst _

/-- WebSocket upgrades are dispatched by the same rule over the WebSocket routes. -/
theorem wsHandler_default_of_no_host {κ ω : Type} (app : App κ ω) (path : List Char) :
    wsHandler app none path =
      (app.default.wsRoutes.find? (fun r => wildcardMatch r.1 path)).map (·.2) := rfl

-- Non-vacuity: a two-host application in which the second route of the first matching host wins.
example :
    let app : App Nat Nat :=
      ⟨[⟨"*.example.com".toList, [⟨"/a".toList, 1, {}⟩, ⟨"/*".toList, 2, {}⟩], []⟩], ⟨"*".toList, [⟨"/*".toList, 3, {}⟩], []⟩⟩
    (getHandler app (some "x.example.com".toList) "/b".toList).map (·.handler) = some 2 := by
  simp [getHandler, wildcardMatch, matchNoStar, matchStar, allStars]

end Humphrey.Http
