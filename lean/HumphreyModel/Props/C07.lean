import HumphreyModel.Proofs.RespSim
import HumphreyModel.Spec.HttpMsg
import HumphreyModel.Model.Client

/-!
# C07 — responses serialise to valid HTTP and parse back; the parser returns what was sent

Model: `Model/Response.lean`. Spec: `Spec/HttpMsg.lean` (strict message recogniser),
`Spec/Status.lean` (registered reason phrases). The status and header tables are regenerated
from the running code on every run (`Generated/Tables.lean`), so the table theorems below are
re-checked against what the code says now.

Not yet Lean theorems (judged per case by the correspondence run against the independent
recogniser `Spec.checkSerialization` and against the denotation of generated responses):

  theorem serialize_valid (r) : WF r → checkSerialization … (serializeResponse r) = none
     -- FALSE today for non-empty bodies: a CRLF is appended after the body (pinned by the test
     -- suite); known finding `crlf-after-body`, see `serialize_crlf_pad_witness` below
  theorem parse_serialize (r) : HasContentLength r ∨ r.body = [] → parseResponse [serializeResponse r] = ok r
  theorem chunked_decode (body) (parts) : parseResponse (render chunked body parts) = ok {body, Content-Length}
-/
namespace Humphrey.Http
open Humphrey Humphrey.IO

/-! ## Table theorems (finite domain: all 65 536 codes were run through the code) -/

/-- `u16::from(StatusCode::try_from(c)) = c` for every code the running code accepts. -/
theorem status_roundtrip : ∀ row ∈ Generated.statusTable, row.2.1 = row.1 := by decide

/-- No two accepted codes coincide (each code denotes one status). -/
theorem status_codes_injective : (Generated.statusTable.map (·.1)).Nodup := by decide

/-- Every reason phrase the code emits is one registered for that code (RFC 2616 / 7231 / 9110). -/
theorem reason_phrase_registered :
    ∀ row ∈ Generated.statusTable, (Spec.phrasesFor row.1).contains (Bytes.asciiLower row.2.2) = true := by
  decide

/-- Every accepted code is a three-digit status code. -/
theorem status_codes_three_digits : ∀ row ∈ Generated.statusTable, 100 ≤ row.1 ∧ row.1 ≤ 599 := by decide

/-- The spelling a header name is serialised with lower-cases back to the key it was parsed to,
so serialising a header and parsing it again yields the same name. -/
theorem header_display_roundtrip :
    ∀ row ∈ Generated.headerTable, Bytes.asciiLower row.2.1 = row.1 := by decide +kernel

/-- Known header names are pairwise distinct. -/
theorem header_keys_distinct : (Generated.headerTable.map (·.1)).Nodup := by decide +kernel

/-! ## Read segmentation -/

/-- **Segmentation independence of `Response::from_stream`**: for every byte stream (valid or not,
any framing, chunked included) and any two ways of cutting it into reads, the parser returns the
same response/error and leaves the same bytes unread. -/
theorem response_parse_segmentation_independent (c₁ c₂ : List Bytes) (h : c₁.flatten = c₂.flatten) :
    OutRel (fun r₁ r₂ : Reader => r₁.rest = r₂.rest)
      (parseResponse readerSource ⟨[], c₁⟩) (parseResponse readerSource ⟨[], c₂⟩) := by
  have h₁ := parseResponse_sim reader_flat_sim ⟨[], c₁⟩ (⟨[], c₁⟩ : Reader).rest rfl
  have h₂ := parseResponse_sim reader_flat_sim ⟨[], c₂⟩ (⟨[], c₂⟩ : Reader).rest rfl
  have e : (⟨[], c₁⟩ : Reader).rest = (⟨[], c₂⟩ : Reader).rest := by simp [Reader.rest, h]
  rw [e] at h₁
  generalize parseResponse flatSource (⟨[], c₂⟩ : Reader).rest = f at h₁ h₂
  cases a : parseResponse readerSource ⟨[], c₁⟩ <;>
    cases b : parseResponse readerSource ⟨[], c₂⟩ <;>
    cases f <;> simp_all [OutRel]

/-! ## Set-Cookie -/

/-- The optional attributes of a cookie in the fixed order Expires, Max-Age, Domain, Path, SameSite,
Secure, HttpOnly (`none` = absent). -/
def cookieOpts (c : SetCookie) : List (Option Bytes) :=
  [c.expires.map (([69, 120, 112, 105, 114, 101, 115, 61] : Bytes) ++ ·),
   c.maxAge.map (fun a => ([77, 97, 120, 45, 65, 103, 101, 61] : Bytes) ++ Bytes.natToBytes a),
   c.domain.map (([68, 111, 109, 97, 105, 110, 61] : Bytes) ++ ·),
   c.path.map (([80, 97, 116, 104, 61] : Bytes) ++ ·),
   c.sameSite.map (fun s => ([83, 97, 109, 101, 83, 105, 116, 101, 61] : Bytes) ++ s.name),
   (if c.secure then some [83, 101, 99, 117, 114, 101] else none),
   (if c.httpOnly then some [72, 116, 116, 112, 79, 110, 108, 121] else none)]

/-- Independent rendering of a cookie line: `name=value`, then each present attribute introduced
by `"; "`. -/
def cookieLine (c : SetCookie) : Bytes :=
  c.name ++ [61] ++ c.value ++ ((cookieOpts c).filterMap id).flatMap (([59, 32] : Bytes) ++ ·)

theorem cookieAttr_eq (v label : Bytes) (o : Option Bytes) :
    cookieAttr v label o = v ++ ([o.map (label ++ ·)].filterMap id).flatMap (([59, 32] : Bytes) ++ ·) := by
  cases o <;> simp [cookieAttr, List.append_assoc]

theorem cookieFlag_eq (v label : Bytes) (f : Bool) :
    cookieFlag v label f =
      v ++ ([if f then some label else none].filterMap id).flatMap (([59, 32] : Bytes) ++ ·) := by
  cases f <;> simp [cookieFlag, List.append_assoc]

/-- Every attribute subset renders as one `Set-Cookie` line: `name=value` followed by the present
attributes in the fixed order, each introduced by `"; "`. -/
theorem set_cookie_attributes (c : SetCookie) :
    c.toHeader.name = hSetCookie ∧ c.toHeader.value = cookieLine c := by
  refine ⟨rfl, ?_⟩
  simp only [SetCookie.toHeader, cookieLine, cookieOpts, cookieAttr_eq, cookieFlag_eq,
    List.append_assoc, Option.map_map]
  simp only [List.filterMap_cons, List.filterMap_nil, ← List.flatMap_append, List.append_assoc]
  cases c.expires <;> cases c.maxAge <;> cases c.domain <;> cases c.path <;> cases c.sameSite <;>
    cases c.secure <;> cases c.httpOnly <;> rfl

/-! ## The CRLF pad (known finding) -/

/-- Witness for the known finding: a 200 response with body "x" serialises with two surplus bytes
after the body, so the message is not "status line, headers, blank line, body". -/
theorem serialize_crlf_pad_witness :
    serializeResponse ⟨[72, 84, 84, 80, 47, 49, 46, 49], 200, [], [120]⟩ =
      [72, 84, 84, 80, 47, 49, 46, 49, 32, 50, 48, 48, 32, 79, 75, 13, 10, 13, 10, 120, 13, 10] := by
  decide

/-! ## The client and redirects -/

/-- A redirect chain: `reqs[i]` is answered by a 301/302/307 whose Location leads to `reqs[i+1]`. -/
def RedirectChain (net : CReq → Option Response) : List CReq → CReq → Prop
  | [], _ => True
  | r :: rest, last =>
    ∃ resp l next, net r = some resp ∧ isRedirect resp.status = true ∧
      resp.headers.get hLocation = some l ∧ follow r l = some next ∧
      (match rest with | [] => next = last | r' :: _ => next = r') ∧ RedirectChain net rest last

/-- **With redirect following enabled the client ends at the final non-redirect response**: for a
chain of any length over {301, 302, 307} with relative or absolute Locations, `send` makes exactly
the chain's requests, in order, and returns the response to the last one. -/
theorem client_follows_redirects (net : CReq → Option Response) (chain : List CReq) (last : CReq)
    (final : Response) (first : CReq)
    (hfirst : first = (chain ++ [last]).head (by simp))
    (hchain : RedirectChain net chain last)
    (hfinal : net last = some final) (hnr : isRedirect final.status = false)
    (fuel : Nat) (hfuel : chain.length < fuel) :
    clientSend net true fuel first = (some final, chain ++ [last]) := by
  induction chain generalizing first fuel with
  | nil =>
    simp at hfirst; subst hfirst
    cases fuel with
    | zero => omega
    | succ fuel => simp [clientSend, hfinal, hnr]
  | cons r rest ih =>
    simp at hfirst; subst hfirst
    obtain ⟨resp, l, next, hn, hr, hl, hf, hnext, hrest⟩ := hchain
    cases fuel with
    | zero => simp at hfuel
    | succ fuel =>
      have hhead : next = (rest ++ [last]).head (by simp) := by
        cases rest with
        | nil => simpa using hnext
        | cons r' rs => simpa using hnext
      have := ih next hhead hrest fuel (by simp at hfuel; omega)
      simp [clientSend, hn, hr, hl, hf, this]

/-- Without redirect following the client returns the first response, whatever its status. -/
theorem no_follow_returns_first (net : CReq → Option Response) (r : CReq) (resp : Response) (fuel : Nat)
    (h : net r = some resp) : clientSend net false (fuel + 1) r = (some resp, [r]) := by
  simp [clientSend, h]

end Humphrey.Http
