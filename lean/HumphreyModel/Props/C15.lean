import HumphreyModel.Proofs.ConfReject
import HumphreyModel.Proofs.ConfCfg

/-!
# C15 — configuration files load into exactly what they describe, or are rejected with a line

Property theorems only. Model: `Model/Conf.lean` (`parse_conf`, `parse_section`, `parse_size`,
`include`, `flatten`, typed getters, `Config::from_tree`, after the C15 repairs).
Spec: `Spec/Conf.lean` (`renderTree`, `Layout`, `WFTree`). Helper lemmas: `Proofs/Conf*.lean`.
-/
namespace Humphrey.Conf

/-! ## tree level -/

/-- **Round trip, on the lines of the file.** Every well-formed tree, written with any layout
(filler lines, indentation, blanks, comments, unit spelling), is read back as itself. -/
theorem parse_tree_roundtrip_lines (fs : FS) (file : Str) (lay : Layout) (hl : WFLayout lay)
    (cs : List Node) (hw : WFTree (.section "server".toList cs)) :
    parseConfLines fs (renderLines lay cs) file = .ok (.section "server".toList cs) :=
  parseConfLines_render fs file lay hl cs hw.2.1 hw.2.2

/-
Full statement (text level, `parseConf` = `parseConfLines ∘ str::lines`):

  theorem parse_tree_roundtrip : ∀ tree layout, WFTree tree → WFLayout layout →
      parseConf fs (renderTree tree layout) file = .ok tree

Proved below with one extra hypothesis: no rendered line contains `\n` or ends in `\r`
(`lineClean`). What is missing is the induction over the tree showing that this follows from
`WFTree`/`WFLayout` (it needs `WFTree` to exclude a `\r` at the end of a value or name as well;
`splitLines_joinLines` is the `str::lines` half and is proved in general).
-/
theorem parse_tree_roundtrip_partial (fs : FS) (file : Str) (lay : Layout) (hl : WFLayout lay)
    (cs : List Node) (hw : WFTree (.section "server".toList cs))
    (hclean : ∀ l ∈ renderLines lay cs, lineClean l) :
    parseConf fs (renderTree (.section "server".toList cs) lay) file = .ok (.section "server".toList cs) := by
  unfold parseConf renderTree
  have hlast : (renderLines lay cs).getLast? =
      some ((lay.close []).indent ++ ['}'] ++ (lay.close []).trail ++ commentText (lay.close []).comment) := by
    have e : renderLines lay cs =
        (mkLines (lay.line []) serverLine ++ renderNodes lay [] 0 cs ++ (lay.close []).pre.map fillerLine) ++
          [(lay.close []).indent ++ ['}'] ++ (lay.close []).trail ++ commentText (lay.close []).comment] := by
      rw [renderLines_eq]; simp [mkLines]
    rw [e, List.getLast?_append]; simp
  rw [splitLines_joinLines _ (by intro e; rw [e] at hlast; simp at hlast) hclean
    (by rw [hlast]; simp)]
  exact parse_tree_roundtrip_lines fs file lay hl cs hw

/-- **Layout independence** (corollary): two layouts of the same tree load to the same thing. -/
theorem layout_irrelevant (fs : FS) (file : Str) (lay₁ lay₂ : Layout) (h₁ : WFLayout lay₁)
    (h₂ : WFLayout lay₂) (cs : List Node) (hw : WFTree (.section "server".toList cs)) :
    parseConfLines fs (renderLines lay₁ cs) file = parseConfLines fs (renderLines lay₂ cs) file := by
  rw [parse_tree_roundtrip_lines fs file lay₁ h₁ cs hw, parse_tree_roundtrip_lines fs file lay₂ h₂ cs hw]

/-- `parse_size` is exact: `n` followed by a unit letter is `n` times the unit, whenever that
fits in an `i64`. -/
theorem parse_size_correct (n m : Nat) (u : Char) (hu : unitFactor u = some m) (h : n * m < 2 ^ 63) :
    parseSize (showNat n ++ [u]) = some ((n * m : Nat) : Int) :=
  parseSize_unit hu h

/-- … and the same text is typed as the number node holding the byte count. -/
theorem size_value_typed (key : Str) (n m : Nat) (u : Char) (hu : unitFactor u = some m)
    (h : n * m < 2 ^ 63) : typeValue key (showNat n ++ [u]) = .ok (.number key (showNat (n * m))) :=
  typeValue_unit hu h

/-- A size that does not fit in an `i64` is an error (checked multiplication), not a wrap. -/
theorem parse_size_overflow_rejected (n m : Nat) (u : Char) (hu : unitFactor u = some m)
    (hn : n < 2 ^ 63) (h : 2 ^ 63 ≤ n * m) : parseSize (showNat n ++ [u]) = none := by
  obtain ⟨hm, _, hmv⟩ := unit_cases hu
  have hn' : (n : Int) ≤ i64Max := by simp only [i64Max]; omega
  unfold parseSize
  have hne : (showNat n ++ [u]).isEmpty = false := by simp
  simp only [hne, utf8Len_snoc_ne_one (showNat_ne_nil n) u, List.reverse_append, List.reverse_cons,
    List.reverse_nil, List.nil_append, List.singleton_append, List.reverse_reverse,
    parseI64_showNat hn', hm, Bool.false_eq_true, if_false]
  unfold checkedMul
  have e : ((n : Int) * (m : Int)) = ((n * m : Nat) : Int) := by simp
  simp only [i64Min, i64Max, e]
  have h' : 9223372036854775808 ≤ n * m := by simpa using h
  rw [if_neg (by omega)]

/-- Anything ending in a character that is neither a digit nor one of `K M G k m g` is not a
size. -/
theorem parse_size_rejects_unknown_unit (a : Str) (u : Char) (hd : digitVal u = none)
    (hu : unitMult (toAsciiUpper u) = none) (hud : digitVal (toAsciiUpper u) = none) :
    parseSize (a ++ [u]) = none :=
  parseSize_bad_unit a hd hu hud

/-! ### rejection, with the reported (file, line)

`AbsorbsAt fs file p depth`: `p` is the beginning of a file up to a point inside the `server`
section (`absorbs_server`, `absorbs_nodes`, `absorbs_open` in `Proofs/ConfReject.lean` build
such prefixes from the rendering of well-formed nodes and opened sections). The faulty line is
line `p.length + 1` of the file, and that is the line reported. -/

/-- Fault class "missing value": a key alone on its line. -/
theorem missing_value_rejected_at_line (fs : FS) (file : Str) (p : List Str) (depth : Nat)
    (hp : AbsorbsAt fs file p depth) (d : Deco) (hd : d.ok) (key : Str) (hk : okKey key)
    (hlast : key.getLast? ≠ some '{') (hbr : key ≠ ['}']) (rest : List Str) :
    parseConfLines fs (p ++ decoLine d key :: rest) file = .err ⟨.syntaxErr, file, p.length + 1⟩ := by
  have ht : tight key := tight_of_no_ws hk.1 (fun c hc => (hk.2.1 c hc).1)
  have hc := cleanUp_decoLine hd (fun x hx => (hk.2.1 x hx).2) ht
  refine reject_at_line hp rest (fun ln stack cur => ?_)
  exact go_missing_value _ file 0 hc hk.1
    (fun c hc' e => by subst e; have := (hk.2.1 _ hc').1; simp [isWhitespace] at this) hlast hbr rest ln stack cur

/-- Fault class "unterminated quote": the value opens a quotation mark and never closes it. -/
theorem unterminated_quote_rejected_at_line (fs : FS) (file : Str) (p : List Str) (depth : Nat)
    (hp : AbsorbsAt fs file p depth) (d : Deco) (hd : d.ok) (key v : Str) (hk : okKey key)
    (hq : ∀ c ∈ v, c ≠ '"' ∧ c ≠ '#') (hv : v = [] ∨ tight v) (hlast : v.getLast? ≠ some '{')
    (rest : List Str) :
    parseConfLines fs (p ++ decoLine d (kvContent d key ('"' :: v)) :: rest) file =
      .err ⟨.badValue, file, p.length + 1⟩ := by
  have hvt : tight ('"' :: v) := by
    rcases hv with rfl | hv
    · exact ⟨⟨'"', rfl, by decide⟩, ⟨'"', rfl, by decide⟩⟩
    · have := tight_append (a := ['"']) (b := v) ⟨⟨'"', rfl, by decide⟩, ⟨'"', rfl, by decide⟩⟩ hv []
      simpa using this
  have hvl : ('"' :: v).getLast? ≠ some '{' := by
    rcases hv with rfl | hv
    · decide
    · have e : '"' :: v = ['"'] ++ v := rfl
      rw [e, getLast?_append_ne_nil (tight_ne_nil hv)]; exact hlast
  have hsep := hd.2.2.1
  have hkt : tight key := tight_of_no_ws hk.1 (fun c hc => (hk.2.1 c hc).1)
  have hno : ∀ x ∈ kvContent d key ('"' :: v), x ≠ '#' := by
    intro x hx
    simp only [kvContent, List.mem_append, List.mem_cons] at hx
    rcases hx with (hx | rfl | hx) | rfl | hx
    · exact (hk.2.1 x hx).2
    · decide
    · exact blank_ne_hash hsep x hx
    · decide
    · exact (hq x hx).2
  have htc : tight (kvContent d key ('"' :: v)) := by
    have := tight_append hkt hvt (' ' :: d.sep)
    simpa [kvContent] using this
  have hc := cleanUp_decoLine hd hno htc
  refine reject_at_line hp rest (fun ln stack cur => ?_)
  exact go_bad_value _ file 0 (by simpa [kvContent] using hc) hk hsep hvt hvl
    (typeValue_unterminated key v (fun c hc' => (hq c hc').1)) rest ln stack cur

/-- Fault class "unknown unit": a number followed by a letter that is not `K M G k m g`. -/
theorem unknown_unit_rejected_at_line (fs : FS) (file : Str) (p : List Str) (depth : Nat)
    (hp : AbsorbsAt fs file p depth) (d : Deco) (hd : d.ok) (key : Str) (hk : okKey key) (n : Nat)
    (u : Char) (hdg : digitVal u = none) (hu : unitMult (toAsciiUpper u) = none)
    (hud : digitVal (toAsciiUpper u) = none) (hws : isWhitespace u = false) (hb : u ≠ '{')
    (hh : u ≠ '#') (rest : List Str) :
    parseConfLines fs (p ++ decoLine d (kvContent d key (showNat n ++ [u])) :: rest) file =
      .err ⟨.badValue, file, p.length + 1⟩ := by
  obtain ⟨c, r, hcr, hdc⟩ := showNat_head n
  have hvt : tight (showNat n ++ [u]) := ⟨⟨c, by rw [hcr]; rfl, hdc.not_ws⟩, ⟨u, by simp, hws⟩⟩
  have hvl : (showNat n ++ [u]).getLast? ≠ some '{' := by
    simp only [List.getLast?_append, List.getLast?_singleton, Option.some_or]
    intro e; cases e; exact hb rfl
  have hsep := hd.2.2.1
  have hkt : tight key := tight_of_no_ws hk.1 (fun c hc => (hk.2.1 c hc).1)
  have hno : ∀ x ∈ kvContent d key (showNat n ++ [u]), x ≠ '#' := by
    intro x hx
    simp only [kvContent, List.mem_append, List.mem_cons, List.mem_singleton, List.not_mem_nil, or_false] at hx
    rcases hx with (hx | rfl | hx) | hx | rfl
    · exact (hk.2.1 x hx).2
    · decide
    · exact blank_ne_hash hsep x hx
    · exact (showNat_all_digits n x hx).ne_of_toNat (by decide)
    · exact hh
  have htc : tight (kvContent d key (showNat n ++ [u])) := by
    have := tight_append hkt hvt (' ' :: d.sep)
    simpa [kvContent] using this
  have hc := cleanUp_decoLine hd hno htc
  refine reject_at_line hp rest (fun ln stack cur => ?_)
  exact go_bad_value _ file 0 (by simpa [kvContent] using hc) hk hsep hvt hvl
    (typeValue_unknown_unit key n hdg hu hud) rest ln stack cur

/-- Fault class "missing close brace": the file ends inside the `server` section (at any
nesting depth); the error names the line after the last one. -/
theorem missing_close_brace_rejected (fs : FS) (file : Str) (p : List Str) (depth : Nat)
    (hp : AbsorbsAt fs file p depth) :
    parseConfLines fs p file = .err ⟨.eof, file, p.length + 1⟩ :=
  reject_eof hp

/-- **No panics**: for every text, file name and file system the parser model ends in `ok` or
`err` (after the repairs: character-boundary slice and checked multiplication in `parse_size`,
quoted host names of at least two bytes, bounded nesting). Also the configuration half of C03. -/
theorem conf_never_panics (fs : FS) (conf filename : Str) : parseConf fs conf filename ≠ .panic :=
  parseConf_ne_panic fs conf filename


/-! ## configuration level (`Config::from_tree`)

Full statement, not proved:

  theorem load_render : ∀ cfg layout, WF cfg → load fs (render cfg layout) file = .ok (normalise cfg)

(hosts and routes in file order, omitted keys at the `from_tree` defaults). The generating model
`Cfg`, `render` and `normalise` at configuration level are not written in `Spec/Conf.lean`; the
tree-level half is `parse_tree_roundtrip_lines`, and the harness compares every generated valid
file with the generating model's own reading (`oracle-mismatch` = 0 in the evidence). What is
proved about `from_tree` is the "never accepted with a different meaning" direction for the
validated keys, and the route rules. -/

/-- `bad_enum_rejected` / `bad_number_rejected`, as acceptance conditions: whenever `from_tree`
accepts, the blacklist mode is `block` or `forbidden`, the log level is one of the four levels,
`port` is a `u16`, `threads` a `usize ≥ 1`, cache size and time are `usize` (each key absent =
its default), and hosts and routes are those of the tree in file order. Any other value of one
of these keys is therefore rejected. -/
theorem bad_enum_or_number_never_accepted_partial (fs : FS) (tree : Node) (c : Config)
    (h : fromTree fs tree = .ok c) :
    (getOptional (flattenNode [] tree []) (k "server.blacklist.mode") (k "block") = k "block" ∨
      getOptional (flattenNode [] tree []) (k "server.blacklist.mode") (k "block") = k "forbidden") ∧
    getOptionalParsed (flattenNode [] tree []) (k "server.port") 80 (parseUnsigned 16) CfgErr.port = .ok c.port ∧
    getOptionalParsed (flattenNode [] tree []) (k "server.threads") 32 (parseUnsigned 64) CfgErr.threads = .ok c.threads ∧
    1 ≤ c.threads ∧
    getOptionalParsed (flattenNode [] tree []) (k "server.log.level") LogLevel.warn parseLogLevel CfgErr.logLevel = .ok c.logLevel ∧
    getOptionalParsed (flattenNode [] tree []) (k "server.cache.size") 0 (parseUnsigned 64) CfgErr.cacheSize = .ok c.cacheSize ∧
    getOptionalParsed (flattenNode [] tree []) (k "server.cache.time") 0 (parseUnsigned 64) CfgErr.cacheTime = .ok c.cacheTime ∧
    parseRoutes tree.sectionChildren = .ok c.defaultHost.routes ∧
    parseHosts tree.sectionChildren = .ok c.hosts :=
  fromTree_ok_facts fs tree c h

/-- A typed key that is present parses, or the configuration is rejected (`get_optional_parsed`). -/
theorem typed_key_accepted_iff {α ε : Type} (m : Map) (key : Str) (dflt : α) (parse : Str → Option α)
    (e : ε) (a : α) (h : getOptionalParsed m key dflt parse e = .ok a) :
    (m.get key = none ∧ a = dflt) ∨ ∃ n s, m.get key = some n ∧ n.scalar = some s ∧ parse s = some a :=
  getOptionalParsed_ok h

/-- `route_without_target_rejected` (route level): a route section with none of `file`,
`directory`, `proxy`, `redirect`, `websocket` is an error, whatever its patterns. -/
theorem route_without_target_rejected_partial (wild : Str) (conf : Map)
    (h1 : conf.get "file".toList = none) (h2 : conf.get "directory".toList = none)
    (h3 : conf.get "proxy".toList = none) (h4 : conf.get "redirect".toList = none)
    (h5 : conf.get "websocket".toList = none) : parseRoute wild conf = .err .routeTarget :=
  parseRoute_without_target wild conf h1 h2 h3 h4 h5

/-- `bad_enum_rejected` for the balancer mode (route level). -/
theorem bad_balancer_mode_rejected_partial (wild : Str) (conf : Map) (n : Node) (t : Str)
    (h1 : conf.get "file".toList = none) (h2 : conf.get "directory".toList = none)
    (h3 : conf.get "proxy".toList = some n) (ht : n.getString = some t)
    (hm1 : getOptional conf "load_balancer_mode".toList "round-robin".toList ≠ "round-robin".toList)
    (hm2 : getOptional conf "load_balancer_mode".toList "round-robin".toList ≠ "random".toList) :
    parseRoute wild conf = .err .lbMode :=
  parseRoute_bad_lb_mode wild conf n t h1 h2 h3 ht hm1 hm2

/-! ### non-vacuity -/

def plainLayout : Layout := { line := fun _ => {}, close := fun _ => {} }

theorem plainLayout_ok : WFLayout plainLayout := by
  intro p; constructor <;> simp [plainLayout, Deco.ok, commentOk]

example : AbsorbsAt (fun _ => .missing) "f".toList (mkLines ({} : Deco) serverLine) 0 :=
  absorbs_server _ _ (by simp [Deco.ok])

example : parseSize "12K".toList = some 12288 := by decide
example : parseSize "12X".toList = none := by decide
example : unitFactor 'm' = some (1024 * 1024) := by decide

end Humphrey.Conf
