import HumphreyModel.Proofs.Sha1Main

/-!
# C18 (SHA-1) — the home-grown SHA-1 is RFC 3174, bit-exact, for every message

Property theorems only. Model: `Model/Sha1.lean` (`sha1.rs`). Spec: `Spec/Sha1.lean` (RFC 3174 §4–§6.1).
-/
namespace Humphrey.Sha1
open Humphrey.Rfc3174

/-- **C18, SHA-1 padding.** The padded message of `sha1.rs`, read as bits, is RFC 3174 §4's padded
message ("1", the minimal number of "0"s to reach 448 mod 512, the 64-bit length) — for every message. -/
theorem pad_eq_rfc3174 (m : Bytes) : bitsOfBytes (pad m) = Rfc3174.pad (bitsOfBytes m) := pad_eq_rfc m

/-- The padded length is `message_len` and a whole number of 64-byte chunks. -/
theorem padded_length (m : Bytes) : (pad m).length = paddedLen m.length ∧ (pad m).length % 64 = 0 :=
  ⟨pad_length m, padded_length_multiple_of_64 m⟩

/-- **C18, SHA-1.** For every message (shorter than 2^61 bytes, so that `len * 8` fits `usize` as the
Rust code needs) the model of `sha1.rs` returns exactly the RFC 3174 message digest: bit-level padding
of §4, `W(t)`, `f(t;B,C,D)`, `K(t)` and the `A…E` recurrence of §6.1 method 1, all blocks in order.
(The equality itself holds without the bound; the bound is where model and code part.) -/
theorem sha1_eq_rfc3174 (m : Bytes) (_h : m.length < 2 ^ 61) : sha1 m = Rfc3174.digest m :=
  sha1_eq_digest m

/-- The 80-word schedule that `sha1.rs` builds in place for a 64-byte chunk is `W(0) … W(79)` of §6.1. -/
theorem schedule_eq_rfc3174 (block : Bytes) (h : block.length = 64) :
    (schedule block).size = 80 ∧
    ∀ t, t < 80 → (schedule block).toList[t]? = some (W (bitsOfBytes block) t) := schedule_eq block h

/-- One chunk iteration of `sha1.rs` is `processBlock` of §6.1 (steps a–e). -/
theorem compress_eq_rfc3174 (H : Regs) (block : Bytes) (h : block.length = 64) :
    compress (toState H) block = toState (processBlock H (bitsOfBytes block)) := compress_eq H block h

/-- A digest is 20 bytes. -/
theorem sha1_length (m : Bytes) : (sha1 m).length = 20 := rfl

/-! Labelled tests: the RFC's own vectors (§7.3 TEST1, TEST2 and the empty message) on the model. -/
example : sha1 "abc".toUTF8.toList =
    [0xA9, 0x99, 0x3E, 0x36, 0x47, 0x06, 0x81, 0x6A, 0xBA, 0x3E, 0x25, 0x71, 0x78, 0x50, 0xC2, 0x6C, 0x9C, 0xD0,
     0xD8, 0x9D] := by decide +kernel
example : sha1 "abcdbcdecdefdefgefghfghighijhijkijkljklmklmnlmnomnopnopq".toUTF8.toList =
    [0x84, 0x98, 0x3E, 0x44, 0x1C, 0x3B, 0xD2, 0x6E, 0xBA, 0xAE, 0x4A, 0xA1, 0xF9, 0x51, 0x29, 0xE5, 0xE5, 0x46,
     0x70, 0xF1] := by decide +kernel
example : sha1 [] =
    [0xDA, 0x39, 0xA3, 0xEE, 0x5E, 0x6B, 0x4B, 0x0D, 0x32, 0x55, 0xBF, 0xEF, 0x95, 0x60, 0x18, 0x90, 0xAF, 0xD8,
     0x07, 0x09] := by decide +kernel


/-! Labelled tests of the SPEC: the same RFC vectors on `Rfc3174.digest` (evaluated through
`sha1_eq_rfc3174`, because `W` is the RFC's recurrence and not an efficient program). -/
example : Rfc3174.digest "abc".toUTF8.toList =
    [0xA9, 0x99, 0x3E, 0x36, 0x47, 0x06, 0x81, 0x6A, 0xBA, 0x3E, 0x25, 0x71, 0x78, 0x50, 0xC2, 0x6C, 0x9C, 0xD0,
     0xD8, 0x9D] := by rw [← sha1_eq_digest]; decide +kernel
example : Rfc3174.digest "abcdbcdecdefdefgefghfghighijhijkijkljklmklmnlmnomnopnopq".toUTF8.toList =
    [0x84, 0x98, 0x3E, 0x44, 0x1C, 0x3B, 0xD2, 0x6E, 0xBA, 0xAE, 0x4A, 0xA1, 0xF9, 0x51, 0x29, 0xE5, 0xE5, 0x46,
     0x70, 0xF1] := by rw [← sha1_eq_digest]; decide +kernel
example : Rfc3174.digest [] =
    [0xDA, 0x39, 0xA3, 0xEE, 0x5E, 0x6B, 0x4B, 0x0D, 0x32, 0x55, 0xBF, 0xEF, 0x95, 0x60, 0x18, 0x90, 0xAF, 0xD8,
     0x07, 0x09] := by rw [← sha1_eq_digest]; decide +kernel
/-- The spec's padding on the RFC's own example (§4: the 40-bit message `01100001 … 01100101`). -/
example : Rfc3174.pad (bitsOfBytes [0x61, 0x62, 0x63, 0x64, 0x65]) =
    bitsOfBytes ([0x61, 0x62, 0x63, 0x64, 0x65, 0x80] ++ List.replicate 57 0 ++ [0x28]) := by decide +kernel

end Humphrey.Sha1
