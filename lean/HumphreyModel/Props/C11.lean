import HumphreyModel.Proofs.WsMsgOut
import HumphreyModel.Props.C10
import HumphreyModel.Props.C18Base64

/-!
# C11 — WebSocket endpoint: valid handshake, well-formed frames out, ping/close answered

Property theorems only. Model: `Model/WsMsg.lean` (`handshake`, `recvBlocking` = `WebsocketStream::recv`,
`recvNonblocking` = `recv_nonblocking`, `send`, `ping`, `dropStream` = `Drop`, over a scripted socket of
`data`/`notYet` events; the code after the two C11 repairs). Spec: `Spec/WsMsg.lean` (`messages`,
`replies`, `wire`) and `Spec/WsFrame.lean` (`rfc6455Layout`).

Vocabulary (`Proofs/WsMsgOut.lean`, `Proofs/WsMsgRead.lean`):
* `ClientScript fs`: every frame has length field = payload length < 2^64; nothing else is assumed —
  any number of frames, any opcodes, FIN/RSV bits, masks, keys, payload sizes.
* `Arrives c fs tail`: the inbound script of `c` delivers the bytes `wire fs ++ tail` in ANY segmentation
  (every `read` returns at least one byte before the end) with ANY pauses (`notYet`), and `tail` is
  nothing or a frame cut short (`Truncated`: abrupt disconnect).
* `serve c`: `while let Ok(m) = stream.recv() {…}` and then the stream is dropped; `session ops c`: any
  sequence of `recv`/`recv_nonblocking`/`send`/`ping` calls and then the drop.
Writes never fail in the model (no `WriteError`); SHA-1 is a parameter.
-/
namespace Humphrey.WsMsg
open Humphrey.WsFrame Humphrey.WsFrame.Spec Humphrey.WsMsg.Spec

/-! ## Handshake -/

/-- **Handshake.** With a `Sec-WebSocket-Key` header (any spelling of the name, first one wins, any value
including the empty one) the response is 101 with `Upgrade: websocket`, `Connection: Upgrade` and
`Sec-WebSocket-Accept` = the RFC 4648 Base64 encoding (`Spec/Base64.lean`, through C18's
`encode_eq_rfc4648`) of `sha1 (key ++ "258EAFA5-E914-47DA-95CA-C5AB0DC85B11")`, and no body — exactly
these bytes (status line and header spelling come from the tables generated from the running code). -/
theorem handshake_accept (sha1 : Bytes → Bytes) (req : Http.Request) (key : Bytes)
    (h : req.headers.get hSecKey = some key) :
    handshake sha1 req = some
      ([72, 84, 84, 80, 47, 49, 46, 49, 32, 49, 48, 49, 32, 83, 119, 105, 116, 99, 104, 105, 110, 103,
        32, 80, 114, 111, 116, 111, 99, 111, 108, 115, 13, 10,
        67, 111, 110, 110, 101, 99, 116, 105, 111, 110, 58, 32, 85, 112, 103, 114, 97, 100, 101, 13, 10,
        85, 112, 103, 114, 97, 100, 101, 58, 32, 119, 101, 98, 115, 111, 99, 107, 101, 116, 13, 10,
        115, 101, 99, 45, 119, 101, 98, 115, 111, 99, 107, 101, 116, 45, 97, 99, 99, 101, 112, 116,
        58, 32] ++ Base64.Spec.encode (sha1 (key ++ guid)) ++ [13, 10, 13, 10]) := by
  simp only [handshake, h, handshakeResponse, acceptValue, Base64.encode_eq_rfc4648]
  rw [handshakeResponse_bytes]

/-- The same as a response value: status 101, the three headers, empty body. -/
theorem handshake_accept_response (sha1 : Bytes → Bytes) (req : Http.Request) (key : Bytes)
    (h : req.headers.get hSecKey = some key) :
    handshake sha1 req = some (Http.serializeResponse ⟨http11, 101,
      [⟨Http.hUpgrade, websocketValue⟩, ⟨Http.hConnection, upgradeValue⟩,
       ⟨hSecAccept, Base64.Spec.encode (sha1 (key ++ guid))⟩], []⟩) := by
  simp only [handshake, h, handshakeResponse, acceptValue, Base64.encode_eq_rfc4648]

/-- **No key, no upgrade**: nothing is written and the handler is not called. -/
theorem no_key_no_upgrade (sha1 : Bytes → Bytes) (req : Http.Request)
    (h : req.headers.get hSecKey = none) : handshake sha1 req = none := by
  simp [handshake, h]

/-- …and conversely an upgrade happens only with a key. -/
theorem upgrade_iff_key (sha1 : Bytes → Bytes) (req : Http.Request) :
    (handshake sha1 req).isSome = (req.headers.get hSecKey).isSome := by
  unfold handshake; cases req.headers.get hSecKey <;> rfl

/-- The GUID has the RFC's 36 characters ("258EAFA5-E914-47DA-95CA-C5AB0DC85B11"; the correspondence
run compares whole responses with the real code's). -/
example : guid.length = 36 ∧ guid.take 9 = [50, 53, 56, 69, 65, 70, 65, 53, 45] := by decide
/-- non-vacuity: a request with ("Sec-WebSocket-KEY: A") and one without the header -/
example : (⟨.get, [], [], [], [⟨Http.HName.ofName [83, 101, 99, 45, 87, 101, 98, 83, 111, 99, 107,
    101, 116, 45, 75, 69, 89], [65]⟩], none, ⟨[], [], 0⟩⟩ : Http.Request).headers.get hSecKey
    = some [65] := by decide
example : handshake (fun _ => []) ⟨.get, [], [], [], [], none, ⟨[], [], 0⟩⟩ = none := by decide

/-! ## Everything written is frames -/

/-- **Outbound is frames.** Whatever arrives on the socket (any bytes, also garbage; any segmentation;
any pauses) and whatever the handler does (any sequence of `recv`, `recv_nonblocking`, `send`, `ping`,
then the drop): what is written after the handshake is the log before plus the RFC 6455 layouts of
frames with FIN set, RSV clear, MASK clear and length field = payload length (`reply o p`), one
`write_all` per frame. -/
theorem outbound_is_frames (ops : List Op) (c : Conn) :
    ∃ fs : List Frame, (∀ f ∈ fs, ∃ o p, f = reply o p) ∧
      (session ops c).outbound = c.outbound ++ fs.map rfc6455Layout :=
  (foldl_apply_writes ops c).trans (dropStream_writes _)

/-- The same about the byte stream the client sees: it is the concatenated layout of unmasked frames. -/
theorem outbound_bytes_are_frames (ops : List Op) (inbound : List Ev) :
    ∃ fs : List Frame, (∀ f ∈ fs, f.mask = false ∧ f.length = f.payload.length) ∧
      (session ops { inbound := inbound }).outbound.flatten = wire fs := by
  obtain ⟨fs, hfs, e⟩ := outbound_is_frames ops { inbound := inbound }
  refine ⟨fs, ?_, by rw [e]; simp [wire]⟩
  intro f hf
  obtain ⟨o, p, rfl⟩ := hfs f hf
  exact ⟨rfl, rfl⟩

/-- …and each of them decodes back (C10 `decode_encode`) — stated for one reply frame. -/
theorem reply_decodes (o : Opcode) (p : Bytes) (h64 : p.length < 2 ^ 64) (s : List Bytes)
    (hne : NonEmptyReads s) (hs : s.flatten = rfc6455Layout (reply o p)) :
    decodeFrame s = .ok (reply o p, []) := by
  have hwf : (reply o p).wf := ⟨rfl, h64⟩
  have := decode_encode (reply o p) hwf s hne (by rw [hs, encodeFrame_eq_layout])
  simpa [Frame.normKey, reply] using this

/-! ## Receiving a client script -/

/-- **Messages delivered = messages sent.** For every client script, every delivery of its bytes and
every abrupt ending: repeated `recv` returns exactly the messages the script denotes (`Spec.messages`:
fragments concatenated in order, text/binary from the first fragment, control frames in between
skipped, nothing after a Close, an unfinished last message is not delivered), then `ConnectionClosed`
if the script has a Close and `ReadError` otherwise. -/
theorem recv_delivers_messages (fs : List Frame) (hfs : ClientScript fs) (tail : Bytes) (c : Conn)
    (hc : c.closed = false) (h : Arrives c fs tail) :
    (serve c).1 = (messages fs).map (fun m => (m.text, m.payload)) ∧
    (serve c).2.1 = .err (if hasClose fs then .connectionClosed else .readError) := by
  obtain ⟨c', e, _⟩ := serve_wire tail h.2 fs hfs c hc h.1
  rw [e]; exact ⟨rfl, rfl⟩

/-- What the server writes during the conversation: the replies the specification asks for (a Pong
per Ping, a Close for the Close), each as one frame, then the drop-time Close unless the client closed. -/
theorem serve_writes_replies (fs : List Frame) (hfs : ClientScript fs) (tail : Bytes) (c : Conn)
    (hc : c.closed = false) (h : Arrives c fs tail) :
    (serve c).2.2.outbound = c.outbound ++ (replies fs).map rfc6455Layout ++
      (if hasClose fs then [] else [rfc6455Layout (reply .close [])]) := by
  obtain ⟨c', e, ho⟩ := serve_wire tail h.2 fs hfs c hc h.1
  rw [e]; exact ho

/-- **Ping → Pong.** A Ping anywhere in the script before a Close (`pre` has none) — also between the
fragments of a message — is answered by a Pong frame with the same payload, written right after the
replies to what came before it. -/
theorem ping_answered_by_pong_same_payload (pre post : List Frame) (p : Frame)
    (hp : p.opcode = .ping) (hpre : hasClose pre = false) (hfs : ClientScript (pre ++ p :: post))
    (tail : Bytes) (c : Conn) (hc : c.closed = false) (h : Arrives c (pre ++ p :: post) tail) :
    ∃ after, (serve c).2.2.outbound = c.outbound ++ (replies pre).map rfc6455Layout ++
      [rfc6455Layout (reply .pong p.payload)] ++ after := by
  rw [serve_writes_replies _ hfs tail c hc h, replies_append pre hpre]
  refine ⟨(replies post).map rfc6455Layout ++
    (if hasClose (pre ++ p :: post) then [] else [rfc6455Layout (reply .close [])]), ?_⟩
  simp [replies, hp]

/-- **Close → Close, reported.** At the first Close of the script: the messages completed before it
have been delivered, `recv` reports `ConnectionClosed`, a Close frame (echoing the payload) is the last
thing written — nothing is read or written after it, not even at drop time — and the stream is marked
closed. -/
theorem close_answered_and_reported (pre post : List Frame) (cl : Frame) (hcl : cl.opcode = .close)
    (hpre : hasClose pre = false) (hfs : ClientScript (pre ++ cl :: post)) (tail : Bytes) (c : Conn)
    (hc : c.closed = false) (h : Arrives c (pre ++ cl :: post) tail) :
    (serve c).1 = (messages pre).map (fun m => (m.text, m.payload)) ∧
    (serve c).2.1 = .err .connectionClosed ∧
    (serve c).2.2.outbound = c.outbound ++ (replies pre).map rfc6455Layout ++
      [rfc6455Layout (reply .close cl.payload)] := by
  have hclose : hasClose (pre ++ cl :: post) = true := by
    rw [hasClose_append]; simp [hasClose, hcl]
  obtain ⟨hm, he⟩ := recv_delivers_messages _ hfs tail c hc h
  refine ⟨?_, by rw [he, hclose]; rfl, ?_⟩
  · rw [hm]; unfold messages; rw [messagesFrom_append_close pre hpre cl hcl]
  · rw [serve_writes_replies _ hfs tail c hc h, hclose, replies_append pre hpre]
    simp [replies, hcl]

/-- `closed` is set by `recv` exactly when it reports `ConnectionClosed`. -/
theorem closed_iff_reported (c : Conn) :
    (recvBlocking c).2.closed = true ↔
      ((recvLoop (fuelFor c) c []).2.closed = true ∨ (recvBlocking c).1 = .err .connectionClosed) := by
  unfold recvBlocking noteClosed
  by_cases h : (recvLoop (fuelFor c) c []).1 = .err .connectionClosed <;> simp [h]

/-- **Drop sends Close.** Dropping a stream that has not seen the client's Close writes exactly one
frame, an empty unmasked Close (`88 00`); a stream that has, writes nothing more. -/
theorem drop_sends_close (c : Conn) :
    (c.closed = false → (dropStream c).outbound = c.outbound ++ [rfc6455Layout (reply .close [])] ∧
      rfc6455Layout (reply .close []) = [0x88, 0x00]) ∧
    (c.closed = true → dropStream c = c) := by
  refine ⟨fun h => ⟨?_, by decide⟩, fun h => by simp [dropStream, h]⟩
  simp [dropStream, h, Conn.write, encodeFrame_fun, reply_eq_new]

/-- …in a conversation: when the script has no Close (server drop, or the client vanished), the last
thing written is that Close frame. -/
theorem drop_sends_close_in_session (fs : List Frame) (hfs : ClientScript fs)
    (hno : hasClose fs = false) (tail : Bytes) (c : Conn) (hc : c.closed = false)
    (h : Arrives c fs tail) :
    (serve c).2.2.outbound = c.outbound ++ (replies fs).map rfc6455Layout ++ [[0x88, 0x00]] := by
  rw [serve_writes_replies fs hfs tail c hc h, hno]
  have : rfc6455Layout (reply .close []) = [0x88, 0x00] := by decide
  simp [this]

/-- The result of `recv` on a client script does not depend on how the bytes are delivered. -/
theorem recv_delivery_independent (fs : List Frame) (hfs : ClientScript fs) (tail : Bytes)
    (c₁ c₂ : Conn) (h₁ : Arrives c₁ fs tail) (h₂ : Arrives c₂ fs tail) :
    (recvBlocking c₁).1 = (recvBlocking c₂).1 := by
  obtain ⟨_, e₁, _⟩ := recvBlocking_wire tail h₁.2 fs hfs c₁ h₁.1
  obtain ⟨_, e₂, _⟩ := recvBlocking_wire tail h₂.2 fs hfs c₂ h₂.1
  rw [e₁, e₂]

/-- **Built on C10.** On a socket script without pauses a frame is read exactly as C10's `decodeFrame`
reads it from the chunk script (same frame or error, same chunks left over); with pauses the blocking
reads just sit them out (`readFrame_delivery_independent`). -/
theorem frame_read_is_c10_decoder (cs : List Bytes) :
    match decodeFrame cs with
    | .error e => readFrame (cs.map Ev.data) = .error e
    | .ok (f, r) => readFrame (cs.map Ev.data) = .ok (f, r.map Ev.data) :=
  readFrame_chunks cs

/-! ## Blocking and non-blocking receive -/

/-- **Agreement.** For ANY inbound script: (1) whenever `recv_nonblocking` returns something other
than "nothing yet", `recv` on the same connection returns the same result and leaves the same
connection (same bytes consumed, same replies written, same flags); (2) when it returns "nothing
yet" (reads never returning 0 bytes before the end), nothing is lost or reordered: `recv` afterwards
gives what `recv` would have given before. Hence any sequence of calls of either kind yields the same
messages, the non-blocking ones interspersed with "nothing yet". -/
theorem blocking_nonblocking_agree (c : Conn) :
    (∀ r c', recvNonblocking c = (r, c') → r ≠ .none → recvBlocking c = (r, c')) ∧
    (∀ c', recvNonblocking c = (.none, c') → NonEmptyData c.inbound →
      recvBlocking c = recvBlocking c') := by
  constructor
  · intro r c' h hr
    unfold recvNonblocking at h
    unfold recvBlocking
    cases hl : recvLoopNb (fuelFor c) c [] true with
    | mk r0 c0 =>
      rw [hl] at h
      have hr0 : r0 = r := by simpa [noteClosed] using congrArg Prod.fst h
      have := recvLoopNb_some _ _ _ _ _ _ hl (by rw [hr0]; exact hr)
      rw [this]; exact h
  · intro c' h hne
    unfold recvNonblocking at h
    cases hl : recvLoopNb (fuelFor c) c [] true with
    | mk r0 c0 =>
      rw [hl] at h
      have hr0 : r0 = .none := by simpa [noteClosed] using congrArg Prod.fst h
      subst hr0
      have hc0 : c0 = c' := by simpa [noteClosed] using congrArg Prod.snd h
      subst hc0
      unfold recvBlocking
      rw [recvLoopNb_none _ _ _ _ hl hne (by unfold fuelFor; omega)]

/-- On a client script, in particular: a non-blocking receive that returns a message returns the one
`Spec.messages` lists first. -/
theorem nonblocking_message_is_the_next (fs : List Frame) (hfs : ClientScript fs) (tail : Bytes)
    (c c' : Conn) (h : Arrives c fs tail) (t : Bool) (p : Bytes)
    (hr : recvNonblocking c = (.message t p, c')) :
    (messages fs).head? = some ⟨t, p⟩ := by
  have hb := (blocking_nonblocking_agree c).1 _ _ hr (by simp)
  obtain ⟨c1, e, _⟩ := recvBlocking_wire tail h.2 fs hfs c h.1
  rw [hb] at e
  have hm := next_messages none fs
  unfold messages
  cases hn : (next none fs).2 with
  | message m rest =>
    rw [hn] at e hm
    simp only [Next.result, Prod.mk.injEq, Result.message.injEq] at e
    obtain ⟨⟨e1, e2⟩, _⟩ := e
    rw [hm]; cases m; simp_all
  | closed rest => rw [hn] at e; simp [Next.result] at e
  | lost => rw [hn] at e; simp [Next.result] at e

/-- **"Nothing yet" only if nothing has started.** When `recv_nonblocking` answers "nothing yet", then
(`NothingStarted`) everything consumed by the call was a run of COMPLETE Ping/Pong frames (each read
to its end and answered), and at the point reached after them no byte was available: the script was
at its end or at a `notYet` moment. In particular a frame of which at least one byte has arrived is
never answered by "nothing yet". -/
theorem none_only_if_nothing_started (c c' : Conn) (h : recvNonblocking c = (.none, c')) :
    NothingStarted c.inbound c'.inbound := by
  unfold recvNonblocking at h
  cases hl : recvLoopNb (fuelFor c) c [] true with
  | mk r0 c0 =>
    rw [hl] at h
    have hr0 : r0 = .none := by simpa [noteClosed] using congrArg Prod.fst h
    subst hr0
    have hc0 : c0 = c' := by simpa [noteClosed] using congrArg Prod.snd h
    subst hc0
    exact recvLoopNb_nothingStarted _ _ _ _ hl

/-- Contrapositive, first step: if a byte of a frame is there (the script starts with a non-empty
segment) and the frame it begins is not a Ping or Pong, the answer is not "nothing yet". -/
theorem started_frame_is_received (c : Conn) (b : UInt8) (bs : Bytes) (s : List Ev)
    (hin : c.inbound = .data (b :: bs) :: s)
    (hdata : ∀ f s1, readFrame c.inbound = .ok (f, s1) → f.opcode ≠ .ping ∧ f.opcode ≠ .pong) :
    (recvNonblocking c).1 ≠ .none := by
  intro hnone
  have h : recvNonblocking c = (.none, (recvNonblocking c).2) := by rw [← hnone]
  have hs := none_only_if_nothing_started c _ h
  cases hs with
  | here ha _ =>
    rcases ha with h0 | ⟨t, h0⟩ | ⟨t, h0⟩ <;> rw [hin] at h0 <;> simp at h0
  | control hrf hctl _ =>
    obtain ⟨h1, h2⟩ := hdata _ _ hrf
    rcases hctl with hh | hh
    · exact h1 hh
    · exact h2 hh

/-- The receive loops are given enough fuel (`outOfFuel` is never a result). -/
theorem recv_fuel_suffices (c : Conn) :
    (recvBlocking c).1 ≠ .outOfFuel ∧ (recvNonblocking c).1 ≠ .outOfFuel := by
  have hb : (recvLoop (fuelFor c) c []).1 ≠ .outOfFuel :=
    recvLoop_fuel_ok _ _ _ (by unfold fuelFor; omega)
  constructor
  · unfold recvBlocking noteClosed; exact hb
  · unfold recvNonblocking noteClosed
    intro h
    cases hl : recvLoopNb (fuelFor c) c [] true with
    | mk r0 c0 =>
      rw [hl] at h
      simp only at h
      subst h
      have := recvLoopNb_some _ _ _ _ _ _ hl (by simp)
      rw [this] at hb
      exact hb rfl

/-! ## Non-vacuity: concrete conversations, by evaluation -/

/-- a masked Ping "abc", then the text message "Hi" in two fragments with a Pong in between -/
def demoScript : List Frame :=
  [ { fin := true, rsv1 := false, rsv2 := false, rsv3 := false, opcode := .ping, mask := true,
      length := 3, key := ⟨1, 2, 3, 4⟩, payload := [97, 98, 99] },
    { fin := false, rsv1 := false, rsv2 := false, rsv3 := false, opcode := .text, mask := true,
      length := 1, key := ⟨0x37, 0xfa, 0x21, 0x3d⟩, payload := [72] },
    { fin := true, rsv1 := false, rsv2 := false, rsv3 := false, opcode := .pong, mask := false,
      length := 0, key := Key.zero, payload := [] },
    { fin := true, rsv1 := false, rsv2 := false, rsv3 := false, opcode := .continuation, mask := true,
      length := 1, key := ⟨9, 9, 9, 9⟩, payload := [105] } ]

example : ClientScript demoScript := by
  intro f hf
  simp only [demoScript, List.mem_cons, List.not_mem_nil, or_false] at hf
  rcases hf with rfl | rfl | rfl | rfl <;> exact ⟨rfl, by decide⟩
example : messages demoScript = [⟨true, [72, 105]⟩] := by decide
example : replies demoScript = [reply .pong [97, 98, 99]] := by decide
example : hasClose demoScript = false := by decide
example : Truncated [] := truncated_nil
/-- the first header byte alone, a pause, the rest; then the end of the stream -/
example : (serve { inbound := [.data [0x89], .notYet, .data ((wire demoScript).drop 1)] }).1
    = [(true, [72, 105])] := by decide
example : (serve { inbound := [.data [0x89], .notYet, .data ((wire demoScript).drop 1)] }).2.2.outbound
    = [[0x8a, 0x03, 97, 98, 99], [0x88, 0x00]] := by decide
/-- the same delivery through `recv_nonblocking`: the lone header byte is waited for (D7) -/
example : (recvNonblocking { inbound := [.data [0x89], .notYet, .data ((wire demoScript).drop 1)] }).1
    = .message true [72, 105] := by decide
/-- nothing has started: "nothing yet", the pause is over afterwards -/
example : recvNonblocking { inbound := [.notYet, .data [0x81, 0x00]] }
    = (.none, { inbound := [.data [0x81, 0x00]] }) := by decide
example : NothingStarted [.notYet, .data [0x81, 0x00]] [.data [0x81, 0x00]] :=
  .here (.inr (.inl ⟨_, rfl⟩)) (by decide)
/-- an empty Ping is answered by an empty Pong (D6: it used to be answered by nothing) -/
example : (recvNonblocking { inbound := [.data [0x89, 0x00]] }).2.outbound = [[0x8a, 0x00]] := by
  decide
/-- a client Close with status 1000 is echoed, reported, and the drop then writes nothing -/
example : serve { inbound := [.data [0x88, 0x02, 0x03, 0xe8]] }
    = ([], .err .connectionClosed,
       { inbound := [], outbound := [[0x88, 0x02, 0x03, 0xe8]], closed := true }) := by decide

end Humphrey.WsMsg
