import HumphreyModel.Proofs.ConnStreamWitness

/-!
# C01 — the hypothesis `hcr` of `serve_meets_spec`, discharged from a condition on the byte stream

`Props/C01Spec.lean` proves that the connection loop meets its executable specification under `hcr`:
no request that parses from a suffix of the client stream has a bare CR in its version or
`Connection` value. Here `hcr` is derived from a condition that mentions only the BYTES the client
sends (`CRonlyBeforeLF`, `Proofs/ConnStream.lean`): no CR is immediately followed by a byte other
than LF. The condition is on the whole stream, bodies included: `hcr` quantifies over ALL suffixes of
the stream (a suffix may start inside a body, and a body may spell `GET / A\rB\r\n\r\n`), so no
condition that exempts bodies can imply `hcr` as stated. (Text bodies with CRLF line ends, JSON,
form data … satisfy it; a binary body with a stray CR does not.)

For arbitrary bodies the second half of this file removes the over-quantification instead:
`serve_meets_spec_at_boundaries` re-proves `serve_meets_spec` with `hcr` asked only at the positions
where the loop can start parsing (`ReqBoundary`), and `serve_meets_spec_clean_heads` discharges that
from `HeadsClean`: only the request line and header lines of each request of the stream must be free
of CRs followed by non-LF bytes.

The hypothesis is necessary: `bare_cr_stream_violates_spec` exhibits a 13-byte stream with a bare CR
in the version on which the loop (with a configuration that satisfies `CfgOk`) writes something the
specification rejects.
-/
namespace Humphrey.Http
open Humphrey Humphrey.Bytes Humphrey.IO

/-- **`hcr` from the byte stream.** If no CR of the client stream is followed by a byte other than
LF, every request that parses from any suffix of the stream is free of bare CRs in the texts the
response echoes. -/
theorem noBareCR_of_stream (env : Env) (s : Reader) (hs : CRonlyBeforeLF s.rest) :
    ∀ (b : Bytes) (req : Request) (b' : Bytes), b <:+ s.rest →
      parseRequest flatSource env b = .ok (req, b') → NoBareCR req :=
  fun b req b' hb hp => connStream_noBareCR env b req b' (connStream_suffix hs hb) hp

/-- The same for a byte string (no reader), and for the statement's stricter wording "every CR is
immediately followed by LF". -/
theorem noBareCR_of_clean_bytes (env : Env) (b : Bytes) (req : Request) (b' : Bytes)
    (hb : CRonlyBeforeLF b) (hp : parseRequest flatSource env b = .ok (req, b')) : NoBareCR req :=
  connStream_noBareCR env b req b' hb hp

theorem noBareCR_of_strict_stream (env : Env) (s : Reader) (hs : CRalwaysBeforeLF s.rest) :
    ∀ (b : Bytes) (req : Request) (b' : Bytes), b <:+ s.rest →
      parseRequest flatSource env b = .ok (req, b') → NoBareCR req :=
  noBareCR_of_stream env s (connStream_of_always hs)

/-- **The loop meets its executable specification on every clean stream** — no hypothesis about
parsed requests is left: for a configuration satisfying `CfgOk` and every reader (any segmentation
into reads, any placement of pauses) whose bytes never have a CR followed by a non-LF byte,
`checkConn` finds no violated clause other than the recorded CRLF pad after non-empty bodies. -/
theorem serve_meets_spec_clean_stream {κ ω : Type} (cfg : ConnCfg κ ω) (s : Reader) (hcfg : CfgOk cfg)
    (hs : CRonlyBeforeLF s.rest) :
    Spec.checkConn cfg readerIdle s (serve readerSource readerIdle cfg s).written
      (decide ((serve readerSource readerIdle cfg s).disposition = .handlerPanicked))
      ∈ [none, some "crlf-after-body"] :=
  serve_meets_spec cfg s hcfg (noBareCR_of_stream cfg.env s hs)

/-- Corollary: a clean byte stream cut into reads in any way (the condition is on the concatenation,
so it does not depend on the cut). -/
theorem serve_meets_spec_clean_any_segmentation {κ ω : Type} (cfg : ConnCfg κ ω) (reads : List Bytes)
    (hcfg : CfgOk cfg) (hs : CRonlyBeforeLF reads.flatten) :
    Spec.checkConn cfg readerIdle ⟨[], reads⟩ (serve readerSource readerIdle cfg ⟨[], reads⟩).written
      (decide ((serve readerSource readerIdle cfg ⟨[], reads⟩).disposition = .handlerPanicked))
      ∈ [none, some "crlf-after-body"] :=
  serve_meets_spec_clean_stream cfg ⟨[], reads⟩ hcfg (by simpa [Reader.rest] using hs)

/-- The condition is decidable on a concrete stream (`crOnlyBeforeLF`). -/
theorem cleanStream_decidable (s : Bytes) : crOnlyBeforeLF s = true ↔ CRonlyBeforeLF s :=
  connStream_bool_iff s

/-! ## Bodies unrestricted: the condition on request heads only -/

/-- **`hcr` is only needed at request boundaries.** `serve_meets_spec` with its hypothesis restricted
to the positions where the loop can actually start parsing (`ReqBoundary`: the start of the stream,
and the end of each non-upgrade keep-alive request parsed at a boundary) instead of all suffixes. -/
theorem serve_meets_spec_at_boundaries {κ ω : Type} (cfg : ConnCfg κ ω) (s : Reader) (hcfg : CfgOk cfg)
    (hcr : ∀ (b : Bytes) (req : Request) (b' : Bytes), ReqBoundary cfg.env s.rest b →
      parseRequest flatSource cfg.env b = .ok (req, b') → NoBareCR req) :
    Spec.checkConn cfg readerIdle s (serve readerSource readerIdle cfg s).written
      (decide ((serve readerSource readerIdle cfg s).disposition = .handlerPanicked))
      ∈ [none, some "crlf-after-body"] :=
  connFrames_serve_meets_spec cfg s hcfg hcr

/-- **Only the head matters.** A request parsed from `b` occupies `head ++ body ++ b'` (`body` its
content, `b'` what the parser left); if no CR of `head` — the request line and header lines — is
followed by a non-LF byte, the request has no bare CR in the echoed texts, whatever the body holds. -/
theorem noBareCR_of_clean_head (env : Env) (b : Bytes) (req : Request) (b' head : Bytes)
    (hp : parseRequest flatSource env b = .ok (req, b'))
    (hb : b = head ++ req.content.getD [] ++ b') (hclean : CRonlyBeforeLF head) : NoBareCR req :=
  connFrames_noBareCR_of_head env b req b' hp head hb hclean

/-- Such a `head` always exists (so the hypothesis `hb` above can be met). -/
theorem parsed_request_has_head (env : Env) (b : Bytes) (req : Request) (b' : Bytes)
    (hp : parseRequest flatSource env b = .ok (req, b')) :
    ∃ head, b = head ++ req.content.getD [] ++ b' := by
  obtain ⟨head, hb, _⟩ := connFrames_request_shape env b req b' hp
  exact ⟨head, hb⟩

/-- **The loop meets its executable specification on every stream whose request heads are clean**
(`HeadsClean`: in every request of the stream, as framed by the parser from the start of the stream,
the bytes before the body never have a CR followed by a non-LF byte). Request bodies may hold
arbitrary bytes. -/
theorem serve_meets_spec_clean_heads {κ ω : Type} (cfg : ConnCfg κ ω) (s : Reader) (hcfg : CfgOk cfg)
    (hs : HeadsClean cfg.env s.rest) :
    Spec.checkConn cfg readerIdle s (serve readerSource readerIdle cfg s).written
      (decide ((serve readerSource readerIdle cfg s).disposition = .handlerPanicked))
      ∈ [none, some "crlf-after-body"] :=
  serve_meets_spec_at_boundaries cfg s hcfg (fun b req b' hbd hp => by
    obtain ⟨head, hb⟩ := parsed_request_has_head cfg.env b req b' hp
    exact noBareCR_of_clean_head cfg.env b req b' head hp hb (hs b req b' head hbd hp hb))

/-- `HeadsClean` is weaker than `CRonlyBeforeLF` (so `serve_meets_spec_clean_stream` is an instance). -/
theorem headsClean_of_clean_stream (env : Env) (s0 : Bytes) (h : CRonlyBeforeLF s0) : HeadsClean env s0 :=
  connFrames_headsClean_of_clean env s0 h

/-! ## The hypothesis is necessary -/

/-- **Witness.** `GET / A\rB\r\n\r\n` (one read, no pauses) served by `sampleCfg` — which satisfies
`CfgOk` — is accepted by the request parser with version `A\rB`; the loop answers
`A\rB 200 OK\r\n…`, which is not an HTTP message, and the specification's verdict is
`response-not-an-http-message`: NOT one of the two the theorems above allow. So neither `hcr` in
`serve_meets_spec` nor `CRonlyBeforeLF` here can be dropped. -/
theorem bare_cr_stream_violates_spec :
    CfgOk sampleCfg ∧ ¬ CRonlyBeforeLF (⟨[], [bareCRStream]⟩ : Reader).rest ∧
    (∃ req b', parseRequest flatSource sampleCfg.env bareCRStream = .ok (req, b') ∧ ¬ NoBareCR req) ∧
    Spec.checkConn sampleCfg readerIdle ⟨[], [bareCRStream]⟩
      (serve readerSource readerIdle sampleCfg ⟨[], [bareCRStream]⟩).written
      (decide ((serve readerSource readerIdle sampleCfg ⟨[], [bareCRStream]⟩).disposition = .handlerPanicked))
      ∉ [none, some "crlf-after-body"] := by
  refine ⟨sampleCfg_ok, ?_, ⟨bareCRReq, [], rfl, ?_⟩, ?_⟩
  · rw [← connStream_bool_iff]; decide
  · intro h
    exact h.version 13 (by decide) rfl
  · rw [bareCR_verdict]; decide

/-! ## Non-vacuity -/

/-- The sample stream of `Props/C01Spec.lean` (`GET / HTTP/1.1\r\nConnection: keep-alive\r\n\r\n`) is
clean, … -/
example : CRonlyBeforeLF sampleStream := (connStream_bool_iff _).mp (by decide)

/-- … parses to a request (so `noBareCR_of_stream` is exercised on it), … -/
example : ∃ req b', parseRequest flatSource sampleCfg.env sampleStream = .ok (req, b') ∧ NoBareCR req :=
  ⟨_, _, rfl, noBareCR_of_clean_bytes sampleCfg.env sampleStream _ _
    ((connStream_bool_iff sampleStream).mp (by decide)) rfl⟩

/-- … and `serve_meets_spec_clean_stream` applies to it delivered in two reads followed by a pause
past the timeout, with no hypothesis left to discharge by enumeration of suffixes. -/
example : Spec.checkConn sampleCfg readerIdle ⟨[], [sampleStream.take 5, sampleStream.drop 5, []]⟩
    (serve readerSource readerIdle sampleCfg ⟨[], [sampleStream.take 5, sampleStream.drop 5, []]⟩).written
    (decide ((serve readerSource readerIdle sampleCfg
      ⟨[], [sampleStream.take 5, sampleStream.drop 5, []]⟩).disposition = .handlerPanicked))
    ∈ [none, some "crlf-after-body"] :=
  serve_meets_spec_clean_stream sampleCfg _ sampleCfg_ok ((connStream_bool_iff _).mp (by decide))

/-- A request with a body that contains CRLF line ends (and ends in a lone CR as the very last byte
of the stream) is clean too: `POST / H\r\nContent-Length: 4\r\n\r\na\r\n\r`. -/
example : CRonlyBeforeLF
    [80, 79, 83, 84, 32, 47, 32, 72, 13, 10,
     67, 111, 110, 116, 101, 110, 116, 45, 76, 101, 110, 103, 116, 104, 58, 32, 52, 13, 10, 13, 10,
     97, 13, 10, 13] := (connStream_bool_iff _).mp (by decide)

/-- Strictly weaker: `POST / H\r\nContent-Length: 3\r\n\r\n` + body `\rA\r` has clean heads but two bare
CRs in its body; `serve_meets_spec_clean_heads` applies, `serve_meets_spec_clean_stream` does not. -/
example : HeadsClean sampleCfg.env binaryBodyStream ∧ ¬ CRonlyBeforeLF binaryBodyStream :=
  ⟨binaryBody_headsClean, by rw [← connStream_bool_iff]; decide⟩

example : Spec.checkConn sampleCfg readerIdle ⟨[], [binaryBodyStream.take 20, binaryBodyStream.drop 20]⟩
    (serve readerSource readerIdle sampleCfg ⟨[], [binaryBodyStream.take 20, binaryBodyStream.drop 20]⟩).written
    (decide ((serve readerSource readerIdle sampleCfg
      ⟨[], [binaryBodyStream.take 20, binaryBodyStream.drop 20]⟩).disposition = .handlerPanicked))
    ∈ [none, some "crlf-after-body"] :=
  serve_meets_spec_clean_heads sampleCfg _ sampleCfg_ok (by
    have : (⟨[], [binaryBodyStream.take 20, binaryBodyStream.drop 20]⟩ : Reader).rest = binaryBodyStream := by
      decide
    rw [this]; exact binaryBody_headsClean)

/-- The request of that stream is parsed with its body intact (bare CRs and all). -/
example : parseRequest flatSource sampleCfg.env binaryBodyStream = .ok (binaryBodyReq, []) ∧
    binaryBodyReq.content = some [13, 65, 13] := ⟨binaryBody_parse, rfl⟩

/-- The strict wording implies the condition used. -/
example : CRalwaysBeforeLF [13, 10] → CRonlyBeforeLF [13, 10] := connStream_of_always

end Humphrey.Http
