import HumphreyModel.Model.PoolRestart
import HumphreyModel.Props.C08

/-!
# C08 for lifecycle scripts that start the pool more than once

Property theorems for `Model/PoolRestart.lean`: every reachable state of the several-runs system, i.e. every
interleaving of the caller (any script over start / execute / stop / start-again / drop), the N workers and the
recovery thread of EVERY run, for every N and every panicking subset. The clauses of the property are shown for every
run of the pool value (`m.runs`): the retired ones and the current one.

Not covered here (still judged by the executable predicates of `Spec/Pool.lean` only): "the pool returns to N usable
workers" for a retired run (`panic_recovery_restores` is about the one-run system) — for the current run the one-run
theorem applies as long as no restart has happened.
-/
namespace Humphrey.Pool
open PoolSpec

/-! ### The one-run clauses from the invariant alone -/

theorem exactly_once_of_inv {c : Cfg} {s : State} (hc : InvCount s) : ExactlyOnce (viewOf c s) := by
  have hsub : ∀ k, s.submitted.count k ≤ 1 := by
    rw [hc.sub]; exact List.nodup_iff_count.mp List.nodup_range
  have hsplit : ∀ k, s.submitted.count k = s.dequeued.count k + (queuedTasks s.queue).count k := by
    intro k; rw [← hc.fifo, List.count_append]
  have hrun_le : ∀ k, sumBy (runsC k) s.workers ≤ sumBy (holdsC k) s.workers := by
    intro k
    generalize s.workers = ws
    induction ws with
    | nil => simp [sumBy]
    | cons p ps ih =>
      have : runsC k p ≤ holdsC k p := by cases p <;> simp [runsC, holdsC, Phase.runs, Phase.holds]
      simp [sumBy]; omega
  refine ⟨hsub, ?_, ?_, ?_⟩
  · intro k
    have := hc.deq k; have := hsplit k
    simp only [viewOf, heldTasks, count_flatMap]
    show _ + sumBy (holdsC k) s.workers + _ + _ = _
    omega
  · intro k
    have := hc.deq k; have := hc.sta k; have := hsplit k; have := hsub k; have := hrun_le k
    simp only [viewOf]; omega
  · intro k
    have := hc.sta k
    simp only [viewOf, runningTasks, count_flatMap]
    show _ = sumBy (runsC k) s.workers + _ + _
    omega

theorem at_most_N_of_inv {c : Cfg} {s : State} (hs : InvStruct c s) : AtMostN (viewOf c s) := by
  simp only [AtMostN, viewOf, length_runningTasks, runningCount]
  exact Nat.le_trans (List.length_filter_le _ _) (workers_length_le hs)

theorem all_done_of_inv {c : Cfg} {s : State} (hn : 0 < c.n) (hi : Inv c s) (hT : Terminal c s)
    (hd : s.life = .dropped) : AllDone (viewOf c s) := by
  have hex := terminal_workers_exited hi hT hd
  constructor
  · intro k hk
    simp only [viewOf] at hk ⊢
    rcases hi.struct.shape with sh | ns
    · have h0 : ∃ p, s.workers[0]? = some p := by
        have : 0 < s.workers.length := by omega
        exact ⟨s.workers[0], by simp [this]⟩
      obtain ⟨p, hp⟩ := h0
      have pe := hex 0 p hp; subst pe
      have hq := hi.queue.drained 0 _ hp rfl
      have hf := hi.count.fifo
      simp [hq, queuedTasks] at hf
      have hheld : sumBy (holdsC k) s.workers = 0 :=
        sumBy_zero_of_all (fun w p hw => by rw [hex w p hw]; rfl)
      have hdq := hi.count.deq k
      have : 0 < s.dequeued.count k := by rw [hf]; exact List.count_pos_iff.mpr hk
      rcases Nat.eq_zero_or_pos (s.finished.count k) with z | pos
      · right; exact List.count_pos_iff.mp (by omega)
      · left; exact List.count_pos_iff.mp pos
    · simp [ns.2.2.2.1] at hk
  · simp only [viewOf, exitedCount, length_filter_eq_sumBy]
    exact sumBy_eq_length_of_all (fun w p hw => by rw [hex w p hw]; rfl)

/-! ### `retire` and `start`-again preserve the invariant -/

/-- Starting the pool again leaves the old run in a state that satisfies every invariant of the one-run system
(with the owner gone and the sender dropped). -/
theorem inv_retire {c : Cfg} {s : State} (hi : Inv c s) (hl : s.life = .started ∨ s.life = .stopped) :
    Inv c (retire s) := by
  have hsh : s.life ≠ .created ∧ s.workers.length = c.n ∧ s.recov ≠ .absent := by
    rcases hi.struct.shape with sh | ns
    · exact sh
    · rcases hl with h | h
      · exact absurd h ns.2.2.2.2.2.1
      · exact absurd h ns.2.2.2.2.2.2
  refine ⟨⟨hi.count.fifo, hi.count.deq, hi.count.sta, hi.count.sub, by simp [retire]⟩,
    ⟨.inl ⟨by simp [retire], hsh.2.1, hsh.2.2⟩, hi.struct.lockOwner, hi.struct.lockHeld, hi.struct.recv,
      hi.struct.recAlive⟩,
    ⟨by simp [retire], by simp [retire], by simp [retire]⟩,
    ⟨hi.queue.wf, by simp [retire], hi.queue.drained⟩⟩

theorem startedFresh_eq (c : Cfg) : step c init .start = some (startedFresh c) := by
  simp [step, init, startedFresh]

theorem inv_startedFresh (c : Cfg) : Inv c (startedFresh c) :=
  Inv.of_reachable ⟨[.start], by simp [run, runWith, startedFresh_eq]⟩

/-- The invariant of the several-runs system: every run satisfies the one-run invariant (for its own panicking set),
and every earlier run is in the dropped state (its sender is gone, nobody owns it). -/
structure MInv (c : MCfg) (m : MState) : Prop where
  cur : Inv (c.run m.past.length) m.cur
  past : ∀ g s, m.past[g]? = some s → Inv (c.run g) s ∧ s.life = .dropped

theorem life_dropped_step {c : Cfg} {s s' : State} {l : Label} (h : step c s l = some s') (hd : s.life = .dropped)
    (hc : s.caller = .done) : s'.life = .dropped ∧ s'.caller = .done := by
  cases l <;> simp only [step] at h
  all_goals (first
    | (simp [hd, hc] at h; done)
    | (repeat' split at h) <;> simp_all [setW] <;> (try (obtain ⟨_, rfl⟩ := h)) <;> simp_all
    | skip)
  all_goals (try (subst h; simp_all [setW, afterRecoveryHandle]))

theorem inv_step {c : Cfg} {s s' : State} {l : Label} (hi : Inv c s) (h : step c s l = some s') : Inv c s' :=
  have st := Step.of_step h
  ⟨invCount_step hi.count st, invStruct_step hi.struct st, invCaller_step hi.caller st,
    invQueue_step hi.struct hi.caller hi.queue st⟩

theorem minv_step {c : MCfg} {m m' : MState} {l : MLabel} (hi : MInv c m) (h : mstep c m l = some m') : MInv c m' := by
  cases l with
  | cur l =>
    simp only [mstep, Option.map_eq_some_iff] at h
    obtain ⟨s, hs, rfl⟩ := h
    exact ⟨inv_step hi.cur hs, hi.past⟩
  | past g l =>
    simp only [mstep] at h
    split at h
    · rename_i s hg
      simp only [Option.map_eq_some_iff] at h
      obtain ⟨s', hs, rfl⟩ := h
      obtain ⟨his, hd⟩ := hi.past g s hg
      have hd' := (life_dropped_step hs hd (his.caller.dropped.mp hd)).1
      refine ⟨by simpa using hi.cur, ?_⟩
      intro g' t ht
      simp only [List.getElem?_set] at ht
      split at ht
      · rename_i e; subst e
        split at ht
        · simp only [Option.some.injEq] at ht; subst ht; exact ⟨inv_step his hs, hd'⟩
        · simp at ht
      · exact hi.past g' t ht
    · simp at h
  | restart =>
    simp only [mstep] at h
    split at h
    · rename_i hc
      simp only [Option.some.injEq] at h; subst h
      refine ⟨by simpa using inv_startedFresh (c.run (m.past.length + 1)), ?_⟩
      intro g t ht
      simp only [List.getElem?_append] at ht
      split at ht
      · exact hi.past g t ht
      · rename_i hge
        have hlt : g - m.past.length < 1 := by
          rcases Nat.lt_or_ge (g - m.past.length) 1 with h | h
          · exact h
          · rw [List.getElem?_eq_none (by simpa using h)] at ht; simp at ht
        have hg : g = m.past.length := by omega
        subst hg
        simp at ht; subst ht
        exact ⟨inv_retire hi.cur hc.2, rfl⟩
    · simp at h

theorem minv_init (c : MCfg) : MInv c minit :=
  ⟨Inv.of_reachable ⟨[], rfl⟩, by simp [minit]⟩

theorem MInv.of_reachable {c : MCfg} {m : MState} (h : MReachable c m) : MInv c m := by
  obtain ⟨ls, hls⟩ := h
  have key : ∀ (ls : List MLabel) (m m' : MState), MInv c m → mrun c m ls = some m' → MInv c m' := by
    intro ls
    induction ls with
    | nil => intro m m' hm h; simp [mrun] at h; subst h; exact hm
    | cons l ls ih =>
      intro m m' hm h
      simp only [mrun] at h
      split at h
      · rename_i m1 h1; exact ih m1 m' (minv_step hm h1) h
      · simp at h
  exact key ls minit m (minv_init c) hls

/-- `m.runs[g]? = some s`: `s` is the state of the `g`-th run of the pool value (the last one is the current run). -/
theorem inv_of_run {c : MCfg} {m : MState} (h : MReachable c m) {g : Nat} {s : State} (hs : m.runs[g]? = some s) :
    Inv (c.run g) s := by
  have hi := MInv.of_reachable h
  simp only [MState.runs, List.getElem?_append] at hs
  split at hs
  · exact (hi.past g s hs).1
  · have hlt : g - m.past.length < 1 := by
      rcases Nat.lt_or_ge (g - m.past.length) 1 with h | h
      · exact h
      · rw [List.getElem?_eq_none (by simpa using h)] at hs; simp at hs
    have hg : g = m.past.length := by omega
    subst hg
    simp at hs; subst hs
    exact hi.cur

/-! ### The property's clauses for every run, in every reachable state of the several-runs system -/

/-- However often the pool is started again: in every run each submitted task is in exactly one place and no task
body is entered twice. -/
theorem restart_exactly_once {c : MCfg} {m : MState} (h : MReachable c m) {g : Nat} {s : State}
    (hs : m.runs[g]? = some s) : ExactlyOnce (viewOf (c.run g) s) := exactly_once_of_inv (inv_of_run h hs).count

/-- … no run ever has more than N of its tasks running at once … -/
theorem restart_at_most_N {c : MCfg} {m : MState} (h : MReachable c m) {g : Nat} {s : State}
    (hs : m.runs[g]? = some s) : AtMostN (viewOf (c.run g) s) := at_most_N_of_inv (inv_of_run h hs).struct

/-- … and every run hands its tasks out in submission order. -/
theorem restart_fifo {c : MCfg} {m : MState} (h : MReachable c m) {g : Nat} {s : State}
    (hs : m.runs[g]? = some s) : Fifo (viewOf (c.run g) s) := (inv_of_run h hs).count.fifo

/-- `start` on a started or stopped pool never waits for anything: it is enabled whenever the caller is outside
`drop`, whatever the old run's threads are doing (it takes no lock and joins nobody). -/
theorem restart_never_blocks (c : MCfg) (m : MState) (hc : m.cur.caller = .idle)
    (hl : m.cur.life = .started ∨ m.cur.life = .stopped) : (mstep c m .restart).isSome = true := by
  simp [mstep, hc, hl]

/-- Every step of a thread of an earlier run strictly decreases that run's `measure` and leaves every other run
alone: the threads left over from earlier runs can take only finitely many steps altogether. -/
theorem retired_step_decreases {c : MCfg} {m m' : MState} {g : Nat} {l : Label} (hm : MReachable c m)
    (h : mstep c m (.past g l) = some m') :
    ∃ s s', m.past[g]? = some s ∧ m'.past = m.past.set g s' ∧ m'.cur = m.cur ∧
      measure (c.run g) s' < measure (c.run g) s := by
  simp only [mstep] at h
  split at h
  · rename_i s hg
    simp only [Option.map_eq_some_iff] at h
    obtain ⟨s', hs, rfl⟩ := h
    refine ⟨s, s', hg, rfl, rfl, ?_⟩
    have hd := ((MInv.of_reachable hm).past g s hg).2
    have hsub : l.isSubmit = false := by
      cases l <;> simp [Label.isSubmit]
      simp [step, hd] at hs
    exact measure_decreases hs hsub
  · simp at h

/-- When no thread of an earlier run can move any more, every task submitted to that run has finished or panicked
and every one of its workers has left its loop — whether `stop` was called before the pool was started again or not. -/
theorem retired_all_done {c : MCfg} {m : MState} (hn : 0 < c.n) (hm : MReachable c m) {g : Nat} {s : State}
    (hg : m.past[g]? = some s) (hT : ∀ l, mstep c m (.past g l) = none) : AllDone (viewOf (c.run g) s) := by
  obtain ⟨hi, hd⟩ := (MInv.of_reachable hm).past g s hg
  refine all_done_of_inv (c := c.run g) hn hi ?_ hd
  intro l _
  have := hT l
  simp only [mstep, hg, Option.map_eq_none_iff] at this
  exact this

/-! ### `retire` against the one-run system (whose `Drop` path is tied to the code by trace acceptance) -/

/-- While the old run's recovery thread is idle, starting the pool again leaves the old run exactly where the four
steps of `Drop` would leave it — the part of `step` that real event logs exercise on every dropped pool. (`start`
differs from `Drop` only in not taking the `threads` mutex, i.e. in not waiting for `recov = waiting`.) -/
theorem retire_eq_drop {c : Cfg} {s : State} (hc : s.caller = .idle) (hl : s.life = .started ∨ s.life = .stopped)
    (hr : s.recov = .waiting) :
    run c s [.dropBegin, .dropDetachRecovery, .dropDetach, .dropSender] = some (retire s) := by
  rcases hl with hl | hl <;> simp [run, runWith, step, afterRecoveryHandle, retire, hc, hl, hr]

/-- Hence, in that case, the retired run is a reachable state of the one-run system and every one-run theorem of
`Props/C08.lean` (among them `panic_recovery_restores`) applies to it as it stands. -/
theorem retire_reachable {c : Cfg} {s : State} (h : Reachable c s) (hc : s.caller = .idle)
    (hl : s.life = .started ∨ s.life = .stopped) (hr : s.recov = .waiting) : Reachable c (retire s) :=
  h.run (retire_eq_drop hc hl hr)

/-! ### Non-vacuity -/

/-- N = 1: task 0 of the first run is still queued when the pool is started again without `stop`; the old worker
runs it, sees the disconnected channel and exits, next to the new run's worker running the new run's task 0. -/
def restartTrace : List MLabel :=
  [.cur .start, .cur (.submit 0), .restart, .cur (.submit 0),
   .past 0 (.reqLock 0), .past 0 (.lock 0), .past 0 (.recv 0), .past 0 (.unlock 0), .past 0 (.run 0),
   .cur (.reqLock 0), .cur (.lock 0), .cur (.recv 0), .cur (.unlock 0), .cur (.run 0),
   .past 0 (.finish 0), .cur (.finish 0),
   .past 0 (.reqLock 0), .past 0 (.lock 0), .past 0 (.recv 0), .past 0 (.unlock 0), .past 0 (.exit 0)]

example : (mrun { n := 1, panics := fun _ _ => false } minit restartTrace).map
    (fun m => (m.past.map (fun s => (s.finished, s.workers)), m.cur.finished, m.cur.life))
    = some ([([0], [.exited])], [0], .started) := by decide

/-- … and then nothing of the old run is enabled (the hypothesis of `retired_all_done` is satisfiable). -/
example : (mrun { n := 1, panics := fun _ _ => false } minit restartTrace).map
    (fun m => (candidates (m.past[0]?.getD init)).all (fun l => (mstep { n := 1, panics := fun _ _ => false } m (.past 0 l)).isNone))
    = some true := by decide

/-- `stop; start`: the stopped run's single `Shutdown` takes one worker out, the other one leaves on the disconnected
channel once `start` has replaced the sender. -/
example : (mrun { n := 2, panics := fun _ _ => false } minit
    [.cur .start, .cur .stop, .restart,
     .past 0 (.reqLock 0), .past 0 (.lock 0), .past 0 (.recv 0), .past 0 (.unlock 0), .past 0 (.exit 0),
     .past 0 (.reqLock 1), .past 0 (.lock 1), .past 0 (.recv 1), .past 0 (.unlock 1), .past 0 (.exit 1)]).map
    (fun m => m.past.map (fun s => s.workers)) = some [[.exited, .exited]] := by decide

/-- A task of the first run that is still running when the pool is started again and panics only afterwards: the
OLD run's recovery thread (detached, still alive) joins and respawns the worker, whose new incarnation finds the
disconnected channel and exits; the new run is not touched (its panicking set is its own: here empty). -/
example : (mrun { n := 1, panics := fun g k => g == 0 && k == 0 } minit
    [.cur .start, .cur (.submit 0), .cur (.reqLock 0), .cur (.lock 0), .cur (.recv 0), .cur (.unlock 0), .cur (.run 0),
     .restart, .cur (.submit 0),
     .past 0 (.panic 0), .past 0 (.markerSend 0), .past 0 (.recRecv 0), .past 0 .recJoin, .past 0 .recRespawn,
     .past 0 (.reqLock 0), .past 0 (.lock 0), .past 0 (.recv 0), .past 0 (.unlock 0), .past 0 (.exit 0),
     .cur (.reqLock 0), .cur (.lock 0), .cur (.recv 0), .cur (.unlock 0), .cur (.run 0), .cur (.finish 0)]).map
    (fun m => (m.past.map (fun s => (s.panicked, s.workers)), m.cur.finished, m.cur.workers))
    = some ([([0], [.exited])], [0], [.idle]) := by decide

/-- `start` is not `Drop`: with the old recovery thread in the middle of a respawn (holding the `threads` mutex),
`Drop`'s detach loop has to wait (`dropDetach` is not enabled) while starting the pool again goes through. -/
example : (mrun { n := 1, panics := fun _ k => k == 0 } minit
    [.cur .start, .cur (.submit 0), .cur (.reqLock 0), .cur (.lock 0), .cur (.recv 0), .cur (.unlock 0), .cur (.run 0),
     .cur (.panic 0), .cur (.markerSend 0), .cur (.recRecv 0)]).map
    (fun m => ((mstep { n := 1, panics := fun _ k => k == 0 } m .restart).isSome,
               (step { n := 1, panics := fun k => k == 0 } { m.cur with caller := .dropThreads } .dropDetach).isSome))
    = some (true, false) := by decide

end Humphrey.Pool
