import HumphreyModel.Proofs.ShutdownLive
import HumphreyModel.Proofs.ShutdownTokio

/-!
# C20 — a shutdown signal always ends `run`, promptly, and frees the port

Property theorems only. Model: `Model/Shutdown.lean` (transition system of `App::run` in `humphrey/src/app.rs`:
the calling thread, the accept thread, the kernel's accept queue, arrivals and the signal at any time; the
thread pool is the C08 system `Model/Pool.lean`, embedded, not re-modelled; second, smaller system: the tokio
`select!` loop). Spec: `Spec/Shutdown.lean`. All theorems quantify over every reachable state / every
execution: any number of connections in any traffic state, arriving at any time, any pool size (a saturated
pool is just a pool state), the signal at any point, every interleaving of caller, accept thread, workers and
recovery thread.

What the model assumes and the proofs therefore do not show: the loop-back connect reaches the listener while
it is open; the kernel frees the port when the listener is dropped; wall-clock bounds ("promptly" is: a bounded
number of steps none of which waits for anything but the steps named here).
-/
namespace Humphrey.Shutdown
open ShutdownSpec

/-! ### Order: the flag is visible before the wake-up connection exists -/

/-- In every execution of `run` the flag store precedes the wake-up connection. -/
theorem flag_before_wakeup {c : Cfg} {ls : List Label} {s : State} (h : run c (init c) ls = some s) :
    FlagBeforeWakeup (ls.map evOf) :=
  precedes_of_run ls (init c) s (Or.inl rfl) h

/-- State form: whenever the wake-up connection can be made, or is queued, or has just been accepted, the flag is
set — so the iteration that accepts it (or an earlier one) reads `true`. -/
theorem wakeup_sees_flag {c : Cfg} {s : State} (h : Reachable c s) :
    ((step c s .selfConnect).isSome = true → s.flag = true) ∧ (Entry.wake ∈ s.backlog → s.flag = true) ∧
      (s.acc = .checkFlag .wake → s.flag = true) := by
  have hi := Inv.of_reachable h
  refine ⟨?_, hi.wakeFlag, hi.handWake⟩
  intro hs
  by_cases hc : s.caller = .selfConnect
  · exact hi.flag.mpr (Or.inl hc)
  · simp [step, hc] at hs

/-! ### Until the signal the server serves -/

/-- As long as the signal has not been taken (in particular as long as it has not been sent) the accept thread
is in its loop, the port is open, the pool is started, and every connection accepted so far has been handed to
the pool, was refused by the connection condition / was an accept error, or is in the accept thread's hands right
now; every admitted connection has been handed to the pool or is about to be, and that `execute` is enabled
(it is a channel send, C08 `submit`: it cannot wait). -/
theorem serves_until_signal {c : Cfg} {s : State} (h : Reachable c s) (hw : s.caller = .waitSignal) :
    s.acc.inLoop = true ∧ s.listenerOpen = true ∧ s.pool.life = .started ∧ s.flag = false ∧ s.brokeOn = none ∧
    (∀ e, s.accepted.count e = (s.dispatched.map Prod.fst).count e + s.notServed.count e + handC s.acc e) ∧
    (∀ e, s.admitted.count e = (s.dispatched.map Prod.fst).count e + execC s.acc e) ∧
    (∀ e, s.acc = .execute e → (step c s .execute).isSome = true) := by
  have hi := Inv.of_reachable h
  have hcn := InvCount.of_reachable h
  have hf : s.flag = false := by
    cases hfl : s.flag with
    | false => rfl
    | true => have := hi.flag.mp hfl; simp [hw] at this
  have hloop : s.acc.inLoop = true := by
    cases ha : s.acc with
    | poolStop => have := (hi.pStop ha).1; simp [hf] at this
    | dropListener => have := (hi.pLis ha).1; simp [hf] at this
    | dropPool => have := (hi.pDrop ha).1; simp [hf] at this
    | exited => have := (hi.pExit ha).1; simp [hf] at this
    | _ => rfl
  have hl := hi.loop hloop
  refine ⟨hloop, hl.1, hl.2.1, hf, hl.2.2.2.1, ?_, hcn.adm, ?_⟩
  · intro e; have := hcn.acct e; simp [hl.2.2.2.1, brokeC] at this; exact this
  · intro e ha; simp [step, ha, Pool.step, hl.2.1, hl.2.2.1]

/-- The signal cannot have been taken before it was sent. -/
theorem not_sent_not_taken {c : Cfg} {s : State} (h : Reachable c s) (hs : s.signalSent = false) :
    s.caller = .waitSignal := by
  have hi := Inv.of_reachable h
  cases hc : s.caller <;> first | rfl | (have := hi.sig (by simp [hc]); simp [hs] at this)

/-! ### The accept loop exits -/

/-- From any reachable state — in particular from the moment the signal is taken — the accept thread performs at
most `|accept queue at that moment| + 1` further iterations, plus one for every connection that arrives before
the flag is stored (`lateArrivals`; arrivals after the store do not count, however many there are). -/
theorem accept_loop_exits {c : Cfg} {s s' : State} {ls : List Label} (h : Reachable c s) (hr : run c s ls = some s') :
    accepts ls ≤ s.backlog.length + 1 + lateArrivals c s ls := by
  have := run_bound ls s s' (Inv.of_reachable h) hr
  have hb : bound s ≤ s.backlog.length + 1 := by
    simp only [bound]; split
    · cases s.acc <;> simp [accB]
    · exact Nat.le_refl _
  omega

/-- Once the flag is stored: at most ONE more `accept` returns (the one that leads to `break`) and at most one
more connection — the one already past the flag check — is handed to the pool, whatever arrives. -/
theorem accept_loop_exits_flag_visible {c : Cfg} {s s' : State} {ls : List Label} (h : Reachable c s)
    (hf : s.flag = true) (hr : run c s ls = some s') : accepts ls ≤ 1 ∧ executes ls ≤ 1 := by
  have h1 := run_bound ls s s' (Inv.of_reachable h) hr
  have h2 := run_exec ls s s' hf hr
  rw [lateArrivals_zero ls s hf] at h1
  have hb : bound s ≤ 1 := by simp only [bound, hf]; cases s.acc <;> simp [accB]
  have he : execB s.acc ≤ 1 := by cases s.acc <;> simp [execB]
  exact ⟨by omega, by omega⟩

/-- No iteration waits for anything: after `accept` has returned, the flag check, the connection condition
(HYPOTHESIS `hc`: it returns on every connection) and `execute` (C08 `submit`: only enqueues) are enabled
whenever the accept thread is at them. -/
theorem accept_iteration_never_blocks {c : Cfg} {s : State} (hc : ∀ e, c.condHangs e = false) (h : Reachable c s) :
    (∀ e, s.acc = .checkFlag e → (step c s (.checkFlag s.flag)).isSome = true) ∧
    (∀ e, s.acc = .condition e → (step c s (.cond true)).isSome = true ∧ (step c s (.cond false)).isSome = true) ∧
    (∀ e, s.acc = .execute e → (step c s .execute).isSome = true) := by
  have hi := Inv.of_reachable h
  refine ⟨?_, ?_, ?_⟩
  · intro e ha
    cases hf : s.flag
    · by_cases he : e = .err <;> simp [step, ha, hf, he]
    · simp [step, ha, hf]
  · intro e ha; simp [step, ha, hc e]
  · intro e ha
    have hl := hi.loop (by simp [ha, Acc.inLoop])
    simp [step, ha, Pool.step, hl.2.1, hl.2.2.1]

/-! ### `run` returns -/

/-- Every step other than a client's arrival strictly decreases `measure` (an arrival adds 20 to it). -/
theorem measure_decreases {c : Cfg} {s s' : State} {l : Label} (h : step c s l = some s') (hl : l.isArrive = false) :
    measure c s' < measure c s :=
  (measure_step (Step.of_step h)).1 hl

/-- Hence every execution with finitely many arrivals is finite: an execution from `s` with `k` arrivals has at
most `measure c s + 20 * k` other steps — whatever the workers are doing (C08's measure is a summand). -/
theorem executions_finite {c : Cfg} {s s' : State} {ls : List Label} (h : run c s ls = some s') :
    otherSteps ls ≤ measure c s + 20 * arrivals ls := by
  have := run_measure ls s s' h; omega

/-- A maximal execution ends in a state where no step but an arrival is enabled (`Terminal`; the signal has then
been sent, for `signal` would be enabled otherwise). HYPOTHESIS `hc`: the connection condition returns. Every such
state is the state after a complete shutdown: `run` has returned, the listener is dropped, the pool has been stopped
and dropped — and nothing handed to the pool was lost: every dispatched connection's task has finished or panicked
and every worker has left its loop (C08 `terminal_all_done`; the accept thread gets through `drop(thread_pool)` by
C08 `drop_never_blocks`). -/
theorem run_returns {c : Cfg} {s : State} (hc : ∀ e, c.condHangs e = false) (hn : 0 < c.pool.n)
    (h : Reachable c s) (hT : Terminal c s) : (endOf s).shutDown ∧ (endOf s).nothingLost := by
  have hi := Inv.of_reachable h
  obtain ⟨hret, hacc⟩ := terminal_final hc hi hT
  have hex := hi.pExit hacc
  have hlife : s.pool.life = .dropped := (Pool.InvCaller.of_reachable hi.pool).dropped.mpr hex.2.2.2
  have hdone := Pool.terminal_all_done hn hi.pool (terminal_pool hT hex.2.2.2) hlife
  refine ⟨⟨by simp [endOf, hret], hex.2.1, hex.2.2.1, by simp [endOf, hlife]⟩, ?_, ?_⟩
  · simp only [endOf, unfinished, List.length_eq_zero_iff, List.filter_eq_nil_iff]
    intro x hx
    have hk : x.2 ∈ s.pool.submitted := by
      rw [← hi.subm]; exact List.mem_map_of_mem hx
    have := hdone.1 x.2 (by simpa [Pool.viewOf] using hk)
    simp only [Pool.viewOf] at this
    rcases this with hfin | hpan
    · simp [hfin]
    · simp [hpan]
  · have := hdone.2
    simp only [Pool.viewOf] at this
    simp [endOf, this]

/-- The driver's end-of-trace test `terminalB` (no candidate label is enabled) is `Terminal`. -/
theorem terminalB_iff_terminal {c : Cfg} {s : State} (h : Reachable c s) : terminalB c s = true ↔ Terminal c s :=
  terminalB_iff (Inv.of_reachable h)

/-- Without the hypothesis on the connection condition the theorem is false: a condition that hangs on a
connection stops the accept thread for good, and with it `run`. -/
example : ∃ s, Reachable { pool := ⟨1, fun _ => false⟩, condHangs := fun _ => true } s ∧ s.signalSent = true ∧
    s.caller = .joinAccept ∧ s.acc = .condition (.client 0 .justAccepted) ∧
    enabled { pool := ⟨1, fun _ => false⟩, condHangs := fun _ => true } s = [] :=
  ⟨_, ⟨[.arrive (.client 0 .justAccepted), .accept, .checkFlag false, .signal, .recvSignal, .storeFlag, .selfConnect,
        .worker (.reqLock 0), .worker (.lock 0)], rfl⟩, by decide, by decide, by decide, by decide⟩

/-! ### The shutdown path does not touch dispatched connections -/

/-- No step of the shutdown path (signal, the caller's four steps, `break`, `stop`, dropping the listener,
dropping the pool, the accept thread's exit) changes what any worker is doing or has done: the worker table, the
receiver's mutex, the logs of dequeued / started / finished / panicked tasks, the tasks waiting in the queue and the
table of dispatched connections are all unchanged. Workers are detached, never killed; `stop` only appends ONE
`Shutdown` message behind every queued task, `drop` only closes the channel's sending side. -/
theorem no_truncation_by_shutdown {c : Cfg} {s s' : State} {l : Label} (h : step c s l = some s')
    (hl : l.isShutdownPath = true) :
    s'.pool.workers = s.pool.workers ∧ s'.pool.rxLock = s.pool.rxLock ∧ s'.pool.dequeued = s.pool.dequeued ∧
    s'.pool.started = s.pool.started ∧ s'.pool.finished = s.pool.finished ∧ s'.pool.panicked = s.pool.panicked ∧
    Pool.queuedTasks s'.pool.queue = Pool.queuedTasks s.pool.queue ∧ s'.dispatched = s.dispatched := by
  cases Step.of_step h with
  | poolStop h1 h2 =>
    cases Pool.Step.of_step h2
    simp [Pool.queuedTasks_append, Pool.taskOf]
  | poolDrop h1 h2 h3 =>
    cases Pool.Step.of_step h3 <;> simp_all [isDropLabel, Pool.afterRecoveryHandle]
  | _ => first | (simp [Label.isShutdownPath] at hl; done) | simp

/-- What happens to tasks still QUEUED when the pool is stopped and dropped: in every reachable state every queued
task is AHEAD of the `Shutdown` message (nothing is ever queued behind it), every dispatched connection's task is
accounted for — waiting in the queue, held by exactly one worker, finished or panicked (C08 `exactly_once`) — and
workers see `Shutdown` / the closed channel only after the queue has drained (mpsc delivers what is buffered before
it reports the disconnect: `Pool.step (.recv w)`). Together with `run_returns`: queued tasks are not dropped, they
run after `run` has returned — provided the process is still there; `run` does not wait for them. -/
theorem queued_tasks_survive_drop {c : Cfg} {s : State} (h : Reachable c s) :
    (∀ pre post, s.pool.queue = pre ++ Pool.Msg.shutdown :: post → post = []) ∧
    (∀ e k, (e, k) ∈ s.dispatched →
      k ∈ Pool.queuedTasks s.pool.queue ∨ k ∈ Pool.heldTasks s.pool.workers ∨ k ∈ s.pool.finished ∨ k ∈ s.pool.panicked) ∧
    (∀ w, s.pool.senderAlive = false → s.pool.queue ≠ [] → s.pool.workers[w]? = some .inRecv →
      ∃ m q p, s.pool.queue = m :: q ∧ Pool.step c.pool s.pool (.recv w) = some p ∧ p.workers[w]? = some (.got (some m))) := by
  have hi := Inv.of_reachable h
  have hpi := Pool.Inv.of_reachable hi.pool
  refine ⟨hpi.queue.wf, ?_, ?_⟩
  · intro e k hek
    have hk : k ∈ s.pool.submitted := by
      rw [← hi.subm]; exact List.mem_map_of_mem (f := Prod.snd) hek
    have hx := (Pool.exactly_once hi.pool).2.1 k
    simp only [Pool.viewOf] at hx
    have hpos : 0 < s.pool.submitted.count k := List.count_pos_iff.mpr hk
    by_cases h1 : k ∈ Pool.queuedTasks s.pool.queue; · exact Or.inl h1
    by_cases h2 : k ∈ Pool.heldTasks s.pool.workers; · exact Or.inr (Or.inl h2)
    by_cases h3 : k ∈ s.pool.finished; · exact Or.inr (Or.inr (Or.inl h3))
    by_cases h4 : k ∈ s.pool.panicked; · exact Or.inr (Or.inr (Or.inr h4))
    have := List.count_eq_zero_of_not_mem h1
    have := List.count_eq_zero_of_not_mem h2
    have := List.count_eq_zero_of_not_mem h3
    have := List.count_eq_zero_of_not_mem h4
    omega
  · intro w _ hq hw
    cases hqq : s.pool.queue with
    | nil => exact absurd hqq hq
    | cons m q =>
      refine ⟨m, q, { Pool.setW s.pool w (.got (some m)) with queue := q, dequeued := s.pool.dequeued ++ Pool.taskOf m },
        rfl, by simp [Pool.step, hw, hqq], ?_⟩
      have hlt : w < s.pool.workers.length := Pool.lt_of_getElem?_some hw
      simp [Pool.setW, hlt]

/-- The other side of the coin, stated so that nobody has to find it out: the connection the accept thread has in
its hands when it reads `true` is dropped unserved, and so is everything still in the accept queue when the
listener is dropped — even a client that connected before the signal was sent. (Those are not "requests received
before the signal": `accept` had not returned them. The harness sees them as connections closed without a byte.) -/
example : (run { pool := ⟨1, fun _ => false⟩ } (init { pool := ⟨1, fun _ => false⟩ })
    [.arrive (.client 0 .handlerShort), .arrive (.client 1 .handlerShort), .signal, .recvSignal, .storeFlag,
     .accept, .checkFlag true, .selfConnect, .poolStop, .dropListener]).map
      (fun s => (s.brokeOn, s.lostBacklog, s.dispatched))
    = some (some (.client 0 .handlerShort), [.client 1 .handlerShort, .wake], []) := by decide

/-! ### Non-vacuity: a complete run with two connections and the signal in between -/

def demoCfg : Cfg := { pool := ⟨1, fun _ => false⟩ }

/-- One worker. Client 0 (a long handler) is accepted and dispatched, its task starts; the signal is sent; client 1
arrives and is accepted and dispatched before the flag is stored (its task is QUEUED behind the running one: the pool
is saturated); the caller stores the flag and connects; the accept thread takes the wake-up connection, reads `true`,
stops the pool, drops listener and pool and ends; `run` returns while task 0 is still running and task 1 still
queued; afterwards the worker finishes 0, runs 1, takes `Shutdown`, leaves. -/
def demoTrace : List Label :=
  [.arrive (.client 0 .handlerLong), .accept, .checkFlag false, .cond true, .execute,
   .worker (.reqLock 0), .worker (.lock 0), .worker (.recv 0), .worker (.unlock 0), .worker (.run 0),
   .signal, .arrive (.client 1 .responseWriting), .recvSignal, .accept, .checkFlag false, .cond true, .execute,
   .storeFlag, .selfConnect, .accept, .checkFlag true, .poolStop, .dropListener,
   .poolDrop .dropBegin, .poolDrop .dropDetachRecovery, .poolDrop .dropDetach, .poolDrop .dropSender, .exit,
   .joinAccept,
   .worker (.finish 0), .worker (.reqLock 0), .worker (.lock 0), .worker (.recv 0), .worker (.unlock 0),
   .worker (.run 0), .worker (.finish 0), .worker (.reqLock 0), .worker (.lock 0), .worker (.recv 0),
   .worker (.unlock 0), .worker (.exit 0)]

example : (run demoCfg (init demoCfg) demoTrace).map (fun s => (s.caller, s.acc, s.listenerOpen, s.stopDone))
    = some (.returned, .exited, false, true) := by decide

example : (run demoCfg (init demoCfg) demoTrace).map (fun s => (s.pool.life, s.pool.finished, s.pool.workers))
    = some (.dropped, [0, 1], [.exited]) := by decide

example : (run demoCfg (init demoCfg) demoTrace).map (terminalB demoCfg) = some true := by decide

example : (run demoCfg (init demoCfg) demoTrace).map (fun s => (s.dispatched, s.brokeOn, unfinished s))
    = some ([(.client 0 .handlerLong, 0), (.client 1 .responseWriting, 1)], some .wake, 0) := by decide

/-- at the moment `run` returns (prefix up to `joinAccept`) task 0 is running and task 1 is still queued -/
example : (run demoCfg (init demoCfg) (demoTrace.take 29)).map
    (fun s => (s.caller, s.pool.workers, Pool.queuedTasks s.pool.queue, s.pool.queue))
    = some (.returned, [.running 0], [1], [.task 1, .shutdown]) := by decide

/-- `serves_until_signal` and `accept_loop_exits_flag_visible` have instances: before `recvSignal` the caller waits;
after `storeFlag` the flag is set -/
example : (run demoCfg (init demoCfg) (demoTrace.take 12)).map (fun s => (s.caller, s.signalSent, s.flag))
    = some (.waitSignal, true, false) := by decide
example : (run demoCfg (init demoCfg) (demoTrace.take 18)).map (fun s => (s.flag, s.backlog.length))
    = some (true, 0) := by decide

/-! ### The tokio loop (`select!` over `cancelled()` / `accept()`) -/

namespace Tokio

/-- Until the token is cancelled the loop is at `select!` or busy with a connection, and the port is open. -/
theorem tokio_serves_until_cancel {h : Entry → Bool} {s : State} (hr : Reachable h s) (hc : s.cancelled = false) :
    s.pc ≠ .dropListener ∧ s.pc ≠ .returned ∧ s.listenerOpen = true := by
  have hi := Inv.of_reachable hr
  have h1 : s.pc ≠ .dropListener := fun hp => by have := hi.left (Or.inl hp); simp [hc] at this
  have h2 : s.pc ≠ .returned := fun hp => by have := hi.left (Or.inr hp); simp [hc] at this
  refine ⟨h1, h2, ?_⟩
  cases hl : s.listenerOpen with
  | true => rfl
  | false => exact absurd (hi.closed.mp hl) h2

/-- Every step other than an arrival decreases the measure: executions with finitely many arrivals are finite.
(`select!` picks among ready branches at random, so connections that are already queued may still be taken after
the cancellation; each such iteration uses one up.) -/
theorem tokio_measure_decreases {h : Entry → Bool} {s s' : State} {l : Label} (hs : step h s l = some s')
    (hl : l.isArrive = false) : measure s' < measure s :=
  (measure_step hs).1 hl

/-- HYPOTHESIS `hc`: the connection condition returns. When nothing but an arrival can happen any more, `run` has
returned and the listener is dropped (spawned tasks belong to the runtime: the model says nothing about them). -/
theorem tokio_run_returns {h : Entry → Bool} {s : State} (hc : ∀ e, h e = false) (hr : Reachable h s)
    (hT : Terminal h s) : s.pc = .returned ∧ s.listenerOpen = false ∧ s.cancelled = true := by
  have hi := Inv.of_reachable hr
  have hp := terminal_returned hc hT
  exact ⟨hp, hi.closed.mpr hp, hi.left (Or.inr hp)⟩

/-- two connections, the cancellation in between; the second one is still taken (it was ready) -/
example : (run (fun _ => false) init
    [.arrive (.client 0 .handlerLong), .takeAccept, .cond true, .spawn, .arrive (.client 1 .handlerShort), .cancel,
     .takeAccept, .cond true, .spawn, .takeCancelled, .dropListener]).map
      (fun s => (s.pc, s.listenerOpen, s.spawned, enabled (fun _ => false) s))
    = some (.returned, false, [.client 0 .handlerLong, .client 1 .handlerShort], []) := by decide

end Tokio

end Humphrey.Shutdown
